// Canonical text for Au's compile-time packs: Dimension<...> and Magnitude<...>.
//   dim:  "d<index>^<num>/<den>" joined by ","      (empty pack: "-")
//   mag:  "p<prime>^<num>/<den>" or "pi^<num>/<den>" joined by ","
#pragma once
#include <string>
#include "au/dimension.hh"
#include "au/magnitude.hh"
#include "au/unit_of_measure.hh"

namespace vser {
template <typename B> struct BaseName {
    static std::string str() { return "d" + std::to_string((long long)B::base_dim_index); }
};
template <std::uintmax_t N> struct BaseName<au::Prime<N>> {
    static std::string str() { return "p" + std::to_string((unsigned long long)N); }
};
template <> struct BaseName<au::Pi> {
    static std::string str() { return "pi"; }
};
template <typename BP> std::string bp_str() {
    return BaseName<au::BaseT<BP>>::str() + "^" + std::to_string((long long)au::ExpT<BP>::num) + "/" +
           std::to_string((long long)au::ExpT<BP>::den);
}
inline std::string join(std::initializer_list<std::string> xs) {
    std::string r;
    for (const auto &x : xs) { if (!r.empty()) r += ","; r += x; }
    return r.empty() ? "-" : r;
}
template <typename T> struct Ser;
template <typename... BPs> struct Ser<au::Dimension<BPs...>> {
    static std::string str() { return join({bp_str<BPs>()...}); }
};
template <typename... BPs> struct Ser<au::Magnitude<BPs...>> {
    static std::string str() { return join({bp_str<BPs>()...}); }
};
template <typename U> std::string dim_str() { return Ser<au::detail::DimT<U>>::str(); }
template <typename U> std::string mag_str() { return Ser<au::detail::MagT<U>>::str(); }
template <typename M> std::string magnitude_str(M) { return Ser<M>::str(); }
}  // namespace vser

// Exact-count UBSan handlers for the clang "minimal runtime" ABI (-fsanitize-minimal-runtime).
//
// The full UBSan runtimes of g++ 12 and clang 14 report each source location ONCE per process (the
// location is disabled after its first report; no runtime option re-enables it), and g++'s shared
// libubsan never calls an executable's __ubsan_on_report.  A harness that evaluates many inputs in one
// process would therefore attribute a report to at most the first offending input.  With the minimal
// runtime the instrumentation calls one argument-less handler per check kind; we define them here, so
// EVERY execution of an undefined operation calls the harness's __ubsan_on_report() and execution
// continues (recover mode).  Linked only into builds made with vlib.cxx(san="exact").
#include <cstdio>
extern "C" void __ubsan_on_report(void);
static void hit(const char* kind, void* pc) {
    static long printed = 0;
    if (printed++ < 200) std::fprintf(stderr, "pc=%p: runtime error: %s (exact-count handler)\n", pc, kind);
    __ubsan_on_report();
}
#define H(name, text)                                                                          \
    extern "C" void __ubsan_handle_##name##_minimal(void) { hit(text, __builtin_return_address(0)); }       \
    extern "C" void __ubsan_handle_##name##_minimal_abort(void) { hit(text, __builtin_return_address(0)); }
H(type_mismatch, "type mismatch / misaligned or null access")
H(alignment_assumption, "alignment assumption violated")
H(add_overflow, "integer overflow in addition")
H(sub_overflow, "integer overflow in subtraction")
H(mul_overflow, "integer overflow in multiplication")
H(negate_overflow, "integer overflow in negation")
H(divrem_overflow, "division by zero or INT_MIN / -1")
H(shift_out_of_bounds, "shift out of bounds")
H(out_of_bounds, "index out of bounds")
H(builtin_unreachable, "reached __builtin_unreachable")
H(missing_return, "missing return")
H(vla_bound_not_positive, "non-positive VLA bound")
H(float_cast_overflow, "float cast overflow")
H(load_invalid_value, "load of invalid bool/enum value")
H(invalid_builtin, "invalid builtin argument")
H(invalid_objc_cast, "invalid objc cast")
H(function_type_mismatch, "function type mismatch")
H(implicit_conversion, "implicit conversion changed the value")
H(nonnull_arg, "null passed as nonnull argument")
H(nonnull_return, "null returned from nonnull function")
H(nullability_arg, "null passed as _Nonnull argument")
H(nullability_return, "null returned from _Nonnull function")
H(pointer_overflow, "pointer arithmetic overflow")
H(cfi_check_fail, "cfi check failed")

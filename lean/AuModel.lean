import AuModel.Arith
import AuModel.ApplyMag

/-
  AuModel.ApplyMag — `apply_magnitude.hh` and `apply_rational_magnitude_to_integral.hh`
  for integral `T` and a positive rational factor `N / D` in lowest terms, transcribed clause by
  clause.  `x` is the stored value (in range of `T`).

  `gvInt T n` is `get_value_result<T>(mag<n>())` for an integer magnitude: `some n` when it fits,
  `none` for ERR_CANNOT_FIT.  (The library's evaluation of integer magnitudes is modelled in full
  in `AuModel.GetValue`; `gvInt` is its specification for magnitudes whose prime bases are below
  2^63 — see finding F1 for the rest.)
-/
import AuModel.Arith

namespace Au
open IntTy

def gvInt (t : IntTy) (n : Nat) : Option Int :=
  if (n : Int) ≤ t.hi then some (n : Int) else none

/-- `ApplyAs` restricted to rational magnitudes. -/
inductive Cat where
  | intMul | intDiv | rational
deriving DecidableEq, Repr

/-- `categorize_magnitude` (N, D coprime and positive). -/
def categorize (N D : Nat) : Cat :=
  if D = 1 then .intMul else if N = 1 then .intDiv else .rational

/-- `clamp_to_range_of<T>(v)` (the comparisons are the mathematically exact `stdx::cmp_*`). -/
def clampTo (t : IntTy) (v : Int) : Int :=
  if v > t.hi then t.hi else if v < t.lo then t.lo else v

/-- `is_known_to_be_less_than_one`: numerator known to fit `uintmax_t`; denominator may not. -/
def lessThanOne (N D : Nat) : Bool :=
  match gvInt u64 D with
  | some d => (N : Int) < d
  | none => true

/-- `MaxNonOverflowingValue<T, N/D>::value()`. -/
def maxNonOverflowing (t : IntTy) (N D : Nat) : Int :=
  let p := t.promote
  match gvInt p N with
  | none => 0
  | some n =>
    if lessThanOne N D then clampTo t (Int.tdiv p.hi n)
    else
      match gvInt p D with
      | none => 0        -- unreachable: N > D and N fits `p` (lemma `den_fits_of_not_lessThanOne`)
      | some den =>
        let limit := if den > Int.tdiv p.hi t.hi then p.hi else t.hi * den
        clampTo t (Int.tdiv limit n)

/-- `MinNonOverflowingValue<T, N/D>::value()` (signed `T` only). -/
def minNonOverflowing (t : IntTy) (N D : Nat) : Int :=
  let p := t.promote
  match gvInt p N with
  | none => 0
  | some n =>
    if lessThanOne N D then clampTo t (Int.tdiv p.lo n)
    else
      match gvInt p D with
      | none => 0
      | some den =>
        let limit := if den > Int.tdiv p.lo t.lo then p.lo else t.lo * den
        clampTo t (Int.tdiv limit n)

/-- `OverflowChecker<T, valid>::would_product_overflow(x, mag)` for integral `T`. -/
def wouldProductOverflow (t : IntTy) (x : Int) (m : Option Int) : Bool :=
  match m with
  | some mv => decide (x > Int.tdiv t.hi mv) || decide (x < Int.tdiv t.lo mv)
  | none => decide (x ≠ 0)

/-- `TruncationChecker<T, valid>::would_truncate(x, mag)` for integral `T`. -/
def truncationChecker (x : Int) (m : Option Int) : Bool :=
  match m with
  | some mv => decide (Int.tmod x mv ≠ 0)
  | none => decide (x ≠ 0)

/-- `ApplyMagnitudeT<T, N/D>::would_overflow(x)`. -/
def wouldOverflow (t : IntTy) (N D : Nat) (x : Int) : Bool :=
  match categorize N D with
  | .intMul => wouldProductOverflow t x (gvInt t N)
  | .intDiv => false
  | .rational =>
    if t.signed then
      !(decide (x ≤ maxNonOverflowing t N D) && decide (x ≥ minNonOverflowing t N D))
    else
      !(decide (x ≤ maxNonOverflowing t N D))

/-- `ApplyMagnitudeT<T, N/D>::would_truncate(x)`. -/
def wouldTruncate (t : IntTy) (N D : Nat) (x : Int) : Bool :=
  match categorize N D with
  | .intMul => false
  | .intDiv => truncationChecker x (gvInt t D)
  | .rational => truncationChecker x (gvInt t.promote D)   -- checked in the promoted type (fix of F8)

/-- `is_conversion_lossy(q, unit)` (no change of rep). -/
def isLossy (t : IntTy) (N D : Nat) (x : Int) : Bool :=
  wouldTruncate t N D x || wouldOverflow t N D x

/-- Whether `apply_magnitude` (hence `coerce_in` / `coerce_as`) compiles: the `get_value<…>`
static_asserts the chosen operator needs. -/
def compiles (t : IntTy) (N D : Nat) : Bool :=
  match categorize N D with
  | .intMul => (gvInt t N).isSome
  | .intDiv => (gvInt t D).isSome
  | .rational => (gvInt t.promote N).isSome && (gvInt t.promote D).isSome

/-- The result of `apply_magnitude(x, N/D)` in `T`: every intermediate is evaluated in the
promoted type, the final conversion back to `T` is modular and flagged `narrowed` if lossy. -/
structure ApplyResult where
  val : Eval Int            -- value returned (after conversion to `T`)
  wrapped : Bool            -- an unsigned intermediate wrapped around
  narrowed : Bool           -- the final conversion to `T` changed the value
deriving Repr, DecidableEq

def finish (t : IntTy) (s : Step) : ApplyResult :=
  match s.val with
  | .ok v => ⟨.ok (t.wrap v), s.wrapped, decide (t.wrap v ≠ v)⟩
  | .ub w => ⟨.ub w, s.wrapped, false⟩

def applyMag (t : IntTy) (N D : Nat) (x : Int) : ApplyResult :=
  let p := t.promote
  match categorize N D with
  | .intMul => finish t (mulIn p x N)
  | .intDiv => finish t (divIn p x D)
  | .rational =>
    let s := mulIn p x N
    match s.val with
    | .ok v =>
      let q := divIn p v D
      finish t ⟨q.val, s.wrapped || q.wrapped⟩
    | .ub w => ⟨.ub w, s.wrapped, false⟩

end Au

namespace Au
open IntTy

/-! ### Certificates: interval / modulus descriptions of the checkers, used by the exhaustive
correspondence sweeps.  `AuProofs.Lemmas.Cert` proves they describe the pointwise functions. -/

/-- The set of in-range `x` on which `wouldOverflow` is false, as a closed interval. -/
def okInterval (t : IntTy) (N D : Nat) : Int × Int :=
  match categorize N D with
  | .intMul =>
    match gvInt t N with
    | some mv => (Int.tdiv t.lo mv, Int.tdiv t.hi mv)
    | none => (0, 0)
  | .intDiv => (t.lo, t.hi)
  | .rational => (if t.signed then minNonOverflowing t N D else t.lo, maxNonOverflowing t N D)

/-- How `wouldTruncate` depends on `x`. -/
inductive TruncKind where
  | never
  | modulus (d : Int)      -- truncates iff `x % d ≠ 0`
  | nonzero                -- truncates iff `x ≠ 0`
deriving Repr, DecidableEq

def truncKind (t : IntTy) (N D : Nat) : TruncKind :=
  match categorize N D with
  | .intMul => .never
  | .intDiv => match gvInt t D with
    | some d => .modulus d
    | none => .nonzero
  | .rational => match gvInt t.promote D with
    | some d => .modulus d
    | none => .nonzero

def TruncKind.eval : TruncKind → Int → Bool
  | .never, _ => false
  | .modulus d, x => decide (Int.tmod x d ≠ 0)
  | .nonzero, x => decide (x ≠ 0)

end Au

/-
  AuModel.Arith — C++ integer arithmetic on the LP64 target the repository builds on.

  Values are unbounded `Int`; a type is (bits, signedness) with an explicit range.  Arithmetic
  in a type is performed in the *promoted* type (integral promotion), signed overflow there is
  undefined behaviour (`Eval.ub`), unsigned overflow wraps and is flagged separately, and a
  conversion to a narrower type is the modular `wrap`.  Core Lean only (no Mathlib): this file is
  linked into the compiled driver.
-/
namespace Au

structure IntTy where
  bits : Nat
  signed : Bool
deriving DecidableEq, Repr

namespace IntTy
def i8 : IntTy := ⟨8, true⟩
def u8 : IntTy := ⟨8, false⟩
def i16 : IntTy := ⟨16, true⟩
def u16 : IntTy := ⟨16, false⟩
def i32 : IntTy := ⟨32, true⟩
def u32 : IntTy := ⟨32, false⟩
def i64 : IntTy := ⟨64, true⟩
def u64 : IntTy := ⟨64, false⟩

/-- The eight integral reps of the properties. -/
def all : List IntTy := [i8, u8, i16, u16, i32, u32, i64, u64]

def lo (t : IntTy) : Int := if t.signed then -(2 ^ (t.bits - 1) : Int) else 0
def hi (t : IntTy) : Int := if t.signed then 2 ^ (t.bits - 1) - 1 else 2 ^ t.bits - 1
def inRange (t : IntTy) (x : Int) : Prop := t.lo ≤ x ∧ x ≤ t.hi
instance (t : IntTy) (x : Int) : Decidable (t.inRange x) := by unfold inRange; infer_instance

/-- Integral promotion: everything narrower than `int` becomes `int`. -/
def promote (t : IntTy) : IntTy := if t.bits < 32 then i32 else t

/-- Usual arithmetic conversions on two (already promoted) integer types. -/
def uac (a b : IntTy) : IntTy :=
  let a := a.promote; let b := b.promote
  if a = b then a
  else if a.signed = b.signed then (if a.bits < b.bits then b else a)
  else
    let (s, u) := if a.signed then (a, b) else (b, a)
    if s.bits ≤ u.bits then u else s      -- LP64: a wider signed type holds every narrower unsigned

/-- `std::common_type_t<A, B>` on integral types: identical types stay, otherwise `uac`. -/
def common (a b : IntTy) : IntTy := if a = b then a else uac a b

/-- Conversion to `t` (modular, as every supported compiler implements it). -/
def wrap (t : IntTy) (x : Int) : Int :=
  let m : Int := 2 ^ t.bits
  let r := x % m
  if t.signed && r ≥ 2 ^ (t.bits - 1) then r - m else r

def name (t : IntTy) : String := (if t.signed then "i" else "u") ++ toString t.bits

def ofName? (s : String) : Option IntTy :=
  all.find? (fun t => t.name == s)
end IntTy

/-- Result of evaluating a C++ expression: a value, or undefined behaviour. -/
inductive Eval (α : Type) where
  | ok (a : α)
  | ub (why : String)
deriving Repr, DecidableEq

/-- Outcome of one arithmetic step performed in type `p`, together with the "unsigned wrap"
flag (not UB in C++, but forbidden in intermediates by property C03). -/
structure Step where
  val : Eval Int
  wrapped : Bool
deriving Repr, DecidableEq

/-- `a * b` evaluated in the (promoted) type `p`. -/
def mulIn (p : IntTy) (a b : Int) : Step :=
  let r := a * b
  if p.signed then
    if p.inRange r then ⟨.ok r, false⟩ else ⟨.ub "signed overflow in multiplication", false⟩
  else
    ⟨.ok (p.wrap r), !(decide (p.inRange r))⟩

/-- `a / b` evaluated in type `p` (C++ truncating division). -/
def divIn (p : IntTy) (a b : Int) : Step :=
  if b = 0 then ⟨.ub "division by zero", false⟩
  else if p.signed && a = p.lo && b = -1 then ⟨.ub "signed overflow in division", false⟩
  else ⟨.ok (Int.tdiv a b), false⟩

/-- `a % b` evaluated in type `p` (C++ remainder, sign of the dividend). -/
def modIn (p : IntTy) (a b : Int) : Step :=
  if b = 0 then ⟨.ub "remainder by zero", false⟩
  else if p.signed && a = p.lo && b = -1 then ⟨.ub "signed overflow in remainder", false⟩
  else ⟨.ok (Int.tmod a b), false⟩

end Au

/-
  AuModel.Chrono — `chrono_interop.hh` and the parts of `quantity.hh`, `conversion_policy.hh`,
  `magnitude.hh`, `packs.hh` it runs through, together with libstdc++'s `std::chrono::duration`
  (`common_type`, `duration_cast`, the mixed operators) as the reference the property compares with.

  Scope of the model (property C17): quantities whose unit is `Seconds × (positive rational)`, reps
  int32/int64/float/double.  A unit is therefore identified with its magnitude, an integer-exponent
  pack over prime bases (`Magnitude<Pow<Prime<p>, e>...>`; no π, no fractional exponents occur).
  Same-width distinct C++ types (`long` / `long long`) are identified.

  Floating point: a finite float value is the rational it denotes; every rounding goes through a
  parameter `R : Fmt → Rat → Option Rat` (`none` = the result is not finite).  The driver
  instantiates it with round-to-nearest-even (`rne` below); the theorems hold for every `R`
  satisfying the two facts named in `AuProofs.C17`.

  Core Lean only (no Mathlib): this file is linked into the compiled driver.  Everything lives in
  `namespace Au.Chrono`.
-/
import AuModel.Arith

namespace Au.Chrono
open Au

/-! ## Magnitudes: `packs.hh` / `magnitude.hh` on integer-exponent prime packs -/

/-- `Magnitude<Pow<Prime<p>, e>...>` as the list of (base, exponent). -/
abbrev Mag := List (Nat × Int)

namespace Mag

/-- `PackProduct<Magnitude, A, B>` (packs.hh:424-476), clause by clause, including the swapped
argument order of the recursive calls in the second and fourth branch.
`InOrderFor<Magnitude, Prime<a>, Prime<b>>` is `a < b`. -/
def mul : Mag → Mag → Mag
  | [], b => b
  | a, [] => a
  | (b1, e1) :: t1, (b2, e2) :: t2 =>
    if b1 < b2 then (b1, e1) :: mul t1 ((b2, e2) :: t2)
    else if b2 < b1 then (b2, e2) :: mul t2 ((b1, e1) :: t1)
    else if e1 + e2 = 0 then mul t1 t2
    else (b1, e1 + e2) :: mul t2 t1
termination_by a b => a.length + b.length
decreasing_by all_goals simp +arith

/-- `PackPower<Magnitude, M, E>` for an integer `E`. -/
def pow (m : Mag) (n : Int) : Mag :=
  if n = 0 then [] else m.map (fun a => (a.1, a.2 * n))

/-- `MagInverseT` = `PackPowerT<…, ratio<-1>>`. -/
def inv (m : Mag) : Mag := pow m (-1)

/-- `MagQuotientT<A, B>` = `PackProductT<A, PackInverseT<B>>`. -/
def div (a b : Mag) : Mag := mul a (inv b)

/-- `NumeratorPart` (packs.hh:595-601): `Head` is kept (multiplied in) iff its exponent is
positive. -/
def numPart : Mag → Mag
  | [] => []
  | (b, e) :: t => if e > 0 then mul [(b, e)] (numPart t) else numPart t

/-- `NumeratorT` of a magnitude (magnitude.hh:282-285): the product of the positive powers. -/
def numerator : Mag → Mag
  | [] => []
  | (b, e) :: t => mul (if e > 0 then [(b, e)] else []) (numerator t)

/-- `DenominatorT<M>` = `NumeratorT<MagInverseT<M>>`. -/
def denominator (m : Mag) : Mag := numerator (inv m)

/-- `DenominatorPartT<M>` = `NumeratorPartT<PackInverseT<M>>`. -/
def denPart (m : Mag) : Mag := numPart (inv m)

/-- `detail::NegativePowers<M>` = `MagInverseT<DenominatorPartT<M>>`. -/
def negPowers (m : Mag) : Mag := inv (denPart m)

/-- `detail::PrependIfExpNegative`. -/
def prependIfNeg (bp : Nat × Int) (m : Mag) : Mag := if bp.2 < 0 then bp :: m else m

/-- 2-ary `CommonMagnitude` (magnitude.hh:666-705), clause by clause. -/
def common : Mag → Mag → Mag
  | [], [] => []
  | [], h :: t => negPowers (h :: t)
  | h :: t, [] => negPowers (h :: t)
  | (b1, e1) :: t1, (b2, e2) :: t2 =>
    if b1 < b2 then prependIfNeg (b1, e1) (common t1 ((b2, e2) :: t2))
    else if b2 < b1 then prependIfNeg (b2, e2) (common t2 ((b1, e1) :: t1))
    else if e1 - e2 < 0 then (b1, e1) :: common t1 t2
    else (b2, e2) :: common t1 t2
termination_by a b => a.length + b.length
decreasing_by all_goals simp +arith

/-- `IsInteger<M>` = `is_same<M, IntegerPartT<M>>`: `IntegerPartOfBasePower` keeps `p^e` for `e ≥ 1`
and drops the element otherwise, so on integer exponents it is "every exponent is ≥ 1". -/
def isInteger (m : Mag) : Bool := m.all (fun a => decide (1 ≤ a.2))

/-- The value of an integer magnitude (`product({base_power_value(...)...})`), unbounded. -/
def natValue : Mag → Nat
  | [] => 1
  | (b, e) :: t => b ^ e.toNat * natValue t

end Mag

/-! ### `mag<N>()`: `PrimeFactorization<N>` (magnitude.hh:236-253) -/

/-- `find_prime_factor(n)` specified by its result for `n > 1`: a prime factor of `n`.  The model
returns the smallest one (trial division); which prime factor is found first does not influence
`PrimeFactorizationT<N>` because `MagProductT` sorts.  (`factoring.hh` itself is property C12.) -/
def spfAux : Nat → Nat → Nat → Nat
  | 0, _, n => n
  | fuel + 1, k, n => if n < k * k then n else if n % k = 0 then k else spfAux fuel (k + 1) n

def spf (n : Nat) : Nat := spfAux n 2 n

/-- `multiplicity(factor, n)` (factoring.hh:125-132). -/
def multAux : Nat → Nat → Nat → Nat
  | 0, _, _ => 0
  | fuel + 1, f, n => if n % f = 0 then multAux fuel f (n / f) + 1 else 0

def multiplicity (f n : Nat) : Nat := multAux n f n

/-- `PrimeFactorizationT<N>`: `MagProductT<Magnitude<Pow<Prime<base>, power>>,
PrimeFactorizationT<N / base^power>>`, base case `N = 1`. -/
def factorizeAux : Nat → Nat → Mag
  | 0, _ => []
  | fuel + 1, n =>
    if n ≤ 1 then []
    else
      let base := spf n
      let power := multiplicity base n
      let remainder := n / base ^ power
      Mag.mul [(base, (power : Int))] (factorizeAux fuel remainder)

/-- `mag<N>()` for `N > 0`. -/
def magNat (n : Nat) : Mag := factorizeAux n n

/-! ## `std::ratio`, periods, reps -/

/-- `std::ratio<num, den>` with positive terms (libstdc++ rejects non-positive duration periods). -/
structure Period where
  num : Nat
  den : Nat
deriving DecidableEq, Repr

/-- `std::ratio<N, D>::num / ::den` (and `::type`): lowest terms. -/
def Period.norm (p : Period) : Period :=
  let g := Nat.gcd p.num p.den
  ⟨p.num / g, p.den / g⟩

inductive Rep where
  | i32 | i64 | f32 | f64
deriving DecidableEq, Repr

/-- Binary floating-point format: precision and largest exponent. -/
structure Fmt where
  prec : Nat
  emax : Nat
deriving DecidableEq, Repr

def Fmt.single : Fmt := ⟨24, 127⟩
def Fmt.double : Fmt := ⟨53, 1023⟩

namespace Rep
def all : List Rep := [i32, i64, f32, f64]

def name : Rep → String
  | i32 => "i32" | i64 => "i64" | f32 => "f32" | f64 => "f64"

def ofName? (s : String) : Option Rep := all.find? (fun r => r.name == s)

def intTy? : Rep → Option IntTy
  | i32 => some IntTy.i32 | i64 => some IntTy.i64 | _ => none

def fmt? : Rep → Option Fmt
  | f32 => some Fmt.single | f64 => some Fmt.double | _ => none

def isIntegral (r : Rep) : Bool := r.intTy?.isSome
def isFloat (r : Rep) : Bool := r.fmt?.isSome

/-- `std::common_type_t<A, B>` on the four reps (usual arithmetic conversions). -/
def common : Rep → Rep → Rep
  | f64, _ => f64 | _, f64 => f64
  | f32, _ => f32 | _, f32 => f32
  | i64, _ => i64 | _, i64 => i64
  | i32, i32 => i32
end Rep

/-- A value of a rep: an integer for the integral reps, the denoted rational for a finite float. -/
inductive Val where
  | i (v : Int)
  | f (q : Rat)
deriving DecidableEq, Repr

/-- Outcome of evaluating an expression. -/
inductive Res (α : Type) where
  | ok (a : α)
  | ub (why : String)        -- undefined behaviour (signed overflow)
  | nonfinite                -- a floating-point result is ±inf
  | illTyped                 -- the request does not type-check (value of the wrong kind)
deriving DecidableEq, Repr

/-- Compile-time outcome: well-formed with an answer, or ill-formed (hard error). -/
inductive Outcome (α : Type) where
  | ok (a : α)
  | hard (why : String)
deriving DecidableEq, Repr

abbrev Rounding := Fmt → Rat → Option Rat

/-- The two facts about the rounding function on which the floating-point clauses of the theorems
rest: a rounded result is a value of the format (for every format with at least one significand
bit), and every binary32 value is a binary64 value.  `AuProofs.Lemmas.ChronoRne` proves them for
`rne` below (`rne_roundingOK`). -/
structure RoundingOK (R : Rounding) : Prop where
  idem : ∀ F q v, 1 ≤ F.prec → R F q = some v → R F v = some v
  widen : ∀ v, R Fmt.single v = some v → R Fmt.double v = some v

/-- Whether `x` is a value of rep `r`. -/
def Val.Holds (R : Rounding) (r : Rep) : Val → Prop
  | .i v => ∃ t, r.intTy? = some t ∧ t.inRange v
  | .f q => ∃ F, r.fmt? = some F ∧ R F q = some q

/-! ## `CorrespondingQuantity<std::chrono::duration<Rep, Period>>` (chrono_interop.hh:28-70) -/

structure Duration where
  rep : Rep
  period : Period          -- the `Period` template argument as written
  count : Val
deriving DecidableEq, Repr

/-- A `Quantity<U, Rep>` whose unit is `Seconds × mag`; `named` records which spelling of the unit
type the library chose (observable only through labels, never through values). -/
structure Quantity where
  rep : Rep
  mag : Mag
  named : Option String
  value : Val
deriving DecidableEq, Repr

/-- The magnitude of `decltype(Seconds{} * (mag<Period::num>() / mag<Period::den>()))`:
`Period::num`, `Period::den` are the reduced terms. -/
def ratioMag (p : Period) : Mag := Mag.div (magNat p.norm.num) (magNat p.norm.den)

/-- The six `SpecialCorrespondingQuantity` specialisations: `std::chrono::nanoseconds` …
`std::chrono::hours` are `duration<int64_t, …>` on libstdc++.  Unit magnitudes as the unit headers
build them: `Nano<Seconds>` = `Seconds * pow<-9>(mag<10>())`, `Minutes = Seconds * mag<60>()`,
`Hours = Minutes * mag<60>()`. -/
def special? (r : Rep) (p : Period) : Option (String × Mag) :=
  if r ≠ Rep.i64 then none
  else if p = ⟨1, 1000000000⟩ then some ("Nano<Seconds>", Mag.pow (magNat 10) (-9))
  else if p = ⟨1, 1000000⟩ then some ("Micro<Seconds>", Mag.pow (magNat 10) (-6))
  else if p = ⟨1, 1000⟩ then some ("Milli<Seconds>", Mag.pow (magNat 10) (-3))
  else if p = ⟨1, 1⟩ then some ("Seconds", [])
  else if p = ⟨60, 1⟩ then some ("Minutes", magNat 60)
  else if p = ⟨3600, 1⟩ then some ("Hours", Mag.mul (magNat 60) (magNat 60))
  else none

/-- `CorrespondingQuantity<duration<Rep, Period>>::Unit` (name, magnitude).  Template
specialisation matches the period type as written, so a non-reduced spelling such as
`ratio<120, 2>` takes the generic mapping. -/
def corrUnit (r : Rep) (p : Period) : Option String × Mag :=
  match special? r p with
  | some (n, m) => (some n, m)
  | none =>
    -- `Seconds{} * M` is `ComputeScaledUnit<Seconds, M>`: `Seconds` itself for `M = Magnitude<>`
    -- (unit_of_measure.hh:307-308), `ScaledUnit<Seconds, M>` otherwise
    let m := ratioMag p
    (if m = [] then some "Seconds" else none, m)

/-- `as_quantity(d)` (quantity.hh:84-101): `make_quantity<Unit>(extract_value(d))`, `Rep = RepT`. -/
def asQuantity (d : Duration) : Quantity :=
  let u := corrUnit d.rep d.period
  ⟨d.rep, u.2, u.1, d.count⟩

/-! ## The implicit-conversion policy (conversion_policy.hh) -/

/-- `get_value_result<T>(M)` for an integral `T`: the value, or an error (`none`) when `M` is not an
integer or does not fit.  (Magnitudes with a prime base ≥ 2^63 are outside this model: finding F1.) -/
def getValueInt (t : IntTy) (m : Mag) : Option Int :=
  if m.isInteger && decide ((m.natValue : Int) ≤ t.hi) then some (m.natValue : Int) else none

/-- `detail::OVERFLOW_THRESHOLD`. -/
def overflowThreshold : Int := 2147

/-- `CanScaleThresholdWithoutOverflow<Rep, SF>` for an integral `Rep` and an *integer* `SF`
(the only case in which `stdx::conjunction` instantiates it):
`in_range<Rep>(2147) && can_scale_without_overflow<Rep>(SF, 2147)`, the latter (conversion_policy.hh:26-46,
after the fix of finding F2) being: true when `get_value_result<double>(SF)` is OK and `<= 1.0`
(for an integer `SF`: `SF = 1`); false when `SF` is not representable in `Rep`; otherwise
`max(Rep) / SF >= 2147`. -/
def canScaleThreshold (t : IntTy) (sf : Mag) : Bool :=
  let inRange : Bool := decide (overflowThreshold ≤ t.hi)          -- stdx::in_range<Rep>(2147)
  let canScale : Bool :=
    if sf.natValue ≤ 1 then true                                    -- "scales that shrink"
    else match getValueInt t sf with
      | none => false                                               -- SF does not fit Rep
      | some k => decide (Int.tdiv t.hi k ≥ overflowThreshold)
  inRange && canScale

/-- `CoreImplicitConversionPolicy<Rep, SF, SourceRep>` (real reps). -/
def corePolicy (rep : Rep) (sf : Mag) (src : Rep) : Bool :=
  if sf = [] ∧ rep = src then true                      -- the `<Rep, Magnitude<>, Rep>` specialisation
  else match rep.intTy? with
    | none => true                                      -- std::is_floating_point<Rep>
    | some t => src.isIntegral && sf.isInteger && canScaleThreshold t sf

/-- `PermitAsCarveOutForIntegerPromotion`. -/
def carveOut (rep : Rep) (sf : Mag) (src : Rep) : Bool :=
  decide (sf = []) && rep.isIntegral && src.isIntegral

/-- `ConstructionPolicy<U, Rep>::PermitImplicitFrom<SourceUnit, SourceRep>` for two units of
dimension Time (`HasSameDimension` holds). -/
def permitImplicitFrom (tgtMag : Mag) (tgtRep : Rep) (srcMag : Mag) (srcRep : Rep) : Bool :=
  let sf := Mag.div srcMag tgtMag
  corePolicy tgtRep sf srcRep || carveOut tgtRep sf srcRep

/-- `std::is_convertible<Quantity<U₁,R₁>, Quantity<U₂,R₂>>`: the implicit constructor is the only
viable conversion. -/
def quantityConvertible (tgtMag : Mag) (tgtRep : Rep) (q : Quantity) : Bool :=
  permitImplicitFrom tgtMag tgtRep q.mag q.rep

/-- `std::is_convertible<duration<Rep, Period>, Quantity<U, R>>`: the constructor template
`Quantity(T&&)` is enabled by `is_convertible<CorrespondingQuantityT<T>, Quantity>` (quantity.hh:137-141). -/
def durationAccepted (tgtMag : Mag) (tgtRep : Rep) (d : Duration) : Bool :=
  quantityConvertible tgtMag tgtRep (asQuantity d)

/-- `ImplicitRepPermitted<Rep, SF>` = `CoreImplicitConversionPolicy<Rep, SF, Rep>`, as consulted by
the unit-only `Quantity::as(unit)`; a `false` is a `static_assert` failure there. -/
def asUnitOnlyOk (rep : Rep) (sf : Mag) : Outcome Unit :=
  if corePolicy rep sf rep then .ok () else .hard "Dangerous conversion for integer Rep!"

/-! ## Conversion back: the conversion operator and `as_chrono_duration` -/

def i64hi : Int := IntTy.i64.hi

/-- `Quantity::operator T()` for `T = duration<R, P>` (quantity.hh:355-362): enabled iff the
quantity converts implicitly to `CorrespondingQuantityT<T>`; the result is
`construct_from_value(CorrespondingQuantityT<T>{*this}.in(Unit{}))`.  Only the identity scale factor
with identical rep is modelled for the value (that is what the round trip uses); other enabled
conversions are `none`. -/
def toDuration (q : Quantity) (r : Rep) (p : Period) : Outcome (Option Duration) :=
  let u := corrUnit r p
  if !permitImplicitFrom u.2 r q.mag q.rep then .hard "no viable conversion"
  else if Mag.div q.mag u.2 = [] ∧ q.rep = r then .ok (some ⟨r, p, q.value⟩) else .ok none

/-- `as_chrono_duration(q)` (chrono_interop.hh:72-80). -/
def asChronoDuration (q : Quantity) : Outcome (Option Duration) :=
  let ratio := Mag.div q.mag []                       -- unit_ratio(U{}, seconds)
  -- is_rational(ratio): holds for every integer-exponent pack
  match getValueInt IntTy.i64 (Mag.numerator ratio), getValueInt IntTy.i64 (Mag.denominator ratio) with
  | some n, some d => toDuration q q.rep ⟨n.toNat, d.toNat⟩
  | _, _ => .hard "get_value<intmax_t>"

/-! ## Arithmetic in a rep -/

/-- `static_cast<To>(x)` where `x` has rep `src`.  Returns the value and whether an integral
narrowing changed it. -/
def castTo (R : Rounding) (src to : Rep) (x : Val) : Res Val × Bool :=
  match to.intTy?, to.fmt?, x with
  | some t, _, .i v => (.ok (.i (t.wrap v)), decide (t.wrap v ≠ v))
  | _, some F, .i v => (match R F (v : Rat) with | some q => .ok (.f q) | none => .nonfinite, false)
  | _, some F, .f q =>
    -- float → same or wider float is exact; double → float rounds
    if src = to ∨ (src = Rep.f32 ∧ to = Rep.f64) then (.ok (.f q), false)
    else (match R F q with | some q' => .ok (.f q') | none => .nonfinite, false)
  | _, _, _ => (.illTyped, false)

/-- `a * b` in rep `r` (no integral promotion happens for int32/int64). -/
def mulRep (R : Rounding) (r : Rep) (a b : Val) : Res Val :=
  match r.intTy?, r.fmt?, a, b with
  | some t, _, .i x, .i y =>
    (match (mulIn t x y).val with | .ok v => .ok (.i v) | .ub w => .ub w)
  | _, some F, .f x, .f y => (match R F (x * y) with | some q => .ok (.f q) | none => .nonfinite)
  | _, _, _, _ => .illTyped

inductive Op where
  | eq | ne | lt | le | gt | ge | add | sub
deriving DecidableEq, Repr

def Op.all : List Op := [.eq, .ne, .lt, .le, .gt, .ge, .add, .sub]
def Op.name : Op → String
  | .eq => "eq" | .ne => "ne" | .lt => "lt" | .le => "le" | .gt => "gt" | .ge => "ge"
  | .add => "add" | .sub => "sub"
def Op.ofName? (s : String) : Option Op := Op.all.find? (fun o => o.name == s)

/-- Result of a mixed operation: a boolean, or a value of the common rep. -/
inductive OpVal where
  | b (v : Bool)
  | v (x : Val)
deriving DecidableEq, Repr

/-- `a op b` on two values of the same rep `r` (the comparison functors / `+`, `-` of two
identically-typed quantities or of two `count()`s). -/
def applyOp (R : Rounding) (r : Rep) (op : Op) (a b : Val) : Res OpVal :=
  match r.intTy?, r.fmt?, a, b with
  | some t, _, .i x, .i y =>
    (match op with
     | .eq => .ok (.b (decide (x = y))) | .ne => .ok (.b (decide (x ≠ y)))
     | .lt => .ok (.b (decide (x < y))) | .le => .ok (.b (decide (x ≤ y)))
     | .gt => .ok (.b (decide (x > y))) | .ge => .ok (.b (decide (x ≥ y)))
     | .add => if t.inRange (x + y) then .ok (.v (.i (x + y))) else .ub "signed overflow in addition"
     | .sub => if t.inRange (x - y) then .ok (.v (.i (x - y))) else .ub "signed overflow in subtraction")
  | _, some F, .f x, .f y =>
    (match op with
     | .eq => .ok (.b (decide (x = y))) | .ne => .ok (.b (decide (x ≠ y)))
     | .lt => .ok (.b (decide (x < y))) | .le => .ok (.b (decide (x ≤ y)))
     | .gt => .ok (.b (decide (x > y))) | .ge => .ok (.b (decide (x ≥ y)))
     | .add => (match R F (x + y) with | some q => .ok (.v (.f q)) | none => .nonfinite)
     | .sub => (match R F (x - y) with | some q => .ok (.v (.f q)) | none => .nonfinite))
  | _, _, _, _ => .illTyped

def Res.bind {α β : Type} (r : Res α) (f : α → Res β) : Res β :=
  match r with
  | .ok a => f a
  | .ub w => .ub w
  | .nonfinite => .nonfinite
  | .illTyped => .illTyped

/-! ## Au: mixed operations (quantity.hh:694-832) -/

/-- `get_value<RealPart<T>>(M)` as a value of rep `r`, for an integer magnitude that fits.
`Magnitude<>` has its own overload returning `static_cast<T>(1)` (magnitude.hh:542-546); any other
integer magnitude is computed exactly and converted to `T` (one rounding for a floating `T`). -/
def getValueRep (R : Rounding) (r : Rep) (m : Mag) : Res Val :=
  match r.intTy?, r.fmt? with
  | some _, _ => .ok (.i (m.natValue : Int))
  | _, some F =>
    if m = [] then .ok (.f 1)
    else (match R F (m.natValue : Rat) with | some q => .ok (.f q) | none => .nonfinite)
  | _, _ => .illTyped

/-- The common type `std::common_type_t<Quantity<U1,R1>, Quantity<U2,R2>>`: unit magnitude
`CommonMagnitudeT<M1, M2>` (`CommonUnit`), rep `common_type_t<R1, R2>`. -/
def commonQuantity (q1 q2 : Quantity) : Mag × Rep := (Mag.common q1.mag q2.mag, Rep.common q1.rep q2.rep)

/-- `detail::cast_to_common_type<C>(q)` = `rep_cast<C::Rep>(q).as(C::unit)` for a quantity of rep
`r` and value `x` whose unit is `sf` times the common unit:
`static_cast<CRep>(x) * get_value<CRep>(Magnitude<>)`, then the policy-checked unit-only `as`, i.e.
`apply_magnitude` by the integer `sf = UnitRatioT<U, CU>` in `CRep`. -/
def scaleToCommon (R : Rounding) (cr : Rep) (sf : Mag) (r : Rep) (x : Val) : Res Val :=
  ((castTo R r cr x).1.bind fun v0 =>
    (getValueRep R cr []).bind fun one =>
      (mulRep R cr v0 one).bind fun v1 =>                -- rep_cast: apply_magnitude(…, Magnitude<>)
        (getValueRep R cr sf).bind fun k => mulRep R cr v1 k)

def castToCommon (R : Rounding) (cm : Mag) (cr : Rep) (q : Quantity) : Res Val :=
  scaleToCommon R cr (Mag.div q.mag cm) q.rep q.value

/-- Whether `q1 op q2` is well-formed: both `cast_to_common_type` calls pass the `static_assert`
of the unit-only `as` (the overflow-threshold policy on the common rep).  Overload resolution also
meets the hidden friends `op(Q, Q)` of both operand classes (quantity.hh:250-264) and asks whether
the other operand converts implicitly to `Q`; since the fix of finding F2 that question always has
an answer, and a friend that is viable only through a user-defined conversion loses to the
exact-match template, so it does not influence the outcome. -/
def mixedCompiles (q1 q2 : Quantity) : Outcome Unit :=
  let (cm, cr) := commonQuantity q1 q2
  match asUnitOnlyOk cr (Mag.div q1.mag cm) with
  | .hard w => .hard w
  | .ok () => asUnitOnlyOk cr (Mag.div q2.mag cm)

/-- `q1 op q2` through `detail::using_common_type`. -/
def quantityOp (R : Rounding) (op : Op) (q1 q2 : Quantity) : Res OpVal :=
  let (cm, cr) := commonQuantity q1 q2
  (castToCommon R cm cr q1).bind fun a => (castToCommon R cm cr q2).bind fun b => applyOp R cr op a b

/-- Whether `q op d` / `d op q` is well-formed for a `QLike` duration `d`: the QLike template
forwards to `q op as_quantity(d)`. -/
def mixedCompilesQD (q : Quantity) (d : Duration) : Outcome Unit := mixedCompiles q (asQuantity d)

/-- `q op d` and `d op q` for a `QLike` duration (quantity.hh:766-832). -/
def mixedOpQD (R : Rounding) (op : Op) (q : Quantity) (d : Duration) : Res OpVal :=
  quantityOp R op q (asQuantity d)
def mixedOpDQ (R : Rounding) (op : Op) (d : Duration) (q : Quantity) : Res OpVal :=
  quantityOp R op (asQuantity d) q

/-! ## std::chrono (libstdc++ 12 `bits/chrono.h`) -/

/-- `common_type<duration<R1,P1>, duration<R2,P2>>::type::period`:
`ratio<gcd(P1::num, P2::num), (P1::den / gcd(P1::den, P2::den)) * P2::den>::type` on the reduced
periods. -/
def chronoCommonPeriod (p1 p2 : Period) : Period :=
  let a := p1.norm; let b := p2.norm
  (Period.mk (Nat.gcd a.num b.num) ((a.den / Nat.gcd a.den b.den) * b.den)).norm

/-- `std::ratio_divide<P1, P2>` (reduced). -/
def ratioDivide (p q : Period) : Period :=
  let a := p.norm; let b := q.norm
  (Period.mk (a.num * b.den) (a.den * b.num)).norm

/-- `duration_cast<duration<ToRep, ToPeriod>>(d)` for a given conversion factor
`CF = ratio_divide<Period, ToPeriod>`, restricted to the case `CF::den == 1` (the only one the
converting constructor admits for integral reps, and the only one reached through `common_type`).
`CR = common_type<ToRep, Rep, intmax_t>`.  Returns the count and whether the final
`static_cast<ToRep>` changed the value. -/
def durationCastCF (R : Rounding) (toRep : Rep) (cf : Period) (r : Rep) (x : Val) : Res Val × Bool :=
  let cr := Rep.common (Rep.common toRep r) Rep.i64
  if cf.den ≠ 1 then (.illTyped, false)
  else if cf.num = 1 then castTo R r toRep x                    -- __duration_cast_impl<…, true, true>
  else                                                           -- __duration_cast_impl<…, false, true>
    let (c0, _) := castTo R r cr x
    let (k, _) := castTo R Rep.i64 cr (.i (cf.num : Int))
    match c0.bind (fun a => k.bind (fun b => mulRep R cr a b)) with
    | .ok v => castTo R cr toRep v
    | .ub w => (.ub w, false)
    | .nonfinite => (.nonfinite, false)
    | .illTyped => (.illTyped, false)

def durationCast (R : Rounding) (toRep : Rep) (toPeriod : Period) (d : Duration) : Res Val × Bool :=
  durationCastCF R toRep (ratioDivide d.period toPeriod) d.rep d.count

/-- The result of `d1 op d2` inside chrono, with the flag "some narrowing conversion changed a
value". -/
structure ChronoRes where
  val : Res OpVal
  narrowed : Bool
deriving DecidableEq, Repr

def chronoOp (R : Rounding) (op : Op) (d1 d2 : Duration) : ChronoRes :=
  let cp := chronoCommonPeriod d1.period d2.period
  let cr := Rep.common d1.rep d2.rep
  let (a, n1) := durationCast R cr cp d1
  let (b, n2) := durationCast R cr cp d2
  ⟨a.bind fun x => b.bind fun y => applyOp R cr op x y, n1 || n2⟩

/-- "chrono's own computation does not overflow": it produced a value without undefined behaviour,
without a non-finite intermediate and without a value-changing narrowing. -/
def ChronoRes.Clean (r : ChronoRes) (v : OpVal) : Prop := r.val = .ok v ∧ r.narrowed = false

/-- chrono's implicit conversion rule (`duration` converting constructor): the target rep is
floating, or the source rep is not floating and `ratio_divide<P1, P2>::den == 1`. -/
def chronoConvertible (toRep : Rep) (toPeriod : Period) (fromRep : Rep) (fromPeriod : Period) : Bool :=
  toRep.isFloat || (!fromRep.isFloat && decide ((ratioDivide fromPeriod toPeriod).den = 1))

/-! ## Round-to-nearest-even, for the driver -/

def pow2 (k : Int) : Rat :=
  if 0 ≤ k then ((2 ^ k.toNat : Nat) : Rat) else 1 / ((2 ^ (-k).toNat : Nat) : Rat)

/-- `⌊log₂ (n/d)⌋` for positive `n`, `d`. -/
def ilog2 (n d : Nat) : Int :=
  let e0 : Int := (n.log2 : Int) - (d.log2 : Int)
  if 0 ≤ e0 then (if 2 ^ e0.toNat * d ≤ n then e0 else e0 - 1)
  else (if d ≤ n * 2 ^ (-e0).toNat then e0 else e0 - 1)

/-- Nearest integer to a non-negative rational, ties to even. -/
def roundEven (m : Rat) : Int :=
  let fl := m.floor
  let fr := m - (fl : Rat)
  if fr < 1 / 2 then fl else if 1 / 2 < fr then fl + 1 else if fl % 2 = 0 then fl else fl + 1

/-- IEEE-754 round-to-nearest-even into format `F` with gradual underflow; `none` on overflow. -/
def rne : Rounding := fun F q =>
  if q = 0 then some 0
  else
    let a := if q < 0 then -q else q
    let e := ilog2 a.num.toNat a.den
    let emin : Int := 1 - (F.emax : Int)
    let e' := if e < emin then emin else e
    let quantum := pow2 (e' - ((F.prec : Int) - 1))
    let r : Rat := (roundEven (a / quantum) : Rat) * quantum
    if r ≥ pow2 ((F.emax : Int) + 1) then none
    else some (if q < 0 then -r else r)

end Au.Chrono

/-
  AuModel.CommonPoint — `CommonPointUnitT<Us...>` (unit_of_measure.hh:700-809): `CommonOrigin`
  (smallest origin, ties towards the smallest native value), `CommonPointUnit::Mag`
  (`CommonMagnitude` of the units' magnitudes and of the *unit magnitudes of the origin
  displacements*; `Zero` displacements are ignored), and
  `ComputeCommonPointUnit = FirstMatchingUnit<AreUnitsPointEquivalent, FlatDedupedTypeList<…>>`.
-/
import AuModel.CommonUnit

namespace Au

/-- An origin as the library compares it: its exact position (value × unit, a rational number of
base units) and its value in its native unit (`get_value_in_native_unit`; 0 for `ZERO`). -/
structure Origin where
  pos : Rat
  native : Int
  id : Nat := 0        -- which input declared it (bookkeeping only; never compared)
deriving DecidableEq, Repr

/-- `detail::CommonOrigin<Us...>`: fold from the tail; strictly smaller position wins, on equal
positions the strictly smaller native value wins, otherwise the tail's choice stays. -/
def commonOrigin : List Origin → Origin
  | [] => ⟨0, 0, 0⟩
  | [o] => o
  | h :: t =>
    let c := commonOrigin t
    if h.pos < c.pos then h
    else if c.pos < h.pos then c
    else if h.native < c.native then h else c

/-- `CommonPointUnit<Us...>::Mag`: `unitMags` are `MagT<Us>...`, `dispMags` the unit magnitudes of
the non-zero origin displacements `OriginDisplacement<CommonOrigin, U>` (zero ones are `Zero` and
ignored by `CommonMagnitude`). -/
def commonPointMag (unitMags dispMags : List Mag) : Mag :=
  match dispMags with
  | [] => Mag.commonAll unitMags
  | _ => Mag.commonAll (unitMags ++ [Mag.commonAll dispMags])

end Au

namespace Au

/-- One step of `Mag.toRat?`. -/
def Mag.toRatStep (acc : Option Rat) (a : MagBase × Rat) : Option Rat :=
  match acc, a.1 with
  | some v, .prime p =>
    if a.2.den = 1 then
      (if 0 ≤ a.2.num then some (v * ((p ^ a.2.num.toNat : Nat) : Rat))
       else some (v / ((p ^ (-a.2.num).toNat : Nat) : Rat)))
    else none
  | _, _ => none

/-- Exact value of a π-free magnitude with integer exponents (`none` if it has another form). -/
def Mag.toRat? (m : Mag) : Option Rat := m.foldl Mag.toRatStep (some 1)

/-- An origin quantity as declared by a unit: `count` in a unit of magnitude `unitMag`
(`none` = the unit declares no origin: `ZERO`). -/
abbrev OriginDecl := Option (Int × Mag)

def OriginDecl.toOrigin? : OriginDecl → Option Origin
  | none => some ⟨0, 0, 0⟩
  | some (c, m) => (Mag.toRat? m).map fun v => ⟨(c : Rat) * v, c, 0⟩

/-- Unit magnitude of `OriginDisplacement<Common, U>::value()` = `origin(U) − origin(Common)`:
`none` (= `Zero`) when the two origins are equal as quantities; a difference with `ZERO` keeps the
other quantity's unit; otherwise the difference lives in the common unit of the two. -/
def dispUnitMag (oc ou : OriginDecl) (pc pu : Origin) : Option Mag :=
  if pc.pos = pu.pos then none
  else match oc, ou with
    | none, none => none
    | none, some (_, m) => some m
    | some (_, m), none => some m
    | some (_, mc), some (_, mu) => some (Mag.common2 mc mu)


/-- `detail::CommonOrigin<Us...>` again, carrying along the declaration that produced each origin
(same fold, same tie-breaking as `commonOrigin`). -/
def commonOriginD : List (Origin × OriginDecl) → Origin × OriginDecl
  | [] => (⟨0, 0, 0⟩, none)
  | [o] => o
  | h :: t =>
    let c := commonOriginD t
    if h.1.pos < c.1.pos then h
    else if c.1.pos < h.1.pos then c
    else if h.1.native < c.1.native then h else c

/-- The whole `CommonPointUnit<Us...>` computation on (unit magnitude, origin declaration) pairs:
the common origin, the unit magnitudes of the non-zero origin displacements, and
`CommonPointUnit::Mag`.  `none` when an origin is not a rational number of base units. -/
def commonPointAssembly (us : List (Mag × OriginDecl)) : Option (Mag × Origin × OriginDecl) :=
  match us.mapM (fun u => u.2.toOrigin?) with
  | none => none
  | some origins =>
    let c := commonOriginD ((us.zip origins).map fun p => (p.2, p.1.2))
    let disp := (us.zip origins).filterMap fun p => dispUnitMag c.2 p.1.2 c.1 p.2
    some (commonPointMag (us.map (·.1)) disp, c.1, c.2)

end Au

/-
  AuModel.CommonRat — units of one dimension as positive rationals, and their common unit.

  A unit `U` of a fixed dimension is described by its scale `num/den` relative to a base unit of
  that dimension (`VBase * mag<num>() / mag<den>()` in the correspondence harness).  For units whose
  magnitudes are rational, `CommonUnitT<U1, U2>` (unit_of_measure.hh, `CommonMagnitude`: base-wise
  minimum of the prime exponents) has the scale `gcd(n1·d2, n2·d1) / (d1·d2)` — the largest rational
  of which both scales are positive-integer multiples — and `unit_ratio(U_i, CommonUnitT<U1,U2>)` is
  the positive integer `k_i` below.  (That the library's `CommonUnitT` has exactly these ratios is
  the subject of C07; the C08 correspondence re-checks it on every unit pair it uses by printing
  `get_value<uint64_t>(unit_ratio(U_i, CommonUnitT<U1, U2>{}))`.)

  Core Lean only.
-/
namespace Au

/-- A unit of a fixed dimension: scale `num / den` relative to the base unit (both positive; the
fraction need not be in lowest terms). -/
structure URat where
  num : Nat
  den : Nat
deriving DecidableEq, Repr

namespace URat

def Pos (u : URat) : Prop := 0 < u.num ∧ 0 < u.den
instance (u : URat) : Decidable u.Pos := by unfold Pos; infer_instance

/-- `gcd(n1·d2, n2·d1)`: numerator of the common unit over the denominator `d1·d2`. -/
def crossGcd (u1 u2 : URat) : Nat := Nat.gcd (u1.num * u2.den) (u2.num * u1.den)

/-- Scale of `CommonUnitT<U1, U2>` (not reduced). -/
def common (u1 u2 : URat) : URat := ⟨crossGcd u1 u2, u1.den * u2.den⟩

/-- `unit_ratio(U1, CommonUnitT<U1, U2>)`. -/
def ratioL (u1 u2 : URat) : Nat := u1.num * u2.den / crossGcd u1 u2

/-- `unit_ratio(U2, CommonUnitT<U1, U2>)`. -/
def ratioR (u1 u2 : URat) : Nat := u2.num * u1.den / crossGcd u1 u2

/-- The same fraction in lowest terms (for printing). -/
def reduced (u : URat) : URat := let g := Nat.gcd u.num u.den; ⟨u.num / g, u.den / g⟩

end URat
end Au

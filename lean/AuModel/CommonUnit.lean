/-
  AuModel.CommonUnit — `CommonUnitT<Us...>` (unit_of_measure.hh:541-698, packs.hh:364-419):
  `FlatDedupedTypeList` (flatten, insertion sort, de-duplicate), `EliminateRedundantUnits`,
  `FirstMatchingUnit<AreUnitsQuantityEquivalent>`, `SimplifyIfOnlyOneUnscaledUnit`.
  The unit order `lt` (`InOrderFor<CommonUnit,·,·>` = `InOrderFor<UnitProduct,·,·>`) is a parameter.
-/
import AuModel.Unit

namespace Au

section FlatDedup
variable {α : Type} [DecidableEq α]

/-- 2-ary recursive case with a single-element head: the core insertion logic. -/
def insertDedup (lt : α → α → Bool) (x : α) : List α → List α
  | [] => [x]
  | h :: t => if x = h then h :: t else if lt x h then x :: h :: t else h :: insertDedup lt x t

/-- 2-ary `FlatDedupedTypeList<List, L1, L2>`: a one-element `L1` is inserted into `L2`; otherwise
the elements of `L2` are inserted into `L1` one by one (head first). -/
def mergeDedup (lt : α → α → Bool) (a b : List α) : List α :=
  match a with
  | [t] => insertDedup lt t b
  | _ => b.foldl (fun acc x => insertDedup lt x acc) a

/-- N-ary case: `FlatDedupedTypeList<List, L1, L2, L3, Ls...> = <List, <List, L1, L2>, L3, Ls...>`. -/
def flatDedup (lt : α → α → Bool) : List (List α) → List α
  | [] => []
  | l :: rest => rest.foldl (mergeDedup lt) l
end FlatDedup

/-- `AsPackT<CommonUnit, U>`: the members of a `CommonUnit<...>`, or the unit itself. -/
def U.commonParts : U → List U
  | .common us => us.toList.map (·.1)
  | u => [u]

/-- `IsInteger<M>`: every base is a prime with an integer exponent ≥ 1 (`IntegerPartOfBasePower`). -/
def Mag.isInteger (m : Mag) : Bool :=
  m.all fun a => match a.1 with
    | .prime _ => a.2.den == 1 && decide (1 ≤ a.2)
    | .pi => false

/-- `detail::IsFirstUnitRedundant<Pack, U1, U2>`. -/
def isFirstRedundant (env : Env) (lt : U → U → Bool) (u1 u2 : U) : Bool :=
  if u1 = u2 then true
  else if U.qEquiv env u1 u2 then lt u2 u1
  else Mag.isInteger (Mag.div (u1.magOf env) (u2.magOf env))

/-- `detail::EliminateRedundantUnits<Pack<H, Ts...>>`. -/
def eliminateRedundant (env : Env) (lt : U → U → Bool) : List U → List U
  | [] => []
  | h :: ts =>
    if ts.any (fun t => isFirstRedundant env lt h t) then eliminateRedundant env lt ts
    else
      let rest := ts.filter (fun t => !isFirstRedundant env lt t h)
      have : rest.length < (h :: ts).length := Nat.lt_succ_of_le (List.length_filter_le _ _)
      h :: eliminateRedundant env lt rest
termination_by l => l.length

/-- `detail::FirstMatchingUnit<Matcher, Target, List>`. -/
def firstMatching (pred : U → U → Bool) (target : U) : List U → U
  | [] => target
  | h :: t => if pred target h then h else firstMatching pred target t

/-- `detail::UnscaledUnit<U>`. -/
def U.unscaled : U → U
  | .scaled u _ => u
  | u => u

/-- `detail::SimplifyIfOnlyOneUnscaledUnit<U>`. -/
def simplifyIfOnlyOneUnscaled (env : Env) (lt : U → U → Bool) (u : U) : U :=
  let distinct : List U := match u with
    | .common us => flatDedup lt (us.toList.map (fun x => [x.1.unscaled]))
    | _ => [u.unscaled]
  match distinct with
  | [sole] => sole.scale (Mag.div (u.magOf env) (sole.magOf env))
  | _ => u

def mkCommon (l : List U) : U := .common (UL.ofList (l.map (fun u => (u, 1))))

/-- `ComputeCommonUnit<Us...>::type`. -/
def commonUnit (env : Env) (lt : U → U → Bool) (us : List U) : U :=
  let l := eliminateRedundant env lt (flatDedup lt (us.map U.commonParts))
  simplifyIfOnlyOneUnscaled env lt (firstMatching (U.qEquiv env) (mkCommon l) l)

end Au

/-
  AuModel.Constant — `Constant<Unit>` (constant.hh): `can_store_value_in<T>(u)`,
  `in<T>(u)` / `as<T>(u)` = `Quantity<Unit,T>{1}.coerce_in(u)`, i.e. `apply_magnitude(T{1}, ratio)`
  with `ratio = Mag(Unit) / Mag(u)`.
-/
import AuModel.GetValue
import AuModel.ApplyMag

namespace Au

/-- `Constant<Unit>::can_store_value_in<T>(u)` = `representable_in<T>(unit_ratio(Unit, u))`. -/
def canStoreInt (t : IntTy) (ratio : Mag) : Bool := (getValueResultInt t ratio).1 == .ok
def canStoreFlt (f : FltTy) (ratio : Mag) : Bool := (getValueResultFlt f ratio).1 == .ok

/-- `C.in<T>(u)` for integral `T` once `can_store_value_in` holds: the ratio is an integer `k`, the
conversion is `T{1} * get_value<T>(k)` computed in the promoted type and converted back. -/
def constantInInt (t : IntTy) (ratio : Mag) : Option ApplyResult :=
  match getValueResultInt t ratio with
  | (.ok, k) => some (applyMag t k.toNat 1 1)
  | _ => none                     -- static_assert: "Cannot represent constant in this unit/rep"

/-- `apply_magnitude(T{1}, ratio)` for floating `T`, by category (`categorize_magnitude`). -/
def constantInFlt (f : FltTy) (ratio : Mag) : Option Flt :=
  if !(canStoreFlt f ratio) then none else
  if ratio = [] then some (Flt.fin 1)
  else if Mag.isIntegerMag ratio then some (Flt.mul f (Flt.fin 1) (getValueResultFlt f ratio).2)
  else if Mag.isIntegerMag (Pack.inv ratio) then
    match getValueResultFlt f (Pack.inv ratio) with
    | (.ok, d) => some (Flt.div f (Flt.fin 1) d)
    | _ => none                   -- `get_value<T>(1/ratio)` static_assert
  else some (Flt.mul f (Flt.fin 1) (getValueResultFlt f ratio).2)

end Au

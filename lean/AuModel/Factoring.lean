/-
  AuModel.Factoring — `au/code/au/utility/factoring.hh` (`is_prime`, Pollard's rho with Brent's
  cycle detection, `find_prime_factor`, `multiplicity`, `int_pow`) and `PrimeFactorization<N>` /
  `Prime<N>` of `magnitude.hh`, clause by clause.  `std::uintmax_t` is `uint64_t` on the LP64
  target.  The `FirstPrimes` table is a parameter: the driver and the theorems instantiate it with
  `Generated.FirstPrimes`, which is re-extracted from the header on every run.
-/
import AuModel.Primes
namespace Au
namespace U64

/-- Budgets of the unbounded (or astronomically bounded) C++ loops. -/
structure Fuel where
  /-- candidates `D` tried by `find_first_D_with_jacobi_symbol_neg_one` -/
  dSearch : Nat := 100000
  /-- iterations of the inner `while (factor == 1u)` loop of Pollard's rho, per parameter `t` -/
  rhoSteps : Nat := 1000000
  /-- parameters `t` tried by the outer loop of Pollard's rho (C++ bound: `n / 2`) -/
  rhoParams : Nat := 4
  /-- iterations of `while (!is_prime(factor))` in `find_prime_factor` -/
  refine : Nat := 64
  /-- recursion depth of `PrimeFactorization<N>` -/
  factors : Nat := 64
deriving Repr

/-- `is_prime` (factoring.hh:26-31). -/
def isPrime (fu : Fuel) (n : Nat) : W Bool := do
  let r ← bailliePSW fu.dSearch n
  pure (r == .probablyPrime)

/-- `x_squared_plus_t_mod_n` (factoring.hh:34-38). -/
def xSquaredPlusTModN (x t n : Nat) : W Nat := do
  let s ← mulMod x x n
  addMod s t n

/-- `absolute_diff` (factoring.hh:40-42). -/
def absoluteDiff (a b : Nat) : W Nat := if a > b then sub a b else sub b a

/-- The inner `while (factor == 1u)` loop of `find_pollard_rho_factor` (factoring.hh:59-68). -/
def rhoInner (n t : Nat) : Nat → Nat → Nat → Nat → Nat → Nat → W Nat
  | fuel, tortoise, hare, maxCycleLength, cycleLength, factor =>
    if factor = 1 then
      match fuel with
      | 0 => W.outOfFuel factor
      | fuel + 1 => do
        let reset := decide (maxCycleLength = cycleLength)
        let tortoise := if reset then hare else tortoise
        let maxCycleLength ← if reset then mul maxCycleLength 2 else pure maxCycleLength
        let cycleLength := if reset then 0 else cycleLength
        let hare ← xSquaredPlusTModN hare t n
        let cycleLength ← add cycleLength 1
        let d ← absoluteDiff tortoise hare
        let factor ← gcd n d
        rhoInner n t fuel tortoise hare maxCycleLength cycleLength factor
    else pure factor

/-- The outer `for (t = 1u; t < n / 2u; ++t)` loop of `find_pollard_rho_factor`
(factoring.hh:52-74). -/
def rhoOuter (fu : Fuel) (n : Nat) : Nat → Nat → W Nat
  | fuel, t =>
    if t < n / 2 then
      match fuel with
      | 0 => W.outOfFuel n
      | fuel + 1 => do
        let hare ← xSquaredPlusTModN 2 t n
        let d ← absoluteDiff 2 hare
        let factor ← gcd n d
        let factor ← rhoInner n t fu.rhoSteps 2 hare 1 1 factor
        if factor < n then pure factor
        else do
          let t ← add t 1
          rhoOuter fu n fuel t
    else pure n       -- "Failure case"

/-- `find_pollard_rho_factor` (factoring.hh:47-75). -/
def findPollardRhoFactor (fu : Fuel) (n : Nat) : W Nat := rhoOuter fu n fu.rhoParams 1

/-- The trial-division loop of `find_prime_factor` (factoring.hh:98-108): `some r` = returned `r`
from inside the loop, `none` = fell through. -/
def trialDivision (n : Nat) : List Nat → W (Option Nat)
  | [] => pure none
  | p :: ps => do
    let r ← mod n p
    if r = 0 then pure (some p)
    else if p * p > n then pure (some n)      -- `p * p` is an `int` product of a `uint16_t`
    else trialDivision n ps

/-- `while (!is_prime(factor)) factor = find_pollard_rho_factor(factor);` (factoring.hh:116-118). -/
def refineFactor (fu : Fuel) : Nat → Nat → W Nat
  | fuel, factor => do
    let p ← isPrime fu factor
    if p then pure factor
    else
      match fuel with
      | 0 => W.outOfFuel factor
      | fuel + 1 => do
        let f ← findPollardRhoFactor fu factor
        refineFactor fu fuel f

/-- `find_prime_factor` (factoring.hh:94-120). -/
def findPrimeFactor (fu : Fuel) (table : List Nat) (n : Nat) : W Nat := do
  match (← trialDivision n table) with
  | some r => pure r
  | none => do
    let p ← isPrime fu n
    if p then pure n
    else do
      let factor ← findPollardRhoFactor fu n
      refineFactor fu fu.refine factor

/-- `multiplicity` (factoring.hh:125-132), for `factor > 1`, `n > 0`: the loop divides `n` by
`factor` while it can; `n` strictly decreases, so `fuel = n` suffices. -/
def multiplicityLoop (factor : Nat) : Nat → Nat → Nat → W Nat
  | fuel, m, n =>
    if n % factor = 0 then
      match fuel with
      | 0 => W.outOfFuel m
      | fuel + 1 => do
        let m ← add m 1
        let n ← div n factor
        multiplicityLoop factor fuel m n
    else pure m

def multiplicity (factor n : Nat) : W Nat := multiplicityLoop factor n 0 n

/-- `int_pow<uintmax_t>` (factoring.hh:143-153); the exponent strictly decreases, `fuel = exp`
suffices. -/
def intPowF (base : Nat) : Nat → Nat → W Nat
  | fuel, exp =>
    if exp = 0 then pure 1
    else
      match fuel with
      | 0 => W.outOfFuel 1
      | fuel + 1 =>
        if exp % 2 = 1 then do
          let r ← intPowF base fuel (exp - 1)
          mul base r
        else do
          let r ← intPowF base fuel (exp / 2)
          mul r r

def intPow (base exp : Nat) : W Nat := intPowF base exp exp

/-- A magnitude that is a positive integer: (prime base, exponent), sorted by base
(`OrderByValue`). -/
abbrev NatMag := List (Nat × Nat)

/-- `MagProductT<Magnitude<Pow<Prime<base>, power>>, M>` for a magnitude `M` of integer powers of
primes: merge into the sorted pack (equal bases add their exponents). -/
def magInsert (base power : Nat) : NatMag → NatMag
  | [] => [(base, power)]
  | (b, e) :: rest =>
    if base < b then (base, power) :: (b, e) :: rest
    else if b < base then (b, e) :: magInsert base power rest
    else (b, e + power) :: rest

/-- Outcome of instantiating `PrimeFactorization<N>`: the magnitude, or a `static_assert` failure
(`N > 0`, or `Prime<base>` rejecting a `base` that `is_prime` does not accept). -/
inductive MagOutcome where
  | mag (m : NatMag)
  | rejected (why : String)
deriving Repr, DecidableEq

/-- `PrimeFactorization<N>` (magnitude.hh:232-254). -/
def primeFactorization (fu : Fuel) (table : List Nat) : Nat → Nat → W MagOutcome
  | fuel, N =>
    if N = 1 then pure (.mag [])
    else if N = 0 then pure (.rejected "Can only factor positive integers")
    else
      match fuel with
      | 0 => W.outOfFuel (.rejected "fuel")
      | fuel + 1 => do
        let base ← findPrimeFactor fu table N
        let power ← multiplicity base N
        let bp ← intPow base power
        let remainder ← div N bp
        let ok ← isPrime fu base                 -- `Prime<base>`'s static_assert
        if !ok then pure (.rejected "Prime<N> requires that N is prime")
        else do
          match (← primeFactorization fu table fuel remainder) with
          | .mag m => pure (.mag (magInsert base power m))
          | .rejected why => pure (.rejected why)

/-- `mag<N>()`. -/
def magOfNat (fu : Fuel) (table : List Nat) (N : Nat) : W MagOutcome :=
  primeFactorization fu table fu.factors N

/-- `MagProductT` on two integer magnitudes. -/
def magMul (a b : NatMag) : NatMag := a.foldl (fun acc be => magInsert be.1 be.2 acc) b

end U64
end Au

/-
  AuModel.Flt — binary floating point as exact rationals (shared float model).

  A format is `(prec, emax)`: `float` = (24, 127), `double` = (53, 1023), x87 `long double` =
  (64, 16383).  A value is `nan`, `±inf` or a finite *rational* `fin q`; the two signed zeros are
  identified (no property of the library distinguishes them: comparisons, `trunc(x) != x`, casts to
  integers and products treat them alike up to the sign of a zero result).  Rounding is
  round-to-nearest-even with gradual underflow and overflow to infinity, computed exactly:
  IEEE-754 basic operations and conversions are correctly rounded, so "exact rational result, then
  `rne`" is bit-exact for SSE `float`/`double` and the x87 64-bit-mantissa `long double`
  (`-ffp-contract=off`, FLT_EVAL_METHOD = 0), including the compilers' constant evaluation.

  `Flt.fin q` may hold *any* rational: theorems about comparisons against constants are stated for
  every rational `q`, which is stronger than "every representable float".  Values produced by the
  operations below are always representable in the format they were rounded to.

  Core Lean only (no Mathlib): this file is linked into the compiled driver.
-/
import AuModel.Arith
namespace Au

structure FltTy where
  prec : Nat          -- number of significand bits (`numeric_limits<F>::digits`)
  emax : Nat          -- largest binary exponent of a normal number (`max_exponent - 1`)
deriving DecidableEq, Repr

namespace FltTy
def f32 : FltTy := ⟨24, 127⟩
def f64 : FltTy := ⟨53, 1023⟩
def f80 : FltTy := ⟨64, 16383⟩

/-- The three floating reps of the properties. -/
def all : List FltTy := [f32, f64, f80]

def name (f : FltTy) : String :=
  if f = f32 then "f32" else if f = f64 then "f64" else if f = f80 then "f80" else "f?"

def ofName? (s : String) : Option FltTy := all.find? (fun f => f.name == s)

/-- Smallest binary exponent of a normal number. -/
def emin (f : FltTy) : Int := 1 - (f.emax : Int)

/-- `numeric_limits<F>::max()` = (2^prec − 1)·2^(emax+1−prec), as a natural number. -/
def maxNat (f : FltTy) : Nat := (2 ^ f.prec - 1) * 2 ^ (f.emax + 1 - f.prec)

def maxFinite (f : FltTy) : Rat := (f.maxNat : Rat)

/-- `sizeof(F)` on the x86-64 SysV ABI. -/
def sizeOf (f : FltTy) : Nat := if f.prec ≤ 24 then 4 else if f.prec ≤ 53 then 8 else 16
end FltTy

/-- `2^k` for an integer `k`, as a rational. -/
def pow2 (k : Int) : Rat :=
  if 0 ≤ k then ((2 ^ k.toNat : Nat) : Rat) else mkRat 1 (2 ^ (-k).toNat)

/-- `⌊log₂ (n/d)⌋` for positive `n`, `d`. -/
def ilog2 (n d : Nat) : Int :=
  let e0 : Int := (n.log2 : Int) - (d.log2 : Int)
  -- 2^(e0-1) < n/d < 2^(e0+1): decide which of the two candidates it is
  if 0 ≤ e0 then (if 2 ^ e0.toNat * d ≤ n then e0 else e0 - 1)
  else (if d ≤ n * 2 ^ (-e0).toNat then e0 else e0 - 1)

/-- `n / d` rounded to the nearest natural number, ties to even (`d > 0`). -/
def roundEvenDiv (n d : Nat) : Nat :=
  let q := n / d
  let r := n % d
  if 2 * r < d then q
  else if d < 2 * r then q + 1
  else if q % 2 = 0 then q else q + 1

/-- Rounding of the positive rational `n/d` in format `f` with unbounded exponent range above:
returns `(m, k)` meaning `m · 2^k`, where `2^k` is the spacing of `f` in the binade of `n/d`
(clamped to the subnormal spacing). -/
def rneAbs (f : FltTy) (n d : Nat) : Nat × Int :=
  let e := ilog2 n d
  let e' := if e < f.emin then f.emin else e
  let k := e' - ((f.prec : Int) - 1)
  let m := if 0 ≤ k then roundEvenDiv n (d * 2 ^ k.toNat) else roundEvenDiv (n * 2 ^ (-k).toNat) d
  (m, k)

inductive Flt where
  | nan
  | inf (neg : Bool)
  | fin (q : Rat)
deriving DecidableEq, Repr

/-- Round the rational `q` to format `f` (nearest, ties to even; overflow gives ±inf). -/
def rne (f : FltTy) (q : Rat) : Flt :=
  if q = 0 then .fin 0 else
  let mk := rneAbs f q.num.natAbs q.den
  let v : Rat := (mk.1 : Rat) * pow2 mk.2
  if f.maxFinite < v then .inf (decide (q < 0)) else .fin (if q < 0 then -v else v)

namespace Flt

def isNan : Flt → Bool
  | nan => true
  | _ => false

def isFinite : Flt → Bool
  | fin _ => true
  | _ => false

/-- `a < b` as the C++ built-in operator evaluates it (false whenever a NaN is involved). -/
def lt : Flt → Flt → Bool
  | nan, _ => false
  | _, nan => false
  | inf s, inf t => s && !t
  | inf s, fin _ => s
  | fin _, inf t => !t
  | fin a, fin b => decide (a < b)

def gt (a b : Flt) : Bool := lt b a
def le (a b : Flt) : Bool :=
  match a, b with
  | nan, _ => false
  | _, nan => false
  | _, _ => !(lt b a)
def ge (a b : Flt) : Bool := le b a

/-- `a != b` (true whenever a NaN is involved). -/
def ne : Flt → Flt → Bool
  | nan, _ => true
  | _, nan => true
  | inf s, inf t => s != t
  | inf _, fin _ => true
  | fin _, inf _ => true
  | fin a, fin b => decide (a ≠ b)

def neg : Flt → Flt
  | nan => nan
  | inf s => inf (!s)
  | fin q => fin (-q)

/-- `std::trunc`. -/
def trunc : Flt → Flt
  | nan => nan
  | inf s => inf s
  | fin q => fin ((Int.tdiv q.num q.den : Int) : Rat)

/-- `a * b` in format `f`.  (The sign of a zero operand is not tracked: `inf * 0` is NaN as in
IEEE, `inf * fin q` takes the sign from `q`.) -/
def mul (f : FltTy) : Flt → Flt → Flt
  | nan, _ => nan
  | _, nan => nan
  | inf s, inf t => inf (s != t)
  | inf s, fin q => if q = 0 then nan else inf (s != decide (q < 0))
  | fin q, inf s => if q = 0 then nan else inf (s != decide (q < 0))
  | fin a, fin b => rne f (a * b)

/-- `a / b` in format `f` (a zero divisor is taken as +0). -/
def div (f : FltTy) : Flt → Flt → Flt
  | nan, _ => nan
  | _, nan => nan
  | inf _, inf _ => nan
  | inf s, fin q => inf (s != decide (q < 0))
  | fin _, inf _ => fin 0
  | fin a, fin b =>
    if b = 0 then (if a = 0 then nan else inf (decide (a < 0))) else rne f (a / b)

/-- `static_cast<F>(x)` for a floating `x` (same or different format). -/
def cast (f : FltTy) : Flt → Flt
  | nan => nan
  | inf s => inf s
  | fin q => rne f q

/-- `static_cast<F>(n)` for an integer `n`. -/
def ofInt (f : FltTy) (n : Int) : Flt := rne f (n : Rat)

/-- `numeric_limits<F>::max()` / `lowest()`. -/
def maxOf (f : FltTy) : Flt := fin f.maxFinite
def lowestOf (f : FltTy) : Flt := fin (-f.maxFinite)

/-- The integer a finite value truncates to. -/
def truncInt (q : Rat) : Int := Int.tdiv q.num q.den

/-- `static_cast<I>(x)` for a floating `x`: the value is truncated toward zero; the behaviour is
undefined if the truncated value is not representable in `I` (in particular for NaN and ±inf). -/
def toInt? (t : IntTy) : Flt → Eval Int
  | fin q => if t.inRange (truncInt q) then .ok (truncInt q) else .ub "float-cast-overflow"
  | _ => .ub "float-cast-overflow"

end Flt
end Au

/-
  AuModel.GetValue — `get_value_result<T>(Magnitude)` and the classification traits
  (magnitude.hh:109-130, 262-285, 300-569), transcribed clause by clause: `Widen`,
  `checked_int_pow`, `root` (bisection in long double), `base_power_value`, `product`,
  `safe_to_cast_to`, `IntegerPart`, `Numerator`, `IsRational`, `IsInteger`.
-/
import AuModel.Mag
import AuModel.Flt

namespace Au

inductive MagOutcome where
  | ok | errNonInteger | errInvalidRoot | errCannotFit
deriving DecidableEq, Repr

/-! ### Integral `T`: arithmetic in `Widen<T>` = `intmax_t` / `uintmax_t` -/

/-- `checked_int_pow<W>(base, exp)` for an integral `W` with maximum `M`: the loop, with the
comparisons and truncating divisions the code performs. `none` = ERR_CANNOT_FIT. -/
def cipLoop (M : Int) (result base : Int) (exp : Nat) : Option Int :=
  if _h : exp = 0 then some result else
    let r? : Option Int :=
      if exp % 2 = 1 then (if base > Int.tdiv M result then none else some (result * base))
      else some result
    match r? with
    | none => none
    | some result' =>
      let exp' := exp / 2
      if base > Int.tdiv M base then (if exp' = 0 then some result' else none)
      else cipLoop M result' (base * base) exp'
termination_by exp
decreasing_by omega

def checkedIntPow (M : Int) (base : Int) (exp : Nat) : Option Int := cipLoop M 1 base exp

/-- `BaseFitsInWidenedType` + `static_cast<Widen<T>>(base)` of a prime base (`uintmax_t`): `none` when the
prime does not fit the widened type (a prime ≥ 2^63 for signed `T`; before the `fix:` commit for
finding F1 the cast silently wrapped). -/
def widenBase (t : IntTy) (p : Nat) : Option Int :=
  let W := if t.signed then IntTy.i64 else IntTy.u64
  if (p : Int) ≤ W.hi then some (p : Int) else none

def widenTy (t : IntTy) : IntTy := if t.signed then IntTy.i64 else IntTy.u64

/-- `IsInteger<M>`: `M == IntegerPart<M>`. -/
def Mag.isIntegerMag (m : Mag) : Bool :=
  m.all fun a => match a.1 with
    | .prime _ => a.2.den == 1 && decide (1 ≤ a.2)
    | .pi => false

/-- `product(...)` over the widened base powers, with its overflow guard. -/
def productInt (M : Int) : List Int → Int → Option Int
  | [], acc => some acc
  | x :: rest, acc =>
    if decide (x > 1) && decide (acc > Int.tdiv M x) then none else productInt M rest (acc * x)

/-- `get_value_result<T>(m)` for integral `T`. -/
def getValueResultInt (t : IntTy) (m : Mag) : MagOutcome × Int :=
  if m = [] then (.ok, 1) else
  if !(Mag.isIntegerMag m) then (.errNonInteger, 0) else
  let W := widenTy t
  let powers : List (Option Int) := m.map fun a =>
    match a.1 with
    | .prime p =>
      match widenBase t p with
      | some b => checkedIntPow W.hi b a.2.num.toNat
      | none => none
    | .pi => none
  if powers.any (·.isNone) then (.errCannotFit, 0) else
  match productInt W.hi (powers.filterMap id) 1 with
  | none => (.errCannotFit, 0)
  | some v => if t.inRange v then (.ok, t.wrap v) else (.errCannotFit, 0)

/-! ### Classification traits -/

/-- `IntegerPartT<M>`. -/
def Mag.integerPart (m : Mag) : Mag :=
  m.filterMap fun a => match a.1 with
    | .prime p =>
      -- `(N >= D) ? (N / D) : 0` on the normalised ratio N/D (D > 0)
      let n := a.2.num; let d : Int := a.2.den
      let k : Int := if n ≥ d then Int.tdiv n d else 0
      if k = 0 then none else some (.prime p, (k : Rat))
    | .pi => none

/-- `NumeratorT<M>`: the elements with positive exponent. -/
def Mag.numerator (m : Mag) : Mag := m.filter fun a => decide (0 < a.2)

/-- `DenominatorT<M>` = `NumeratorT<MagInverseT<M>>`. -/
def Mag.denominator (m : Mag) : Mag := Mag.numerator (Pack.inv m)

/-- `IsRational<M>`: `M == IntegerPart(Numerator) / IntegerPart(Denominator)`. -/
def Mag.isRationalMag (m : Mag) : Bool :=
  decide (m = Mag.div (Mag.integerPart (Mag.numerator m)) (Mag.integerPart (Mag.denominator m)))

/-! ### Floating `T`: arithmetic in `Widen<T>` = `long double` -/

open Flt in
def Flt.add (f : FltTy) : Flt → Flt → Flt
  | .nan, _ => .nan
  | _, .nan => .nan
  | .inf s, .inf t => if s = t then .inf s else .nan
  | .inf s, .fin _ => .inf s
  | .fin _, .inf t => .inf t
  | .fin a, .fin b => rne f (a + b)

def Flt.sub (f : FltTy) (a b : Flt) : Flt := Flt.add f a (Flt.neg b)

def Flt.eq (a b : Flt) : Bool := !(Flt.ne a b)

def ld : FltTy := FltTy.f80
def ldMax : Flt := Flt.maxOf ld

/-- `checked_int_pow<long double>(base, exp)`. `none` = ERR_CANNOT_FIT. -/
def cipLoopF (result base : Flt) (exp : Nat) : Option Flt :=
  if _h : exp = 0 then some result else
    let r? : Option Flt :=
      if exp % 2 = 1 then (if Flt.gt base (Flt.div ld ldMax result) then none else some (Flt.mul ld result base))
      else some result
    match r? with
    | none => none
    | some result' =>
      let exp' := exp / 2
      if Flt.gt base (Flt.div ld ldMax base) then (if exp' = 0 then some result' else none)
      else cipLoopF result' (Flt.mul ld base base) exp'
termination_by exp
decreasing_by omega

def checkedIntPowF (base : Flt) (exp : Nat) : Option Flt := cipLoopF (Flt.fin 1) base exp

/-- The bisection loop of `root()` (x > 1, n > 1), with fuel. Returns `(lo, hi)` or an early exact hit. -/
def bisect (x : Flt) (n : Nat) : Nat → Flt → Flt → Option (Sum Flt (Flt × Flt))
  | 0, _, _ => none                       -- fuel exhausted (never on the explored inputs)
  | fuel + 1, lo, hi =>
    if !(Flt.lt lo hi) then some (.inr (lo, hi)) else
    let mid := Flt.add ld lo (Flt.div ld (Flt.sub ld hi lo) (Flt.fin 2))
    match checkedIntPowF mid n with
    | none => none                       -- `return {result.outcome}` (ERR_CANNOT_FIT)
    | some v =>
      if Flt.eq v x then some (.inl mid)
      else if Flt.eq mid lo || Flt.eq mid hi then some (.inr (lo, hi))
      else if Flt.lt v x then bisect x n fuel mid hi else bisect x n fuel lo mid

/-- `root<long double>(x, n)` for `x ≥ 0` (magnitudes are positive). `none` = not OK. -/
def rootF (x : Flt) (n : Nat) (fuel : Nat := 40000) : Option Flt :=
  if n = 0 then none
  else if n = 1 then some x
  else if Flt.eq x (Flt.fin 0) || Flt.eq x (Flt.fin 1) then some x
  else
    let core (y : Flt) : Option Flt :=
      match bisect y n fuel (Flt.fin 1) y with
      | none => none
      | some (.inl mid) => some mid
      | some (.inr (lo, hi)) =>
        match checkedIntPowF lo n, checkedIntPowF hi n with
        | some plo, some phi =>
          let loDiff := Flt.sub ld y plo
          let hiDiff := Flt.sub ld phi y
          some (if Flt.lt loDiff hiDiff then lo else hi)
        | plo?, phi? =>
          -- `.value` of a failed result is 0
          let plo := plo?.getD (Flt.fin 0); let phi := phi?.getD (Flt.fin 0)
          some (if Flt.lt (Flt.sub ld y plo) (Flt.sub ld phi y) then lo else hi)
    if Flt.lt x (Flt.fin 1) then
      match core (Flt.div ld (Flt.fin 1) x) with
      | none => none
      | some r => some (Flt.div ld (Flt.fin 1) r)
    else core x

/-- The literal `Pi::value()` (3.14159265358979323846264338327950288419716939L) in long double. -/
def piLD : Flt := rne ld (mkRat 314159265358979323846264338327950288419716939 (10 ^ 44))

/-- `base_power_value<T, N, D>(base)` for floating `T`. -/
def basePowerValueF (base : Flt) (num : Int) (den : Nat) : Option Flt :=
  let absn := num.natAbs
  match checkedIntPowF base absn with
  | none => none
  | some p =>
    match (if den > 1 then rootF p den else some p) with
    | none => none
    | some v => if num < 0 then some (Flt.div ld (Flt.fin 1) v) else some v

/-- `product(...)` in long double. -/
def productF : List Flt → Flt → Option Flt
  | [], acc => some acc
  | x :: rest, acc =>
    if Flt.gt x (Flt.fin 1) && Flt.gt acc (Flt.div ld ldMax x) then none else productF rest (Flt.mul ld acc x)

/-- `get_value_result<T>(m)` for floating `T`. -/
def getValueResultFlt (f : FltTy) (m : Mag) : MagOutcome × Flt :=
  if m = [] then (.ok, Flt.fin 1) else
  let powers : List (Option Flt) := m.map fun a =>
    let base : Flt := match a.1 with
      | .prime p => Flt.ofInt ld (IntTy.u64.wrap p)
      | .pi => piLD
    basePowerValueF base a.2.num a.2.den
  if powers.any (·.isNone) then (.errCannotFit, Flt.fin 0) else
  match productF (powers.filterMap id) (Flt.fin 1) with
  | none => (.errCannotFit, Flt.fin 0)
  | some v =>
    if Flt.le (Flt.lowestOf f) v && Flt.ge (Flt.maxOf f) v then
      -- a strictly positive magnitude that underflows to zero in `T` is not representable (fix of F6)
      if Flt.eq (Flt.cast f v) (Flt.fin 0) then (.errCannotFit, Flt.fin 0) else (.ok, Flt.cast f v)
    else (.errCannotFit, Flt.fin 0)

end Au

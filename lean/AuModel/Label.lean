/-
  AuModel.Label — compile-time unit labels (`utility/string_constant.hh`, `magnitude.hh`
  MagnitudeLabel, `unit_of_measure.hh` UnitLabel): `UIToA` / `IToA` digit loops, `StringConstant`
  join / concatenate with their *declared* lengths, `parens_if`, `MagnitudeLabel`
  (integer / rational / unsupported), and `UnitLabel` for named units (member lookup through the
  inheritance chain), `ScaledUnit`, `Pow` / `RatioPow`, `UnitProduct`.
-/
import AuModel.Unit
import AuModel.GetValue

namespace Au

/-! ### `UIToA<N>` / `IToA<N>` -/

/-- `string_size_unsigned`. -/
def stringSizeUnsigned (x : Nat) : Nat :=
  if x > 9 then stringSizeUnsigned (x / 10) + 1 else 1
termination_by x
decreasing_by omega

def digitChar (d : Nat) : Char := Char.ofNat (48 + d)

/-- `UIToA<N>::print_to_array()`: the do-while loop fills the buffer from the right. -/
def uitoaLoop (num : Nat) (acc : List Char) : List Char :=
  let acc' := digitChar (num % 10) :: acc
  if num / 10 > 0 then uitoaLoop (num / 10) acc' else acc'
termination_by num
decreasing_by omega

def uitoa (n : Nat) : List Char := uitoaLoop n []

/-- `IToA<N>` for `-2^63 < N < 2^63`: sign, then `UIToA<|N|>`. -/
def itoa (n : Int) : List Char := (if n ≥ 0 then [] else ['-']) ++ uitoa n.natAbs

/-! ### `StringConstant<N>` with its declared length -/

/-- A `StringConstant<Strlen>`: the characters and the length the *type* declares. -/
structure SC where
  chars : List Char
  declared : Nat
deriving DecidableEq, Repr

def SC.lit (s : String) : SC := ⟨s.toList, s.length⟩
def SC.ofChars (cs : List Char) (n : Nat) : SC := ⟨cs, n⟩

/-- `sep.join(items...)`: declared length `sum<Ns...>() + Strlen * (k - 1)`. -/
def SC.join (sep : SC) (items : List SC) : SC :=
  ⟨(items.map (·.chars)).intersperse sep.chars |>.flatten,
   (items.map (·.declared)).sum + sep.declared * (if items.length > 0 then items.length - 1 else 0)⟩

def SC.concat (items : List SC) : SC := SC.join (SC.lit "") items

/-- `parens_if<Enable>(s)`. -/
def SC.parensIf (enable : Bool) (s : SC) : SC :=
  if enable then SC.concat [SC.lit "(", s, SC.lit ")"] else SC.concat [SC.lit "", s, SC.lit ""]

/-- The consistency the C++ type system would otherwise have to enforce: characters = declared length. -/
def SC.Consistent (s : SC) : Prop := s.chars.length = s.declared

def uitoaSC (n : Nat) : SC := ⟨uitoa n, stringSizeUnsigned n⟩
def itoaSC (n : Int) : SC := ⟨itoa n, stringSizeUnsigned n.natAbs + (if n < 0 then 1 else 0)⟩

/-! ### `MagnitudeLabel` -/

/-- `(label, has_exposed_slash)`. -/
def magLabel (m : Mag) : SC × Bool :=
  if Mag.isIntegerMag m || m = [] then
    match getValueResultInt IntTy.u64 m with
    | (.ok, v) => (uitoaSC v.toNat, false)
    | _ => (SC.lit "(UNLABELED SCALE FACTOR)", false)
  else if Mag.isRationalMag m then
    let num := Mag.numerator m
    let den := Mag.denominator m
    let lab (k : Mag) : SC := match getValueResultInt IntTy.u64 k with
      | (.ok, v) => uitoaSC v.toNat
      | _ => SC.lit "(UNLABELED SCALE FACTOR)"
    (SC.join (SC.lit " / ") [lab num, lab den], true)
  else (SC.lit "(UNLABELED SCALE FACTOR)", false)

/-! ### `UnitLabel` -/

/-- Where a named unit's `label` member comes from: declared in the struct itself, or found in a
base class (the unit it derives from), or absent. -/
inductive LabelSrc where
  | own (s : String)
  | inheritedFrom (u : U)      -- `struct X : Base {}` without a `label` of its own: member lookup finds Base's
  | none
deriving DecidableEq

structure LabelEnv where
  src : Nat → LabelSrc

def unlabeled : SC := SC.lit "[UNLABELED UNIT]"

/-- `ExpLabelForPow<N>` / `ExpLabelForRatioPow<N,D>`. -/
def expLabel (q : Rat) : SC :=
  if q.den = 1 then SC.parensIf (decide (q.num < 0)) (itoaSC q.num)
  else SC.concat [SC.lit "(", itoaSC q.num, SC.lit "/", itoaSC q.den, SC.lit ")"]

mutual
/-- `unit_label(U{})`.  `fuel` bounds the walk along `inheritedFrom` links. -/
def U.label (lenv : LabelEnv) (fuel : Nat) : U → SC
  | .named n =>
    match lenv.src n with
    | .own s => SC.lit s
    | .inheritedFrom b => match fuel with
      | 0 => unlabeled
      | f + 1 => U.inheritedLabel lenv f b
    | .none => unlabeled
  | .scaled u m =>
    let (ml, slash) := magLabel m
    SC.concat [SC.lit "[", SC.parensIf slash ml, SC.lit " ", U.label lenv fuel u, SC.lit "]"]
  | .prod (.cons u q .nil) =>
    -- a stand-alone `Pow<U,N>` / `RatioPow<U,N,D>`: `PowerLabeler` keeps the sign of the exponent
    SC.join (SC.lit "^") [U.label lenv fuel u, expLabel q]
  | .prod ps => UL.label lenv fuel ps
  | .common _ => unlabeled          -- CommonUnit labels ("EQUIV{…}") are compared by correspondence only
  | .commonPoint _ => unlabeled
/-- The `label` *member* that a struct deriving from `b` inherits: `ScaledUnit<U, M>` derives from
`U` and declares no label of its own, so the member found is `U`'s (finding F3). -/
def U.inheritedLabel (lenv : LabelEnv) (fuel : Nat) : U → SC
  | .named n => U.label lenv fuel (.named n)
  | .scaled u _ => U.inheritedLabel lenv fuel u
  | _ => unlabeled
/-- `UnitLabel<UnitProduct<Us...>>`: numerator and denominator parts, `QuotientLabeler`. -/
def UL.label (lenv : LabelEnv) (fuel : Nat) (ps : UL) : SC :=
  let num := UL.factorLabels lenv fuel true ps
  let den := UL.factorLabels lenv fuel false ps
  let compound (xs : List SC) (parens : Bool) : SC :=
    SC.parensIf (parens && decide (xs.length > 1)) (SC.join (SC.lit " * ") xs)
  match num, den with
  | [], [] => SC.lit ""
  | _, [] => compound num false
  | [], _ => SC.concat [SC.lit "1 / ", compound den true]
  | _, _ => SC.join (SC.lit " / ") [compound num true, compound den true]
/-- Labels of the factors with positive (`pos = true`) or negative exponents (inverted). -/
def UL.factorLabels (lenv : LabelEnv) (fuel : Nat) (pos : Bool) : UL → List SC
  | .nil => []
  | .cons u q t =>
    let rest := UL.factorLabels lenv fuel pos t
    let e : Rat := if pos then q else -q
    if (pos && decide (0 < q)) || (!pos && decide (q < 0)) then
      (if e = 1 then U.label lenv fuel u
       else SC.join (SC.lit "^") [U.label lenv fuel u, expLabel e]) :: rest
    else rest
end

end Au

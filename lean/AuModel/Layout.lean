/-
  AuModel.Layout — object layout and [class.prop] classification of the two value classes of the
  library, `au::Quantity<U, R>` (quantity.hh) and `au::QuantityPoint<U, R>` (quantity_point.hh),
  computed from a *class descriptor* that is regenerated from the clang AST of /repo on every run
  (`Generated/Classes.lean`).

  The descriptor records exactly what the standard's rules look at: the non-static data members
  (declared type, access, default member initialiser), base classes, virtual functions, the
  user-provided special member functions, and the constructors' member-initialiser lists.  The
  functions below are the rules of [class.prop] (trivially copyable, standard-layout),
  [class.dtor] (trivial destructor), [dcl.init] (what a default-constructed object holds) and of
  the Itanium C++ ABI, section 2.4 (size / alignment of a non-polymorphic class without bases),
  for the x86-64 SysV target the repository builds on.

  Core Lean only: linked into the compiled driver.
-/
import AuModel.Arith

namespace Au.C13

/-- The three floating-point reps. -/
inductive FltK where
  | f32 | f64 | f80
deriving DecidableEq, Repr

/-- The eleven arithmetic reps of the properties. -/
inductive RepTy where
  | int (t : IntTy)
  | flt (k : FltK)
deriving DecidableEq, Repr

namespace FltK
def name : FltK → String
  | f32 => "f32" | f64 => "f64" | f80 => "f80"
/-- `sizeof` on x86-64 SysV (`long double` is the 80-bit x87 format stored in 16 bytes). -/
def size : FltK → Nat
  | f32 => 4 | f64 => 8 | f80 => 16
def align : FltK → Nat
  | f32 => 4 | f64 => 8 | f80 => 16
def rank : FltK → Nat
  | f32 => 0 | f64 => 1 | f80 => 2
def all : List FltK := [f32, f64, f80]
end FltK

namespace RepTy
def all : List RepTy := IntTy.all.map .int ++ FltK.all.map .flt

def name : RepTy → String
  | .int t => t.name
  | .flt k => k.name

def ofName? (s : String) : Option RepTy := all.find? (fun r => r.name == s)

def size : RepTy → Nat
  | .int t => t.bits / 8
  | .flt k => k.size

/-- Every fundamental arithmetic type is naturally aligned on this target. -/
def align : RepTy → Nat
  | .int t => t.bits / 8
  | .flt k => k.align

def isIntegral : RepTy → Bool
  | .int _ => true
  | .flt _ => false
end RepTy

/-! ### Class descriptors (the shape of `Generated/Classes.lean`) -/

inductive Access where
  | pub | prot | priv
deriving DecidableEq, Repr

/-- Declared type of a non-static data member, after resolving member aliases:
`rep` — the class's own `Rep` template parameter; `cls c` — the class template `c` instantiated
with the same `Rep` (e.g. `Diff = Quantity<Unit, Rep>`); `other s` — anything else. -/
inductive FieldTy where
  | rep
  | cls (c : String)
  | other (spelling : String)
deriving DecidableEq, Repr

/-- An initialiser as written in the source (default member initialiser or mem-initialiser). -/
inductive InitE where
  | absent                 -- no initialiser
  | emptyBraces            -- `{}`
  | intLit (n : Nat)       -- `{n}`
  | zeroConst              -- `{ZERO}` (an object of the empty tag type `au::Zero`)
  | param                  -- `{p}` with `p` the constructor's own (single) parameter
  | other (s : String)
deriving DecidableEq, Repr

structure FieldD where
  name : String
  ty : FieldTy
  access : Access
  init : InitE
deriving DecidableEq, Repr

inductive ParamTy where
  | zero | rep | cls (c : String) | other (s : String)
deriving DecidableEq, Repr

inductive CtorKind where
  | defaulted | deleted | userProvided
deriving DecidableEq, Repr

/-- A non-template constructor. -/
structure CtorD where
  params : List ParamTy
  kind : CtorKind
  inits : List (String × InitE)
deriving DecidableEq, Repr

structure ClassD where
  name : String
  fields : List FieldD
  bases : List String
  nVirtualBases : Nat
  nVirtualFns : Nat                 -- virtual member functions, destructor included
  userCopyCtor : Bool               -- user-provided or deleted (i.e. not implicit / defaulted)
  userMoveCtor : Bool
  userCopyAssign : Bool
  userMoveAssign : Bool
  userDtor : Bool
  ctors : List CtorD
deriving DecidableEq, Repr

abbrev ClassEnv := List ClassD

def ClassEnv.find (env : ClassEnv) (c : String) : Option ClassD := List.find? (fun d => d.name == c) env

/-! ### Layout (Itanium C++ ABI 2.4, class without bases and without virtual functions) -/

structure SizeAlign where
  size : Nat
  align : Nat
deriving DecidableEq, Repr

def roundUp (n a : Nat) : Nat := if a = 0 then n else ((n + a - 1) / a) * a

/-- Allocate the members in declaration order, each at the next offset that satisfies its
alignment; the size is the end offset rounded up to the class alignment (at least 1). -/
def layoutFields : List SizeAlign → Nat → Nat → SizeAlign
  | [], off, al => ⟨roundUp (max off 1) al, al⟩
  | f :: fs, off, al => layoutFields fs (roundUp off f.align + f.size) (max al f.align)

def allSome {α : Type} : List (Option α) → Option (List α)
  | [] => some []
  | none :: _ => none
  | some a :: rest =>
    match allSome rest with
    | some as => some (a :: as)
    | none => none

/-- `sizeof` / `alignof` of the class for rep `R` (`none`: outside the modelled fragment).  The
fuel bounds the nesting depth of member classes. -/
def classLayout (env : ClassEnv) (R : RepTy) : Nat → ClassD → Option SizeAlign
  | 0, _ => none
  | n + 1, d =>
    if d.bases ≠ [] ∨ d.nVirtualBases ≠ 0 ∨ d.nVirtualFns ≠ 0 then none
    else
      let member (f : FieldD) : Option SizeAlign :=
        match f.ty with
        | .rep => some ⟨R.size, R.align⟩
        | .cls c =>
          match env.find c with
          | some e => classLayout env R n e
          | none => none
        | .other _ => none
      match allSome (d.fields.map member) with
      | some ls => some (layoutFields ls 0 1)
      | none => none

/-! ### [class.prop] -/

/-- `p` holds of the class and, recursively, of the class types of all its members (arithmetic
members are scalar types and satisfy every property considered here). -/
def classAll (p : ClassD → Bool) (env : ClassEnv) : Nat → ClassD → Bool
  | 0, _ => false
  | n + 1, d =>
    p d && d.fields.all (fun f =>
      match f.ty with
      | .rep => true
      | .cls c =>
        match env.find c with
        | some e => classAll p env n e
        | none => false
      | .other _ => false)

/-- Own conditions of [class.prop]/1 (trivially copyable): no user-provided (or deleted) copy/move
constructor or assignment, a trivial destructor, nothing virtual.  (Base classes are outside the
modelled fragment and make the answer `false`.) -/
def ownTriviallyCopyable (d : ClassD) : Bool :=
  !d.userCopyCtor && !d.userMoveCtor && !d.userCopyAssign && !d.userMoveAssign && !d.userDtor &&
  d.nVirtualFns == 0 && d.nVirtualBases == 0 && d.bases.isEmpty

def ownTriviallyDestructible (d : ClassD) : Bool :=
  !d.userDtor && d.nVirtualFns == 0 && d.nVirtualBases == 0 && d.bases.isEmpty

/-- Own conditions of [class.prop]/3 (standard-layout): nothing virtual, the same access control
for all non-static data members, no base classes (sufficient, and what the two classes have). -/
def ownStandardLayout (d : ClassD) : Bool :=
  d.nVirtualFns == 0 && d.nVirtualBases == 0 && d.bases.isEmpty &&
  (match d.fields with
   | [] => true
   | f :: fs => fs.all (fun g => g.access == f.access))

def triviallyCopyable (env : ClassEnv) (n : Nat) (d : ClassD) : Bool := classAll ownTriviallyCopyable env n d
def triviallyDestructible (env : ClassEnv) (n : Nat) (d : ClassD) : Bool := classAll ownTriviallyDestructible env n d
def standardLayout (env : ClassEnv) (n : Nat) (d : ClassD) : Bool := classAll ownStandardLayout env n d

/-! ### What a default-constructed object holds ([dcl.init], [class.base.init]) -/

/-- Abstract content of an object of the class: every scalar leaf is `R{}` (zero), or not. -/
inductive Content where
  | zero            -- every scalar sub-object compares equal to `R{}` / `R(0)`
  | indeterminate   -- some scalar sub-object is left uninitialised
  | unknown         -- outside the modelled fragment
deriving DecidableEq, Repr

def Content.and : Content → Content → Content
  | .zero, .zero => .zero
  | .unknown, _ => .unknown
  | _, .unknown => .unknown
  | _, _ => .indeterminate

/-- The initialiser that applies to field `f` in a constructor with mem-initialiser list `inits`:
the mem-initialiser if there is one, else the default member initialiser. -/
def effectiveInit (inits : List (String × InitE)) (f : FieldD) : InitE :=
  match inits.find? (fun p => p.1 == f.name) with
  | some p => p.2
  | none => f.init

def Content.all : List Content → Content
  | [] => .zero
  | c :: cs => c.and (Content.all cs)

/-- Content of an object built by the (non-template) constructor of `d` with parameter list `ps`.
A defaulted default constructor uses the default member initialisers; a user-provided one its
mem-initialiser list (falling back to the default member initialisers).  A member of class type
initialised by `{}` or not at all is built by its default constructor, by `{ZERO}` by its
constructor taking `au::Zero`. -/
def ctorContent (env : ClassEnv) : Nat → ClassD → List ParamTy → Content
  | 0, _, _ => .unknown
  | n + 1, d, ps =>
    let member (inits : List (String × InitE)) (f : FieldD) : Content :=
      match f.ty, effectiveInit inits f with
      | .rep, .emptyBraces => .zero          -- value-initialisation of a scalar
      | .rep, .intLit 0 => .zero
      | .rep, .absent => .indeterminate      -- default-initialisation of a scalar
      | .rep, _ => .unknown
      | .cls c, e =>
        match env.find c with
        | none => .unknown
        | some k =>
          match e with
          | .absent => ctorContent env n k []
          | .emptyBraces => ctorContent env n k []
          | .zeroConst => ctorContent env n k [.zero]
          | _ => .unknown
      | .other _, _ => .unknown
    match d.ctors.find? (fun c => c.params == ps) with
    | none =>
      -- no such constructor declared: only the implicit default constructor can apply
      if ps.isEmpty && d.ctors.isEmpty then Content.all (d.fields.map (member [])) else .unknown
    | some c =>
      match c.kind with
      | .deleted => .unknown
      | .defaulted => if ps.isEmpty then Content.all (d.fields.map (member [])) else .unknown
      | .userProvided => Content.all (d.fields.map (member c.inits))

/-- `T t;` (default-initialisation) for the class `d`: the default constructor alone determines
the content.  This is the weakest form: `T{}` / `T()` additionally zero-fill first when the default
constructor is not user-provided, so `zero` here implies `zero` for every form. -/
def defaultContent (env : ClassEnv) (n : Nat) (d : ClassD) : Content := ctorContent env n d []

/-- Everything the layout clause of C13 states about one class at one rep. -/
structure ClassFacts where
  layout : Option SizeAlign
  trivCopy : Bool
  trivDtor : Bool
  stdLayout : Bool
  dflt : Content
deriving DecidableEq, Repr

/-- Nesting depth explored (the library's classes nest one level: point → quantity → rep). -/
def layoutFuel : Nat := 4

def classFacts (env : ClassEnv) (d : ClassD) (R : RepTy) : ClassFacts :=
  { layout := classLayout env R layoutFuel d
    trivCopy := triviallyCopyable env layoutFuel d
    trivDtor := triviallyDestructible env layoutFuel d
    stdLayout := standardLayout env layoutFuel d
    dflt := defaultContent env layoutFuel d }

/-- What a transparent wrapper of `R` must have. -/
def transparentFacts (R : RepTy) : ClassFacts :=
  { layout := some ⟨R.size, R.align⟩, trivCopy := true, trivDtor := true, stdLayout := true, dflt := .zero }

end Au.C13

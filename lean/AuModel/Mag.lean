/-
  AuModel.Mag — `Magnitude<BPs...>` (magnitude.hh): packs over prime bases and π, ordered by value
  (`OrderByValue`: primes by size, π = 3.14… sits between 3 and 5), and `CommonMagnitude`.
  `AuModel.Dim` — `Dimension<BPs...>`: packs over base dimensions ordered by `base_dim_index`.
-/
import AuModel.Pack

namespace Au

inductive MagBase where
  | prime (p : Nat)
  | pi
deriving DecidableEq, Repr

/-- `InOrderFor<Magnitude, A, B>` = `A::value() < B::value()`. -/
def MagBase.lt : MagBase → MagBase → Bool
  | .prime p, .prime q => decide (p < q)
  | .prime p, .pi => decide (p ≤ 3)
  | .pi, .prime q => decide (4 ≤ q)
  | .pi, .pi => false

abbrev Mag := Pack MagBase

namespace Mag
def mul (a b : Mag) : Mag := Pack.mul MagBase.lt a b
def div (a b : Mag) : Mag := Pack.div MagBase.lt a b
def one : Mag := []

/-- `detail::PrependIfExpNegative`. -/
def prependIfNeg (bp : MagBase × Rat) (m : Mag) : Mag := if bp.2 < 0 then bp :: m else m

/-- `detail::NegativePowers<M>` = `MagInverseT<DenominatorPartT<M>>`. -/
def negPowers (m : Mag) : Mag := (Pack.denPart m).inv

/-- 2-ary `CommonMagnitude` (magnitude.hh:666-705), clause by clause. -/
def common2 : Mag → Mag → Mag
  | [], [] => []
  | [], h :: t => negPowers (h :: t)
  | h :: t, [] => negPowers (h :: t)
  | (b1, e1) :: t1, (b2, e2) :: t2 =>
    if MagBase.lt b1 b2 then prependIfNeg (b1, e1) (common2 t1 ((b2, e2) :: t2))
    else if MagBase.lt b2 b1 then prependIfNeg (b2, e2) (common2 t2 ((b1, e1) :: t1))
    else if e1 - e2 < 0 then (b1, e1) :: common2 t1 t2
    else (b2, e2) :: common2 t1 t2
termination_by a b => a.length + b.length
decreasing_by all_goals simp +arith

/-- A magnitude or the `Zero` placeholder (`CommonMagnitude<M, Zero> = M`). -/
abbrev MagOrZero := Option Mag

def commonOZ : MagOrZero → MagOrZero → MagOrZero
  | none, none => none
  | some m, none => some m
  | none, some m => some m
  | some a, some b => some (common2 a b)

/-- N-ary `CommonMagnitude<M1, M2, Tail...> = CommonMagnitude<M1, CommonMagnitude<M2, Tail...>>`. -/
def commonAll : List Mag → Mag
  | [] => []
  | [m] => m
  | m :: rest => common2 m (commonAll rest)
end Mag

/-- Base dimensions are identified by `base_dim_index`. -/
def dimLt (a b : Int) : Bool := decide (a < b)
abbrev Dim := Pack Int
namespace Dim
def mul (a b : Dim) : Dim := Pack.mul dimLt a b
end Dim

end Au

/-
  AuModel.MathFlt — the binary floating-point arithmetic used by the C15 model (`math.hh`).

  A format is (precision p, emax).  A value is `nan`, `±inf` or a finite rational (always one that
  is representable in the format it was produced in; −0 and +0 are identified).  All operations are
  "exact rational result, then one rounding to nearest-even" (`rne`), which is what IEEE-754 basic
  operations, the C++ conversions and the compilers' constant evaluators do for binary32, binary64
  and the x87 64-bit-mantissa `long double` of the LP64/x86-64 target the repository builds on.
  Core Lean only.  Everything lives in namespace `Au.C15`.
-/
namespace Au.C15

inductive FltTy where
  | f32 | f64 | f80
deriving DecidableEq, Repr

namespace FltTy
def prec : FltTy → Nat
  | f32 => 24 | f64 => 53 | f80 => 64
def emax : FltTy → Int
  | f32 => 127 | f64 => 1023 | f80 => 16383
def name : FltTy → String
  | f32 => "f32" | f64 => "f64" | f80 => "f80"
def ofName? (s : String) : Option FltTy :=
  if s = "f32" then some f32 else if s = "f64" then some f64 else if s = "f80" then some f80 else none
/-- Conversion rank: `float < double < long double`. -/
def rank : FltTy → Nat
  | f32 => 0 | f64 => 1 | f80 => 2
def wider (a b : FltTy) : FltTy := if a.rank < b.rank then b else a
end FltTy

/-- A floating-point datum. -/
inductive FVal where
  | nan
  | inf (neg : Bool)
  | fin (q : Rat)
deriving DecidableEq, Repr

/-- `2^e` as a rational, `e` any integer. -/
def pow2 (e : Int) : Rat :=
  if e ≥ 0 then ((2 ^ e.toNat : Nat) : Rat) else 1 / ((2 ^ (-e).toNat : Nat) : Rat)

/-- Is `2^k ≤ a / b`?  (`b > 0`.) -/
def pow2Le (k : Int) (a b : Nat) : Bool :=
  if k ≥ 0 then decide (2 ^ k.toNat * b ≤ a) else decide (b ≤ a * 2 ^ (-k).toNat)

/-- `⌊log₂ (a / b)⌋` for positive `a`, `b`. -/
def ilog2 (a b : Nat) : Int :=
  let k : Int := (Nat.log2 a : Int) - (Nat.log2 b : Int)
  if pow2Le k a b then k else k - 1

/-- `a / b` (positive) divided by `2^ex`, rounded to the nearest integer, ties to even. -/
def roundHalfEven (a b : Nat) (ex : Int) : Nat :=
  let A := if ex ≥ 0 then a else a * 2 ^ (-ex).toNat
  let B := if ex ≥ 0 then b * 2 ^ ex.toNat else b
  let fl := A / B
  let r := A % B
  if 2 * r < B then fl
  else if 2 * r > B then fl + 1
  else if fl % 2 = 0 then fl else fl + 1

/-- Round the positive rational `a / b` to the format: the quantum exponent is
`max (⌊log₂ q⌋ − p + 1, emin − p + 1)` (gradual underflow), overflow gives `none`. -/
def rnePos (f : FltTy) (a b : Nat) : Option Rat :=
  let e := ilog2 a b
  let emin : Int := 1 - f.emax
  let ex := max (e - (f.prec : Int) + 1) (emin - (f.prec : Int) + 1)
  let m := roundHalfEven a b ex
  let v : Rat := (m : Rat) * pow2 ex
  if v ≥ pow2 (f.emax + 1) then none else some v

/-- Round-to-nearest-even of an arbitrary rational into format `f`. -/
def rne (f : FltTy) (q : Rat) : FVal :=
  if q = 0 then .fin 0
  else if q > 0 then
    match rnePos f q.num.toNat q.den with
    | some v => .fin v
    | none => .inf false
  else
    match rnePos f (-q.num).toNat q.den with
    | some v => .fin (-v)
    | none => .inf true

/-- Largest finite value of the format: `(2 − 2^(1−p))·2^emax`. -/
def FltTy.maxFinite (f : FltTy) : Rat := (((2 ^ f.prec - 1 : Nat) : Rat)) * pow2 (f.emax - (f.prec : Int) + 1)

namespace FVal

def isNeg : FVal → Bool
  | nan => false
  | inf n => n
  | fin q => decide (q < 0)

def neg : FVal → FVal
  | nan => nan
  | inf n => inf (!n)
  | fin q => fin (-q)

/-- `a * b` in format `f`. -/
def mul (f : FltTy) : FVal → FVal → FVal
  | nan, _ => nan
  | _, nan => nan
  | inf n, inf m => inf (n != m)
  | inf n, fin q => if q = 0 then nan else inf (n != decide (q < 0))
  | fin q, inf n => if q = 0 then nan else inf (n != decide (q < 0))
  | fin a, fin b => rne f (a * b)

/-- `a / b` in format `f` (division of a finite non-zero value by zero gives an infinity whose
sign is that of the dividend: −0 is not represented). -/
def div (f : FltTy) : FVal → FVal → FVal
  | nan, _ => nan
  | _, nan => nan
  | inf _, inf _ => nan
  | inf n, fin q => inf (n != decide (q < 0))
  | fin _, inf _ => fin 0
  | fin a, fin b => if b = 0 then (if a = 0 then nan else inf (decide (a < 0))) else rne f (a / b)

/-- `a < b` (false when unordered). -/
def lt : FVal → FVal → Bool
  | nan, _ => false
  | _, nan => false
  | inf n, inf m => n && !m
  | inf n, fin _ => n
  | fin _, inf m => !m
  | fin a, fin b => decide (a < b)

def le (a b : FVal) : Bool :=
  match a, b with
  | nan, _ => false
  | _, nan => false
  | _, _ => !(lt b a)

def gt (a b : FVal) : Bool := lt b a

/-- `std::floor`. -/
def floor : FVal → FVal
  | fin q => fin (q.floor : Int)
  | v => v

/-- `std::ceil`. -/
def ceil : FVal → FVal
  | fin q => fin (-((-q).floor) : Int)
  | v => v

/-- `std::round`: nearest integer, halfway cases away from zero. -/
def round : FVal → FVal
  | fin q => if q ≥ 0 then fin ((q + 1 / 2).floor : Int) else fin (-((-q + 1 / 2).floor) : Int)
  | v => v

/-- Conversion to another floating format. -/
def toFlt (f : FltTy) : FVal → FVal
  | fin q => rne f q
  | v => v

end FVal

end Au.C15


/-
  AuModel.MathFn — `au/math.hh` (with the parts of `quantity.hh`, `constant.hh`, `magnitude.hh`,
  `apply_magnitude.hh` it runs through), transcribed clause by clause for property C15.

  * `convert`            — `Quantity<U,R>::in<NewRep>(unit)` (quantity.hh:143-180)
  * `getValueF/I`        — `get_value<T>(Magnitude)` for floating / integral `T` (magnitude.hh:318-569)
  * `roundIn`, `roundInAs` — `round_in / floor_in / ceil_in` in both formats (math.hh:82-118, 387-592)
  * `inRadians`          — `detail::in_radians` (math.hh:46-62)
  * `inverseIn`, `inverseImplicitCompiles`, `inverseInImplicit` — math.hh:230-299
  * `minQ`, `maxQ`, `clampQ`, `absQ`, `twoArgRep` — the wrappers of math.hh:120-219, 315-385 and the
    hidden friends of quantity.hh:404-408

  A unit pair enters only through the magnitude of its ratio, given as the library's pack: a list
  of (base, integer exponent) in the library's order (primes ascending, `Pi` by its value between
  3 and 5).  Fractional exponents (roots) are outside this model.  Everything is in namespace
  `Au.C15`; core Lean only.
-/
import AuModel.Arith
import AuModel.ApplyMag
import AuModel.MathFlt

namespace Au.C15
open Au

/-! ### Arithmetic types and values -/

inductive ArithTy where
  | int (t : IntTy)
  | flt (f : FltTy)
deriving DecidableEq, Repr

namespace ArithTy
/-- `std::common_type_t<A, B>` on arithmetic types. -/
def common : ArithTy → ArithTy → ArithTy
  | int a, int b => int (IntTy.common a b)
  | int _, flt f => flt f
  | flt f, int _ => flt f
  | flt a, flt b => flt (a.wider b)

def isFloat : ArithTy → Bool
  | flt _ => true
  | int _ => false

def name : ArithTy → String
  | int t => t.name
  | flt f => f.name

def ofName? (s : String) : Option ArithTy :=
  match IntTy.ofName? s with
  | some t => some (int t)
  | none => (FltTy.ofName? s).map flt
end ArithTy

/-- A value of some arithmetic type. -/
inductive Val where
  | i (n : Int)
  | f (v : FVal)
deriving DecidableEq, Repr

/-- Result of a C++ expression: a value, undefined behaviour, or "the program is ill-formed"
(a `static_assert` fires). -/
inductive Res (α : Type) where
  | ok (a : α)
  | ub (why : String)
  | nocompile (why : String)
deriving Repr, DecidableEq

def Res.bind {α β : Type} (r : Res α) (g : α → Res β) : Res β :=
  match r with
  | .ok a => g a
  | .ub w => .ub w
  | .nocompile w => .nocompile w

instance : Monad Res where
  pure := .ok
  bind := Res.bind

/-- `static_cast<To>(v)`.  Integer→integer is modular; integer→float and float→float round to
nearest; float→integer truncates and is undefined when the truncated value is not representable. -/
def staticCast (v : Val) (to : ArithTy) : Res Val :=
  match v, to with
  | .i n, .int t => .ok (.i (t.wrap n))
  | .i n, .flt f => .ok (.f (rne f (n : Rat)))
  | .f x, .flt f => .ok (.f (x.toFlt f))
  | .f (.fin q), .int t =>
    let z := Int.tdiv q.num (q.den : Int)
    if t.inRange z then .ok (.i z) else .ub "float-to-integer conversion out of range"
  | .f _, .int _ => .ub "float-to-integer conversion of nan/inf"

/-! ### Magnitudes -/

inductive MBase where
  | prime (p : Nat)
  | pi
deriving DecidableEq, Repr

/-- A magnitude with integer exponents, in pack order. -/
abbrev Mag := List (MBase × Int)

namespace Mag
def inv (m : Mag) : Mag := m.map (fun be => (be.1, -be.2))

/-- `IsInteger<M>`: `M` equals its integer part — only primes, only positive powers. -/
def isInteger (m : Mag) : Bool := m.all (fun be => be.1 != .pi && decide (be.2 ≥ 0))

/-- `IsRational<M>`: no `Pi`. -/
def isRational (m : Mag) : Bool := m.all (fun be => be.1 != .pi)

/-- Product of the positive prime powers. -/
def num : Mag → Nat
  | [] => 1
  | (.prime p, e) :: t => (if e > 0 then p ^ e.toNat else 1) * num t
  | (.pi, _) :: t => num t

/-- Product of the negative prime powers (as a positive integer). -/
def den (m : Mag) : Nat := num m.inv

/-- Well-formed pack as the check produces them: primes ≥ 2, strictly ascending (with `Pi`
between 3 and 5), no zero exponent. -/
def baseKey : MBase → Nat
  | .prime p => 2 * p
  | .pi => 7

def wf : Mag → Bool
  | [] => true
  | [(b, e)] => decide (e ≠ 0) && (match b with | .prime p => decide (2 ≤ p) | .pi => true)
  | (b, e) :: (b', e') :: t =>
    decide (e ≠ 0) && (match b with | .prime p => decide (2 ≤ p) | .pi => true) &&
      decide (baseKey b < baseKey b') && wf ((b', e') :: t)
end Mag

/-- `categorize_magnitude` (apply_magnitude.hh:31-43). -/
inductive MCat where
  | intMul | intDiv | rational | irrational
deriving DecidableEq, Repr

def categorizeMag (m : Mag) : MCat :=
  if m.isInteger then .intMul
  else if m.inv.isInteger then .intDiv
  else if m.isRational then .rational
  else .irrational

/-! ### `get_value<T>(Magnitude)` -/

/-- `std::numeric_limits<long double>::max()`. -/
def ldMax : FVal := .fin FltTy.f80.maxFinite

/-- `Pi::value()`: the literal of magnitude.hh:92 rounded to `long double`. -/
def piLD : FVal := rne .f80 ((314159265358979323846264338327950288419716939 : Rat) / (10 ^ 44 : Nat))

def baseLD : MBase → FVal
  | .prime p => rne .f80 (p : Rat)      -- static_cast<long double>(uintmax_t)
  | .pi => piLD

/-- `checked_int_pow<long double>(base, exp)` (magnitude.hh:317-338), the loop unrolled with fuel
(64 iterations suffice for a 64-bit exponent). `none` = `ERR_CANNOT_FIT`. -/
def cipLoop : Nat → FVal → Nat → FVal → Option FVal
  | 0, _, _, r => some r
  | fuel + 1, base, exp, r =>
    if exp = 0 then some r
    else
      let step : Option FVal :=
        if exp % 2 = 1 then
          (if FVal.gt base (FVal.div .f80 ldMax r) then none else some (FVal.mul .f80 r base))
        else some r
      match step with
      | none => none
      | some r' =>
        let exp' := exp / 2
        if FVal.gt base (FVal.div .f80 ldMax base) then (if exp' = 0 then some r' else none)
        else cipLoop fuel (FVal.mul .f80 base base) exp' r'

def checkedIntPowLD (base : FVal) (exp : Nat) : Option FVal := cipLoop 64 base exp (.fin 1)

/-- `base_power_value<T, N, 1>(base)` for floating `T` (`Widen<T>` = `long double`). -/
def basePowerLD (b : MBase) (e : Int) : Option FVal :=
  if e < 0 then (checkedIntPowLD (baseLD b) (-e).toNat).map (fun v => FVal.div .f80 (.fin 1) v)
  else checkedIntPowLD (baseLD b) e.toNat

/-- The multiplication loop of `product` (magnitude.hh:460-467). -/
def productLoop : List FVal → FVal → Option FVal
  | [], r => some r
  | x :: t, r =>
    if FVal.gt x (.fin 1) && FVal.gt r (FVal.div .f80 ldMax x) then none
    else productLoop t (FVal.mul .f80 r x)

def allSome {α : Type} : List (Option α) → Option (List α)
  | [] => some []
  | none :: _ => none
  | some a :: t => (allSome t).map (a :: ·)

/-- `get_value_result<T>(M)` for floating `T`; `none` = any error outcome. -/
def getValueF (f : FltTy) (m : Mag) : Option FVal :=
  match m with
  | [] => some (.fin 1)
  | _ =>
    match allSome (m.map (fun be => basePowerLD be.1 be.2)) with
    | none => none
    | some vals =>
      match productLoop vals (.fin 1) with
      | none => none
      | some w =>
        -- safe_to_cast_to<T>: lowest(T) ≤ w ≤ max(T)
        if FVal.le (.fin (-f.maxFinite)) w && FVal.le w (.fin f.maxFinite) then
          -- a magnitude is strictly positive: a value that underflows to zero in `T` cannot be represented
          -- (magnitude.hh:557-560, the fix of finding F6)
          if w.toFlt f = .fin 0 then none else some (w.toFlt f)
        else none

/-- `get_value_result<T>(M)` for integral `T`: the magnitude must be an integer that fits.
(Specification-level; exact for prime bases below 2^63 — beyond that see finding F1 / C11.) -/
def getValueI (t : IntTy) (m : Mag) : Option Int :=
  if m.isInteger then gvInt t m.num else none

/-! ### `apply_magnitude` and `Quantity::in<NewRep>` -/

/-- What `ApplyMagnitudeImpl<Mag, Category, T, false>::operator()` does to its argument for a
floating `T`: multiply by, or divide by, a constant obtained from `get_value<T>` at compile time. -/
inductive FOp where
  | mul (c : FVal)
  | div (c : FVal)
deriving Repr, DecidableEq

def FOp.apply (f : FltTy) : FOp → FVal → FVal
  | .mul c, x => FVal.mul f x c
  | .div c, x => FVal.div f x c

/-- The operation chosen for magnitude `m` in floating type `f` (`nocompile`: the `static_assert`s
of `get_value` fire). -/
def magOp (f : FltTy) (m : Mag) : Res FOp :=
  match categorizeMag m with
  | .intMul =>
    match getValueF f m with
    | some c => .ok (.mul c)
    | none => .nocompile "get_value"
  | .intDiv =>
    match getValueF f m.inv with
    | some c => .ok (.div c)
    | none => .nocompile "get_value"
  | .rational | .irrational =>
    match getValueF f m with
    | some c => .ok (.mul c)
    | none => .nocompile "get_value"

def applyMagF (f : FltTy) (m : Mag) (x : FVal) : Res FVal :=
  (magOp f m).bind fun op => .ok (op.apply f x)

def applyMagI (t : IntTy) (m : Mag) (x : Int) : Res Int :=
  match categorizeMag m with
  | .irrational => .nocompile "Cannot apply irrational magnitude to integer type"
  | _ =>
    if compiles t m.num m.den then
      match (applyMag t m.num m.den x).val with
      | .ok v => .ok v
      | .ub w => .ub w
    else .nocompile "get_value"

def applyMagnitude (c : ArithTy) (m : Mag) (v : Val) : Res Val :=
  match c, v with
  | .flt f, .f x => (applyMagF f m x).bind (fun y => .ok (.f y))
  | .int t, .i x => (applyMagI t m x).bind (fun y => .ok (.i y))
  | _, _ => .nocompile "ill-typed"

/-- `Quantity<U,R>::in<NewRep>(u)` where `m` is the magnitude of `U / u`
(units are quantity-equivalent exactly when `m` is empty). -/
def convert (R NewRep : ArithTy) (m : Mag) (x : Val) : Res Val :=
  if m.isEmpty && R = NewRep then .ok x
  else
    let C := R.common NewRep
    (staticCast x C).bind fun v => (applyMagnitude C m v).bind fun w => staticCast w NewRep

/-- The compile-time part of `Quantity::in<NewRep>`: for a floating common type, the operation
`apply_magnitude` will perform.  (`AuProofs.Lemmas.MathFn.convert_eq_plan` proves that running a plan
is `convert`; the driver uses plans so that a batch of values shares one evaluation of
`get_value`.) -/
structure ConvPlan where
  R : ArithTy
  NewRep : ArithTy
  m : Mag
  op : Res FOp

def planConvert (R NewRep : ArithTy) (m : Mag) : ConvPlan :=
  ⟨R, NewRep, m, match R.common NewRep with
    | .flt f => magOp f m
    | .int _ => .nocompile "integral common type"⟩

def ConvPlan.run (p : ConvPlan) (x : Val) : Res Val :=
  if p.m.isEmpty && p.R = p.NewRep then .ok x
  else
    let C := p.R.common p.NewRep
    (staticCast x C).bind fun v =>
      (match C, v with
        | .flt f, .f y => p.op.bind fun op => Res.ok (Val.f (op.apply f y))
        | _, _ => applyMagnitude C p.m v).bind fun w => staticCast w p.NewRep

/-! ### Rounding functions (math.hh:82-118, 387-592) -/

/-- `RoundingRepT`: `decltype(std::round(R{}))`. -/
def roundingRep : ArithTy → FltTy
  | .int _ => .f64
  | .flt f => f

inductive RFn where
  | round | floor | ceil
deriving DecidableEq, Repr

def RFn.apply : RFn → FVal → FVal
  | .round => FVal.round
  | .floor => FVal.floor
  | .ceil => FVal.ceil

/-- The value handed to `std::round/floor/ceil`: `q.in<RoundingRep>(rounding_units)`. -/
def roundArg (R : ArithTy) (m : Mag) (x : Val) : Res FVal :=
  (convert R (.flt (roundingRep R)) m x).bind fun v =>
    match v with
    | .f y => .ok y
    | .i _ => .nocompile "ill-typed"

/-- `round_in / floor_in / ceil_in (rounding_units, q)` — unit-only format. -/
def roundIn (fn : RFn) (R : ArithTy) (m : Mag) (x : Val) : Res FVal :=
  (roundArg R m x).bind fun y => .ok (fn.apply y)

/-- Explicit-rep format: `static_cast<OutputRep>(…)`. -/
def roundInAs (fn : RFn) (R Out : ArithTy) (m : Mag) (x : Val) : Res Val :=
  (roundIn fn R m x).bind fun r => staticCast (.f r) Out

/-- `detail::in_radians(q)`; `m` is the magnitude of `U / Radians`. -/
def inRadians (R : ArithTy) (m : Mag) (x : Val) : Res Val :=
  convert R (.flt (roundingRep R)) m x

/-- The type `std::fmod / remainder / hypot` compute in for argument types `R1`, `R2`. -/
def twoArgRep (R1 R2 : ArithTy) : FltTy :=
  match R1, R2 with
  | .flt .f80, _ => .f80
  | _, .flt .f80 => .f80
  | .flt .f32, .flt .f32 => .f32
  | _, _ => .f64

/-! ### Inverses (math.hh:230-299) -/

/-- The literal in `constexpr R threshold = 1'000'000;` (and in the rep guard above it). -/
def inverseThresholdLiteral : Nat := 1000000

/-- `UNITY.in<Rep>(associated_unit(target_units) * U{})`, `K` the magnitude of
`1 / (target · U)`: the `static_assert(can_store_value_in<Rep>(…))` of constant.hh:74, then
`Quantity<Unitless, Rep>{1}.in<Rep>(…)`. -/
def unityIn (Rep : ArithTy) (K : Mag) : Res Val :=
  let representable : Bool :=
    match Rep with
    | .int t => (getValueI t K).isSome
    | .flt f => (getValueF f K).isSome
  if !representable then .nocompile "Cannot represent constant in this unit/rep"
  else
    match Rep with
    | .int _ => convert Rep Rep K (.i 1)
    | .flt _ => convert Rep Rep K (.f (.fin 1))

/-- `a / b` with `a : Rep`, `b : R`, `Rep = common_type<…, R>`: usual arithmetic conversions. -/
def divide (Rep R : ArithTy) (a b : Val) : Res Val :=
  match Rep, R, a, b with
  | .int ta, .int tb, .i x, .i y =>
    let p := IntTy.uac ta tb
    match (divIn p (p.wrap x) (p.wrap y)).val with
    | .ok v => .ok (.i v)
    | .ub w => .ub w
  | .flt f, _, .f x, y =>
    (staticCast y (.flt f)).bind fun y' =>
      match y' with
      | .f yf => .ok (.f (FVal.div f x yf))
      | .i _ => .nocompile "ill-typed"
  | _, _, _, _ => .nocompile "ill-typed"

/-- The type `Rep / R` is evaluated in. -/
def divideTy (Rep R : ArithTy) : ArithTy :=
  match Rep, R with
  | .int ta, .int tb => .int (IntTy.uac ta tb)
  | .flt f, _ => .flt f
  | .int t, .flt _ => .int t

/-- Explicit-rep `inverse_in<TargetRep>(target_units, q)`. -/
def inverseIn (TR R : ArithTy) (K : Mag) (x : Val) : Res Val :=
  let Rep := TR.common R
  (unityIn Rep K).bind fun k =>
    -- the quotient has the type of the division; `static_cast<TargetRep>` converts it
    (divide Rep R k x).bind fun q => staticCast q TR

/-- `static_assert(is_floating_point<R> || numeric_limits<R>::max() >= 1'000'000, …);
constexpr R threshold = 1'000'000;` (math.hh:268-272): for an integral `R` that cannot hold the
literal the assertion fires and the program is ill-formed (`none`); for floating `R` the literal
is exactly representable. -/
def thresholdOf (R : ArithTy) : Option Val :=
  match R with
  | .int t => if t.inRange (inverseThresholdLiteral : Int) then some (.i (inverseThresholdLiteral : Int)) else none
  | .flt f => some (.f (rne f (inverseThresholdLiteral : Rat)))

def valGe : Val → Val → Bool
  | .i a, .i b => decide (a ≥ b)
  | .f a, .f b => FVal.le b a
  | _, _ => false

/-- Whether implicit-rep `inverse_in(target_units, q)` compiles: the threshold declaration must be
well-formed, `UNITY.in<R>(…)` must be well-formed (it is an operand of the asserted expression for
every `R`), and `UNITY.in<R>(…) >= threshold || is_floating_point<R>`. -/
def inverseImplicitCompiles (R : ArithTy) (K : Mag) : Bool :=
  match thresholdOf R with
  | none => false
  | some thr =>
    match unityIn R K with
    | .ok k => valGe k thr || R.isFloat
    | _ => false

/-- Implicit-rep `inverse_in(target_units, q)` (and the value of `inverse_as`). -/
def inverseInImplicit (R : ArithTy) (K : Mag) (x : Val) : Res Val :=
  if inverseImplicitCompiles R K then inverseIn R R K x
  else .nocompile "Dangerous inversion risking truncation to 0"

/-! ### min / max / clamp / abs -/

def valLt : Val → Val → Bool
  | .i a, .i b => decide (a < b)
  | .f a, .f b => FVal.lt a b
  | _, _ => false

/-- `q.as<Rr>(unit)` (also the implicit constructor `ResultT{q}`): cast to the common type, apply
the magnitude `m` of `U / unit` there, cast to `Rr`.  `as` always runs `apply_magnitude`, also for
the empty magnitude. -/
def construct (R Rr : ArithTy) (m : Mag) (x : Val) : Res Val :=
  (staticCast x (R.common Rr)).bind fun v =>
    (applyMagnitude (R.common Rr) m v).bind fun w => staticCast w Rr

/-- `detail::cast_to_common_type<C>(q)`: `rep_cast<C::Rep>(q).as(C::unit)`; `m` = magnitude of
`U / C::Unit`.  (The conversion-policy `static_assert` of `as(unit)` is not modelled here: it is
property C06; the check only generates instances that satisfy it.) -/
def toCommon (R C : ArithTy) (m : Mag) (x : Val) : Res Val :=
  (construct R C [] x).bind fun v => construct C C m v

/-- `max(q1, q2)`.  `same` = the two `Quantity` types are identical (then the hidden friend of
quantity.hh:405 is chosen: `b < a ? a : b`), otherwise math.hh:328-331 → `std::max(a, b)` on the
common type: `a < b ? b : a`. -/
def maxQ (same : Bool) (R1 R2 : ArithTy) (m1 m2 : Mag) (x1 x2 : Val) : Res Val :=
  if same then .ok (if valLt x2 x1 then x1 else x2)
  else
    let C := R1.common R2
    (toCommon R1 C m1 x1).bind fun a => (toCommon R2 C m2 x2).bind fun b =>
      .ok (if valLt a b then b else a)

/-- `min(q1, q2)`: hidden friend `b < a ? b : a`; otherwise `std::min(a, b)` = `b < a ? b : a`. -/
def minQ (same : Bool) (R1 R2 : ArithTy) (m1 m2 : Mag) (x1 x2 : Val) : Res Val :=
  if same then .ok (if valLt x2 x1 then x2 else x1)
  else
    let C := R1.common R2
    (toCommon R1 C m1 x1).bind fun a => (toCommon R2 C m2 x2).bind fun b =>
      .ok (if valLt b a then b else a)

/-- `q1 < q2` for two quantity types (`same`: hidden friend on the stored values). -/
def lessQ (same : Bool) (R1 R2 : ArithTy) (m1 m2 : Mag) (x1 x2 : Val) : Res Bool :=
  if same then .ok (valLt x1 x2)
  else
    let C := R1.common R2
    (toCommon R1 C m1 x1).bind fun a => (toCommon R2 C m2 x2).bind fun b => .ok (valLt a b)

/-- Magnitudes `clamp` needs: each operand to the common unit of each compared pair and to the
result unit. -/
structure ClampMags where
  vToVLo : Mag
  loToVLo : Mag
  hiToHiV : Mag
  vToHiV : Mag
  vToRes : Mag
  loToRes : Mag
  hiToRes : Mag

/-- `clamp(v, lo, hi)` (math.hh:163-170):
`(v < lo) ? ResultT{lo} : (hi < v) ? ResultT{hi} : ResultT{v}`.
`sameVLo`, `sameHiV`: the compared types are identical. -/
def clampQ (sameVLo sameHiV : Bool) (RV RLo RHi : ArithTy) (ms : ClampMags) (v lo hi : Val) :
    Res Val :=
  let Rr := (RV.common RLo).common RHi
  (lessQ sameVLo RV RLo ms.vToVLo ms.loToVLo v lo).bind fun c1 =>
    if c1 then construct RLo Rr ms.loToRes lo
    else
      (lessQ sameHiV RHi RV ms.hiToHiV ms.vToHiV hi v).bind fun c2 =>
        if c2 then construct RHi Rr ms.hiToRes hi else construct RV Rr ms.vToRes v

/-- `abs(q)`: `make_quantity<U>(std::abs(q.in(U{})))` — for integral reps `std::abs` works (and
returns) in the promoted type; `abs(lowest)` overflows there only when `R` is not promoted. -/
def absQ (R : ArithTy) (x : Val) : Res (ArithTy × Val) :=
  match R, x with
  | .int t, .i n =>
    let p := t.promote
    if n = p.lo then .ub "abs of the most negative value" else .ok (.int p, .i (if n < 0 then -n else n))
  | .flt f, .f (.fin q) => .ok (.flt f, .f (.fin (if q < 0 then -q else q)))
  | .flt f, .f (.inf _) => .ok (.flt f, .f (.inf false))
  | .flt f, .f .nan => .ok (.flt f, .f .nan)
  | _, _ => .nocompile "ill-typed"

/-- `isnan(q)`. -/
def isnanQ : Val → Bool
  | .f .nan => true
  | _ => false

/-! ### Result units (which unit the returned quantity carries) -/

inductive ResUnit where
  | raw            -- a raw number (no unit)
  | target         -- the unit slot passed as first argument
  | first          -- the unit of the (first) quantity argument
  | common         -- `CommonUnitT` of all quantity arguments
  | radians
deriving DecidableEq, Repr

def resultUnit (fn : String) : Option ResUnit :=
  match fn with
  | "round_in" | "floor_in" | "ceil_in" | "inverse_in" | "sin" | "cos" | "tan" | "isnan" => some .raw
  | "round_as" | "floor_as" | "ceil_as" | "inverse_as" => some .target
  | "abs" | "copysign" => some .first
  | "hypot" | "fmod" | "remainder" | "min" | "max" | "clamp" => some .common
  | "arcsin" | "arccos" | "arctan" | "arctan2" => some .radians
  | _ => none

end Au.C15

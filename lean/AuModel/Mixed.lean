/-
  AuModel.Mixed — operations on two `Quantity`s of the same dimension with different units and
  integral reps (quantity.hh), transcribed clause by clause:

    * `Quantity::as<NewRep>(unit)`, `rep_cast`, `Quantity::as(unit)` / `in(unit)` (policy-checked),
    * `detail::cast_to_common_type<C>` and `detail::using_common_type` (quantity.hh:698-728),
    * the mixed-type `== != < <= > >=` and `+ -` templates (quantity.hh:730-764) followed by the
      same-type hidden friends (quantity.hh:286-301),
    * `operator%` via `CommonUnitT` (quantity.hh:519-529),
    * `operator<=>` via `CommonUnitT` (quantity.hh:838-846, C++20 only).

  `k1`, `k2` are the positive integers `unit_ratio(U_i, CommonUnitT<U1, U2>)` (`AuModel.CommonRat`).
  All operators scale both operands in the *common rep*: the six comparisons and `+`/`-` through
  `using_common_type`; `%` and `<=>` through `rep_cast<R>(q).in(U{})` with `R = common_type_t<R1,R2>`
  (since the `fix:` commit for finding F11/F17; before it they scaled each operand in its own rep).
-/
import AuModel.ApplyMag
import AuModel.CommonRat

namespace Au
namespace Mixed
open IntTy

/-- `implicit_rep_permitted_from_source_to_target<Rep>(unit, target)` for an integral `Rep` and an
integer unit ratio `k` (conversion_policy.hh): the identity scaling is always permitted
(`CoreImplicitConversionPolicyImplAssumingReal<Rep, Magnitude<>, Rep>`); otherwise
`in_range<Rep>(2147)` and `max(Rep) / get_value<Rep>(k) >= 2147`; when `k` does not fit `Rep`,
`can_scale_without_overflow` answers `false` (after the fix of finding F2; a hard error before it —
"does not compile" either way). -/
def implicitOk (t : IntTy) (k : Nat) : Bool :=
  if k = 1 then true
  else
    match gvInt t k with
    | none => false
    | some kv => decide ((2147 : Int) ≤ t.hi) && decide (Int.tdiv t.hi kv ≥ 2147)

/-- Sequencing of evaluation steps: the flags accumulate, undefined behaviour is sticky. -/
def andThen (a : ApplyResult) (f : Int → ApplyResult) : ApplyResult :=
  match a.val with
  | .ok v => let b := f v; ⟨b.val, a.wrapped || b.wrapped, a.narrowed || b.narrowed⟩
  | .ub w => ⟨.ub w, a.wrapped, a.narrowed⟩

/-- `static_cast<T>(v)` between integral types. -/
def staticCast (t : IntTy) (v : Int) : ApplyResult :=
  ⟨.ok (t.wrap v), false, decide (t.wrap v ≠ v)⟩

/-- `Quantity<U, R>::as<NewRep>(new_unit)` where `unit_ratio(U, new_unit) = k`:
`static_cast<NewRep>(apply_magnitude(static_cast<common_type_t<R, NewRep>>(value_), k))`. -/
def asRep (r n : IntTy) (k : Nat) (v : Int) : ApplyResult :=
  let c := IntTy.common r n
  andThen (staticCast c v) fun x =>
  andThen (applyMag c k 1 x) fun y =>
  staticCast n y

/-- `rep_cast<NewRep>(q)` = `q.as<NewRep>(Unit{})`. -/
def repCast (r n : IntTy) (v : Int) : ApplyResult := asRep r n 1 v

/-- `detail::cast_to_common_type<C>(q)` = `rep_cast<C::Rep>(q).as(C::unit)`; `.as(unit)` is
`as<Rep>(unit)` behind the policy `static_assert`. -/
def castToCommon (r c : IntTy) (k : Nat) (v : Int) : ApplyResult :=
  andThen (repCast r c v) fun z => asRep c c k z

/-- `Quantity<U, R>::in(new_unit)` (implicit rep): `value_` when the units are quantity-equivalent
(`k = 1`), otherwise `as(u).in(u)`. -/
def inUnit (r : IntTy) (k : Nat) (v : Int) : ApplyResult :=
  if k = 1 then ⟨.ok v, false, false⟩ else asRep r r k v

/-- `a + b` evaluated in the (promoted) type `p`. -/
def addIn (p : IntTy) (a b : Int) : Step :=
  let r := a + b
  if p.signed then
    if p.inRange r then ⟨.ok r, false⟩ else ⟨.ub "signed overflow in addition", false⟩
  else
    ⟨.ok (p.wrap r), !(decide (p.inRange r))⟩

/-- `a - b` evaluated in the (promoted) type `p`. -/
def subIn (p : IntTy) (a b : Int) : Step :=
  let r := a - b
  if p.signed then
    if p.inRange r then ⟨.ok r, false⟩ else ⟨.ub "signed overflow in subtraction", false⟩
  else
    ⟨.ok (p.wrap r), !(decide (p.inRange r))⟩

inductive CmpOp where
  | eq | ne | lt | le | gt | ge
deriving DecidableEq, Repr

def CmpOp.all : List CmpOp := [.eq, .ne, .lt, .le, .gt, .ge]

/-- The built-in comparison on two values of one type. -/
def CmpOp.eval : CmpOp → Int → Int → Bool
  | .eq, a, b => decide (a = b)
  | .ne, a, b => decide (a ≠ b)
  | .lt, a, b => decide (a < b)
  | .le, a, b => decide (a ≤ b)
  | .gt, a, b => decide (a > b)
  | .ge, a, b => decide (a ≥ b)

/-- Result of a mixed-unit operation: the value (or UB), the rep of the result, and whether an
unsigned intermediate wrapped / a conversion back to a narrower type changed the value. -/
structure Res (α : Type) where
  val : Eval α
  wrapped : Bool
  narrowed : Bool
deriving Repr, DecidableEq

/-- `detail::using_common_type(q1, q2, f)`: both operands cast to
`C = Quantity<CommonUnitT<U1,U2>, common_type_t<R1,R2>>`, then `f`. -/
def usingCommon {α : Type} (r1 r2 : IntTy) (k1 k2 : Nat) (v1 v2 : Int)
    (f : IntTy → Int → Int → Res α) : Res α :=
  let c := IntTy.common r1 r2
  let a := castToCommon r1 c k1 v1
  let b := castToCommon r2 c k2 v2
  match a.val, b.val with
  | .ok x, .ok y =>
    let r := f c x y
    ⟨r.val, a.wrapped || b.wrapped || r.wrapped, a.narrowed || b.narrowed || r.narrowed⟩
  | .ub w, _ => ⟨.ub w, a.wrapped, a.narrowed⟩
  | _, .ub w => ⟨.ub w, a.wrapped || b.wrapped, a.narrowed || b.narrowed⟩

/-- Overload resolution for a binary operator on `Quantity<U1,R1>`, `Quantity<U2,R2>` also considers the
hidden friends of both classes, hence evaluates `ConstructionPolicy<U_j,R_j>::PermitImplicitFrom<U_i,R_i>`.
Before the `fix:` commit for finding F2 that trait was a hard error when `U_i/U_j` is an integer that does
not fit `R_j` (`lookupOkBeforeF2Fix`); `can_scale_without_overflow` now answers `false` instead, so the
lookup itself never fails and the gate below is the constant `true`.  The old predicate is kept for the
record (and for the theorem that the fix only enlarged the set of well-formed expressions). -/
def lookupOkBeforeF2Fix (r1 r2 : IntTy) (k1 k2 : Nat) : Bool :=
  !(k2 == 1 && k1 != 1 && (gvInt r2 k1).isNone) && !(k1 == 1 && k2 != 1 && (gvInt r1 k2).isNone)

def lookupOk (_r1 _r2 : IntTy) (_k1 _k2 : Nat) : Bool := true

/-- Whether `q1 op q2` (comparison, `+`, `-`) compiles: the policy `static_assert` in `as(unit)`
for the *common* rep, for both operands. -/
def commonCompiles (r1 r2 : IntTy) (k1 k2 : Nat) : Bool :=
  let c := IntTy.common r1 r2
  lookupOk r1 r2 k1 k2 && implicitOk c k1 && implicitOk c k2

/-- Whether `q1 % q2` / `q1 <=> q2` compiles: the policy `static_assert` in `in(unit)`, evaluated (since the
fix of F11/F17) on the *common* rep for both operands — the same gate as the other operators. -/
def modCompiles (r1 r2 : IntTy) (k1 k2 : Nat) : Bool := commonCompiles r1 r2 k1 k2

/-- The two arguments `using_common_type` hands to `f`. -/
def commonPair (r1 r2 : IntTy) (k1 k2 : Nat) (v1 v2 : Int) : Res (Int × Int) :=
  usingCommon r1 r2 k1 k2 v1 v2 fun _ x y => ⟨.ok (x, y), false, false⟩

/-- `q1 op q2` for the six comparison operators (same-type friend: `a.value_ op b.value_`). -/
def cmp (op : CmpOp) (r1 r2 : IntTy) (k1 k2 : Nat) (v1 v2 : Int) : Res Bool :=
  usingCommon r1 r2 k1 k2 v1 v2 fun _ x y => ⟨.ok (op.eval x y), false, false⟩

/-- Rep of `q1 + q2`, `q1 - q2`: `decltype(C::Rep{} + C::Rep{})`. -/
def sumRep (r1 r2 : IntTy) : IntTy := (IntTy.common r1 r2).promote

/-- `q1 + q2`: value in the common unit (same-type friend: `make_quantity<U>(a.value_ + b.value_)`). -/
def add (r1 r2 : IntTy) (k1 k2 : Nat) (v1 v2 : Int) : Res Int :=
  usingCommon r1 r2 k1 k2 v1 v2 fun c x y =>
    let s := addIn c.promote x y
    ⟨s.val, s.wrapped, false⟩

/-- `q1 - q2`. -/
def sub (r1 r2 : IntTy) (k1 k2 : Nat) (v1 v2 : Int) : Res Int :=
  usingCommon r1 r2 k1 k2 v1 v2 fun c x y =>
    let s := subIn c.promote x y
    ⟨s.val, s.wrapped, false⟩

/-- Both operands through `rep_cast<R>(q).in(CommonUnitT<U1,U2>{})`, `R = common_type_t<R1, R2>`, then the
built-in binary operator on two values of type `R` (integral promotion), then `f`. -/
def usingRepCast {α : Type} (r1 r2 : IntTy) (k1 k2 : Nat) (v1 v2 : Int)
    (f : IntTy → Int → Int → Res α) : Res α :=
  let c := IntTy.common r1 r2
  let p := IntTy.uac c c
  let a := andThen (repCast r1 c v1) fun x => inUnit c k1 x
  let b := andThen (repCast r2 c v2) fun x => inUnit c k2 x
  match a.val, b.val with
  | .ok x, .ok y =>
    let r := f p (p.wrap x) (p.wrap y)
    ⟨r.val, a.wrapped || b.wrapped || r.wrapped,
      a.narrowed || b.narrowed || r.narrowed || decide (p.wrap x ≠ x) || decide (p.wrap y ≠ y)⟩
  | .ub w, _ => ⟨.ub w, a.wrapped, a.narrowed⟩
  | _, .ub w => ⟨.ub w, a.wrapped || b.wrapped, a.narrowed || b.narrowed⟩

/-- The two operands of the built-in operator in `%` / `<=>`. -/
def repCastPair (r1 r2 : IntTy) (k1 k2 : Nat) (v1 v2 : Int) : Res (Int × Int) :=
  usingRepCast r1 r2 k1 k2 v1 v2 fun _ x y => ⟨.ok (x, y), false, false⟩

/-- Rep of `q1 % q2`: `decltype(R{} % R{})`, `R = common_type_t<R1, R2>`. -/
def modRep (r1 r2 : IntTy) : IntTy := IntTy.uac (IntTy.common r1 r2) (IntTy.common r1 r2)

/-- `q1 % q2` = `make_quantity<U>(q1.as<R>(U1{}).in(U{}) % q2.as<R>(U2{}).in(U{}))`, `U = CommonUnitT<U1, U2>`. -/
def mod (r1 r2 : IntTy) (k1 k2 : Nat) (v1 v2 : Int) : Res Int :=
  usingRepCast r1 r2 k1 k2 v1 v2 fun p x y =>
    let s := modIn p x y
    ⟨s.val, s.wrapped, false⟩

/-- `q1 <=> q2` = `rep_cast<R>(q1).in(U{}) <=> rep_cast<R>(q2).in(U{})` (`std::strong_ordering` as `Ordering`). -/
def spaceship (r1 r2 : IntTy) (k1 k2 : Nat) (v1 v2 : Int) : Res Ordering :=
  usingRepCast r1 r2 k1 k2 v1 v2 fun _ x y => ⟨.ok (compare x y), false, false⟩

/-- What a comparison operator answers on a `strong_ordering` (`(q1 <=> q2) op 0`). -/
def CmpOp.ofOrdering : CmpOp → Ordering → Bool
  | .eq, o => o == .eq
  | .ne, o => o != .eq
  | .lt, o => o == .lt
  | .le, o => o != .gt
  | .gt, o => o == .gt
  | .ge, o => o != .lt

/-! ### Statement-level side conditions (decidable), shared by the theorems of `AuProofs.C08` and by
the exhaustive-window digests of the driver. -/

/-- Scaling each operand to the common unit does not overflow in the common rep. -/
def FitsCommon (r1 r2 : IntTy) (k1 k2 : Nat) (v1 v2 : Int) : Prop :=
  (IntTy.common r1 r2).inRange (v1 * k1) ∧ (IntTy.common r1 r2).inRange (v2 * k2)
instance (r1 r2 : IntTy) (k1 k2 : Nat) (v1 v2 : Int) : Decidable (FitsCommon r1 r2 k1 k2 v1 v2) := by
  unfold FitsCommon; infer_instance

/-- Scaling each operand to the common unit does not overflow in that operand's own rep. -/
def FitsOwn (r1 r2 : IntTy) (k1 k2 : Nat) (v1 v2 : Int) : Prop :=
  r1.inRange (v1 * k1) ∧ r2.inRange (v2 * k2)
instance (r1 r2 : IntTy) (k1 k2 : Nat) (v1 v2 : Int) : Decidable (FitsOwn r1 r2 k1 k2 v1 v2) := by
  unfold FitsOwn; infer_instance

/-- The exact sum (in the common unit) is representable in the rep of `q1 + q2`. -/
def SumFits (r1 r2 : IntTy) (k1 k2 : Nat) (v1 v2 : Int) : Prop :=
  (sumRep r1 r2).inRange (v1 * k1 + v2 * k2)
instance (r1 r2 : IntTy) (k1 k2 : Nat) (v1 v2 : Int) : Decidable (SumFits r1 r2 k1 k2 v1 v2) := by
  unfold SumFits; infer_instance

/-- The exact difference (in the common unit) is representable in the rep of `q1 - q2`. -/
def DiffFits (r1 r2 : IntTy) (k1 k2 : Nat) (v1 v2 : Int) : Prop :=
  (sumRep r1 r2).inRange (v1 * k1 - v2 * k2)
instance (r1 r2 : IntTy) (k1 k2 : Nat) (v1 v2 : Int) : Decidable (DiffFits r1 r2 k1 k2 v1 v2) := by
  unfold DiffFits; infer_instance

/-- The built-in `%` is defined: non-zero divisor, and not `min % -1`. -/
def ModDefined (r1 r2 : IntTy) (k1 k2 : Nat) (v1 v2 : Int) : Prop :=
  v2 * k2 ≠ 0 ∧ ¬ (v1 * k1 = (modRep r1 r2).lo ∧ v2 * k2 = -1)
instance (r1 r2 : IntTy) (k1 k2 : Nat) (v1 v2 : Int) : Decidable (ModDefined r1 r2 k1 k2 v1 v2) := by
  unfold ModDefined; infer_instance

end Mixed
end Au

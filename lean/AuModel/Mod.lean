/-
  AuModel.Mod — `au/code/au/utility/mod.hh`, clause by clause.

  Every value is a `Nat` below `2^64`; every C++ `uint64_t` operation is written as an explicit
  wrapping operation (`% 2^64`) that *records* whether it wrapped, divided by zero, or ran out of
  model fuel.  So "no intermediate wrap-around" is a statement about the model (`U64.W.ok`), not an
  assumption of it.  Core Lean only: this file is linked into the compiled driver.
-/
namespace Au
namespace U64

/-- `2^64`. -/
def M : Nat := 18446744073709551616

/-- `std::numeric_limits<uint64_t>::max()`. -/
def maxU : Nat := 18446744073709551615

/-- A computation on `uint64_t` values: its value and three flags.
* `wrapped`: some unsigned `+ - *` left the range `[0, 2^64)` (not UB in C++, but forbidden in
  the intermediates of the modular helpers by property C12);
* `divz`: a division or remainder by zero was executed (UB in C++);
* `stuck`: a loop of the model ran out of fuel (the C++ loop would still be running). -/
structure W (α : Type) where
  val : α
  wrapped : Bool := false
  divz : Bool := false
  stuck : Bool := false
deriving Repr, DecidableEq

/-- A value computed with no wrap, no UB and within fuel. -/
@[reducible] def W.ok {α : Type} (a : α) : W α := ⟨a, false, false, false⟩

instance : Monad W where
  pure a := W.ok a
  bind x f :=
    let y := f x.val
    ⟨y.val, x.wrapped || y.wrapped, x.divz || y.divz, x.stuck || y.stuck⟩

/-- All flags clear. -/
def W.clean {α : Type} (x : W α) : Bool := !x.wrapped && !x.divz && !x.stuck

/-- Mark a computation as having exhausted the model's fuel. -/
def W.outOfFuel {α : Type} (a : α) : W α := ⟨a, false, false, true⟩

/-- `a + b` in `uint64_t`. -/
def add (a b : Nat) : W Nat := ⟨(a + b) % M, decide (M ≤ a + b), false, false⟩
/-- `a - b` in `uint64_t` (operands below `2^64`). -/
def sub (a b : Nat) : W Nat := ⟨(a + M - b) % M, decide (a < b), false, false⟩
/-- `a * b` in `uint64_t`. -/
def mul (a b : Nat) : W Nat := ⟨(a * b) % M, decide (M ≤ a * b), false, false⟩
/-- `a / b` in `uint64_t`; division by zero is UB. -/
def div (a b : Nat) : W Nat := ⟨a / b, false, decide (b = 0), false⟩
/-- `a % b` in `uint64_t`; remainder by zero is UB. -/
def mod (a b : Nat) : W Nat := ⟨a % b, false, decide (b = 0), false⟩

/-- `add_mod` (mod.hh:27-33).
```
if (a >= n - b) { return a - (n - b); } else { return a + b; }
``` -/
def addMod (a b n : Nat) : W Nat := do
  let t ← sub n b
  if a ≥ t then sub a t else add a b

/-- `sub_mod` (mod.hh:39-45).
```
if (a >= b) { return a - b; } else { return n - (b - a); }
``` -/
def subMod (a b n : Nat) : W Nat := do
  if a ≥ b then sub a b
  else
    let t ← sub b a
    sub n t

/-- `mul_mod` (mod.hh:51-70) with an explicit recursion budget.  The recursive call's first
argument is `n - a * (n / a) = n % a < a`, so `fuel = a` always suffices (`mulMod`). -/
def mulModF : Nat → Nat → Nat → Nat → W Nat
  | fuel, a, b, n =>
    -- if (b == 0u || a < max / b) return (a * b) % n;
    if b = 0 ∨ a < maxU / b then do
      let p ← mul a b
      mod p n
    else
      match fuel with
      | 0 => W.outOfFuel 0
      | fuel + 1 => do
        let chunkSize ← div n a                       -- n / a
        let numChunks ← div b chunkSize               -- b / chunk_size
        let t ← mul a chunkSize
        let negativeChunk ← sub n t                   -- n - (a * chunk_size)
        let r ← mulModF fuel negativeChunk numChunks n
        let chunkResult ← sub n r                     -- n - mul_mod(negative_chunk, num_chunks, n)
        let t2 ← mul numChunks chunkSize
        let leftover ← sub b t2                       -- b - num_chunks * chunk_size
        let t3 ← mul a leftover
        let leftoverResult ← mod t3 n                 -- (a * leftover) % n
        addMod chunkResult leftoverResult n

def mulMod (a b n : Nat) : W Nat := mulModF a a b n

/-- `half_mod_odd` (mod.hh:80-82).
```
return (a / 2u) + ((a % 2u == 0u) ? 0u : (n / 2u + 1u));
``` -/
def halfModOdd (a n : Nat) : W Nat := do
  let h ← div a 2
  let r ← mod a 2
  if r = 0 then add h 0
  else
    let t ← div n 2
    let t1 ← add t 1
    add h t1

/-- The `while (exp > 0u)` loop of `pow_mod` (mod.hh:89-96); `exp` halves, so `fuel = exp`
suffices. -/
def powModLoop : Nat → Nat → Nat → Nat → Nat → W Nat
  | fuel, result, base, exp, n =>
    if exp > 0 then
      match fuel with
      | 0 => W.outOfFuel result
      | fuel + 1 => do
        let r ← mod exp 2
        let result ← if r = 1 then mulMod result base n else pure result
        let exp ← div exp 2
        let base ← mulMod base base n
        powModLoop fuel result base exp n
    else pure result

/-- `pow_mod` (mod.hh:85-99). -/
def powMod (base exp n : Nat) : W Nat := do
  let base ← mod base n
  powModLoop exp 1 base exp n

end U64
end Au

/-
  AuModel.Outcome — compile-time outcomes of the operations that need a common unit, as gate lists
  read off the source (unit_of_measure.hh UnitRatio / CommonUnit / CommonPointUnit static_asserts,
  dimension.hh CommonDimension, conversion_policy.hh PermitImplicitFrom and
  implicit_rep_permitted_from_source_to_target, quantity.hh CommonQuantity / constructors,
  math.hh wrappers).  This is a model of the library's *constraint structure*, not of C++ overload
  resolution; it is validated by compile probes only.
-/
namespace Au

/-- `ok`: the construct compiles; `softNo`: it is removed by SFINAE / the trait answers false;
`hard`: the program is ill-formed. -/
inductive Outcome where
  | ok | softNo | hard
deriving DecidableEq, Repr

/-- Every operation of property C01 (on two quantities, or two quantity points where marked). -/
inductive Op where
  | add | sub | eq | ne | lt | le | gt | ge | spaceship | mod
  | addAssign | subAssign | implicitCtor | explicitCtor | assign
  | as_ | in_ | asRep | inRep | coerceAs | coerceIn | dataIn
  | min2 | max2 | clamp3 | hypot | fmod | remainder | arctan2
  | inverseAs | inverseIn | roundAs | roundIn | floorAs | ceilAs
  | commonType | isConvertible | isConstructible
  | ptSub | ptEq | ptLt | ptImplicitCtor | ptAs | ptPlusQuantity | ptMinusQuantity
  | ptIsConvertible
  -- second batch: the remaining rounding / coercion entry points and the rest of the point interface
  | floorIn | ceilIn | roundAsRep | coerceAsRep | coerceInRep
  | ptNe | ptLe | ptGt | ptGe | ptExplicitCtor | ptAssign | ptIn | ptCoerceAs | ptCoerceIn
  | ptPlusAssign | ptMinusAssign | quantityPlusPt
  | ptIsConstructible | ptCommonType
deriving DecidableEq, Repr

def Op.all : List Op :=
  [.add, .sub, .eq, .ne, .lt, .le, .gt, .ge, .spaceship, .mod, .addAssign, .subAssign, .implicitCtor,
   .explicitCtor, .assign, .as_, .in_, .asRep, .inRep, .coerceAs, .coerceIn, .dataIn, .min2, .max2,
   .clamp3, .hypot, .fmod, .remainder, .arctan2, .inverseAs, .inverseIn, .roundAs, .roundIn, .floorAs,
   .ceilAs, .commonType, .isConvertible, .isConstructible, .ptSub, .ptEq, .ptLt, .ptImplicitCtor,
   .ptAs, .ptPlusQuantity, .ptMinusQuantity, .ptIsConvertible,
   .floorIn, .ceilIn, .roundAsRep, .coerceAsRep, .coerceInRep, .ptNe, .ptLe, .ptGt, .ptGe, .ptExplicitCtor, .ptAssign,
   .ptIn, .ptCoerceAs, .ptCoerceIn, .ptPlusAssign, .ptMinusAssign, .quantityPlusPt, .ptIsConstructible, .ptCommonType]

/-- Trait-style questions: a failing gate makes them answer "no" instead of a hard error. -/
def Op.isTrait : Op → Bool
  | .commonType | .isConvertible | .isConstructible | .ptIsConvertible | .ptIsConstructible | .ptCommonType => true
  | _ => false

/-- A gate: a condition on the operands and what happens when it fails. -/
inductive Gate where
  | sameDim (onFail : Outcome)        -- HasSameDimension / CommonDimension / UnitRatio static_assert / enable_if
  | policy (onFail : Outcome)         -- implicit-conversion policy (C06)
  | opSpecific (onFail : Outcome)     -- e.g. integral reps for `%`, floating target for rounding, inverse threshold
deriving DecidableEq, Repr

/-- The ordered gate list of each operation. -/
def gates : Op → List Gate
  -- `using_common_type`: std::common_type_t<T,U> inside the function body → hard; then policy-checked `.as`
  | .add | .sub | .eq | .ne | .lt | .le | .gt | .ge => [.sameDim .hard, .policy .hard]
  | .spaceship => [.sameDim .hard, .policy .hard]                -- CommonUnitT static_assert; `.in(U{})`
  | .mod => [.sameDim .hard, .opSpecific .hard, .policy .hard]   -- CommonUnitT; `%` on reps; `.in(U{})`
  -- compound assignment / assignment / construction take `Quantity` by value: implicit constructor
  | .addAssign | .subAssign | .assign | .implicitCtor => [.sameDim .hard, .policy .hard]
  | .explicitCtor => [.sameDim .hard, .policy .hard]             -- explicit form is `= delete` whenever implicit is not OK
  | .as_ | .in_ => [.sameDim .hard, .policy .hard]               -- implicit_rep_permitted static_assert, then IMPLICIT_OK
  | .asRep | .inRep | .coerceAs | .coerceIn => [.sameDim .hard]  -- UnitRatio static_assert only
  | .dataIn => [.sameDim .hard, .opSpecific .hard]               -- AreUnitsQuantityEquivalent static_assert
  | .min2 | .max2 | .clamp3 => [.sameDim .hard, .policy .hard]
  | .hypot | .fmod | .remainder | .arctan2 => [.sameDim .hard, .policy .hard]
  | .inverseAs | .inverseIn => [.sameDim .hard, .opSpecific .hard]   -- target·U must be dimensionless; threshold
  | .roundAs | .roundIn | .floorAs | .ceilAs => [.sameDim .hard]
  | .commonType => [.sameDim .softNo]                            -- CommonQuantity enable_if
  | .isConvertible | .isConstructible => [.sameDim .softNo, .policy .softNo]
  | .ptSub | .ptEq | .ptLt => [.sameDim .hard, .policy .hard]
  | .ptImplicitCtor => [.sameDim .hard, .policy .hard]
  | .ptAs => [.sameDim .hard, .policy .hard]
  | .ptPlusQuantity | .ptMinusQuantity => [.sameDim .hard, .policy .hard]
  | .ptIsConvertible => [.sameDim .softNo, .policy .softNo]
  | .floorIn | .ceilIn | .roundAsRep => [.sameDim .hard]
  | .coerceAsRep | .coerceInRep => [.sameDim .hard]
  | .ptNe | .ptLe | .ptGt | .ptGe => [.sameDim .hard, .policy .hard]
  | .ptExplicitCtor | .ptAssign | .ptIn => [.sameDim .hard, .policy .hard]
  | .ptCoerceAs | .ptCoerceIn => [.sameDim .hard]
  | .ptPlusAssign | .ptMinusAssign | .quantityPlusPt => [.sameDim .hard, .policy .hard]
  | .ptIsConstructible => [.sameDim .softNo, .policy .softNo]
  | .ptCommonType => [.sameDim .softNo]

/-- Outcome = the failure mode of the first failing gate. -/
def firstFail (sameDim policyOk opOk : Bool) : List Gate → Outcome
  | [] => .ok
  | .sameDim f :: rest => if sameDim then firstFail sameDim policyOk opOk rest else f
  | .policy f :: rest => if policyOk then firstFail sameDim policyOk opOk rest else f
  | .opSpecific f :: rest => if opOk then firstFail sameDim policyOk opOk rest else f

def outcome (op : Op) (sameDim policyOk opOk : Bool) : Outcome :=
  firstFail sameDim policyOk opOk (gates op)

end Au

/-
  AuModel.Pack — products of base powers (`packs.hh`): the representation behind `Dimension`,
  `Magnitude` and `UnitProduct`.

  A pack is a list of (base, exponent) with rational exponents.  The three C++ spellings of one
  element (`B`, `Pow<B,N>`, `RatioPow<B,N,D>`) are a function of the exponent alone
  (`SimplifyBasePowers` is applied to every result of `PackProductT` / `PackPowerT`), so equal
  lists of (base, exponent) are identical C++ types.  Everything here is parametric in the base
  order `lt` (`InOrderFor<Pack, ·, ·>`).
-/
namespace Au

abbrev Pack (β : Type) := List (β × Rat)

namespace Pack
variable {β : Type}

/-- `PackProduct<P, P<H1,T1...>, P<H2,T2...>>` (packs.hh), clause by clause — including the swapped
argument order of the recursive calls in the second and fourth branch. -/
def mul (lt : β → β → Bool) : Pack β → Pack β → Pack β
  | [], b => b
  | a, [] => a
  | (b1, e1) :: t1, (b2, e2) :: t2 =>
    if lt b1 b2 then (b1, e1) :: mul lt t1 ((b2, e2) :: t2)
    else if lt b2 b1 then (b2, e2) :: mul lt t2 ((b1, e1) :: t1)
    else if e1 + e2 = 0 then mul lt t1 t2
    else (b1, e1 + e2) :: mul lt t2 t1
termination_by a b => a.length + b.length
decreasing_by all_goals simp +arith

/-- `PackPower<P, P<Ts...>, E>`. -/
def pow (p : Pack β) (q : Rat) : Pack β :=
  if q = 0 then [] else p.map (fun a => (a.1, a.2 * q))

/-- `PackInverseT`. -/
def inv (p : Pack β) : Pack β := p.pow (-1)

/-- `PackQuotientT`. -/
def div (lt : β → β → Bool) (a b : Pack β) : Pack β := mul lt a b.inv

/-- N-ary `PackProduct` (right fold, as the N-ary clause recurses). -/
def mulAll (lt : β → β → Bool) : List (Pack β) → Pack β
  | [] => []
  | [a] => a
  | a :: rest => mul lt a (mulAll lt rest)

/-- The exponent of base `b` (0 if absent). -/
def den [DecidableEq β] (p : Pack β) (b : β) : Rat :=
  match p with
  | [] => 0
  | (c, e) :: t => if c = b then e else den t b

/-- `AreBasesInOrder`. -/
def Sorted (lt : β → β → Bool) (p : Pack β) : Prop :=
  p.Pairwise (fun a b => lt a.1 b.1 = true)

/-- `IsValidPack`: bases strictly ascending and all exponents non-zero. -/
def Valid (lt : β → β → Bool) (p : Pack β) : Prop :=
  Sorted lt p ∧ ∀ a ∈ p, a.2 ≠ 0

/-- `NumeratorPartT`: elements with positive exponent. -/
def numPart (p : Pack β) : Pack β := p.filter (fun a => decide (0 < a.2))

/-- `DenominatorPartT`: elements with negative exponent, inverted. -/
def denPart (p : Pack β) : Pack β := (p.inv).filter (fun a => decide (0 < a.2))

/-- Interpretation of a pack of β-powers into γ-packs: `Π (f b)^q` (right fold, as the N-ary
`PackProduct` recurses).  `DimT`/`MagT` of a `UnitProduct` are instances. -/
def interp {γ : Type} (ltg : γ → γ → Bool) (f : β → Pack γ) : Pack β → Pack γ
  | [] => []
  | (b, q) :: t => mul ltg ((f b).pow q) (interp ltg f t)


/-- `InStandardPackOrder<P<…>, P<…>>` (packs.hh:347-362): lexicographic on (lead base, lead exponent), then
the tails; the empty pack sorts first.  `OrderByDim` / `OrderByMag`, the second and third keys of the
unit ordering `InOrderFor<UnitProduct, ·, ·>`, are this order on `DimT` / `MagT`. -/
def packLt (lt : β → β → Bool) : Pack β → Pack β → Bool
  | [], [] => false
  | [], _ :: _ => true
  | _ :: _, [] => false
  | (b1, e1) :: t1, (b2, e2) :: t2 =>
    if lt b1 b2 then true
    else if lt b2 b1 then false
    else if e1 - e2 < 0 then true
    else if e2 - e1 < 0 then false
    else packLt lt t1 t2

end Pack

/-- What `LexicographicTotalOrdering` demands of a base order. -/
structure StrictTotal {β : Type} (lt : β → β → Bool) : Prop where
  irrefl : ∀ a, lt a a = false
  trans : ∀ a b c, lt a b = true → lt b c = true → lt a c = true
  total : ∀ a b, lt a b = false → lt b a = false → a = b

end Au

/-
  AuModel.Point — `QuantityPoint` (quantity_point.hh) for integral reps and units with rational scale
  and an explicitly declared origin, transcribed clause by clause on top of `AuModel.Mixed`:

    * `OriginDisplacement<U1, U2>` (unit_of_measure.hh:447-495): `ZERO` when the origins compare
      equal, otherwise `origin(U2) - origin(U1)` (a mixed-unit `Quantity` subtraction in the origins'
      rep, `int`);
    * `detail::IntermediateRep` (quantity_point.hh:426-436);
    * explicit-rep `in<NewRep>(unit)` / `as<NewRep>` / `coerce_in` (quantity_point.hh:131-140);
    * implicit-rep `in(unit)` / `as(unit)` (quantity_point.hh:142-155);
    * `rep_cast<R>(point)`, `detail::using_common_point_unit` (quantity_point.hh:309-321) and the
      same-type hidden friends (comparison, point − point, point ± diff);
    * `CommonPointUnitT` for two units: the smaller origin (tie: smaller native value), scale = rational
      gcd of the two scales and of the units of the non-zero displacements from the common origin
      (unit_of_measure.hh:725-812).

  A point unit is `⟨scale, oc, ou⟩`: the unit's scale and its origin `oc · ou` (count `oc` stored in
  `int`, expressed in a unit of scale `ou`), all relative to one base unit with origin 0.
  Units that do not declare `origin()` (origin `Zero`) are not modelled.
-/
import AuModel.Mixed

namespace Au
namespace Point
open IntTy Mixed

structure PtUnit where
  scale : URat
  oc : Int
  ou : URat
deriving DecidableEq, Repr

/-- Rep of the generated units' `origin()` quantities (`make_quantity<…>(int literal)`). -/
def originRep : IntTy := i32

/-- `OriginOf<U1>::value() == OriginOf<U2>::value()` (mixed-unit comparison of two `int` quantities). -/
def originsEqual (u1 u2 : PtUnit) : Res Bool :=
  Mixed.cmp .eq originRep originRep (URat.ratioL u1.ou u2.ou) (URat.ratioR u1.ou u2.ou) u1.oc u2.oc

/-- Unit of `OriginDisplacement<U1, U2>::value()` when it is not `ZERO`: `CommonUnitT` of the origins' units. -/
def dispUnit (u1 u2 : PtUnit) : URat := URat.common u2.ou u1.ou

/-- `ValueDifference<OriginOf<U2>, OriginOf<U1>>::value()` = `origin(U2) - origin(U1)`, a constant expression. -/
def dispValue (u1 u2 : PtUnit) : Res Int :=
  Mixed.sub originRep originRep (URat.ratioL u2.ou u1.ou) (URat.ratioR u2.ou u1.ou) u2.oc u1.oc

/-- `detail::IntermediateRep<FromRep, ToRep>`: the common type, made signed when the destination is signed. -/
def intermediateRep (r n : IntTy) : IntTy :=
  let c := IntTy.common r n
  if n.signed then ⟨c.bits, true⟩ else c

/-- Unit ratio `from / to` in lowest terms. -/
def ratio (a b : URat) : Nat × Nat :=
  let n := a.num * b.den
  let d := a.den * b.num
  let g := Nat.gcd n d
  (n / g, d / g)

/-- `Quantity<U, p>::in<n>(unit)` with unit ratio `N/D` (explicit rep: no policy check). -/
def asRepFrac (p n : IntTy) (N D : Nat) (y : Int) : ApplyResult :=
  let c := IntTy.common p n
  andThen (staticCast c y) fun x =>
  andThen (applyMag c N D x) fun z =>
  staticCast n z

def liftStep (s : Step) : ApplyResult := ⟨s.val, s.wrapped, false⟩
def liftRes (r : Res Int) : ApplyResult := ⟨r.val, r.wrapped, r.narrowed⟩
def ubRes (w : String) : ApplyResult := ⟨.ub w, false, false⟩

/-- Whether the explicit conversion is well-formed: the displacement is a valid constant expression, and
the mixed-unit subtraction `x_ - displacement` passes the implicit-conversion policy in `CalcRep`, and the
final `apply_magnitude` finds its constants representable (`AuModel.ApplyMag.compiles`). -/
def explicitCompiles (r n : IntTy) (u u' : PtUnit) : Bool :=
  let cr := intermediateRep r n
  let c2 := IntTy.common cr.promote n
  match (originsEqual u u').val with
  | .ok true =>
    let (N, D) := ratio u.scale u'.scale
    compiles c2 N D
  | .ok false =>
    (match (dispValue u u').val with
     | .ok _ => !(dispValue u u').wrapped
     | .ub _ => false) &&
    commonCompiles cr cr (URat.ratioL u.scale (dispUnit u u')) (URat.ratioR u.scale (dispUnit u u')) &&
    (let (N, D) := ratio (URat.common u.scale (dispUnit u u')) u'.scale
     compiles c2 N D)
  | .ub _ => false

/-- `QuantityPoint<U, r>::in<n>(u')`:
`(rep_cast<CalcRep>(x_) - rep_cast<CalcRep>(OriginDisplacement<U, U'>::value())).in<n>(u')`. -/
def inExplicit (r n : IntTy) (u u' : PtUnit) (v : Int) : ApplyResult :=
  let cr := intermediateRep r n
  andThen (repCast r cr v) fun a =>
  match (originsEqual u u').val with
  | .ok true =>
    -- `Quantity - ZERO`: `ZERO` converts to `Quantity<U, CalcRep>{0}`, same-type `operator-`
    andThen (liftStep (subIn cr.promote a 0)) fun y =>
    let (N, D) := ratio u.scale u'.scale
    asRepFrac cr.promote n N D y
  | .ok false =>
    match (dispValue u u').val with
    | .ok dv =>
      andThen (repCast originRep cr dv) fun d =>
      let ud := dispUnit u u'
      andThen (liftRes (Mixed.sub cr cr (URat.ratioL u.scale ud) (URat.ratioR u.scale ud) a d)) fun y =>
      let (N, D) := ratio (URat.common u.scale ud) u'.scale
      asRepFrac cr.promote n N D y
    | .ub w => ubRes w
  | .ub w => ubRes w

/-- `rep_cast<n>(point)` = `as<n>(Unit{})` = `in<n>(Unit{})`. -/
def repCastPoint (r n : IntTy) (u : PtUnit) (v : Int) : ApplyResult := inExplicit r n u u v

/-! ### Common point unit of two units -/

/-- `origin(u1) < origin(u2)` etc. (mixed-unit comparison in `int`). -/
def originCmp (op : CmpOp) (u1 u2 : PtUnit) : Res Bool :=
  Mixed.cmp op originRep originRep (URat.ratioL u1.ou u2.ou) (URat.ratioR u1.ou u2.ou) u1.oc u2.oc

/-- `CommonOrigin<U1, U2>`: which unit's origin is chosen (`true` = the first).  `Head = U1`, `Tail = U2`:
strictly smaller wins; on a tie the smaller value in its native unit. -/
def commonOriginIsFirst (u1 u2 : PtUnit) : Bool :=
  match (originCmp .lt u1 u2).val, (originCmp .gt u1 u2).val with
  | .ok true, _ => true
  | _, .ok true => false
  | _, _ => decide (u1.oc < u2.oc)

/-- The unit holding the common origin. -/
def commonOriginUnit (u1 u2 : PtUnit) : PtUnit := if commonOriginIsFirst u1 u2 then u1 else u2

/-- Rational gcd of two scales (`CommonMagnitudeT`). -/
def gcdScale (a b : URat) : URat := (URat.common a b).reduced

/-- `CommonPointUnit<U1, U2>`: origin = common origin; `Mag` = common magnitude of the units' magnitudes and
of the units of the non-`ZERO` displacements from the common origin. -/
def commonPointUnit (u1 u2 : PtUnit) : PtUnit :=
  let co := commonOriginUnit u1 u2
  let base := gcdScale u1.scale u2.scale
  let add (s : URat) (u : PtUnit) : URat :=
    match (originsEqual co u).val with
    | .ok true => s
    | _ => gcdScale s (dispUnit co u)
  ⟨add (add base u1) u2, co.oc, co.ou⟩

/-! ### Implicit-rep conversion -/

/-- `QuantityPoint<U, r>::in(u')` (implicit rep):
`rep_cast<Rep>(x_ + rep_cast<Rep>(OriginDisplacement<U', U>::value())).in(u')`. -/
def inImplicit (r : IntTy) (u u' : PtUnit) (v : Int) : ApplyResult :=
  match (originsEqual u' u).val with
  | .ok true =>
    andThen (liftStep (addIn r.promote v 0)) fun y =>
    andThen (repCast r.promote r y) fun z =>
    let (N, _) := ratio u.scale u'.scale
    inUnit r N z
  | .ok false =>
    match (dispValue u' u).val with
    | .ok dv =>
      andThen (repCast originRep r dv) fun d =>
      let ud := dispUnit u' u
      andThen (liftRes (Mixed.add r r (URat.ratioL u.scale ud) (URat.ratioR u.scale ud) v d)) fun y =>
      andThen (repCast r.promote r y) fun z =>
      let (N, _) := ratio (URat.common u.scale ud) u'.scale
      inUnit r N z
    | .ub w => ubRes w
  | .ub w => ubRes w

/-- Gate of the implicit conversion: `OriginDisplacementFitsIn<Rep, U', U>`, the policy for the mixed-unit
addition, and the policy (integer ratio admitted in `Rep`) for the final `.in(u')`. -/
def implicitCompiles (r : IntTy) (u u' : PtUnit) : Bool :=
  match (originsEqual u' u).val with
  | .ok true =>
    let (N, D) := ratio u.scale u'.scale
    D == 1 && implicitOk r N
  | .ok false =>
    (match (dispValue u' u).val with
     | .ok dv => !(dispValue u' u).wrapped && decide (r.inRange dv)
     | .ub _ => false) &&
    commonCompiles r r (URat.ratioL u.scale (dispUnit u' u)) (URat.ratioR u.scale (dispUnit u' u)) &&
    (let (N, D) := ratio (URat.common u.scale (dispUnit u' u)) u'.scale
     D == 1 && implicitOk r N)
  | .ub _ => false

/-! ### `using_common_point_unit` and the mixed-type operators -/

/-- Both operands as `QuantityPoint<CommonPointUnitT<U1,U2>, common_type_t<R1,R2>>`. -/
def commonPointPair (r1 r2 : IntTy) (u1 u2 : PtUnit) (v1 v2 : Int) : Res (Int × Int) :=
  let c := IntTy.common r1 r2
  let cu := commonPointUnit u1 u2
  let a := andThen (repCastPoint r1 c u1 v1) fun x => inImplicit c u1 cu x
  let b := andThen (repCastPoint r2 c u2 v2) fun x => inImplicit c u2 cu x
  match a.val, b.val with
  | .ok x, .ok y => ⟨.ok (x, y), a.wrapped || b.wrapped, a.narrowed || b.narrowed⟩
  | .ub w, _ => ⟨.ub w, a.wrapped, a.narrowed⟩
  | _, .ub w => ⟨.ub w, a.wrapped || b.wrapped, a.narrowed || b.narrowed⟩

/-- Overload resolution of a binary operator on two `QuantityPoint`s considers the hidden friends of both
classes, hence evaluates `QuantityPoint<Ut,Rt>::should_enable_implicit_construction_from<Uo,Ro>()`
(quantity_point.hh:73-79): `decltype(declval<Quantity<Uo,Ro>>() + origin_displacement(Ut{}, Uo{}))`.  When the
displacement is not `ZERO` this is a mixed-unit `operator+` whose policy `static_assert` (in a function with
deduced return type) is a hard error, not a substitution failure. -/
def pointLookupOk (r1 r2 : IntTy) (u1 u2 : PtUnit) : Bool :=
  let one (ro : IntTy) (ut uo : PtUnit) : Bool :=
    match (originsEqual ut uo).val with
    | .ok true => true
    | .ok false =>
      let ud := dispUnit ut uo
      commonCompiles ro originRep (URat.ratioL uo.scale ud) (URat.ratioR uo.scale ud)
    | .ub _ => false
  one r2 u1 u2 && one r1 u2 u1

def pointOpsCompile (r1 r2 : IntTy) (u1 u2 : PtUnit) : Bool :=
  let c := IntTy.common r1 r2
  let cu := commonPointUnit u1 u2
  pointLookupOk r1 r2 u1 u2 &&
  explicitCompiles r1 c u1 u1 && explicitCompiles r2 c u2 u2 && implicitCompiles c u1 cu && implicitCompiles c u2 cu

/-- `p1 op p2` for the six comparison operators. -/
def cmpPoints (op : CmpOp) (r1 r2 : IntTy) (u1 u2 : PtUnit) (v1 v2 : Int) : Res Bool :=
  let p := commonPointPair r1 r2 u1 u2 v1 v2
  match p.val with
  | .ok (x, y) => ⟨.ok (op.eval x y), p.wrapped, p.narrowed⟩
  | .ub w => ⟨.ub w, p.wrapped, p.narrowed⟩

/-- `p1 - p2`: the same-type friend `Diff operator-(QuantityPoint a, QuantityPoint b) { return a.x_ - b.x_; }`
returns `Diff = Quantity<Unit, R>`: the difference is computed in `decltype(R{} - R{})` and then converted
back to `R` through the implicit constructor (integer-promotion carve-out) — a narrowing for 8/16-bit `R`. -/
def subPoints (r1 r2 : IntTy) (u1 u2 : PtUnit) (v1 v2 : Int) : Res Int :=
  let c := IntTy.common r1 r2
  let p := commonPointPair r1 r2 u1 u2 v1 v2
  match p.val with
  | .ok (x, y) =>
    let s := andThen (liftStep (subIn c.promote x y)) fun z => repCast c.promote c z
    ⟨s.val, p.wrapped || s.wrapped, p.narrowed || s.narrowed⟩
  | .ub w => ⟨.ub w, p.wrapped, p.narrowed⟩

/-- `p1 <=> p2` = `rep_cast<R>(p1).in(U{}) <=> rep_cast<R>(p2).in(U{})`, `U = CommonPointUnitT<U1, U2>`,
`R = common_type_t<R1, R2>` (quantity_point.hh:406-414, C++20; since the fix of finding F11/F17 the same two
operands as `using_common_point_unit` delivers), then the built-in `<=>` on two values of type `R`. -/
def spaceshipPoints (r1 r2 : IntTy) (u1 u2 : PtUnit) (v1 v2 : Int) : Res Ordering :=
  let c := IntTy.common r1 r2
  let p := IntTy.uac c c
  let pr := commonPointPair r1 r2 u1 u2 v1 v2
  match pr.val with
  | .ok (x, y) =>
    ⟨.ok (compare (p.wrap x) (p.wrap y)), pr.wrapped,
      pr.narrowed || decide (p.wrap x ≠ x) || decide (p.wrap y ≠ y)⟩
  | .ub w => ⟨.ub w, pr.wrapped, pr.narrowed⟩

def spaceshipCompiles (r1 r2 : IntTy) (u1 u2 : PtUnit) : Bool := pointOpsCompile r1 r2 u1 u2

/-! ### Point ± quantity (quantity_point.hh:370-387) -/

/-- `detail::borrow_origin<UnitP>(UnitQ{})` = `UnitP{} * unit_ratio(UnitQ, UnitP)`: the quantity's scale with the
point unit's origin. -/
def borrowOrigin (uP : PtUnit) (sq : URat) : PtUnit := ⟨sq, uP.oc, uP.ou⟩

/-- Unit of `p ± q`: `CommonPointUnitT<UnitP, borrow_origin<UnitP>(UnitQ)>`. -/
def shiftResultUnit (uP : PtUnit) (sq : URat) : PtUnit := commonPointUnit uP (borrowOrigin uP sq)

inductive ShiftOp where
  | pPlusQ | qPlusP | pMinusQ
deriving DecidableEq, Repr

/-- `p + q`, `q + p`, `p - q` for a `QuantityPoint<UnitP, rp>` and a `Quantity<UnitQ, rq>` (scale `sq`):
`using_common_point_unit(p, q.as(borrow_origin<UnitP>(UnitQ{})), plus/minus)` — both operands are `rep_cast` to
`R = common_type_t<rp, rq>` and converted (`.as(u)`, policy-checked) to the result unit; then the same-type friend
`QuantityPoint{p.x_ ± d}` computes in `decltype(R{} ± R{})` and converts back to `R`. -/
def pointShift (op : ShiftOp) (rp rq : IntTy) (uP : PtUnit) (sq : URat) (vp vq : Int) : ApplyResult :=
  let R := IntTy.common rp rq
  let cu := shiftResultUnit uP sq
  let kq := (ratio sq cu.scale).1
  andThen (andThen (repCastPoint rp R uP vp) fun x => inImplicit R uP cu x) fun x =>
  andThen (andThen (asRep rq rq 1 vq) fun a => andThen (repCast rq R a) fun b => asRep R R kq b) fun d =>
  let s := match op with
    | .pPlusQ => addIn R.promote x d
    | .qPlusP => addIn R.promote d x
    | .pMinusQ => subIn R.promote x d
  andThen (liftStep s) fun z => repCast R.promote R z

/-! ### Statement-level side conditions -/

/-- All intermediates of the explicit conversion are representable (no UB, wrap, or narrowing). -/
def ExplicitClean (r n : IntTy) (u u' : PtUnit) (v : Int) : Prop :=
  match (inExplicit r n u u' v).val with
  | .ok _ => (inExplicit r n u u' v).wrapped = false ∧ (inExplicit r n u u' v).narrowed = false
  | .ub _ => False
instance (r n : IntTy) (u u' : PtUnit) (v : Int) : Decidable (ExplicitClean r n u u' v) := by
  unfold ExplicitClean; split <;> infer_instance

end Point
end Au

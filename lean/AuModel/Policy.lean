/-
  AuModel.Policy — the implicit-conversion policy (`conversion_policy.hh`):
  `can_scale_without_overflow`, `CanScaleThresholdWithoutOverflow`,
  `CoreImplicitConversionPolicyImplAssumingReal` (+ identity specialisation),
  `PermitAsCarveOutForIntegerPromotion`, `ConstructionPolicy::PermitImplicitFrom`.
  Arithmetic reps only (`RealPart<R> = R`).  Models the tree after the `fix:` commit for F2
  (`can_scale_without_overflow` is total: a factor that does not fit `Rep` answers `false`).
-/
import AuModel.GetValue

namespace Au

/-- The arithmetic reps. -/
inductive Rep where
  | int (t : IntTy)
  | flt (f : FltTy)
deriving DecidableEq, Repr

def Rep.isFloat : Rep → Bool
  | .flt _ => true
  | .int _ => false
def Rep.isInt (r : Rep) : Bool := !r.isFloat

/-- `detail::OVERFLOW_THRESHOLD` (regenerated from the header on every run and compared). -/
def overflowThreshold : Int := 2147

/-- `get_value_result<double>(m)` is OK with a value `≤ 1.0`. -/
def magAsDoubleLeOne (m : Mag) : Bool :=
  match getValueResultFlt FltTy.f64 m with
  | (.ok, v) => Flt.le v (Flt.fin 1)
  | _ => false

/-- `can_scale_without_overflow<Rep>(m, value)` for an integral `Rep`. -/
def canScaleWithoutOverflow (t : IntTy) (m : Mag) (value : Int) : Bool :=
  if magAsDoubleLeOne m then true
  else match getValueResultInt t m with
    | (.ok, k) => decide (Int.tdiv t.hi k ≥ value)
    | _ => false

/-- `detail::CanScaleThresholdWithoutOverflow<Rep, ScaleFactor>` (both conjuncts are evaluated). -/
def canScaleThreshold (t : IntTy) (m : Mag) : Bool :=
  decide (t.inRange overflowThreshold) && canScaleWithoutOverflow t m overflowThreshold

/-- `detail::CoreImplicitConversionPolicyImplAssumingReal<Rep, ScaleFactor, SourceRep>`. -/
def corePolicy (rep : Rep) (sf : Mag) (src : Rep) : Bool :=
  if rep = src ∧ sf = [] then true
  else match rep with
    | .flt _ => true
    | .int t => src.isInt && Mag.isIntegerMag sf && canScaleThreshold t sf

/-- `detail::PermitAsCarveOutForIntegerPromotion<Rep, ScaleFactor, SourceRep>`. -/
def carveOut (rep : Rep) (sf : Mag) (src : Rep) : Bool :=
  decide (sf = []) && rep.isInt && src.isInt

/-- `ConstructionPolicy<Unit, Rep>::PermitImplicitFrom<SourceUnit, SourceRep>`; `sf` is
`Mag(Source) / Mag(Unit)`. -/
def permitImplicitFrom (sameDim : Bool) (rep : Rep) (sf : Mag) (src : Rep) : Bool :=
  sameDim && (corePolicy rep sf src || carveOut rep sf src)

/-- `ImplicitRepPermitted<Rep, ScaleFactor>` (the unit-only `.as(u)` / `.in(u)` gate). -/
def implicitRepPermitted (rep : Rep) (sf : Mag) : Bool := corePolicy rep sf rep

end Au

/-
  AuModel.Primes — `au/code/au/utility/probable_primes.hh`, clause by clause, on top of
  `AuModel.Mod`.  Loops carry explicit fuel; where the loop variable provably decreases the fuel
  is derived from the input (and a theorem says it suffices), otherwise (`findFirstD`) the fuel is
  a parameter and exhaustion is reported through `W.stuck`.
-/
import AuModel.Mod
namespace Au
namespace U64

/-- `enum class PrimeResult`. -/
inductive PrimeResult where
  | composite
  | probablyPrime
  | badInput
deriving Repr, DecidableEq

def PrimeResult.name : PrimeResult → String
  | .composite => "COMPOSITE"
  | .probablyPrime => "PROBABLY_PRIME"
  | .badInput => "BAD_INPUT"

/-- `struct NumberDecomposition { power_of_two; odd_remainder; }`. -/
structure NumberDecomposition where
  powerOfTwo : Nat
  oddRemainder : Nat
deriving Repr, DecidableEq

/-- The loop of `decompose` (probable_primes.hh:47-50). -/
def decomposeLoop : Nat → Nat → Nat → W NumberDecomposition
  | fuel, s, d =>
    if d % 2 = 0 then
      match fuel with
      | 0 => W.outOfFuel ⟨s, d⟩
      | fuel + 1 => do
        let d ← div d 2
        let s ← add s 1
        decomposeLoop fuel s d
    else pure ⟨s, d⟩

/-- `decompose` (probable_primes.hh:45-52).  For `0 < n < 2^64` at most 63 halvings happen
(`decompose_spec`); for `n = 0` the C++ loop never ends and the model reports `stuck`. -/
def decompose (n : Nat) : W NumberDecomposition := decomposeLoop 64 0 n

/-- The `for (auto r = 0u; r < s; ++r)` loop of `miller_rabin` (probable_primes.hh:78-83). -/
def mrLoop : Nat → Nat → Nat → W PrimeResult
  | 0, _, _ => pure .composite
  | k + 1, x, n =>
    if x = n - 1 then pure .probablyPrime
    else do
      let x ← mulMod x x n
      mrLoop k x n

/-- `miller_rabin` (probable_primes.hh:63-85). -/
def millerRabin (a n : Nat) : W PrimeResult := do
  -- if (a < 2u || n < a + 2u || n % 2u == 0u) return BAD_INPUT;   (short-circuit evaluation)
  if a < 2 then pure .badInput
  else do
    let a2 ← add a 2
    if n < a2 then pure .badInput
    else if n % 2 = 0 then pure .badInput
    else do
      let nm1 ← sub n 1
      let params ← decompose nm1
      let x ← powMod a params.oddRemainder n
      if x = 1 then pure .probablyPrime
      else mrLoop params.powerOfTwo x n

/-- `(n / curr == curr) && (n % curr == 0u)` (probable_primes.hh, after fix F19: the former
`curr * curr == n` wrapped for `curr ≥ 2^32`); `&&` short-circuits. -/
def squareTest (n curr : Nat) : W Bool := do
  let q ← div n curr
  if q = curr then do
    let r ← mod n curr
    pure (decide (r = 0))
  else pure false

/-- The `while (true)` loop of `is_perfect_square`; `prev` strictly decreases on every iteration
that continues. -/
def perfectSquareLoop : Nat → Nat → Nat → W Bool
  | fuel, prev, n =>
    match fuel with
    | 0 => W.outOfFuel false
    | fuel + 1 => do
      let q ← div n prev
      let s ← add prev q
      let curr ← div s 2
      let isSq ← squareTest n curr
      if isSq then pure true
      else if curr ≥ prev then pure false
      else perfectSquareLoop fuel curr n

/-- `is_perfect_square` (probable_primes.hh:90-106). -/
def isPerfectSquare (n : Nat) : W Bool := do
  if n < 2 then pure true
  else do
    let prev ← div n 2
    perfectSquareLoop (prev + 1) prev n

/-- The `while (b != 0u)` loop of `gcd` (probable_primes.hh:108-115); `b` strictly decreases. -/
def gcdLoop : Nat → Nat → Nat → W Nat
  | fuel, a, b =>
    if b ≠ 0 then
      match fuel with
      | 0 => W.outOfFuel a
      | fuel + 1 => do
        let r ← mod a b
        gcdLoop fuel b r
    else pure a

def gcd (a b : Nat) : W Nat := gcdLoop b a b

/-- `bool_sign` (probable_primes.hh:121): `true ↦ 1`, `false ↦ -1`. -/
def boolSign (x : Bool) : Int := if x then 1 else -1

/-- The inner `while (a % 2u == 0u) { a /= 2u; result *= sign_for_even; }` (for `a ≠ 0`). -/
def stripTwos : Nat → Nat → Int → Int → W (Nat × Int)
  | fuel, a, result, sign =>
    if a % 2 = 0 then
      match fuel with
      | 0 => W.outOfFuel (a, result)
      | fuel + 1 => do
        let a ← div a 2
        stripTwos fuel a (result * sign) sign
    else pure (a, result)

/-- The `while (a != 0u)` loop of `jacobi_symbol_positive_numerator` (probable_primes.hh:142-170).
After the flip `a' = n % a < a`, so `fuel = a` suffices. -/
def jacobiLoop : Nat → Nat → Nat → Int → W Int
  | fuel, a, n, result =>
    if a ≠ 0 then
      match fuel with
      | 0 => W.outOfFuel 0
      | fuel + 1 => do
        let signForEven := boolSign (n % 8 = 1 || n % 8 = 7)
        let (a, result) ← stripTwos a a result signForEven
        if a = 1 then pure result
        else do
          let g ← gcd a n
          if g ≠ 1 then pure 0
          else do
            let result := result * boolSign (a % 4 = 1 || n % 4 = 1)
            let newA ← mod n a
            jacobiLoop fuel newA a result
    else pure 0

def jacobiSymbolPositiveNumerator (a n : Nat) (start : Int) : W Int := jacobiLoop a a n start

/-- `jacobi_symbol(int64_t raw_a, uint64_t n)` (probable_primes.hh:173-186).  `raw_a` is an
`int64_t`; `raw_a * bool_sign(raw_a >= 0)` is `|raw_a|` (signed overflow for `INT64_MIN`, which no
caller passes; the model flags it as UB through `divz`). -/
def jacobiSymbol (rawA : Int) (n : Nat) : W Int := do
  if n = 1 then pure 1
  else do
    let result := boolSign (decide (rawA ≥ 0) || n % 4 = 1)
    let absA ← (if rawA = -9223372036854775808 then (⟨0, false, true, false⟩ : W Nat)
                else pure (rawA * boolSign (decide (rawA ≥ 0))).toNat)
    let a ← mod absA n
    jacobiSymbolPositiveNumerator a n result

/-- `struct LucasDParameter { uint64_t mag = 5u; bool is_positive = true; }`. -/
structure LucasD where
  mag : Nat := 5
  isPositive : Bool := true
deriving Repr, DecidableEq

/-- `static_cast<int>(uint64_t)`: modular on every supported compiler. -/
def castInt32 (m : Nat) : Int :=
  let r := m % 4294967296
  if r ≥ 2147483648 then (r : Int) - 4294967296 else r

/-- `as_int(D)` (probable_primes.hh:196-198). -/
def LucasD.asInt (D : LucasD) : Int := boolSign D.isPositive * castInt32 D.mag

/-- `find_first_D_with_jacobi_symbol_neg_one` (probable_primes.hh:211-217).  The C++ loop has no
bound (it does not end when `n` is a perfect square); the model's budget is a parameter. -/
def findFirstD : Nat → LucasD → Nat → W LucasD
  | fuel, D, n => do
    let j ← jacobiSymbol D.asInt n
    if j ≠ -1 then
      match fuel with
      | 0 => W.outOfFuel D
      | fuel + 1 => do
        let m ← add D.mag 2
        findFirstD fuel ⟨m, !D.isPositive⟩ n
    else pure D

/-- `struct LucasSequenceElement { uint64_t U = 1u; uint64_t V = 1u; }`. -/
structure LucasElt where
  U : Nat := 1
  V : Nat := 1
deriving Repr, DecidableEq

/-- `double_strong_lucas_index` (probable_primes.hh:230-246). -/
def doubleStrongLucasIndex (e : LucasElt) (n : Nat) (D : LucasD) : W LucasElt := do
  let vSquared ← mulMod e.V e.V n
  let uSquared ← mulMod e.U e.U n
  let dUSquared ← mulMod D.mag uSquared n
  let v2 ← if D.isPositive then addMod vSquared dUSquared n else subMod vSquared dUSquared n
  let v2 ← halfModOdd v2 n
  let u2 ← mulMod e.U e.V n
  pure ⟨u2, v2⟩

/-- `increment_strong_lucas_index` (probable_primes.hh:249-262). -/
def incrementStrongLucasIndex (e : LucasElt) (n : Nat) (D : LucasD) : W LucasElt := do
  let s ← addMod e.U e.V n
  let u2 ← halfModOdd s n
  let dU ← mulMod D.mag e.U n
  let v2 ← if D.isPositive then addMod e.V dU n else subMod e.V dU n
  let v2 ← halfModOdd v2 n
  pure ⟨u2, v2⟩

/-- `while (i > 1u) { bits[n_bits++] = (i & 1u); i >>= 1; }` — least significant bit first. -/
def lucasBits : Nat → Nat → List Bool
  | 0, _ => []
  | fuel + 1, i => if i > 1 then (i % 2 = 1) :: lucasBits fuel (i / 2) else []

/-- `for (j = n_bits; j > 0u; --j) { element = double(...); if (bits[j - 1u]) element = increment(...); }`
over the bits most significant first. -/
def lucasFold (n : Nat) (D : LucasD) : List Bool → LucasElt → W LucasElt
  | [], e => pure e
  | b :: bs, e => do
    let e ← doubleStrongLucasIndex e n D
    let e ← if b then incrementStrongLucasIndex e n D else pure e
    lucasFold n D bs e

/-- `find_strong_lucas_element` (probable_primes.hh:265-285); `bool bits[64]` is large enough for
every 64-bit `i` (at most 63 entries are written). -/
def findStrongLucasElement (i n : Nat) (D : LucasD) : W LucasElt :=
  lucasFold n D (lucasBits 64 i).reverse {}

/-- The final `for (i = 0; i < s; ++i)` loop of `strong_lucas` (probable_primes.hh:310-315). -/
def lucasTail (n : Nat) (D : LucasD) : Nat → LucasElt → W PrimeResult
  | 0, _ => pure .composite
  | k + 1, e =>
    if e.V = 0 then pure .probablyPrime
    else do
      let e ← doubleStrongLucasIndex e n D
      lucasTail n D k e

/-- `strong_lucas` (probable_primes.hh:290-318); `dFuel` bounds the search for `D`. -/
def strongLucas (dFuel n : Nat) : W PrimeResult := do
  if n < 2 ∨ n % 2 = 0 then pure .badInput
  else do
    let sq ← isPerfectSquare n
    if sq then pure .composite
    else do
      let D ← findFirstD dFuel {} n
      let np1 ← add n 1
      let params ← decompose np1
      let e ← findStrongLucasElement params.oddRemainder n D
      if e.U = 0 then pure .probablyPrime
      else lucasTail n D params.powerOfTwo e

/-- `baillie_psw` (probable_primes.hh:331-347). -/
def bailliePSW (dFuel n : Nat) : W PrimeResult := do
  if n < 2 then pure .badInput
  else if n < 4 then pure .probablyPrime
  else if n % 2 = 0 then pure .composite
  else do
    let mr ← millerRabin 2 n
    if mr = .composite then pure .composite
    else strongLucas dFuel n

end U64
end Au

/-
  AuModel.Products — products, quotients and powers of quantities (quantity.hh:267-301, 410-420,
  443-538; math.hh int_pow/sqrt/cbrt): which result is a raw number, which divisions are allowed,
  and what `as_raw_number` accepts.  Values are combined by the raw operator (see AuModel.Arith /
  AuModel.QuantityOps); units by `UnitProductT` / `UnitQuotientT` / `UnitPowerT` (AuModel.Unit).
-/
import AuModel.Unit
import AuModel.Policy

namespace Au

/-- `IsUnitlessUnit<U>`: dimensionless and magnitude exactly ONE. -/
def U.isUnitless (env : Env) (u : U) : Bool :=
  decide (u.dimOf env = []) && decide (u.magOf env = [])

/-- `make_quantity_unless_unitless<UnitProductT<U1, U2>>`: the product is a raw number iff its unit is
the unitless unit. -/
def productIsRaw (env : Env) (lt : U → U → Bool) (u1 u2 : U) : Bool := (U.mul lt u1 u2).isUnitless env
def quotientIsRaw (env : Env) (lt : U → U → Bool) (u1 u2 : U) : Bool := (U.div lt u1 u2).isUnitless env

/-- `warn_if_integer_division<OtherUnit, OtherRep>()` on `Quantity<U1,R1> / Quantity<U2,R2>`; dividing
by `unblock_int_div(q)` bypasses it. -/
def quantityDivAllowed (r1 r2 : Rep) (qequiv unblocked : Bool) : Bool :=
  unblocked || qequiv || !(r1.isInt && r2.isInt)

/-- `T s / Quantity<U,R> a`: `warn_if_integer_division<UnitProductT<>, T>()`. -/
def scalarOverQuantityAllowed (rT rQ : Rep) (unitIsUnitlessEquivalent unblocked : Bool) : Bool :=
  unblocked || unitIsUnitlessEquivalent || !(rQ.isInt && rT.isInt)

/-- `int_pow<Exp>(q)`: negative exponents are refused for integral reps. -/
def intPowAllowed (r : Rep) (exp : Int) : Bool := !r.isInt || decide (0 ≤ exp)

/-- `as_raw_number(q)` = `q.as(UnitProductT<>{})`: same dimension as the unitless unit (hard error
otherwise) and the unit-only conversion policy `ImplicitRepPermitted<Rep, Mag(U)/ONE>`. -/
def asRawNumberAllowed (env : Env) (u : U) (r : Rep) : Bool :=
  decide (u.dimOf env = []) && implicitRepPermitted r (u.magOf env)

end Au

/-
  AuModel.QuantityOps — the same-unit operators of `au::Quantity<U, R>` (quantity.hh:249-347),
  `QuantityMaker::operator()` (quantity.hh:562-570), the same-unit `in()` of `Quantity` and of
  `QuantityPoint` (quantity_point.hh), transcribed clause by clause, next to a model of the
  *built-in* operators on the raw arithmetic types ([expr], [conv.prom], [expr.arith.conv],
  [dcl.init.list]) for the LP64 target.

  Values: an integer is an unbounded `Int` known to be in range of its type; a floating-point
  value is its *bit pattern* (`Nat`).  The semantics of the floating-point instructions is a
  parameter `F : FOps` of every function, so every theorem about these functions holds for whatever
  the hardware/compiler does; the compiled driver instantiates `F` with Lean's IEEE `Float32` /
  `Float` for `float` / `double`.

  Core Lean only: linked into the compiled driver.
-/
import AuModel.Layout

namespace Au.C13

/-! ### Integer steps missing from `AuModel.Arith` (same conventions) -/

/-- `a + b` evaluated in the (promoted) type `p`. -/
def addIn (p : IntTy) (a b : Int) : Step :=
  let r := a + b
  if p.signed then
    if p.inRange r then ⟨.ok r, false⟩ else ⟨.ub "signed overflow in addition", false⟩
  else ⟨.ok (p.wrap r), !(decide (p.inRange r))⟩

/-- `a - b` evaluated in the (promoted) type `p`. -/
def subIn (p : IntTy) (a b : Int) : Step :=
  let r := a - b
  if p.signed then
    if p.inRange r then ⟨.ok r, false⟩ else ⟨.ub "signed overflow in subtraction", false⟩
  else ⟨.ok (p.wrap r), !(decide (p.inRange r))⟩

/-- `-a` evaluated in the (promoted) type `p`. -/
def negIn (p : IntTy) (a : Int) : Step :=
  let r := -a
  if p.signed then
    if p.inRange r then ⟨.ok r, false⟩ else ⟨.ub "signed overflow in negation", false⟩
  else ⟨.ok (p.wrap r), !(decide (p.inRange r))⟩

/-! ### Operators, types, values -/

inductive ArOp where
  | add | sub | mul | div | mod
deriving DecidableEq, Repr

inductive CmpOp where
  | eq | ne | lt | le | gt | ge
deriving DecidableEq, Repr

inductive UnOp where
  | pos | neg
deriving DecidableEq, Repr

/-- A run-time value: integer, floating-point bit pattern, or `bool`. -/
inductive Val where
  | int (v : Int)
  | flt (bits : Nat)
  | bool (b : Bool)
deriving DecidableEq, Repr

/-- Type of an operator's result: a prvalue of arithmetic type, `bool`, or (compound assignment)
an lvalue of the left operand's type. -/
inductive ResTy where
  | val (r : RepTy)
  | bool
  | ref (r : RepTy)
deriving DecidableEq, Repr

/-- Semantics of the floating-point operations on bit patterns (a parameter, see above). -/
structure FOps where
  bin : FltK → ArOp → Nat → Nat → Nat          -- + - * / (never called with `mod`)
  cmp : FltK → CmpOp → Nat → Nat → Bool
  neg : FltK → Nat → Nat
  ofInt : FltK → IntTy → Int → Nat             -- integer → floating conversion
  cvt : FltK → FltK → Nat → Nat                -- floating → floating conversion (distinct kinds)

/-- Whether a build accepts the expression, per compiler family. -/
structure Verdict where
  gcc : Bool
  clang : Bool
deriving DecidableEq, Repr

def Verdict.ok : Verdict := ⟨true, true⟩
def Verdict.rejected : Verdict := ⟨false, false⟩
/-- A narrowing conversion of a non-constant inside a braced initialiser: ill-formed
([dcl.init.list]/3.9); clang++ diagnoses it as an error, g++ only as a `-Wnarrowing` warning. -/
def Verdict.narrowing : Verdict := ⟨true, false⟩

/-- Outcome of one operator expression. -/
structure OpResult where
  verdict : Verdict
  ty : Option ResTy          -- `none` iff rejected by every compiler
  val : Eval Val
deriving DecidableEq, Repr

def OpResult.illFormed : OpResult := ⟨Verdict.rejected, none, .ub "ill-formed"⟩

/-! ### Built-in operators on raw arithmetic values -/

namespace RepTy
/-- Integral promotion ([conv.prom]); floating types are unchanged. -/
def promote : RepTy → RepTy
  | .int t => .int t.promote
  | .flt k => .flt k

/-- Usual arithmetic conversions ([expr.arith.conv]): the common type of a binary operator. -/
def uac : RepTy → RepTy → RepTy
  | .int a, .int b => .int (IntTy.uac a b)
  | .int _, .flt k => .flt k
  | .flt k, .int _ => .flt k
  | .flt a, .flt b => .flt (if a.rank < b.rank then b else a)
end RepTy

/-- Implicit conversion of a value of arithmetic type `s` to arithmetic type `d`: none when the
types are identical; otherwise [conv.integral] (modular), [conv.fpint] (int→float), [conv.double];
float→integer does not occur in the modelled operators and is reported as such. -/
def convert (F : FOps) (s d : RepTy) (v : Val) : Eval Val :=
  if s = d then .ok v
  else
    match s, d, v with
    | .int _, .int t, .int x => .ok (.int (t.wrap x))
    | .int t, .flt k, .int x => .ok (.flt (F.ofInt k t x))
    | .flt a, .flt b, .flt x => .ok (.flt (F.cvt a b x))
    | .flt _, .int _, .flt _ => .ub "float-to-integer conversion (not modelled)"
    | _, _, _ => .ub "ill-typed value"

def stepVal (s : Step) : Eval Val :=
  match s.val with
  | .ok v => .ok (.int v)
  | .ub w => .ub w

/-- `a ∘ b` with both operands already of the common type `c`. -/
def arithIn (F : FOps) (c : RepTy) (op : ArOp) (a b : Val) : Eval Val :=
  match c, a, b with
  | .int p, .int x, .int y =>
    stepVal (match op with
      | .add => addIn p x y
      | .sub => subIn p x y
      | .mul => mulIn p x y
      | .div => divIn p x y
      | .mod => modIn p x y)
  | .flt k, .flt x, .flt y =>
    match op with
    | .mod => .ub "ill-formed"
    | _ => .ok (.flt (F.bin k op x y))
  | _, _, _ => .ub "ill-typed value"

def cmpInt (op : CmpOp) (x y : Int) : Bool :=
  match op with
  | .eq => decide (x = y) | .ne => decide (x ≠ y) | .lt => decide (x < y)
  | .le => decide (x ≤ y) | .gt => decide (x > y) | .ge => decide (x ≥ y)

def cmpIn (F : FOps) (c : RepTy) (op : CmpOp) (a b : Val) : Eval Val :=
  match c, a, b with
  | .int _, .int x, .int y => .ok (.bool (cmpInt op x y))
  | .flt k, .flt x, .flt y => .ok (.bool (F.cmp k op x y))
  | _, _, _ => .ub "ill-typed value"

def evBind {α β : Type} (e : Eval α) (f : α → Eval β) : Eval β :=
  match e with
  | .ok a => f a
  | .ub w => .ub w

/-- Built-in binary arithmetic operator `a ∘ b` with `a : ta`, `b : tb` ([expr.mul], [expr.add]):
`%` requires integral operands; the operands are converted to the common type, the operation is
performed there and the result has that type. -/
def rawArith (F : FOps) (op : ArOp) (ta tb : RepTy) (a b : Val) : OpResult :=
  if op = .mod ∧ ¬ (ta.isIntegral ∧ tb.isIntegral) then OpResult.illFormed
  else
    let c := RepTy.uac ta tb
    ⟨Verdict.ok, some (.val c),
      evBind (convert F ta c a) fun a' => evBind (convert F tb c b) fun b' => arithIn F c op a' b'⟩

/-- Built-in comparison ([expr.rel], [expr.eq]): usual arithmetic conversions, result `bool`. -/
def rawCmp (F : FOps) (op : CmpOp) (ta tb : RepTy) (a b : Val) : OpResult :=
  let c := RepTy.uac ta tb
  ⟨Verdict.ok, some .bool,
    evBind (convert F ta c a) fun a' => evBind (convert F tb c b) fun b' => cmpIn F c op a' b'⟩

/-- Built-in unary `+` / `-` ([expr.unary.op]): integral promotion, result of the promoted type. -/
def rawUnary (F : FOps) (op : UnOp) (t : RepTy) (a : Val) : OpResult :=
  let p := t.promote
  ⟨Verdict.ok, some (.val p),
    evBind (convert F t p a) fun a' =>
      match op, p, a' with
      | .pos, _, v => .ok v
      | .neg, .int q, .int x => stepVal (negIn q x)
      | .neg, .flt k, .flt x => .ok (.flt (F.neg k x))
      | _, _, _ => .ub "ill-typed value"⟩

/-- Built-in compound assignment `x ∘= s` with `x` an lvalue of type `tx` ([expr.ass]/7): behaves
as `x = static_cast<tx>(x ∘ s)`; the result is the lvalue `x`, whose new value is reported. -/
def rawAssign (F : FOps) (op : ArOp) (tx ts : RepTy) (x s : Val) : OpResult :=
  let r := rawArith F op tx ts x s
  match r.ty with
  | some (.val c) => ⟨r.verdict, some (.ref tx), evBind r.val (convert F c tx)⟩
  | _ => OpResult.illFormed

/-! ### `au::Quantity<U, R>` -/

/-- A `Quantity<U, R>` object: its single data member `value_`. -/
structure Qty where
  rep : RepTy
  value : Val
deriving DecidableEq, Repr

/-- [dcl.init.list]/7: is the implicit conversion of a *non-constant* expression of arithmetic
type `s` to arithmetic type `d` a narrowing conversion? -/
def narrows (s d : RepTy) : Bool :=
  match s, d with
  | .int a, .int b => !(decide (b.lo ≤ a.lo) && decide (a.hi ≤ b.hi))   -- d cannot hold every value of s
  | .int _, .flt _ => true
  | .flt _, .int _ => true
  | .flt a, .flt b => decide (b.rank < a.rank)

/-- Copy-list-initialisation `Quantity<U, d>{v}` / `return {v};` from an expression of arithmetic
type `s` through the private constructor `Quantity(Rep value) : value_{value}` (quantity.hh:422):
the argument is implicitly converted to `Rep`; inside braces a narrowing conversion is ill-formed. -/
def listInitQty (F : FOps) (s d : RepTy) (v : Eval Val) : Verdict × Eval Val :=
  (if narrows s d then Verdict.narrowing else Verdict.ok, evBind v (convert F s d))

/-- `QuantityMaker<U>::operator()(T value) -> Quantity<U, T> { return {value}; }` (quantity.hh:567):
`T` is deduced from the argument, so the braces never narrow. -/
def makeQty (t : RepTy) (v : Val) : Qty := ⟨t, v⟩

/-- `Quantity::in(NewUnit u)` for a quantity-equivalent unit (quantity.hh:184-186):
`if (are_units_quantity_equivalent(unit, u)) return value_;`. -/
def Qty.inSame (q : Qty) : Val := q.value

/-- Result type of an expression that yields a `Quantity<U, r>` prvalue: reported by its rep. -/
def qtyTy (r : RepTy) : ResTy := .val r

/-- Combine the raw evaluation of the operand expression with what the operator does with it. -/
def viaMake (r : OpResult) : OpResult :=
  -- `make_quantity<UnitT>(expr)`: `T` deduced as the type of `expr`; `{value}` does not narrow;
  -- the declared return type (`Quantity<UnitT, decltype(R ∘ R)>` or `auto`) is that same type.
  r

def viaListInit (F : FOps) (R : RepTy) (r : OpResult) : OpResult :=
  -- declared return type `Quantity` (= `Quantity<UnitT, RepT>`), body `return {expr};`
  match r.ty with
  | some (.val s) =>
    let (v, x) := listInitQty F s R r.val
    ⟨⟨r.verdict.gcc && v.gcc, r.verdict.clang && v.clang⟩, some (qtyTy R), x⟩
  | _ => OpResult.illFormed

/-- quantity.hh:250-255 — `friend constexpr bool operator==(Quantity a, Quantity b)
{ return a.value_ == b.value_; }` and the five others. -/
def qCmp (F : FOps) (op : CmpOp) (R : RepTy) (a b : Val) : OpResult := rawCmp F op R R a b

/-- quantity.hh:258-265 — `operator+` / `operator-` on like quantities:
`Quantity<UnitT, decltype(declval<RepT>() ± declval<RepT>())>`, body
`make_quantity<UnitT>(a.value_ ± b.value_)`. -/
def qAddSub (F : FOps) (op : ArOp) (R : RepTy) (a b : Val) : OpResult := viaMake (rawArith F op R R a b)

/-- quantity.hh:343 — `friend constexpr Quantity operator%(Quantity a, Quantity b)
{ return {a.value_ % b.value_}; }`. -/
def qMod (F : FOps) (R : RepTy) (a b : Val) : OpResult := viaListInit F R (rawArith F .mod R R a b)

/-- quantity.hh:346-347 — `constexpr Quantity operator+() const { return {+value_}; }`, same for `-`. -/
def qUnary (F : FOps) (op : UnOp) (R : RepTy) (a : Val) : OpResult := viaListInit F R (rawUnary F op R a)

/-- quantity.hh:304-311 — `value_ += other.value_; return *this;` (and `-=`).  The result is the
lvalue `*this` (reported as `ref R`) holding the new `value_`. -/
def qAddSubAssign (F : FOps) (op : ArOp) (R : RepTy) (a b : Val) : OpResult := rawAssign F op R R a b

/-- quantity.hh:313-322 — `perform_shorthand_checks<T>()`: `IsValidRep<T>` (true for arithmetic `T`)
and "no compound mult/div of integral types by floating point". -/
def shorthandOk (R T : RepTy) : Bool := !R.isIntegral || T.isIntegral

/-- quantity.hh:325-340 — `operator*=(T s)` / `operator/=(T s)`: the checks, then `value_ *= s`. -/
def qScaleAssign (F : FOps) (op : ArOp) (R T : RepTy) (a s : Val) : OpResult :=
  if shorthandOk R T then rawAssign F op R T a s else OpResult.illFormed

/-- quantity.hh:268-281 — `Quantity ∘ T` for `∘ ∈ {*, /}` (enabled when the raw product/quotient
type is a valid rep — always, for arithmetic types): `make_quantity<UnitT>(a.value_ ∘ s)`. -/
def qScalarRight (F : FOps) (op : ArOp) (R T : RepTy) (a s : Val) : OpResult :=
  viaMake (rawArith F op R T a s)

/-- quantity.hh:272-275 — `T * Quantity`: `make_quantity<UnitT>(s * a.value_)`. -/
def qScalarLeftMul (F : FOps) (T R : RepTy) (s a : Val) : OpResult :=
  viaMake (rawArith F .mul T R s a)

/-- quantity.hh:282-286 — `T / Quantity`: `warn_if_integer_division<UnitProductT<>, T>()` is a
static_assert that fails when both reps are integral unless the quantity's unit is
quantity-equivalent to the unitless unit; then `make_quantity<pow<-1>(unit)>(s / a.value_)`. -/
def qScalarLeftDiv (F : FOps) (unitless : Bool) (T R : RepTy) (s a : Val) : OpResult :=
  if R.isIntegral && T.isIntegral && !unitless then OpResult.illFormed
  else viaMake (rawArith F .div T R s a)


/-! ### The operator family of the property, as one function -/

/-- The operators C13 speaks about.  `cmp`, `addsub`, `mod`, `un`, `addsubAs` take two quantities of
the same type (the scalar type argument is ignored); `scaleAs` is `q *= s` / `q /= s`, `scalarR` is
`q * s` / `q / s`, `mulL` is `s * q`, `divL` is `s / q`, with `s : T` a raw number. -/
inductive OpName where
  | cmp (o : CmpOp) | addsub (o : ArOp) | mod | un (o : UnOp) | addsubAs (o : ArOp)
  | scaleAs (o : ArOp) | scalarR (o : ArOp) | mulL | divL
deriving DecidableEq, Repr

/-- Same-type operators take both operands of type `R`; scalar operators the scalar of type `T`. -/
def OpName.sameType : OpName → Bool
  | .cmp _ | .addsub _ | .mod | .un _ | .addsubAs _ => true
  | _ => false

/-- The Quantity operator.  `a` is the quantity's stored value, `b` the other operand (the second
quantity's stored value, or the scalar); `unitless`: the quantity's unit is quantity-equivalent to
`UnitProductT<>` (only `s / q` looks at it). -/
def qOp (F : FOps) (o : OpName) (R T : RepTy) (a b : Val) (unitless : Bool) : OpResult :=
  match o with
  | .cmp c => qCmp F c R a b
  | .addsub c => qAddSub F c R a b
  | .mod => qMod F R a b
  | .un u => qUnary F u R a
  | .addsubAs c => qAddSubAssign F c R a b
  | .scaleAs c => qScaleAssign F c R T a b
  | .scalarR c => qScalarRight F c R T a b
  | .mulL => qScalarLeftMul F T R b a
  | .divL => qScalarLeftDiv F unitless T R b a

/-- The corresponding built-in operator applied to the raw values. -/
def rawOp (F : FOps) (o : OpName) (R T : RepTy) (a b : Val) : OpResult :=
  match o with
  | .cmp c => rawCmp F c R R a b
  | .addsub c => rawArith F c R R a b
  | .mod => rawArith F .mod R R a b
  | .un u => rawUnary F u R a
  | .addsubAs c => rawAssign F c R R a b
  | .scaleAs c => rawAssign F c R T a b
  | .scalarR c => rawArith F c R T a b
  | .mulL => rawArith F .mul T R b a
  | .divL => rawArith F .div T R b a

/-- The combinations the library deliberately does not offer (documented static_asserts):
compound `*=` / `/=` of an integral rep by a floating-point scalar, and `s / q` with both reps
integral unless the unit is unitless. -/
def offered (o : OpName) (R T : RepTy) (unitless : Bool) : Bool :=
  match o with
  | .scaleAs _ => shorthandOk R T
  | .divL => !(R.isIntegral && T.isIntegral && !unitless)
  | _ => true

/-- The region of finding F4: `%`, unary `+`, unary `-` on a rep narrower than `int`. -/
def inF4 (o : OpName) (R : RepTy) : Bool :=
  match o, R with
  | .mod, .int t => decide (t.bits < 32)
  | .un _, .int t => decide (t.bits < 32)
  | _, _ => false

/-! ### Round trips -/

/-- `unit(x).in(unit)`: `QuantityMaker::operator()` then `Quantity::in` with the same unit. -/
def qRoundTrip (t : RepTy) (x : Val) : Val := (makeQty t x).inSame

/-- The literal `0` converted to the rep (`Quantity(Zero) : value_{0}`). -/
def zeroOf (F : FOps) (t : RepTy) : Val :=
  match t with
  | .int _ => .int 0
  | .flt k => .flt (F.ofInt k IntTy.i32 0)

/-- `unit_pt(x).in(unit_pt)` for a point-equivalent unit (quantity_point.hh `in(NewUnit)`):
`rep_cast<Rep>(x_ + rep_cast<Rep>(ZERO)).in(u)` — the stored quantity plus `Quantity(ZERO)`
(computed by `operator+`, i.e. in the promoted type), cast back to `Rep` by
`as<Rep>(Unit{})` = `static_cast<Rep>(apply_magnitude(static_cast<common_type_t<P, Rep>>(v), 1))`
where multiplication by the magnitude one is `x * 1`. -/
def ptRoundTrip (F : FOps) (t : RepTy) (x : Val) : Eval Val :=
  let s := qAddSub F .add t x (zeroOf F t)
  match s.ty with
  | some (.val p) =>
    -- common_type_t<p, t> = p for p the promoted type of t
    let one : Val := match p with
      | .int _ => .int 1
      | .flt k => .flt (F.ofInt k IntTy.i32 1)
    evBind s.val fun v => evBind (arithIn F p .mul v one) (convert F p t)
  | _ => .ub "ill-formed"

end Au.C13

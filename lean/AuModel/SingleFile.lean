/-
  AuModel/SingleFile.lean — executable model of /repo/tools/bin/make-single-file (property C20).

  The script is modelled over an *abstract include graph*: a file is a `Nat` id, the graph is the
  association list "file ↦ its project includes, in the order the `#include "au/…"` lines occur in
  the file" (`SourceFile.graph_includes`).  A file that is not a key of the graph does not exist on
  disk (`open(...)` raises).  What is transcribed, clause by clause:

    filenames()            tools/bin/make-single-file:63-77
    parse_files()          tools/bin/make-single-file:149-163   (work list, pop from the END)
    sort_topologically()   tools/bin/make-single-file:223-248   (rounds over an insertion-ordered
                                                                 dict, in-place `remove`)

  Python dictionaries are insertion ordered; `files[k] = v` for an existing key keeps the key's
  position.  `SourceFile(filename)` is a function of the file name (the tree does not change while
  the script runs), so the dictionary `files` is represented by its key list and the value is
  looked up in the graph.  The mutable dependency lists of `sort_topologically` are modelled as
  they are (a dictionary of lists, `remove` = erase the first occurrence).

  Core Lean only (linked into `audriver`).
-/
namespace Au
namespace SingleFile

abbrev File := Nat

/-- file ↦ `graph_includes` (in file order, duplicates kept, as the script collects them). -/
abbrev Graph := List (File × List File)

/-- Result of running a loop of the script with a bound on the number of iterations. -/
inductive Res (α : Type) where
  | done (a : α)
  | missing (f : File)   -- `open()` raised: the script dies with a traceback
  | outOfFuel            -- the loop was still running when the bound was reached
  deriving Repr, DecidableEq

/-- `filenames(main_files, units, constants, include_io)`: `["au/au.hh"] + units + constants +
main_files (+ ["au/io.hh"])`. -/
def filenames (au : File) (units constants mains : List File) (io : Option File) : List File :=
  [au] ++ units ++ constants ++ mains ++ (match io with | some f => [f] | none => [])

/-- `files[next_file] = …` on an insertion-ordered dict, keys only. -/
def dictSet (files : List File) (f : File) : List File :=
  if f ∈ files then files else files ++ [f]

/-- The `while filenames:` loop of `parse_files`.  `stack` holds the Python list `filenames`
REVERSED (head = last element = the one `pop()` returns); appending `t1 … tk` in order therefore
puts `tk` on top. -/
def parseLoop (g : Graph) : Nat → List File → List File → Res (List File)
  | _, [], files => .done files
  | 0, _ :: _, _ => .outOfFuel
  | fuel + 1, next :: rest, files =>
    match g.lookup next with
    | none => .missing next                                  -- SourceFile(): open() fails
    | some incs =>
      let files' := dictSet files next                       -- files[next_file] = SourceFile(..)
      let pushed := incs.filter (fun t => !(files'.contains t))  -- if target not in files: append
      parseLoop g fuel (pushed.reverse ++ rest) files'

/-- Total number of include edges: the fuel that always suffices for `parseLoop` is
`names.length + edgeCount g` (theorem `parse_total`). -/
def edgeCount (g : Graph) : Nat := (g.map (fun kl => kl.2.length)).sum

/-- `parse_files(filenames)`: the keys of the resulting dict in insertion order. -/
def parseFiles (g : Graph) (names : List File) : Res (List File) :=
  parseLoop g (names.length + edgeCount g) names.reverse []

/-- `unvisited_deps`: an insertion-ordered dict of mutable lists. -/
abbrev Deps := List (File × List File)

/-- `for f_to_clean in unvisited_deps: if f in deps[f_to_clean]: deps[f_to_clean].remove(f)`;
`remove` deletes the FIRST occurrence only. -/
def cleanAll (d : Deps) (f : File) : Deps := d.map (fun kl => (kl.1, kl.2.erase f))

/-- One pass of `for f in unvisited_deps:`.  The key sequence is fixed when the pass starts (the
dict is not resized during the pass), the lists change under the iteration. -/
def roundLoop : List File → Deps → List File → Deps × List File
  | [], d, added => (d, added)
  | f :: ks, d, added =>
    match d.lookup f with
    | some [] => roundLoop ks (cleanAll d f) (added ++ [f])  -- `if not unvisited_deps[f]:`
    | _ => roundLoop ks d added

/-- `for f in added_this_cycle: unvisited_deps.pop(f)`. -/
def popAll (d : Deps) (added : List File) : Deps := d.filter (fun kl => !(added.contains kl.1))

/-- The `while unvisited_deps:` loop. -/
def sortLoop : Nat → Deps → List File → Res (List File)
  | _, [], ready => .done ready
  | 0, _ :: _, _ => .outOfFuel
  | fuel + 1, kl :: rest, ready =>
    let r := roundLoop ((kl :: rest).map (·.1)) (kl :: rest) []
    sortLoop fuel (popAll r.1 r.2) (ready ++ r.2)

/-- `{f: files[f].graph_includes for f in files}`. -/
def initDeps (g : Graph) (files : List File) : Deps :=
  files.map (fun f => (f, (g.lookup f).getD []))

/-- `sort_topologically(files)`; `files.length` rounds always suffice on a well-formed graph
(theorem `sort_total`). -/
def sortTopologically (g : Graph) (files : List File) : Res (List File) :=
  sortLoop files.length (initDeps g files) []

/-- With explicit fuels (used by the driver to exhibit divergence on malformed graphs). -/
def orderWithFuel (g : Graph) (names : List File) (fuel1 fuel2 : Nat) : Res (List File) :=
  match parseLoop g fuel1 names.reverse [] with
  | .done files => sortLoop fuel2 (initDeps g files) []
  | .missing f => .missing f
  | .outOfFuel => .outOfFuel

/-- The order in which `print_unified_file` emits the files' contents. -/
def emitOrder (g : Graph) (names : List File) : Res (List File) :=
  match parseFiles g names with
  | .done files => sortTopologically g files
  | .missing f => .missing f
  | .outOfFuel => .outOfFuel

/-! Decidable well-formedness of a concrete graph (used on the regenerated include graph of the
repository and by the driver): every target exists, no include line is duplicated within a file,
and the file ids are a topological numbering (every include has a smaller id than its includer),
which witnesses acyclicity. -/

def targetsExist (g : Graph) : Bool :=
  g.all (fun kl => kl.2.all (fun h => (g.lookup h).isSome))

def dupFree (g : Graph) : Bool := g.all (fun kl => decide kl.2.Nodup)

def keysDistinct (g : Graph) : Bool := decide (g.map (·.1)).Nodup

def rankedById (g : Graph) : Bool := g.all (fun kl => kl.2.all (fun h => h < kl.1))

end SingleFile
end Au

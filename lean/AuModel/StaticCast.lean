/-
  AuModel.StaticCast — `static_cast_checkers.hh` and the explicit-rep ("new rep") conversion
  pipelines of `quantity.hh`, transcribed clause by clause, for all ordered pairs of the eleven
  arithmetic reps (8 integer types of `AuModel.Arith`, 3 floating formats of `AuModel.Flt`).

    static_cast_checkers.hh:45-99     categorize_overflow_situation
    static_cast_checkers.hh:101-154   StaticCastOverflowImpl (five situations; FLOAT_TO_ANYTHING as fixed
                                      by commit fba9acf: `>=` when the limit rounds up)
    static_cast_checkers.hh:150-197   categorize_truncation_situation / StaticCastTruncateImpl
    quantity.hh:143-152               as<NewRep>(unit): cast to common type, apply_magnitude, cast
    quantity.hh:549-552               rep_cast
    quantity.hh:638-693               will_conversion_overflow<T> / will_conversion_truncate<T> /
                                      is_conversion_lossy<T>
    apply_magnitude.hh:48-64,98-134,187-204   OverflowChecker / ApplyMagnitudeImpl for floating T
    magnitude.hh:317-338,431-468,518-538      checked_int_pow, base_power_value, product,
                                      get_value_result for a floating T (rational magnitudes)

  The integral apply_magnitude machinery is `AuModel.ApplyMag`.  Core Lean only.
-/
import AuModel.ApplyMag
import AuModel.Flt

namespace Au
open IntTy

/-- The eleven arithmetic reps. -/
inductive ArithTy where
  | int (t : IntTy)
  | flt (f : FltTy)
deriving DecidableEq, Repr

namespace ArithTy
def all : List ArithTy := IntTy.all.map .int ++ FltTy.all.map .flt

def name : ArithTy → String
  | int t => t.name
  | flt f => f.name

def ofName? (s : String) : Option ArithTy := all.find? (fun a => a.name == s)

/-- `std::common_type_t<A, B>` on arithmetic types. -/
def common : ArithTy → ArithTy → ArithTy
  | int a, int b => int (IntTy.common a b)
  | int _, flt f => flt f
  | flt f, int _ => flt f
  | flt a, flt b => flt (if a.prec < b.prec then b else a)
end ArithTy

/-- A value of an arithmetic type. -/
inductive Num where
  | i (x : Int)
  | f (x : Flt)
deriving DecidableEq, Repr

/-- The value has the shape the type requires (integers additionally in range). -/
def Num.hasType : Num → ArithTy → Bool
  | .i x, .int t => decide (t.inRange x)
  | .f _, .flt _ => true
  | _, _ => false

/-! ## static_cast_checkers.hh — overflow -/

inductive OvfSit where
  | contain | unsignedToIntegral | signedToUnsigned | signedToSigned | floatToAnything | unexplored
deriving DecidableEq, Repr

/-- `categorize_overflow_situation<Source, Dest>()`.  (`sizeof` comparisons between integer types
are comparisons of their widths.) -/
def categorizeOverflow : ArithTy → ArithTy → OvfSit
  | .int s, .int d =>
    if s.signed = d.signed ∧ s.bits ≤ d.bits then .contain
    else if s.signed = false then .unsignedToIntegral
    else if d.signed = false then .signedToUnsigned else .signedToSigned
  | .int s, .flt d =>
    if Flt.ge (Flt.cast .f80 (Flt.maxOf d)) (Flt.ofInt .f80 s.hi) &&
       Flt.le (Flt.cast .f80 (Flt.lowestOf d)) (Flt.ofInt .f80 s.lo) then .contain else .unexplored
  | .flt _, .int _ => .floatToAnything
  | .flt s, .flt d => if s.sizeOf ≤ d.sizeOf then .contain else .floatToAnything

/-- `StaticCastOverflowImpl<Source, Dest, …>` for an integral source.  The comparisons are made
after integral promotion of both operands, which preserves their values. -/
def castOverflowII (s d : IntTy) (x : Int) : Bool :=
  match categorizeOverflow (.int s) (.int d) with
  | .contain => false
  | .unsignedToIntegral => decide (x > s.wrap d.hi)
  | .signedToUnsigned =>
    let us : IntTy := ⟨s.bits, false⟩      -- std::make_unsigned_t<Source>
    decide (x < 0) || decide (us.wrap x > us.wrap d.hi)
  | .signedToSigned => decide (x < s.wrap d.lo) || decide (x > s.wrap d.hi)
  | _ => false

/-- `static_cast<Source>(std::numeric_limits<Dest>::lowest())` for a floating `Source`. -/
def castLimLo (s : FltTy) : ArithTy → Flt
  | .int d => Flt.ofInt s d.lo
  | .flt d => Flt.cast s (Flt.lowestOf d)

/-- `static_cast<Source>(std::numeric_limits<Dest>::max())` for a floating `Source`. -/
def castLimHi (s : FltTy) : ArithTy → Flt
  | .int d => Flt.ofInt s d.hi
  | .flt d => Flt.cast s (Flt.maxOf d)

/-- `std::numeric_limits<I>::digits` for an integer type. -/
def intDigits (t : IntTy) : Nat := if t.signed then t.bits - 1 else t.bits

/-- `max_rounds_up`: `Dest` is integral and `Source` has fewer digits than `Dest`, so that
`static_cast<Source>(max(Dest))` rounds up to `2^N`, which is already out of range. -/
def maxRoundsUp (s : FltTy) : ArithTy → Bool
  | .int d => decide (s.prec < intDigits d)
  | .flt _ => false

/-- `StaticCastOverflowImpl<Source, Dest, …>` for a floating source (after the fix of F5: the upper
test is `>=` when the limit was rounded up). -/
def castOverflowF (s : FltTy) (d : ArithTy) (x : Flt) : Bool :=
  match categorizeOverflow (.flt s) d with
  | .floatToAnything =>
    Flt.lt x (castLimLo s d) ||
      (if maxRoundsUp s d then Flt.ge x (castLimHi s d) else Flt.gt x (castLimHi s d))
  | _ => false

/-- The static_cast checkers exist for the pair (no `UNEXPLORED` situation). -/
def castCheckable (s d : ArithTy) : Bool := categorizeOverflow s d != .unexplored

/-- `detail::will_static_cast_overflow<Dest>(x)`, `x` of type `Source`. -/
def willCastOverflow : ArithTy → ArithTy → Num → Bool
  | .int s, .int d, .i x => castOverflowII s d x
  | .flt s, d, .f x => castOverflowF s d x
  | _, _, _ => false        -- integral → floating: DEST_BOUNDS_CONTAIN_SOURCE_BOUNDS

/-! ## static_cast_checkers.hh — truncation -/

inductive TruncSit where
  | cannot | floatToIntegral
deriving DecidableEq, Repr

/-- `categorize_truncation_situation<Source, Dest>()` (its `UNEXPLORED` arm is unreachable for
arithmetic types). -/
def categorizeTruncation (s d : ArithTy) : TruncSit :=
  if s = d then .cannot
  else match d with
    | .flt _ => .cannot
    | .int _ => match s with
      | .int _ => .cannot
      | .flt _ => .floatToIntegral

/-- `detail::will_static_cast_truncate<Dest>(x)`: `std::trunc(x) != x` for floating → integral. -/
def willCastTruncate (s d : ArithTy) (v : Num) : Bool :=
  match categorizeTruncation s d, v with
  | .floatToIntegral, .f x => Flt.ne (Flt.trunc x) x
  | _, _ => false

/-! ## `static_cast<Dest>(x)` itself -/

/-- Result of a cast: the value (or UB), and whether an integral → integral cast changed it. -/
structure CastResult where
  val : Eval Num
  narrowed : Bool
deriving DecidableEq, Repr

def castNum (d : ArithTy) : Num → CastResult
  | .i x => match d with
    | .int t => ⟨.ok (.i (t.wrap x)), decide (t.wrap x ≠ x)⟩
    | .flt f => ⟨.ok (.f (Flt.ofInt f x)), false⟩
  | .f x => match d with
    | .int t => match Flt.toInt? t x with
      | .ok n => ⟨.ok (.i n), false⟩
      | .ub w => ⟨.ub w, false⟩
    | .flt f => ⟨.ok (.f (Flt.cast f x)), false⟩

/-! ## `get_value<F>(N/D)` for a floating `F` (rational magnitudes) -/

/-- A conversion factor `N/D` in lowest terms together with its prime factorisation
(ascending primes, non-zero exponents), which is how the library stores it. -/
structure Factor where
  N : Nat
  D : Nat
  pf : List (Nat × Int)
deriving DecidableEq, Repr

def Factor.inv (k : Factor) : Factor := ⟨k.D, k.N, k.pf.map (fun be => (be.1, -be.2))⟩

/-- `Π b^e` as an exact rational (to validate a factorisation handed to the driver). -/
def pfValue : List (Nat × Int) → Rat
  | [] => 1
  | (b, e) :: rest =>
    (if 0 ≤ e then ((b ^ e.toNat : Nat) : Rat) else mkRat 1 (b ^ (-e).toNat)) * pfValue rest

def pfAscending : List (Nat × Int) → Bool
  | [] => true
  | [(b, e)] => decide (2 ≤ b) && decide (e ≠ 0)
  | (b, e) :: (c, g) :: rest => decide (2 ≤ b) && decide (e ≠ 0) && decide (b < c) && pfAscending ((c, g) :: rest)

def Factor.wf (k : Factor) : Bool :=
  decide (0 < k.N) && decide (0 < k.D) && pfAscending k.pf && decide (pfValue k.pf = mkRat k.N k.D) &&
    decide (Nat.gcd k.N k.D = 1)

open FltTy in
/-- `checked_int_pow<long double>(base, exp)`: the loop of magnitude.hh:318-338 (fuel ≥ number of
iterations, which is the bit length of `exp`). -/
def checkedIntPowLD : Nat → Flt → Nat → Flt → Option Flt
  | 0, _, _, r => some r
  | fuel + 1, base, exp, r =>
    if exp = 0 then some r else
    let r1 : Option Flt :=
      if exp % 2 = 1 then
        (if Flt.gt base (Flt.div f80 (Flt.maxOf f80) r) then none else some (Flt.mul f80 r base))
      else some r
    match r1 with
    | none => none
    | some r1 =>
      let exp' := exp / 2
      if Flt.gt base (Flt.div f80 (Flt.maxOf f80) base) then (if exp' = 0 then some r1 else none)
      else checkedIntPowLD fuel (Flt.mul f80 base base) exp' r1

open FltTy in
/-- `base_power_value<F, e, 1>(b)` in `Widen<F>` = `long double`. -/
def basePowerValueLD (b : Nat) (e : Int) : Option Flt :=
  let n := e.natAbs
  match checkedIntPowLD (n + 1) (Flt.ofInt f80 b) n (.fin 1) with
  | none => none
  | some v => if e < 0 then some (Flt.div f80 (.fin 1) v) else some v

open FltTy in
/-- `product(values)` in `long double`. -/
def productLD : List Flt → Flt → Option Flt
  | [], r => some r
  | x :: rest, r =>
    if Flt.gt x (.fin 1) && Flt.gt r (Flt.div f80 (Flt.maxOf f80) x) then none
    else productLD rest (Flt.mul f80 r x)

def allSome : List (Option Flt) → Option (List Flt)
  | [] => some []
  | none :: _ => none
  | some x :: rest => match allSome rest with
    | none => none
    | some xs => some (x :: xs)

open FltTy in
/-- `get_value_result<F>(mag)`: `some v` for outcome OK, `none` for ERR_CANNOT_FIT. -/
def gvFlt (f : FltTy) (pf : List (Nat × Int)) : Option Flt :=
  match pf with
  | [] => some (Flt.ofInt f 1)
  | _ =>
    match allSome (pf.map (fun be => basePowerValueLD be.1 be.2)) with
    | none => none
    | some vals =>
      match productLD vals (.fin 1) with
      | none => none
      | some w =>
        -- safe_to_cast_to<F>: lowest(F) <= w && max(F) >= w, compared in long double
        if !(Flt.lt w (Flt.cast f80 (Flt.lowestOf f))) && !(Flt.lt (Flt.cast f80 (Flt.maxOf f)) w)
        then some (Flt.cast f w) else none

/-! ## `ApplyMagnitudeT<F, N/D>` for a floating `F` -/

/-- `OverflowChecker<F, valid>::would_product_overflow(x, mag)`. -/
def fltWouldProductOverflow (f : FltTy) (x : Flt) (m : Option Flt) : Bool :=
  match m with
  | some mv => Flt.gt x (Flt.div f (Flt.maxOf f) mv) || Flt.lt x (Flt.div f (Flt.lowestOf f) mv)
  | none => Flt.ne x (.fin 0)

def fltWouldOverflow (f : FltTy) (k : Factor) (x : Flt) : Bool :=
  match categorize k.N k.D with
  | .intMul => fltWouldProductOverflow f x (gvFlt f k.pf)
  | .intDiv => false
  | .rational => fltWouldProductOverflow f x (gvFlt f k.pf)

def fltWouldTruncate (f : FltTy) (k : Factor) (x : Flt) : Bool :=
  match categorize k.N k.D with
  | .intMul => false
  | .intDiv => match gvFlt f k.inv.pf with
    | some _ => false                       -- TruncationCheckerIfMagnitudeValid<F, false>
    | none => Flt.ne x (.fin 0)
  | .rational => false

/-- `get_value<F>(…)` static_asserts needed by `operator()`. -/
def fltCompiles (f : FltTy) (k : Factor) : Bool :=
  match categorize k.N k.D with
  | .intMul => (gvFlt f k.pf).isSome
  | .intDiv => (gvFlt f k.inv.pf).isSome
  | .rational => (gvFlt f k.pf).isSome

/-- `apply_magnitude(x, N/D)` in the floating type `F`: one multiplication (or division) by the
rounded magnitude value. -/
def fltApply (f : FltTy) (k : Factor) (x : Flt) : Flt :=
  match categorize k.N k.D with
  | .intMul => Flt.mul f x ((gvFlt f k.pf).getD .nan)
  | .intDiv => Flt.div f x ((gvFlt f k.inv.pf).getD .nan)
  | .rational => Flt.mul f x ((gvFlt f k.pf).getD .nan)

/-! ## The pipelines with an integral common type -/

/-- `will_conversion_overflow<T>(q, unit)`, source rep `S`, both integral; `C = common_type`. -/
def ovfTII (S T : IntTy) (N D : Nat) (x : Int) : Eval Bool :=
  let C := IntTy.common S T
  if castOverflowII S C x then .ok true else
  let xc := C.wrap x                                   -- rep_cast<Common>(q)
  if wouldOverflow C N D xc then .ok true else
  match (applyMag C N D xc).val with                   -- to_common.coerce_in(target_unit)
  | .ok v => .ok (castOverflowII C T v)
  | .ub w => .ub w

/-- `will_conversion_truncate<T>(q, unit)`, both reps integral.  Note that `coerce_in` is evaluated
whenever stage 2 reports no truncation — also on values for which it overflows. -/
def truncTII (S T : IntTy) (N D : Nat) (x : Int) : Eval Bool :=
  let C := IntTy.common S T
  -- stage 1: will_static_cast_truncate<Common>: integral source, never
  let xc := C.wrap x
  if wouldTruncate C N D xc then .ok true else
  match (applyMag C N D xc).val with
  | .ok _ => .ok false                                 -- integral → integral: CANNOT_TRUNCATE
  | .ub w => .ub w

/-- Whether evaluating `will_conversion_truncate<T>` executes a signed overflow or an unsigned
wrap-around (inside its `coerce_in`): what an exact-count sanitizer build observes in the checker. -/
def truncCheckerEvent (S T : IntTy) (N D : Nat) (x : Int) : Bool :=
  let C := IntTy.common S T
  let xc := C.wrap x
  if wouldTruncate C N D xc then false else
  let r := applyMag C N D xc
  (match r.val with | .ok _ => false | .ub _ => true) || r.wrapped

def lossyOf (t o : Eval Bool) : Eval Bool :=
  match t with
  | .ub w => .ub w
  | .ok true => .ok true
  | .ok false => o

/-- `is_conversion_lossy<T>(q, unit)` = `will_conversion_truncate<T> || will_conversion_overflow<T>`. -/
def lossyTII (S T : IntTy) (N D : Nat) (x : Int) : Eval Bool :=
  lossyOf (truncTII S T N D x) (ovfTII S T N D x)

/-- The record of one `q.coerce_in<T>(unit)` / `q.as<T>(unit)` evaluation. -/
structure ConvResult where
  val : Eval Num
  narrowed1 : Bool      -- the cast to the common type changed the value
  wrapped : Bool        -- an unsigned intermediate wrapped around
  narrowed2 : Bool      -- apply_magnitude's conversion back to the common type changed the value
  narrowed3 : Bool      -- the final cast to `T` changed the value
deriving DecidableEq, Repr

/-- `static_cast<T>(apply_magnitude(static_cast<Common>(value_), Factor{}))`, integral reps. -/
def coerceII (S T : IntTy) (N D : Nat) (x : Int) : ConvResult :=
  let C := IntTy.common S T
  let xc := C.wrap x
  let r := applyMag C N D xc
  match r.val with
  | .ok v => ⟨.ok (.i (T.wrap v)), decide (xc ≠ x), r.wrapped, r.narrowed, decide (T.wrap v ≠ v)⟩
  | .ub w => ⟨.ub w, decide (xc ≠ x), r.wrapped, r.narrowed, false⟩

/-! ## The pipelines with a floating common type `F` (source or target floating) -/

def ovfTF (S T : ArithTy) (f : FltTy) (k : Factor) (x : Num) : Eval Bool :=
  if willCastOverflow S (.flt f) x then .ok true else
  match (castNum (.flt f) x).val with
  | .ok (.f xc) =>
    if fltWouldOverflow f k xc then .ok true else
    .ok (willCastOverflow (.flt f) T (.f (fltApply f k xc)))
  | .ok (.i _) => .ub "ill-typed"
  | .ub w => .ub w

def truncTF (S T : ArithTy) (f : FltTy) (k : Factor) (x : Num) : Eval Bool :=
  if willCastTruncate S (.flt f) x then .ok true else
  match (castNum (.flt f) x).val with
  | .ok (.f xc) =>
    if fltWouldTruncate f k xc then .ok true else
    .ok (willCastTruncate (.flt f) T (.f (fltApply f k xc)))
  | .ok (.i _) => .ub "ill-typed"
  | .ub w => .ub w

/-- The value `apply_magnitude(static_cast<Common>(x), Factor{})` in the floating common type
(what `q.coerce_in<Common>(unit)` returns). -/
def midF (f : FltTy) (k : Factor) (x : Num) : Option Flt :=
  match (castNum (.flt f) x).val with
  | .ok (.f xc) => some (fltApply f k xc)
  | _ => none

def coerceF (T : ArithTy) (f : FltTy) (k : Factor) (x : Num) : ConvResult :=
  match midF f k x with
  | some v =>
    let c := castNum T (.f v)
    ⟨c.val, false, false, false, false⟩
  | none => ⟨.ub "ill-typed", false, false, false, false⟩

/-! ## Uniform entry points over all 121 rep pairs -/

/-- The conversion (and its checkers) compile: the static_cast situations are handled and the
`get_value` static_asserts of the operator hold in the common type. -/
def compilesT (S T : ArithTy) (k : Factor) : Bool :=
  let C := ArithTy.common S T
  castCheckable S C && castCheckable C T &&
  match C with
  | .int c => compiles c k.N k.D
  | .flt f => fltCompiles f k

def ovfT (S T : ArithTy) (k : Factor) (x : Num) : Eval Bool :=
  match S, T, x with
  | .int s, .int t, .i v => ovfTII s t k.N k.D v
  | _, _, _ => match ArithTy.common S T with
    | .flt f => ovfTF S T f k x
    | .int _ => .ub "ill-typed"

def truncT (S T : ArithTy) (k : Factor) (x : Num) : Eval Bool :=
  match S, T, x with
  | .int s, .int t, .i v => truncTII s t k.N k.D v
  | _, _, _ => match ArithTy.common S T with
    | .flt f => truncTF S T f k x
    | .int _ => .ub "ill-typed"

def lossyT (S T : ArithTy) (k : Factor) (x : Num) : Eval Bool :=
  lossyOf (truncT S T k x) (ovfT S T k x)

def coerceT (S T : ArithTy) (k : Factor) (x : Num) : ConvResult :=
  match S, T, x with
  | .int s, .int t, .i v => coerceII s t k.N k.D v
  | _, _, _ => match ArithTy.common S T with
    | .flt f => coerceF T f k x
    | .int _ => ⟨.ub "ill-typed", false, false, false, false⟩

end Au

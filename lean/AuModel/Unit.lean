/-
  AuModel.Unit — unit *types* as terms (`unit_of_measure.hh`): named units, `ScaledUnit`,
  `UnitProduct` (with `Pow`/`RatioPow` elements), `CommonUnit`, `CommonPointUnit`; their `Dim` and
  `Mag`; the type-level operations `UnitProductT`, `UnitPowerT`, `UnitQuotientT`,
  `ComputeScaledUnit`; and unit *expressions* as users write them.

  The canonical order of units inside a product (`InOrderFor<UnitProduct, A, B>`) is a parameter
  `lt`: every theorem about products holds for any strict total order, and that the library's order
  is one on the units that occur is a separate, per-run obligation (AuProofs.Gen.C02).
-/
import AuModel.Mag

namespace Au

mutual
/-- A unit type.  `prod` holds the (base, exponent) list of a `UnitProduct<...>`; a stand-alone
`Pow<B,N>` / `RatioPow<B,N,D>` is the one-element product `[(B, N/D)]` (what `UnpackIfSoloT` leaves). -/
inductive U where
  | named (id : Nat)
  | scaled (u : U) (m : Mag)
  | prod (ps : UL)
  | common (us : UL)
  | commonPoint (us : UL)
inductive UL where
  | nil
  | cons (u : U) (q : Rat) (t : UL)
end
deriving instance DecidableEq for U, UL

def UL.toList : UL → List (U × Rat)
  | .nil => []
  | .cons u q t => (u, q) :: t.toList

def UL.ofList : List (U × Rat) → UL
  | [] => .nil
  | (u, q) :: t => .cons u q (UL.ofList t)

theorem UL.toList_ofList (l : List (U × Rat)) : (UL.ofList l).toList = l := by
  induction l with
  | nil => rfl
  | cons a t ih => obtain ⟨u, q⟩ := a; simp [UL.ofList, UL.toList, ih]

/-- What the model needs to know about the named units (regenerated from the headers). -/
structure Env where
  dim : Nat → Dim
  mag : Nat → Mag

mutual
/-- `detail::DimT<U>`. -/
def U.dimOf (env : Env) : U → Dim
  | .named n => env.dim n
  | .scaled u _ => U.dimOf env u
  | .prod ps => UL.dimOf env ps
  | .common us => UL.dimHead env us
  | .commonPoint us => UL.dimHead env us
/-- `DimProductT<DimT<UnitPows>...>` (right fold, as the N-ary `PackProduct` recurses). -/
def UL.dimOf (env : Env) : UL → Dim
  | .nil => []
  | .cons u q t => Dim.mul ((U.dimOf env u).pow q) (UL.dimOf env t)
/-- `CommonDimensionT` of same-dimension units: the dimension of any member. -/
def UL.dimHead (env : Env) : UL → Dim
  | .nil => []
  | .cons u _ _ => U.dimOf env u
end

mutual
/-- `detail::MagT<U>` (for `commonPoint` the origin-displacement part is added in AuModel.CommonUnit). -/
def U.magOf (env : Env) : U → Mag
  | .named n => env.mag n
  | .scaled u m => Mag.mul (U.magOf env u) m
  | .prod ps => UL.magOf env ps
  | .common us => Mag.commonAll (UL.mags env us)
  | .commonPoint us => Mag.commonAll (UL.mags env us)
def UL.magOf (env : Env) : UL → Mag
  | .nil => []
  | .cons u q t => Mag.mul ((U.magOf env u).pow q) (UL.magOf env t)
def UL.mags (env : Env) : UL → List Mag
  | .nil => []
  | .cons u _ t => U.magOf env u :: UL.mags env t
end

/-- `AsPackT<UnitProduct, U>`. -/
def U.asPack : U → Pack U
  | .prod ps => ps.toList
  | u => [(u, 1)]

/-- `UnpackIfSoloT<UnitProduct, ·>` after `SimplifyBasePowers`: a one-element product with
exponent 1 is the element itself. -/
def U.ofPack (p : Pack U) : U :=
  match p with
  | [(u, q)] => if q = 1 then u else .prod (UL.ofList p)
  | _ => .prod (UL.ofList p)

/-- `UnitProductT<U1, U2>`. -/
def U.mul (lt : U → U → Bool) (a b : U) : U := U.ofPack (Pack.mul lt a.asPack b.asPack)

/-- `UnitPowerT<U, N, D>`. -/
def U.pow (a : U) (q : Rat) : U := U.ofPack (a.asPack.pow q)

/-- `UnitQuotientT<U1, U2>`. -/
def U.div (lt : U → U → Bool) (a b : U) : U := U.mul lt a (b.pow (-1))

/-- `ComputeScaledUnit<U, M>`: nested scalings collapse, scaling by ONE is the identity. -/
def U.scale (u : U) (m : Mag) : U :=
  match u with
  | .scaled v old =>
    let m' := Mag.mul old m
    if m' = [] then v else .scaled v m'
  | _ => if m = [] then u else .scaled u m

/-- Unit expressions as users write them (`*`, `/`, `pow<N>`, `root<N>`, scaling by a magnitude;
prefixes are scalings by `10^n` / `2^(10n)` of a named unit and are named units of their own). -/
inductive UExpr where
  | atom (u : U)
  | mul (a b : UExpr)
  | div (a b : UExpr)
  | pow (a : UExpr) (q : Rat)
  | scale (a : UExpr) (m : Mag)
deriving DecidableEq

def UExpr.eval (lt : U → U → Bool) : UExpr → U
  | .atom u => u
  | .mul a b => U.mul lt (a.eval lt) (b.eval lt)
  | .div a b => U.div lt (a.eval lt) (b.eval lt)
  | .pow a q => (a.eval lt).pow q
  | .scale a m => (a.eval lt).scale m

/-- `AreUnitsQuantityEquivalent`: same `Dim` type and same `Mag` type. -/
def U.qEquiv (env : Env) (a b : U) : Bool :=
  decide (a.dimOf env = b.dimOf env) && decide (a.magOf env = b.magOf env)

end Au

namespace Au

def U.isProd : U → Bool
  | .prod _ => true
  | _ => false

/-- Well-formed unit types (what the library's own operations produce): a `UnitProduct` holds a
valid pack whose bases are well-formed units that are not themselves products. -/
inductive HGood (lt : U → U → Bool) : U → Prop where
  | named (n : Nat) : HGood lt (.named n)
  | scaled (v : U) (m : Mag) : HGood lt v → Pack.Valid MagBase.lt m → HGood lt (.scaled v m)
  | common (us : UL) : (∀ y ∈ us.toList, HGood lt y.1) → HGood lt (.common us)
  | commonPoint (us : UL) : (∀ y ∈ us.toList, HGood lt y.1) → HGood lt (.commonPoint us)
  | prod (ps : UL) : Pack.Valid lt ps.toList → (∀ y ∈ ps.toList, y.1.isProd = false) →
      (∀ y ∈ ps.toList, HGood lt y.1) → HGood lt (.prod ps)

/-- Named units have valid dimension and magnitude packs (checked on the regenerated unit table). -/
structure Env.WF (env : Env) : Prop where
  dim : ∀ n, Pack.Valid dimLt (env.dim n)
  mag : ∀ n, Pack.Valid MagBase.lt (env.mag n)

/-- Exact algebraic semantics of a unit expression: exponent of each base dimension. -/
def UExpr.dimSem (env : Env) : UExpr → Int → Rat
  | .atom u, d => Pack.den (u.dimOf env) d
  | .mul a b, d => a.dimSem env d + b.dimSem env d
  | .div a b, d => a.dimSem env d + b.dimSem env d * (-1)
  | .pow a q, d => a.dimSem env d * q
  | .scale a _, d => a.dimSem env d

/-- Exact algebraic semantics: exponent of each prime (and of π) in the magnitude. -/
def UExpr.magSem (env : Env) : UExpr → MagBase → Rat
  | .atom u, x => Pack.den (u.magOf env) x
  | .mul a b, x => a.magSem env x + b.magSem env x
  | .div a b, x => a.magSem env x + b.magSem env x * (-1)
  | .pow a q, x => a.magSem env x * q
  | .scale a m, x => a.magSem env x + Pack.den m x

def UExpr.atoms : UExpr → List U
  | .atom u => [u]
  | .mul a b => a.atoms ++ b.atoms
  | .div a b => a.atoms ++ b.atoms
  | .pow a _ => a.atoms
  | .scale a _ => a.atoms

def UExpr.scales : UExpr → List Mag
  | .atom _ => []
  | .mul a b => a.scales ++ b.scales
  | .div a b => a.scales ++ b.scales
  | .pow a _ => a.scales
  | .scale a m => m :: a.scales

end Au

/-
  AuModel.UnitKey — a concrete, computable strict order on unit terms (by a canonical text key),
  used by the driver to *run* the unit algebra.  By `C02_dim_mag_exact` the dimension and magnitude
  of the result do not depend on which strict total order is used.
-/
import AuModel.Unit

namespace Au

def ratKey (q : Rat) : String := s!"{q.num}/{q.den}"

def MagBase.key : MagBase → String
  | .prime p => s!"p{p}"
  | .pi => "pi"

def magKey (m : Mag) : String :=
  if m.isEmpty then "-" else ",".intercalate (m.map (fun a => a.1.key ++ "^" ++ ratKey a.2))

def dimKey (d : Dim) : String :=
  if d.isEmpty then "-" else ",".intercalate (d.map (fun a => s!"d{a.1}^" ++ ratKey a.2))

mutual
def U.key : U → String
  | .named n => s!"n{n}"
  | .scaled u m => "s(" ++ U.key u ++ "|" ++ magKey m ++ ")"
  | .prod ps => "p(" ++ UL.key ps ++ ")"
  | .common us => "c(" ++ UL.key us ++ ")"
  | .commonPoint us => "cp(" ++ UL.key us ++ ")"
def UL.key : UL → String
  | .nil => ""
  | .cons u q t => U.key u ++ "^" ++ ratKey q ++ ";" ++ UL.key t
end

def U.keyLt (a b : U) : Bool := decide (a.key < b.key)

end Au

/-
  AuModel.UnitOrder — the library's own canonical order of unit types,
  `InOrderFor<UnitProduct, A, B>` (unit_of_measure.hh:1046-1053), transcribed key by key:

    LexicographicTotalOrdering<A, B, OrderByUnitAvoidance, OrderByDim, OrderByMag,
                               OrderByScaleFactor, OrderByOrigin, OrderAsUnitProduct>

  The algebra theorems (C02, C07, C10, C14) hold for ANY strict total order, and the driver runs the
  unit algebra with a text-key order; this file models the order the library actually uses, so that the
  order itself can be compared with the headers pair by pair (p_c02's order table) and reasoned about
  (AuProofs.Lemmas.UnitOrderKeys).
-/
import AuModel.Unit

namespace Au
open Pack

/-- What the order needs to know about named units beyond `Env`: the position of the unit's `origin()`
(in base units of its dimension; 0 when it has none) and its `UnitAvoidance` (0 for a named struct, 2 for a
bare `UnitImpl<Dim>`). -/
structure OrdEnv extends Env where
  origin : Nat → Rat
  avoid : Nat → Nat

/-- A one-element pack: what a stand-alone `Pow<B,N>` / `RatioPow<B,N,D>` is in the model. -/
def UL.isSingle : UL → Bool
  | .cons _ _ .nil => true
  | _ => false

def UL.headExp : UL → Rat
  | .cons _ q _ => q
  | .nil => 0

/-- `detail::UnitAvoidance<U>::value` (unit_of_measure.hh:1009-1035). -/
def U.avoidance (oe : OrdEnv) : U → Nat
  | .named n => oe.avoid n
  | .scaled _ _ => 3
  | .prod ps => if ps.isSingle then (if ps.headExp.den = 1 then 4 else 5) else 1
  | .common _ => 6
  | .commonPoint _ => 7

/-- A genuine `UnitProduct<...>` specialisation (not a stand-alone power). -/
def U.isUnitProduct : U → Bool
  | .prod ps => !ps.isSingle
  | _ => false

mutual
/-- `detail::OriginOf<U>::value()` as a position: `ScaledUnit<U, M>` derives from `U` and inherits its
`origin()` unchanged; products and common units have none; `CommonPointUnit` has the least origin. -/
def U.originOf (oe : OrdEnv) : U → Rat
  | .named n => oe.origin n
  | .scaled u _ => U.originOf oe u
  | .prod _ => 0
  | .common _ => 0
  | .commonPoint us => UL.minOrigin oe us
def UL.minOrigin (oe : OrdEnv) : UL → Rat
  | .nil => 0
  | .cons u _ .nil => U.originOf oe u
  | .cons u _ t => min (U.originOf oe u) (UL.minOrigin oe t)
end

/-- `detail::OrderByScaleFactor<A, B>`: false unless both are `ScaledUnit` specialisations. -/
def U.scaleFactorLt : U → U → Bool
  | .scaled _ m1, .scaled _ m2 => packLt MagBase.lt m1 m2
  | _, _ => false

mutual
/-- `InOrderFor<UnitProduct, A, B>`. -/
def U.libLt (oe : OrdEnv) (a b : U) : Bool :=
  if a.avoidance oe < b.avoidance oe then true
  else if b.avoidance oe < a.avoidance oe then false
  else if packLt dimLt (a.dimOf oe.toEnv) (b.dimOf oe.toEnv) then true
  else if packLt dimLt (b.dimOf oe.toEnv) (a.dimOf oe.toEnv) then false
  else if packLt MagBase.lt (a.magOf oe.toEnv) (b.magOf oe.toEnv) then true
  else if packLt MagBase.lt (b.magOf oe.toEnv) (a.magOf oe.toEnv) then false
  else if U.scaleFactorLt a b then true
  else if U.scaleFactorLt b a then false
  -- OrderByOrigin<A, B>: OriginDisplacement<A, B> = origin(B) − origin(A) is negative
  else if b.originOf oe < a.originOf oe then true
  else if a.originOf oe < b.originOf oe then false
  else match a, b with
    | .prod p1, .prod p2 =>
      if (U.prod p1).isUnitProduct && (U.prod p2).isUnitProduct then UL.libLt oe p1 p2 else false
    | _, _ => false
termination_by sizeOf a + sizeOf b
decreasing_by all_goals (simp_wf; omega)
/-- `InStandardPackOrder<UnitProduct<...>, UnitProduct<...>>` (packs.hh:346-362): lead bases by the unit
order, then lead exponents, then the tails. -/
def UL.libLt (oe : OrdEnv) (p1 p2 : UL) : Bool :=
  match p1, p2 with
  | .nil, .nil => false
  | .nil, .cons _ _ _ => true
  | .cons _ _ _, .nil => false
  | .cons u1 q1 t1, .cons u2 q2 t2 =>
    if U.libLt oe u1 u2 then true
    else if U.libLt oe u2 u1 then false
    else if q1 - q2 < 0 then true
    else if q2 - q1 < 0 then false
    else UL.libLt oe t1 t2
termination_by sizeOf p1 + sizeOf p2
decreasing_by all_goals (simp_wf; omega)
end

end Au

/-
  AuModel.Zero — `au/zero.hh` and the places where `Zero` meets `Quantity` and `QuantityPoint`
  (property C19), transcribed clause by clause:

    zero.hh:36-48        struct Zero: conversion operators to arithmetic types and chrono durations
    zero.hh:57-65        the Zero–Zero operators
    quantity.hh:133      `constexpr Quantity(Zero) : value_{0} {}`
    quantity.hh:179-187  `in(u)` for the quantity's own unit returns `value_`
    quantity.hh:249-265  same-type hidden friends: six comparisons, `+`, `-`
    quantity_point.hh:116 `constexpr QuantityPoint(Zero) = delete;`
    quantity_point.hh:241-256 same-type hidden friends of QuantityPoint

  A unit is an opaque identifier: none of the anchored code inspects it (the unit only has to be the
  *same* on both sides for a hidden friend to be a candidate), which is exactly why ZERO can be
  "the zero of every unit".  Values of the eleven arithmetic reps are exact: integers as `Int`
  with their `IntTy`, floats as sign / mantissa / exponent triples with IEEE-754 semantics
  (round-to-nearest-even, x86-64 SSE for float/double, x87 extended for long double).

  Everything lives in namespace `Au.Zero`.  Core Lean only.
-/
import AuModel.Arith

namespace Au.Zero
open Au

/-! ## Reps and values -/

/-- The three floating reps. -/
inductive FltTy where
  | f32 | f64 | f80
deriving DecidableEq, Repr

namespace FltTy
/-- Precision `p` (number of significand bits, hidden bit included). -/
def prec : FltTy → Nat
  | f32 => 24 | f64 => 53 | f80 => 64
def emax : FltTy → Int
  | f32 => 127 | f64 => 1023 | f80 => 16383
/-- Exponent of the last place of the smallest subnormal: `emin - (p - 1)`, `emin = 1 - emax`. -/
def qmin (f : FltTy) : Int := 2 - f.emax - f.prec
def name : FltTy → String
  | f32 => "f32" | f64 => "f64" | f80 => "f80"
def all : List FltTy := [f32, f64, f80]
end FltTy

/-- A floating value: `fin neg m e` is `(-1)^neg · m · 2^e`; `m = 0` gives the signed zeros. -/
inductive FVal where
  | nan
  | inf (neg : Bool)
  | fin (neg : Bool) (m : Nat) (e : Int)
deriving DecidableEq, Repr

/-- The eleven arithmetic reps of the properties. -/
inductive Rep where
  | int (t : IntTy)
  | flt (f : FltTy)
deriving DecidableEq, Repr

def Rep.all : List Rep := IntTy.all.map .int ++ FltTy.all.map .flt

def Rep.name : Rep → String
  | .int t => t.name
  | .flt f => f.name

def Rep.ofName? (s : String) : Option Rep :=
  Rep.all.find? (fun r => r.name == s)

/-- A value together with its static type. -/
inductive Val where
  | int (t : IntTy) (v : Int)
  | flt (f : FltTy) (x : FVal)
deriving DecidableEq, Repr

def Val.rep : Val → Rep
  | .int t _ => .int t
  | .flt f _ => .flt f

/-- A floating value that the format can hold (what a C++ object of that type can contain).
Zeros are written with exponent 0. -/
def FVal.wf (f : FltTy) : FVal → Prop
  | .nan => True
  | .inf _ => True
  | .fin _ m e =>
    if m = 0 then e = 0
    else m < 2 ^ f.prec ∧ f.qmin ≤ e ∧ (Nat.log2 m : Int) + e ≤ f.emax

instance (f : FltTy) (x : FVal) : Decidable (x.wf f) := by
  cases x <;> unfold FVal.wf <;> infer_instance

/-- A value that an object of its type can contain. -/
def Val.wf : Val → Prop
  | .int t v => t ∈ IntTy.all ∧ t.inRange v
  | .flt f x => x.wf f

instance (v : Val) : Decidable v.wf := by
  cases v <;> unfold Val.wf <;> infer_instance

/-- The `int` literal `0` converted to rep `r` (`return 0;`, `value_{0}`, `duration{0}`): the
integer 0, or `+0.0`. -/
def lit0 : Rep → Val
  | .int t => .int t 0
  | .flt f => .flt f (.fin false 0 0)

/-! ## Built-in operators on two values of the same rep -/

inductive CmpOp where
  | eq | ne | lt | le | gt | ge
deriving DecidableEq, Repr

def CmpOp.all : List CmpOp := [.eq, .ne, .lt, .le, .gt, .ge]

def CmpOp.name : CmpOp → String
  | .eq => "eq" | .ne => "ne" | .lt => "lt" | .le => "le" | .gt => "gt" | .ge => "ge"

def CmpOp.ofName? (s : String) : Option CmpOp :=
  CmpOp.all.find? (fun o => o.name == s)

/-- Integer comparison.  Both operands have the same type, so after integral promotion they still
have the same type and their values are unchanged: the comparison is the mathematical one. -/
def intCmp : CmpOp → Int → Int → Bool
  | .eq, a, b => decide (a = b)
  | .ne, a, b => decide (a ≠ b)
  | .lt, a, b => decide (a < b)
  | .le, a, b => decide (a ≤ b)
  | .gt, a, b => decide (a > b)
  | .ge, a, b => decide (a ≥ b)

/-- `(-1)^neg · m · 2^(e - e0)` for `e0 ≤ e`. -/
def scaled (neg : Bool) (m : Nat) (e e0 : Int) : Int :=
  (if neg then -1 else 1) * ((m * 2 ^ (e - e0).toNat : Nat) : Int)

/-- IEEE `<` (false when either operand is NaN; `-0 < +0` is false). -/
def fLt : FVal → FVal → Bool
  | .nan, _ => false
  | _, .nan => false
  | .inf a, .inf b => a && !b
  | .inf a, .fin _ _ _ => a
  | .fin _ _ _, .inf b => !b
  | .fin sa ma ea, .fin sb mb eb =>
    decide (scaled sa ma ea (min ea eb) < scaled sb mb eb (min ea eb))

/-- IEEE `==` (false when either operand is NaN; `-0 == +0`). -/
def fEq : FVal → FVal → Bool
  | .nan, _ => false
  | _, .nan => false
  | .inf a, .inf b => a == b
  | .inf _, .fin _ _ _ => false
  | .fin _ _ _, .inf _ => false
  | .fin sa ma ea, .fin sb mb eb =>
    decide (scaled sa ma ea (min ea eb) = scaled sb mb eb (min ea eb))

def fCmp : CmpOp → FVal → FVal → Bool
  | .eq, a, b => fEq a b
  | .ne, a, b => !(fEq a b)
  | .lt, a, b => fLt a b
  | .le, a, b => fLt a b || fEq a b
  | .gt, a, b => fLt b a
  | .ge, a, b => fLt b a || fEq b a

/-- Round `(-1)^neg · m · 2^e` to the format, to nearest, ties to even. -/
def rne (f : FltTy) (neg : Bool) (m : Nat) (e : Int) : FVal :=
  if m = 0 then .fin neg 0 0
  else
    let e' : Int := max (e + (Nat.log2 m + 1 : Nat) - f.prec) f.qmin
    if e' ≤ e then
      -- the significand already fits: nothing to round
      if (Nat.log2 m : Int) + e > f.emax then .inf neg else .fin neg m e
    else
      let sh := (e' - e).toNat
      let q := m / 2 ^ sh
      let r := m % 2 ^ sh
      let half := 2 ^ (sh - 1)
      let q' := if r > half || (r == half && q % 2 == 1) then q + 1 else q
      if q' = 0 then .fin neg 0 0
      else if (Nat.log2 q' : Int) + e' > f.emax then .inf neg
      else .fin neg q' e'

/-- IEEE addition in format `f`. -/
def fAdd (f : FltTy) : FVal → FVal → FVal
  | .nan, _ => .nan
  | _, .nan => .nan
  | .inf a, .inf b => if a = b then .inf a else .nan
  | .inf a, .fin _ _ _ => .inf a
  | .fin _ _ _, .inf b => .inf b
  | .fin sa ma ea, .fin sb mb eb =>
    if ma = 0 ∧ mb = 0 then .fin (sa && sb) 0 0       -- (+0)+(-0) = +0, (-0)+(-0) = -0
    else if mb = 0 then rne f sa ma ea
    else if ma = 0 then rne f sb mb eb
    else
      let e0 := min ea eb
      let s := scaled sa ma ea e0 + scaled sb mb eb e0
      if s = 0 then .fin false 0 0                     -- exact cancellation gives +0
      else rne f (decide (s < 0)) s.natAbs e0

def fNeg : FVal → FVal
  | .nan => .nan
  | .inf a => .inf (!a)
  | .fin s m e => .fin (!s) m e

/-- IEEE subtraction: `a - b = a + (-b)`. -/
def fSub (f : FltTy) (a b : FVal) : FVal := fAdd f a (fNeg b)

/-- `a + b` evaluated in the (promoted) integer type `p`. -/
def addIn (p : IntTy) (a b : Int) : Step :=
  let r := a + b
  if p.signed then
    if p.inRange r then ⟨.ok r, false⟩ else ⟨.ub "signed overflow in addition", false⟩
  else
    ⟨.ok (p.wrap r), !(decide (p.inRange r))⟩

/-- `a - b` evaluated in the (promoted) integer type `p`. -/
def subIn (p : IntTy) (a b : Int) : Step :=
  let r := a - b
  if p.signed then
    if p.inRange r then ⟨.ok r, false⟩ else ⟨.ub "signed overflow in subtraction", false⟩
  else
    ⟨.ok (p.wrap r), !(decide (p.inRange r))⟩

/-- `a op b` on raw values; `none` when the two values do not have the same type (the hidden
friends take two operands of one and the same type). -/
def valCmp (op : CmpOp) : Val → Val → Option Bool
  | .int t a, .int t' b => if t = t' then some (intCmp op a b) else none
  | .flt f a, .flt f' b => if f = f' then some (fCmp op a b) else none
  | _, _ => none

inductive ArOp where
  | add | sub
deriving DecidableEq, Repr

/-- `a.value_ + b.value_` / `a.value_ - b.value_`: the type of the result is
`decltype(declval<Rep>() ± declval<Rep>())`, i.e. the promoted type for integers. -/
def valArith (op : ArOp) : Val → Val → Option (Eval Val)
  | .int t a, .int t' b =>
    if t = t' then
      let p := t.promote
      let s := match op with
        | .add => addIn p a b
        | .sub => subIn p a b
      match s.val with
      | .ok v => some (.ok (.int p v))
      | .ub w => some (.ub w)
    else none
  | .flt f a, .flt f' b =>
    if f = f' then
      some (.ok (.flt f (match op with
        | .add => fAdd f a b
        | .sub => fSub f a b)))
    else none
  | _, _ => none

/-! ## Types, operands, outcomes -/

abbrev UnitId := Nat

/-- `Quantity<Unit, Rep>` holding `value_`. -/
structure Qty where
  unit : UnitId
  val : Val
deriving DecidableEq, Repr

/-- `QuantityPoint<Unit, Rep>` holding `x_` (a `Quantity<Unit, Rep>`). -/
structure Pt where
  unit : UnitId
  val : Val
deriving DecidableEq, Repr

/-- The types to which something of type `Zero` may be asked to convert. -/
inductive Ty where
  | zero
  | arith (r : Rep)
  | duration (r : Rep) (num den : Nat)      -- `std::chrono::duration<Rep, std::ratio<num, den>>`
  | qty (u : UnitId) (r : Rep)
  | point (u : UnitId) (r : Rep)
deriving DecidableEq, Repr

/-- Run-time values of those types. -/
inductive Value where
  | zero
  | bool (b : Bool)
  | arith (v : Val)
  | duration (num den : Nat) (count : Val)
  | qty (q : Qty)
  | point (p : Pt)
deriving DecidableEq, Repr

/-- Why a program is ill-formed. -/
inductive Reject where
  | deleted        -- overload resolution selects a function defined as deleted
  | noMatch        -- no viable function
  | ambiguous      -- more than one best viable function
deriving DecidableEq, Repr

inductive Outcome where
  | ok (v : Value)
  | ub (why : String)
  | hard (r : Reject)
deriving DecidableEq, Repr

/-- **The conversions of `Zero`.**  An expression of type `Zero` used where a `target` is required
(initialisation, assignment, argument, return value, operand of a hidden friend). -/
def convertZero : Ty → Outcome
  | .zero => .ok .zero
  -- zero.hh:38-41   template <T, enable_if is_arithmetic<T>> constexpr operator T() const { return 0; }
  | .arith r => .ok (.arith (lit0 r))
  -- zero.hh:44-47   constexpr operator std::chrono::duration<Rep, Period>() const { return duration<Rep, Period>{0}; }
  | .duration r n d => .ok (.duration n d (lit0 r))
  -- quantity.hh:133 constexpr Quantity(Zero) : value_{0} {}
  | .qty u r => .ok (.qty ⟨u, lit0 r⟩)
  -- quantity_point.hh:116 constexpr QuantityPoint(Zero) = delete;
  | .point _ _ => .hard .deleted

/-- `q.in(u)` for the quantity's own unit: `return value_;` (quantity.hh:181-183). -/
def Qty.inOwnUnit (q : Qty) : Val := q.val

/-! ## Binary expressions -/

inductive BinOp where
  | cmp (op : CmpOp)
  | ar (op : ArOp)
deriving DecidableEq, Repr

/-- The Zero–Zero operators (zero.hh:57-65). -/
def zeroZero : BinOp → Value
  | .ar .add => .zero
  | .ar .sub => .zero
  | .cmp .eq => .bool true
  | .cmp .ge => .bool true
  | .cmp .le => .bool true
  | .cmp .ne => .bool false
  | .cmp .gt => .bool false
  | .cmp .lt => .bool false

/-- The same-type hidden friends of `Quantity<U, R>` (quantity.hh:249-265). -/
def qtyFriend (op : BinOp) (a b : Qty) : Outcome :=
  if a.unit = b.unit then
    match op with
    | .cmp c =>
      match valCmp c a.val b.val with
      | some r => .ok (.bool r)
      | none => .hard .noMatch
    | .ar o =>
      match valArith o a.val b.val with
      | some (.ok v) => .ok (.qty ⟨a.unit, v⟩)      -- make_quantity<UnitT>(a.value_ ± b.value_)
      | some (.ub w) => .ub w
      | none => .hard .noMatch
  else .hard .noMatch

/-- The same-type hidden friends of `QuantityPoint<U, R>` that take two points
(quantity_point.hh:241-249): comparisons delegate to the comparison of the two `x_`. -/
def ptFriend (op : BinOp) (a b : Pt) : Outcome :=
  match op with
  | .cmp c => qtyFriend (.cmp c) ⟨a.unit, a.val⟩ ⟨b.unit, b.val⟩
  | .ar .sub => qtyFriend (.ar .sub) ⟨a.unit, a.val⟩ ⟨b.unit, b.val⟩
  | .ar .add => .hard .noMatch

/-- `lhs op rhs` where at least one operand is `ZERO`, or both are quantities of one type.

Overload resolution, as the code is written: the only candidates that survive template argument
deduction when one operand has type `Zero` are the *non-template* hidden friends of the other
operand's class (found by ADL); they require the implicit conversion of `ZERO` to that class,
i.e. `convertZero`.  For a quantity this is `Quantity(Zero)`; for a point the converting
constructor is deleted, so the call is ill-formed. -/
def binop (op : BinOp) : Value → Value → Outcome
  | .zero, .zero => .ok (zeroZero op)
  | .qty a, .qty b => qtyFriend op a b
  | .qty a, .zero =>
    match convertZero (.qty a.unit a.val.rep) with
    | .ok (.qty z) => qtyFriend op a z
    | o => o
  | .zero, .qty b =>
    match convertZero (.qty b.unit b.val.rep) with
    | .ok (.qty z) => qtyFriend op z b
    | o => o
  | .point a, .zero =>
    match op with
    | .cmp _ =>
      match convertZero (.point a.unit a.val.rep) with
      | .ok (.point z) => ptFriend op a z
      | o => o
    -- `p + ZERO`: the friend `operator+(QuantityPoint, Diff)` takes a *quantity* on the right
    | .ar .add =>
      match convertZero (.qty a.unit a.val.rep) with
      | .ok (.qty z) =>
        match qtyFriend (.ar .add) ⟨a.unit, a.val⟩ z with
        | .ok (.qty r) => .ok (.point ⟨r.unit, r.val⟩)
        | o => o
      | o => o
    -- `p - ZERO`: both `operator-(QuantityPoint, QuantityPoint)` (deleted conversion, but deleted
    -- functions take part in overload resolution) and `operator-(QuantityPoint, Diff)` are viable
    -- through one user-defined conversion each
    | .ar .sub => .hard .ambiguous
  | .zero, .point b =>
    match op with
    | .cmp _ | .ar .sub =>
      match convertZero (.point b.unit b.val.rep) with
      | .ok (.point z) => ptFriend op z b
      | o => o
    | .ar .add =>
      match convertZero (.qty b.unit b.val.rep) with
      | .ok (.qty z) =>
        match qtyFriend (.ar .add) z ⟨b.unit, b.val⟩ with
        | .ok (.qty r) => .ok (.point ⟨r.unit, r.val⟩)
        | o => o
      | o => o
  | _, _ => .hard .noMatch

/-! ## Contexts that require a given type -/

/-- Syntactic contexts in which an expression of type `Zero` is supplied where a `target` is
required.  Each of them performs the implicit (or, for `directInit` / `staticCast`, the direct)
conversion `Zero → target`; for the class types of this model both kinds find the same
constructor. -/
inductive Site where
  | copyInit        -- `T x = ZERO;`
  | directInit      -- `T x(ZERO);`
  | braceInit       -- `T x{ZERO};`
  | assign          -- `x = ZERO;`
  | argument        -- `f(ZERO)` with `void f(T)`
  | returnValue     -- `T f() { return ZERO; }`
  | staticCast      -- `static_cast<T>(ZERO)`
deriving DecidableEq, Repr

def Site.all : List Site :=
  [.copyInit, .directInit, .braceInit, .assign, .argument, .returnValue, .staticCast]

def Site.name : Site → String
  | .copyInit => "copyInit" | .directInit => "directInit" | .braceInit => "braceInit"
  | .assign => "assign" | .argument => "argument" | .returnValue => "returnValue"
  | .staticCast => "staticCast"

def Site.ofName? (s : String) : Option Site :=
  Site.all.find? (fun x => x.name == s)

/-- Outcome of supplying `ZERO` at a site that requires `target`. -/
def atSite (_s : Site) (target : Ty) : Outcome := convertZero target

/-! ## Certificates for the exhaustive sweeps

How the twelve comparisons depend on the stored value: only through its sign class.
`AuProofs.C19` proves that the table describes the pointwise `binop`. -/

inductive SignClass where
  | neg | zero | pos | nan
deriving DecidableEq, Repr

def FVal.signClass : FVal → SignClass
  | .nan => .nan
  | .inf s => if s then .neg else .pos
  | .fin s m _ => if m = 0 then .zero else if s then .neg else .pos

def Val.signClass : Val → SignClass
  | .int _ v => if v < 0 then .neg else if v = 0 then .zero else .pos
  | .flt _ x => x.signClass

/-- `x op 0` for an `x` of the given sign class, in exact arithmetic (NaN is unordered). -/
def SignClass.cmp0 : SignClass → CmpOp → Bool
  | .nan, op => decide (op = .ne)
  | .neg, op => intCmp op (-1) 0
  | .zero, op => intCmp op 0 0
  | .pos, op => intCmp op 1 0

/-- `0 op x`. -/
def SignClass.cmp0' : SignClass → CmpOp → Bool
  | .nan, op => decide (op = .ne)
  | .neg, op => intCmp op 0 (-1)
  | .zero, op => intCmp op 0 0
  | .pos, op => intCmp op 0 1

end Au.Zero


/-! ## Additive definitions (proof-extension round)

Further entry points through which a quantity meets `ZERO`.  Nothing above is changed; the driver
exposes these through `c19 extra`, and the harness compares each of them with the headers. -/
namespace Au.Zero
open Au

/-- Conversion of an arithmetic value to rep `r` as `static_cast<Rep>` performs it when source and
target are both integral (modular) or are the same floating format (identity); `none` otherwise
(not needed by the code paths below). -/
def castTo (r : Rep) : Val → Option Val
  | .int _ v => match r with
    | .int t => some (.int t (t.wrap v))
    | .flt _ => none
  | .flt f x => match r with
    | .flt f' => if f = f' then some (.flt f x) else none
    | .int _ => none

/-- `Quantity::operator+=` / `operator-=` (quantity.hh:301-308): `value_ += other.value_`, i.e.
`value_ = static_cast<Rep>(value_ ± other.value_)` with the sum formed in the promoted type. -/
def qtyCompound (op : ArOp) (a b : Qty) : Outcome :=
  if a.unit = b.unit then
    match valArith op a.val b.val with
    | some (.ok v) =>
      match castTo a.val.rep v with
      | some w => .ok (.qty ⟨a.unit, w⟩)
      | none => .hard .noMatch
    | some (.ub w) => .ub w
    | none => .hard .noMatch
  else .hard .noMatch

/-- `q += ZERO` / `q -= ZERO`: the parameter is `Quantity other`, so `ZERO` converts through
`Quantity(Zero)`. -/
def compoundWithZero (op : ArOp) (q : Qty) : Outcome :=
  match convertZero (.qty q.unit q.val.rep) with
  | .ok (.qty z) => qtyCompound op q z
  | o => o

/-- `q.in(QuantityMaker<U>{})` for the quantity's own unit (the maker's associated unit is `U`,
quantity.hh:181-183): `return value_;`. -/
def Qty.inViaMaker (q : Qty) : Val := q.val

/-- `q.in<Rep>(u)` for the quantity's own unit and own rep (quantity.hh:170-172):
`return static_cast<NewRep>(value_);` with `NewRep = Rep`. -/
def Qty.inRepExplicit (q : Qty) : Option Val := castTo q.val.rep q.val

/-- `q.data_in(u)` (quantity.hh:209-233): a reference to `value_`. -/
def Qty.dataIn (q : Qty) : Val := q.val

/-- `operator+(QuantityPoint p, Diff d)` / `operator+(Diff d, QuantityPoint p)`
(quantity_point.hh:252-253): `QuantityPoint{p.x_ + d}` — the sum is a `Quantity<U, decltype(R+R)>`
and is converted back to `Diff = Quantity<U, R>` (same unit: `static_cast<R>`) by the private
constructor's parameter.  `dLeft` tells which operand the Diff is. -/
def ptPlusDiff (dLeft : Bool) (p : Pt) (d : Qty) : Outcome :=
  match (if dLeft then qtyFriend (.ar .add) d ⟨p.unit, p.val⟩ else qtyFriend (.ar .add) ⟨p.unit, p.val⟩ d) with
  | .ok (.qty s) =>
    match castTo p.val.rep s.val with
    | some w => .ok (.point ⟨s.unit, w⟩)
    | none => .hard .noMatch
  | o => o

/-- `p + ZERO` (`dLeft = false`) and `ZERO + p` (`dLeft = true`): `ZERO` fills the Diff slot. -/
def pointPlusZero (dLeft : Bool) (p : Pt) : Outcome :=
  match convertZero (.qty p.unit p.val.rep) with
  | .ok (.qty z) => ptPlusDiff dLeft p z
  | o => o

end Au.Zero

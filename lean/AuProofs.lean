import AuProofs.Lemmas.IntDiv
import AuProofs.Lemmas.ApplyMag

import AuModel.Outcome
namespace Au

/-! # C01 — dimension mismatches are rejected at compile time

The theorems are about the gate table (`AuModel.Outcome`), read off the anchored static_asserts and
enable_ifs; the library's agreement with the table is validated by compile probes on every run. -/

/-- Every operation's gate list contains the same-dimension gate before anything that could
succeed: with a dimension mismatch no operation is accepted, whatever the policy says. -/
theorem C01_mismatch_never_ok (op : Op) (policyOk opOk : Bool) :
    outcome op false policyOk opOk ≠ .ok := by
  cases op <;> cases policyOk <;> cases opOk <;> decide

/-- Trait-style questions answer "no" for a dimension mismatch without a hard error … -/
theorem C01_traits_soft (op : Op) (h : op.isTrait = true) (policyOk opOk : Bool) :
    outcome op false policyOk opOk = .softNo := by
  cases op <;> simp [Op.isTrait] at h <;> cases policyOk <;> cases opOk <;> decide

/-- … and every non-trait operation makes the program ill-formed. -/
theorem C01_nontrait_hard (op : Op) (h : op.isTrait = false) (policyOk opOk : Bool) :
    outcome op false policyOk opOk = .hard := by
  cases op <;> simp [Op.isTrait] at h <;> cases policyOk <;> cases opOk <;> decide

/-- With matching dimensions the same expression is accepted whenever the conversion policy (and the
operation's own requirement) allows it. -/
theorem C01_same_dim_ok (op : Op) : outcome op true true true = .ok := by
  cases op <;> decide

/-- Traits never hard-error, whatever the operands. -/
theorem C01_traits_total (op : Op) (h : op.isTrait = true) (sameDim policyOk opOk : Bool) :
    outcome op sameDim policyOk opOk ≠ .hard := by
  cases op <;> simp [Op.isTrait] at h <;> cases sameDim <;> cases policyOk <;> cases opOk <;> decide

/-- The table covers every operation of the property. -/
theorem C01_ops_complete : ∀ op : Op, op ∈ Op.all := by
  intro op; cases op <;> decide

end Au

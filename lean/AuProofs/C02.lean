import AuModel.Unit
import AuProofs.Lemmas.Unit
set_option linter.unusedSectionVars false
namespace Au
open Pack

/-! # C02 — unit algebra is exact and canonical

All statements hold for **every** strict total order `lt` on unit types (the library's
`InOrderFor<UnitProduct, ·, ·>` is one on the units that occur — per-run obligation
`AuProofs.Gen.C02`), every environment of named units with valid `Dim`/`Mag` packs, and every
expression tree — no bound on depth or size. -/

section
variable {lt : U → U → Bool}

/-- Products: `DimT<UnitProductT<A,B>>` has exponents `dim A + dim B`; same for `MagT`. -/
theorem U.mul_dim_mag (hlt : StrictTotal lt) (env : Env) (hw : env.WF) {a b : U}
    (ha : HGood lt a) (hb : HGood lt b) :
    (∀ d, den ((U.mul lt a b).dimOf env) d = den (a.dimOf env) d + den (b.dimOf env) d) ∧
    (∀ x, den ((U.mul lt a b).magOf env) x = den (a.magOf env) x + den (b.magOf env) x) := by
  have hA := ha.asPack; have hB := hb.asPack
  have hM := GoodPack.mul hlt hA hB
  have va : ∀ y ∈ a.asPack, Valid dimLt (y.1.dimOf env) ∧ Valid MagBase.lt (y.1.magOf env) :=
    fun y hy => (hA.good y hy).dim_mag_valid env hw
  have vb : ∀ y ∈ b.asPack, Valid dimLt (y.1.dimOf env) ∧ Valid MagBase.lt (y.1.magOf env) :=
    fun y hy => (hB.good y hy).dim_mag_valid env hw
  constructor
  · intro d
    show den ((U.ofPack _).dimOf env) d = _
    rw [hM.dimOf_ofPack env, interp_mul_den hlt dimLt_strictTotal _ _ _ (fun y hy => (va y hy).1)
      (fun y hy => (vb y hy).1), ha.dimOf_asPack env, hb.dimOf_asPack env]
  · intro x
    show den ((U.ofPack _).magOf env) x = _
    rw [hM.magOf_ofPack env, interp_mul_den hlt MagBase.lt_strictTotal _ _ _ (fun y hy => (va y hy).2)
      (fun y hy => (vb y hy).2), ha.magOf_asPack env, hb.magOf_asPack env]

/-- Powers and roots: exponents are multiplied by the (rational) power. -/
theorem U.pow_dim_mag (env : Env) (hw : env.WF) {a : U} (ha : HGood lt a) (q : Rat) :
    (∀ d, den ((a.pow q).dimOf env) d = den (a.dimOf env) d * q) ∧
    (∀ x, den ((a.pow q).magOf env) x = den (a.magOf env) x * q) := by
  have hA := ha.asPack
  have hP := hA.pow q
  have va : ∀ y ∈ a.asPack, Valid dimLt (y.1.dimOf env) ∧ Valid MagBase.lt (y.1.magOf env) :=
    fun y hy => (hA.good y hy).dim_mag_valid env hw
  constructor
  · intro d
    show den ((U.ofPack _).dimOf env) d = _
    rw [hP.dimOf_ofPack env, interp_pow_den dimLt_strictTotal _ _ _ (fun y hy => (va y hy).1),
      ha.dimOf_asPack env]
  · intro x
    show den ((U.ofPack _).magOf env) x = _
    rw [hP.magOf_ofPack env, interp_pow_den MagBase.lt_strictTotal _ _ _ (fun y hy => (va y hy).2),
      ha.magOf_asPack env]

/-- Scaling by a magnitude: dimension unchanged, magnitude exponents add — including the collapse
of nested scalings and of a scaling that cancels to ONE. -/
theorem U.scale_dim_mag (env : Env) (hw : env.WF) {a : U} (ha : HGood lt a) (m : Mag)
    (hm : Valid MagBase.lt m) :
    (a.scale m).dimOf env = a.dimOf env ∧
    (∀ x, den ((a.scale m).magOf env) x = den (a.magOf env) x + den m x) := by
  have hst := MagBase.lt_strictTotal
  unfold U.scale
  split
  · rename_i v old
    cases ha with
    | scaled _ _ hv ho =>
      have vv := (hv.dim_mag_valid env hw).2
      simp only []
      split
      · rename_i hnil
        refine ⟨rfl, fun x => ?_⟩
        have h1 := mul_den hst old m ho.1 hm.1 x
        have h2 : den (Mag.mul old m) x = 0 := by rw [hnil]; rfl
        show den (v.magOf env) x = den (Mag.mul (v.magOf env) old) x + den m x
        rw [show Mag.mul (v.magOf env) old = Pack.mul MagBase.lt (v.magOf env) old from rfl,
          mul_den hst _ _ vv.1 ho.1]
        have h3 : den (Pack.mul MagBase.lt old m) x = 0 := h2
        rw [h1] at h3; grind
      · refine ⟨rfl, fun x => ?_⟩
        show den (Pack.mul MagBase.lt (v.magOf env) (Pack.mul MagBase.lt old m)) x =
          den (Pack.mul MagBase.lt (v.magOf env) old) x + den m x
        rw [mul_den hst _ _ vv.1 (mul_valid hst _ _ ho hm).1, mul_den hst old m ho.1 hm.1,
          mul_den hst _ _ vv.1 ho.1]; grind
  · split
    · rename_i hnil; subst hnil
      exact ⟨rfl, fun x => by simp [den_nil]; grind⟩
    · refine ⟨rfl, fun x => ?_⟩
      show den (Pack.mul MagBase.lt (a.magOf env) m) x = _
      rw [mul_den hst _ _ (ha.dim_mag_valid env hw).2.1 hm.1]

/-- **C02 (dimension and magnitude are the exact algebraic result).**  For every expression tree
over well-formed units, the dimension exponents and the magnitude exponents (per prime and π) of
the resulting unit type equal the textbook algebra: add under `*`, subtract under `/`, scale under
powers/roots, add the scaling magnitude's exponents. -/
theorem C02_dim_mag_exact (hlt : StrictTotal lt) (env : Env) (hw : env.WF) :
    (e : UExpr) → (∀ u ∈ e.atoms, HGood lt u) → (∀ m ∈ e.scales, Valid MagBase.lt m) →
    (∀ d, den ((e.eval lt).dimOf env) d = e.dimSem env d) ∧
    (∀ x, den ((e.eval lt).magOf env) x = e.magSem env x)
  | .atom u, _, _ => ⟨fun _ => rfl, fun _ => rfl⟩
  | .mul a b, h, hs => by
    have hsa : ∀ m ∈ a.scales, Valid MagBase.lt m := fun m hm => hs m (by simp [UExpr.scales, hm])
    have hsb : ∀ m ∈ b.scales, Valid MagBase.lt m := fun m hm => hs m (by simp [UExpr.scales, hm])
    have haa : ∀ u ∈ a.atoms, HGood lt u := fun u hu => h u (by simp [UExpr.atoms, hu])
    have hab : ∀ u ∈ b.atoms, HGood lt u := fun u hu => h u (by simp [UExpr.atoms, hu])
    have iha := C02_dim_mag_exact hlt env hw a haa hsa
    have ihb := C02_dim_mag_exact hlt env hw b hab hsb
    have hm := U.mul_dim_mag hlt env hw (HGood.eval hlt a haa hsa) (HGood.eval hlt b hab hsb)
    exact ⟨fun d => by show den ((U.mul lt _ _).dimOf env) d = _; rw [hm.1 d, iha.1 d, ihb.1 d]; rfl,
           fun x => by show den ((U.mul lt _ _).magOf env) x = _; rw [hm.2 x, iha.2 x, ihb.2 x]; rfl⟩
  | .div a b, h, hs => by
    have hsa : ∀ m ∈ a.scales, Valid MagBase.lt m := fun m hm => hs m (by simp [UExpr.scales, hm])
    have hsb : ∀ m ∈ b.scales, Valid MagBase.lt m := fun m hm => hs m (by simp [UExpr.scales, hm])
    have haa : ∀ u ∈ a.atoms, HGood lt u := fun u hu => h u (by simp [UExpr.atoms, hu])
    have hab : ∀ u ∈ b.atoms, HGood lt u := fun u hu => h u (by simp [UExpr.atoms, hu])
    have iha := C02_dim_mag_exact hlt env hw a haa hsa
    have ihb := C02_dim_mag_exact hlt env hw b hab hsb
    have hgb := HGood.eval hlt b hab hsb
    have hp := U.pow_dim_mag env hw hgb (-1)
    have hgp : HGood lt ((UExpr.eval lt b).pow (-1)) := (hgb.asPack.pow (-1)).ofPack
    have hm := U.mul_dim_mag hlt env hw (HGood.eval hlt a haa hsa) hgp
    exact ⟨fun d => by
             show den ((U.mul lt _ (U.pow _ (-1))).dimOf env) d = _
             rw [hm.1 d, hp.1 d, iha.1 d, ihb.1 d]; rfl,
           fun x => by
             show den ((U.mul lt _ (U.pow _ (-1))).magOf env) x = _
             rw [hm.2 x, hp.2 x, iha.2 x, ihb.2 x]; rfl⟩
  | .pow a q, h, hs => by
    have hsa : ∀ m ∈ a.scales, Valid MagBase.lt m := fun m hm => hs m (by simp [UExpr.scales, hm])
    have haa : ∀ u ∈ a.atoms, HGood lt u := fun u hu => h u (by simp [UExpr.atoms, hu])
    have iha := C02_dim_mag_exact hlt env hw a haa hsa
    have hp := U.pow_dim_mag env hw (HGood.eval hlt a haa hsa) q
    exact ⟨fun d => by show den ((U.pow _ q).dimOf env) d = _; rw [hp.1 d, iha.1 d]; rfl,
           fun x => by show den ((U.pow _ q).magOf env) x = _; rw [hp.2 x, iha.2 x]; rfl⟩
  | .scale a m, h, hs => by
    have hsa : ∀ m ∈ a.scales, Valid MagBase.lt m := fun m hm => hs m (by simp [UExpr.scales, hm])
    have haa : ∀ u ∈ a.atoms, HGood lt u := fun u hu => h u (by simp [UExpr.atoms, hu])
    have iha := C02_dim_mag_exact hlt env hw a haa hsa
    have hsc := U.scale_dim_mag env hw (HGood.eval hlt a haa hsa) m (hs m (by simp [UExpr.scales]))
    exact ⟨fun d => by show den ((U.scale _ m).dimOf env) d = _; rw [hsc.1, iha.1 d]; rfl,
           fun x => by show den ((U.scale _ m).magOf env) x = _; rw [hsc.2 x, iha.2 x]; rfl⟩

end
end Au

import AuProofs.C02
import AuProofs.Lemmas.MagValue
/-! # C02 at the level of numbers

`C02_dim_mag_exact` says the library's unit algebra computes the right *exponents*.  Here the exponents
are interpreted: for rational units, rational scale factors and integer powers the magnitude of any
expression has exactly the value obtained by multiplying, dividing and raising the values of its parts. -/
namespace Au
open Pack

/-- `PackPower` by an integer raises the value to that power. -/
theorem qval_pow_int (piv : Rat) (hpi : 0 < piv) (m : Mag) (k : Int) (hi : Mag.IntExp m) (hp : Mag.PosBases m) :
    Mag.qval piv (Pack.pow m (k : Rat)) = (Mag.qval piv m) ^ k ∧ Mag.IntExp (Pack.pow m (k : Rat)) ∧
      Mag.PosBases (Pack.pow m (k : Rat)) := by
  unfold Pack.pow
  by_cases hk : (k : Rat) = 0
  · have hk0 : k = 0 := by exact_mod_cast hk
    simp only [hk, if_true]
    subst hk0
    refine ⟨by simp [Mag.qval_nil], fun _ h => absurd h List.not_mem_nil, fun _ h => absurd h List.not_mem_nil⟩
  · simp only [hk, if_false]
    induction m with
    | nil => simp [Mag.qval_nil]; exact ⟨fun _ h => absurd h List.not_mem_nil, fun _ h => absurd h List.not_mem_nil⟩
    | cons a t ih =>
      obtain ⟨i1, i2, i3⟩ := ih (intExp_tail hi) (posBases_tail hp)
      have hd := hi a (List.mem_cons_self ..)
      have he : a.2 = (a.2.num : Rat) := by
        have := Rat.num_div_den a.2; rw [hd] at this; simpa using this.symm
      have hmul : a.2 * (k : Rat) = ((a.2.num * k : Int) : Rat) := by rw [he]; push_cast; simp
      have hq : 0 < MagBase.qv piv a.1 := qv_pos piv hpi a.1 (fun p hp' => hp a (List.mem_cons_self ..) p hp')
      refine ⟨?_, ?_, ?_⟩
      · simp only [List.map_cons, Mag.qval_cons] at i1 ⊢
        rw [i1, mul_zpow]
        congr 1
        simp only [bval]
        rw [hmul, Rat.num_intCast, zpow_mul]
      · intro x hx; rcases List.mem_cons.1 hx with rfl | hx
        · show (a.2 * (k : Rat)).den = 1
          rw [hmul]; exact Rat.den_intCast _
        · exact i2 x hx
      · intro x hx; rcases List.mem_cons.1 hx with rfl | hx
        · exact fun p hp' => hp a (List.mem_cons_self ..) p hp'
        · exact i3 x hx


theorem piFree_mul (a b : Mag) (ha : Mag.PiFree a) (hb : Mag.PiFree b) : Mag.PiFree (mul MagBase.lt a b) := by
  intro y hy
  rcases mem_mul_base a b y hy with ⟨z, hz, hz1⟩ | ⟨z, hz, hz1⟩
  · rw [← hz1]; exact ha z hz
  · rw [← hz1]; exact hb z hz

theorem piFree_pow (a : Mag) (q : Rat) (ha : Mag.PiFree a) : Mag.PiFree (Pack.pow a q) := by
  unfold Pack.pow
  split
  · intro _ h; exact absurd h List.not_mem_nil
  · intro y hy
    obtain ⟨w, hw, rfl⟩ := List.mem_map.1 hy
    exact ha w hw

theorem rational_mul (piv : Rat) (hpi : 0 < piv) (a b : Mag) (ha : Mag.Rational a) (hb : Mag.Rational b) :
    Mag.Rational (mul MagBase.lt a b) ∧ Mag.qval piv (mul MagBase.lt a b) = Mag.qval piv a * Mag.qval piv b := by
  obtain ⟨q1, q2, q3⟩ := qval_mul piv hpi a b ha.int hb.int ha.pos hb.pos
  exact ⟨⟨mul_valid MagBase.lt_strictTotal a b ha.valid hb.valid, q2, q3, piFree_mul a b ha.free hb.free⟩, q1⟩

theorem rational_pow_int (piv : Rat) (hpi : 0 < piv) (a : Mag) (k : Int) (ha : Mag.Rational a) :
    Mag.Rational (Pack.pow a (k : Rat)) ∧ Mag.qval piv (Pack.pow a (k : Rat)) = (Mag.qval piv a) ^ k := by
  obtain ⟨q1, q2, q3⟩ := qval_pow_int piv hpi a k ha.int ha.pos
  exact ⟨⟨pow_valid a _ ha.valid, q2, q3, piFree_pow a _ ha.free⟩, q1⟩

theorem rational_inv (piv : Rat) (hpi : 0 < piv) (a : Mag) (ha : Mag.Rational a) :
    Mag.Rational (Pack.inv a) ∧ Mag.qval piv (Pack.inv a) = (Mag.qval piv a)⁻¹ := by
  have := rational_pow_int piv hpi a (-1) ha
  have h1 : (((-1 : Int)) : Rat) = -1 := by norm_num
  rw [h1] at this
  refine ⟨this.1, ?_⟩
  have h2 := this.2
  rw [zpow_neg_one] at h2
  exact h2

/-- Every power in the expression is an integer power. -/
def UExpr.IntPows : UExpr → Prop
  | .atom _ => True
  | .mul a b => a.IntPows ∧ b.IntPows
  | .div a b => a.IntPows ∧ b.IntPows
  | .pow a q => q.den = 1 ∧ a.IntPows
  | .scale a _ => a.IntPows

/-- The number a unit expression denotes (relative to the base units), computed on rationals. -/
def UExpr.valueOf (env : Env) (piv : Rat) : UExpr → Rat
  | .atom u => Mag.qval piv (u.magOf env)
  | .mul a b => a.valueOf env piv * b.valueOf env piv
  | .div a b => a.valueOf env piv / b.valueOf env piv
  | .pow a q => (a.valueOf env piv) ^ q.num
  | .scale a m => a.valueOf env piv * Mag.qval piv m

/-- **C02 at the level of numbers.**  For every unit expression over rational named units, rational
scale factors and integer powers, the magnitude the library computes (any strict total unit order,
any nesting) is a rational magnitude whose exact value is the product / quotient / power of the
values of its parts: the exponent algebra of `C02_dim_mag_exact` denotes the right numbers. -/
theorem C02_value_exact {lt : U → U → Bool} (hlt : StrictTotal lt) (env : Env) (hw : env.WF) (piv : Rat) (hpi : 0 < piv) :
    (e : UExpr) → (∀ u ∈ e.atoms, HGood lt u) → (∀ m ∈ e.scales, Valid MagBase.lt m) →
    (∀ u ∈ e.atoms, Mag.Rational (u.magOf env)) → (∀ m ∈ e.scales, Mag.Rational m) → e.IntPows →
    Mag.Rational ((e.eval lt).magOf env) ∧ Mag.qval piv ((e.eval lt).magOf env) = e.valueOf env piv
  | .atom u, _, _, hr, _, _ => ⟨hr u (by simp [UExpr.atoms]), rfl⟩
  | .mul a b, h, hs, hr, hrs, hip => by
    have haa : ∀ u ∈ a.atoms, HGood lt u := fun u hu => h u (by simp [UExpr.atoms, hu])
    have hab : ∀ u ∈ b.atoms, HGood lt u := fun u hu => h u (by simp [UExpr.atoms, hu])
    have hsa : ∀ m ∈ a.scales, Valid MagBase.lt m := fun m hm => hs m (by simp [UExpr.scales, hm])
    have hsb : ∀ m ∈ b.scales, Valid MagBase.lt m := fun m hm => hs m (by simp [UExpr.scales, hm])
    obtain ⟨ra, va⟩ := C02_value_exact hlt env hw piv hpi a haa hsa (fun u hu => hr u (by simp [UExpr.atoms, hu]))
      (fun m hm => hrs m (by simp [UExpr.scales, hm])) hip.1
    obtain ⟨rb, vb⟩ := C02_value_exact hlt env hw piv hpi b hab hsb (fun u hu => hr u (by simp [UExpr.atoms, hu]))
      (fun m hm => hrs m (by simp [UExpr.scales, hm])) hip.2
    have hE := (C02_dim_mag_exact hlt env hw (.mul a b) h hs).2
    have hA := (C02_dim_mag_exact hlt env hw a haa hsa).2
    have hB := (C02_dim_mag_exact hlt env hw b hab hsb).2
    have hv := (HGood.dim_mag_valid env hw (HGood.eval hlt (.mul a b) h hs)).2
    obtain ⟨rt, vt⟩ := rational_mul piv hpi _ _ ra rb
    have heq : ((UExpr.mul a b).eval lt).magOf env = mul MagBase.lt ((a.eval lt).magOf env) ((b.eval lt).magOf env) := by
      apply canonical MagBase.lt_strictTotal _ _ hv rt.valid
      intro x
      rw [hE x, mul_den MagBase.lt_strictTotal _ _ ra.valid.1 rb.valid.1, hA x, hB x]
      rfl
    rw [heq]
    exact ⟨rt, by rw [vt, va, vb]; rfl⟩
  | .div a b, h, hs, hr, hrs, hip => by
    have haa : ∀ u ∈ a.atoms, HGood lt u := fun u hu => h u (by simp [UExpr.atoms, hu])
    have hab : ∀ u ∈ b.atoms, HGood lt u := fun u hu => h u (by simp [UExpr.atoms, hu])
    have hsa : ∀ m ∈ a.scales, Valid MagBase.lt m := fun m hm => hs m (by simp [UExpr.scales, hm])
    have hsb : ∀ m ∈ b.scales, Valid MagBase.lt m := fun m hm => hs m (by simp [UExpr.scales, hm])
    obtain ⟨ra, va⟩ := C02_value_exact hlt env hw piv hpi a haa hsa (fun u hu => hr u (by simp [UExpr.atoms, hu]))
      (fun m hm => hrs m (by simp [UExpr.scales, hm])) hip.1
    obtain ⟨rb, vb⟩ := C02_value_exact hlt env hw piv hpi b hab hsb (fun u hu => hr u (by simp [UExpr.atoms, hu]))
      (fun m hm => hrs m (by simp [UExpr.scales, hm])) hip.2
    have hE := (C02_dim_mag_exact hlt env hw (.div a b) h hs).2
    have hA := (C02_dim_mag_exact hlt env hw a haa hsa).2
    have hB := (C02_dim_mag_exact hlt env hw b hab hsb).2
    have hv := (HGood.dim_mag_valid env hw (HGood.eval hlt (.div a b) h hs)).2
    obtain ⟨ri, vi⟩ := rational_inv piv hpi _ rb
    obtain ⟨rt, vt⟩ := rational_mul piv hpi _ _ ra ri
    have heq : ((UExpr.div a b).eval lt).magOf env = mul MagBase.lt ((a.eval lt).magOf env) (Pack.inv ((b.eval lt).magOf env)) := by
      apply canonical MagBase.lt_strictTotal _ _ hv rt.valid
      intro x
      rw [hE x, mul_den MagBase.lt_strictTotal _ _ ra.valid.1 ri.valid.1, hA x]
      show _ = _ + den (Pack.pow _ (-1)) x
      rw [pow_den, hB x]
      rfl
    rw [heq]
    exact ⟨rt, by rw [vt, vi, va, vb]; rfl⟩
  | .pow a q, h, hs, hr, hrs, hip => by
    have haa : ∀ u ∈ a.atoms, HGood lt u := fun u hu => h u (by simpa [UExpr.atoms] using hu)
    have hsa : ∀ m ∈ a.scales, Valid MagBase.lt m := fun m hm => hs m (by simpa [UExpr.scales] using hm)
    obtain ⟨ra, va⟩ := C02_value_exact hlt env hw piv hpi a haa hsa (fun u hu => hr u (by simpa [UExpr.atoms] using hu))
      (fun m hm => hrs m (by simpa [UExpr.scales] using hm)) hip.2
    have hE := (C02_dim_mag_exact hlt env hw (.pow a q) h hs).2
    have hA := (C02_dim_mag_exact hlt env hw a haa hsa).2
    have hv := (HGood.dim_mag_valid env hw (HGood.eval hlt (.pow a q) h hs)).2
    have hq : q = (q.num : Rat) := by
      have := Rat.num_div_den q; rw [hip.1] at this; simpa using this.symm
    obtain ⟨rt, vt⟩ := rational_pow_int piv hpi _ q.num ra
    have heq : ((UExpr.pow a q).eval lt).magOf env = Pack.pow ((a.eval lt).magOf env) (q.num : Rat) := by
      apply canonical MagBase.lt_strictTotal _ _ hv rt.valid
      intro x
      rw [hE x, pow_den, hA x, ← hq]
      rfl
    rw [heq]
    exact ⟨rt, by rw [vt, va]; rfl⟩
  | .scale a m, h, hs, hr, hrs, hip => by
    have haa : ∀ u ∈ a.atoms, HGood lt u := fun u hu => h u (by simpa [UExpr.atoms] using hu)
    have hsa : ∀ k ∈ a.scales, Valid MagBase.lt k := fun k hk => hs k (by simp [UExpr.scales, hk])
    obtain ⟨ra, va⟩ := C02_value_exact hlt env hw piv hpi a haa hsa (fun u hu => hr u (by simpa [UExpr.atoms] using hu))
      (fun k hk => hrs k (by simp [UExpr.scales, hk])) hip
    have hm : Mag.Rational m := hrs m (by simp [UExpr.scales])
    have hE := (C02_dim_mag_exact hlt env hw (.scale a m) h hs).2
    have hA := (C02_dim_mag_exact hlt env hw a haa hsa).2
    have hv := (HGood.dim_mag_valid env hw (HGood.eval hlt (.scale a m) h hs)).2
    obtain ⟨rt, vt⟩ := rational_mul piv hpi _ _ ra hm
    have heq : ((UExpr.scale a m).eval lt).magOf env = mul MagBase.lt ((a.eval lt).magOf env) m := by
      apply canonical MagBase.lt_strictTotal _ _ hv rt.valid
      intro x
      rw [hE x, mul_den MagBase.lt_strictTotal _ _ ra.valid.1 hm.valid.1, hA x]
      rfl
    rw [heq]
    exact ⟨rt, by rw [vt, va]; rfl⟩


/-- Non-vacuity: kilo-metres per (minute squared), with metres ↦ 1 and minutes ↦ 60: value 1000/3600. -/
example :
    let env : Env := ⟨fun _ => [], fun n => if n = 1 then [(.prime 2, 2), (.prime 3, 1), (.prime 5, 1)] else []⟩
    (UExpr.div (.scale (.atom (.named 0)) [(.prime 2, 3), (.prime 5, 3)]) (.pow (.atom (.named 1)) 2)).valueOf env 3 = 1000 / 3600 := by
  decide +kernel

end Au

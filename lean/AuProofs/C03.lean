import AuProofs.C04
namespace Au
open IntTy

theorem mulIn_ok (p : IntTy) (hp : p ∈ IntTy.all) (a b : Int) (h : p.inRange (a * b)) :
    mulIn p a b = ⟨.ok (a * b), false⟩ := by
  unfold mulIn
  cases hs : p.signed with
  | true => simp [h]
  | false => simp [h, wrap_of_inRange p hp _ h]

theorem divIn_ok (p : IntTy) (a b : Int) (hb : 0 < b) :
    divIn p a b = ⟨.ok (Int.tdiv a b), false⟩ := by
  unfold divIn
  have h1 : b ≠ 0 := by omega
  have h2 : b ≠ -1 := by omega
  simp [h1, h2]

theorem finish_ok (t : IntTy) (ht : t ∈ IntTy.all) (v : Int) (w : Bool) (h : t.inRange v) :
    finish t ⟨.ok v, w⟩ = ⟨.ok v, w, false⟩ := by
  unfold finish
  simp [wrap_of_inRange t ht v h]

theorem quot_inRange (t : IntTy) (D : Nat) (hD : 0 < D) (q y : Int) (hq : y = D * q)
    (h : t.lo * D ≤ y ∧ y ≤ t.hi * D) : t.inRange q := by
  subst hq
  have hD' : (0 : Int) < D := by omega
  constructor
  · have := h.1; rw [Int.mul_comm (D:Int) q] at this
    exact Int.le_of_mul_le_mul_right this hD'
  · have := h.2; rw [Int.mul_comm (D:Int) q] at this
    exact Int.le_of_mul_le_mul_right this hD'

/-- **C03.** For every integral rep, every coprime positive `N/D` for which the conversion
compiles, and every stored value: if `is_conversion_lossy` is false then the conversion returns
exactly `x·N/D` (`q` with `q·D = x·N`), every intermediate step is free of undefined behaviour,
no unsigned intermediate wraps, and the final conversion back to `T` does not change the value. -/
theorem C03_exact (t : IntTy) (ht : t ∈ IntTy.all) (N D : Nat) (hN : 0 < N) (hD : 0 < D)
    (hc : compiles t N D = true) (x : Int) (hx : t.inRange x)
    (hl : isLossy t N D x = false) :
    ∃ q : Int, applyMag t N D x = ⟨.ok q, false, false⟩ ∧ q * D = x * N ∧ t.inRange q := by
  unfold isLossy at hl
  rw [Bool.or_eq_false_iff] at hl
  obtain ⟨htr, hov⟩ := hl
  have hint : (D : Int) ∣ x * N := C04_truncate_sound t N D x htr
  have hfit : ExactFits t N D x := by
    by_cases h : ExactFits t N D x
    · exact h
    · have := (C04_overflow_iff t ht N D hN hD hc x hx).2 h
      rw [hov] at this; cases this
  obtain ⟨q, hq⟩ := hint
  have hqr : t.inRange q := quot_inRange t D hD q _ hq hfit.1
  have hD' : (D : Int) ≠ 0 := by omega
  have htd : Int.tdiv (x * N) D = q := by rw [hq]; exact Int.mul_tdiv_cancel_left _ hD'
  have hp := promote_mem t ht
  refine ⟨q, ?_, by rw [hq, Int.mul_comm], hqr⟩
  unfold applyMag
  cases hcat : categorize N D with
  | intMul =>
    have h1 := cat_intMul hcat
    subst h1
    simp only []
    rw [mulIn_ok _ hp _ _ hfit.2]
    have : x * N = q := by rw [hq]; simp
    rw [this]
    exact finish_ok t ht q false hqr
  | intDiv =>
    have h1 := (cat_intDiv hcat).1
    subst h1
    simp only []
    rw [divIn_ok _ _ _ (by omega : (0:Int) < D)]
    have : Int.tdiv x D = q := by simpa using htd
    rw [this]
    exact finish_ok t ht q false hqr
  | rational =>
    simp only []
    rw [mulIn_ok _ hp _ _ hfit.2]
    simp only []
    rw [divIn_ok _ _ _ (by omega : (0:Int) < D), htd]
    exact finish_ok t ht q _ hqr

/-- Non-vacuity: uint16, factor 7/4, x = 37000 (promoted product 259000 exceeds uint16 but fits
int; result 64750 fits uint16). -/
example : compiles u16 7 4 = true ∧ u16.inRange 37000 ∧ isLossy u16 7 4 37000 = false ∧
    applyMag u16 7 4 37000 = ⟨.ok 64750, false, false⟩ := by decide

end Au

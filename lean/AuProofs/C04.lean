import AuProofs.Lemmas.ApplyMag
namespace Au
open IntTy

/-- Statement-level predicate of C04: the exact scaled value `x·N/D` lies in `T`'s range, and the
intermediate product by the numerator lies in the promoted type's range. -/
def ExactFits (t : IntTy) (N D : Nat) (x : Int) : Prop :=
  (t.lo * D ≤ x * N ∧ x * N ≤ t.hi * D) ∧ t.promote.inRange (x * N)
instance (t : IntTy) (N D : Nat) (x : Int) : Decidable (ExactFits t N D x) := by
  unfold ExactFits; infer_instance

theorem C04_overflow_iff (t : IntTy) (ht : t ∈ IntTy.all) (N D : Nat) (hN : 0 < N) (hD : 0 < D)
    (hc : compiles t N D = true) (x : Int) (hx : t.inRange x) :
    wouldOverflow t N D x = true ↔ ¬ ExactFits t N D x := by
  have hplo := promote_lo t ht
  have hphi := promote_hi t ht
  unfold wouldOverflow ExactFits
  cases hcat : categorize N D with
  | intMul =>
    have hD1 : D = 1 := by
      by_cases h : D = 1
      · exact h
      · unfold categorize at hcat; rw [if_neg h] at hcat; split at hcat <;> cases hcat
    subst hD1
    have hn : (N : Int) ≤ t.hi := by
      unfold compiles at hc; rw [hcat] at hc; exact (gvInt_isSome _ _).1 hc
    simp only []
    rw [overflow_intMul t ht N hN hn x]
    simp only [IntTy.inRange, Int.natCast_one, Int.mul_one]
    omega
  | intDiv =>
    have hN1 : N = 1 := by
      by_cases h : N = 1
      · exact h
      · unfold categorize at hcat; rw [if_neg h] at hcat; split at hcat <;> cases hcat
    subst hN1
    simp only [IntTy.inRange, Int.natCast_one, Int.mul_one]
    have hx' := hx
    unfold IntTy.inRange at hx'
    have h2 : t.hi ≤ t.hi * D := le_mul_nat _ D (hi_nonneg t ht) hD
    have h1 : t.lo * D ≤ t.lo := by
      have := le_mul_nat (-t.lo) D (by have := lo_nonpos t ht; omega) hD
      rw [Int.neg_mul] at this
      omega
    simp
    omega
  | rational =>
    obtain ⟨hn, hd⟩ := compiles_rational t N D hcat hc
    simp only []
    cases hs : t.signed with
    | true =>
      simp only [if_true, Bool.and_eq_false_iff, decide_eq_false_iff_not,
        Bool.not_eq_eq_eq_not, Bool.not_true, ge_iff_le]
      rw [max_iff t ht N D hN hD hn hd x hx, min_iff t ht hs N D hN hD hn hd x hx]
      unfold IntTy.inRange
      omega
    | false =>
      simp only [Bool.false_eq_true, if_false, Bool.not_eq_true', decide_eq_false_iff_not]
      rw [max_iff t ht N D hN hD hn hd x hx]
      unfold IntTy.inRange
      have h0 := unsigned_lo t hs
      have hx0 : 0 ≤ x := by have := hx.1; omega
      have : 0 ≤ x * N := Int.mul_nonneg hx0 (by omega)
      have := lo_nonpos _ (promote_mem t ht)
      rw [h0]
      omega

/-- Statement-level predicate: the exact scaled value `x·N/D` is an integer. -/
def ExactInteger (N D : Nat) (x : Int) : Prop := (D : Int) ∣ x * N

/-- Soundness direction, no hypothesis at all: whenever the checker says "no truncation" the exact
value is an integer. -/
theorem C04_truncate_sound (t : IntTy) (N D : Nat) (x : Int)
    (h : wouldTruncate t N D x = false) : ExactInteger N D x := by
  unfold ExactInteger
  unfold wouldTruncate at h
  cases hcat : categorize N D with
  | intMul => rw [cat_intMul hcat]; exact Int.one_dvd _
  | intDiv => rw [hcat] at h; exact Int.dvd_mul_of_dvd_left (truncChecker_sound t D x h)
  | rational => rw [hcat] at h; exact Int.dvd_mul_of_dvd_left (truncChecker_sound t.promote D x h)

/-- **C04, truncation clause (full strength).**  For every integral rep, every coprime `N/D` for
which the conversion compiles and every value, `will_conversion_truncate` is true exactly when
`x·N/D` is not an integer.  (Before the `fix:` commit for finding F8 this was false at
`int8_t`, x = −128, 3/128; the model follows the fixed code, which checks in the promoted type.) -/
theorem C04_truncate_iff (t : IntTy) (N D : Nat) (hcop : Nat.Coprime D N)
    (hc : compiles t N D = true) (x : Int) :
    wouldTruncate t N D x = true ↔ ¬ ExactInteger N D x := by
  unfold ExactInteger
  rw [dvd_mul_coprime D N x hcop]
  unfold wouldTruncate
  unfold compiles at hc
  cases hcat : categorize N D with
  | intMul =>
    rw [cat_intMul hcat]
    simp [Int.one_dvd]
  | intDiv =>
    rw [hcat] at hc
    simp only []
    rw [gvInt_of_le t D ((gvInt_isSome _ _).1 hc)]
    simp only [truncationChecker, decide_eq_true_eq]
    exact tmod_ne_zero_iff x D
  | rational =>
    rw [hcat] at hc
    simp only [Bool.and_eq_true] at hc
    simp only []
    rw [gvInt_of_le t.promote D ((gvInt_isSome _ _).1 hc.2)]
    simp only [truncationChecker, decide_eq_true_eq]
    exact tmod_ne_zero_iff x D

/-- Regression guard for F8: the formerly failing point is now classified correctly. -/
theorem C04_F8_fixed : wouldTruncate i8 3 128 (-128) = false ∧ wouldTruncate i16 5 32768 (-32768) = false := by
  decide

theorem C04_lossy_eq_or (t : IntTy) (N D : Nat) (x : Int) :
    isLossy t N D x = (wouldTruncate t N D x || wouldOverflow t N D x) := rfl

/-- No false alarm: a conversion whose exact result is representable and computable is never
reported lossy. -/
theorem C04_no_false_alarm (t : IntTy) (ht : t ∈ IntTy.all) (N D : Nat) (hN : 0 < N) (hD : 0 < D)
    (hcop : Nat.Coprime D N) (hc : compiles t N D = true) (x : Int) (hx : t.inRange x)
    (hfit : ExactFits t N D x) (hint : ExactInteger N D x) :
    isLossy t N D x = false := by
  unfold isLossy
  have h1 : wouldOverflow t N D x = false := by
    cases h : wouldOverflow t N D x with
    | false => rfl
    | true => exact absurd hfit ((C04_overflow_iff t ht N D hN hD hc x hx).1 h)
  have h2 : wouldTruncate t N D x = false := by
    cases h : wouldTruncate t N D x with
    | false => rfl
    | true => exact absurd hint ((C04_truncate_iff t N D hcop hc x).1 h)
  rw [h1, h2]; rfl

/-- Non-vacuity: the hypotheses are met by a non-trivial instance (int16, 5/3, x = 6000). -/
example : i16 ∈ IntTy.all ∧ compiles i16 5 3 = true ∧ i16.inRange 6000 ∧ Nat.Coprime 3 5 ∧
    ExactFits i16 5 3 6000 ∧ ExactInteger 5 3 6000 ∧ isLossy i16 5 3 6000 = false := by
  refine ⟨by decide, by decide, by decide, by decide, by decide, ⟨10000, by decide⟩, by decide⟩

end Au

import AuProofs.Lemmas.Flt
import AuProofs.Lemmas.StaticCast
namespace Au
open IntTy FltTy

/-! # C05 — rep-changing conversions and their checkers are sound (Lean side)

Integral source and target (64 ordered pairs): full-strength theorems.  Floating source or target:
see the second half of this file. -/

/-- **C05, static_cast checker, integral pairs.**  For all 64 ordered pairs of integer types and
every value of the source type, `will_static_cast_overflow<Dest>` is true exactly when the value is
outside the range of `Dest`. -/
theorem C05_cast_overflow_iff (s d : IntTy) (hs : s ∈ IntTy.all) (hd : d ∈ IntTy.all) (x : Int)
    (hx : s.inRange x) : willCastOverflow (.int s) (.int d) (.i x) = true ↔ ¬ d.inRange x :=
  castOverflowII_iff s d hs hd x hx

/-- Integral → anything and anything → floating never "truncates" (library convention for
floating destinations). -/
theorem C05_cast_truncate_never (s d : ArithTy) (v : Num)
    (h : (∃ t, s = .int t) ∨ (∃ f, d = .flt f)) : willCastTruncate s d v = false := by
  unfold willCastTruncate categorizeTruncation
  rcases h with ⟨t, rfl⟩ | ⟨f, rfl⟩
  · cases d <;> split <;> simp_all
  · cases s <;> split <;> simp_all

/-- Statement-level predicate for integral reps: the exact value of every stage of
`static_cast<T>(apply_magnitude(static_cast<Common>(x)))` is in that stage's range — `x` in the
common type, `x·N` in the promoted common type, `x·N/D` (as a rational) in the common type, and the
quotient handed to the last cast in `T`. -/
def StagesFit (S T : IntTy) (N D : Nat) (x : Int) : Prop :=
  (IntTy.common S T).inRange x ∧ ExactFits (IntTy.common S T) N D x ∧ T.inRange (Int.tdiv (x * N) D)
instance (S T : IntTy) (N D : Nat) (x : Int) : Decidable (StagesFit S T N D x) := by
  unfold StagesFit; infer_instance

/-- **C05, overflow pipeline, integral reps.**  `will_conversion_overflow<T>` never evaluates
anything undefined, and it reports overflow exactly when some stage's exact value leaves that
stage's range. -/
theorem C05_overflow_iff_int (S T : IntTy) (hS : S ∈ IntTy.all) (hT : T ∈ IntTy.all) (N D : Nat)
    (hN : 0 < N) (hD : 0 < D) (hc : compiles (IntTy.common S T) N D = true) (x : Int)
    (hx : S.inRange x) :
    ∃ b, ovfTII S T N D x = .ok b ∧ (b = true ↔ ¬ StagesFit S T N D x) := by
  have hC := common_mem S T hS hT
  unfold ovfTII StagesFit
  simp only []
  cases h1 : castOverflowII S (IntTy.common S T) x with
  | true =>
    have := (castOverflowII_iff S _ hS hC x hx).1 h1
    exact ⟨true, by simp, by simp [this]⟩
  | false =>
    have hxC := (castOverflowII_false S _ hS hC x hx).1 h1
    rw [wrap_of_inRange _ hC x hxC]
    cases h2 : wouldOverflow (IntTy.common S T) N D x with
    | true =>
      have := (C04_overflow_iff _ hC N D hN hD hc x hxC).1 h2
      exact ⟨true, by simp, by simp [this]⟩
    | false =>
      have hfit := (wouldOverflow_false_iff _ hC N D hN hD hc x hxC).1 h2
      obtain ⟨ha, hq⟩ := applyMag_of_fits _ hC N D hD x hfit
      rw [ha]
      refine ⟨castOverflowII (IntTy.common S T) T (Int.tdiv (x * N) D), by simp, ?_⟩
      rw [castOverflowII_iff _ T hC hT _ hq]
      simp [hxC, hfit]

/-- **C05, "overflow only if real".**  For integral sources and targets, overflow is reported only
when some step's exact value really leaves that step's range. -/
theorem C05_overflow_only_if_real (S T : IntTy) (hS : S ∈ IntTy.all) (hT : T ∈ IntTy.all) (N D : Nat)
    (hN : 0 < N) (hD : 0 < D) (hc : compiles (IntTy.common S T) N D = true) (x : Int)
    (hx : S.inRange x) (h : ovfTII S T N D x = .ok true) : ¬ StagesFit S T N D x := by
  obtain ⟨b, hb, hiff⟩ := C05_overflow_iff_int S T hS hT N D hN hD hc x hx
  rw [hb] at h
  cases h
  exact hiff.1 rfl

/-- Non-vacuity: int16 → uint8, factor 3/2: x = 100 overflows only in the last cast (150 fits the
common type `int`, and 150 ≤ 255 — so no overflow), x = 200 gives 300 > 255: reported. -/
example : ovfTII i16 u8 3 2 100 = .ok false ∧ StagesFit i16 u8 3 2 100 ∧
    ovfTII i16 u8 3 2 200 = .ok true ∧ ¬ StagesFit i16 u8 3 2 200 := by decide

/-- **C05, soundness of the pipeline, integral reps.**  If `is_conversion_lossy<T>` is false, then
the source value is in the common type's range (the first cast changes nothing), the product by the
numerator is in the promoted type's range, no unsigned intermediate wraps, the exact quotient is an
integer `q` in the range of the common type and of `T`, no cast narrows, and
`coerce_in<T>` / `as<T>` return exactly `q = x·N/D`. -/
theorem C05_pipeline_sound_int (S T : IntTy) (hS : S ∈ IntTy.all) (hT : T ∈ IntTy.all) (N D : Nat)
    (hN : 0 < N) (hD : 0 < D) (hc : compiles (IntTy.common S T) N D = true) (x : Int)
    (hx : S.inRange x) (hl : lossyTII S T N D x = .ok false) :
    ∃ q : Int, coerceII S T N D x = ⟨.ok (.i q), false, false, false, false⟩ ∧ q * D = x * N ∧
      StagesFit S T N D x ∧ (IntTy.common S T).inRange q ∧ T.inRange q := by
  have hC := common_mem S T hS hT
  -- split `lossy = trunc || ovf`
  have htr : truncTII S T N D x = .ok false := by
    unfold lossyTII lossyOf at hl
    split at hl
    · cases hl
    · cases hl
    · assumption
  have hov : ovfTII S T N D x = .ok false := by
    unfold lossyTII lossyOf at hl
    rw [htr] at hl
    exact hl
  obtain ⟨b, hb, hiff⟩ := C05_overflow_iff_int S T hS hT N D hN hD hc x hx
  rw [hb] at hov
  have hbf : b = false := by cases hov; rfl
  have hfit : StagesFit S T N D x := by
    by_cases h : StagesFit S T N D x
    · exact h
    · have := hiff.2 h; rw [hbf] at this; cases this
  obtain ⟨hxC, hef, hqT⟩ := hfit
  -- truncation stage 2 (on the unchanged value)
  have hw : (IntTy.common S T).wrap x = x := wrap_of_inRange _ hC x hxC
  have hnt : wouldTruncate (IntTy.common S T) N D x = false := by
    unfold truncTII at htr
    simp only [hw] at htr
    cases h : wouldTruncate (IntTy.common S T) N D x with
    | false => rfl
    | true => rw [h] at htr; simp at htr
  have hint : (D : Int) ∣ x * N := C04_truncate_sound _ N D x hnt
  obtain ⟨ha, hqC⟩ := applyMag_of_fits _ hC N D hD x hef
  obtain ⟨q, hq⟩ := hint
  have hD' : (D : Int) ≠ 0 := by omega
  have htd : Int.tdiv (x * N) D = q := by rw [hq]; exact Int.mul_tdiv_cancel_left _ hD'
  rw [htd] at ha hqC hqT
  refine ⟨q, ?_, by rw [hq, Int.mul_comm], ⟨hxC, hef, by rw [htd]; exact hqT⟩, hqC, hqT⟩
  unfold coerceII
  simp only [hw, ha, wrap_of_inRange T hT q hqT]
  simp

/-- Non-vacuity: uint16 37000 × 7/4 → int32: common type `int`, product 259000, result 64750. -/
example : lossyTII u16 i32 7 4 37000 = .ok false ∧
    coerceII u16 i32 7 4 37000 = ⟨.ok (.i 64750), false, false, false, false⟩ := by decide

/-- Non-vacuity with a narrowing target: int64 → int8, factor 1/1000, x = −127000. -/
example : lossyTII i64 i8 1 1000 (-127000) = .ok false ∧
    coerceII i64 i8 1 1000 (-127000) = ⟨.ok (.i (-127)), false, false, false, false⟩ := by decide

/-- **C05, no false alarm, integral reps.**  If every stage's exact value is in range and `x·N/D`
is an integer, the conversion is not reported lossy. -/
theorem C05_no_false_alarm_int (S T : IntTy) (hS : S ∈ IntTy.all) (hT : T ∈ IntTy.all) (N D : Nat)
    (hN : 0 < N) (hD : 0 < D) (hcop : Nat.Coprime D N) (hc : compiles (IntTy.common S T) N D = true)
    (x : Int) (hx : S.inRange x) (hfit : StagesFit S T N D x) (hint : ExactInteger N D x) :
    lossyTII S T N D x = .ok false := by
  have hC := common_mem S T hS hT
  obtain ⟨b, hb, hiff⟩ := C05_overflow_iff_int S T hS hT N D hN hD hc x hx
  have hbf : b = false := by
    cases b with
    | false => rfl
    | true => exact absurd hfit (hiff.1 rfl)
  obtain ⟨hxC, hef, hqT⟩ := hfit
  have hw : (IntTy.common S T).wrap x = x := wrap_of_inRange _ hC x hxC
  have hnt : wouldTruncate (IntTy.common S T) N D x = false := by
    cases h : wouldTruncate (IntTy.common S T) N D x with
    | false => rfl
    | true => exact absurd hint ((C04_truncate_iff _ N D hcop hc x).1 h)
  obtain ⟨ha, _⟩ := applyMag_of_fits _ hC N D hD x hef
  have htr : truncTII S T N D x = .ok false := by
    unfold truncTII
    simp only [hw, hnt, ha]
    simp
  unfold lossyTII lossyOf
  rw [htr, hb, hbf]

/-! ### The checkers' own evaluation (an observation outside the statement of C05: the property only
constrains inputs for which `is_conversion_lossy<T>` is false) -/

/-- Remark (not a property-level claim): "the `<T>` checkers never evaluate anything undefined" is FALSE on the code:
`will_conversion_truncate<T>` evaluates `coerce_in` on the common-type value without having checked
overflow first. -/
def C05_checkers_ub_free_full : Prop :=
  ∀ (S T : IntTy), S ∈ IntTy.all → T ∈ IntTy.all → ∀ (N D : Nat), 0 < N → 0 < D →
    compiles (IntTy.common S T) N D = true → ∀ x : Int, S.inRange x →
    ∃ b, truncTII S T N D x = .ok b

/-- Counterexample (reproduced on the real code under UBSan): `int32_t` 2^30 × 3/2 → `int32_t`:
the truncation checker computes 2^30·3 in `int`. -/
theorem C05_checkers_ub_free_counterexample : ¬ C05_checkers_ub_free_full := by
  intro h
  obtain ⟨b, hb⟩ := h i32 i32 (by decide) (by decide) 3 2 (by decide) (by decide) (by decide)
    (2 ^ 30) (by decide)
  revert hb
  have : truncTII i32 i32 3 2 (2 ^ 30) = .ub "signed overflow in multiplication" := by decide
  rw [this]
  intro hb; cases hb

/-- Partial version (strongest true one): the truncation checker evaluates something undefined only
on inputs for which `will_conversion_overflow<T>` reports overflow — so whatever a non-trapping
evaluation returns, `is_conversion_lossy<T>` is true there. -/
theorem C05_checkers_ub_only_if_overflow (S T : IntTy) (hS : S ∈ IntTy.all) (hT : T ∈ IntTy.all)
    (N D : Nat) (hN : 0 < N) (hD : 0 < D) (hc : compiles (IntTy.common S T) N D = true) (x : Int)
    (hx : S.inRange x) (w : String) (h : truncTII S T N D x = .ub w) :
    ovfTII S T N D x = .ok true := by
  have hC := common_mem S T hS hT
  obtain ⟨b, hb, hiff⟩ := C05_overflow_iff_int S T hS hT N D hN hD hc x hx
  cases b with
  | true => exact hb
  | false =>
    exfalso
    have hfit : StagesFit S T N D x := by
      by_cases h' : StagesFit S T N D x
      · exact h'
      · have := hiff.2 h'; cases this
    obtain ⟨hxC, hef, _⟩ := hfit
    have hw : (IntTy.common S T).wrap x = x := wrap_of_inRange _ hC x hxC
    obtain ⟨ha, _⟩ := applyMag_of_fits _ hC N D hD x hef
    unfold truncTII at h
    simp only [hw, ha] at h
    split at h <;> cases h

/-- The same for everything an exact-count sanitizer build can observe inside the truncation
checker — signed overflow *or* unsigned wrap-around (`truncCheckerEvent`): it happens only on inputs
for which `will_conversion_overflow<T>` reports overflow.  (Tied to the real code value by value in
the `exact` configuration of tools/p_c05.py.) -/
theorem C05_checker_event_only_if_overflow (S T : IntTy) (hS : S ∈ IntTy.all) (hT : T ∈ IntTy.all)
    (N D : Nat) (hN : 0 < N) (hD : 0 < D) (hc : compiles (IntTy.common S T) N D = true) (x : Int)
    (hx : S.inRange x) (h : truncCheckerEvent S T N D x = true) :
    ovfTII S T N D x = .ok true := by
  have hC := common_mem S T hS hT
  obtain ⟨b, hb, hiff⟩ := C05_overflow_iff_int S T hS hT N D hN hD hc x hx
  cases b with
  | true => exact hb
  | false =>
    exfalso
    have hfit : StagesFit S T N D x := by
      by_cases h' : StagesFit S T N D x
      · exact h'
      · have := hiff.2 h'; cases this
    obtain ⟨hxC, hef, _⟩ := hfit
    have hw : (IntTy.common S T).wrap x = x := wrap_of_inRange _ hC x hxC
    obtain ⟨ha, _⟩ := applyMag_of_fits _ hC N D hD x hef
    unfold truncCheckerEvent at h
    simp only [hw, ha] at h
    split at h <;> simp at h

example : truncCheckerEvent i8 u32 4294967295 4294967294 (-2) = true ∧
    truncCheckerEvent i32 i32 3 2 (2 ^ 30) = true ∧ truncCheckerEvent i32 i32 3 2 1000 = false := by decide

/-! ## Floating → integral: the static_cast checkers on an arbitrary floating value

All statements quantify over **every** `x : Flt` — NaN, ±inf and `fin q` for every rational `q`,
representable or not — which is stronger than "every value of the floating type". -/

theorem flt_all_cases (f : FltTy) (hf : f ∈ FltTy.all) : f = f32 ∨ f = f64 ∨ f = f80 := by
  simpa [FltTy.all] using hf

/-- The limits the float → integer overflow checker compares against, for all 24 (F, I) pairs,
obtained by evaluating the model's `static_cast<F>(numeric_limits<I>::lowest()/max())`: the lower
limit is always exact; the upper limit is `max(I)` unless `max_rounds_up` (F has fewer digits than
I), in which case it is `max(I) + 1` (a power of two).  (`AuProofs.Gen.C05` checks the same constants
against the compiler's on every run.) -/
theorem castLim_table : ∀ F ∈ FltTy.all, ∀ I ∈ IntTy.all,
    castLimLo F (.int I) = .fin ((I.lo : Int) : Rat) ∧
    castLimHi F (.int I) =
      .fin ((if maxRoundsUp F (.int I) then I.hi + 1 else I.hi : Int) : Rat) := by
  decide +kernel

/-- Which pairs round up: `float` → 32/64-bit, `double` → 64-bit (the former finding F5); for
`long double` none. -/
theorem C05_maxRoundsUp_pairs :
    (∀ I ∈ IntTy.all, maxRoundsUp f80 (.int I) = false) ∧
    (∀ I ∈ [i8, u8, i16, u16, i32, u32], maxRoundsUp f64 (.int I) = false) ∧
    (∀ I ∈ [i8, u8, i16, u16], maxRoundsUp f32 (.int I) = false) ∧
    (∀ I ∈ [i32, u32, i64, u64], maxRoundsUp f32 (.int I) = true) ∧
    (∀ I ∈ [i64, u64], maxRoundsUp f64 (.int I) = true) := by
  decide

/-- **C05, floating → integral (full strength, after the fix of F5).**  For all 24 pairs `(F, I)`
and for *every* floating value (NaN, ±inf, any rational): a value flagged neither by
`will_static_cast_overflow<I>` nor by `will_static_cast_truncate<I>` is an integer within the range
of `I` — so the cast is well-defined and value-preserving. -/
theorem C05_float_to_int_sound (F : FltTy) (hF : F ∈ FltTy.all) (I : IntTy) (hI : I ∈ IntTy.all)
    (x : Flt) (ho : willCastOverflow (.flt F) (.int I) (.f x) = false)
    (ht : willCastTruncate (.flt F) (.int I) (.f x) = false) :
    ∃ n : Int, x = .fin (n : Rat) ∧ I.inRange n := by
  obtain ⟨hlo, hhi⟩ := castLim_table F hF I hI
  have hcat : categorizeOverflow (.flt F) (.int I) = .floatToAnything := rfl
  have htc : categorizeTruncation (.flt F) (.int I) = .floatToIntegral := by
    simp [categorizeTruncation]
  simp only [willCastOverflow, castOverflowF] at ho
  rw [hcat, hlo, hhi] at ho
  unfold willCastTruncate at ht
  rw [htc] at ht
  simp only [] at ho ht
  cases x with
  | nan => simp [Flt.trunc, Flt.ne] at ht
  | inf s => cases s <;> cases maxRoundsUp F (.int I) <;> simp [Flt.lt, Flt.gt, Flt.ge, Flt.le] at ho
  | fin q =>
    simp only [Flt.trunc, Flt.ne, decide_eq_false_iff_not, Decidable.not_not] at ht
    refine ⟨Int.tdiv q.num q.den, by rw [ht], ?_⟩
    rw [← ht] at ho
    unfold IntTy.inRange
    cases hru : maxRoundsUp F (.int I) with
    | false =>
      simp only [hru, Flt.lt, Flt.gt, Bool.or_eq_false_iff, decide_eq_false_iff_not, if_false,
        Bool.false_eq_true] at ho
      rw [Rat.intCast_lt_intCast, Rat.intCast_lt_intCast] at ho
      omega
    | true =>
      simp only [hru, Flt.lt, Flt.ge, Flt.le, Bool.or_eq_false_iff, decide_eq_false_iff_not, if_true,
        Bool.not_eq_false', decide_eq_true_eq] at ho
      rw [Rat.intCast_lt_intCast, Rat.intCast_lt_intCast] at ho
      omega

/-- "Values that cannot be cast to an integral target (out of range, non-integers, infinities, NaN)
are always reported": contrapositive, all 24 pairs. -/
theorem C05_uncastable_is_flagged (F : FltTy) (hF : F ∈ FltTy.all) (I : IntTy)
    (hI : I ∈ IntTy.all) (x : Flt) (h : ¬ ∃ n : Int, x = .fin (n : Rat) ∧ I.inRange n) :
    willCastOverflow (.flt F) (.int I) (.f x) = true ∨ willCastTruncate (.flt F) (.int I) (.f x) = true := by
  cases ho : willCastOverflow (.flt F) (.int I) (.f x) with
  | true => exact Or.inl rfl
  | false =>
    cases ht : willCastTruncate (.flt F) (.int I) (.f x) with
    | true => exact Or.inr rfl
    | false => exact absurd (C05_float_to_int_sound F hF I hI x ho ht) h

/-- Regression guard for F5 (fixed by commit fba9acf): the formerly missed values are flagged, their
lower neighbours are not. -/
theorem C05_F5_fixed :
    willCastOverflow (.flt f32) (.int i32) (.f (.fin 2147483648)) = true ∧
    willCastOverflow (.flt f32) (.int i32) (.f (.fin 2147483520)) = false ∧
    willCastOverflow (.flt f32) (.int u64) (.f (.fin 18446744073709551616)) = true ∧
    willCastOverflow (.flt f64) (.int i64) (.f (.fin 9223372036854775808)) = true ∧
    willCastOverflow (.flt f64) (.int i64) (.f (.fin 9223372036854774784)) = false ∧
    lossyT (.flt f32) (.int i32) ⟨1, 1, []⟩ (.f (.fin 2147483648)) = .ok true := by
  decide +kernel

/-- Non-vacuity: `double` → `int32_t`: 2147483647.0 passes, 2147483648.0, 0.5, NaN and +inf are
flagged. -/
example :
    willCastOverflow (.flt f64) (.int i32) (.f (.fin 2147483647)) = false ∧
    willCastTruncate (.flt f64) (.int i32) (.f (.fin 2147483647)) = false ∧
    willCastOverflow (.flt f64) (.int i32) (.f (.fin 2147483648)) = true ∧
    willCastTruncate (.flt f64) (.int i32) (.f (.fin (1/2))) = true ∧
    willCastTruncate (.flt f64) (.int i32) (.f .nan) = true ∧
    willCastOverflow (.flt f64) (.int i32) (.f (.inf false)) = true := by
  decide +kernel

/-! ## The pipeline with a floating source and an integral target -/

theorem truncInt_intCast (n : Int) : Flt.truncInt (n : Rat) = n := by
  unfold Flt.truncInt
  simp

/-- **C05, pipeline, floating source → integral target (full strength, all 24 pairs).**  If
`is_conversion_lossy<I>` is false, then the value computed in the common (floating) type is an
integer `n` in the range of `I`, the final cast is well-defined, and `coerce_in<I>` returns `n` —
"the value-preserving cast of the computed floating result". -/
theorem C05_pipeline_sound_float_to_int (F : FltTy) (hF : F ∈ FltTy.all) (I : IntTy)
    (hI : I ∈ IntTy.all) (k : Factor) (x : Flt)
    (hl : lossyT (.flt F) (.int I) k (.f x) = .ok false) :
    ∃ n : Int, midF F k (.f x) = some (.fin (n : Rat)) ∧ I.inRange n ∧
      (coerceT (.flt F) (.int I) k (.f x)).val = .ok (.i n) := by
  have hcF : castOverflowF F (.flt F) x = false := by
    unfold castOverflowF categorizeOverflow; simp
  have htF : willCastTruncate (.flt F) (.flt F) (.f x) = false := by
    unfold willCastTruncate categorizeTruncation; simp
  have hov : ovfT (.flt F) (.int I) k (.f x) =
      (if fltWouldOverflow F k (Flt.cast F x) then .ok true
       else .ok (willCastOverflow (.flt F) (.int I) (.f (fltApply F k (Flt.cast F x))))) := by
    simp [ovfT, ArithTy.common, ovfTF, willCastOverflow, hcF, castNum]
  have htr : truncT (.flt F) (.int I) k (.f x) =
      (if fltWouldTruncate F k (Flt.cast F x) then .ok true
       else .ok (willCastTruncate (.flt F) (.int I) (.f (fltApply F k (Flt.cast F x))))) := by
    simp [truncT, ArithTy.common, truncTF, htF, castNum]
  have hmid : midF F k (.f x) = some (fltApply F k (Flt.cast F x)) := by
    simp [midF, castNum]
  unfold lossyT lossyOf at hl
  rw [htr, hov] at hl
  have h3 : willCastTruncate (.flt F) (.int I) (.f (fltApply F k (Flt.cast F x))) = false ∧
      willCastOverflow (.flt F) (.int I) (.f (fltApply F k (Flt.cast F x))) = false := by
    by_cases a : fltWouldTruncate F k (Flt.cast F x) = true
    · simp [a] at hl
    · by_cases b : fltWouldOverflow F k (Flt.cast F x) = true
      · simp [a, b] at hl
        cases c : willCastTruncate (ArithTy.flt F) (ArithTy.int I) (Num.f (fltApply F k (Flt.cast F x))) <;> simp [c] at hl
      · simp [a, b] at hl
        cases c : willCastTruncate (ArithTy.flt F) (ArithTy.int I) (Num.f (fltApply F k (Flt.cast F x))) with
        | true => simp [c] at hl
        | false => simp [c] at hl; exact ⟨rfl, hl⟩
  obtain ⟨n, hn, hr⟩ := C05_float_to_int_sound F hF I hI _ h3.2 h3.1
  refine ⟨n, by rw [hmid, hn], hr, ?_⟩
  simp only [coerceT, ArithTy.common, coerceF, hmid, hn, castNum, Flt.toInt?, truncInt_intCast]
  simp [hr]

/-- Non-vacuity: `double` 6.0 × 5/3 → `int8_t` gives 10; `float` 2147483520 → `int32_t` (an F5
pair) is cleared and converted exactly. -/
example :
    lossyT (.flt f64) (.int i8) ⟨5, 3, [(3, -1), (5, 1)]⟩ (.f (.fin 6)) = .ok false ∧
    (coerceT (.flt f64) (.int i8) ⟨5, 3, [(3, -1), (5, 1)]⟩ (.f (.fin 6))).val = .ok (.i 10) ∧
    lossyT (.flt f32) (.int i32) ⟨1, 1, []⟩ (.f (.fin 2147483520)) = .ok false ∧
    (coerceT (.flt f32) (.int i32) ⟨1, 1, []⟩ (.f (.fin 2147483520))).val = .ok (.i 2147483520) := by
  decide +kernel

/-! ## Integral → floating: exactness of the cast (finding F9) -/

/-- Full (literal) statement: converting an integer to a floating rep preserves its value.  FALSE
(and by library convention never reported): F9. -/
def C05_int_to_float_exact_full : Prop :=
  ∀ S ∈ IntTy.all, ∀ F ∈ FltTy.all, ∀ x : Int, S.inRange x → Flt.ofInt F x = .fin (x : Rat)

theorem C05_int_to_float_counterexample : ¬ C05_int_to_float_exact_full := by
  intro h
  have := h i64 (by decide) f64 (by decide) (2 ^ 53 + 1) (by decide)
  revert this
  decide +kernel

/-- The pipeline on the F9 witness: `int64_t` 2^53+1 → `double`, factor 1: not lossy, result 2^53. -/
theorem C05_pipeline_F9_counterexample :
    lossyT (.int i64) (.flt f64) ⟨1, 1, []⟩ (.i (2 ^ 53 + 1)) = .ok false ∧
    (coerceT (.int i64) (.flt f64) ⟨1, 1, []⟩ (.i (2 ^ 53 + 1))).val = .ok (.f (.fin (2 ^ 53 : Int))) := by
  decide +kernel

/-- **C05, integral → floating, partial.**  Every integer with `|x| ≤ 2^digits(F)` is converted
exactly — proved about the rounding function itself, for all such `x`. -/
theorem C05_int_to_float_exact_partial (F : FltTy) (hF : F ∈ FltTy.all) (x : Int)
    (h : x.natAbs ≤ 2 ^ F.prec) : Flt.ofInt F x = .fin (x : Rat) := by
  obtain ⟨h1, h2, h3⟩ := fmt_facts F hF
  exact ofInt_exact F h1 h2 h3 x h

/-- Consequently the cast is exact on the whole range of every integer type that is no wider than
the significand: all 8/16-bit types into every floating rep, 32-bit types into `double` and
`long double`, 64-bit types into `long double`. -/
theorem C05_int_to_float_exact_types (S : IntTy) (hS : S ∈ IntTy.all) (F : FltTy) (hF : F ∈ FltTy.all)
    (hw : S.bits ≤ F.prec) (x : Int) (hx : S.inRange x) : Flt.ofInt F x = .fin (x : Rat) := by
  apply C05_int_to_float_exact_partial F hF
  rcases all_cases S hS with rfl|rfl|rfl|rfl|rfl|rfl|rfl|rfl <;>
    (simp only [IntTy.inRange, IntTy.lo, IntTy.hi, i8, u8, i16, u16, i32, u32, i64, u64] at hx hw
     have hpow := Nat.pow_le_pow_right (by decide : 0 < 2) hw
     simp at hx hpow
     omega)

example : Flt.ofInt f32 16777216 = .fin 16777216 ∧ Flt.ofInt f32 16777217 ≠ .fin 16777217 := by
  decide +kernel

/-! ## Floating → narrower floating -/

theorem castLimFF_table : ∀ p ∈ [(f64, f32), (f80, f32), (f80, f64)],
    categorizeOverflow (.flt p.1) (.flt p.2) = .floatToAnything ∧
    castLimLo p.1 (.flt p.2) = .fin (-p.2.maxFinite) ∧
    castLimHi p.1 (.flt p.2) = .fin p.2.maxFinite := by
  decide +kernel

/-- **C05, narrowing floating casts.**  `double → float`, `long double → float`,
`long double → double`: a value that `will_static_cast_overflow` does not flag is NaN or a finite
value within `[lowest(Dest), max(Dest)]`, and its cast to `Dest` is finite (proved about the rounding
function: a rational of magnitude at most `max` never rounds to infinity).  ±inf is always flagged. -/
theorem C05_float_narrowing_sound (S D : FltTy)
    (hp : (S, D) ∈ [(f64, f32), (f80, f32), (f80, f64)]) (x : Flt)
    (ho : willCastOverflow (.flt S) (.flt D) (.f x) = false) :
    x = .nan ∨ ∃ q r : Rat, x = .fin q ∧ Flt.cast D x = .fin r := by
  obtain ⟨hcat, hlo, hhi⟩ := castLimFF_table (S, D) hp
  have hD : D ∈ FltTy.all := by
    simp only [List.mem_cons, Prod.mk.injEq, List.mem_nil_iff, or_false] at hp
    rcases hp with ⟨_, rfl⟩ | ⟨_, rfl⟩ | ⟨_, rfl⟩ <;> decide
  obtain ⟨h1, h2, h3⟩ := fmt_facts2 D hD
  simp only [willCastOverflow, castOverflowF] at ho
  simp only [] at hcat hlo hhi
  rw [hcat, hlo, hhi] at ho
  simp only [maxRoundsUp, Bool.false_eq_true, if_false] at ho
  cases x with
  | nan => exact Or.inl rfl
  | inf s => cases s <;> simp [Flt.lt, Flt.gt] at ho
  | fin q =>
    simp only [Flt.lt, Flt.gt, Bool.or_eq_false_iff, decide_eq_false_iff_not, Rat.not_lt] at ho
    obtain ⟨r, hr⟩ := rne_finite D h1 h2 h3 q ho.1 ho.2
    exact Or.inr ⟨q, r, rfl, hr⟩

/-! ## Floating common type: the scaling step itself (finding F18) -/

/-- Full statement: a finite floating input that is not reported lossy is scaled to a finite value
("every … scaling step is … in range").  FALSE on the code: the overflow check compares `x` against
the *rounded* quotient `max / mag`; when that quotient was rounded up, `x` equal to it passes the
check while `x * mag` rounds to infinity.  (The accuracy of the floating overflow check is the
floating clause of C04; no error-bound theorem is proved here.) -/
def C05_float_scaling_in_range_full : Prop :=
  ∀ F ∈ FltTy.all, ∀ k : Factor, k.wf = true → ∀ q : Rat, rne F q = .fin q →
    lossyT (.flt F) (.flt F) k (.f (.fin q)) = .ok false →
    ∃ r : Rat, midF F k (.f (.fin q)) = some (.fin r)

/-- Counterexample (reproduced on the real code): `float` 1082401·2^103 × 31 (the same happens at
`float` 0x1.12e0bep+98 × 10^9, found by the correspondence run). -/
theorem C05_float_scaling_counterexample : ¬ C05_float_scaling_in_range_full := by
  intro h
  obtain ⟨r, hr⟩ := h f32 (by decide) ⟨31, 1, [(31, 1)]⟩ (by decide +kernel)
    ((1082401 : Rat) * pow2 103) (by decide +kernel) (by decide +kernel)
  have hm : midF f32 ⟨31, 1, [(31, 1)]⟩ (.f (.fin ((1082401 : Rat) * pow2 103))) =
      some (.inf false) := by decide +kernel
  rw [hm] at hr
  cases hr


theorem flt_identity_facts : ∀ F ∈ FltTy.all,
    Flt.div F (Flt.maxOf F) (.fin 1) = Flt.maxOf F ∧
    Flt.div F (Flt.lowestOf F) (.fin 1) = Flt.lowestOf F ∧
    gvFlt F [] = some (.fin 1) := by
  decide +kernel

/-- **C05, integral → floating, pure change of rep (factor 1), partial.**  For `|x| ≤ 2^digits(F)`
the conversion is not reported lossy (rightly) and returns exactly `x`. -/
theorem C05_pipeline_int_to_float_identity (S : IntTy) (F : FltTy) (hF : F ∈ FltTy.all) (x : Int)
    (h : x.natAbs ≤ 2 ^ F.prec) :
    lossyT (.int S) (.flt F) ⟨1, 1, []⟩ (.i x) = .ok false ∧
    (coerceT (.int S) (.flt F) ⟨1, 1, []⟩ (.i x)).val = .ok (.f (.fin (x : Rat))) := by
  have hx : Flt.ofInt F x = .fin (x : Rat) := C05_int_to_float_exact_partial F hF x h
  have hr : rne F (x : Rat) = .fin (x : Rat) := hx
  obtain ⟨_, hmax, _⟩ := fmt_facts F hF
  obtain ⟨hd1, hd2, hgv⟩ := flt_identity_facts F hF
  have hcat : categorize 1 1 = .intMul := rfl
  have hM1 : ¬ (F.maxFinite < (x : Rat)) := by
    unfold maxFinite
    rw [Rat.not_lt, ← Rat.intCast_natCast, Rat.intCast_le_intCast]
    omega
  have hM2 : ¬ ((x : Rat) < -F.maxFinite) := by
    unfold maxFinite
    rw [Rat.not_lt, ← Rat.intCast_natCast, ← Rat.intCast_neg, Rat.intCast_le_intCast]
    omega
  have hnoovf : fltWouldOverflow F ⟨1, 1, []⟩ (.fin (x : Rat)) = false := by
    simp only [Flt.maxOf, Flt.lowestOf] at hd1 hd2
    simp only [fltWouldOverflow, hcat, hgv, fltWouldProductOverflow, Flt.maxOf, Flt.lowestOf, hd1, hd2,
      Flt.gt, Flt.lt, hM1, hM2, decide_false, Bool.or_false]
  have happ : fltApply F ⟨1, 1, []⟩ (.fin (x : Rat)) = .fin (x : Rat) := by
    simp only [fltApply, hcat, hgv, Option.getD_some, Flt.mul, Rat.mul_one, hr]
  have hcF : ∀ v, castOverflowF F (.flt F) v = false := by
    intro v; unfold castOverflowF categorizeOverflow; simp
  have htF : ∀ v, willCastTruncate (.flt F) (.flt F) v = false := by
    intro v; unfold willCastTruncate categorizeTruncation; simp
  have hov : ovfT (.int S) (.flt F) ⟨1, 1, []⟩ (.i x) = .ok false := by
    simp [ovfT, ArithTy.common, ovfTF, willCastOverflow, castNum, hx, hnoovf, happ, hcF]
  have htr : truncT (.int S) (.flt F) ⟨1, 1, []⟩ (.i x) = .ok false := by
    have h1 : willCastTruncate (.int S) (.flt F) (.i x) = false := by
      unfold willCastTruncate categorizeTruncation; simp
    simp [truncT, ArithTy.common, truncTF, h1, castNum, hx, fltWouldTruncate, hcat, happ, htF]
  refine ⟨by unfold lossyT lossyOf; rw [htr, hov], ?_⟩
  simp [coerceT, ArithTy.common, coerceF, midF, castNum, hx, happ, Flt.cast, hr]

/-- Every ordered pair of the eleven reps is handled by the static_cast checkers (no `UNEXPLORED`
situation, which would be a compile error). -/
theorem C05_cast_checkable : ∀ s ∈ ArithTy.all, ∀ d ∈ ArithTy.all, castCheckable s d = true := by
  decide +kernel

end Au

import AuModel.Policy
import AuProofs.C11
import AuProofs.Lemmas.FltPipeline
namespace Au

/-! # C06 — the implicit-conversion policy is total and as documented -/

/-- **Totality.**  The policy is a total Boolean function of (same-dimension?, target rep, scale
factor, source rep): by construction of the model every input has an answer, and — on the tree
after the `fix:` commit for F2 — the model's only partial operation (`get_value<Rep>` of the scale
factor) has been replaced by the total `get_value_result`.  (That the *implementation* never
hard-errors is the correspondence part of the check: a trait question that fails to compile is a
violation.) -/
theorem C06_total (sameDim : Bool) (rep : Rep) (sf : Mag) (src : Rep) :
    permitImplicitFrom sameDim rep sf src = true ∨ permitImplicitFrom sameDim rep sf src = false := by
  cases permitImplicitFrom sameDim rep sf src <;> simp

/-- Floating-point targets accept every same-dimension source. -/
theorem C06_float_target (sameDim : Bool) (f : FltTy) (sf : Mag) (src : Rep) :
    permitImplicitFrom sameDim (.flt f) sf src = sameDim := by
  unfold permitImplicitFrom corePolicy
  by_cases h : Rep.flt f = src ∧ sf = [] <;> simp [h]

/-- The one fact about the *double* evaluation the policy relies on: an integer magnitude evaluates
to a `double` ≤ 1.0 only when it is ONE.  It is a statement about the rounded floating pipeline and
is validated by the bit-exact float correspondence of C11 and by every integer ratio of this
check's grid; it is an explicit hypothesis of the formula theorem, not an axiom. -/
def DoubleLeOneOnlyForOne (sf : Mag) : Prop := magAsDoubleLeOne sf = true → sf = []

/-- The threshold test is the documented inequality `2147 · k ≤ max(R2)`. -/
theorem canScaleThreshold_iff (t : IntTy) (ht : t ∈ IntTy.all) (sf : Mag)
    (hpos : ∀ a ∈ sf, ∀ p, a.1 = .prime p → 1 ≤ p) (hint : Mag.isIntegerMag sf = true)
    (hd : DoubleLeOneOnlyForOne sf) :
    canScaleThreshold t sf = true ↔ overflowThreshold * Mag.natValue sf ≤ t.hi := by
  have hk1 : 1 ≤ Mag.natValue sf := by
    unfold Mag.natValue
    apply listProd_ge_one
    intro x hx; rcases List.mem_map.1 hx with ⟨a, ha, rfl⟩
    exact bpExact_ge_one a (intElem_of_isInteger sf hpos hint a ha)
  have hhi := hi_nonneg t ht
  have hlo := lo_nonpos t ht
  unfold canScaleThreshold canScaleWithoutOverflow
  by_cases hone : magAsDoubleLeOne sf = true
  · -- only ONE: k = 1
    have hnil := hd hone
    subst hnil
    simp only [hone, if_true, Bool.and_true, decide_eq_true_eq]
    have : Mag.natValue ([] : Mag) = 1 := rfl
    rw [this]
    unfold IntTy.inRange overflowThreshold
    constructor
    · intro h; omega
    · intro h; unfold overflowThreshold at *; constructor <;> omega
  · simp only [hone, Bool.false_eq_true, if_false]
    have hspec := C11_integral t ht sf hpos
    cases hg : getValueResultInt t sf with
    | mk o k =>
      cases o with
      | ok =>
        have := (hspec k).1 hg
        obtain ⟨_, hle, hk⟩ := this
        subst hk
        simp only [Bool.and_eq_true, decide_eq_true_eq]
        have hthr := thr_pos t.hi (Mag.natValue sf) overflowThreshold (by omega) hhi
        constructor
        · intro ⟨_, h⟩; exact hthr.1 h
        · intro h
          refine ⟨?_, hthr.2 h⟩
          unfold IntTy.inRange
          unfold overflowThreshold at *
          constructor
          · omega
          · nlinarith
      | errNonInteger | errInvalidRoot | errCannotFit =>
        simp only [Bool.and_false, Bool.false_eq_true, false_iff]
        intro h
        -- the value would fit, so get_value_result would have been OK
        have hfit : Mag.natValue sf ≤ t.hi := by unfold overflowThreshold at h; nlinarith
        have := (hspec (Mag.natValue sf)).2 ⟨hint, hfit, rfl⟩
        rw [hg] at this
        cases this

/-- (Conditional form, kept: the float-pipeline fact as an explicit hypothesis.)
 **C06 (the documented formula).**  For an integral target `R2`: the conversion is implicitly
permitted exactly when the dimensions match and either the source is integral and `U1/U2` is an
integer `k` with `2147 · k ≤ max(R2)`, or `k = 1` between integral reps. -/
theorem C06_formula_of (sameDim : Bool) (t : IntTy) (ht : t ∈ IntTy.all) (sf : Mag) (src : Rep)
    (hpos : ∀ a ∈ sf, ∀ p, a.1 = .prime p → 1 ≤ p) (hd : DoubleLeOneOnlyForOne sf) :
    permitImplicitFrom sameDim (.int t) sf src = true ↔
      (sameDim = true ∧
        ((src.isInt = true ∧ Mag.isIntegerMag sf = true ∧ overflowThreshold * Mag.natValue sf ≤ t.hi) ∨
         (sf = [] ∧ src.isInt = true))) := by
  unfold permitImplicitFrom corePolicy carveOut
  by_cases hid : Rep.int t = src ∧ sf = []
  · obtain ⟨hs, hn⟩ := hid
    subst hs; subst hn
    simp [Rep.isInt, Rep.isFloat]
  · simp only [hid, if_false]
    by_cases hint : Mag.isIntegerMag sf = true
    · have hc := canScaleThreshold_iff t ht sf hpos hint hd
      cases hct : canScaleThreshold t sf with
      | true =>
        have hle := hc.1 hct
        simp [hint, hle, Rep.isInt, Rep.isFloat]
      | false =>
        have hnle : ¬ (overflowThreshold * Mag.natValue sf ≤ t.hi) := fun h => by
          have := hc.2 h; rw [hct] at this; cases this
        simp [hint, hnle, Rep.isInt, Rep.isFloat]
    · have hf : Mag.isIntegerMag sf = false := by cases h : Mag.isIntegerMag sf <;> simp_all
      simp [hf, Rep.isInt, Rep.isFloat]

/-- The float-pipeline fact is a theorem for every integer magnitude with well-formed prime bases
(`2 ≤ p < 2^64`, what `Prime<N>` guarantees): see `magAsDoubleLeOne_false`. -/
theorem doubleLeOneOnlyForOne (sf : Mag) (hint : Mag.isIntegerMag sf = true) (hok : Mag.PrimesOK sf) :
    DoubleLeOneOnlyForOne sf := by
  intro h
  by_contra hne
  rw [magAsDoubleLeOne_false sf hne hint hok] at h
  cases h

/-- **The documented formula, unconditionally.**  For every integral target rep, every source rep
and every scale factor `sf = U1/U2` whose prime bases are well formed, an implicit conversion is
permitted exactly when the dimensions match and either the source is integral and `U1/U2` is an
integer `k` with `2147 · k ≤ max(R2)`, or `k = 1` between integral reps. -/
theorem C06_formula (sameDim : Bool) (t : IntTy) (ht : t ∈ IntTy.all) (sf : Mag) (src : Rep)
    (hok : Mag.PrimesOK sf) :
    permitImplicitFrom sameDim (.int t) sf src = true ↔
      (sameDim = true ∧
        ((src.isInt = true ∧ Mag.isIntegerMag sf = true ∧ overflowThreshold * Mag.natValue sf ≤ t.hi) ∨
         (sf = [] ∧ src.isInt = true))) := by
  have hpos : ∀ a ∈ sf, ∀ p, a.1 = .prime p → 1 ≤ p := fun a ha p hp => by
    have := (hok a ha p hp).1; omega
  by_cases hint : Mag.isIntegerMag sf = true
  · exact C06_formula_of sameDim t ht sf src hpos (doubleLeOneOnlyForOne sf hint hok)
  · -- non-integer scale factor: the threshold test is never consulted
    have hf : Mag.isIntegerMag sf = false := by cases h : Mag.isIntegerMag sf <;> simp_all
    unfold permitImplicitFrom corePolicy carveOut
    by_cases hid : Rep.int t = src ∧ sf = []
    · obtain ⟨hs, hn⟩ := hid
      subst hs; subst hn
      simp [Rep.isInt, Rep.isFloat]
    · simp only [hid, if_false]
      simp [hf, Rep.isInt, Rep.isFloat]

/-- Non-vacuity: kilo (2^3·5^3) has well-formed bases, is an integer magnitude and is not ONE. -/
example : Mag.PrimesOK [(.prime 2, 3), (.prime 5, 3)] ∧ Mag.isIntegerMag [(.prime 2, 3), (.prime 5, 3)] = true := by
  refine ⟨?_, by decide⟩
  intro a ha p hp
  simp at ha
  rcases ha with rfl | rfl <;> simp at hp <;> subst hp <;> decide

end Au

namespace Au
open IntTy

/-- Consequence: a permitted conversion into an integral rep cannot overflow for any value of
magnitude up to 2147 that the target can hold (the exact product stays in the target's range; that
the library's pipeline then computes exactly this product is C03/C05). -/
theorem C06_no_overflow_up_to_threshold (t : IntTy) (k x : Int) (hk : 1 ≤ k)
    (hperm : overflowThreshold * k ≤ t.hi) (hx : -overflowThreshold ≤ x ∧ x ≤ overflowThreshold)
    (hlo : t.lo = 0 ∨ t.lo = -(t.hi + 1)) (hxr : t.inRange x) : t.inRange (x * k) := by
  unfold IntTy.inRange overflowThreshold at *
  rcases hlo with h0 | h1
  · have hx0 : 0 ≤ x := by omega
    constructor
    · rw [h0]; exact Int.mul_nonneg hx0 (by omega)
    · nlinarith
  · constructor <;> nlinarith

/-- Regression guards for finding F2 (fixed) and non-vacuity: kilo→base in `int32_t` is permitted,
the same in `int16_t` / `int8_t` (and any k > max) answers *false* instead of being a hard error. -/
theorem C06_F2_fixed :
    permitImplicitFrom true (.int i32) [(.prime 2, 3), (.prime 5, 3)] (.int i32) = true ∧
    permitImplicitFrom true (.int i16) [(.prime 2, 5), (.prime 5, 5)] (.int i16) = false ∧
    permitImplicitFrom true (.int i8) [(.prime 2, 3), (.prime 5, 3)] (.int i8) = false ∧
    permitImplicitFrom true (.int i8) [] (.int u64) = true ∧
    permitImplicitFrom true (.int i64) [(.prime 2, -1)] (.int i64) = false := by
  decide +kernel

end Au

import AuModel.CommonUnit
import AuProofs.Lemmas.FlatDedup
import AuProofs.Lemmas.Mag
import AuProofs.Lemmas.Unit
set_option linter.unusedSectionVars false
namespace Au
open Pack

/-! # C07 — the common unit is the gcd unit, symmetric in its inputs -/

/-- `CommonMagnitude<Ms...>` is a lower bound of every input, base by base … -/
theorem commonAll_le : (ms : List Mag) → (∀ m ∈ ms, Valid MagBase.lt m) → ∀ x, ∀ m ∈ ms,
    den (Mag.commonAll ms) x ≤ den m x
  | [], _, _, _, hm => by cases hm
  | [a], _, x, m, hm => by simp at hm; subst hm; exact Rat.le_refl
  | a :: b :: rest, hv, x, m, hm => by
    have hva := hv a (List.mem_cons_self ..)
    have hvr : ∀ m ∈ b :: rest, Valid MagBase.lt m := fun m hm => hv m (List.mem_cons_of_mem _ hm)
    have hcr := Mag.commonAll_valid (b :: rest) hvr
    show den (Mag.common2 a (Mag.commonAll (b :: rest))) x ≤ _
    rw [Mag.common2_den a _ hva.1 hcr.1]
    rcases List.mem_cons.1 hm with rfl | hm
    · grind
    · have := commonAll_le (b :: rest) hvr x m hm; grind

/-- … and is attained by some input at every base (so it is the *greatest* lower bound). -/
theorem commonAll_attained : (ms : List Mag) → (∀ m ∈ ms, Valid MagBase.lt m) → ms ≠ [] → ∀ x,
    ∃ m ∈ ms, den (Mag.commonAll ms) x = den m x
  | [], _, h, _ => absurd rfl h
  | [a], _, _, x => ⟨a, List.mem_cons_self .., rfl⟩
  | a :: b :: rest, hv, _, x => by
    have hva := hv a (List.mem_cons_self ..)
    have hvr : ∀ m ∈ b :: rest, Valid MagBase.lt m := fun m hm => hv m (List.mem_cons_of_mem _ hm)
    have hcr := Mag.commonAll_valid (b :: rest) hvr
    obtain ⟨m, hm, he⟩ := commonAll_attained (b :: rest) hvr (by simp) x
    show ∃ m ∈ a :: b :: rest, den (Mag.common2 a (Mag.commonAll (b :: rest))) x = den m x
    rw [Mag.common2_den a _ hva.1 hcr.1]
    by_cases hle : den a x ≤ den (Mag.commonAll (b :: rest)) x
    · exact ⟨a, List.mem_cons_self .., by grind⟩
    · exact ⟨m, List.mem_cons_of_mem _ hm, by grind⟩

/-- The pairwise ratios of the inputs are rational numbers: integer exponent differences at every
prime and no net power of π. -/
def RationalRatios (ms : List Mag) : Prop :=
  ∀ a ∈ ms, ∀ b ∈ ms, (∀ p, (den a (.prime p) - den b (.prime p)).den = 1) ∧ den a .pi = den b .pi

/-- **C07 (divides).**  Every input is a positive-integer multiple of the common unit: the ratio
`mᵢ / common` has a non-negative exponent at every base, an *integer* exponent at every prime and
exponent 0 at π whenever the pairwise ratios are rational. -/
theorem C07_divides (ms : List Mag) (hv : ∀ m ∈ ms, Valid MagBase.lt m) (m : Mag) (hm : m ∈ ms) :
    (∀ x, 0 ≤ den m x - den (Mag.commonAll ms) x) ∧
    (RationalRatios ms → (∀ p, (den m (.prime p) - den (Mag.commonAll ms) (.prime p)).den = 1) ∧
      den m .pi - den (Mag.commonAll ms) .pi = 0) := by
  have hne : ms ≠ [] := by intro h; rw [h] at hm; cases hm
  refine ⟨fun x => ?_, fun hr => ⟨fun p => ?_, ?_⟩⟩
  · have := commonAll_le ms hv x m hm; grind
  · obtain ⟨m', hm', he⟩ := commonAll_attained ms hv hne (.prime p)
    rw [he]; exact (hr m hm m' hm').1 p
  · obtain ⟨m', hm', he⟩ := commonAll_attained ms hv hne .pi
    rw [he, (hr m hm m' hm').2]; grind

/-- **C07 (greatest).**  No base divides all the ratios: at every base some input has ratio exponent 0,
so the integer ratios are jointly coprime and no larger unit divides every input. -/
theorem C07_greatest (ms : List Mag) (hv : ∀ m ∈ ms, Valid MagBase.lt m) (hne : ms ≠ []) (x : MagBase) :
    ∃ m ∈ ms, den m x - den (Mag.commonAll ms) x = 0 := by
  obtain ⟨m, hm, he⟩ := commonAll_attained ms hv hne x
  exact ⟨m, hm, by rw [he]; grind⟩

/-- **C07 (nesting).**  A common magnitude nested inside another equals the flat one. -/
theorem C07_nesting (a b c : Mag) (ha : Valid MagBase.lt a) (hb : Valid MagBase.lt b) (hc : Valid MagBase.lt c) :
    Mag.commonAll [Mag.commonAll [a, b], c] = Mag.commonAll [a, b, c] := by
  show Mag.common2 (Mag.common2 a b) c = Mag.common2 a (Mag.common2 b c)
  exact Mag.common2_assoc a b c ha hb hc

/-- **C07 (symmetry).**  For *every* strict total order on unit types, the computed common unit — the
complete pipeline `FlatDedupedTypeList → EliminateRedundantUnits → FirstMatchingUnit →
SimplifyIfOnlyOneUnscaledUnit` — is the identical type for any two input lists with the same set
of members: every permutation and every repetition.  No rationality hypothesis: this also covers
irrational ratios. -/
theorem C07_perm {lt : U → U → Bool} (hlt : StrictTotal lt) (env : Env) (us vs : List U)
    (hs : ∀ u ∈ us, SSorted lt u.commonParts) (hs' : ∀ u ∈ vs, SSorted lt u.commonParts)
    (hm : ∀ u, u ∈ us ↔ u ∈ vs) : commonUnit env lt us = commonUnit env lt vs := by
  unfold commonUnit
  have : flatDedup lt (us.map U.commonParts) = flatDedup lt (vs.map U.commonParts) := by
    apply flatDedup_congr hlt
    · intro l hl; rcases List.mem_map.1 hl with ⟨u, hu, rfl⟩; exact hs u hu
    · intro l hl; rcases List.mem_map.1 hl with ⟨u, hu, rfl⟩; exact hs' u hu
    · intro l
      constructor
      · intro hl; rcases List.mem_map.1 hl with ⟨u, hu, rfl⟩; exact List.mem_map.2 ⟨u, (hm u).1 hu, rfl⟩
      · intro hl; rcases List.mem_map.1 hl with ⟨u, hu, rfl⟩; exact List.mem_map.2 ⟨u, (hm u).2 hu, rfl⟩
  rw [this]

/-- **C07 (is an input).**  If some member of the reduced list is quantity-equivalent to the common
unit, the result of `FirstMatchingUnit` is one of the members (not a fresh `CommonUnit<...>`). -/
theorem firstMatching_mem (pred : U → U → Bool) (target : U) :
    (l : List U) → (∃ h ∈ l, pred target h = true) → firstMatching pred target l ∈ l
  | [], h => by obtain ⟨_, hm, _⟩ := h; cases hm
  | a :: t, h => by
    unfold firstMatching
    split
    · exact List.mem_cons_self ..
    · rename_i hna
      obtain ⟨x, hx, hp⟩ := h
      rcases List.mem_cons.1 hx with rfl | hx
      · exact absurd hp hna
      · exact List.mem_cons_of_mem _ (firstMatching_mem pred target t ⟨x, hx, hp⟩)

/-- Non-vacuity: feet (= 2⁻¹·3·5⁻⁴·127 m), inches and metres: the common magnitude is 2⁻²·5⁻⁴ (1/2500 m),
each ratio is a positive integer (381·… ) and they are jointly coprime. -/
example : Mag.commonAll [[(.prime 2, -1), (.prime 3, 1), (.prime 5, -4), (.prime 127, 1)],
                         [(.prime 2, -2), (.prime 5, -4), (.prime 127, 1)], []] =
    [(.prime 2, -2), (.prime 5, -4)] := by decide +kernel

end Au

import AuProofs.Lemmas.CommonUnit
set_option linter.unusedSectionVars false
namespace Au
open Pack

theorem UL.mags_ofList (env : Env) (l : List U) :
    UL.mags env (UL.ofList (l.map (fun u => (u, (1 : Rat))))) = l.map (U.magOf env) := by
  induction l with
  | nil => rfl
  | cons a t ih => simp [UL.ofList, UL.mags, ih]

theorem mkCommon_mag (env : Env) (l : List U) :
    (mkCommon l).magOf env = Mag.commonAll (l.map (U.magOf env)) := by
  simp [mkCommon, U.magOf, UL.mags_ofList]

theorem firstMatching_cases (pred : U → U → Bool) (target : U) :
    (l : List U) → firstMatching pred target l = target ∨
      (firstMatching pred target l ∈ l ∧ pred target (firstMatching pred target l) = true)
  | [] => Or.inl rfl
  | a :: t => by
    unfold firstMatching
    split
    · rename_i h; exact Or.inr ⟨List.mem_cons_self .., h⟩
    · rcases firstMatching_cases pred target t with h | ⟨h1, h2⟩
      · exact Or.inl h
      · exact Or.inr ⟨List.mem_cons_of_mem _ h1, h2⟩

theorem HGood.unscaled {lt : U → U → Bool} {u : U} (h : HGood lt u) : HGood lt u.unscaled := by
  cases h with
  | scaled v m hv hm => exact hv
  | named n => exact .named n
  | common us hu => exact .common us hu
  | commonPoint us hu => exact .commonPoint us hu
  | prod ps a b c => exact .prod ps a b c

theorem mkCommon_good {lt : U → U → Bool} (l : List U) (h : ∀ u ∈ l, HGood lt u) : HGood lt (mkCommon l) := by
  unfold mkCommon
  apply HGood.common
  intro y hy
  rw [UL.toList_ofList] at hy
  rcases List.mem_map.1 hy with ⟨u, hu, rfl⟩
  exact h u hu

/-- `SimplifyIfOnlyOneUnscaledUnit` does not change the magnitude. -/
theorem simplify_mag {lt : U → U → Bool} (hlt : StrictTotal lt) (env : Env) (hw : env.WF) (u : U) (hu : HGood lt u) (x : MagBase) :
    den ((simplifyIfOnlyOneUnscaled env lt u).magOf env) x = den (u.magOf env) x := by
  unfold simplifyIfOnlyOneUnscaled
  simp only []
  split
  · rename_i sole hsole
    -- the sole unscaled unit is well-formed
    have hgs : HGood lt sole := by
      cases u with
      | common us =>
        simp only [] at hsole
        have hmem : sole ∈ flatDedup lt (us.toList.map (fun x => [x.1.unscaled])) := by rw [hsole]; exact List.mem_cons_self ..
        have hspec := flatDedup_spec hlt (us.toList.map (fun x => [x.1.unscaled]))
          (by intro l hl; rcases List.mem_map.1 hl with ⟨y, _, rfl⟩; exact List.pairwise_singleton ..)
        obtain ⟨l, hl, hin⟩ := (hspec.2 sole).1 hmem
        rcases List.mem_map.1 hl with ⟨y, hy, rfl⟩
        simp at hin; subst hin
        cases hu with
        | common _ hm => exact (hm y hy).unscaled
      | named n => simp at hsole; subst hsole; exact hu.unscaled
      | scaled v m => simp at hsole; subst hsole; exact hu.unscaled
      | prod ps => simp at hsole; subst hsole; exact hu.unscaled
      | commonPoint us => simp at hsole; subst hsole; exact hu.unscaled
    have vu := (hu.dim_mag_valid env hw).2
    have vs := (hgs.dim_mag_valid env hw).2
    have vd : Valid MagBase.lt (Mag.div (u.magOf env) (sole.magOf env)) :=
      mul_valid MagBase.lt_strictTotal _ _ vu (pow_valid _ (-1) vs)
    rw [(U.scale_dim_mag env hw hgs _ vd).2 x, div_den _ _ vu vs]
    grind
  · rfl

/-- **C07 (the whole pipeline computes the gcd unit).**  For every strict total unit order and all
well-formed inputs, the magnitude of `CommonUnitT<Us...>` — after `FlatDedupedTypeList`,
`EliminateRedundantUnits`, `FirstMatchingUnit` and `SimplifyIfOnlyOneUnscaledUnit` — equals, base by
base, the common magnitude (minimum exponent) of the inputs' parts.  Together with `C07_divides` and
`C07_greatest` this is: every input is a positive-integer multiple of the result, jointly coprime. -/
theorem C07_pipeline_mag {lt : U → U → Bool} (hlt : StrictTotal lt) (env : Env) (hw : env.WF) (us : List U)
    (hg : ∀ u ∈ us, ∀ p ∈ u.commonParts, HGood lt p)
    (hs : ∀ u ∈ us, SSorted lt u.commonParts)
    (hne : us.flatMap U.commonParts ≠ []) (x : MagBase) :
    den ((commonUnit env lt us).magOf env) x =
      den (Mag.commonAll ((us.flatMap U.commonParts).map (U.magOf env))) x := by
  unfold commonUnit
  simp only []
  have hA := flatDedup_spec hlt (us.map U.commonParts)
    (by intro l hl; rcases List.mem_map.1 hl with ⟨u, hu, rfl⟩; exact hs u hu)
  have memA : ∀ p, p ∈ flatDedup lt (us.map U.commonParts) ↔ p ∈ us.flatMap U.commonParts := by
    intro p
    rw [hA.2 p]
    simp only [List.mem_map, List.mem_flatMap]
    constructor
    · rintro ⟨l, ⟨u, hu, rfl⟩, hp⟩; exact ⟨u, hu, hp⟩
    · rintro ⟨u, hu, hp⟩; exact ⟨_, ⟨u, hu, rfl⟩, hp⟩
  have goodF : ∀ p ∈ us.flatMap U.commonParts, HGood lt p := by
    intro p hp; rcases List.mem_flatMap.1 hp with ⟨u, hu, hpu⟩; exact hg u hu p hpu
  have goodA : ∀ p ∈ flatDedup lt (us.map U.commonParts), HGood lt p := fun p hp => goodF p ((memA p).1 hp)
  have validA : ∀ p ∈ flatDedup lt (us.map U.commonParts), Valid MagBase.lt (p.magOf env) :=
    fun p hp => ((goodA p hp).dim_mag_valid env hw).2
  obtain ⟨e1, e2⟩ := eliminateRedundant_spec env lt _ validA
  have goodL : ∀ p ∈ eliminateRedundant env lt (flatDedup lt (us.map U.commonParts)), HGood lt p :=
    fun p hp => goodA p (e1 p hp)
  -- the result of FirstMatchingUnit has the magnitude of the CommonUnit<l>
  have hr := firstMatching_cases (U.qEquiv env) (mkCommon (eliminateRedundant env lt (flatDedup lt (us.map U.commonParts))))
    (eliminateRedundant env lt (flatDedup lt (us.map U.commonParts)))
  have hgr : HGood lt (firstMatching (U.qEquiv env) (mkCommon (eliminateRedundant env lt (flatDedup lt (us.map U.commonParts))))
      (eliminateRedundant env lt (flatDedup lt (us.map U.commonParts)))) := by
    rcases hr with h | ⟨h1, _⟩
    · rw [h]; exact mkCommon_good _ goodL
    · exact goodL _ h1
  rw [simplify_mag hlt env hw _ hgr x]
  have hmag : (firstMatching (U.qEquiv env) (mkCommon (eliminateRedundant env lt (flatDedup lt (us.map U.commonParts))))
      (eliminateRedundant env lt (flatDedup lt (us.map U.commonParts)))).magOf env =
      (mkCommon (eliminateRedundant env lt (flatDedup lt (us.map U.commonParts)))).magOf env := by
    rcases hr with h | ⟨_, h2⟩
    · rw [h]
    · unfold U.qEquiv at h2
      simp only [Bool.and_eq_true, decide_eq_true_eq] at h2
      exact h2.2.symm
  rw [hmag, mkCommon_mag]
  -- same lower envelope ⇒ same common magnitude
  have hAne : flatDedup lt (us.map U.commonParts) ≠ [] := by
    intro h0
    cases hF : us.flatMap U.commonParts with
    | nil => exact hne hF
    | cons p t =>
      have : p ∈ flatDedup lt (us.map U.commonParts) := (memA p).2 (by rw [hF]; exact List.mem_cons_self ..)
      rw [h0] at this; cases this
  have hLne : eliminateRedundant env lt (flatDedup lt (us.map U.commonParts)) ≠ [] := by
    intro h0
    cases hA' : flatDedup lt (us.map U.commonParts) with
    | nil => exact hAne hA'
    | cons p t =>
      obtain ⟨v, hv, _⟩ := e2 p (by rw [hA']; exact List.mem_cons_self ..)
      rw [h0] at hv; cases hv
  congr 1
  apply commonAll_envelope
  · intro m hm; rcases List.mem_map.1 hm with ⟨p, hp, rfl⟩; exact validA p (e1 p hp)
  · intro m hm; rcases List.mem_map.1 hm with ⟨p, hp, rfl⟩; exact ((goodF p hp).dim_mag_valid env hw).2
  · intro h0; exact hLne (List.map_eq_nil_iff.1 h0)
  · intro h0; exact hne (List.map_eq_nil_iff.1 h0)
  · -- every part dominates some kept unit
    intro b hb
    rcases List.mem_map.1 hb with ⟨p, hp, rfl⟩
    obtain ⟨v, hv, hle⟩ := e2 p ((memA p).2 hp)
    exact ⟨_, List.mem_map.2 ⟨v, hv, rfl⟩, hle⟩
  · -- every kept unit is a part
    intro a ha
    rcases List.mem_map.1 ha with ⟨p, hp, rfl⟩
    exact ⟨_, List.mem_map.2 ⟨p, (memA p).1 (e1 p hp), rfl⟩, MagLe.refl _⟩
end Au

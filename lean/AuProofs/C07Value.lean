import AuProofs.C10Value
import AuProofs.C02Value
import Mathlib.Data.Nat.Prime.Basic
/-! # C07 at the level of numbers: the common magnitude is the greatest common divisor -/
namespace Au
open Pack

/-- Natural-number value of a magnitude all of whose exponents are positive integers (π ↦ 1). -/
def Mag.natVal (q : Mag) : Nat :=
  (q.map fun a => match a.1 with | .prime p => p ^ a.2.num.toNat | .pi => 1).prod

def Mag.PrimeBases (m : Mag) : Prop := ∀ a ∈ m, ∀ p, a.1 = .prime p → Nat.Prime p

theorem natVal_cons (a : MagBase × Rat) (t : Mag) :
    Mag.natVal (a :: t) = (match a.1 with | .prime p => p ^ a.2.num.toNat | .pi => 1) * Mag.natVal t := by
  simp [Mag.natVal]

/-- `qval` of a π-free magnitude with positive integer exponents is its natural-number value. -/
theorem qval_eq_natVal (piv : Rat) : ∀ (q : Mag), Mag.IntExp q → Mag.PiFree q → (∀ a ∈ q, 0 < a.2) →
    Mag.qval piv q = (Mag.natVal q : Rat)
  | [], _, _, _ => by simp [Mag.qval_nil, Mag.natVal]
  | a :: t, hi, hf, hpos => by
    have ih := qval_eq_natVal piv t (intExp_tail hi) (fun x hx => hf x (List.mem_cons_of_mem _ hx))
      (fun x hx => hpos x (List.mem_cons_of_mem _ hx))
    have ha0 : 0 < a.2 := hpos a (List.mem_cons_self ..)
    have hn : 0 < a.2.num := Rat.num_pos.2 ha0
    rw [Mag.qval_cons, natVal_cons, ih]
    cases hb : a.1 with
    | pi => exact absurd hb (hf a (List.mem_cons_self ..))
    | prime p =>
      simp only [bval, hb, MagBase.qv]
      have : a.2.num = (a.2.num.toNat : Int) := by omega
      rw [this, zpow_natCast, ← this]
      push_cast
      ring

/-- A prime dividing the value is one of the bases. -/
theorem prime_dvd_natVal (r : Nat) (hr : Nat.Prime r) : ∀ (q : Mag), Mag.PrimeBases q → r ∣ Mag.natVal q →
    ∃ a ∈ q, a.1 = .prime r
  | [], _, h => by
    simp [Mag.natVal] at h
    exact absurd h (Nat.Prime.one_lt hr).ne'
  | a :: t, hp, h => by
    rw [natVal_cons] at h
    rcases (Nat.Prime.dvd_mul hr).1 h with h1 | h2
    · cases hb : a.1 with
      | pi => rw [hb] at h1; simp at h1; exact absurd h1 (Nat.Prime.one_lt hr).ne'
      | prime p =>
        rw [hb] at h1
        have hpp := hp a (List.mem_cons_self ..) p hb
        have := Nat.Prime.dvd_of_dvd_pow hr h1
        have heq : r = p := (Nat.prime_dvd_prime_iff_eq hr hpp).1 this
        exact ⟨a, List.mem_cons_self .., by rw [hb, heq]⟩
    · obtain ⟨x, hx, hx1⟩ := prime_dvd_natVal r hr t (fun y hy => hp y (List.mem_cons_of_mem _ hy)) h2
      exact ⟨x, List.mem_cons_of_mem _ hx, hx1⟩


/-- Everything about the quotient pack `m / c` when `c` divides `m` exponent-wise. -/
theorem quotient_facts (piv : Rat) (hpi : 0 < piv) (m c : Mag) (hm : Mag.Rational m) (hc : Mag.Rational c)
    (hdiv : ∀ x, 0 ≤ den m x - den c x) :
    let q := mul MagBase.lt m (Pack.inv c)
    Valid MagBase.lt q ∧ Mag.IntExp q ∧ Mag.PiFree q ∧ (∀ a ∈ q, 0 < a.2) ∧ (∀ x, den q x = den m x - den c x) ∧
      Mag.qval piv m = (Mag.natVal q : Rat) * Mag.qval piv c := by
  intro q
  have hst := MagBase.lt_strictTotal
  obtain ⟨ri, vi⟩ := rational_inv piv hpi c hc
  obtain ⟨rq, vq⟩ := rational_mul piv hpi m _ hm ri
  have hden : ∀ x, den q x = den m x - den c x := by
    intro x
    show den (mul MagBase.lt m (Pack.inv c)) x = _
    rw [mul_den hst m _ hm.valid.1 ri.valid.1]
    show den m x + den (Pack.pow c (-1)) x = _
    rw [pow_den]; ring
  have hposq : ∀ a ∈ q, 0 < a.2 := by
    intro a ha
    have h1 := den_of_mem hst _ rq.valid.1 a ha
    have h2 := hdiv a.1
    rw [← hden, h1] at h2
    exact lt_of_le_of_ne h2 (Ne.symm (rq.valid.2 a ha))
  refine ⟨rq.valid, rq.int, rq.free, hposq, hden, ?_⟩
  have hnat := qval_eq_natVal piv q rq.int rq.free hposq
  have hcpos := qval_pos piv hpi c hc.pos
  have hne : Mag.qval piv c ≠ 0 := ne_of_gt hcpos
  rw [← hnat]
  show _ = Mag.qval piv (mul MagBase.lt m (Pack.inv c)) * _
  rw [vq, vi, _root_.mul_assoc, inv_mul_cancel₀ hne, mul_one]

theorem primeBases_quotient (m c : Mag) (hm : Mag.PrimeBases m) (hc : Mag.PrimeBases c) :
    Mag.PrimeBases (mul MagBase.lt m (Pack.inv c)) := by
  intro a ha p hp
  rcases mem_mul_base m (Pack.inv c) a ha with ⟨z, hz, hz1⟩ | ⟨z, hz, hz1⟩
  · exact hm z hz p (by rw [hz1]; exact hp)
  · rw [inv_eq_map] at hz
    obtain ⟨w, hw, rfl⟩ := List.mem_map.1 hz
    exact hc w hw p (by rw [← hp, ← hz1])

theorem primeBases_commonAll (ms : List Mag) (h : ∀ m ∈ ms, Mag.PrimeBases m) : Mag.PrimeBases (Mag.commonAll ms) := by
  intro y hy p hp
  obtain ⟨m, hm, hym⟩ := mem_commonAll ms y hy
  exact h m hm y hym p hp

/-- **C07 (divides and greatest, at the level of numbers).**  For rational magnitudes with prime bases,
every input is `kᵢ · common` with `kᵢ` the natural number `natVal (mᵢ / common)`, and no prime divides
all the `kᵢ`: the `kᵢ` are jointly coprime, so the common magnitude is the greatest common divisor. -/
theorem C07_gcd_value (piv : Rat) (hpi : 0 < piv) (ms : List Mag) (h : ∀ m ∈ ms, Mag.Rational m)
    (hp : ∀ m ∈ ms, Mag.PrimeBases m) (hne : ms ≠ []) :
    (∀ m ∈ ms, Mag.qval piv m = (Mag.natVal (Mag.div m (Mag.commonAll ms)) : Rat) * Mag.qval piv (Mag.commonAll ms)) ∧
    (∀ r, Nat.Prime r → ∃ m ∈ ms, ¬ r ∣ Mag.natVal (Mag.div m (Mag.commonAll ms))) := by
  have hv : ∀ m ∈ ms, Valid MagBase.lt m := fun m hm => (h m hm).valid
  have hc := commonAll_rational ms h
  refine ⟨fun m hm => ?_, fun r hr => ?_⟩
  · exact (quotient_facts piv hpi m _ (h m hm) hc (C07_divides ms hv m hm).1).2.2.2.2.2
  · obtain ⟨m, hm, h0⟩ := C07_greatest ms hv hne (.prime r)
    refine ⟨m, hm, fun hdvd => ?_⟩
    obtain ⟨vq, _, _, _, hden, _⟩ := quotient_facts piv hpi m _ (h m hm) hc (C07_divides ms hv m hm).1
    have hpb := primeBases_quotient m _ (hp m hm) (primeBases_commonAll ms hp)
    obtain ⟨a, ha, ha1⟩ := prime_dvd_natVal r hr _ hpb hdvd
    have h1 := den_of_mem MagBase.lt_strictTotal _ vq.1 a ha
    rw [ha1, hden, h0] at h1
    exact vq.2 a ha h1.symm


/-- Non-vacuity: 12 and 18 (2²·3 and 2·3²): common magnitude 6, ratios 2 and 3. -/
example : Mag.commonAll [[(.prime 2, 2), (.prime 3, 1)], [(.prime 2, 1), (.prime 3, 2)]] = [(.prime 2, 1), (.prime 3, 1)] ∧
    Mag.natVal (Mag.div [(.prime 2, 2), (.prime 3, 1)] [(.prime 2, 1), (.prime 3, 1)]) = 2 ∧
    Mag.natVal (Mag.div [(.prime 2, 1), (.prime 3, 2)] [(.prime 2, 1), (.prime 3, 1)]) = 3 := by
  decide +kernel

end Au

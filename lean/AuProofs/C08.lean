/-
  AuProofs.C08 — mixed-unit comparison, addition, subtraction, modulo and `<=>` are exact.

  Units of one dimension are positive rationals (`URat`, scale relative to a base unit); the exact
  value of a quantity is `qval u v = v · scale u ∈ ℚ`.  `k1 = ratioL u1 u2`, `k2 = ratioR u1 u2` are the
  integer ratios to the common unit `g = commonScale u1 u2` (`AuProofs.Lemmas.CommonRat`).

  `+` and `-`: the statement's hypothesis ("scaling each operand does not overflow") concerns the operands; that
  the exact sum/difference itself must fit the result rep is raw-operator behaviour and is an explicit
  hypothesis of `C08_add_exact_partial` / `C08_sub_exact_partial` (the claimed theorems; the `…_full` forms
  without it and their counterexamples are kept for the record only).  `%` and `<=>` are proved at full
  strength since the `fix:` commit for finding F11/F17 (regression guards `C08_F11_fixed_*`).
-/
import AuProofs.Lemmas.Mixed
import AuProofs.Lemmas.CommonRat
namespace Au
open IntTy Mixed

/-- Exact value (in base units) of the quantity `v` of unit `u`. -/
def qval (u : URat) (v : Int) : Rat := (v : Rat) * u.scale

/-- Scale of `CommonUnitT<U1, U2>`. -/
def commonScale (u1 u2 : URat) : Rat := (URat.common u1 u2).scale

/-- The exact rational relation each comparison operator stands for. -/
def Mixed.CmpOp.rel : CmpOp → Rat → Rat → Prop
  | .eq, a, b => a = b
  | .ne, a, b => a ≠ b
  | .lt, a, b => a < b
  | .le, a, b => a ≤ b
  | .gt, a, b => b < a
  | .ge, a, b => b ≤ a

theorem commonScale_pos (u1 u2 : URat) (h1 : u1.Pos) (h2 : u2.Pos) : 0 < commonScale u1 u2 :=
  URat.common_scale_pos u1 u2 h1 h2

/-- `v1 · U1 = (v1·k1) · CommonUnit`. -/
theorem qval_left (u1 u2 : URat) (h1 : u1.Pos) (h2 : u2.Pos) (v : Int) :
    qval u1 v = ((v * (URat.ratioL u1 u2 : Nat) : Int) : Rat) * commonScale u1 u2 := by
  unfold qval commonScale
  rw [URat.scale_eq_ratioL u1 u2 h1 h2, Rat.intCast_mul, Rat.intCast_natCast]
  grind

/-- `v2 · U2 = (v2·k2) · CommonUnit`. -/
theorem qval_right (u1 u2 : URat) (h1 : u1.Pos) (h2 : u2.Pos) (v : Int) :
    qval u2 v = ((v * (URat.ratioR u1 u2 : Nat) : Int) : Rat) * commonScale u1 u2 := by
  unfold qval commonScale
  rw [URat.scale_eq_ratioR u1 u2 h1 h2, Rat.intCast_mul, Rat.intCast_natCast]
  grind

/-! ### Order of scaled integers = order of the exact rational values -/

theorem rat_scale_lt (a b : Int) (g : Rat) (hg : 0 < g) : (a : Rat) * g < (b : Rat) * g ↔ a < b := by
  rw [Rat.mul_lt_mul_right hg]; exact Rat.intCast_lt_intCast

theorem rat_scale_le (a b : Int) (g : Rat) (hg : 0 < g) : (a : Rat) * g ≤ (b : Rat) * g ↔ a ≤ b := by
  rw [← Rat.not_lt, rat_scale_lt b a g hg]; omega

theorem rat_scale_eq (a b : Int) (g : Rat) (hg : 0 < g) : (a : Rat) * g = (b : Rat) * g ↔ a = b := by
  constructor
  · intro h
    have h1 : a ≤ b := (rat_scale_le a b g hg).1 (by rw [h]; exact Rat.le_refl)
    have h2 : b ≤ a := (rat_scale_le b a g hg).1 (by rw [h]; exact Rat.le_refl)
    omega
  · intro h; rw [h]

theorem eval_iff_rel (op : CmpOp) (a b : Int) (g : Rat) (hg : 0 < g) :
    op.eval a b = true ↔ op.rel ((a : Rat) * g) ((b : Rat) * g) := by
  cases op <;> simp only [CmpOp.eval, CmpOp.rel, decide_eq_true_eq]
  · exact (rat_scale_eq a b g hg).symm
  · exact not_congr (rat_scale_eq a b g hg).symm
  · exact (rat_scale_lt a b g hg).symm
  · exact (rat_scale_le a b g hg).symm
  · exact (rat_scale_lt b a g hg).symm
  · exact (rat_scale_le b a g hg).symm

/-! ## Comparison -/

/-- **C08, comparison.**  For integral reps of equal signedness, every pair of positive rational units
and all stored values: if scaling each operand to the common unit does not overflow in the common
rep, each of `== != < <= > >=` evaluates without undefined behaviour, wrap-around or narrowing, and is
true exactly when the corresponding relation holds between the exact rational values `v·unit`. -/
theorem C08_compare_exact (r1 r2 : IntTy) (h1 : r1 ∈ IntTy.all) (h2 : r2 ∈ IntTy.all)
    (hs : r1.signed = r2.signed) (u1 u2 : URat) (hu1 : u1.Pos) (hu2 : u2.Pos) (v1 v2 : Int)
    (hv1 : r1.inRange v1) (hv2 : r2.inRange v2)
    (hf : FitsCommon r1 r2 (URat.ratioL u1 u2) (URat.ratioR u1 u2) v1 v2) (op : CmpOp) :
    ∃ b : Bool, cmp op r1 r2 (URat.ratioL u1 u2) (URat.ratioR u1 u2) v1 v2 = ⟨.ok b, false, false⟩ ∧
      (b = true ↔ op.rel (qval u1 v1) (qval u2 v2)) := by
  refine ⟨op.eval (v1 * (URat.ratioL u1 u2 : Nat)) (v2 * (URat.ratioR u1 u2 : Nat)), ?_, ?_⟩
  · unfold cmp
    rw [usingCommon_ok r1 r2 h1 h2 hs _ _ v1 v2 hv1 hv2 hf]
  · rw [qval_left u1 u2 hu1 hu2, qval_right u1 u2 hu1 hu2]
    exact eval_iff_rel op _ _ _ (commonScale_pos u1 u2 hu1 hu2)

/-- Non-vacuity: 5 [3/4] (int16) vs 4 [5/6] (int32): k = (9, 10), 45 > 40 in twelfths. -/
example : FitsCommon i16 i32 (URat.ratioL ⟨3, 4⟩ ⟨5, 6⟩) (URat.ratioR ⟨3, 4⟩ ⟨5, 6⟩) 5 4 ∧
    cmp .gt i16 i32 (URat.ratioL ⟨3, 4⟩ ⟨5, 6⟩) (URat.ratioR ⟨3, 4⟩ ⟨5, 6⟩) 5 4 = ⟨.ok true, false, false⟩ := by
  decide

/-! ## Addition and subtraction -/

/-- For the record only (outside the statement): `+` without the hypothesis that the exact sum fits the result rep. -/
def C08_add_exact_full : Prop :=
  ∀ (r1 r2 : IntTy), r1 ∈ IntTy.all → r2 ∈ IntTy.all → r1.signed = r2.signed →
  ∀ (u1 u2 : URat), u1.Pos → u2.Pos → ∀ (v1 v2 : Int), r1.inRange v1 → r2.inRange v2 →
  FitsCommon r1 r2 (URat.ratioL u1 u2) (URat.ratioR u1 u2) v1 v2 →
  ∃ s : Int, (add r1 r2 (URat.ratioL u1 u2) (URat.ratioR u1 u2) v1 v2).val = .ok s ∧
    (s : Rat) * commonScale u1 u2 = qval u1 v1 + qval u2 v2

/-- The sum itself can overflow the result rep although both scalings fit
(int32 1073741823 [2·U] + int32 2 [U] = 2^31 [U]: signed overflow, undefined behaviour). -/
theorem C08_add_exact_counterexample : ¬ C08_add_exact_full := by
  intro h
  obtain ⟨s, hs, _⟩ := h i32 i32 (by decide) (by decide) rfl ⟨2, 1⟩ ⟨1, 1⟩ (by decide) (by decide)
    1073741823 2 (by decide) (by decide) (by decide)
  have hv : (match (add i32 i32 (URat.ratioL ⟨2, 1⟩ ⟨1, 1⟩) (URat.ratioR ⟨2, 1⟩ ⟨1, 1⟩) 1073741823 2).val with
      | .ok _ => false | .ub _ => true) = true := by decide
  rw [hs] at hv
  cases hv

/-- **C08, addition.**  If moreover the exact sum (in the common unit) is representable in the rep of
`q1 + q2` (the promoted common rep), then `q1 + q2` evaluates without undefined behaviour or
wrap-around and its value in the common unit, times the common unit, is exactly the rational sum. -/
theorem C08_add_exact_partial (r1 r2 : IntTy) (h1 : r1 ∈ IntTy.all) (h2 : r2 ∈ IntTy.all)
    (hs : r1.signed = r2.signed) (u1 u2 : URat) (hu1 : u1.Pos) (hu2 : u2.Pos) (v1 v2 : Int)
    (hv1 : r1.inRange v1) (hv2 : r2.inRange v2)
    (hf : FitsCommon r1 r2 (URat.ratioL u1 u2) (URat.ratioR u1 u2) v1 v2)
    (hsum : SumFits r1 r2 (URat.ratioL u1 u2) (URat.ratioR u1 u2) v1 v2) :
    ∃ s : Int, add r1 r2 (URat.ratioL u1 u2) (URat.ratioR u1 u2) v1 v2 = ⟨.ok s, false, false⟩ ∧
      (sumRep r1 r2).inRange s ∧ (s : Rat) * commonScale u1 u2 = qval u1 v1 + qval u2 v2 := by
  obtain ⟨hc, _⟩ := common_facts r1 h1 r2 h2 hs
  have hp := promote_mem _ hc
  refine ⟨v1 * (URat.ratioL u1 u2 : Nat) + v2 * (URat.ratioR u1 u2 : Nat), ?_, hsum, ?_⟩
  · unfold add
    rw [usingCommon_ok r1 r2 h1 h2 hs _ _ v1 v2 hv1 hv2 hf]
    unfold SumFits sumRep at hsum
    unfold addIn
    cases hsg : (IntTy.common r1 r2).promote.signed with
    | true => simp [hsum]
    | false => simp [hsum, wrap_of_inRange _ hp _ hsum]
  · rw [qval_left u1 u2 hu1 hu2, qval_right u1 u2 hu1 hu2, Rat.intCast_add]
    grind

/-- Non-vacuity: uint8 200 [1/3] + uint16 100 [4/1] (k = 1, 12): 200 + 1200 = 1400 thirds, in `int`. -/
example : FitsCommon u8 u16 (URat.ratioL ⟨1, 3⟩ ⟨4, 1⟩) (URat.ratioR ⟨1, 3⟩ ⟨4, 1⟩) 200 100 ∧
    SumFits u8 u16 (URat.ratioL ⟨1, 3⟩ ⟨4, 1⟩) (URat.ratioR ⟨1, 3⟩ ⟨4, 1⟩) 200 100 ∧
    add u8 u16 (URat.ratioL ⟨1, 3⟩ ⟨4, 1⟩) (URat.ratioR ⟨1, 3⟩ ⟨4, 1⟩) 200 100 = ⟨.ok 1400, false, false⟩ := by
  decide

/-- For the record only (outside the statement): `-` without the hypothesis that the exact difference fits the result rep. -/
def C08_sub_exact_full : Prop :=
  ∀ (r1 r2 : IntTy), r1 ∈ IntTy.all → r2 ∈ IntTy.all → r1.signed = r2.signed →
  ∀ (u1 u2 : URat), u1.Pos → u2.Pos → ∀ (v1 v2 : Int), r1.inRange v1 → r2.inRange v2 →
  FitsCommon r1 r2 (URat.ratioL u1 u2) (URat.ratioR u1 u2) v1 v2 →
  ∃ s : Int, (sub r1 r2 (URat.ratioL u1 u2) (URat.ratioR u1 u2) v1 v2).val = .ok s ∧
    (s : Rat) * commonScale u1 u2 = qval u1 v1 - qval u2 v2

/-- (int32 −1073741824 [2·U] − int32 1 [U] = −2^31 − 1 [U]: undefined behaviour). -/
theorem C08_sub_exact_counterexample : ¬ C08_sub_exact_full := by
  intro h
  obtain ⟨s, hs, _⟩ := h i32 i32 (by decide) (by decide) rfl ⟨2, 1⟩ ⟨1, 1⟩ (by decide) (by decide)
    (-1073741824) 1 (by decide) (by decide) (by decide)
  have hv : (match (sub i32 i32 (URat.ratioL ⟨2, 1⟩ ⟨1, 1⟩) (URat.ratioR ⟨2, 1⟩ ⟨1, 1⟩) (-1073741824) 1).val with
      | .ok _ => false | .ub _ => true) = true := by decide
  rw [hs] at hv
  cases hv

/-- **C08, subtraction.** -/
theorem C08_sub_exact_partial (r1 r2 : IntTy) (h1 : r1 ∈ IntTy.all) (h2 : r2 ∈ IntTy.all)
    (hs : r1.signed = r2.signed) (u1 u2 : URat) (hu1 : u1.Pos) (hu2 : u2.Pos) (v1 v2 : Int)
    (hv1 : r1.inRange v1) (hv2 : r2.inRange v2)
    (hf : FitsCommon r1 r2 (URat.ratioL u1 u2) (URat.ratioR u1 u2) v1 v2)
    (hdiff : DiffFits r1 r2 (URat.ratioL u1 u2) (URat.ratioR u1 u2) v1 v2) :
    ∃ s : Int, sub r1 r2 (URat.ratioL u1 u2) (URat.ratioR u1 u2) v1 v2 = ⟨.ok s, false, false⟩ ∧
      (sumRep r1 r2).inRange s ∧ (s : Rat) * commonScale u1 u2 = qval u1 v1 - qval u2 v2 := by
  obtain ⟨hc, _⟩ := common_facts r1 h1 r2 h2 hs
  have hp := promote_mem _ hc
  refine ⟨v1 * (URat.ratioL u1 u2 : Nat) - v2 * (URat.ratioR u1 u2 : Nat), ?_, hdiff, ?_⟩
  · unfold sub
    rw [usingCommon_ok r1 r2 h1 h2 hs _ _ v1 v2 hv1 hv2 hf]
    unfold DiffFits sumRep at hdiff
    unfold subIn
    cases hsg : (IntTy.common r1 r2).promote.signed with
    | true => simp [hdiff]
    | false => simp [hdiff, wrap_of_inRange _ hp _ hdiff]
  · rw [qval_left u1 u2 hu1 hu2, qval_right u1 u2 hu1 hu2, Rat.intCast_sub]
    grind

/-- Non-vacuity: int8 −100 [3/1] − int64 7 [1/2] (k = 6, 1): −600 − 7 = −607 halves. -/
example : FitsCommon i8 i64 (URat.ratioL ⟨3, 1⟩ ⟨1, 2⟩) (URat.ratioR ⟨3, 1⟩ ⟨1, 2⟩) (-100) 7 ∧
    DiffFits i8 i64 (URat.ratioL ⟨3, 1⟩ ⟨1, 2⟩) (URat.ratioR ⟨3, 1⟩ ⟨1, 2⟩) (-100) 7 ∧
    sub i8 i64 (URat.ratioL ⟨3, 1⟩ ⟨1, 2⟩) (URat.ratioR ⟨3, 1⟩ ⟨1, 2⟩) (-100) 7 = ⟨.ok (-607), false, false⟩ := by
  decide

/-! ## Modulo -/

/-- `m` (a count of common units) is the exact truncated remainder of `x` by `y`:
`x = q·y + m·g` for an integer `q`, `|m·g| < |y|`, and `m·g` has the sign of `x` (or is zero). -/
def IsExactRemainder (m : Int) (g x y : Rat) : Prop :=
  (∃ q : Int, (m : Rat) * g = x - (q : Rat) * y) ∧ ((m : Rat) * g) * ((m : Rat) * g) < y * y ∧
  (0 ≤ x → 0 ≤ (m : Rat) * g) ∧ (x ≤ 0 → (m : Rat) * g ≤ 0)

theorem tmod_sq_lt (a b : Int) (hb : b ≠ 0) : Int.tmod a b * Int.tmod a b < b * b := by
  have h : (Int.tmod a b).natAbs < b.natAbs := by
    rw [Int.natAbs_tmod]; exact Nat.mod_lt _ (Int.natAbs_pos.mpr hb)
  rw [← Int.natAbs_mul_self (a := Int.tmod a b), ← Int.natAbs_mul_self (a := b)]
  exact Int.ofNat_lt.mpr (Nat.mul_self_lt_mul_self h)

theorem tmod_nonpos' (a b : Int) (h : a ≤ 0) : Int.tmod a b ≤ 0 := by
  have h1 : Int.tmod a b = -Int.tmod (-a) b := by rw [Int.neg_tmod, Int.neg_neg]
  have h2 := Int.tmod_nonneg (a := -a) b (by omega)
  omega

/-- **C08, modulo (full strength).**  If scaling each operand to the common unit does not overflow in the common
rep, the divisor is non-zero and the operands are not `min % −1` (where the built-in `%` is undefined),
then `q1 % q2` evaluates without undefined behaviour, wrap-around or narrowing and is the exact truncated
remainder of the rational values, expressed in the common unit. -/
theorem C08_mod_exact (r1 r2 : IntTy) (h1 : r1 ∈ IntTy.all) (h2 : r2 ∈ IntTy.all)
    (hs : r1.signed = r2.signed) (u1 u2 : URat) (hu1 : u1.Pos) (hu2 : u2.Pos) (v1 v2 : Int)
    (hv1 : r1.inRange v1) (hv2 : r2.inRange v2)
    (hf : FitsCommon r1 r2 (URat.ratioL u1 u2) (URat.ratioR u1 u2) v1 v2)
    (hd : ModDefined r1 r2 (URat.ratioL u1 u2) (URat.ratioR u1 u2) v1 v2) :
    ∃ m : Int, mod r1 r2 (URat.ratioL u1 u2) (URat.ratioR u1 u2) v1 v2 = ⟨.ok m, false, false⟩ ∧
      IsExactRemainder m (commonScale u1 u2) (qval u1 v1) (qval u2 v2) := by
  have hg := commonScale_pos u1 u2 hu1 hu2
  refine ⟨Int.tmod (v1 * (URat.ratioL u1 u2 : Nat)) (v2 * (URat.ratioR u1 u2 : Nat)), ?_, ?_⟩
  · unfold mod
    rw [usingRepCast_ok r1 r2 h1 h2 hs _ _ v1 v2 hv1 hv2 hf]
    unfold ModDefined at hd
    unfold modIn
    have hb := hd.1
    rw [if_neg hb]
    by_cases hsg : (modRep r1 r2).signed = true
    · have hnot : ¬ (v1 * (URat.ratioL u1 u2 : Nat) = (modRep r1 r2).lo ∧ v2 * (URat.ratioR u1 u2 : Nat) = -1) := hd.2
      simp only [hsg, Bool.true_and, Bool.and_eq_true, decide_eq_true_eq]
      rw [if_neg hnot]
    · have hsg' : (modRep r1 r2).signed = false := by
        cases h : (modRep r1 r2).signed with
        | true => exact absurd h hsg
        | false => rfl
      simp [hsg']
  · rw [qval_left u1 u2 hu1 hu2, qval_right u1 u2 hu1 hu2]
    generalize v1 * (URat.ratioL u1 u2 : Nat) = A
    have hB : v2 * (URat.ratioR u1 u2 : Nat) ≠ 0 := hd.1
    revert hB
    generalize v2 * (URat.ratioR u1 u2 : Nat) = B
    intro hB
    have hdm := Int.mul_tdiv_add_tmod A B
    refine ⟨⟨Int.tdiv A B, ?_⟩, ?_, ?_, ?_⟩
    · have : ((Int.tmod A B : Int) : Rat) = (A : Rat) - (Int.tdiv A B : Rat) * (B : Rat) := by
        rw [← Rat.intCast_mul, ← Rat.intCast_sub]
        congr 1
        rw [Int.mul_comm]; omega
      rw [this]; grind
    · have h := tmod_sq_lt A B hB
      have h' : ((Int.tmod A B * Int.tmod A B : Int) : Rat) < ((B * B : Int) : Rat) := Rat.intCast_lt_intCast.mpr h
      rw [Rat.intCast_mul, Rat.intCast_mul] at h'
      have hgg : 0 < commonScale u1 u2 * commonScale u1 u2 := Rat.mul_pos hg hg
      have := (Rat.mul_lt_mul_right hgg).2 h'
      grind
    · intro hx
      have hA : 0 ≤ A := by
        have := (rat_scale_le 0 A _ hg).1 (by rw [Rat.intCast_zero, Rat.zero_mul]; exact hx)
        exact this
      have := (rat_scale_le 0 (Int.tmod A B) _ hg).2 (Int.tmod_nonneg B hA)
      rw [Rat.intCast_zero, Rat.zero_mul] at this
      exact this
    · intro hx
      have hA : A ≤ 0 := by
        have := (rat_scale_le A 0 _ hg).1 (by rw [Rat.intCast_zero, Rat.zero_mul]; exact hx)
        exact this
      have := (rat_scale_le (Int.tmod A B) 0 _ hg).2 (tmod_nonpos' A B hA)
      rw [Rat.intCast_zero, Rat.zero_mul] at this
      exact this

/-- Non-vacuity, and regression guard for finding F11/F17 (`%` used to scale each operand in its own rep):
int16 30000 [2·U] % int32 7 [U]: 60000 fits the common rep `int`; the remainder is 3 [U] (was −6). -/
theorem C08_F11_fixed_mod :
    FitsCommon i16 i32 (URat.ratioL ⟨2, 1⟩ ⟨1, 1⟩) (URat.ratioR ⟨2, 1⟩ ⟨1, 1⟩) 30000 7 ∧
    ModDefined i16 i32 (URat.ratioL ⟨2, 1⟩ ⟨1, 1⟩) (URat.ratioR ⟨2, 1⟩ ⟨1, 1⟩) 30000 7 ∧
    mod i16 i32 (URat.ratioL ⟨2, 1⟩ ⟨1, 1⟩) (URat.ratioR ⟨2, 1⟩ ⟨1, 1⟩) 30000 7 = ⟨.ok 3, false, false⟩ := by
  decide

/-! ## Mutual consistency -/

/-- **C08, consistency of the six comparisons** (no hypothesis on ranges or overflow): whenever the six
operators all return a value on a pair of operands, exactly one of `<`, `==`, `>` holds and the other
three are determined by them. -/
theorem C08_consistent (r1 r2 : IntTy) (k1 k2 : Nat) (v1 v2 : Int) (b : CmpOp → Bool)
    (h : ∀ op, (cmp op r1 r2 k1 k2 v1 v2).val = .ok (b op)) :
    ((b .lt && !b .eq && !b .gt) || (!b .lt && b .eq && !b .gt) || (!b .lt && !b .eq && b .gt)) = true ∧
    b .ne = !b .eq ∧ b .le = (b .lt || b .eq) ∧ b .ge = (b .gt || b .eq) := by
  have hall : ∃ x y : Int, ∀ op, b op = op.eval x y := by
    cases hp : (commonPair r1 r2 k1 k2 v1 v2).val with
    | ok p =>
      refine ⟨p.1, p.2, fun op => ?_⟩
      have := h op
      rw [cmp_val, hp] at this
      simp only [] at this
      injection this with this
      exact this.symm
    | ub w =>
      have := h .eq
      rw [cmp_val, hp] at this
      cases this
  obtain ⟨x, y, hxy⟩ := hall
  simp only [hxy, CmpOp.eval]
  rcases Int.lt_trichotomy x y with hlt | heq | hgt
  · have h1 : ¬ x = y := by omega
    have h2 : ¬ x > y := by omega
    have h3 : x ≤ y := by omega
    have h4 : ¬ x ≥ y := by omega
    simp [hlt, h1, h2, h3, h4]
  · subst heq; simp
  · have h1 : ¬ x = y := by omega
    have h2 : ¬ x < y := by omega
    have h3 : ¬ x ≤ y := by omega
    have h4 : x ≥ y := by omega
    simp [hgt, h1, h2, h3, h4]

/-- Mirror of an operator (`a op b` ⇔ `b op.swap a`). -/
def Mixed.CmpOp.swap : CmpOp → CmpOp
  | .eq => .eq | .ne => .ne | .lt => .gt | .le => .ge | .gt => .lt | .ge => .le

theorem eval_swap (op : CmpOp) (x y : Int) : op.swap.eval y x = op.eval x y := by
  cases op <;> simp [CmpOp.swap, CmpOp.eval, eq_comm]

theorem commonPair_swap (r1 r2 : IntTy) (h1 : r1 ∈ IntTy.all) (h2 : r2 ∈ IntTy.all)
    (hs : r1.signed = r2.signed) (k1 k2 : Nat) (v1 v2 x y : Int) :
    (commonPair r1 r2 k1 k2 v1 v2).val = .ok (x, y) ↔ (commonPair r2 r1 k2 k1 v2 v1).val = .ok (y, x) := by
  obtain ⟨_, _, _, _, _, _, _, _, hsym⟩ := common_facts r1 h1 r2 h2 hs
  unfold commonPair usingCommon
  simp only [hsym]
  cases ha : (castToCommon r1 (IntTy.common r1 r2) k1 v1).val <;>
  cases hb : (castToCommon r2 (IntTy.common r1 r2) k2 v2).val <;> simp
  exact And.comm

/-- **C08, antisymmetry / mirror forms**: `q1 op q2` and `q2 op' q1` (mirrored operator) return the same
value whenever either returns one — the common unit and common rep do not depend on the order. -/
theorem C08_mirror (r1 r2 : IntTy) (h1 : r1 ∈ IntTy.all) (h2 : r2 ∈ IntTy.all)
    (hs : r1.signed = r2.signed) (u1 u2 : URat) (v1 v2 : Int) (op : CmpOp) (b : Bool) :
    (cmp op r1 r2 (URat.ratioL u1 u2) (URat.ratioR u1 u2) v1 v2).val = .ok b ↔
    (cmp op.swap r2 r1 (URat.ratioL u2 u1) (URat.ratioR u2 u1) v2 v1).val = .ok b := by
  obtain ⟨e1, e2⟩ := URat.ratio_symm u1 u2
  rw [← e2, ← e1, cmp_val, cmp_val]
  cases hp : (commonPair r1 r2 (URat.ratioL u1 u2) (URat.ratioR u1 u2) v1 v2).val with
  | ok p =>
    obtain ⟨x, y⟩ := p
    have := (commonPair_swap r1 r2 h1 h2 hs _ _ v1 v2 x y).1 hp
    rw [this]
    simp only [eval_swap]
  | ub w =>
    cases hq : (commonPair r2 r1 (URat.ratioR u1 u2) (URat.ratioL u1 u2) v2 v1).val with
    | ok q =>
      obtain ⟨y, x⟩ := q
      have := (commonPair_swap r1 r2 h1 h2 hs _ _ v1 v2 x y).2 hq
      rw [hp] at this
      cases this
    | ub w' => simp

/-- **C08, antisymmetry**: `q1 <= q2` and `q2 <= q1` imply `q1 == q2` (no overflow hypothesis). -/
theorem C08_antisymm (r1 r2 : IntTy) (h1 : r1 ∈ IntTy.all) (h2 : r2 ∈ IntTy.all)
    (hs : r1.signed = r2.signed) (u1 u2 : URat) (v1 v2 : Int)
    (hle : (cmp .le r1 r2 (URat.ratioL u1 u2) (URat.ratioR u1 u2) v1 v2).val = .ok true)
    (hge : (cmp .le r2 r1 (URat.ratioL u2 u1) (URat.ratioR u2 u1) v2 v1).val = .ok true) :
    (cmp .eq r1 r2 (URat.ratioL u1 u2) (URat.ratioR u1 u2) v1 v2).val = .ok true := by
  have hge' := (C08_mirror r1 r2 h1 h2 hs u1 u2 v1 v2 .ge true).2 hge
  rw [cmp_val] at hle hge' ⊢
  cases hp : (commonPair r1 r2 (URat.ratioL u1 u2) (URat.ratioR u1 u2) v1 v2).val with
  | ok p =>
    rw [hp] at hle hge'
    simp only [CmpOp.eval] at hle hge' ⊢
    injection hle with hle
    injection hge' with hge'
    have hle := of_decide_eq_true hle
    have hge' := of_decide_eq_true hge'
    have : p.1 = p.2 := by omega
    simp [this]
  | ub w => rw [hp] at hle; cases hle

/-- **C08, transitivity across three units.**  Three quantities with three different units and reps of
equal signedness, each pair compared through its own common unit and common rep: if none of the six
scalings overflows, `q1 <= q2` and `q2 <= q3` imply `q1 <= q3` (same for `<` with one strict premise,
and for `==`). -/
theorem C08_transitive (ra rb rc : IntTy) (ha : ra ∈ IntTy.all) (hb : rb ∈ IntTy.all) (hc : rc ∈ IntTy.all)
    (hab : ra.signed = rb.signed) (hbc : rb.signed = rc.signed)
    (ua ub uc : URat) (pa : ua.Pos) (pb : ub.Pos) (pc : uc.Pos) (va vb vc : Int)
    (hva : ra.inRange va) (hvb : rb.inRange vb) (hvc : rc.inRange vc)
    (f1 : FitsCommon ra rb (URat.ratioL ua ub) (URat.ratioR ua ub) va vb)
    (f2 : FitsCommon rb rc (URat.ratioL ub uc) (URat.ratioR ub uc) vb vc)
    (f3 : FitsCommon ra rc (URat.ratioL ua uc) (URat.ratioR ua uc) va vc) :
    ((cmp .le ra rb (URat.ratioL ua ub) (URat.ratioR ua ub) va vb).val = .ok true →
     (cmp .le rb rc (URat.ratioL ub uc) (URat.ratioR ub uc) vb vc).val = .ok true →
     (cmp .le ra rc (URat.ratioL ua uc) (URat.ratioR ua uc) va vc).val = .ok true) ∧
    ((cmp .lt ra rb (URat.ratioL ua ub) (URat.ratioR ua ub) va vb).val = .ok true →
     (cmp .le rb rc (URat.ratioL ub uc) (URat.ratioR ub uc) vb vc).val = .ok true →
     (cmp .lt ra rc (URat.ratioL ua uc) (URat.ratioR ua uc) va vc).val = .ok true) ∧
    ((cmp .le ra rb (URat.ratioL ua ub) (URat.ratioR ua ub) va vb).val = .ok true →
     (cmp .lt rb rc (URat.ratioL ub uc) (URat.ratioR ub uc) vb vc).val = .ok true →
     (cmp .lt ra rc (URat.ratioL ua uc) (URat.ratioR ua uc) va vc).val = .ok true) ∧
    ((cmp .eq ra rb (URat.ratioL ua ub) (URat.ratioR ua ub) va vb).val = .ok true →
     (cmp .eq rb rc (URat.ratioL ub uc) (URat.ratioR ub uc) vb vc).val = .ok true →
     (cmp .eq ra rc (URat.ratioL ua uc) (URat.ratioR ua uc) va vc).val = .ok true) := by
  have key : ∀ (op : CmpOp) (r1 r2 : IntTy) (h1 : r1 ∈ IntTy.all) (h2 : r2 ∈ IntTy.all) (hs : r1.signed = r2.signed)
      (u1 u2 : URat) (p1 : u1.Pos) (p2 : u2.Pos) (v1 v2 : Int) (hv1 : r1.inRange v1) (hv2 : r2.inRange v2)
      (hf : FitsCommon r1 r2 (URat.ratioL u1 u2) (URat.ratioR u1 u2) v1 v2),
      (cmp op r1 r2 (URat.ratioL u1 u2) (URat.ratioR u1 u2) v1 v2).val = .ok true ↔ op.rel (qval u1 v1) (qval u2 v2) := by
    intro op r1 r2 h1 h2 hs u1 u2 p1 p2 v1 v2 hv1 hv2 hf
    obtain ⟨b, hb, hiff⟩ := C08_compare_exact r1 r2 h1 h2 hs u1 u2 p1 p2 v1 v2 hv1 hv2 hf op
    rw [hb]
    constructor
    · intro h; injection h with h; exact hiff.1 h
    · intro h; rw [hiff.2 h]
  have hac : ra.signed = rc.signed := hab.trans hbc
  refine ⟨?_, ?_, ?_, ?_⟩
  · intro x y
    rw [key .le ra rb ha hb hab ua ub pa pb va vb hva hvb f1] at x
    rw [key .le rb rc hb hc hbc ub uc pb pc vb vc hvb hvc f2] at y
    rw [key .le ra rc ha hc hac ua uc pa pc va vc hva hvc f3]
    exact Rat.le_trans x y
  · intro x y
    rw [key .lt ra rb ha hb hab ua ub pa pb va vb hva hvb f1] at x
    rw [key .le rb rc hb hc hbc ub uc pb pc vb vc hvb hvc f2] at y
    rw [key .lt ra rc ha hc hac ua uc pa pc va vc hva hvc f3]
    exact Rat.not_le.mp (fun h => absurd (Rat.le_trans y h) (Rat.not_le.mpr x))
  · intro x y
    rw [key .le ra rb ha hb hab ua ub pa pb va vb hva hvb f1] at x
    rw [key .lt rb rc hb hc hbc ub uc pb pc vb vc hvb hvc f2] at y
    rw [key .lt ra rc ha hc hac ua uc pa pc va vc hva hvc f3]
    exact Rat.not_le.mp (fun h => absurd (Rat.le_trans h x) (Rat.not_le.mpr y))
  · intro x y
    rw [key .eq ra rb ha hb hab ua ub pa pb va vb hva hvb f1] at x
    rw [key .eq rb rc hb hc hbc ub uc pb pc vb vc hvb hvc f2] at y
    rw [key .eq ra rc ha hc hac ua uc pa pc va vc hva hvc f3]
    exact x.trans y

/-- **C08, mutual consistency on clean inputs** (corollary of the exact-ordering theorem).  Under the hypotheses of
`C08_compare_exact`, all six comparisons return a value without undefined behaviour, wrap-around or narrowing, and
`==` iff not `!=`, `<` iff not `>=`, `<=` iff not `>`, and `q1 < q2` iff `q2 > q1` (likewise `q1 > q2` iff `q2 < q1`);
`<` is the exact rational order. -/
theorem C08_consistent_clean (r1 r2 : IntTy) (h1 : r1 ∈ IntTy.all) (h2 : r2 ∈ IntTy.all)
    (hs : r1.signed = r2.signed) (u1 u2 : URat) (hu1 : u1.Pos) (hu2 : u2.Pos) (v1 v2 : Int)
    (hv1 : r1.inRange v1) (hv2 : r2.inRange v2)
    (hf : FitsCommon r1 r2 (URat.ratioL u1 u2) (URat.ratioR u1 u2) v1 v2) :
    ∃ beq bne blt ble bgt bge : Bool,
      cmp .eq r1 r2 (URat.ratioL u1 u2) (URat.ratioR u1 u2) v1 v2 = ⟨.ok beq, false, false⟩ ∧
      cmp .ne r1 r2 (URat.ratioL u1 u2) (URat.ratioR u1 u2) v1 v2 = ⟨.ok bne, false, false⟩ ∧
      cmp .lt r1 r2 (URat.ratioL u1 u2) (URat.ratioR u1 u2) v1 v2 = ⟨.ok blt, false, false⟩ ∧
      cmp .le r1 r2 (URat.ratioL u1 u2) (URat.ratioR u1 u2) v1 v2 = ⟨.ok ble, false, false⟩ ∧
      cmp .gt r1 r2 (URat.ratioL u1 u2) (URat.ratioR u1 u2) v1 v2 = ⟨.ok bgt, false, false⟩ ∧
      cmp .ge r1 r2 (URat.ratioL u1 u2) (URat.ratioR u1 u2) v1 v2 = ⟨.ok bge, false, false⟩ ∧
      beq = !bne ∧ blt = !bge ∧ ble = !bgt ∧
      (cmp .gt r2 r1 (URat.ratioL u2 u1) (URat.ratioR u2 u1) v2 v1).val = .ok blt ∧
      (cmp .lt r2 r1 (URat.ratioL u2 u1) (URat.ratioR u2 u1) v2 v1).val = .ok bgt ∧
      (blt = true ↔ qval u1 v1 < qval u2 v2) := by
  have key : ∀ op : CmpOp, cmp op r1 r2 (URat.ratioL u1 u2) (URat.ratioR u1 u2) v1 v2 =
      ⟨.ok (op.eval (v1 * (URat.ratioL u1 u2 : Nat)) (v2 * (URat.ratioR u1 u2 : Nat))), false, false⟩ := by
    intro op
    unfold cmp
    rw [usingCommon_ok r1 r2 h1 h2 hs _ _ v1 v2 hv1 hv2 hf]
  refine ⟨_, _, _, _, _, _, key .eq, key .ne, key .lt, key .le, key .gt, key .ge, ?_, ?_, ?_, ?_, ?_, ?_⟩
  · simp [CmpOp.eval]
  · simp only [CmpOp.eval]
    generalize v1 * (URat.ratioL u1 u2 : Nat) = A
    generalize v2 * (URat.ratioR u1 u2 : Nat) = B
    by_cases h : A < B
    · have h2 : ¬ A ≥ B := by omega
      simp [h, h2]
    · have h2 : A ≥ B := by omega
      simp [h, h2]
  · simp only [CmpOp.eval]
    generalize v1 * (URat.ratioL u1 u2 : Nat) = A
    generalize v2 * (URat.ratioR u1 u2 : Nat) = B
    by_cases h : A ≤ B
    · have h2 : ¬ A > B := by omega
      simp [h, h2]
    · have h2 : A > B := by omega
      simp [h, h2]
  · have := (C08_mirror r1 r2 h1 h2 hs u1 u2 v1 v2 .lt (CmpOp.eval .lt (v1 * (URat.ratioL u1 u2 : Nat)) (v2 * (URat.ratioR u1 u2 : Nat)))).1
      (by rw [key .lt])
    exact this
  · have := (C08_mirror r1 r2 h1 h2 hs u1 u2 v1 v2 .gt (CmpOp.eval .gt (v1 * (URat.ratioL u1 u2 : Nat)) (v2 * (URat.ratioR u1 u2 : Nat)))).1
      (by rw [key .gt])
    exact this
  · rw [qval_left u1 u2 hu1 hu2, qval_right u1 u2 hu1 hu2]
    exact eval_iff_rel .lt _ _ _ (commonScale_pos u1 u2 hu1 hu2)

/-! ## `<=>` -/

/-- **C08, `<=>` (full strength).**  If scaling each operand to the common unit does not overflow in the common rep,
`q1 <=> q2` evaluates without undefined behaviour or narrowing, orders the operands as their exact rational
values, and agrees with each of the six comparison operators. -/
theorem C08_spaceship_agrees (r1 r2 : IntTy) (h1 : r1 ∈ IntTy.all) (h2 : r2 ∈ IntTy.all)
    (hs : r1.signed = r2.signed) (u1 u2 : URat) (hu1 : u1.Pos) (hu2 : u2.Pos) (v1 v2 : Int)
    (hv1 : r1.inRange v1) (hv2 : r2.inRange v2)
    (hf : FitsCommon r1 r2 (URat.ratioL u1 u2) (URat.ratioR u1 u2) v1 v2) :
    ∃ o : Ordering, spaceship r1 r2 (URat.ratioL u1 u2) (URat.ratioR u1 u2) v1 v2 = ⟨.ok o, false, false⟩ ∧
      (o = .lt ↔ qval u1 v1 < qval u2 v2) ∧ (o = .eq ↔ qval u1 v1 = qval u2 v2) ∧
      (o = .gt ↔ qval u2 v2 < qval u1 v1) ∧
      ∀ op, cmp op r1 r2 (URat.ratioL u1 u2) (URat.ratioR u1 u2) v1 v2 = ⟨.ok (op.ofOrdering o), false, false⟩ := by
  have hg := commonScale_pos u1 u2 hu1 hu2
  refine ⟨compare (v1 * (URat.ratioL u1 u2 : Nat)) (v2 * (URat.ratioR u1 u2 : Nat)), ?_, ?_, ?_, ?_, ?_⟩
  · unfold spaceship
    rw [usingRepCast_ok r1 r2 h1 h2 hs _ _ v1 v2 hv1 hv2 hf]
  · rw [qval_left u1 u2 hu1 hu2, qval_right u1 u2 hu1 hu2, rat_scale_lt _ _ _ hg]
    exact Int.compare_eq_lt
  · rw [qval_left u1 u2 hu1 hu2, qval_right u1 u2 hu1 hu2, rat_scale_eq _ _ _ hg]
    exact Int.compare_eq_eq
  · rw [qval_left u1 u2 hu1 hu2, qval_right u1 u2 hu1 hu2, rat_scale_lt _ _ _ hg]
    exact Int.compare_eq_gt
  · intro op
    unfold cmp
    rw [usingCommon_ok r1 r2 h1 h2 hs _ _ v1 v2 hv1 hv2 hf]
    simp only []
    generalize v1 * (URat.ratioL u1 u2 : Nat) = A
    generalize v2 * (URat.ratioR u1 u2 : Nat) = B
    congr 2
    rcases Int.lt_trichotomy A B with hlt | heq | hgt
    · have hcmp : compare A B = .lt := Int.compare_eq_lt.2 hlt
      rw [hcmp]
      have n1 : ¬ A = B := by omega
      have n2 : ¬ A > B := by omega
      have n3 : A ≤ B := by omega
      have n4 : ¬ A ≥ B := by omega
      cases op <;> simp [CmpOp.ofOrdering, CmpOp.eval, hlt, n1, n2, n3, n4]
    · subst heq
      have hcmp : compare A A = .eq := Int.compare_eq_eq.2 rfl
      rw [hcmp]
      cases op <;> simp [CmpOp.ofOrdering, CmpOp.eval]
    · have hcmp : compare A B = .gt := Int.compare_eq_gt.2 hgt
      rw [hcmp]
      have n1 : ¬ A = B := by omega
      have n2 : ¬ A < B := by omega
      have n3 : ¬ A ≤ B := by omega
      have n4 : A ≥ B := by omega
      cases op <;> simp [CmpOp.ofOrdering, CmpOp.eval, hgt, n1, n2, n3, n4]

/-- Non-vacuity, and regression guard for finding F11/F17: int16 30000 [2·U] vs int32 7 [U]: `<=>` is `greater`
and `<` is false (before the fix `<=>` answered `less`, the left operand having been narrowed to int16). -/
theorem C08_F11_fixed_spaceship :
    FitsCommon i16 i32 (URat.ratioL ⟨2, 1⟩ ⟨1, 1⟩) (URat.ratioR ⟨2, 1⟩ ⟨1, 1⟩) 30000 7 ∧
    spaceship i16 i32 (URat.ratioL ⟨2, 1⟩ ⟨1, 1⟩) (URat.ratioR ⟨2, 1⟩ ⟨1, 1⟩) 30000 7 = ⟨.ok .gt, false, false⟩ ∧
    cmp .lt i16 i32 (URat.ratioL ⟨2, 1⟩ ⟨1, 1⟩) (URat.ratioR ⟨2, 1⟩ ⟨1, 1⟩) 30000 7 = ⟨.ok false, false, false⟩ := by
  decide

/-! ## The compile gate (not part of the statement; recorded for the correspondence) -/

/-- What the implicit-conversion policy admits for an integer ratio `k > 1` in rep `t`: exactly
`2147 · k ≤ max(t)` (`OVERFLOW_THRESHOLD = 2147`). -/
theorem implicitOk_iff (t : IntTy) (ht : t ∈ IntTy.all) (k : Nat) (hk : 1 < k) :
    implicitOk t k = true ↔ 2147 * (k : Int) ≤ t.hi := by
  unfold implicitOk
  have hk1 : ¬ k = 1 := by omega
  rw [if_neg hk1]
  have hkpos : (0 : Int) < k := by omega
  by_cases hfit : (k : Int) ≤ t.hi
  · rw [gvInt_of_le t k hfit]
    simp only [Bool.and_eq_true, decide_eq_true_eq, ge_iff_le]
    have := thr_pos t.hi k 2147 hkpos (hi_nonneg t ht)
    constructor
    · intro h; have := this.1 h.2; omega
    · intro h
      have h2 : (2147 : Int) * k ≤ t.hi := h
      refine ⟨by omega, this.2 (by omega)⟩
  · rw [gvInt_of_gt t k hfit]
    constructor
    · intro h; cases h
    · intro h; omega

end Au

/-
  AuProofs.C09 — QuantityPoint affine semantics (explicit-rep conversion; ordering by absolute position).

  A point unit is `⟨scale, oc, ou⟩` (`AuModel.Point`): positions are `position u v = v·scale + oc·ou ∈ ℚ`.
  "Intermediates representable" is spelled out as range hypotheses on the exact integers the documented
  algorithm of `in<NewRep>(unit)` passes through.
-/
import AuProofs.Lemmas.Point
import AuProofs.C08
namespace Au
open IntTy Mixed Point

def Point.PtUnit.Pos (u : PtUnit) : Prop := u.scale.Pos ∧ u.ou.Pos

/-- The unit's origin, in base units. -/
def originOf (u : PtUnit) : Rat := (u.oc : Rat) * u.ou.scale

/-- Absolute position of the point `v` of unit `u`. -/
def position (u : PtUnit) (v : Int) : Rat := (v : Rat) * u.scale.scale + originOf u

theorem originOf_eq_qval (u : PtUnit) : originOf u = qval u.ou u.oc := rfl

/-- `ratio a b = N/D` in the sense `N · b = D · a`, both positive. -/
theorem ratio_spec (a b : URat) (ha : a.Pos) (hb : b.Pos) :
    ((Point.ratio a b).1 : Rat) * b.scale = ((Point.ratio a b).2 : Rat) * a.scale ∧
    0 < (Point.ratio a b).1 ∧ 0 < (Point.ratio a b).2 := by
  have hn : 0 < a.num * b.den := Nat.mul_pos ha.1 hb.2
  have hd : 0 < a.den * b.num := Nat.mul_pos ha.2 hb.1
  have hg : 0 < Nat.gcd (a.num * b.den) (a.den * b.num) := Nat.gcd_pos_of_pos_left _ hn
  have e1 : (a.num * b.den) / Nat.gcd (a.num * b.den) (a.den * b.num) * Nat.gcd (a.num * b.den) (a.den * b.num) = a.num * b.den :=
    Nat.div_mul_cancel (Nat.gcd_dvd_left _ _)
  have e2 : (a.den * b.num) / Nat.gcd (a.num * b.den) (a.den * b.num) * Nat.gcd (a.num * b.den) (a.den * b.num) = a.den * b.num :=
    Nat.div_mul_cancel (Nat.gcd_dvd_right _ _)
  have p1 : 0 < (a.num * b.den) / Nat.gcd (a.num * b.den) (a.den * b.num) := by
    rcases Nat.eq_zero_or_pos ((a.num * b.den) / Nat.gcd (a.num * b.den) (a.den * b.num)) with h0 | h0
    · rw [h0] at e1; simp at e1; omega
    · exact h0
  have p2 : 0 < (a.den * b.num) / Nat.gcd (a.num * b.den) (a.den * b.num) := by
    rcases Nat.eq_zero_or_pos ((a.den * b.num) / Nat.gcd (a.num * b.den) (a.den * b.num)) with h0 | h0
    · rw [h0] at e2; simp at e2; omega
    · exact h0
  refine ⟨?_, p1, p2⟩
  have c1 := congrArg (fun n : Nat => (n : Rat)) e1
  have c2 := congrArg (fun n : Nat => (n : Rat)) e2
  simp only [Rat.natCast_mul] at c1 c2
  have hgq : ((Nat.gcd (a.num * b.den) (a.den * b.num) : Nat) : Rat) ≠ 0 := by
    have : (0 : Rat) < ((Nat.gcd (a.num * b.den) (a.den * b.num) : Nat) : Rat) := Rat.natCast_pos.mpr hg
    intro h0; rw [h0] at this; exact Rat.lt_irrefl this
  have hda : (a.den : Rat) ≠ 0 := by
    have : (0 : Rat) < (a.den : Rat) := Rat.natCast_pos.mpr ha.2
    intro h0; rw [h0] at this; exact Rat.lt_irrefl this
  have hdb : (b.den : Rat) ≠ 0 := by
    have : (0 : Rat) < (b.den : Rat) := Rat.natCast_pos.mpr hb.2
    intro h0; rw [h0] at this; exact Rat.lt_irrefl this
  unfold Point.ratio URat.scale
  simp only []
  grind

theorem scale_ne_zero (a : URat) (ha : a.Pos) : a.scale ≠ 0 := by
  have hp : (0 : Rat) < a.scale := by
    unfold URat.scale; rw [Rat.div_def]
    exact Rat.mul_pos (Rat.natCast_pos.mpr ha.1) (Rat.inv_pos.mpr (Rat.natCast_pos.mpr ha.2))
  intro h0; rw [h0] at hp; exact Rat.lt_irrefl hp

theorem natCast_ne_zero' (n : Nat) (h : 0 < n) : (n : Rat) ≠ 0 := by
  have : (0 : Rat) < (n : Rat) := Rat.natCast_pos.mpr h
  intro h0; rw [h0] at this; exact Rat.lt_irrefl this

/-- `q` is the truncation toward zero of the rational `x`: `x = num/den` with `den > 0` and `q = num tdiv den`. -/
def IsTruncOf (q : Int) (x : Rat) : Prop :=
  ∃ (num : Int) (den : Nat), 0 < den ∧ q = Int.tdiv num den ∧ (num : Rat) / (den : Rat) = x

theorem common_pos (a b : URat) (ha : a.Pos) (hb : b.Pos) : (URat.common a b).Pos := by
  unfold URat.common URat.Pos
  exact ⟨URat.crossGcd_pos a b ha hb, Nat.mul_pos ha.2 hb.2⟩

/-- **C09, explicit conversion, equal origins.**  `p.in<NewRep>(u')` when `u` and `u'` have the same origin:
if the value fits `CalcRep`, the product by the numerator of `u/u'` fits the promoted working type and the
quotient fits the working type and `NewRep`, the result is `trunc((v·u + o − o')/u')` (= `trunc(v·u/u')`),
with no undefined behaviour, wrap-around or narrowing. -/
theorem C09_convert_exact_same_origin (r n : IntTy) (hr : r ∈ IntTy.all) (hn : n ∈ IntTy.all)
    (u u' : PtUnit) (hu : u.Pos) (hu' : u'.Pos) (v : Int)
    (hoc : originRep.inRange u.oc) (hoc' : originRep.inRange u'.oc)
    (hfo : FitsCommon originRep originRep (URat.ratioL u.ou u'.ou) (URat.ratioR u.ou u'.ou) u.oc u'.oc)
    (heq : originOf u = originOf u')
    (h1 : (IntTy.common r (intermediateRep r n)).inRange v) (h2 : (intermediateRep r n).inRange v)
    (h3 : (IntTy.common (intermediateRep r n).promote n).inRange v)
    (h4 : (IntTy.common (intermediateRep r n).promote n).promote.inRange (v * (Point.ratio u.scale u'.scale).1))
    (h5 : (IntTy.common (intermediateRep r n).promote n).inRange
      (Int.tdiv (v * (Point.ratio u.scale u'.scale).1) (Point.ratio u.scale u'.scale).2))
    (h6 : n.inRange (Int.tdiv (v * (Point.ratio u.scale u'.scale).1) (Point.ratio u.scale u'.scale).2)) :
    inExplicit r n u u' v =
      ⟨.ok (Int.tdiv (v * (Point.ratio u.scale u'.scale).1) (Point.ratio u.scale u'.scale).2), false, false⟩ ∧
    IsTruncOf (Int.tdiv (v * (Point.ratio u.scale u'.scale).1) (Point.ratio u.scale u'.scale).2)
      ((position u v - originOf u') / u'.scale.scale) := by
  obtain ⟨_, hcr, hcrp, hrc, _, hc2, _⟩ := all_closed r hr n hn
  obtain ⟨hspec, hNpos, hDpos⟩ := ratio_spec u.scale u'.scale hu.1 hu'.1
  have horig : (originsEqual u u').val = .ok true := by
    obtain ⟨b, hb, hiff⟩ := C08_compare_exact originRep originRep (by decide) (by decide) rfl u.ou u'.ou hu.2 hu'.2
      u.oc u'.oc hoc hoc' hfo .eq
    unfold originsEqual
    rw [hb]
    have : b = true := hiff.2 (by simpa [CmpOp.rel, originOf_eq_qval] using heq)
    rw [this]
  constructor
  · unfold inExplicit
    simp only []
    rw [repCast_ok r _ hrc hcr v h1 h2, Mixed.andThen_ok, horig]
    simp only []
    have hsub : liftStep (subIn (intermediateRep r n).promote v 0) = ⟨.ok v, false, false⟩ := by
      have hvp : (intermediateRep r n).promote.inRange (v - 0) := by
        simpa using inRange_mono (promote_lo _ hcr) (promote_hi _ hcr) h2
      have hvp' : (intermediateRep r n).promote.inRange v := by simpa using hvp
      unfold liftStep subIn
      cases hsg : (intermediateRep r n).promote.signed with
      | true => simp [hvp']
      | false =>
        have := wrap_of_inRange _ hcrp _ hvp'
        simp [hvp', this]
    rw [hsub, Mixed.andThen_ok]
    exact asRepFrac_ok _ n hc2 hn _ _ hNpos hDpos v h3 h4 h5 h6
  · refine ⟨v * (Point.ratio u.scale u'.scale).1, (Point.ratio u.scale u'.scale).2, hDpos, rfl, ?_⟩
    have hs' := scale_ne_zero u'.scale hu'.1
    have hD := natCast_ne_zero' _ hDpos
    unfold position
    rw [heq, Rat.intCast_mul, Rat.intCast_natCast]
    grind

/-- Non-vacuity: 2500 [1/1000, origin 0] (int32) → unit [1, origin 0] in int32 = 2 (2.5 truncated). -/
example : inExplicit i32 i32 ⟨⟨1, 1000⟩, 0, ⟨1, 1000⟩⟩ ⟨⟨1, 1⟩, 0, ⟨1, 1000⟩⟩ 2500 = ⟨.ok 2, false, false⟩ := by
  decide

/-- **C09, explicit conversion, displaced origins.**  With `dv = origin(u') − origin(u)` counted in the
common unit `ud` of the two origins' units (a valid `int` constant), `kA`, `kD` the ratios of `u` and `ud`
to their common unit `CU`, `Y = v·kA − dv·kD` and `N/D = CU/u'`: if `v`, `dv`, `v·kA`, `dv·kD` fit `CalcRep`,
`Y` fits its promotion and the working type, `Y·N` fits the promoted working type and the quotient fits the
working type and `NewRep`, then `p.in<NewRep>(u') = trunc((v·u + o − o')/u')` exactly, without undefined
behaviour, wrap-around or narrowing. -/
theorem C09_convert_exact_displaced (r n : IntTy) (hr : r ∈ IntTy.all) (hn : n ∈ IntTy.all)
    (u u' : PtUnit) (hu : u.Pos) (hu' : u'.Pos) (v : Int)
    (hoc : originRep.inRange u.oc) (hoc' : originRep.inRange u'.oc)
    (hfo : FitsCommon originRep originRep (URat.ratioL u.ou u'.ou) (URat.ratioR u.ou u'.ou) u.oc u'.oc)
    (hne : originOf u ≠ originOf u')
    (hfd : FitsCommon originRep originRep (URat.ratioL u'.ou u.ou) (URat.ratioR u'.ou u.ou) u'.oc u.oc)
    (hdd : DiffFits originRep originRep (URat.ratioL u'.ou u.ou) (URat.ratioR u'.ou u.ou) u'.oc u.oc)
    (dv : Int) (hdv : dv = u'.oc * (URat.ratioL u'.ou u.ou : Nat) - u.oc * (URat.ratioR u'.ou u.ou : Nat))
    (kA kD : Nat) (hkA : kA = URat.ratioL u.scale (dispUnit u u')) (hkD : kD = URat.ratioR u.scale (dispUnit u u'))
    (N D : Nat) (hN : N = (Point.ratio (URat.common u.scale (dispUnit u u')) u'.scale).1)
    (hD : D = (Point.ratio (URat.common u.scale (dispUnit u u')) u'.scale).2)
    (Y : Int) (hY : Y = v * kA - dv * kD)
    (h1 : (IntTy.common r (intermediateRep r n)).inRange v) (h2 : (intermediateRep r n).inRange v)
    (g1 : (IntTy.common originRep (intermediateRep r n)).inRange dv) (g2 : (intermediateRep r n).inRange dv)
    (hfc : FitsCommon (intermediateRep r n) (intermediateRep r n) kA kD v dv)
    (hdf : DiffFits (intermediateRep r n) (intermediateRep r n) kA kD v dv)
    (h3 : (IntTy.common (intermediateRep r n).promote n).inRange Y)
    (h4 : (IntTy.common (intermediateRep r n).promote n).promote.inRange (Y * N))
    (h5 : (IntTy.common (intermediateRep r n).promote n).inRange (Int.tdiv (Y * N) D))
    (h6 : n.inRange (Int.tdiv (Y * N) D)) :
    inExplicit r n u u' v = ⟨.ok (Int.tdiv (Y * N) D), false, false⟩ ∧
    IsTruncOf (Int.tdiv (Y * N) D) ((position u v - originOf u') / u'.scale.scale) := by
  obtain ⟨_, hcr, hcrp, hrc, hoc2, hc2, hcc⟩ := all_closed r hr n hn
  have hud : (dispUnit u u').Pos := common_pos _ _ hu'.2 hu.2
  have hcu : (URat.common u.scale (dispUnit u u')).Pos := common_pos _ _ hu.1 hud
  obtain ⟨hspec, hNpos, hDpos⟩ := ratio_spec (URat.common u.scale (dispUnit u u')) u'.scale hcu hu'.1
  rw [← hN, ← hD] at hspec
  rw [← hN] at hNpos
  rw [← hD] at hDpos
  have horig : (originsEqual u u').val = .ok false := by
    obtain ⟨b, hb, hiff⟩ := C08_compare_exact originRep originRep (by decide) (by decide) rfl u.ou u'.ou hu.2 hu'.2
      u.oc u'.oc hoc hoc' hfo .eq
    unfold originsEqual
    rw [hb]
    cases b with
    | false => rfl
    | true => exact absurd (by simpa [CmpOp.rel, originOf_eq_qval] using hiff.1 rfl) hne
  have hdisp : dispValue u u' = ⟨.ok dv, false, false⟩ := by
    unfold dispValue
    rw [hdv]
    exact sub_ok originRep originRep (by decide) (by decide) rfl _ _ u'.oc u.oc hoc' hoc hfd hdd
  have hsubv : Mixed.sub (intermediateRep r n) (intermediateRep r n) kA kD v dv = ⟨.ok Y, false, false⟩ := by
    rw [hY]
    exact sub_ok _ _ hcr hcr rfl kA kD v dv h2 g2 hfc hdf
  constructor
  · unfold inExplicit
    simp only []
    rw [repCast_ok r _ hrc hcr v h1 h2, Mixed.andThen_ok, horig]
    simp only []
    rw [hdisp]
    simp only []
    rw [repCast_ok originRep _ hoc2 hcr dv g1 g2, Mixed.andThen_ok, ← hkA, ← hkD, hsubv]
    unfold liftRes
    simp only []
    rw [Mixed.andThen_ok]
    have hpair : Point.ratio (URat.common u.scale (dispUnit u u')) u'.scale = (N, D) := by
      rw [hN, hD]
    rw [hpair]
    simp only []
    exact asRepFrac_ok _ n hc2 hn N D hNpos hDpos Y h3 h4 h5 h6
  · refine ⟨Y * N, D, hDpos, rfl, ?_⟩
    have hs' := scale_ne_zero u'.scale hu'.1
    have hDq := natCast_ne_zero' _ hDpos
    -- v·u = (v·kA)·CU ,  ud = kD·CU
    have e1 := URat.scale_eq_ratioL u.scale (dispUnit u u') hu.1 hud
    have e2 := URat.scale_eq_ratioR u.scale (dispUnit u u') hu.1 hud
    rw [← hkA] at e1
    rw [← hkD] at e2
    -- origins as counts of ud
    have o1 := qval_left u'.ou u.ou hu'.2 hu.2 u'.oc
    have o2 := qval_right u'.ou u.ou hu'.2 hu.2 u.oc
    have hudsc : (dispUnit u u').scale = commonScale u'.ou u.ou := rfl
    unfold position
    rw [originOf_eq_qval u, originOf_eq_qval u', o1, o2, ← hudsc, Rat.intCast_mul, Rat.intCast_natCast, hY,
      Rat.intCast_sub, Rat.intCast_mul, Rat.intCast_mul, Rat.intCast_natCast, Rat.intCast_natCast]
    have hdvq : (dv : Rat) = ((u'.oc * (URat.ratioL u'.ou u.ou : Nat) : Int) : Rat) - ((u.oc * (URat.ratioR u'.ou u.ou : Nat) : Int) : Rat) := by
      rw [hdv, Rat.intCast_sub]
    rw [hdvq]
    grind

/-- Non-vacuity: 20 °C (int32, [1, origin 273150·(1/1000)]) → Fahrenheit-like [5/9, origin 459670·(1/1800)] in int64 = 68. -/
example : inExplicit i32 i64 ⟨⟨1, 1⟩, 273150, ⟨1, 1000⟩⟩ ⟨⟨5, 9⟩, 459670, ⟨1, 1800⟩⟩ 20 = ⟨.ok 68, false, false⟩ := by
  decide

/-! ## Ordering and difference by absolute position -/

theorem rel_shift (op : CmpOp) (a b g c : Rat) (x y : Int) (hg : 0 < g)
    (ha : (x : Rat) * g + c = a) (hb : (y : Rat) * g + c = b) : op.eval x y = true ↔ op.rel a b := by
  rw [eval_iff_rel op x y g hg, ← ha, ← hb]
  cases op <;> simp only [CmpOp.rel] <;> grind

/-- **C09, ordering.**  Whenever `using_common_point_unit` delivers both operands as exact counts `x`, `y` of a
common point unit (scale `cs > 0`, origin `co`: `x·cs + co` and `y·cs + co` are the two absolute positions),
each of the six comparisons of the points is the corresponding comparison of the absolute positions. -/
theorem C09_order (r1 r2 : IntTy) (u1 u2 : PtUnit) (v1 v2 x y : Int) (cs co : Rat) (hcs : 0 < cs)
    (hp : (commonPointPair r1 r2 u1 u2 v1 v2).val = .ok (x, y))
    (hx : (x : Rat) * cs + co = position u1 v1) (hy : (y : Rat) * cs + co = position u2 v2) (op : CmpOp) :
    ∃ b : Bool, (cmpPoints op r1 r2 u1 u2 v1 v2).val = .ok b ∧
      (b = true ↔ op.rel (position u1 v1) (position u2 v2)) := by
  refine ⟨op.eval x y, ?_, rel_shift op _ _ cs co x y hcs hx hy⟩
  unfold cmpPoints
  simp only []
  rw [hp]

/-- **C09, point − point.**  Under the same premise, if the difference of the counts fits the common rep (the rep
of `p1 − p2`), `p1 − p2` is the exact difference of the absolute positions, in units of the common point unit. -/
theorem C09_diff (r1 r2 : IntTy) (h1 : r1 ∈ IntTy.all) (h2 : r2 ∈ IntTy.all) (hs : r1.signed = r2.signed)
    (u1 u2 : PtUnit) (v1 v2 x y : Int) (cs co : Rat)
    (hp : (commonPointPair r1 r2 u1 u2 v1 v2).val = .ok (x, y))
    (hx : (x : Rat) * cs + co = position u1 v1) (hy : (y : Rat) * cs + co = position u2 v2)
    (hfit : (IntTy.common r1 r2).inRange (x - y)) :
    (subPoints r1 r2 u1 u2 v1 v2).val = .ok (x - y) ∧
      ((x - y : Int) : Rat) * cs = position u1 v1 - position u2 v2 := by
  obtain ⟨hc, _⟩ := common_facts r1 h1 r2 h2 hs
  have hpm := promote_mem _ hc
  have hfp : (IntTy.common r1 r2).promote.inRange (x - y) := inRange_mono (promote_lo _ hc) (promote_hi _ hc) hfit
  have hcp : IntTy.common (IntTy.common r1 r2).promote (IntTy.common r1 r2) ∈ IntTy.all ∧
      (IntTy.common (IntTy.common r1 r2).promote (IntTy.common r1 r2)).lo ≤ (IntTy.common r1 r2).promote.lo ∧
      (IntTy.common r1 r2).promote.hi ≤ (IntTy.common (IntTy.common r1 r2).promote (IntTy.common r1 r2)).hi := by
    have : ∀ c ∈ IntTy.all, IntTy.common c.promote c ∈ IntTy.all ∧ (IntTy.common c.promote c).lo ≤ c.promote.lo ∧
        c.promote.hi ≤ (IntTy.common c.promote c).hi := by decide
    exact this _ hc
  constructor
  · unfold subPoints
    simp only []
    rw [hp]
    simp only []
    have hstep : liftStep (subIn (IntTy.common r1 r2).promote x y) = ⟨.ok (x - y), false, false⟩ := by
      unfold liftStep subIn
      cases hsg : (IntTy.common r1 r2).promote.signed with
      | true => simp [hfp]
      | false => simp [hfp, wrap_of_inRange _ hpm _ hfp]
    rw [hstep, Mixed.andThen_ok, repCast_ok _ _ hcp.1 hc _ (inRange_mono hcp.2.1 hcp.2.2 hfp) hfit]
  · rw [← hx, ← hy, Rat.intCast_sub]
    grind

/-- **C09, `<=>` on points.**  Under the same premise, with both counts in the range of the common rep, `p1 <=> p2`
orders the points by absolute position and agrees with each of the six comparison operators (since the fix of
finding F11/F17 it converts through the common rep like they do). -/
theorem C09_spaceship (r1 r2 : IntTy) (h1 : r1 ∈ IntTy.all) (h2 : r2 ∈ IntTy.all) (hs : r1.signed = r2.signed)
    (u1 u2 : PtUnit) (v1 v2 x y : Int) (cs co : Rat) (hcs : 0 < cs)
    (hp : (commonPointPair r1 r2 u1 u2 v1 v2).val = .ok (x, y))
    (hx : (x : Rat) * cs + co = position u1 v1) (hy : (y : Rat) * cs + co = position u2 v2)
    (hxr : (IntTy.common r1 r2).inRange x) (hyr : (IntTy.common r1 r2).inRange y) :
    (spaceshipPoints r1 r2 u1 u2 v1 v2).val = .ok (compare x y) ∧
    (compare x y = .lt ↔ position u1 v1 < position u2 v2) ∧
    (compare x y = .eq ↔ position u1 v1 = position u2 v2) ∧
    (compare x y = .gt ↔ position u2 v2 < position u1 v1) ∧
    ∀ op, (cmpPoints op r1 r2 u1 u2 v1 v2).val = .ok (op.ofOrdering (compare x y)) := by
  obtain ⟨hc, _⟩ := common_facts r1 h1 r2 h2 hs
  obtain ⟨hpp, hplo, hphi, _, _, _, _⟩ := uac_facts _ hc _ hc rfl
  have w1 := wrap_of_inRange _ hpp _ (inRange_mono hplo hphi hxr)
  have w2 := wrap_of_inRange _ hpp _ (inRange_mono hplo hphi hyr)
  refine ⟨?_, ?_, ?_, ?_, ?_⟩
  · unfold spaceshipPoints
    simp only []
    rw [hp]
    simp only [w1, w2]
  · have h := rel_shift .lt _ _ cs co x y hcs hx hy
    simp only [CmpOp.eval, CmpOp.rel, decide_eq_true_eq] at h
    exact Int.compare_eq_lt.trans h
  · have h := rel_shift .eq _ _ cs co x y hcs hx hy
    simp only [CmpOp.eval, CmpOp.rel, decide_eq_true_eq] at h
    exact Int.compare_eq_eq.trans h
  · have h := rel_shift .gt _ _ cs co x y hcs hx hy
    simp only [CmpOp.eval, CmpOp.rel, decide_eq_true_eq] at h
    exact Int.compare_eq_gt.trans h
  · intro op
    unfold cmpPoints
    simp only []
    rw [hp]
    simp only []
    congr 1
    rcases Int.lt_trichotomy x y with hlt | heq | hgt
    · have hcmp : compare x y = .lt := Int.compare_eq_lt.2 hlt
      rw [hcmp]
      have n1 : ¬ x = y := by omega
      have n2 : ¬ x > y := by omega
      have n3 : x ≤ y := by omega
      have n4 : ¬ x ≥ y := by omega
      cases op <;> simp [CmpOp.ofOrdering, CmpOp.eval, hlt, n1, n2, n3, n4]
    · subst heq
      have hcmp : compare x x = .eq := Int.compare_eq_eq.2 rfl
      rw [hcmp]
      cases op <;> simp [CmpOp.ofOrdering, CmpOp.eval]
    · have hcmp : compare x y = .gt := Int.compare_eq_gt.2 hgt
      rw [hcmp]
      have n1 : ¬ x = y := by omega
      have n2 : ¬ x < y := by omega
      have n3 : ¬ x ≤ y := by omega
      have n4 : x ≥ y := by omega
      cases op <;> simp [CmpOp.ofOrdering, CmpOp.eval, hgt, n1, n2, n3, n4]

/-- Regression guard for finding F11/F17 on points: int16 −7705 [1/1000, origin 0] vs int32 −13 [5/9, origin 0]:
`<=>` is `less` like `<` (the int16 operand used to be converted in int16). -/
theorem C09_F11_fixed_spaceship :
    (spaceshipPoints i16 i32 ⟨⟨1, 1000⟩, 0, ⟨1, 1000⟩⟩ ⟨⟨5, 9⟩, 0, ⟨1, 1800⟩⟩ (-7705) (-13)).val = .ok .lt ∧
    (cmpPoints .lt i16 i32 ⟨⟨1, 1000⟩, 0, ⟨1, 1000⟩⟩ ⟨⟨5, 9⟩, 0, ⟨1, 1800⟩⟩ (-7705) (-13)).val = .ok true := by
  decide

/-- Non-vacuity of the premise: 20 [1, 273150·(1/1000)] vs 68 [5/9, 459670·(1/1800)] are delivered as the counts
(340000, 340000) of the common point unit 1/9000 with the Fahrenheit-like origin: equal positions. -/
example : (commonPointPair i32 i32 ⟨⟨1, 1⟩, 273150, ⟨1, 1000⟩⟩ ⟨⟨5, 9⟩, 459670, ⟨1, 1800⟩⟩ 20 68).val = .ok (340000, 340000) := by
  decide

end Au

/-
  AuProofs.C09Full — discharges the premise of `C09_order` / `C09_diff` / `C09_spaceship`: whenever
  `using_common_point_unit` returns a pair without the `wrapped` / `narrowed` flags, the two counts are the
  exact positions in the common point unit (no truncation hypothesis: the common point unit divides both
  units and both non-zero origin displacements).
-/
import AuProofs.C09
import AuProofs.Lemmas.PointClean
set_option linter.unusedSimpArgs false
namespace Au
open IntTy Mixed Point URat

theorem res_eta (a : Res Int) (v : Int) (h1 : a.val = .ok v) (h2 : a.wrapped = false) (h3 : a.narrowed = false) :
    a = ⟨.ok v, false, false⟩ := by
  cases a; simp_all

theorem liftRes_inv (r : Res Int) (y : Int) (h : liftRes r = ⟨.ok y, false, false⟩) : r = ⟨.ok y, false, false⟩ := by
  unfold liftRes at h
  injection h with h1 h2 h3
  exact res_eta r y h1 h2 h3

theorem liftStep_add_inv (p : IntTy) (hp : p ∈ IntTy.all) (a b y : Int)
    (h : liftStep (addIn p a b) = ⟨.ok y, false, false⟩) : y = a + b := by
  unfold liftStep addIn at h
  cases hs : p.signed with
  | true =>
    rw [hs] at h
    simp only [if_true] at h
    by_cases hr : p.inRange (a + b)
    · rw [if_pos hr] at h
      injection h with h1
      injection h1 with h1
      exact h1.symm
    · rw [if_neg hr] at h; simp at h
  | false =>
    rw [hs] at h
    simp only [Bool.false_eq_true, if_false] at h
    injection h with h1 h2
    have hr : p.inRange (a + b) := by simpa using h2
    rw [wrap_of_inRange _ hp _ hr] at h1
    injection h1 with h1
    exact h1.symm

theorem liftStep_sub_inv (p : IntTy) (hp : p ∈ IntTy.all) (a b y : Int)
    (h : liftStep (subIn p a b) = ⟨.ok y, false, false⟩) : y = a - b := by
  unfold liftStep subIn at h
  cases hs : p.signed with
  | true =>
    rw [hs] at h
    simp only [if_true] at h
    by_cases hr : p.inRange (a - b)
    · rw [if_pos hr] at h
      injection h with h1
      injection h1 with h1
      exact h1.symm
    · rw [if_neg hr] at h; simp at h
  | false =>
    rw [hs] at h
    simp only [Bool.false_eq_true, if_false] at h
    injection h with h1 h2
    have hr : p.inRange (a - b) := by simpa using h2
    rw [wrap_of_inRange _ hp _ hr] at h1
    injection h1 with h1
    exact h1.symm

theorem asRepFrac_one_inv (p n : IntTy) (hc : IntTy.common p n ∈ IntTy.all) (y z : Int)
    (h : asRepFrac p n 1 1 y = ⟨.ok z, false, false⟩) : z = y := by
  unfold asRepFrac at h
  simp only [] at h
  obtain ⟨x, h1, h⟩ := andThen_inv _ _ _ h
  obtain ⟨w, h2, h3⟩ := andThen_inv _ _ _ h
  have e1 := staticCast_inv _ _ _ h1
  have e2 := applyMag_int_inv _ hc 1 x w h2
  have e3 := staticCast_inv _ _ _ h3
  rw [e3, e2, e1]; simp

theorem types_closed : ∀ r ∈ IntTy.all, ∀ c ∈ IntTy.all,
    (intermediateRep r c ∈ IntTy.all ∧ (intermediateRep r c).promote ∈ IntTy.all ∧
     IntTy.common r (intermediateRep r c) ∈ IntTy.all ∧
     IntTy.common (intermediateRep r c).promote c ∈ IntTy.all ∧
     c.promote ∈ IntTy.all ∧ IntTy.common c.promote c ∈ IntTy.all ∧ IntTy.common originRep c ∈ IntTy.all) := by
  decide

/-- Two origins that the compile-time comparison calls equal are equal rationals; the displacement the library
computes is the exact difference, counted in `dispUnit`. -/
theorem originsEqual_true (u1 u2 : PtUnit) (h1 : u1.Pos) (h2 : u2.Pos) (r1 : originRep.inRange u1.oc) (r2 : originRep.inRange u2.oc)
    (h : (originsEqual u1 u2).val = .ok true) : originOf u1 = originOf u2 := by
  unfold originsEqual at h
  have := cmp_i32_val .eq _ _ u1.oc u2.oc true r1 r2 h
  simp only [CmpOp.eval] at this
  have he : u1.oc * (URat.ratioL u1.ou u2.ou : Nat) = u2.oc * (URat.ratioR u1.ou u2.ou : Nat) := of_decide_eq_true this.symm
  rw [originOf_eq_qval, originOf_eq_qval, qval_left u1.ou u2.ou h1.2 h2.2, qval_right u1.ou u2.ou h1.2 h2.2, he]

theorem dispValue_exact (u1 u2 : PtUnit) (h1 : u1.Pos) (h2 : u2.Pos) (r1 : originRep.inRange u1.oc) (r2 : originRep.inRange u2.oc)
    (dv : Int) (h : (dispValue u1 u2).val = .ok dv) :
    (dv : Rat) * (dispUnit u1 u2).scale = originOf u2 - originOf u1 := by
  unfold dispValue at h
  have := sub_i32_val _ _ u2.oc u1.oc dv r2 r1 h
  have e : (dispUnit u1 u2).scale = commonScale u2.ou u1.ou := rfl
  rw [e, originOf_eq_qval, originOf_eq_qval, qval_left u2.ou u1.ou h2.2 h1.2, qval_right u2.ou u1.ou h2.2 h1.2, this,
    Rat.intCast_sub]
  grind

/-- `rep_cast<C>(point)` returns the stored value whenever it is clean. -/
theorem repCastPoint_inv (r c : IntTy) (hr : r ∈ IntTy.all) (hc : c ∈ IntTy.all) (u : PtUnit) (hu : u.Pos)
    (ho : originRep.inRange u.oc) (v z : Int) (h : repCastPoint r c u v = ⟨.ok z, false, false⟩) : z = v := by
  obtain ⟨hcr, hcrp, hrc, hc2, _, _, _⟩ := types_closed r hr c hc
  unfold repCastPoint inExplicit at h
  simp only [] at h
  obtain ⟨a, ha, h⟩ := andThen_inv _ _ _ h
  have ea := repCast_inv r _ hrc v a ha
  have heq : (originsEqual u u).val = .ok true := by
    obtain ⟨k1, k2⟩ := ratioL_self u.ou hu.2
    cases hv : (originsEqual u u).val with
    | ub w => rw [hv] at h; simp [ubRes] at h
    | ok b =>
      unfold originsEqual at hv
      have := cmp_i32_val .eq _ _ u.oc u.oc b ho ho hv
      rw [k1, k2] at this
      simp [CmpOp.eval] at this
      rw [this]
  rw [heq] at h
  simp only [] at h
  obtain ⟨y, hy, h⟩ := andThen_inv _ _ _ h
  have ey := liftStep_sub_inv _ hcrp a 0 y hy
  rw [ratio_self u.scale hu.1] at h
  simp only [] at h
  have ez := asRepFrac_one_inv _ c hc2 y z h
  rw [ez, ey, ea]; simp

/-- **The implicit conversion into a unit that divides the source unit and the origin displacement is the exact
affine map**, whenever it is clean. -/
theorem inImplicit_exact (c : IntTy) (hc : c ∈ IntTy.all) (u cu : PtUnit) (hu : u.Pos) (hcu : cu.Pos)
    (ho : originRep.inRange u.oc) (hoc : originRep.inRange cu.oc)
    (hds : Divides cu.scale u.scale)
    (hdd : (originsEqual cu u).val ≠ .ok true → Divides cu.scale (dispUnit cu u))
    (v x : Int) (h : inImplicit c u cu v = ⟨.ok x, false, false⟩) :
    (x : Rat) * cu.scale.scale + originOf cu = position u v := by
  obtain ⟨_, _, _, _, hcp, hcpc, hoc2⟩ := types_closed c hc c hc
  unfold inImplicit at h
  cases heq : (originsEqual cu u).val with
  | ub w => rw [heq] at h; simp [ubRes] at h
  | ok b =>
    rw [heq] at h
    cases b with
    | true =>
      simp only [] at h
      obtain ⟨y, hy, h⟩ := andThen_inv _ _ _ h
      obtain ⟨z, hz, h⟩ := andThen_inv _ _ _ h
      have ey := liftStep_add_inv _ hcp v 0 y hy
      have ez := repCast_inv _ _ hcpc y z hz
      rcases hrat : ratio u.scale cu.scale with ⟨N, D⟩
      rw [hrat] at h
      simp only [] at h
      have ex := inUnit_inv c hc N z x h
      have hD : D = 1 := by
        have := ratio_of_dvd cu.scale u.scale hcu.1 hu.1 hds
        rw [hrat] at this; exact this
      obtain ⟨hspec, _, _⟩ := ratio_spec u.scale cu.scale hu.1 hcu.1
      rw [hrat] at hspec
      simp only [hD] at hspec
      have horig := originsEqual_true cu u hcu hu hoc ho heq
      unfold position
      rw [← horig, ex, ez, ey, Rat.intCast_mul, Rat.intCast_natCast, Rat.intCast_add]
      grind
    | false =>
      simp only [] at h
      cases hdv : (dispValue cu u).val with
      | ub w => rw [hdv] at h; simp [ubRes] at h
      | ok dv =>
        rw [hdv] at h
        simp only [] at h
        obtain ⟨d, hd, h⟩ := andThen_inv _ _ _ h
        obtain ⟨y, hy, h⟩ := andThen_inv _ _ _ h
        obtain ⟨z, hz, h⟩ := andThen_inv _ _ _ h
        have ed := repCast_inv _ _ hoc2 dv d hd
        have ey := add_same_inv c hc _ _ v d y (liftRes_inv _ _ hy)
        have ez := repCast_inv _ _ hcpc y z hz
        have hud : (dispUnit cu u).Pos := common_pos' _ _ hu.2 hcu.2
        have hCU : (URat.common u.scale (dispUnit cu u)).Pos := common_pos' _ _ hu.1 hud
        rcases hrat : ratio (URat.common u.scale (dispUnit cu u)) cu.scale with ⟨N, D⟩
        rw [hrat] at h
        simp only [] at h
        have ex := inUnit_inv c hc N z x h
        have hdiv : Divides cu.scale (URat.common u.scale (dispUnit cu u)) :=
          dvd_common _ _ _ hds (hdd (by rw [heq]; simp))
        have hD : D = 1 := by
          have := ratio_of_dvd cu.scale _ hcu.1 hCU hdiv
          rw [hrat] at this; exact this
        obtain ⟨hspec, _, _⟩ := ratio_spec (URat.common u.scale (dispUnit cu u)) cu.scale hCU hcu.1
        rw [hrat] at hspec
        simp only [hD] at hspec
        have e1 := URat.scale_eq_ratioL u.scale (dispUnit cu u) hu.1 hud
        have e2 := URat.scale_eq_ratioR u.scale (dispUnit cu u) hu.1 hud
        have hdisp := dispValue_exact cu u hcu hu hoc ho dv hdv
        unfold position
        rw [ex, ez, ey, ed, Rat.intCast_mul, Rat.intCast_natCast, Rat.intCast_add, Rat.intCast_mul, Rat.intCast_mul,
          Rat.intCast_natCast, Rat.intCast_natCast]
        grind

/-! ### The common point unit divides both units and both non-zero displacements -/

/-- One step of `CommonPointUnit::Mag`: take the displacement's unit into the gcd unless the displacement is `ZERO`. -/
def cpuStep (co : PtUnit) (s : URat) (u : PtUnit) : URat :=
  match (originsEqual co u).val with
  | .ok true => s
  | _ => gcdScale s (dispUnit co u)

theorem cpu_scale (u1 u2 : PtUnit) :
    (commonPointUnit u1 u2).scale =
      cpuStep (commonOriginUnit u1 u2) (cpuStep (commonOriginUnit u1 u2) (gcdScale u1.scale u2.scale) u1) u2 := by
  unfold commonPointUnit cpuStep
  rfl

theorem cpu_oc (u1 u2 : PtUnit) : (commonPointUnit u1 u2).oc = (commonOriginUnit u1 u2).oc ∧
    (commonPointUnit u1 u2).ou = (commonOriginUnit u1 u2).ou := by
  unfold commonPointUnit
  exact ⟨rfl, rfl⟩

theorem cpuStep_pos (co : PtUnit) (hco : co.Pos) (s : URat) (hs : s.Pos) (u : PtUnit) (hu : u.Pos) : (cpuStep co s u).Pos := by
  unfold cpuStep
  have hd : (dispUnit co u).Pos := common_pos' _ _ hu.2 hco.2
  split
  · exact hs
  · exact gcdScale_pos _ _ hs hd

theorem cpuStep_dvd (co : PtUnit) (hco : co.Pos) (s : URat) (hs : s.Pos) (u : PtUnit) (hu : u.Pos) : Divides (cpuStep co s u) s := by
  unfold cpuStep
  have hd : (dispUnit co u).Pos := common_pos' _ _ hu.2 hco.2
  split
  · exact dvd_refl s
  · exact gcdScale_dvd_left _ _ hs hd

theorem cpuStep_dvd_disp (co : PtUnit) (hco : co.Pos) (s : URat) (hs : s.Pos) (u : PtUnit) (hu : u.Pos)
    (hne : (originsEqual co u).val ≠ .ok true) : Divides (cpuStep co s u) (dispUnit co u) := by
  unfold cpuStep
  have hd : (dispUnit co u).Pos := common_pos' _ _ hu.2 hco.2
  split
  · rename_i h; exact absurd h hne
  · exact gcdScale_dvd_right _ _ hs hd

theorem commonOriginUnit_cases (u1 u2 : PtUnit) : commonOriginUnit u1 u2 = u1 ∨ commonOriginUnit u1 u2 = u2 := by
  unfold commonOriginUnit
  split
  · exact Or.inl rfl
  · exact Or.inr rfl

/-- Facts about `CommonPointUnit<U1, U2>` used below (its origin is one of the two origins; its scale is positive and
divides both scales and the unit of every non-`ZERO` displacement from its origin). -/
theorem cpu_facts (u1 u2 : PtUnit) (h1 : u1.Pos) (h2 : u2.Pos) (r1 : originRep.inRange u1.oc) (r2 : originRep.inRange u2.oc) :
    let cu := commonPointUnit u1 u2
    cu.Pos ∧ originRep.inRange cu.oc ∧ Divides cu.scale u1.scale ∧ Divides cu.scale u2.scale ∧
    ((originsEqual cu u1).val ≠ .ok true → Divides cu.scale (dispUnit cu u1)) ∧
    ((originsEqual cu u2).val ≠ .ok true → Divides cu.scale (dispUnit cu u2)) := by
  intro cu
  have hco : (commonOriginUnit u1 u2).Pos ∧ originRep.inRange (commonOriginUnit u1 u2).oc := by
    rcases commonOriginUnit_cases u1 u2 with h | h <;> rw [h]
    · exact ⟨h1, r1⟩
    · exact ⟨h2, r2⟩
  have hbase : (gcdScale u1.scale u2.scale).Pos := gcdScale_pos _ _ h1.1 h2.1
  have hA : (cpuStep (commonOriginUnit u1 u2) (gcdScale u1.scale u2.scale) u1).Pos := cpuStep_pos _ hco.1 _ hbase _ h1
  have hS : cu.scale.Pos := by
    show (commonPointUnit u1 u2).scale.Pos
    rw [cpu_scale]; exact cpuStep_pos _ hco.1 _ hA _ h2
  have dSA : Divides cu.scale (cpuStep (commonOriginUnit u1 u2) (gcdScale u1.scale u2.scale) u1) := by
    show Divides (commonPointUnit u1 u2).scale _
    rw [cpu_scale]; exact cpuStep_dvd _ hco.1 _ hA _ h2
  have dAB : Divides (cpuStep (commonOriginUnit u1 u2) (gcdScale u1.scale u2.scale) u1) (gcdScale u1.scale u2.scale) :=
    cpuStep_dvd _ hco.1 _ hbase _ h1
  have dSB : Divides cu.scale (gcdScale u1.scale u2.scale) := Divides.trans hA dSA dAB
  refine ⟨⟨hS, hco.1.2⟩, hco.2, ?_, ?_, ?_, ?_⟩
  · exact Divides.trans hbase dSB (gcdScale_dvd_left _ _ h1.1 h2.1)
  · exact Divides.trans hbase dSB (gcdScale_dvd_right _ _ h1.1 h2.1)
  · intro hne
    have hne' : (originsEqual (commonOriginUnit u1 u2) u1).val ≠ .ok true := hne
    have : Divides (cpuStep (commonOriginUnit u1 u2) (gcdScale u1.scale u2.scale) u1) (dispUnit (commonOriginUnit u1 u2) u1) :=
      cpuStep_dvd_disp _ hco.1 _ hbase _ h1 hne'
    exact Divides.trans hA dSA this
  · intro hne
    have hne' : (originsEqual (commonOriginUnit u1 u2) u2).val ≠ .ok true := hne
    show Divides (commonPointUnit u1 u2).scale (dispUnit (commonOriginUnit u1 u2) u2)
    rw [cpu_scale]
    exact cpuStep_dvd_disp _ hco.1 _ hA _ h2 hne'

/-! ## The premise of `C09_order` / `C09_diff` / `C09_spaceship`, proved -/

/-- **C09, exactness of `using_common_point_unit`.**  For integral reps, positive rational units with `int` origins
and stored values: whenever `using_common_point_unit` delivers both operands without the `wrapped` / `narrowed`
flags (no unsigned wrap-around, no lossy narrowing; undefined behaviour is excluded by `hp`), the two counts are the
exact absolute positions, expressed in `CommonPointUnitT<U1, U2>`.  No truncation hypothesis is needed. -/
theorem C09_common_pair_exact (r1 r2 : IntTy) (h1 : r1 ∈ IntTy.all) (h2 : r2 ∈ IntTy.all)
    (u1 u2 : PtUnit) (hu1 : u1.Pos) (hu2 : u2.Pos) (ho1 : originRep.inRange u1.oc) (ho2 : originRep.inRange u2.oc)
    (v1 v2 x y : Int)
    (hp : (commonPointPair r1 r2 u1 u2 v1 v2).val = .ok (x, y))
    (hclean : (commonPointPair r1 r2 u1 u2 v1 v2).wrapped = false ∧ (commonPointPair r1 r2 u1 u2 v1 v2).narrowed = false) :
    (x : Rat) * (commonPointUnit u1 u2).scale.scale + originOf (commonPointUnit u1 u2) = position u1 v1 ∧
    (y : Rat) * (commonPointUnit u1 u2).scale.scale + originOf (commonPointUnit u1 u2) = position u2 v2 := by
  have hc : IntTy.common r1 r2 ∈ IntTy.all := by
    have : ∀ a ∈ IntTy.all, ∀ b ∈ IntTy.all, IntTy.common a b ∈ IntTy.all := by decide
    exact this r1 h1 r2 h2
  obtain ⟨hcuP, hcuR, d1, d2, dd1, dd2⟩ := cpu_facts u1 u2 hu1 hu2 ho1 ho2
  obtain ⟨hw, hn⟩ := hclean
  unfold commonPointPair at hp hw hn
  simp only [] at hp hw hn
  cases ha : (andThen (repCastPoint r1 (IntTy.common r1 r2) u1 v1) fun x => inImplicit (IntTy.common r1 r2) u1 (commonPointUnit u1 u2) x).val with
  | ub w => rw [ha] at hp; simp at hp
  | ok x' =>
    cases hb : (andThen (repCastPoint r2 (IntTy.common r1 r2) u2 v2) fun x => inImplicit (IntTy.common r1 r2) u2 (commonPointUnit u1 u2) x).val with
    | ub w => rw [ha, hb] at hp; simp at hp
    | ok y' =>
      rw [ha, hb] at hp hw hn
      simp only [] at hp hw hn
      injection hp with hp
      injection hp with hx hy
      subst hx; subst hy
      rw [Bool.or_eq_false_iff] at hw hn
      have ea := ar_eta _ _ ha hw.1 hn.1
      have eb := ar_eta _ _ hb hw.2 hn.2
      obtain ⟨z1, hz1, hi1⟩ := andThen_inv _ _ _ ea
      obtain ⟨z2, hz2, hi2⟩ := andThen_inv _ _ _ eb
      have e1 := repCastPoint_inv r1 _ h1 hc u1 hu1 ho1 v1 z1 hz1
      have e2 := repCastPoint_inv r2 _ h2 hc u2 hu2 ho2 v2 z2 hz2
      rw [e1] at hi1
      rw [e2] at hi2
      exact ⟨inImplicit_exact _ hc u1 _ hu1 hcuP ho1 hcuR d1 dd1 v1 x' hi1,
             inImplicit_exact _ hc u2 _ hu2 hcuP ho2 hcuR d2 dd2 v2 y' hi2⟩

theorem cpu_scale_pos (u1 u2 : PtUnit) (hu1 : u1.Pos) (hu2 : u2.Pos) (ho1 : originRep.inRange u1.oc) (ho2 : originRep.inRange u2.oc) :
    0 < (commonPointUnit u1 u2).scale.scale := by
  have := (cpu_facts u1 u2 hu1 hu2 ho1 ho2).1.1
  unfold URat.scale; rw [Rat.div_def]
  exact Rat.mul_pos (Rat.natCast_pos.mpr this.1) (Rat.inv_pos.mpr (Rat.natCast_pos.mpr this.2))

/-- **C09, ordering (end to end).**  Whenever `using_common_point_unit` is clean, each of the six comparisons of two
points is the corresponding comparison of their absolute positions — regardless of the units involved. -/
theorem C09_order_full (r1 r2 : IntTy) (h1 : r1 ∈ IntTy.all) (h2 : r2 ∈ IntTy.all)
    (u1 u2 : PtUnit) (hu1 : u1.Pos) (hu2 : u2.Pos) (ho1 : originRep.inRange u1.oc) (ho2 : originRep.inRange u2.oc)
    (v1 v2 x y : Int)
    (hp : (commonPointPair r1 r2 u1 u2 v1 v2).val = .ok (x, y))
    (hclean : (commonPointPair r1 r2 u1 u2 v1 v2).wrapped = false ∧ (commonPointPair r1 r2 u1 u2 v1 v2).narrowed = false)
    (op : CmpOp) :
    ∃ b : Bool, (cmpPoints op r1 r2 u1 u2 v1 v2).val = .ok b ∧
      (b = true ↔ op.rel (position u1 v1) (position u2 v2)) := by
  obtain ⟨hx, hy⟩ := C09_common_pair_exact r1 r2 h1 h2 u1 u2 hu1 hu2 ho1 ho2 v1 v2 x y hp hclean
  exact C09_order r1 r2 u1 u2 v1 v2 x y _ _ (cpu_scale_pos u1 u2 hu1 hu2 ho1 ho2) hp hx hy op

/-- **C09, point − point (end to end).** -/
theorem C09_diff_full (r1 r2 : IntTy) (h1 : r1 ∈ IntTy.all) (h2 : r2 ∈ IntTy.all) (hs : r1.signed = r2.signed)
    (u1 u2 : PtUnit) (hu1 : u1.Pos) (hu2 : u2.Pos) (ho1 : originRep.inRange u1.oc) (ho2 : originRep.inRange u2.oc)
    (v1 v2 x y : Int)
    (hp : (commonPointPair r1 r2 u1 u2 v1 v2).val = .ok (x, y))
    (hclean : (commonPointPair r1 r2 u1 u2 v1 v2).wrapped = false ∧ (commonPointPair r1 r2 u1 u2 v1 v2).narrowed = false)
    (hfit : (IntTy.common r1 r2).inRange (x - y)) :
    (subPoints r1 r2 u1 u2 v1 v2).val = .ok (x - y) ∧
      ((x - y : Int) : Rat) * (commonPointUnit u1 u2).scale.scale = position u1 v1 - position u2 v2 := by
  obtain ⟨hx, hy⟩ := C09_common_pair_exact r1 r2 h1 h2 u1 u2 hu1 hu2 ho1 ho2 v1 v2 x y hp hclean
  exact C09_diff r1 r2 h1 h2 hs u1 u2 v1 v2 x y _ _ hp hx hy hfit

/-- **C09, `<=>` on points (end to end).** -/
theorem C09_spaceship_full (r1 r2 : IntTy) (h1 : r1 ∈ IntTy.all) (h2 : r2 ∈ IntTy.all) (hs : r1.signed = r2.signed)
    (u1 u2 : PtUnit) (hu1 : u1.Pos) (hu2 : u2.Pos) (ho1 : originRep.inRange u1.oc) (ho2 : originRep.inRange u2.oc)
    (v1 v2 x y : Int)
    (hp : (commonPointPair r1 r2 u1 u2 v1 v2).val = .ok (x, y))
    (hclean : (commonPointPair r1 r2 u1 u2 v1 v2).wrapped = false ∧ (commonPointPair r1 r2 u1 u2 v1 v2).narrowed = false)
    (hxr : (IntTy.common r1 r2).inRange x) (hyr : (IntTy.common r1 r2).inRange y) :
    (spaceshipPoints r1 r2 u1 u2 v1 v2).val = .ok (compare x y) ∧
    (compare x y = .lt ↔ position u1 v1 < position u2 v2) ∧
    (compare x y = .eq ↔ position u1 v1 = position u2 v2) ∧
    (compare x y = .gt ↔ position u2 v2 < position u1 v1) ∧
    ∀ op, (cmpPoints op r1 r2 u1 u2 v1 v2).val = .ok (op.ofOrdering (compare x y)) := by
  obtain ⟨hx, hy⟩ := C09_common_pair_exact r1 r2 h1 h2 u1 u2 hu1 hu2 ho1 ho2 v1 v2 x y hp hclean
  exact C09_spaceship r1 r2 h1 h2 hs u1 u2 v1 v2 x y _ _ (cpu_scale_pos u1 u2 hu1 hu2 ho1 ho2) hp hx hy hxr hyr

/-- Non-vacuity of the hypotheses of the four theorems above: 20 [1, origin 273150·(1/1000)] (int32) and
68 [5/9, origin 459670·(1/1800)] (int32) are delivered cleanly as (340000, 340000). -/
example : commonPointPair i32 i32 ⟨⟨1, 1⟩, 273150, ⟨1, 1000⟩⟩ ⟨⟨5, 9⟩, 459670, ⟨1, 1800⟩⟩ 20 68 = ⟨.ok (340000, 340000), false, false⟩ ∧
    originRep.inRange 273150 ∧ originRep.inRange 459670 := by
  decide

/-- … and a strict case with different reps: 21 °C-like (int16) vs 68 °F-like (int64): `<` is false, `>` is true. -/
example : commonPointPair i16 i64 ⟨⟨1, 1⟩, 273150, ⟨1, 1000⟩⟩ ⟨⟨5, 9⟩, 459670, ⟨1, 1800⟩⟩ 21 68 = ⟨.ok (349000, 340000), false, false⟩ ∧
    (cmpPoints .gt i16 i64 ⟨⟨1, 1⟩, 273150, ⟨1, 1000⟩⟩ ⟨⟨5, 9⟩, 459670, ⟨1, 1800⟩⟩ 21 68).val = .ok true ∧
    (subPoints i16 i64 ⟨⟨1, 1⟩, 273150, ⟨1, 1000⟩⟩ ⟨⟨5, 9⟩, 459670, ⟨1, 1800⟩⟩ 21 68).val = .ok 9000 ∧
    (spaceshipPoints i16 i64 ⟨⟨1, 1⟩, 273150, ⟨1, 1000⟩⟩ ⟨⟨5, 9⟩, 459670, ⟨1, 1800⟩⟩ 21 68).val = .ok .gt := by
  decide

/-! ## Non-truncating conversions through the public API -/

/-- **C09, `p.in(u')` / `p.as(u')` (implicit rep).**  When the target unit divides the source unit and (unless the two
origins are equal) the unit of the origin displacement, a clean conversion is the exact affine map — no truncation:
`x · u' + origin(u') = v · u + origin(u)`. -/
theorem C09_in_exact (r : IntTy) (hr : r ∈ IntTy.all) (u u' : PtUnit) (hu : u.Pos) (hu' : u'.Pos)
    (ho : originRep.inRange u.oc) (ho' : originRep.inRange u'.oc)
    (hds : Divides u'.scale u.scale)
    (hdd : (originsEqual u' u).val ≠ .ok true → Divides u'.scale (dispUnit u' u))
    (v x : Int) (h : inImplicit r u u' v = ⟨.ok x, false, false⟩) :
    (x : Rat) * u'.scale.scale + originOf u' = position u v :=
  inImplicit_exact r hr u u' hu hu' ho ho' hds hdd v x h

/-- Non-vacuity: 20 [1, 273150·(1/1000)] (int32) `.in` the unit [1/9000, origin 0]: 2638350 (= 293.15 · 9000). -/
example : inImplicit i32 ⟨⟨1, 1⟩, 273150, ⟨1, 1000⟩⟩ ⟨⟨1, 9000⟩, 0, ⟨1, 1000⟩⟩ 20 = ⟨.ok 2638350, false, false⟩ := by decide

theorem asRepFrac_int_inv (p n : IntTy) (hc : IntTy.common p n ∈ IntTy.all) (N : Nat) (y z : Int)
    (h : asRepFrac p n N 1 y = ⟨.ok z, false, false⟩) : z = y * N := by
  unfold asRepFrac at h
  simp only [] at h
  obtain ⟨x, h1, h⟩ := andThen_inv _ _ _ h
  obtain ⟨w, h2, h3⟩ := andThen_inv _ _ _ h
  have e1 := staticCast_inv _ _ _ h1
  have e2 := applyMag_int_inv _ hc N x w h2
  have e3 := staticCast_inv _ _ _ h3
  rw [e3, e2, e1]

/-- **C09, `p.in<NewRep>(u')` / `as<NewRep>` / `coerce_in` (explicit rep), non-truncating case.**  Same divisibility
hypotheses: a clean explicit conversion is the exact affine map.  (The general, truncating case is
`C09_convert_exact_same_origin` / `C09_convert_exact_displaced`.) -/
theorem C09_in_explicit_exact (r n : IntTy) (hr : r ∈ IntTy.all) (hn : n ∈ IntTy.all) (u u' : PtUnit) (hu : u.Pos) (hu' : u'.Pos)
    (ho : originRep.inRange u.oc) (ho' : originRep.inRange u'.oc)
    (hds : Divides u'.scale u.scale)
    (hdd : (originsEqual u u').val ≠ .ok true → Divides u'.scale (dispUnit u u'))
    (v x : Int) (h : inExplicit r n u u' v = ⟨.ok x, false, false⟩) :
    (x : Rat) * u'.scale.scale + originOf u' = position u v := by
  obtain ⟨hcr, hcrp, hrc, hc2, _, _, _⟩ := types_closed r hr n hn
  have hoc2 : IntTy.common originRep (intermediateRep r n) ∈ IntTy.all := (all_closed r hr n hn).2.2.2.2.1
  unfold inExplicit at h
  simp only [] at h
  obtain ⟨a, ha, h⟩ := andThen_inv _ _ _ h
  have ea := repCast_inv r _ hrc v a ha
  cases heq : (originsEqual u u').val with
  | ub w => rw [heq] at h; simp [ubRes] at h
  | ok b =>
    rw [heq] at h
    cases b with
    | true =>
      simp only [] at h
      obtain ⟨y, hy, h⟩ := andThen_inv _ _ _ h
      have ey := liftStep_sub_inv _ hcrp a 0 y hy
      rcases hrat : ratio u.scale u'.scale with ⟨N, D⟩
      rw [hrat] at h
      simp only [] at h
      have hD : D = 1 := by
        have := ratio_of_dvd u'.scale u.scale hu'.1 hu.1 hds
        rw [hrat] at this; exact this
      rw [hD] at h
      have ex := asRepFrac_int_inv _ n hc2 N y x h
      obtain ⟨hspec, _, _⟩ := ratio_spec u.scale u'.scale hu.1 hu'.1
      rw [hrat] at hspec
      simp only [hD] at hspec
      have horig := originsEqual_true u u' hu hu' ho ho' heq
      unfold position
      rw [horig, ex, ey, ea, Rat.intCast_mul, Rat.intCast_natCast, Rat.intCast_sub]
      grind
    | false =>
      simp only [] at h
      cases hdv : (dispValue u u').val with
      | ub w => rw [hdv] at h; simp [ubRes] at h
      | ok dv =>
        rw [hdv] at h
        simp only [] at h
        obtain ⟨d, hd, h⟩ := andThen_inv _ _ _ h
        obtain ⟨y, hy, h⟩ := andThen_inv _ _ _ h
        have ed := repCast_inv _ _ hoc2 dv d hd
        have ey := sub_same_inv _ hcr _ _ a d y (liftRes_inv _ _ hy)
        have hud : (dispUnit u u').Pos := common_pos' _ _ hu'.2 hu.2
        have hCU : (URat.common u.scale (dispUnit u u')).Pos := common_pos' _ _ hu.1 hud
        rcases hrat : ratio (URat.common u.scale (dispUnit u u')) u'.scale with ⟨N, D⟩
        rw [hrat] at h
        simp only [] at h
        have hdiv : Divides u'.scale (URat.common u.scale (dispUnit u u')) :=
          dvd_common _ _ _ hds (hdd (by rw [heq]; simp))
        have hD : D = 1 := by
          have := ratio_of_dvd u'.scale _ hu'.1 hCU hdiv
          rw [hrat] at this; exact this
        rw [hD] at h
        have ex := asRepFrac_int_inv _ n hc2 N y x h
        obtain ⟨hspec, _, _⟩ := ratio_spec (URat.common u.scale (dispUnit u u')) u'.scale hCU hu'.1
        rw [hrat] at hspec
        simp only [hD] at hspec
        have e1 := URat.scale_eq_ratioL u.scale (dispUnit u u') hu.1 hud
        have e2 := URat.scale_eq_ratioR u.scale (dispUnit u u') hu.1 hud
        have hdisp := dispValue_exact u u' hu hu' ho ho' dv hdv
        unfold position
        rw [ex, ey, ed, ea, Rat.intCast_mul, Rat.intCast_natCast, Rat.intCast_sub, Rat.intCast_mul, Rat.intCast_mul,
          Rat.intCast_natCast, Rat.intCast_natCast]
        grind

/-- Non-vacuity: 20 [1, 273150·(1/1000)] int16 → int64 in the unit [1/9000, origin 0]. -/
example : inExplicit i16 i64 ⟨⟨1, 1⟩, 273150, ⟨1, 1000⟩⟩ ⟨⟨1, 9000⟩, 0, ⟨1, 1000⟩⟩ 20 = ⟨.ok 2638350, false, false⟩ := by decide

/-! ## Point ± quantity -/

theorem originsEqual_same (a b : PtUnit) (ha : a.Pos) (hoc : b.oc = a.oc) (hou : b.ou = a.ou) (ho : originRep.inRange a.oc) :
    (originsEqual a b).val = .ok true := by
  obtain ⟨k1, k2⟩ := ratioL_self a.ou ha.2
  unfold originsEqual
  rw [hoc, hou, k1, k2]
  have hcc : IntTy.common originRep originRep = originRep := by decide
  have hf : FitsCommon originRep originRep 1 1 a.oc a.oc := by
    unfold FitsCommon; rw [hcc]; simp; exact ho
  rw [cmp_ok .eq originRep originRep (by decide) (by decide) rfl 1 1 a.oc a.oc ho ho hf]
  simp [CmpOp.eval]

/-- The unit of `p ± q` has the point unit's origin and the common (gcd) scale of the two units. -/
theorem shiftResultUnit_spec (uP : PtUnit) (hP : uP.Pos) (sq : URat) (ho : originRep.inRange uP.oc) :
    (shiftResultUnit uP sq).scale = gcdScale uP.scale sq ∧ (shiftResultUnit uP sq).oc = uP.oc ∧ (shiftResultUnit uP sq).ou = uP.ou := by
  have hco : (commonOriginUnit uP (borrowOrigin uP sq)).oc = uP.oc ∧ (commonOriginUnit uP (borrowOrigin uP sq)).ou = uP.ou := by
    rcases commonOriginUnit_cases uP (borrowOrigin uP sq) with h | h <;> rw [h] <;> exact ⟨rfl, rfl⟩
  have hcoP : (commonOriginUnit uP (borrowOrigin uP sq)).Pos ∨ True := Or.inr trivial
  have e1 : (originsEqual (commonOriginUnit uP (borrowOrigin uP sq)) uP).val = .ok true := by
    have h' : (originsEqual uP (commonOriginUnit uP (borrowOrigin uP sq))).val = .ok true :=
      originsEqual_same uP _ hP hco.1 hco.2 ho
    unfold originsEqual at h' ⊢
    rw [hco.1, hco.2] at h' ⊢
    exact h'
  have e2 : (originsEqual (commonOriginUnit uP (borrowOrigin uP sq)) (borrowOrigin uP sq)).val = .ok true := by
    have : (originsEqual (commonOriginUnit uP (borrowOrigin uP sq)) (borrowOrigin uP sq)).val =
        (originsEqual (commonOriginUnit uP (borrowOrigin uP sq)) uP).val := rfl
    rw [this]; exact e1
  refine ⟨?_, hco.1, hco.2⟩
  unfold shiftResultUnit
  rw [cpu_scale]
  unfold cpuStep
  rw [e1]
  simp only []
  rw [e2]
  rfl

/-- Signed contribution of the quantity in each of the three operators. -/
def Point.ShiftOp.sign : ShiftOp → Int
  | .pPlusQ => 1 | .qPlusP => 1 | .pMinusQ => -1

/-- **C09, point ± quantity.**  For `p + q`, `q + p` and `p − q` (integral reps, point unit with an `int` origin,
quantity of scale `sq`): whenever the result is clean (no undefined behaviour, wrap-around or narrowing), it is the
point shifted by exactly the quantity:
`z · unit(result) + origin(result) = position(p) ± vq · sq`, where the result unit has the point unit's origin and the
common (gcd) scale of the point's and the quantity's unit (`shiftResultUnit_spec`). -/
theorem C09_point_shift_exact (op : ShiftOp) (rp rq : IntTy) (hp : rp ∈ IntTy.all) (hq : rq ∈ IntTy.all)
    (uP : PtUnit) (hP : uP.Pos) (ho : originRep.inRange uP.oc) (sq : URat) (hsq : sq.Pos) (vp vq z : Int)
    (h : pointShift op rp rq uP sq vp vq = ⟨.ok z, false, false⟩) :
    (z : Rat) * (shiftResultUnit uP sq).scale.scale + originOf (shiftResultUnit uP sq) =
      position uP vp + (op.sign : Rat) * ((vq : Rat) * sq.scale) ∧
    originOf (shiftResultUnit uP sq) = originOf uP := by
  have hR : IntTy.common rp rq ∈ IntTy.all := by
    have : ∀ a ∈ IntTy.all, ∀ b ∈ IntTy.all, IntTy.common a b ∈ IntTy.all := by decide
    exact this rp hp rq hq
  have hty : ∀ a ∈ IntTy.all, ∀ b ∈ IntTy.all, (IntTy.common a a ∈ IntTy.all ∧ IntTy.common b (IntTy.common a b) ∈ IntTy.all ∧
      (IntTy.common a b).promote ∈ IntTy.all ∧ IntTy.common (IntTy.common a b).promote (IntTy.common a b) ∈ IntTy.all ∧
      IntTy.common (IntTy.common a b) (IntTy.common a b) ∈ IntTy.all) := by decide
  obtain ⟨hqq, hqR, hRp, hRpR, hRR⟩ := hty rq hq rp hp
  have hqR' : IntTy.common rq (IntTy.common rp rq) ∈ IntTy.all := (hty rp hp rq hq).2.1
  have hRp' := (hty rp hp rq hq).2.2.1
  have hRpR' := (hty rp hp rq hq).2.2.2.1
  have hRR' := (hty rp hp rq hq).2.2.2.2
  have hQ' : (borrowOrigin uP sq).Pos := ⟨hsq, hP.2⟩
  obtain ⟨hcuP, hcuR, d1, d2, dd1, _⟩ := cpu_facts uP (borrowOrigin uP sq) hP hQ' ho ho
  have horg : originOf (shiftResultUnit uP sq) = originOf uP := by
    obtain ⟨_, e1, e2⟩ := shiftResultUnit_spec uP hP sq ho
    unfold originOf; rw [e1, e2]
  refine ⟨?_, horg⟩
  unfold pointShift at h
  simp only [] at h
  obtain ⟨x, hx, h⟩ := andThen_inv _ _ _ h
  obtain ⟨d, hd, h⟩ := andThen_inv _ _ _ h
  obtain ⟨s, hs, h⟩ := andThen_inv _ _ _ h
  have ez := repCast_inv _ _ hRpR' s z h
  -- the point operand
  obtain ⟨x0, hx0, hx1⟩ := andThen_inv _ _ _ hx
  have e0 := repCastPoint_inv rp _ hp hR uP hP ho vp x0 hx0
  rw [e0] at hx1
  have hpos := inImplicit_exact _ hR uP (shiftResultUnit uP sq) hP hcuP ho hcuR d1 dd1 vp x hx1
  -- the quantity operand
  obtain ⟨a, ha, hd⟩ := andThen_inv _ _ _ hd
  obtain ⟨b, hb, hd⟩ := andThen_inv _ _ _ hd
  have ea := asRep_inv rq rq (by have := (hty rq hq rq hq).1; exact this) 1 vq a ha
  have eb := repCast_inv rq _ hqR' a b hb
  have ed := asRep_inv _ _ hRR' _ b d hd
  have hd2 : Divides (shiftResultUnit uP sq).scale sq := d2
  have hD := ratio_of_dvd (shiftResultUnit uP sq).scale sq hcuP.1 hsq hd2
  obtain ⟨hspec, _, _⟩ := ratio_spec sq (shiftResultUnit uP sq).scale hsq hcuP.1
  rw [hD] at hspec
  -- the operator
  have es : s = x + op.sign * d := by
    cases op with
    | pPlusQ => have := liftStep_add_inv _ hRp' x d s hs; simp [ShiftOp.sign]; exact this
    | qPlusP => have := liftStep_add_inv _ hRp' d x s hs; simp [ShiftOp.sign]; omega
    | pMinusQ => have := liftStep_sub_inv _ hRp' x d s hs; simp [ShiftOp.sign]; omega
  rw [ez, es, ed, eb, ea, ← hpos, Rat.intCast_add, Rat.intCast_mul, Rat.intCast_mul, Rat.intCast_mul, Rat.intCast_natCast]
  simp only [Int.cast_ofNat_Int, Rat.intCast_natCast] at hspec ⊢
  grind

/-- **C09, `p + q` and `q + p`.** -/
theorem C09_point_plus_quantity (rp rq : IntTy) (hp : rp ∈ IntTy.all) (hq : rq ∈ IntTy.all)
    (uP : PtUnit) (hP : uP.Pos) (ho : originRep.inRange uP.oc) (sq : URat) (hsq : sq.Pos) (vp vq z : Int)
    (h : pointShift .pPlusQ rp rq uP sq vp vq = ⟨.ok z, false, false⟩ ∨ pointShift .qPlusP rp rq uP sq vp vq = ⟨.ok z, false, false⟩) :
    (z : Rat) * (shiftResultUnit uP sq).scale.scale + originOf (shiftResultUnit uP sq) = position uP vp + (vq : Rat) * sq.scale := by
  rcases h with h | h
  · have := (C09_point_shift_exact .pPlusQ rp rq hp hq uP hP ho sq hsq vp vq z h).1
    simp only [ShiftOp.sign] at this
    rw [this]; grind
  · have := (C09_point_shift_exact .qPlusP rp rq hp hq uP hP ho sq hsq vp vq z h).1
    simp only [ShiftOp.sign] at this
    rw [this]; grind

/-- **C09, `p − q`.** -/
theorem C09_point_minus_quantity (rp rq : IntTy) (hp : rp ∈ IntTy.all) (hq : rq ∈ IntTy.all)
    (uP : PtUnit) (hP : uP.Pos) (ho : originRep.inRange uP.oc) (sq : URat) (hsq : sq.Pos) (vp vq z : Int)
    (h : pointShift .pMinusQ rp rq uP sq vp vq = ⟨.ok z, false, false⟩) :
    (z : Rat) * (shiftResultUnit uP sq).scale.scale + originOf (shiftResultUnit uP sq) = position uP vp - (vq : Rat) * sq.scale := by
  have := (C09_point_shift_exact .pMinusQ rp rq hp hq uP hP ho sq hsq vp vq z h).1
  simp only [ShiftOp.sign] at this
  rw [this]; grind

/-- Non-vacuity: 20 [1, 273150·(1/1000)] (int32) + 5 [1] = 25; 20 °C-like − 9 [5/9] (int64) = 135 ninths;
6 [1] (uint32) + 22594556 [1/1000, origin 0] (uint32) = 22600556 thousandths. -/
example : pointShift .pPlusQ i32 i32 ⟨⟨1, 1⟩, 273150, ⟨1, 1000⟩⟩ ⟨1, 1⟩ 20 5 = ⟨.ok 25, false, false⟩ ∧
    pointShift .pMinusQ i32 i64 ⟨⟨1, 1⟩, 273150, ⟨1, 1000⟩⟩ ⟨5, 9⟩ 20 9 = ⟨.ok 135, false, false⟩ ∧
    pointShift .qPlusP u32 u32 ⟨⟨1, 1000⟩, 0, ⟨1, 1000⟩⟩ ⟨1, 1⟩ 22594556 6 = ⟨.ok 22600556, false, false⟩ := by
  decide

end Au

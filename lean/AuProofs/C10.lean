import AuModel.CommonPoint
import AuProofs.C07
set_option linter.unusedSectionVars false
namespace Au
open Pack

/-! # C10 — the common point unit keeps every input integral and non-negative -/

/-- Lexicographic "at most" on (position, native value). -/
def Origin.le (a b : Origin) : Prop := a.pos < b.pos ∨ (a.pos = b.pos ∧ a.native ≤ b.native)

/-- The common origin is one of the inputs and is the lexicographic minimum: no input lies below it
(so every displacement `origin(U) − common origin` is non-negative). -/
theorem commonOrigin_min : (l : List Origin) → l ≠ [] →
    commonOrigin l ∈ l ∧ ∀ o ∈ l, Origin.le (commonOrigin l) o
  | [], h => absurd rfl h
  | [o], _ => ⟨List.mem_cons_self .., fun x hx => by
      simp at hx; subst hx; exact Or.inr ⟨rfl, Int.le_refl _⟩⟩
  | h :: h2 :: t, _ => by
    have ih := commonOrigin_min (h2 :: t) (by simp)
    have hco : commonOrigin (h :: h2 :: t) =
        (if h.pos < (commonOrigin (h2 :: t)).pos then h
         else if (commonOrigin (h2 :: t)).pos < h.pos then commonOrigin (h2 :: t)
         else if h.native < (commonOrigin (h2 :: t)).native then h else commonOrigin (h2 :: t)) := rfl
    rw [hco]
    have key : ∀ {a b c : Origin}, Origin.le a b → Origin.le b c → Origin.le a c := by
      intro a b c h1 h2
      unfold Origin.le at *
      rcases h1 with h1 | ⟨h1, h1'⟩ <;> rcases h2 with h2 | ⟨h2, h2'⟩
      · left; grind
      · left; grind
      · left; grind
      · right; exact ⟨by grind, by omega⟩
    by_cases h1 : h.pos < (commonOrigin (h2 :: t)).pos
    · simp only [h1, if_true]
      refine ⟨List.mem_cons_self .., fun o ho => ?_⟩
      rcases List.mem_cons.1 ho with rfl | ho
      · exact Or.inr ⟨rfl, Int.le_refl _⟩
      · exact key (Or.inl h1) (ih.2 o ho)
    · simp only [h1, if_false]
      by_cases h2' : (commonOrigin (h2 :: t)).pos < h.pos
      · simp only [h2', if_true]
        refine ⟨List.mem_cons_of_mem _ ih.1, fun o ho => ?_⟩
        rcases List.mem_cons.1 ho with rfl | ho
        · exact Or.inl h2'
        · exact ih.2 o ho
      · simp only [h2', if_false]
        have heq : h.pos = (commonOrigin (h2 :: t)).pos := by grind
        by_cases h3 : h.native < (commonOrigin (h2 :: t)).native
        · simp only [h3, if_true]
          refine ⟨List.mem_cons_self .., fun o ho => ?_⟩
          rcases List.mem_cons.1 ho with rfl | ho
          · exact Or.inr ⟨rfl, Int.le_refl _⟩
          · exact key (Or.inr ⟨heq, by omega⟩) (ih.2 o ho)
        · simp only [h3, if_false]
          refine ⟨List.mem_cons_of_mem _ ih.1, fun o ho => ?_⟩
          rcases List.mem_cons.1 ho with rfl | ho
          · exact Or.inr ⟨heq.symm, by omega⟩
          · exact ih.2 o ho

/-- Position and native value of the common origin do not depend on the order (or repetition) of
the inputs: two non-empty lists with the same members give the same (position, native) pair. -/
theorem commonOrigin_congr (l l' : List Origin) (hl : l ≠ []) (hl' : l' ≠ []) (hm : ∀ o, o ∈ l ↔ o ∈ l') :
    (commonOrigin l).pos = (commonOrigin l').pos ∧ (commonOrigin l).native = (commonOrigin l').native := by
  obtain ⟨m1, le1⟩ := commonOrigin_min l hl
  obtain ⟨m2, le2⟩ := commonOrigin_min l' hl'
  have a := le1 _ ((hm _).2 m2)
  have b := le2 _ ((hm _).1 m1)
  unfold Origin.le at a b
  rcases a with a | ⟨a, a'⟩ <;> rcases b with b | ⟨b, b'⟩
  · exact absurd a (by grind)
  · exact absurd a (by grind)
  · exact absurd b (by grind)
  · exact ⟨a, by omega⟩

/-- The magnitude of the common point unit divides every input unit's magnitude … -/
theorem C10_divides_units (unitMags dispMags : List Mag)
    (hu : ∀ m ∈ unitMags, Valid MagBase.lt m) (hd : ∀ m ∈ dispMags, Valid MagBase.lt m)
    (m : Mag) (hm : m ∈ unitMags) (x : MagBase) :
    0 ≤ den m x - den (commonPointMag unitMags dispMags) x := by
  unfold commonPointMag
  cases dispMags with
  | nil => exact (C07_divides unitMags hu m hm).1 x
  | cons d ds =>
    have hv : ∀ k ∈ unitMags ++ [Mag.commonAll (d :: ds)], Valid MagBase.lt k := by
      intro k hk
      rcases List.mem_append.1 hk with h | h
      · exact hu k h
      · simp at h; subst h; exact Mag.commonAll_valid _ hd
    exact (C07_divides _ hv m (List.mem_append_left _ hm)).1 x

/-- … and the unit magnitude of every non-zero origin displacement, so that both the scale factor
`a = mag(U)/mag(common)` and the offset `b = displacement / mag(common)` have non-negative
exponents at every base (integers, for rational scales and offsets). -/
theorem C10_divides_displacements (unitMags dispMags : List Mag)
    (hu : ∀ m ∈ unitMags, Valid MagBase.lt m) (hd : ∀ m ∈ dispMags, Valid MagBase.lt m)
    (d : Mag) (hdm : d ∈ dispMags) (x : MagBase) :
    0 ≤ den d x - den (commonPointMag unitMags dispMags) x := by
  unfold commonPointMag
  cases hds : dispMags with
  | nil => rw [hds] at hdm; cases hdm
  | cons d0 ds =>
    rw [hds] at hdm hd
    have hvd := Mag.commonAll_valid (d0 :: ds) hd
    have hv : ∀ k ∈ unitMags ++ [Mag.commonAll (d0 :: ds)], Valid MagBase.lt k := by
      intro k hk
      rcases List.mem_append.1 hk with h | h
      · exact hu k h
      · simp at h; subst h; exact hvd
    have h1 := (C07_divides _ hv (Mag.commonAll (d0 :: ds)) (List.mem_append_right _ (by simp))).1 x
    have h2 := (C07_divides (d0 :: ds) hd d hdm).1 x
    grind

/-- Symmetry of the type: `ComputeCommonPointUnit` sorts, flattens and de-duplicates its inputs with
the same `FlatDedupedTypeList` as `CommonUnit`, so any two input lists with the same members give
the identical `CommonPointUnit<...>` list (for every strict total unit order). -/
theorem C10_perm {lt : U → U → Bool} (hlt : StrictTotal lt) (us vs : List U)
    (hm : ∀ u, u ∈ us ↔ u ∈ vs) :
    flatDedup lt (us.map fun u => [u]) = flatDedup lt (vs.map fun u => [u]) := by
  apply flatDedup_congr hlt
  · intro l hl; rcases List.mem_map.1 hl with ⟨u, _, rfl⟩; exact List.pairwise_singleton ..
  · intro l hl; rcases List.mem_map.1 hl with ⟨u, _, rfl⟩; exact List.pairwise_singleton ..
  · intro l; constructor
    · intro hl; rcases List.mem_map.1 hl with ⟨u, hu, rfl⟩; exact List.mem_map.2 ⟨u, (hm u).1 hu, rfl⟩
    · intro hl; rcases List.mem_map.1 hl with ⟨u, hu, rfl⟩; exact List.mem_map.2 ⟨u, (hm u).2 hu, rfl⟩

/-- Non-vacuity: Celsius (origin 27315 cK), Kelvins (ZERO), Fahrenheit (origin 459.67 °R-ish): the
common origin is ZERO. -/
example : commonOrigin [⟨(27315 : Rat) / 100, 27315, 0⟩, ⟨0, 0, 1⟩, ⟨(45967 : Rat) / 180, 45967, 2⟩] = ⟨0, 0, 1⟩ := by
  decide +kernel

end Au

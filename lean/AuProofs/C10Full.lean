import AuProofs.C10Value
/-! # C10 end to end: the model of `CommonPointUnit<Us...>` keeps every input integral and non-negative -/
namespace Au
open Pack

/-- `Mag.toRat?` (the driver's exact evaluation) agrees with `qval` on rational magnitudes. -/
theorem toRat_foldl (piv : Rat) : ∀ (m : Mag) (v : Rat), Mag.IntExp m → Mag.PiFree m → Mag.PosBases m →
    m.foldl Mag.toRatStep (some v) = some (v * Mag.qval piv m)
  | [], v, _, _, _ => by simp [Mag.qval_nil]
  | a :: t, v, hi, hf, hp => by
    have hd := hi a (List.mem_cons_self ..)
    rw [List.foldl_cons, Mag.qval_cons]
    cases hb : a.1 with
    | pi => exact absurd hb (hf a (List.mem_cons_self ..))
    | prime p =>
      have hp0 : 0 < p := hp a (List.mem_cons_self ..) p hb
      have hpq : (0 : Rat) < (p : Rat) := by exact_mod_cast hp0
      simp only [Mag.toRatStep, hb, hd, if_true]
      by_cases hn : 0 ≤ a.2.num
      · simp only [hn, if_true]
        rw [toRat_foldl piv t _ (intExp_tail hi) (fun x hx => hf x (List.mem_cons_of_mem _ hx)) (posBases_tail hp)]
        congr 1
        simp only [bval, hb, MagBase.qv]
        have : a.2.num = (a.2.num.toNat : Int) := by omega
        rw [this, zpow_natCast, ← this]; push_cast; ring
      · simp only [hn, if_false]
        rw [toRat_foldl piv t _ (intExp_tail hi) (fun x hx => hf x (List.mem_cons_of_mem _ hx)) (posBases_tail hp)]
        congr 1
        simp only [bval, hb, MagBase.qv]
        have h2 : a.2.num = -((-a.2.num).toNat : Int) := by omega
        rw [h2, zpow_neg, zpow_natCast, ← h2]; push_cast
        rw [div_eq_mul_inv]; ring

theorem toRat_eq_qval (piv : Rat) (m : Mag) (h : Mag.Rational m) : Mag.toRat? m = some (Mag.qval piv m) := by
  unfold Mag.toRat?
  rw [toRat_foldl piv m 1 h.int h.free h.pos]; simp

/-- The position of a declared origin, as the model computes it, is `declPos`. -/
theorem toOrigin_pos (piv : Rat) (o : OriginDecl) (ho : o.Rational) (p : Origin) (h : o.toOrigin? = some p) :
    p.pos = declPos piv o := by
  match o, ho with
  | none, _ => simp [OriginDecl.toOrigin?] at h; subst h; rfl
  | some (c, m), hm =>
    have hm' : Mag.Rational m := hm
    simp only [OriginDecl.toOrigin?, toRat_eq_qval piv m hm', Option.map_some, Option.some.injEq] at h
    subst h; rfl


theorem commonOriginD_cons2 (h a : Origin × OriginDecl) (t : List (Origin × OriginDecl)) :
    commonOriginD (h :: a :: t) =
      (if h.1.pos < (commonOriginD (a :: t)).1.pos then h
       else if (commonOriginD (a :: t)).1.pos < h.1.pos then commonOriginD (a :: t)
       else if h.1.native < (commonOriginD (a :: t)).1.native then h else commonOriginD (a :: t)) := rfl

/-- The common origin (with its declaration) is one of the inputs and has the smallest position. -/
theorem commonOriginD_min : (l : List (Origin × OriginDecl)) → l ≠ [] →
    commonOriginD l ∈ l ∧ ∀ o ∈ l, (commonOriginD l).1.pos ≤ o.1.pos
  | [], h => absurd rfl h
  | [o], _ => ⟨List.mem_cons_self .., fun x hx => by simp at hx; subst hx; exact le_refl _⟩
  | h :: a :: t, _ => by
    obtain ⟨hm, hle⟩ := commonOriginD_min (a :: t) (by simp)
    have key : (commonOriginD (h :: a :: t) = h ∧ h.1.pos ≤ (commonOriginD (a :: t)).1.pos) ∨
        (commonOriginD (h :: a :: t) = commonOriginD (a :: t) ∧ (commonOriginD (a :: t)).1.pos ≤ h.1.pos) := by
      rw [commonOriginD_cons2]
      by_cases h1 : h.1.pos < (commonOriginD (a :: t)).1.pos
      · left; simp only [h1, if_true]; exact ⟨trivial, le_of_lt h1⟩
      · by_cases h2 : (commonOriginD (a :: t)).1.pos < h.1.pos
        · right; simp only [h1, h2, if_true, if_false]; exact ⟨trivial, le_of_lt h2⟩
        · have heq : h.1.pos = (commonOriginD (a :: t)).1.pos := le_antisymm (not_lt.1 h2) (not_lt.1 h1)
          by_cases h3 : h.1.native < (commonOriginD (a :: t)).1.native
          · left; simp only [h1, h2, h3, if_true, if_false]; exact ⟨trivial, le_of_eq heq⟩
          · right; simp only [h1, h2, h3, if_false]; exact ⟨trivial, le_of_eq heq.symm⟩
    rcases key with ⟨he, hl⟩ | ⟨he, hl⟩
    · rw [he]
      refine ⟨List.mem_cons_self .., fun o ho => ?_⟩
      rcases List.mem_cons.1 ho with rfl | ho
      · exact le_refl _
      · exact le_trans hl (hle o ho)
    · rw [he]
      refine ⟨List.mem_cons_of_mem _ hm, fun o ho => ?_⟩
      rcases List.mem_cons.1 ho with rfl | ho
      · exact hl
      · exact hle o ho

theorem mapM_some_zip {α β : Type} (f : α → Option β) : ∀ (l : List α) (r : List β), l.mapM f = some r →
    r.length = l.length ∧ ∀ p ∈ l.zip r, f p.1 = some p.2
  | [], r, h => by simp at h; subst h; simp
  | a :: t, r, h => by
    rw [List.mapM_cons] at h
    cases hfa : f a with
    | none => rw [hfa] at h; simp at h
    | some b =>
      rw [hfa] at h
      cases ht : t.mapM f with
      | none => rw [ht] at h; simp at h
      | some bs =>
        rw [ht] at h
        simp at h
        subst h
        obtain ⟨hl, hz⟩ := mapM_some_zip f t bs ht
        refine ⟨by simp [hl], fun p hp => ?_⟩
        rw [List.zip_cons_cons] at hp
        rcases List.mem_cons.1 hp with rfl | hp
        · exact hfa
        · exact hz p hp

theorem mem_zip_of_mem {α β : Type} : ∀ (l : List α) (r : List β), r.length = l.length → ∀ a ∈ l, ∃ b, (a, b) ∈ l.zip r
  | [], _, _, a, ha => absurd ha List.not_mem_nil
  | x :: t, [], h, _, _ => by simp at h
  | x :: t, y :: r, h, a, ha => by
    rcases List.mem_cons.1 ha with rfl | ha
    · exact ⟨y, by simp⟩
    · obtain ⟨b, hb⟩ := mem_zip_of_mem t r (by simpa using h) a ha
      exact ⟨b, by rw [List.zip_cons_cons]; exact List.mem_cons_of_mem _ hb⟩

theorem dispUnitMag_rational (oc ou : OriginDecl) (pc pu : Origin) (hoc : oc.Rational) (hou : ou.Rational) (d : Mag)
    (h : dispUnitMag oc ou pc pu = some d) : Mag.Rational d := by
  unfold dispUnitMag at h
  split at h
  · cases h
  · match oc, ou, hoc, hou with
    | none, none, _, _ => cases h
    | none, some (_, m), _, hm => simp at h; subst h; exact hm
    | some (_, m), none, hm, _ => simp at h; subst h; exact hm
    | some (_, mc), some (_, mu), hmc, hmu =>
      simp at h; subst h
      have hboth : ∀ m ∈ [mc, mu], Mag.Rational m := by
        intro m hm; simp at hm; rcases hm with rfl | rfl
        · exact hmc
        · exact hmu
      exact commonAll_rational [mc, mu] hboth

/-- **C10, end to end.**  For every non-empty list of point units with rational scales and rational
origins, the model of `CommonPointUnit<Us...>` (the function the driver runs against the library)
returns a common point unit into which every input converts by `x ↦ a·x + b` with `a` a positive
and `b` a non-negative integer: integral and unsigned reps stay exact. -/
theorem C10_affine_full (piv : Rat) (hpi : 0 < piv) (us : List (Mag × OriginDecl)) (hne : us ≠ [])
    (hr : ∀ u ∈ us, Mag.Rational u.1 ∧ u.2.Rational) (M : Mag) (c : Origin) (oc : OriginDecl)
    (h : commonPointAssembly us = some (M, c, oc)) :
    ∀ u ∈ us, ∃ a b : Nat, 0 < a ∧ ∀ x : Int,
      (x : Rat) * Mag.qval piv u.1 + declPos piv u.2 = ((a * x + b : Int) : Rat) * Mag.qval piv M + declPos piv oc := by
  unfold commonPointAssembly at h
  cases hm : us.mapM (fun u => u.2.toOrigin?) with
  | none => rw [hm] at h; cases h
  | some origins =>
    rw [hm] at h
    simp only [Option.some.injEq, Prod.mk.injEq] at h
    obtain ⟨hM, hc, hoc⟩ := h
    obtain ⟨hlen, hzip⟩ := mapM_some_zip _ us origins hm
    have hpne : (us.zip origins).map (fun p => (p.2, p.1.2)) ≠ [] := by
      obtain ⟨u0, rest, rfl⟩ := List.exists_cons_of_ne_nil hne
      cases origins with
      | nil => simp at hlen
      | cons o os => simp
    obtain ⟨hcm, hcle⟩ := commonOriginD_min _ hpne
    -- the chosen origin comes from some input
    obtain ⟨pc0, hpc0, hpceq⟩ := List.mem_map.1 hcm
    have hocR : oc.Rational := by
      rw [← hoc, ← hpceq]; exact (hr pc0.1 (List.of_mem_zip hpc0).1).2
    have hcpos : c.pos = declPos piv oc := by
      rw [← hc, ← hoc, ← hpceq]
      exact toOrigin_pos piv pc0.1.2 (hr pc0.1 (List.of_mem_zip hpc0).1).2 pc0.2 (hzip pc0 hpc0)
    intro u hu
    obtain ⟨pu, hpu⟩ := mem_zip_of_mem us origins hlen u hu
    have hpupos : pu.pos = declPos piv u.2 := toOrigin_pos piv u.2 (hr u hu).2 pu (hzip (u, pu) hpu)
    have hle : declPos piv oc ≤ declPos piv u.2 := by
      rw [← hcpos, ← hpupos, ← hc]
      exact hcle (pu, u.2) (List.mem_map.2 ⟨(u, pu), hpu, rfl⟩)
    have hu' : ∀ m ∈ us.map (·.1), Mag.Rational m := by
      intro m hm; obtain ⟨w, hw, rfl⟩ := List.mem_map.1 hm; exact (hr w hw).1
    have hd' : ∀ d ∈ (us.zip origins).filterMap (fun p => dispUnitMag oc p.1.2 c p.2), Mag.Rational d := by
      intro d hd
      obtain ⟨p, hp, hpd⟩ := List.mem_filterMap.1 hd
      exact dispUnitMag_rational oc p.1.2 c p.2 hocR (hr p.1 (List.of_mem_zip hp).1).2 d hpd
    have := C10_affine piv hpi (us.map (·.1)) ((us.zip origins).filterMap (fun p => dispUnitMag oc p.1.2 c p.2)) hu' hd'
      u.1 (List.mem_map.2 ⟨u, hu, rfl⟩) oc u.2 c pu hocR (hr u hu).2 hcpos hpupos hle
      (fun d hd => List.mem_filterMap.2 ⟨(u, pu), hpu, hd⟩)
    rw [← hM, ← hc, ← hoc] at *
    exact this


/-- Non-vacuity: Kelvins (no origin), Celsius (27315 centi-kelvins) and milli-kelvins: the assembly
returns magnitude 1/1000 (the finest unit also divides the displacement 273.15 K) and origin ZERO. -/
example : (commonPointAssembly [([], none), ([], some (27315, [(.prime 2, -2), (.prime 5, -2)])), ([(.prime 2, -3), (.prime 5, -3)], none)]).map
      (fun r => (r.1, r.2.1.pos)) = some ([(.prime 2, -3), (.prime 5, -3)], 0) := by
  decide +kernel

end Au

import AuProofs.C10
import AuProofs.Lemmas.MagValue
import Mathlib.Tactic.Positivity
import Mathlib.Tactic.NormNum
set_option linter.unusedSectionVars false
namespace Au
open Pack

/-! # C07 / C10 at the level of values

The exponent-level theorems (`C07_divides`, `C10_divides_units`, `C10_divides_displacements`) are lifted
to exact rational values: every input unit is a positive-integer multiple of the common (point) unit,
and a point of any input unit converts to the common point unit by `x ↦ a·x + b` with a positive
integer `a` and a non-negative integer `b`. -/

/-- **C07 (divides, value form).**  For rational magnitudes, every input is a positive-integer
multiple of `CommonMagnitude<Ms...>`. -/
theorem C07_divides_value (piv : Rat) (hpi : 0 < piv) (ms : List Mag) (h : ∀ m ∈ ms, Mag.Rational m)
    (m : Mag) (hm : m ∈ ms) :
    ∃ k : Nat, 0 < k ∧ Mag.qval piv m = (k : Rat) * Mag.qval piv (Mag.commonAll ms) :=
  rational_ratio_posInt piv hpi m _ (h m hm) (commonAll_rational ms h)
    (C07_divides ms (fun m hm => (h m hm).valid) m hm).1

theorem commonPointMag_rational (unitMags dispMags : List Mag)
    (hu : ∀ m ∈ unitMags, Mag.Rational m) (hd : ∀ m ∈ dispMags, Mag.Rational m) :
    Mag.Rational (commonPointMag unitMags dispMags) := by
  unfold commonPointMag
  cases dispMags with
  | nil => exact commonAll_rational _ hu
  | cons d ds =>
    apply commonAll_rational
    intro k hk
    rcases List.mem_append.1 hk with h | h
    · exact hu k h
    · simp at h; subst h; exact commonAll_rational _ hd

/-- The scale factor of every input unit into the common point unit is a positive integer. -/
theorem C10_scale_posInt (piv : Rat) (hpi : 0 < piv) (unitMags dispMags : List Mag)
    (hu : ∀ m ∈ unitMags, Mag.Rational m) (hd : ∀ m ∈ dispMags, Mag.Rational m) (m : Mag) (hm : m ∈ unitMags) :
    ∃ a : Nat, 0 < a ∧ Mag.qval piv m = (a : Rat) * Mag.qval piv (commonPointMag unitMags dispMags) :=
  rational_ratio_posInt piv hpi m _ (hu m hm) (commonPointMag_rational _ _ hu hd)
    (C10_divides_units unitMags dispMags (fun m hm => (hu m hm).valid) (fun m hm => (hd m hm).valid) m hm)

/-- The unit of every non-zero origin displacement is a positive-integer multiple of the common point unit. -/
theorem C10_disp_posInt (piv : Rat) (hpi : 0 < piv) (unitMags dispMags : List Mag)
    (hu : ∀ m ∈ unitMags, Mag.Rational m) (hd : ∀ m ∈ dispMags, Mag.Rational m) (d : Mag) (hdm : d ∈ dispMags) :
    ∃ k : Nat, 0 < k ∧ Mag.qval piv d = (k : Rat) * Mag.qval piv (commonPointMag unitMags dispMags) :=
  rational_ratio_posInt piv hpi d _ (hd d hdm) (commonPointMag_rational _ _ hu hd)
    (C10_divides_displacements unitMags dispMags (fun m hm => (hu m hm).valid) (fun m hm => (hd m hm).valid) d hdm)

/-- Exact position of a declared origin (in base units): `count · value(unit)`; `ZERO` for no declaration. -/
def declPos (piv : Rat) : OriginDecl → Rat
  | none => 0
  | some (c, m) => (c : Rat) * Mag.qval piv m

def OriginDecl.Rational : OriginDecl → Prop
  | none => True
  | some (_, m) => Mag.Rational m

theorem nat_of_nonneg_mul (c : Int) (v : Rat) (hv : 0 < v) (h : 0 ≤ (c : Rat) * v) : ∃ n : Nat, c = n := by
  have : 0 ≤ c := by
    by_contra hc
    have hc' : (c : Rat) < 0 := by exact_mod_cast (not_le.1 hc)
    have := mul_neg_of_neg_of_pos hc' hv
    linarith
  exact ⟨c.toNat, by omega⟩

/-- **The additive offset is a non-negative integer.**  If the origin of `U` lies at or above the
common origin, and the common point unit's magnitude `M` divides the unit of the displacement
`origin(U) − origin(common)` (`C10_divides_displacements`), then the displacement is `b · value(M)`
for a natural number `b`. -/
theorem C10_offset_nat (piv : Rat) (hpi : 0 < piv) (oc ou : OriginDecl) (pc pu : Origin) (M : Mag)
    (hoc : oc.Rational) (hou : ou.Rational) (hM : Mag.Rational M)
    (hpc : pc.pos = declPos piv oc) (hpu : pu.pos = declPos piv ou)
    (hle : declPos piv oc ≤ declPos piv ou)
    (hdiv : ∀ d, dispUnitMag oc ou pc pu = some d → ∀ x, 0 ≤ den d x - den M x) :
    ∃ b : Nat, declPos piv ou - declPos piv oc = (b : Rat) * Mag.qval piv M := by
  have hMpos := qval_pos piv hpi M hM.pos
  by_cases heq : pc.pos = pu.pos
  · refine ⟨0, ?_⟩
    rw [← hpc, ← hpu, heq]; simp
  · unfold dispUnitMag at hdiv
    simp only [heq, if_false] at hdiv
    match oc, ou, hoc, hou with
    | none, none, _, _ => exact ⟨0, by simp [declPos]⟩
    | none, some (cu, mu), _, hmu =>
      have hmu' : Mag.Rational mu := hmu
      obtain ⟨k, _, hkq⟩ := rational_ratio_posInt piv hpi mu M hmu' hM (hdiv mu rfl)
      have hpos := qval_pos piv hpi mu hmu'.pos
      simp only [declPos] at hle ⊢
      obtain ⟨n, hn⟩ := nat_of_nonneg_mul cu _ hpos hle
      refine ⟨n * k, ?_⟩
      rw [hn, hkq]; push_cast; ring
    | some (cc, mc), none, hmc, _ =>
      have hmc' : Mag.Rational mc := hmc
      obtain ⟨k, _, hkq⟩ := rational_ratio_posInt piv hpi mc M hmc' hM (hdiv mc rfl)
      have hpos := qval_pos piv hpi mc hmc'.pos
      simp only [declPos] at hle ⊢
      have hneg : 0 ≤ ((-cc : Int) : Rat) * Mag.qval piv mc := by push_cast; linarith
      obtain ⟨n, hn⟩ := nat_of_nonneg_mul (-cc) _ hpos hneg
      refine ⟨n * k, ?_⟩
      have : (cc : Rat) = -(n : Rat) := by
        have : ((-cc : Int) : Rat) = (n : Rat) := by rw [hn]; simp
        push_cast at this; linarith
      rw [this, hkq]; push_cast; ring
    | some (cc, mc), some (cu, mu), hmc, hmu =>
      have hmc' : Mag.Rational mc := hmc
      have hmu' : Mag.Rational mu := hmu
      have hboth : ∀ m ∈ [mc, mu], Mag.Rational m := by
        intro m hm; simp at hm; rcases hm with rfl | rfl
        · exact hmc'
        · exact hmu'
      have hd : Mag.Rational (Mag.common2 mc mu) := commonAll_rational [mc, mu] hboth
      obtain ⟨k1, _, hk1⟩ := C07_divides_value piv hpi [mc, mu] hboth mc (by simp)
      obtain ⟨k2, _, hk2⟩ := C07_divides_value piv hpi [mc, mu] hboth mu (by simp)
      have hcd : Mag.commonAll [mc, mu] = Mag.common2 mc mu := rfl
      rw [hcd] at hk1 hk2
      obtain ⟨k, _, hkq⟩ := rational_ratio_posInt piv hpi _ M hd hM (hdiv _ rfl)
      have hpos := qval_pos piv hpi _ hd.pos
      simp only [declPos] at hle ⊢
      have hnn : 0 ≤ ((cu * k2 - cc * k1 : Int) : Rat) * Mag.qval piv (Mag.common2 mc mu) := by
        rw [hk1, hk2] at hle; push_cast; linarith
      obtain ⟨n, hn⟩ := nat_of_nonneg_mul _ _ hpos hnn
      refine ⟨n * k, ?_⟩
      have hn' : (cu : Rat) * k2 - (cc : Rat) * k1 = (n : Rat) := by
        have : ((cu * k2 - cc * k1 : Int) : Rat) = (n : Rat) := by rw [hn]; simp
        push_cast at this; exact this
      rw [hk1, hk2]
      calc (cu : Rat) * (k2 * Mag.qval piv (Mag.common2 mc mu)) - cc * (k1 * Mag.qval piv (Mag.common2 mc mu))
          = ((cu : Rat) * k2 - cc * k1) * Mag.qval piv (Mag.common2 mc mu) := by ring
        _ = (n : Rat) * (k * Mag.qval piv M) := by rw [hn', hkq]
        _ = _ := by push_cast; ring

/-- **C10 (assembly).**  A point with stored value `x` in unit `U` (magnitude `m`, origin `ou`) is the
same absolute position as the point with stored value `a·x + b` in the common point unit (magnitude
`M`, origin `oc`), where `a` is a positive integer and `b` a non-negative integer that do not depend
on `x`: integral and unsigned reps stay exact. -/
theorem C10_affine (piv : Rat) (hpi : 0 < piv) (unitMags dispMags : List Mag)
    (hu : ∀ m ∈ unitMags, Mag.Rational m) (hd : ∀ m ∈ dispMags, Mag.Rational m)
    (m : Mag) (hm : m ∈ unitMags) (oc ou : OriginDecl) (pc pu : Origin)
    (hoc : oc.Rational) (hou : ou.Rational)
    (hpc : pc.pos = declPos piv oc) (hpu : pu.pos = declPos piv ou)
    (hle : declPos piv oc ≤ declPos piv ou)
    (hdisp : ∀ d, dispUnitMag oc ou pc pu = some d → d ∈ dispMags) :
    ∃ a b : Nat, 0 < a ∧ ∀ x : Int,
      (x : Rat) * Mag.qval piv m + declPos piv ou =
        ((a * x + b : Int) : Rat) * Mag.qval piv (commonPointMag unitMags dispMags) + declPos piv oc := by
  obtain ⟨a, ha, haq⟩ := C10_scale_posInt piv hpi unitMags dispMags hu hd m hm
  obtain ⟨b, hbq⟩ := C10_offset_nat piv hpi oc ou pc pu _ hoc hou (commonPointMag_rational _ _ hu hd) hpc hpu hle
    (fun d hd' x => C10_divides_displacements unitMags dispMags (fun m hm => (hu m hm).valid)
      (fun m hm => (hd m hm).valid) d (hdisp d hd') x)
  refine ⟨a, b, ha, fun x => ?_⟩
  rw [haq]
  push_cast
  linarith

/-- Non-vacuity: Kelvins (m = 1, no origin) and Celsius (m = 1, origin 27315 centi-kelvins): the
common point unit has magnitude 1/100 = 2^-2·5^-2; Celsius points convert with a = 100, b = 27315. -/
example : commonPointMag [[], []] [[(.prime 2, -2), (.prime 5, -2)]] = [(.prime 2, -2), (.prime 5, -2)] := by
  decide +kernel

end Au

import AuProofs.Lemmas.GetValue
namespace Au

/-! # C11 — magnitude evaluation and classification are exact (integral types proved; floating
types by bit-exact correspondence) -/

theorem map_all_some {α β : Type} (f : α → Option β) (g : α → β) (l : List α)
    (h : ∀ a ∈ l, f a = some (g a)) : (l.map f).filterMap id = l.map g ∧ (l.map f).any (·.isNone) = false := by
  induction l with
  | nil => simp
  | cons a t ih =>
    have ha := h a (List.mem_cons_self ..)
    have := ih (fun b hb => h b (List.mem_cons_of_mem _ hb))
    simp [ha, this.1]
    intro x hx
    rw [h x (List.mem_cons_of_mem _ hx)]; simp

/-- **C11, integral types (full strength, on the tree after the `fix:` commit for F1).**
`get_value_result<T>(m)` is OK with value `v` exactly when `m` is an integer, its exact value fits
`T`, and `v` is that exact value. -/
theorem C11_integral (t : IntTy) (ht : t ∈ IntTy.all) (m : Mag)
    (hpos : ∀ a ∈ m, ∀ p, a.1 = .prime p → 1 ≤ p) (v : Int) :
    getValueResultInt t m = (.ok, v) ↔
      (Mag.isIntegerMag m = true ∧ Mag.natValue m ≤ t.hi ∧ v = Mag.natValue m) := by
  have hW := widen_hi t ht
  have hlo := lo_nonpos t ht
  unfold getValueResultInt
  by_cases hnil : m = []
  · subst hnil
    simp [Mag.isIntegerMag, Mag.natValue, listProd]
    have := hi_pos t ht
    constructor
    · intro h; exact ⟨by omega, h.symm⟩
    · intro h; exact h.2.symm
  · simp only [hnil, if_false]
    by_cases hint : Mag.isIntegerMag m = true
    · simp only [hint, Bool.not_true, Bool.false_eq_true, if_false, true_and]
      have helem := intElem_of_isInteger m hpos hint
      -- the list of computed base powers is `m.map (bpModel t)`
      show (if ((m.map (bpModel t)).any (·.isNone)) = true then (MagOutcome.errCannotFit, (0 : Int)) else
        match productInt (widenTy t).hi ((m.map (bpModel t)).filterMap id) 1 with
        | none => (MagOutcome.errCannotFit, 0)
        | some v => if t.inRange v then (MagOutcome.ok, t.wrap v) else (MagOutcome.errCannotFit, 0)) = (MagOutcome.ok, v) ↔ _
      have hge : ∀ x ∈ m.map bpExact, 1 ≤ x := by
        intro x hx; rcases List.mem_map.1 hx with ⟨a, ha, rfl⟩; exact bpExact_ge_one a (helem a ha)
      by_cases hall : ∀ a ∈ m, bpExact a ≤ (widenTy t).hi
      · have hs : ∀ a ∈ m, bpModel t a = some (bpExact a) := fun a ha =>
          (bpModel_spec t ht a (helem a ha) _).2 ⟨hall a ha, rfl⟩
        obtain ⟨h1, h2⟩ := map_all_some (bpModel t) bpExact m hs
        rw [h1, h2]
        simp only [Bool.false_eq_true, if_false]
        have hspec := productInt_spec (widenTy t).hi (by omega) (m.map bpExact) 1 hge (by omega) hW.1
        cases hp : productInt (widenTy t).hi (m.map bpExact) 1 with
        | none =>
          simp only []
          constructor
          · intro h; cases h
          · intro ⟨h, _⟩
            have : ¬ (1 * listProd (m.map bpExact) ≤ (widenTy t).hi) := by
              intro hle
              have := (hspec _).2 ⟨hle, rfl⟩
              rw [hp] at this; cases this
            unfold Mag.natValue at h; omega
        | some w =>
          have hw := (hspec w).1 hp
          have hwv : w = Mag.natValue m := by unfold Mag.natValue; omega
          have hw1 : 1 ≤ w := by rw [hwv]; exact listProd_ge_one _ hge
          simp only []
          by_cases hr : t.inRange w
          · simp only [hr, if_true, wrap_of_inRange t ht w hr]
            constructor
            · intro h
              have : w = v := by injection h
              subst this; exact ⟨by rw [← hwv]; exact hr.2, hwv⟩
            · intro ⟨_, h⟩; rw [h, hwv]
          · simp only [hr, if_false]
            constructor
            · intro h; cases h
            · intro ⟨h, _⟩
              exact absurd ⟨by omega, by rw [hwv]; exact h⟩ hr
      · -- some base power does not fit the widened type: ERR_CANNOT_FIT, and the value is too large
        have hex : ∃ a ∈ m, ¬ bpExact a ≤ (widenTy t).hi := by
          by_contra hc; apply hall; intro a ha; by_contra hn; exact hc ⟨a, ha, hn⟩
        obtain ⟨a, ha, hbig⟩ := hex
        have hnone : bpModel t a = none := by
          cases hb : bpModel t a with
          | none => rfl
          | some w => exact absurd ((bpModel_spec t ht a (helem a ha) w).1 hb).1 hbig
        have hany : (m.map (bpModel t)).any (·.isNone) = true := by
          rw [List.any_eq_true]
          exact ⟨none, List.mem_map.2 ⟨a, ha, hnone⟩, rfl⟩
        rw [hany]
        simp only [if_true]
        constructor
        · intro h; cases h
        · intro ⟨h, _⟩
          have := listProd_ge_mem (m.map bpExact) hge (bpExact a) (List.mem_map.2 ⟨a, ha, rfl⟩)
          unfold Mag.natValue at h; omega
    · have hf : Mag.isIntegerMag m = false := by cases h : Mag.isIntegerMag m <;> simp_all
      simp only [hf, Bool.not_false, if_true]
      constructor
      · intro h; cases h
      · intro ⟨h, _⟩; cases h

/-- Regression guards for finding F1 (fixed): a prime base above 2^63 is not representable in any
signed type, and is exactly representable in `uint64_t`. -/
theorem C11_F1_fixed :
    getValueResultInt IntTy.i8 [(.prime 18446744073709551557, 1)] = (.errCannotFit, 0) ∧
    getValueResultInt IntTy.i64 [(.prime 18446744073709551557, 1)] = (.errCannotFit, 0) ∧
    getValueResultInt IntTy.u64 [(.prime 18446744073709551557, 1)] = (.ok, 18446744073709551557) := by
  decide +kernel

/-- Non-vacuity of `C11_integral`: 2^6·3 = 192 fits `uint8_t` but not `int8_t`. -/
example : getValueResultInt IntTy.u8 [(.prime 2, 6), (.prime 3, 1)] = (.ok, 192) ∧
    getValueResultInt IntTy.i8 [(.prime 2, 6), (.prime 3, 1)] = (.errCannotFit, 0) := by decide +kernel

/-- Regression guard for finding F6 (fixed): 10^-50 underflows to zero in `float` and is therefore
reported as not representable; it is representable in `double`. -/
theorem C11_F6_fixed :
    (getValueResultFlt FltTy.f32 [(.prime 2, -50), (.prime 5, -50)]).1 = .errCannotFit ∧
    (getValueResultFlt FltTy.f64 [(.prime 2, -50), (.prime 5, -50)]).1 = .ok := by
  decide +kernel

end Au

import AuModel.GetValue
import AuProofs.Lemmas.Pack
import AuProofs.Lemmas.Mag
import AuProofs.Lemmas.GetValue
import Mathlib.Tactic.Linarith
import AuProofs.Lemmas.MagValue
/-! # C11 — classification traits of magnitudes

`IsInteger`, `IsRational`, `numerator`, `denominator` as the library defines them (through
`IntegerPartT` and type identity) characterised by the exponents: the C11 clause "is_integer,
is_rational, numerator, denominator, integer_part … classify and split the exact value correctly". -/
namespace Au
open Pack

theorem filterMap_eq_self {α : Type} (f : α → Option α) : ∀ l : List α, l.filterMap f = l ↔ ∀ a ∈ l, f a = some a
  | [] => by simp
  | a :: t => by
    constructor
    · intro h
      cases hfa : f a with
      | none =>
        rw [List.filterMap_cons, hfa] at h
        have h1 := List.length_filterMap_le f t
        have h2 := congrArg List.length h
        simp at h2; omega
      | some b =>
        rw [List.filterMap_cons, hfa] at h
        simp only [List.cons.injEq] at h
        obtain ⟨rfl, ht⟩ := h
        intro x hx
        rcases List.mem_cons.1 hx with rfl | hx
        · exact hfa
        · exact (filterMap_eq_self f t).1 ht x hx
    · intro h
      rw [List.filterMap_cons, h a (List.mem_cons_self ..)]
      simp only [List.cons.injEq, true_and]
      exact (filterMap_eq_self f t).2 (fun x hx => h x (List.mem_cons_of_mem _ hx))

/-- The per-element function of `IntegerPartT`. -/
def ipElem (a : MagBase × Rat) : Option (MagBase × Rat) :=
  match a.1 with
  | .prime p =>
    let n := a.2.num; let d : Int := a.2.den
    let k : Int := if n ≥ d then Int.tdiv n d else 0
    if k = 0 then none else some (.prime p, (k : Rat))
  | .pi => none

theorem integerPart_eq (m : Mag) : Mag.integerPart m = m.filterMap ipElem := rfl

theorem ipElem_prime (p : Nat) (e : Rat) :
    ipElem (.prime p, e) =
      (if (if e.num ≥ (e.den : Int) then Int.tdiv e.num e.den else 0) = 0 then none
       else some (.prime p, (((if e.num ≥ (e.den : Int) then Int.tdiv e.num e.den else 0 : Int)) : Rat))) := rfl

theorem ipElem_fixed (a : MagBase × Rat) :
    ipElem a = some a ↔ (∃ p, a.1 = .prime p) ∧ a.2.den = 1 ∧ 1 ≤ a.2 := by
  obtain ⟨b, e⟩ := a
  cases b with
  | pi => simp [ipElem]
  | prime p =>
    rw [ipElem_prime]
    constructor
    · intro h
      by_cases hk : (if e.num ≥ (e.den : Int) then Int.tdiv e.num e.den else 0) = 0
      · rw [if_pos hk] at h; cases h
      · rw [if_neg hk] at h
        simp only [Option.some.injEq, Prod.mk.injEq, true_and] at h
        have hden : e.den = 1 := by rw [← h]; exact Rat.den_intCast _
        have he : e = (e.num : Rat) := by
          have := Rat.num_div_den e; rw [hden] at this; simpa using this.symm
        refine ⟨⟨p, rfl⟩, hden, ?_⟩
        rw [hden] at hk
        simp only [Nat.cast_one, Int.tdiv_one] at hk
        by_cases hge : e.num ≥ 1
        · show (1 : Rat) ≤ e
          rw [he]; exact_mod_cast hge
        · simp [hge] at hk
    · rintro ⟨_, hden, hge⟩
      have hn := num_ge_one_of e hden hge
      have he : e = (e.num : Rat) := by
        have := Rat.num_div_den e; rw [hden] at this; simpa using this.symm
      have hk : (if e.num ≥ (e.den : Int) then Int.tdiv e.num e.den else 0) = e.num := by
        rw [hden]; simp only [Nat.cast_one, Int.tdiv_one]
        have : e.num ≥ 1 := by omega
        simp [this]
      rw [hk]
      have : e.num ≠ 0 := by omega
      rw [if_neg this]
      simp only [Option.some.injEq, Prod.mk.injEq, true_and]
      exact he.symm

/-- **`IsInteger<M>` (`M` is the same type as `IntegerPartT<M>`) is exactly the predicate the model's
`get_value` gate uses**: every base a prime, every exponent an integer ≥ 1. -/
theorem C11_isInteger_iff (m : Mag) : Mag.integerPart m = m ↔ Mag.isIntegerMag m = true := by
  rw [integerPart_eq, filterMap_eq_self]
  unfold Mag.isIntegerMag
  rw [List.all_eq_true]
  constructor
  · intro h a ha
    obtain ⟨⟨p, hp⟩, hd, h1⟩ := (ipElem_fixed a).1 (h a ha)
    rw [hp]; simp [hd, h1]
  · intro h a ha
    have := h a ha
    apply (ipElem_fixed a).2
    cases hb : a.1 with
    | pi => rw [hb] at this; cases this
    | prime p =>
      rw [hb] at this
      simp only [Bool.and_eq_true, beq_iff_eq, decide_eq_true_eq] at this
      exact ⟨⟨p, rfl⟩, this.1, this.2⟩


theorem num_ge_one_of_pos (e : Rat) (hd : e.den = 1) (h : 0 < e) : 1 ≤ e := by
  have he : e = (e.num : Rat) := by
    have := Rat.num_div_den e; rw [hd] at this; simpa using this.symm
  have : 0 < e.num := Rat.num_pos.2 h
  rw [he]; exact_mod_cast this

theorem filter_pos_den (m : Mag) (hs : Sorted MagBase.lt m) (x : MagBase) :
    den (m.filter (fun a => decide (0 < a.2))) x = max (den m x) 0 := by
  induction m with
  | nil => simp [den_nil]
  | cons a t ih =>
    obtain ⟨b, e⟩ := a
    have iht := ih (sorted_tail hs)
    rw [List.filter_cons]
    by_cases hx : b = x
    · subst hx
      have h0 : den t b = 0 := den_eq_zero_of_lt_all MagBase.lt_strictTotal t b (sorted_head hs)
      rw [den_head]
      by_cases he : 0 < e
      · simp only [he, decide_true, if_true, den_head]; grind
      · simp only [he, decide_false, Bool.false_eq_true, if_false]
        rw [iht, h0]; grind
    · by_cases he : 0 < e
      · simp only [he, decide_true, if_true, den_cons, if_neg hx]; exact iht
      · simp only [he, decide_false, Bool.false_eq_true, if_false, den_cons, if_neg hx]; exact iht

theorem numerator_valid (m : Mag) (hv : Valid MagBase.lt m) : Valid MagBase.lt (Mag.numerator m) :=
  ⟨Mag.sorted_filter m _ hv.1, fun y hy => hv.2 y (List.mem_filter.1 hy).1⟩

/-- `numerator(m)` keeps exactly the positive exponents, `denominator(m)` the negated negative ones … -/
theorem C11_numerator_den (m : Mag) (hv : Valid MagBase.lt m) (x : MagBase) :
    den (Mag.numerator m) x = max (den m x) 0 := filter_pos_den m hv.1 x

theorem C11_denominator_den (m : Mag) (hv : Valid MagBase.lt m) (x : MagBase) :
    den (Mag.denominator m) x = max (-(den m x)) 0 := by
  unfold Mag.denominator
  have hvi : Valid MagBase.lt (Pack.inv m) := pow_valid m (-1) hv
  rw [C11_numerator_den _ hvi]
  show max (den (Pack.pow m (-1)) x) 0 = _
  rw [pow_den]; congr 1; ring

/-- … and together they split the magnitude: `m = numerator(m) / denominator(m)` as identical types. -/
theorem C11_num_den_split (m : Mag) (hv : Valid MagBase.lt m) :
    Mag.div (Mag.numerator m) (Mag.denominator m) = m := by
  have hst := MagBase.lt_strictTotal
  have hn := numerator_valid m hv
  have hvi : Valid MagBase.lt (Pack.inv m) := pow_valid m (-1) hv
  have hd : Valid MagBase.lt (Mag.denominator m) := numerator_valid _ hvi
  have hdi : Valid MagBase.lt (Pack.inv (Mag.denominator m)) := pow_valid _ (-1) hd
  apply canonical hst _ _ (mul_valid hst _ _ hn hdi) hv
  intro x
  show den (mul MagBase.lt (Mag.numerator m) (Pack.pow (Mag.denominator m) (-1))) x = _
  have hdi' : Sorted MagBase.lt (Pack.pow (Mag.denominator m) (-1)) := hdi.1
  rw [mul_den hst _ _ hn.1 hdi', pow_den, C11_numerator_den m hv, C11_denominator_den m hv]
  rcases le_total (den m x) 0 with h | h
  · rw [max_eq_right h, max_eq_left (by linarith)]; ring
  · rw [max_eq_left h, max_eq_right (by linarith)]; ring

example : Mag.div (Mag.numerator [(.prime 2, 3), (.prime 5, -1)]) (Mag.denominator [(.prime 2, 3), (.prime 5, -1)]) =
    [(.prime 2, 3), (.prime 5, -1)] := by decide +kernel


/-- "Prime base, integer exponent" — the shape of every factor of a rational magnitude. -/
def RatElem (a : MagBase × Rat) : Prop := (∃ p, a.1 = .prime p) ∧ a.2.den = 1

theorem ratElem_mul (a b : Mag) (ha : ∀ y ∈ a, RatElem y) (hb : ∀ y ∈ b, RatElem y) :
    ∀ y ∈ mul MagBase.lt a b, RatElem y := by
  fun_induction mul MagBase.lt a b with
  | case1 b => exact hb
  | case2 a _ => exact ha
  | case3 b1 e1 t1 b2 e2 t2 hlt ih =>
    intro y hy; rcases List.mem_cons.1 hy with rfl | hy
    · exact ha _ (List.mem_cons_self ..)
    · exact ih (fun z hz => ha z (List.mem_cons_of_mem _ hz)) hb y hy
  | case4 b1 e1 t1 b2 e2 t2 hlt hgt ih =>
    intro y hy; rcases List.mem_cons.1 hy with rfl | hy
    · exact hb _ (List.mem_cons_self ..)
    · exact ih (fun z hz => hb z (List.mem_cons_of_mem _ hz)) ha y hy
  | case5 b1 e1 t1 b2 e2 t2 hlt hgt hz ih =>
    exact ih (fun z hz => ha z (List.mem_cons_of_mem _ hz)) (fun z hz => hb z (List.mem_cons_of_mem _ hz))
  | case6 b1 e1 t1 b2 e2 t2 hlt hgt hz ih =>
    intro y hy; rcases List.mem_cons.1 hy with rfl | hy
    · have h1 := ha (b1, e1) (List.mem_cons_self ..)
      have h2 := hb (b2, e2) (List.mem_cons_self ..)
      exact ⟨h1.1, (num_add_of_den_one e1 e2 h1.2 h2.2).1⟩
    · exact ih (fun z hz => hb z (List.mem_cons_of_mem _ hz)) (fun z hz => ha z (List.mem_cons_of_mem _ hz)) y hy

theorem ratElem_integerPart (m : Mag) : ∀ y ∈ Mag.integerPart m, RatElem y := by
  intro y hy
  rw [integerPart_eq, List.mem_filterMap] at hy
  obtain ⟨a, _, hay⟩ := hy
  obtain ⟨b, e⟩ := a
  cases b with
  | pi => simp [ipElem] at hay
  | prime p =>
    rw [ipElem_prime] at hay
    by_cases hk : (if e.num ≥ (e.den : Int) then Int.tdiv e.num e.den else 0) = 0
    · rw [if_pos hk] at hay; cases hay
    · rw [if_neg hk] at hay
      simp only [Option.some.injEq] at hay
      rw [← hay]
      exact ⟨⟨p, rfl⟩, Rat.den_intCast _⟩

theorem ratElem_inv (m : Mag) (h : ∀ y ∈ m, RatElem y) : ∀ y ∈ Pack.inv m, RatElem y := by
  intro y hy
  rw [inv_eq_map] at hy
  obtain ⟨a, ha, rfl⟩ := List.mem_map.1 hy
  refine ⟨(h a ha).1, ?_⟩
  have : a.2 * (-1) = -a.2 := by ring
  show (a.2 * (-1)).den = 1
  rw [this, Rat.neg_den]; exact (h a ha).2

/-- **`IsRational<M>`** (`M == IntegerPart(Numerator(M)) / IntegerPart(Denominator(M))`) holds exactly
when every base is a prime and every exponent an integer (no π, no roots), for every valid magnitude. -/
theorem C11_isRational_iff (m : Mag) (hv : Valid MagBase.lt m) :
    Mag.isRationalMag m = true ↔ ∀ a ∈ m, RatElem a := by
  unfold Mag.isRationalMag
  rw [decide_eq_true_eq]
  constructor
  · intro h
    rw [h]
    exact ratElem_mul _ _ (ratElem_integerPart _) (ratElem_inv _ (ratElem_integerPart _))
  · intro h
    have hvi : Valid MagBase.lt (Pack.inv m) := pow_valid m (-1) hv
    -- numerator and denominator are integer magnitudes, so IntegerPart leaves them alone
    have h1 : Mag.integerPart (Mag.numerator m) = Mag.numerator m := by
      rw [C11_isInteger_iff]
      unfold Mag.isIntegerMag
      rw [List.all_eq_true]
      intro a ha
      have ham := (List.mem_filter.1 ha)
      obtain ⟨⟨p, hp⟩, hd⟩ := h a ham.1
      have hpos : 0 < a.2 := by simpa using ham.2
      have h1 := num_ge_one_of_pos a.2 hd hpos
      rw [hp]; simp [hd, h1]
    have h2 : Mag.integerPart (Mag.denominator m) = Mag.denominator m := by
      rw [C11_isInteger_iff]
      unfold Mag.isIntegerMag Mag.denominator
      rw [List.all_eq_true]
      intro a ha
      have ham := (List.mem_filter.1 ha)
      obtain ⟨⟨p, hp⟩, hd⟩ := ratElem_inv m h a ham.1
      have hpos : 0 < a.2 := by simpa using ham.2
      have h1 := num_ge_one_of_pos a.2 hd hpos
      rw [hp]; simp [hd, h1]
    rw [h1, h2]
    exact (C11_num_den_split m hv).symm

end Au

import AuProofs.Lemmas.Mod
namespace Au
open U64

/-- `add_mod(a, b, n)` is `(a + b) % n` with no intermediate wrap-around, for every 64-bit modulus
(including moduli above 2^63) and all operands below it. -/
theorem C12_addMod_spec (a b n : Nat) (ha : a < n) (hb : b < n) (hn : n < 2 ^ 64) :
    addMod a b n = W.ok ((a + b) % n) :=
  addMod_spec' (Nat.le_of_lt ha) hb (M_eq ▸ hn)

example : (18446744073709551614 : Nat) < 18446744073709551615 ∧ (18446744073709551615 : Nat) < 2 ^ 64 := by decide
example : addMod 18446744073709551614 18446744073709551613 18446744073709551615 = W.ok 18446744073709551612 := by decide

end Au

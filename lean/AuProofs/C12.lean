/-
  C12 — factorisation, primality and the modular helpers on all 64-bit inputs.

  Model: AuModel.Mod / Primes / Factoring (every `uint64_t` operation is a wrapping operation that
  records wrap-around, division by zero and fuel exhaustion; `W.ok v` = value `v`, all flags clear).
  What is proved here holds for ALL inputs satisfying the stated hypotheses (no bounds other than
  "fits in 64 bits").  What is NOT proved: `is_prime n ↔ Nat.Prime n` (Baillie–PSW; it appears below
  only as an explicit hypothesis `BPSWSound`), and termination of Pollard's rho within its fuel.
-/
import AuProofs.Lemmas.Factoring
import AuProofs.Lemmas.Pratt
import AuProofs.Lemmas.NatMag
import AuProofs.Lemmas.Rho
import AuProofs.Lemmas.NatMagSorted
import AuProofs.Lemmas.SmallPrimesAll
import Generated.FirstPrimes
namespace Au
open U64

/-! ### Modular helpers (mod.hh) -/

/-- `add_mod(a, b, n) = (a + b) mod n`, no intermediate wrap-around, for every modulus below 2^64
(moduli above 2^63 included) and operands below the modulus. -/
theorem C12_addMod_spec (a b n : Nat) (ha : a < n) (hb : b < n) (hn : n < 2 ^ 64) :
    addMod a b n = W.ok ((a + b) % n) :=
  addMod_spec' (Nat.le_of_lt ha) hb (M_eq ▸ hn)

example : (18446744073709551614 : Nat) < 18446744073709551615 ∧ (18446744073709551615 : Nat) < 2 ^ 64 := by decide
example : addMod 18446744073709551614 18446744073709551613 18446744073709551615 = W.ok 18446744073709551612 := by decide

/-- `sub_mod(a, b, n) = (a - b) mod n` (mathematical, non-negative residue), no wrap-around. -/
theorem C12_subMod_spec (a b n : Nat) (ha : a < n) (hb : b < n) (hn : n < 2 ^ 64) :
    ∃ r : Nat, subMod a b n = W.ok r ∧ (r : Int) = ((a : Int) - (b : Int)) % (n : Int) := by
  refine ⟨(a + (n - b)) % n, subMod_spec' ha hb (M_eq ▸ hn), ?_⟩
  have h1 : ((a + (n - b) : Nat) : Int) = (a : Int) - b + n := by
    rw [Nat.cast_add, Nat.cast_sub (Nat.le_of_lt hb)]; ring
  rw [Int.natCast_mod, h1, Int.add_emod_right]

example : subMod 3 18446744073709551613 18446744073709551615 = W.ok 5 := by decide

/-- `mul_mod(a, b, n) = (a * b) mod n` with no intermediate wrap-around: neither the fast path, nor
the "negative space" chunking, nor any level of its recursion wraps, for every modulus below 2^64. -/
theorem C12_mulMod_spec (a b n : Nat) (ha : a < n) (hb : b < n) (hn : n < 2 ^ 64) :
    mulMod a b n = W.ok (a * b % n) :=
  mulMod_spec' ha hb (M_eq ▸ hn)

example : mulMod 18446744073709551614 18446744073709551613 18446744073709551615 = W.ok 2 := by decide
example : mulMod 9223372036854775809 18446744073709551557 18446744073709551615 = W.ok 18446744073709551528 := by decide

/-- `half_mod_odd(a, n)` is the residue `r < n` with `2 r ≡ a (mod n)` (unique because `n` is odd),
computed without wrap-around. -/
theorem C12_halfModOdd_spec (a n : Nat) (ha : a < n) (hodd : n % 2 = 1) (hn : n < 2 ^ 64) :
    ∃ r : Nat, halfModOdd a n = W.ok r ∧ r < n ∧ 2 * r % n = a := by
  refine ⟨_, halfModOdd_spec' ha hodd (M_eq ▸ hn), ?_⟩
  exact half_value ha hodd

/-- Uniqueness of the value specified by `C12_halfModOdd_spec`. -/
theorem C12_half_unique (n r s : Nat) (hodd : n % 2 = 1) (hr : r < n) (hs : s < n) (h : 2 * r % n = 2 * s % n) : r = s := by
  have h2 : Nat.Coprime 2 n := by
    rw [Nat.Prime.coprime_iff_not_dvd Nat.prime_two]
    omega
  have : r ≡ s [MOD n] := Nat.ModEq.cancel_left_of_coprime (c := 2) (by rw [Nat.gcd_comm]; exact h2) h
  have := Nat.ModEq.eq_of_lt_of_lt this hr hs
  exact this

example : halfModOdd 18446744073709551613 18446744073709551615 = W.ok 18446744073709551614 := by decide

/-- `pow_mod(base, exp, n) = base^exp mod n` for every 64-bit base and exponent and modulus `1 < n`,
without wrap-around. -/
theorem C12_powMod_spec (base exp n : Nat) (hn1 : 1 < n) (hn : n < 2 ^ 64) :
    powMod base exp n = W.ok (base ^ exp % n) :=
  powMod_spec' hn1 (M_eq ▸ hn)

example : powMod 18446744073709551615 18446744073709551615 18446744073709551557 = W.ok 4959809447704153900 := by decide +kernel

/-- The statement without `1 < n` is false: `pow_mod(b, 0, 1)` returns 1, not `b^0 mod 1 = 0`.
(No caller in the library passes `n = 1`.) -/
def C12_powMod_full : Prop := ∀ base exp n : Nat, 0 < n → n < 2 ^ 64 → powMod base exp n = W.ok (base ^ exp % n)
theorem C12_powMod_counterexample : ¬ C12_powMod_full := by
  intro h
  have := h 5 0 1 (by decide) (by decide)
  revert this
  decide

/-! ### gcd, decompose, Miller–Rabin, is_perfect_square (probable_primes.hh) -/

/-- `gcd(a, b)` is the greatest common divisor (no precondition at all). -/
theorem C12_gcd_spec (a b : Nat) : U64.gcd a b = W.ok (Nat.gcd a b) := gcd_spec' a b

/-- `decompose(n)` returns `(s, d)` with `n = 2^s d`, `d` odd, for every `0 < n < 2^64`. -/
theorem C12_decompose_spec (n : Nat) (h0 : 0 < n) (hn : n < 2 ^ 64) :
    ∃ s d, decompose n = W.ok ⟨s, d⟩ ∧ n = 2 ^ s * d ∧ d % 2 = 1 := by
  obtain ⟨s, d, h1, h2, h3, _⟩ := decompose_spec' h0 (M_eq ▸ hn)
  exact ⟨s, d, h1, h2, h3⟩

example : decompose 9223372036854775808 = W.ok ⟨63, 1⟩ := by decide
/-- `decompose(0)` does not terminate. -/
example : (decompose 0).stuck = true := by decide

/-- `miller_rabin(a, n)` answers PROBABLY_PRIME exactly when `n` is a strong probable prime to base
`a`, COMPOSITE otherwise, on every valid input (`2 ≤ a`, `a + 2 ≤ n`, `n` odd), with no wrap-around
anywhere inside. -/
theorem C12_millerRabin_iff_strongProbablePrime (a n : Nat) (ha : 2 ≤ a) (han : a + 2 ≤ n)
    (hodd : n % 2 = 1) (hn : n < 2 ^ 64) :
    ∃ r, millerRabin a n = W.ok r ∧ (r = .probablyPrime ↔ StrongProbablePrime a n) ∧
      (r = .composite ↔ ¬ StrongProbablePrime a n) := by
  classical
  refine ⟨_, millerRabin_spec' ha han hodd (M_eq ▸ hn), ?_, ?_⟩ <;> by_cases h : StrongProbablePrime a n <;> simp [h]

example : millerRabin 2 2047 = W.ok .probablyPrime := by decide        -- the smallest strong pseudoprime to base 2
example : millerRabin 3 2047 = W.ok .composite := by decide

/-- `is_perfect_square(n)` (after fix F19: `n / curr == curr && n % curr == 0`) is exact for every
64-bit `n`, with no wrap-around, no division by zero, and within fuel: the Newton iteration from
`n / 2` stays at or above `⌊√n⌋` (integer AM–GM) and strictly decreases while above it. -/
theorem C12_isPerfectSquare_spec (n : Nat) (hn : n < 2 ^ 64) :
    (isPerfectSquare n = W.ok true ↔ ∃ k, k * k = n) ∧ (isPerfectSquare n = W.ok false ↔ ¬ ∃ k, k * k = n) := by
  have h := isPerfectSquare_spec' n (M_eq ▸ hn)
  rw [h, Nat.exists_mul_self]
  by_cases hs : Nat.sqrt n * Nat.sqrt n = n <;> simp [hs]

example : isPerfectSquare 17179869188 = W.ok false := by decide +kernel          -- 2^34 + 4: wrongly `true` before F19
example : isPerfectSquare 18446744030759878681 = W.ok true := by decide +kernel  -- (2^32 - 5)^2
example : isPerfectSquare 10785637507345693793 = W.ok false := by decide +kernel

/-! ### find_prime_factor (factoring.hh) and the FirstPrimes table -/

/-- The regenerated table is exactly the first 100 primes: 100 entries, strictly increasing, all
prime, and every prime up to 541 occurs. -/
theorem C12_firstPrimes_are_the_first_100_primes :
    Generated.firstPrimes.length = 100 ∧ List.Pairwise (· < ·) Generated.firstPrimes ∧
      (∀ p ∈ Generated.firstPrimes, Nat.Prime p) ∧ (∀ q, Nat.Prime q → q ≤ 541 → q ∈ Generated.firstPrimes) := by
  refine ⟨by decide, by decide, ?_, ?_⟩
  · have h : Generated.firstPrimes.all isPrimeNaive = true := by decide +kernel
    intro p hp
    exact (isPrimeNaive_iff p).1 (List.all_eq_true.1 h p hp)
  · have h : (List.range 542).all (fun q => !isPrimeNaive q || Generated.firstPrimes.contains q) = true := by decide +kernel
    intro q hq hle
    have := List.all_eq_true.1 h q (List.mem_range.2 (by omega))
    rw [(isPrimeNaive_iff q).2 hq] at this
    simpa using this

theorem C12_firstPrimes_gapless : nextPrimesB 0 Generated.firstPrimes = true := by decide +kernel

/-- Whatever `find_prime_factor(n)` returns divides `n` — unconditionally (any fuel, any table). -/
theorem C12_findPrimeFactor_divides (fu : Fuel) (table : List Nat) (n : Nat) :
    (findPrimeFactor fu table n).val ∣ n := findPrimeFactor_dvd fu table n

/-- For `n > 1`, if the model's loops end within their fuel, the returned factor `r` divides `n`,
is `> 1`, and is either a true prime (trial-division exits: proved via the table theorem) or a
number the library's own `is_prime` accepts (Pollard-rho exits). -/
theorem C12_findPrimeFactor_spec (fu : Fuel) (n : Nat) (hn : 1 < n)
    (hs : (findPrimeFactor fu Generated.firstPrimes n).stuck = false) :
    (findPrimeFactor fu Generated.firstPrimes n).val ∣ n ∧ 1 < (findPrimeFactor fu Generated.firstPrimes n).val ∧
      (Nat.Prime (findPrimeFactor fu Generated.firstPrimes n).val ∨
        (isPrime fu (findPrimeFactor fu Generated.firstPrimes n).val).val = true) :=
  findPrimeFactor_spec' fu _ n hn C12_firstPrimes_gapless hs

example : (1 : Nat) < 4295098369 ∧ (findPrimeFactor {} Generated.firstPrimes 4295098369).stuck = false ∧
    (findPrimeFactor {} Generated.firstPrimes 4295098369).val = 65537 := by decide +kernel

/-- Soundness of Baillie–PSW on 64-bit inputs as an explicit HYPOTHESIS (never an axiom): it is the
published exhaustive computation this framework does not re-prove. -/
def BPSWSound (fu : Fuel) : Prop := ∀ r : Nat, r < 2 ^ 64 → (isPrime fu r).val = true → Nat.Prime r

/-- Under that hypothesis the factor finder returns a prime divisor of every `1 < n < 2^64`. -/
theorem C12_findPrimeFactor_prime_of_BPSW (fu : Fuel) (hB : BPSWSound fu) (n : Nat) (hn : 1 < n) (hn64 : n < 2 ^ 64)
    (hs : (findPrimeFactor fu Generated.firstPrimes n).stuck = false) :
    Nat.Prime (findPrimeFactor fu Generated.firstPrimes n).val ∧ (findPrimeFactor fu Generated.firstPrimes n).val ∣ n := by
  obtain ⟨h1, _, h3⟩ := C12_findPrimeFactor_spec fu n hn hs
  refine ⟨?_, h1⟩
  rcases h3 with h | h
  · exact h
  · exact hB _ (Nat.lt_of_le_of_lt (Nat.le_of_dvd (by omega) h1) hn64) h

/-! ### Pollard's rho, trial division, and what is unconditional -/

/-- The gcd invariant of Pollard's rho: for EVERY `n > 1`, whenever `find_pollard_rho_factor(n)` returns
within the model's fuel, the value `d` it returns divides `n` and `1 < d ≤ n`; `d < n` is the success
case, `d = n` the documented "failure case".  (Termination within fuel is the only hypothesis, on that
`n` only.) -/
theorem C12_pollardRho_returns_divisor (fu : Fuel) (n : Nat) (hn : 1 < n)
    (hs : (findPollardRhoFactor fu n).stuck = false) :
    (findPollardRhoFactor fu n).val ∣ n ∧ 1 < (findPollardRhoFactor fu n).val ∧ (findPollardRhoFactor fu n).val ≤ n :=
  findPollardRhoFactor_spec fu n hn hs

example : findPollardRhoFactor {} (547 * 557) = W.ok 557 ∨ findPollardRhoFactor {} (547 * 557) = W.ok 547 := by decide +kernel

/-- Whatever the trial-division phase returns is the SMALLEST prime factor of `n` (a genuine prime:
no Baillie–PSW hypothesis, the table entries are proved prime and gapless). -/
theorem C12_trialDivision_smallest_prime_factor (n : Nat) (hn : 1 < n) (r : Nat)
    (h : (trialDivision n Generated.firstPrimes).val = some r) : r = Nat.minFac n ∧ Nat.Prime r := by
  have h1 := trialDivision_minFac n hn _ 0 C12_firstPrimes_gapless (fun _ _ _ => Nat.zero_le _) r h
  exact ⟨h1, h1 ▸ Nat.minFac_prime (by omega)⟩

/-- Below `541² = 292681` `find_prime_factor` is unconditional: for any fuel it returns exactly the
smallest prime factor, with no wrap, no UB, no fuel exhaustion. -/
theorem C12_findPrimeFactor_exact_below_292681 (fu : Fuel) (n : Nat) (hn : 1 < n) (hlt : n < 292681) :
    findPrimeFactor fu Generated.firstPrimes n = W.ok (Nat.minFac n) := by
  apply findPrimeFactor_small fu _ n hn C12_firstPrimes_gapless
  · intro p hp
    exact ((C12_firstPrimes_are_the_first_100_primes).2.2.1 p hp).pos
  · exact ⟨541, by decide, by omega⟩

example : findPrimeFactor {} Generated.firstPrimes 282943 = W.ok 523 ∧ findPrimeFactor {} Generated.firstPrimes 292667 = W.ok 292667 := by decide +kernel   -- 523 · 541, and a prime just below 541²

/-- `is_prime n ↔ Nat.Prime n` UNCONDITIONALLY for every `n < 2^16` (model with the default fuel), flags
clean: kernel evaluation (`decide +kernel`, sixteen chunks in AuProofs/Lemmas/SmallPrimesCert*.lean) of the
Baillie–PSW model on every prime and every base-2 strong probable prime below the bound, and of the proved
Miller–Rabin characterisation on all other odd numbers.  `BPSWSound` is needed only above this bound. -/
theorem C12_isPrime_iff_prime_below_65536 (n : Nat) (h : n < 65536) :
    (isPrime {} n = W.ok true ↔ Nat.Prime n) ∧ (isPrime {} n = W.ok false ↔ ¬ Nat.Prime n) := by
  rw [isPrime_exact_below_65536 n h, ← isPrimeSqrt_iff]
  cases isPrimeSqrt n <;> simp

example : isPrime {} 65521 = W.ok true ∧ isPrime {} 2047 = W.ok false ∧ isPrime {} 5459 = W.ok false := by decide +kernel

/-- `PrimeFactorization<N>`: for every `N < 2^64`, whenever the model produces a magnitude, its factors
multiply back to `N`, the pack is strictly sorted by base, and every base divides `N` and passed
`Prime<base>`'s `static_assert(is_prime(base))`.  No termination hypothesis: it is about every returned
result. -/
theorem C12_primeFactorization_product (fu : Fuel) (table : List Nat) (N : Nat) (hN : N < 2 ^ 64) (m : NatMag)
    (h : (magOfNat fu table N).val = .mag m) :
    NatMag.value m = N ∧ NatMag.Sorted m ∧ ∀ be ∈ m, (isPrime fu be.1).val = true ∧ be.1 ∣ N := by
  obtain ⟨h1, h2⟩ := primeFactorization_value fu table _ N m (M_eq ▸ hN) h
  exact ⟨h1, primeFactorization_sorted fu table _ N m h, h2⟩

/-- Below `2^16` the whole factorisation is unconditional: every base of `mag<N>()` is a genuine prime,
the pack is sorted and multiplies back to `N` — i.e. it is THE canonical prime factorisation. -/
theorem C12_mag_canonical_below_65536 (table : List Nat) (N : Nat) (h0 : 0 < N) (hN : N < 65536) (m : NatMag)
    (h : (magOfNat {} table N).val = .mag m) :
    NatMag.value m = N ∧ NatMag.Sorted m ∧ ∀ be ∈ m, Nat.Prime be.1 := by
  obtain ⟨h1, h2, h3⟩ := C12_primeFactorization_product {} table N (by omega) m h
  refine ⟨h1, h2, fun be hbe => ?_⟩
  obtain ⟨hp, hd⟩ := h3 be hbe
  have hle : be.1 ≤ N := Nat.le_of_dvd h0 hd
  have hex := isPrime_exact_below_65536 be.1 (by omega)
  rw [hex] at hp
  exact (isPrimeSqrt_iff _).1 hp

example : (magOfNat {} Generated.firstPrimes 65520).val = .mag [(2, 4), (3, 2), (5, 1), (7, 1), (13, 1)] := by decide +kernel

/-- Under `BPSWSound` the same holds for every 64-bit `N` for which the model returns a magnitude. -/
theorem C12_mag_canonical_of_BPSW (fu : Fuel) (hB : BPSWSound fu) (table : List Nat) (N : Nat) (h0 : 0 < N) (hN : N < 2 ^ 64)
    (m : NatMag) (h : (magOfNat fu table N).val = .mag m) :
    NatMag.value m = N ∧ NatMag.Sorted m ∧ ∀ be ∈ m, Nat.Prime be.1 := by
  obtain ⟨h1, h2, h3⟩ := C12_primeFactorization_product fu table N hN m h
  refine ⟨h1, h2, fun be hbe => ?_⟩
  obtain ⟨hp, hd⟩ := h3 be hbe
  exact hB _ (Nat.lt_of_le_of_lt (Nat.le_of_dvd h0 hd) hN) hp

/-! ### mag<a>() * mag<b>() -/

/-- `MagProductT` on integer magnitudes multiplies the denoted numbers: the product of `mag<a>()` and
`mag<b>()` denotes `a * b` whenever the factors denote `a` and `b`.  (That `mag<N>()` is the *canonical*
factorisation — sorted, prime bases — follows from `C12_findPrimeFactor_spec` only under `BPSWSound`; the
identity of the types `mag<a>()*mag<b>()` and `mag<a*b>()` is checked by the compile probes.) -/
theorem C12_magMul_value (a b : NatMag) : NatMag.value (magMul a b) = NatMag.value a * NatMag.value b :=
  magMul_value a b

example : magMul [(2, 2), (3, 1)] [(2, 1), (3, 2)] = [(2, 3), (3, 3)] := by decide
example : (magOfNat {} Generated.firstPrimes 360).val = .mag [(2, 3), (3, 2), (5, 1)] := by decide +kernel

/-! ### is_prime -/

/-- "For every 64-bit n the primality test answers 'prime' exactly when n is prime."  NOT proved:
"accepted ⇒ prime" is `BPSWSound` (the published exhaustive computation), and "prime ⇒ accepted"
needs the theory of the strong Lucas test for primes, which Mathlib does not have.  Covered by the
correspondence (sieve sweep + adversarial sets).  No counterexample is known on the fixed tree. -/
def C12_isPrime_full (fu : Fuel) : Prop :=
  ∀ n : Nat, n < 2 ^ 64 → ((isPrime fu n).val = true ↔ Nat.Prime n)

/-- Regression guard for finding F19 (fixed): before the fix `is_perfect_square(10785637507345693793)`
answered `true` (its 10th Newton iterate `c = 5266424564134321` has `c * c ≡ n (mod 2^64)`), so
`is_prime` rejected this prime.  The number is prime (Lucas/Pratt certificate checked in Lean with
the verified `powMod`), and the model of the fixed code accepts it, cleanly. -/
theorem C12_isPrime_regression_F19 :
    Nat.Prime 10785637507345693793 ∧ isPrime {} 10785637507345693793 = W.ok true :=
  ⟨prime_10785637507345693793, by decide +kernel⟩

/-- What is proved about `is_prime` itself: the direction "accepted ⇒ prime" is the Baillie–PSW hypothesis
`BPSWSound` (not proved here); the Miller–Rabin half is exact (`C12_millerRabin_iff_strongProbablePrime`);
and `is_prime` never accepts `n < 2` nor an even `n > 2`. -/
theorem C12_isPrime_partial (fu : Fuel) (n : Nat) (h : (isPrime fu n).val = true) : 2 ≤ n ∧ (n = 2 ∨ n % 2 = 1) := by
  refine ⟨isPrime_val_ge2 fu n h, ?_⟩
  by_contra hc
  have h2 := isPrime_val_ge2 fu n h
  have h4 : ¬ n < 4 := by omega
  unfold isPrime bailliePSW at h
  rw [if_neg (by omega), if_neg h4, if_pos (by omega)] at h
  simp [pure_eq_ok] at h

example : (isPrime {} 18446744073709551557).val = true := by decide +kernel

/-! ### Corners recorded as observations -/

/-- `strong_lucas(2^64 - 1)`: `n + 1` wraps to 0 and `decompose(0)` never ends.  Unreachable through
`baillie_psw`, because Miller–Rabin base 2 rejects `2^64 - 1` first: -/
theorem C12_strongLucas_max_stuck : (strongLucas 100 18446744073709551615).stuck = true := by decide +kernel
theorem C12_bailliePSW_max : (bailliePSW 100 18446744073709551615).val = .composite ∧
    (bailliePSW 100 18446744073709551615).stuck = false := by decide +kernel

end Au

import AuProofs.Lemmas.C13
set_option linter.unusedSimpArgs false
namespace Au
open IntTy Au.C13

/-! # C13 — Quantity is a zero-overhead transparent wrapper around its rep

Part (a): layout facts of `Quantity<U, R>` / `QuantityPoint<U, R>` from the class descriptors
(`AuModel.Layout`; the descriptors of the real classes are regenerated into `Generated.Classes`
and shown to satisfy the premises in `AuProofs.Gen.C13`).
Part (b): the same-unit operators against the built-in operators on the raw values
(`AuModel.QuantityOps`), for every semantics `F` of the floating-point instructions. -/

/-! ## (a) Layout -/

/-- Shape of `au::Quantity`: exactly one non-static data member, of type `Rep`, with default member
initialiser `{}`; no bases; nothing virtual; implicit copy/move/destructor; the default constructor
is declared and defaulted. -/
def isRepWrapper (d : ClassD) : Bool :=
  (match d.fields with
   | [f] => f.ty == .rep && f.init == .emptyBraces
   | _ => false) &&
  d.bases.isEmpty && d.nVirtualBases == 0 && d.nVirtualFns == 0 &&
  !d.userCopyCtor && !d.userMoveCtor && !d.userCopyAssign && !d.userMoveAssign && !d.userDtor &&
  (match d.ctors.find? (fun c => c.params == []) with
   | some c => c.kind == .defaulted
   | none => false)

/-- The constructor of `q` taking `au::Zero` is user-provided and initialises the single member
with `{0}` (or `{}`). -/
def zeroCtorZeroes (q : ClassD) : Bool :=
  match q.fields, q.ctors.find? (fun c => c.params == [.zero]) with
  | [g], some z =>
    z.kind == .userProvided && g.ty == .rep &&
      (effectiveInit z.inits g == .intLit 0 || effectiveInit z.inits g == .emptyBraces)
  | _, _ => false

/-- Shape of `au::QuantityPoint`: exactly one non-static data member whose type is the class `c`
(instantiated at the same `Rep`); no bases; nothing virtual; implicit copy/move/destructor; the
default constructor is user-provided and initialises the member with `{ZERO}`. -/
def isWrapperOf (d : ClassD) (c : String) : Bool :=
  (match d.fields with
   | [f] =>
     f.ty == .cls c &&
     (match d.ctors.find? (fun k => k.params == []) with
      | some k => k.kind == .userProvided && effectiveInit k.inits f == .zeroConst
      | none => false)
   | _ => false) &&
  d.bases.isEmpty && d.nVirtualBases == 0 && d.nVirtualFns == 0 &&
  !d.userCopyCtor && !d.userMoveCtor && !d.userCopyAssign && !d.userMoveAssign && !d.userDtor

theorem roundUp_self (a : Nat) (h : 0 < a) : roundUp a a = a := by
  unfold roundUp
  have h0 : a ≠ 0 := by omega
  rw [if_neg h0]
  have : (a + a - 1) / a = 1 := by
    apply Nat.div_eq_of_lt_le <;> omega
  rw [this]; omega

theorem rep_align_pos (R : RepTy) (hR : R ∈ RepTy.all) : 0 < R.align ∧ R.size = R.align ∧ 1 ≤ R.size := by
  simp only [RepTy.all, IntTy.all, FltK.all, List.map, List.cons_append, List.nil_append,
    List.mem_cons, List.not_mem_nil, or_false] at hR
  rcases hR with h|h|h|h|h|h|h|h|h|h|h <;> subst h <;> decide

/-- Layout of a class with a single member of size = alignment `s`. -/
theorem layout_single (s : Nat) (hs : 0 < s) : layoutFields [⟨s, s⟩] 0 1 = ⟨s, s⟩ := by
  simp only [layoutFields]
  have h1 : roundUp 0 s = 0 := by
    unfold roundUp; split
    · rfl
    · have : (0 + s - 1) / s = 0 := by apply Nat.div_eq_of_lt; omega
      rw [this]; omega
  rw [h1]
  have h2 : max 1 s = s := by omega
  have h3 : max (0 + s) 1 = s := by omega
  rw [h2, h3, roundUp_self s hs]

/-- **C13 (layout, Quantity).**  Any class of the shape `isRepWrapper` — whatever its other
constructors, member functions, static members — has, for every one of the 11 arithmetic reps,
exactly the rep's size and alignment, is trivially copyable, trivially destructible and
standard-layout, and a default-initialised object holds `R{}`. -/
theorem C13_layout_quantity (env : ClassEnv) (d : ClassD) (h : isRepWrapper d = true)
    (R : RepTy) (hR : R ∈ RepTy.all) :
    classFacts env d R = transparentFacts R := by
  obtain ⟨ha, hsz, _⟩ := rep_align_pos R hR
  obtain ⟨name, fields, bases, nvb, nvf, cc, mc, ca, ma, dt, ctors⟩ := d
  simp only [isRepWrapper, Bool.and_eq_true, Bool.not_eq_true', beq_iff_eq, List.isEmpty_iff] at h
  obtain ⟨⟨⟨⟨⟨⟨⟨⟨⟨hf, hb⟩, hvb⟩, hvf⟩, hcc⟩, hmc⟩, hca⟩, hma⟩, hdt⟩, hct⟩ := h
  subst hb hvb hvf hcc hmc hca hma hdt
  match fields, hf with
  | [f], hf =>
    simp only [Bool.and_eq_true, beq_iff_eq] at hf
    obtain ⟨fn, fty, fa, fi⟩ := f
    obtain ⟨h1, h2⟩ := hf
    simp only at h1 h2
    subst h1 h2
    cases hfind : List.find? (fun c => c.params == []) ctors with
    | none => rw [hfind] at hct; cases hct
    | some c =>
      rw [hfind] at hct
      simp only [beq_iff_eq] at hct
      simp only [classFacts, transparentFacts, layoutFuel, classLayout, triviallyCopyable,
        triviallyDestructible, standardLayout, classAll, ownTriviallyCopyable,
        ownTriviallyDestructible, ownStandardLayout, defaultContent, ctorContent, hfind, hct,
        effectiveInit, Content.all, Content.and, allSome, List.map, List.all, List.find?]
      simp [hsz, layout_single R.align ha]

/-- **C13 (layout, QuantityPoint).**  Any class of the shape `isWrapperOf d c`, where the class `c`
of the environment has the shape `isRepWrapper` and a zeroing `Zero` constructor, has the same
five facts. -/
theorem C13_layout_point (env : ClassEnv) (d q : ClassD) (c : String)
    (hq : env.find c = some q) (hqs : isRepWrapper q = true) (hz : zeroCtorZeroes q = true)
    (h : isWrapperOf d c = true) (R : RepTy) (hR : R ∈ RepTy.all) :
    classFacts env d R = transparentFacts R := by
  have hQ := C13_layout_quantity env q hqs R hR
  obtain ⟨ha, hsz, _⟩ := rep_align_pos R hR
  -- facts about the inner class at fuel 3 (its own evaluation does not depend on the fuel ≥ 1)
  obtain ⟨qname, qfields, qbases, qnvb, qnvf, qcc, qmc, qca, qma, qdt, qctors⟩ := q
  simp only [isRepWrapper, Bool.and_eq_true, Bool.not_eq_true', beq_iff_eq, List.isEmpty_iff] at hqs
  obtain ⟨⟨⟨⟨⟨⟨⟨⟨⟨hf, hb⟩, hvb⟩, hvf⟩, hcc⟩, hmc⟩, hca⟩, hma⟩, hdt⟩, hct⟩ := hqs
  subst hb hvb hvf hcc hmc hca hma hdt
  match qfields, hf with
  | [g], hf =>
    simp only [Bool.and_eq_true, beq_iff_eq] at hf
    obtain ⟨gn, gty, ga, gi⟩ := g
    obtain ⟨h1, h2⟩ := hf
    simp only at h1 h2
    subst h1 h2
    -- the Zero constructor of q
    simp only [zeroCtorZeroes] at hz
    cases hzf : List.find? (fun c => c.params == [ParamTy.zero]) qctors with
    | none => rw [hzf] at hz; cases hz
    | some z =>
      rw [hzf] at hz
      simp only [Bool.and_eq_true, beq_iff_eq, Bool.or_eq_true] at hz
      obtain ⟨⟨hzk, _⟩, hzi⟩ := hz
      -- the outer class
      obtain ⟨name, fields, bases, nvb, nvf, cc, mc, ca, ma, dt, ctors⟩ := d
      simp only [isWrapperOf, Bool.and_eq_true, Bool.not_eq_true', beq_iff_eq, List.isEmpty_iff] at h
      obtain ⟨⟨⟨⟨⟨⟨⟨⟨hf', hb⟩, hvb⟩, hvf⟩, hcc⟩, hmc⟩, hca⟩, hma⟩, hdt⟩ := h
      subst hb hvb hvf hcc hmc hca hma hdt
      match fields, hf' with
      | [f], hf' =>
        simp only [Bool.and_eq_true, beq_iff_eq] at hf'
        obtain ⟨fn, fty, fa, fi⟩ := f
        obtain ⟨h1, hk⟩ := hf'
        simp only at h1
        subst h1
        cases hkf : List.find? (fun k => k.params == []) ctors with
        | none => rw [hkf] at hk; cases hk
        | some k =>
          rw [hkf] at hk
          simp only [Bool.and_eq_true, beq_iff_eq] at hk
          obtain ⟨hkk, hki⟩ := hk
          simp only [classFacts, transparentFacts, layoutFuel, classLayout, triviallyCopyable,
            triviallyDestructible, standardLayout, classAll, ownTriviallyCopyable,
            ownTriviallyDestructible, ownStandardLayout, defaultContent, ctorContent, hkf, hkk, hki,
            hq, hzf, hzk, Content.all, Content.and, allSome, List.map, List.all, List.find?]
          rcases hzi with hzi | hzi <;> simp [hzi, hsz, allSome, layout_single R.align ha, Content.and]

/-- Sensitivity (non-vacuity of the shape premise): a second data member, or a virtual function,
or a user-provided copy constructor changes the facts. -/
example :
    let q : ClassD := ⟨"Q", [⟨"value_", .rep, .priv, .emptyBraces⟩], [], 0, 0, false, false, false, false, false,
      [⟨[], .defaulted, []⟩]⟩
    isRepWrapper q = true ∧
    classFacts [] q (.int i32) = transparentFacts (.int i32) ∧
    (classFacts [] { q with fields := q.fields ++ [⟨"extra", .rep, .priv, .emptyBraces⟩] } (.int i32)).layout
      = some ⟨8, 4⟩ ∧
    (classFacts [] { q with nVirtualFns := 1 } (.int i32)).layout = none ∧
    (classFacts [] { q with userCopyCtor := true } (.int i32)).trivCopy = false ∧
    (classFacts [] { q with fields := [⟨"value_", .rep, .priv, .absent⟩] } (.int i32)).dflt = .indeterminate := by
  decide

/-! ## (b) Round trip -/

/-- **C13 (round trip).**  `unit(x).in(unit)` returns the stored value itself — for every rep and
every value, in particular every floating-point *bit pattern* (NaN payloads, infinities, signed
zeros): no arithmetic instruction touches it. -/
theorem C13_roundtrip (t : RepTy) (x : Val) : qRoundTrip t x = x := rfl

/-- The point round trip `unit_pt(x).in(unit_pt)` is *not* the identity function of the source: it
computes `(x + 0) * 1` in the promoted type and converts back. -/
theorem C13_point_roundtrip_flt_shape (F : FOps) (k : FltK) (x : Nat) :
    ptRoundTrip F (.flt k) (.flt x) =
      .ok (.flt (F.bin k .mul (F.bin k .add x (F.ofInt k i32 0)) (F.ofInt k i32 1))) := by
  simp [ptRoundTrip, qAddSub, viaMake, rawArith, RepTy.uac, RepTy.isIntegral, convert, evBind,
    arithIn, zeroOf, Verdict.ok]

/-- For integral reps the point round trip is exact and UB-free on every in-range value. -/
theorem C13_point_roundtrip_int (F : FOps) (t : IntTy) (ht : t ∈ IntTy.all) (x : Int)
    (hx : t.inRange x) : ptRoundTrip F (.int t) (.int x) = .ok (.int x) := by
  have hp := promote_mem t ht
  have hlo := promote_lo t ht
  have hhi := promote_hi t ht
  have hxp : t.promote.inRange x := ⟨by have := hx.1; omega, by have := hx.2; omega⟩
  have h0 : t.inRange 0 := ⟨lo_nonpos t ht, hi_nonneg t ht⟩
  have hadd := rawArith_int_exact F .add t ht x 0 (x + 0) hx h0 (Or.inl ⟨rfl, rfl⟩)
    (by rw [Int.add_zero]; exact hxp)
  simp only [ptRoundTrip, qAddSub, viaMake, zeroOf, hadd, evBind]
  rw [arithIn_mul_ok F _ hp (x + 0) 1 (by rw [Int.add_zero, Int.mul_one]; exact hxp)]
  simp only [Int.add_zero, Int.mul_one]
  exact convert_int_inRange F _ t ht x hx

/-! ## (b) Operators -/

/-- **Full statement of the operator clause**: for every semantics of the floating-point
instructions, every operator of the family, every pair of reps and all operand values, wherever the
library offers the operator at all it is accepted by both compiler families and yields exactly the
result type and the value (or the undefined behaviour) of the built-in operator on the raw values. -/
def C13_ops_match_raw_full : Prop :=
  ∀ (F : FOps) (o : OpName) (R T : RepTy) (a b : Val) (u : Bool),
    R ∈ RepTy.all → T ∈ RepTy.all → offered o R T u = true → qOp F o R T a b u = rawOp F o R T a b

def trivialF : FOps := ⟨fun _ _ _ _ => 0, fun _ _ _ _ => false, fun _ _ => 0, fun _ _ _ => 0, fun _ _ _ => 0⟩

/-- **Finding F4**: the full statement is false on the code.  `-q` for `q = int8_t(-128)`: the
built-in operator yields the `int` 128; the Quantity operator has result rep `int8_t`, holds -128,
and its braced return is a narrowing conversion that clang++ rejects. -/
theorem C13_ops_match_raw_counterexample : ¬ C13_ops_match_raw_full := by
  intro h
  have := h trivialF (.un .neg) (.int i8) (.int i8) (.int (-128)) (.int 0) false (by decide) (by decide) (by decide)
  revert this
  decide

theorem evBind_ok {α : Type} (e : Eval α) : evBind e Eval.ok = e := by
  cases e <;> rfl

theorem convert_self (F : FOps) (r : RepTy) : convert F r r = Eval.ok := by
  funext v; simp [convert]

theorem promote_of_ge32 (t : IntTy) (h : ¬ t.bits < 32) : t.promote = t := by
  simp [IntTy.promote, h]

theorem uac_self_of_ge32 (t : IntTy) (h : ¬ t.bits < 32) : IntTy.uac t t = t := by
  simp [IntTy.uac, promote_of_ge32 t h]

/-- Braced return into the declared type when the expression already has that type: transparent. -/
theorem viaListInit_same (F : FOps) (R : RepTy) (r : OpResult) (h : r.ty = some (.val R) ∨ r = OpResult.illFormed) :
    viaListInit F R r = r := by
  rcases h with h | h
  · obtain ⟨v, ty, val⟩ := r
    simp only at h
    subst h
    have hn : narrows R R = false := by
      cases R with
      | int t => simp [narrows]
      | flt k => simp [narrows]
    simp [viaListInit, listInitQty, hn, convert_self, evBind_ok, Verdict.ok, qtyTy]
  · subst h; rfl

/-- **C13 (operators, partial = everything outside F4).**  Outside `%`, unary `+`, unary `-` on
reps narrower than `int`, every offered operator is accepted by both compiler families and has
exactly the result type and value (or undefined behaviour) of the built-in operator on the raw
values — for all 11×11 rep pairs, all values, any floating-point semantics. -/
theorem C13_ops_match_raw_partial (F : FOps) (o : OpName) (R T : RepTy) (a b : Val) (u : Bool)
    (hoff : offered o R T u = true) (hF4 : inF4 o R = false) :
    qOp F o R T a b u = rawOp F o R T a b := by
  cases o with
  | cmp c => rfl
  | addsub c => rfl
  | addsubAs c => rfl
  | scalarR c => rfl
  | mulL => rfl
  | scaleAs c =>
    simp only [offered] at hoff
    simp [qOp, rawOp, qScaleAssign, hoff]
  | divL =>
    simp only [offered, Bool.not_eq_true'] at hoff
    simp [qOp, rawOp, qScalarLeftDiv, viaMake, hoff]
  | mod =>
    simp only [qOp, rawOp, qMod]
    apply viaListInit_same
    cases R with
    | flt k => right; simp [rawArith, RepTy.isIntegral]
    | int t =>
      left
      simp only [inF4, decide_eq_false_iff_not] at hF4
      simp [rawArith, RepTy.isIntegral, RepTy.uac, uac_self_of_ge32 t hF4]
  | un w =>
    simp only [qOp, rawOp, qUnary]
    apply viaListInit_same
    left
    cases R with
    | flt k => simp [rawUnary, RepTy.promote]
    | int t =>
      simp only [inF4, decide_eq_false_iff_not] at hF4
      simp [rawUnary, RepTy.promote, promote_of_ge32 t hF4]

/-- Non-vacuity of the partial theorem: an offered operator outside F4 with a non-trivial result
(`uint8_t 200 * int8_t -3`: computed in `int`, no wrap, result rep `int`). -/
example : offered (.scalarR .mul) (.int u8) (.int i8) false = true ∧ inF4 (.scalarR .mul) (.int u8) = false ∧
    qOp trivialF (.scalarR .mul) (.int u8) (.int i8) (.int 200) (.int (-3)) false
      = ⟨Verdict.ok, some (.val (.int i32)), .ok (.int (-600))⟩ := by decide

/-- The gates really reject (the `offered` premise is not vacuous either way). -/
example : offered (.scaleAs .mul) (.int i32) (.flt .f64) false = false ∧
    qOp trivialF (.scaleAs .mul) (.int i32) (.flt .f64) (.int 1) (.flt 0) false = OpResult.illFormed ∧
    offered .divL (.int i32) (.int i32) false = false ∧ offered .divL (.int i32) (.int i32) true = true ∧
    offered .divL (.int i32) (.flt .f32) false = true := by decide

theorem subInt_cases (t : IntTy) (ht : t ∈ IntTy.all) (h : t.bits < 32) :
    t = i8 ∨ t = u8 ∨ t = i16 ∨ t = u16 := by
  rcases all_cases t ht with rfl|rfl|rfl|rfl|rfl|rfl|rfl|rfl <;> simp_all [i8, u8, i16, u16, i32, u32, i64, u64]

/-- **C13 (F4, exact characterisation).**  Inside the F4 region the Quantity operator differs from
the built-in one in exactly this way: the built-in result has type `int`, the Quantity result has
rep `R`; its braced return narrows (`int` → `R`), which clang++ rejects and g++ accepts with a
warning; and where it is accepted the stored value is the built-in result converted to `R`. -/
theorem C13_F4_characterisation (F : FOps) (o : OpName) (t : IntTy) (ht : t ∈ IntTy.all)
    (hF4 : inF4 o (.int t) = true) (a b : Val) (u : Bool) :
    (rawOp F o (.int t) (.int t) a b).ty = some (.val (.int i32)) ∧
    (rawOp F o (.int t) (.int t) a b).verdict = Verdict.ok ∧
    (qOp F o (.int t) (.int t) a b u).ty = some (.val (.int t)) ∧
    (qOp F o (.int t) (.int t) a b u).verdict = Verdict.narrowing ∧
    (qOp F o (.int t) (.int t) a b u).val =
      evBind (rawOp F o (.int t) (.int t) a b).val (convert F (.int i32) (.int t)) := by
  cases o with
  | mod =>
    simp only [inF4, decide_eq_true_eq] at hF4
    rcases subInt_cases t ht hF4 with rfl|rfl|rfl|rfl <;>
      simp [qOp, rawOp, qMod, viaListInit, listInitQty, rawArith, RepTy.isIntegral, RepTy.uac,
        IntTy.uac, IntTy.promote, narrows, qtyTy, Verdict.ok, Verdict.narrowing, IntTy.lo, IntTy.hi,
        i8, u8, i16, u16, i32]
  | un w =>
    simp only [inF4, decide_eq_true_eq] at hF4
    rcases subInt_cases t ht hF4 with rfl|rfl|rfl|rfl <;>
      simp [qOp, rawOp, qUnary, viaListInit, listInitQty, rawUnary, RepTy.promote,
        IntTy.promote, narrows, qtyTy, Verdict.ok, Verdict.narrowing, IntTy.lo, IntTy.hi,
        i8, u8, i16, u16, i32]
  | cmp c => simp [inF4] at hF4
  | addsub c => simp [inF4] at hF4
  | addsubAs c => simp [inF4] at hF4
  | scalarR c => simp [inF4] at hF4
  | mulL => simp [inF4] at hF4
  | scaleAs c => simp [inF4] at hF4
  | divL => simp [inF4] at hF4

/-- What the transparency buys for narrow reps: `a + b` / `a - b` of two `Quantity<U, R>` with `R`
narrower than `int` never overflows or wraps — the result rep is `int` and holds the exact sum. -/
theorem C13_subint_addsub_exact (F : FOps) (t : IntTy) (ht : t ∈ IntTy.all) (h : t.bits < 32)
    (a b : Int) (ha : t.inRange a) (hb : t.inRange b) :
    qOp F (.addsub .add) (.int t) (.int t) (.int a) (.int b) false
      = ⟨Verdict.ok, some (.val (.int i32)), .ok (.int (a + b))⟩ ∧
    qOp F (.addsub .sub) (.int t) (.int t) (.int a) (.int b) false
      = ⟨Verdict.ok, some (.val (.int i32)), .ok (.int (a - b))⟩ := by
  have hp : t.promote = i32 := by simp [IntTy.promote, h]
  have hr : i32.inRange (a + b) ∧ i32.inRange (a - b) := by
    rcases subInt_cases t ht h with rfl|rfl|rfl|rfl <;>
      (simp only [IntTy.inRange, IntTy.lo, IntTy.hi, i8, u8, i16, u16, i32] at ha hb ⊢
       simp at ha hb ⊢
       omega)
  constructor
  · have := rawArith_int_exact F .add t ht a b (a + b) ha hb (Or.inl ⟨rfl, rfl⟩) (by rw [hp]; exact hr.1)
    rw [hp] at this
    simpa [qOp, qAddSub, viaMake] using this
  · have := rawArith_int_exact F .sub t ht a b (a - b) ha hb (Or.inr (Or.inl ⟨rfl, rfl⟩)) (by rw [hp]; exact hr.2)
    rw [hp] at this
    simpa [qOp, qAddSub, viaMake] using this

/-- Non-vacuity: the extreme operands of `int8_t`. -/
example : i8 ∈ IntTy.all ∧ i8.bits < 32 ∧ i8.inRange (-128) ∧
    qOp trivialF (.addsub .add) (.int i8) (.int i8) (.int (-128)) (.int (-128)) false
      = ⟨Verdict.ok, some (.val (.int i32)), .ok (.int (-256))⟩ := by decide

end Au

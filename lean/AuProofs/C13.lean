import AuProofs.Lemmas.C13
set_option linter.unusedSimpArgs false
namespace Au
open IntTy Au.C13

/-! # C13 — Quantity is a zero-overhead transparent wrapper around its rep

Part (a): layout facts of `Quantity<U, R>` / `QuantityPoint<U, R>` from the class descriptors
(`AuModel.Layout`; the descriptors of the real classes are regenerated into `Generated.Classes`
and shown to satisfy the premises in `AuProofs.Gen.C13`).
Part (b): the same-unit operators against the built-in operators on the raw values
(`AuModel.QuantityOps`), for every semantics `F` of the floating-point instructions. -/

/-! ## (a) Layout -/

/-- Shape of `au::Quantity`: exactly one non-static data member, of type `Rep`, with default member
initialiser `{}`; no bases; nothing virtual; implicit copy/move/destructor; the default constructor
is declared and defaulted. -/
def isRepWrapper (d : ClassD) : Bool :=
  (match d.fields with
   | [f] => f.ty == .rep && f.init == .emptyBraces
   | _ => false) &&
  d.bases.isEmpty && d.nVirtualBases == 0 && d.nVirtualFns == 0 &&
  !d.userCopyCtor && !d.userMoveCtor && !d.userCopyAssign && !d.userMoveAssign && !d.userDtor &&
  (match d.ctors.find? (fun c => c.params == []) with
   | some c => c.kind == .defaulted
   | none => false)

/-- The constructor of `q` taking `au::Zero` is user-provided and initialises the single member
with `{0}` (or `{}`). -/
def zeroCtorZeroes (q : ClassD) : Bool :=
  match q.fields, q.ctors.find? (fun c => c.params == [.zero]) with
  | [g], some z =>
    z.kind == .userProvided && g.ty == .rep &&
      (effectiveInit z.inits g == .intLit 0 || effectiveInit z.inits g == .emptyBraces)
  | _, _ => false

/-- Shape of `au::QuantityPoint`: exactly one non-static data member whose type is the class `c`
(instantiated at the same `Rep`); no bases; nothing virtual; implicit copy/move/destructor; the
default constructor is user-provided and initialises the member with `{ZERO}`. -/
def isWrapperOf (d : ClassD) (c : String) : Bool :=
  (match d.fields with
   | [f] =>
     f.ty == .cls c &&
     (match d.ctors.find? (fun k => k.params == []) with
      | some k => k.kind == .userProvided && effectiveInit k.inits f == .zeroConst
      | none => false)
   | _ => false) &&
  d.bases.isEmpty && d.nVirtualBases == 0 && d.nVirtualFns == 0 &&
  !d.userCopyCtor && !d.userMoveCtor && !d.userCopyAssign && !d.userMoveAssign && !d.userDtor

theorem roundUp_self (a : Nat) (h : 0 < a) : roundUp a a = a := by
  unfold roundUp
  have h0 : a ≠ 0 := by omega
  rw [if_neg h0]
  have : (a + a - 1) / a = 1 := by
    apply Nat.div_eq_of_lt_le <;> omega
  rw [this]; omega

theorem rep_align_pos (R : RepTy) (hR : R ∈ RepTy.all) : 0 < R.align ∧ R.size = R.align ∧ 1 ≤ R.size := by
  simp only [RepTy.all, IntTy.all, FltK.all, List.map, List.cons_append, List.nil_append,
    List.mem_cons, List.not_mem_nil, or_false] at hR
  rcases hR with h|h|h|h|h|h|h|h|h|h|h <;> subst h <;> decide

/-- Layout of a class with a single member of size = alignment `s`. -/
theorem layout_single (s : Nat) (hs : 0 < s) : layoutFields [⟨s, s⟩] 0 1 = ⟨s, s⟩ := by
  simp only [layoutFields]
  have h1 : roundUp 0 s = 0 := by
    unfold roundUp; split
    · rfl
    · have : (0 + s - 1) / s = 0 := by apply Nat.div_eq_of_lt; omega
      rw [this]; omega
  rw [h1]
  have h2 : max 1 s = s := by omega
  have h3 : max (0 + s) 1 = s := by omega
  rw [h2, h3, roundUp_self s hs]

/-- **C13 (layout, Quantity).**  Any class of the shape `isRepWrapper` — whatever its other
constructors, member functions, static members — has, for every one of the 11 arithmetic reps,
exactly the rep's size and alignment, is trivially copyable, trivially destructible and
standard-layout, and a default-initialised object holds `R{}`. -/
theorem C13_layout_quantity (env : ClassEnv) (d : ClassD) (h : isRepWrapper d = true)
    (R : RepTy) (hR : R ∈ RepTy.all) :
    classFacts env d R = transparentFacts R := by
  obtain ⟨ha, hsz, _⟩ := rep_align_pos R hR
  obtain ⟨name, fields, bases, nvb, nvf, cc, mc, ca, ma, dt, ctors⟩ := d
  simp only [isRepWrapper, Bool.and_eq_true, Bool.not_eq_true', beq_iff_eq, List.isEmpty_iff] at h
  obtain ⟨⟨⟨⟨⟨⟨⟨⟨⟨hf, hb⟩, hvb⟩, hvf⟩, hcc⟩, hmc⟩, hca⟩, hma⟩, hdt⟩, hct⟩ := h
  subst hb hvb hvf hcc hmc hca hma hdt
  match fields, hf with
  | [f], hf =>
    simp only [Bool.and_eq_true, beq_iff_eq] at hf
    obtain ⟨fn, fty, fa, fi⟩ := f
    obtain ⟨h1, h2⟩ := hf
    simp only at h1 h2
    subst h1 h2
    cases hfind : List.find? (fun c => c.params == []) ctors with
    | none => rw [hfind] at hct; cases hct
    | some c =>
      rw [hfind] at hct
      simp only [beq_iff_eq] at hct
      simp only [classFacts, transparentFacts, layoutFuel, classLayout, triviallyCopyable,
        triviallyDestructible, standardLayout, classAll, ownTriviallyCopyable,
        ownTriviallyDestructible, ownStandardLayout, defaultContent, ctorContent, hfind, hct,
        effectiveInit, Content.all, Content.and, allSome, List.map, List.all, List.find?]
      simp [hsz, layout_single R.align ha]

/-- **C13 (layout, QuantityPoint).**  Any class of the shape `isWrapperOf d c`, where the class `c`
of the environment has the shape `isRepWrapper` and a zeroing `Zero` constructor, has the same
five facts. -/
theorem C13_layout_point (env : ClassEnv) (d q : ClassD) (c : String)
    (hq : env.find c = some q) (hqs : isRepWrapper q = true) (hz : zeroCtorZeroes q = true)
    (h : isWrapperOf d c = true) (R : RepTy) (hR : R ∈ RepTy.all) :
    classFacts env d R = transparentFacts R := by
  have hQ := C13_layout_quantity env q hqs R hR
  obtain ⟨ha, hsz, _⟩ := rep_align_pos R hR
  -- facts about the inner class at fuel 3 (its own evaluation does not depend on the fuel ≥ 1)
  obtain ⟨qname, qfields, qbases, qnvb, qnvf, qcc, qmc, qca, qma, qdt, qctors⟩ := q
  simp only [isRepWrapper, Bool.and_eq_true, Bool.not_eq_true', beq_iff_eq, List.isEmpty_iff] at hqs
  obtain ⟨⟨⟨⟨⟨⟨⟨⟨⟨hf, hb⟩, hvb⟩, hvf⟩, hcc⟩, hmc⟩, hca⟩, hma⟩, hdt⟩, hct⟩ := hqs
  subst hb hvb hvf hcc hmc hca hma hdt
  match qfields, hf with
  | [g], hf =>
    simp only [Bool.and_eq_true, beq_iff_eq] at hf
    obtain ⟨gn, gty, ga, gi⟩ := g
    obtain ⟨h1, h2⟩ := hf
    simp only at h1 h2
    subst h1 h2
    -- the Zero constructor of q
    simp only [zeroCtorZeroes] at hz
    cases hzf : List.find? (fun c => c.params == [ParamTy.zero]) qctors with
    | none => rw [hzf] at hz; cases hz
    | some z =>
      rw [hzf] at hz
      simp only [Bool.and_eq_true, beq_iff_eq, Bool.or_eq_true] at hz
      obtain ⟨⟨hzk, _⟩, hzi⟩ := hz
      -- the outer class
      obtain ⟨name, fields, bases, nvb, nvf, cc, mc, ca, ma, dt, ctors⟩ := d
      simp only [isWrapperOf, Bool.and_eq_true, Bool.not_eq_true', beq_iff_eq, List.isEmpty_iff] at h
      obtain ⟨⟨⟨⟨⟨⟨⟨⟨hf', hb⟩, hvb⟩, hvf⟩, hcc⟩, hmc⟩, hca⟩, hma⟩, hdt⟩ := h
      subst hb hvb hvf hcc hmc hca hma hdt
      match fields, hf' with
      | [f], hf' =>
        simp only [Bool.and_eq_true, beq_iff_eq] at hf'
        obtain ⟨fn, fty, fa, fi⟩ := f
        obtain ⟨h1, hk⟩ := hf'
        simp only at h1
        subst h1
        cases hkf : List.find? (fun k => k.params == []) ctors with
        | none => rw [hkf] at hk; cases hk
        | some k =>
          rw [hkf] at hk
          simp only [Bool.and_eq_true, beq_iff_eq] at hk
          obtain ⟨hkk, hki⟩ := hk
          simp only [classFacts, transparentFacts, layoutFuel, classLayout, triviallyCopyable,
            triviallyDestructible, standardLayout, classAll, ownTriviallyCopyable,
            ownTriviallyDestructible, ownStandardLayout, defaultContent, ctorContent, hkf, hkk, hki,
            hq, hzf, hzk, Content.all, Content.and, allSome, List.map, List.all, List.find?]
          rcases hzi with hzi | hzi <;> simp [hzi, hsz, allSome, layout_single R.align ha, Content.and]

/-- Sensitivity (non-vacuity of the shape premise): a second data member, or a virtual function,
or a user-provided copy constructor changes the facts. -/
example :
    let q : ClassD := ⟨"Q", [⟨"value_", .rep, .priv, .emptyBraces⟩], [], 0, 0, false, false, false, false, false,
      [⟨[], .defaulted, []⟩]⟩
    isRepWrapper q = true ∧
    classFacts [] q (.int i32) = transparentFacts (.int i32) ∧
    (classFacts [] { q with fields := q.fields ++ [⟨"extra", .rep, .priv, .emptyBraces⟩] } (.int i32)).layout
      = some ⟨8, 4⟩ ∧
    (classFacts [] { q with nVirtualFns := 1 } (.int i32)).layout = none ∧
    (classFacts [] { q with userCopyCtor := true } (.int i32)).trivCopy = false ∧
    (classFacts [] { q with fields := [⟨"value_", .rep, .priv, .absent⟩] } (.int i32)).dflt = .indeterminate := by
  decide

/-! ## (b) Round trip -/

/-- **C13 (round trip).**  `unit(x).in(unit)` returns the stored value itself — for every rep and
every value, in particular every floating-point *bit pattern* (NaN payloads, infinities, signed
zeros): no arithmetic instruction touches it. -/
theorem C13_roundtrip (t : RepTy) (x : Val) : qRoundTrip t x = x := rfl

/-- The point round trip `unit_pt(x).in(unit_pt)` is *not* the identity function of the source: it
computes `(x + 0) * 1` in the promoted type and converts back. -/
theorem C13_point_roundtrip_flt_shape (F : FOps) (k : FltK) (x : Nat) :
    ptRoundTrip F (.flt k) (.flt x) =
      .ok (.flt (F.bin k .mul (F.bin k .add x (F.ofInt k i32 0)) (F.ofInt k i32 1))) := by
  simp [ptRoundTrip, qAddSub, viaMake, rawArith, RepTy.uac, RepTy.isIntegral, convert, evBind,
    arithIn, zeroOf, Verdict.ok]

/-- For integral reps the point round trip is exact and UB-free on every in-range value. -/
theorem C13_point_roundtrip_int (F : FOps) (t : IntTy) (ht : t ∈ IntTy.all) (x : Int)
    (hx : t.inRange x) : ptRoundTrip F (.int t) (.int x) = .ok (.int x) := by
  have hp := promote_mem t ht
  have hlo := promote_lo t ht
  have hhi := promote_hi t ht
  have hxp : t.promote.inRange x := ⟨by have := hx.1; omega, by have := hx.2; omega⟩
  have h0 : t.inRange 0 := ⟨lo_nonpos t ht, hi_nonneg t ht⟩
  have hadd := rawArith_int_exact F .add t ht x 0 (x + 0) hx h0 (Or.inl ⟨rfl, rfl⟩)
    (by rw [Int.add_zero]; exact hxp)
  simp only [ptRoundTrip, qAddSub, viaMake, zeroOf, hadd, evBind]
  rw [arithIn_mul_ok F _ hp (x + 0) 1 (by rw [Int.add_zero, Int.mul_one]; exact hxp)]
  simp only [Int.add_zero, Int.mul_one]
  exact convert_int_inRange F _ t ht x hx

/-! ## (b) Operators -/

/-- **Full statement of the operator clause**: for every semantics of the floating-point
instructions, every operator of the family, every pair of reps and all operand values, wherever the
library offers the operator at all it is accepted by both compiler families and yields exactly the
result type and the value (or the undefined behaviour) of the built-in operator on the raw values. -/
def C13_ops_match_raw_full : Prop :=
  ∀ (F : FOps) (o : OpName) (R T : RepTy) (a b : Val) (u : Bool),
    R ∈ RepTy.all → T ∈ RepTy.all → offered o R T u = true → qOp F o R T a b u = rawOp F o R T a b

def trivialF : FOps := ⟨fun _ _ _ _ => 0, fun _ _ _ _ => false, fun _ _ => 0, fun _ _ _ => 0, fun _ _ _ => 0⟩

/-- **Finding F4**: the full statement is false on the code.  `-q` for `q = int8_t(-128)`: the
built-in operator yields the `int` 128; the Quantity operator has result rep `int8_t`, holds -128,
and its braced return is a narrowing conversion that clang++ rejects. -/
theorem C13_ops_match_raw_counterexample : ¬ C13_ops_match_raw_full := by
  intro h
  have := h trivialF (.un .neg) (.int i8) (.int i8) (.int (-128)) (.int 0) false (by decide) (by decide) (by decide)
  revert this
  decide

theorem evBind_ok {α : Type} (e : Eval α) : evBind e Eval.ok = e := by
  cases e <;> rfl

theorem convert_self (F : FOps) (r : RepTy) : convert F r r = Eval.ok := by
  funext v; simp [convert]

theorem promote_of_ge32 (t : IntTy) (h : ¬ t.bits < 32) : t.promote = t := by
  simp [IntTy.promote, h]

theorem uac_self_of_ge32 (t : IntTy) (h : ¬ t.bits < 32) : IntTy.uac t t = t := by
  simp [IntTy.uac, promote_of_ge32 t h]

/-- Braced return into the declared type when the expression already has that type: transparent. -/
theorem viaListInit_same (F : FOps) (R : RepTy) (r : OpResult) (h : r.ty = some (.val R) ∨ r = OpResult.illFormed) :
    viaListInit F R r = r := by
  rcases h with h | h
  · obtain ⟨v, ty, val⟩ := r
    simp only at h
    subst h
    have hn : narrows R R = false := by
      cases R with
      | int t => simp [narrows]
      | flt k => simp [narrows]
    simp [viaListInit, listInitQty, hn, convert_self, evBind_ok, Verdict.ok, qtyTy]
  · subst h; rfl

/-- **C13 (operators, partial = everything outside F4).**  Outside `%`, unary `+`, unary `-` on
reps narrower than `int`, every offered operator is accepted by both compiler families and has
exactly the result type and value (or undefined behaviour) of the built-in operator on the raw
values — for all 11×11 rep pairs, all values, any floating-point semantics. -/
theorem C13_ops_match_raw_partial (F : FOps) (o : OpName) (R T : RepTy) (a b : Val) (u : Bool)
    (hoff : offered o R T u = true) (hF4 : inF4 o R = false) :
    qOp F o R T a b u = rawOp F o R T a b := by
  cases o with
  | cmp c => rfl
  | addsub c => rfl
  | addsubAs c => rfl
  | scalarR c => rfl
  | mulL => rfl
  | scaleAs c =>
    simp only [offered] at hoff
    simp [qOp, rawOp, qScaleAssign, hoff]
  | divL =>
    simp only [offered, Bool.not_eq_true'] at hoff
    simp [qOp, rawOp, qScalarLeftDiv, viaMake, hoff]
  | mod =>
    simp only [qOp, rawOp, qMod]
    apply viaListInit_same
    cases R with
    | flt k => right; simp [rawArith, RepTy.isIntegral]
    | int t =>
      left
      simp only [inF4, decide_eq_false_iff_not] at hF4
      simp [rawArith, RepTy.isIntegral, RepTy.uac, uac_self_of_ge32 t hF4]
  | un w =>
    simp only [qOp, rawOp, qUnary]
    apply viaListInit_same
    left
    cases R with
    | flt k => simp [rawUnary, RepTy.promote]
    | int t =>
      simp only [inF4, decide_eq_false_iff_not] at hF4
      simp [rawUnary, RepTy.promote, promote_of_ge32 t hF4]

/-- Non-vacuity of the partial theorem: an offered operator outside F4 with a non-trivial result
(`uint8_t 200 * int8_t -3`: computed in `int`, no wrap, result rep `int`). -/
example : offered (.scalarR .mul) (.int u8) (.int i8) false = true ∧ inF4 (.scalarR .mul) (.int u8) = false ∧
    qOp trivialF (.scalarR .mul) (.int u8) (.int i8) (.int 200) (.int (-3)) false
      = ⟨Verdict.ok, some (.val (.int i32)), .ok (.int (-600))⟩ := by decide

/-- The gates really reject (the `offered` premise is not vacuous either way). -/
example : offered (.scaleAs .mul) (.int i32) (.flt .f64) false = false ∧
    qOp trivialF (.scaleAs .mul) (.int i32) (.flt .f64) (.int 1) (.flt 0) false = OpResult.illFormed ∧
    offered .divL (.int i32) (.int i32) false = false ∧ offered .divL (.int i32) (.int i32) true = true ∧
    offered .divL (.int i32) (.flt .f32) false = true := by decide

theorem subInt_cases (t : IntTy) (ht : t ∈ IntTy.all) (h : t.bits < 32) :
    t = i8 ∨ t = u8 ∨ t = i16 ∨ t = u16 := by
  rcases all_cases t ht with rfl|rfl|rfl|rfl|rfl|rfl|rfl|rfl <;> simp_all [i8, u8, i16, u16, i32, u32, i64, u64]

/-- **C13 (F4, exact characterisation).**  Inside the F4 region the Quantity operator differs from
the built-in one in exactly this way: the built-in result has type `int`, the Quantity result has
rep `R`; its braced return narrows (`int` → `R`), which clang++ rejects and g++ accepts with a
warning; and where it is accepted the stored value is the built-in result converted to `R`. -/
theorem C13_F4_characterisation (F : FOps) (o : OpName) (t : IntTy) (ht : t ∈ IntTy.all)
    (hF4 : inF4 o (.int t) = true) (a b : Val) (u : Bool) :
    (rawOp F o (.int t) (.int t) a b).ty = some (.val (.int i32)) ∧
    (rawOp F o (.int t) (.int t) a b).verdict = Verdict.ok ∧
    (qOp F o (.int t) (.int t) a b u).ty = some (.val (.int t)) ∧
    (qOp F o (.int t) (.int t) a b u).verdict = Verdict.narrowing ∧
    (qOp F o (.int t) (.int t) a b u).val =
      evBind (rawOp F o (.int t) (.int t) a b).val (convert F (.int i32) (.int t)) := by
  cases o with
  | mod =>
    simp only [inF4, decide_eq_true_eq] at hF4
    rcases subInt_cases t ht hF4 with rfl|rfl|rfl|rfl <;>
      simp [qOp, rawOp, qMod, viaListInit, listInitQty, rawArith, RepTy.isIntegral, RepTy.uac,
        IntTy.uac, IntTy.promote, narrows, qtyTy, Verdict.ok, Verdict.narrowing, IntTy.lo, IntTy.hi,
        i8, u8, i16, u16, i32]
  | un w =>
    simp only [inF4, decide_eq_true_eq] at hF4
    rcases subInt_cases t ht hF4 with rfl|rfl|rfl|rfl <;>
      simp [qOp, rawOp, qUnary, viaListInit, listInitQty, rawUnary, RepTy.promote,
        IntTy.promote, narrows, qtyTy, Verdict.ok, Verdict.narrowing, IntTy.lo, IntTy.hi,
        i8, u8, i16, u16, i32]
  | cmp c => simp [inF4] at hF4
  | addsub c => simp [inF4] at hF4
  | addsubAs c => simp [inF4] at hF4
  | scalarR c => simp [inF4] at hF4
  | mulL => simp [inF4] at hF4
  | scaleAs c => simp [inF4] at hF4
  | divL => simp [inF4] at hF4

/-- What the transparency buys for narrow reps: `a + b` / `a - b` of two `Quantity<U, R>` with `R`
narrower than `int` never overflows or wraps — the result rep is `int` and holds the exact sum. -/
theorem C13_subint_addsub_exact (F : FOps) (t : IntTy) (ht : t ∈ IntTy.all) (h : t.bits < 32)
    (a b : Int) (ha : t.inRange a) (hb : t.inRange b) :
    qOp F (.addsub .add) (.int t) (.int t) (.int a) (.int b) false
      = ⟨Verdict.ok, some (.val (.int i32)), .ok (.int (a + b))⟩ ∧
    qOp F (.addsub .sub) (.int t) (.int t) (.int a) (.int b) false
      = ⟨Verdict.ok, some (.val (.int i32)), .ok (.int (a - b))⟩ := by
  have hp : t.promote = i32 := by simp [IntTy.promote, h]
  have hr : i32.inRange (a + b) ∧ i32.inRange (a - b) := by
    rcases subInt_cases t ht h with rfl|rfl|rfl|rfl <;>
      (simp only [IntTy.inRange, IntTy.lo, IntTy.hi, i8, u8, i16, u16, i32] at ha hb ⊢
       simp at ha hb ⊢
       omega)
  constructor
  · have := rawArith_int_exact F .add t ht a b (a + b) ha hb (Or.inl ⟨rfl, rfl⟩) (by rw [hp]; exact hr.1)
    rw [hp] at this
    simpa [qOp, qAddSub, viaMake] using this
  · have := rawArith_int_exact F .sub t ht a b (a - b) ha hb (Or.inr (Or.inl ⟨rfl, rfl⟩)) (by rw [hp]; exact hr.2)
    rw [hp] at this
    simpa [qOp, qAddSub, viaMake] using this

/-- Non-vacuity: the extreme operands of `int8_t`. -/
example : i8 ∈ IntTy.all ∧ i8.bits < 32 ∧ i8.inRange (-128) ∧
    qOp trivialF (.addsub .add) (.int i8) (.int i8) (.int (-128)) (.int (-128)) false
      = ⟨Verdict.ok, some (.val (.int i32)), .ok (.int (-256))⟩ := by decide

/-! ## Clause-by-clause statements (each operator family of the property, explicitly)

`C13_ops_match_raw_partial` says "Quantity operator = built-in operator on the stored values" for the
whole family at once.  The theorems below spell out, per clause of the statement, what that built-in
result *is* in the model: the result type of every operator, and the value in closed form (integral
reps: exact integer arithmetic under explicit range conditions; floating reps: exactly one
application of the corresponding instruction of `F` to the stored bit patterns). -/

/-- **Result types, every operator of the family, all 11×11 rep pairs, every `F`, all values.**
Comparisons give `bool`; `+ -` the promoted rep; `+= -= *= /=` an lvalue of the Quantity's own rep;
`q*s`, `q/s` the usual-arithmetic-conversion type of (R, T); `s*q`, `s/q` that of (T, R) — and all
are accepted by both compiler families. -/
theorem C13_result_types (F : FOps) (R T : RepTy) (a b : Val) (u : Bool) :
    (∀ c, (qOp F (.cmp c) R T a b u).ty = some .bool ∧ (qOp F (.cmp c) R T a b u).verdict = Verdict.ok) ∧
    (∀ op, op = ArOp.add ∨ op = ArOp.sub →
      (qOp F (.addsub op) R T a b u).ty = some (.val (RepTy.uac R R)) ∧
      (qOp F (.addsub op) R T a b u).verdict = Verdict.ok ∧
      (qOp F (.addsubAs op) R T a b u).ty = some (.ref R) ∧
      (qOp F (.addsubAs op) R T a b u).verdict = Verdict.ok) ∧
    (∀ op, op = ArOp.mul ∨ op = ArOp.div →
      (qOp F (.scalarR op) R T a b u).ty = some (.val (RepTy.uac R T)) ∧
      (qOp F (.scalarR op) R T a b u).verdict = Verdict.ok ∧
      (offered (.scaleAs op) R T u = true →
        (qOp F (.scaleAs op) R T a b u).ty = some (.ref R) ∧ (qOp F (.scaleAs op) R T a b u).verdict = Verdict.ok)) ∧
    ((qOp F .mulL R T a b u).ty = some (.val (RepTy.uac T R)) ∧ (qOp F .mulL R T a b u).verdict = Verdict.ok) ∧
    (offered .divL R T u = true →
      (qOp F .divL R T a b u).ty = some (.val (RepTy.uac T R)) ∧ (qOp F .divL R T a b u).verdict = Verdict.ok) := by
  refine ⟨fun c => ⟨rfl, rfl⟩, ?_, ?_, ?_, ?_⟩
  · intro op hop
    rcases hop with rfl | rfl <;>
      simp [qOp, qAddSub, qAddSubAssign, viaMake, rawAssign, rawArith, Verdict.ok]
  · intro op hop
    rcases hop with rfl | rfl <;>
      (refine ⟨by simp [qOp, qScalarRight, viaMake, rawArith], by simp [qOp, qScalarRight, viaMake, rawArith], ?_⟩
       intro hoff
       simp only [offered] at hoff
       simp [qOp, qScaleAssign, hoff, rawAssign, rawArith, Verdict.ok])
  · simp [qOp, qScalarLeftMul, viaMake, rawArith]
  · intro hoff
    simp only [offered, Bool.not_eq_true'] at hoff
    simp [qOp, qScalarLeftDiv, hoff, viaMake, rawArith]

/-- The promoted rep: `decltype(R + R)` is `int` for the four narrow reps and `R` itself otherwise. -/
theorem C13_addsub_type_explicit (R : RepTy) (hR : R ∈ RepTy.all) : RepTy.uac R R = R.promote := by
  cases R with
  | int t => simp [RepTy.uac, RepTy.promote, uac_self]
  | flt k => simp [RepTy.uac, RepTy.promote]

theorem cmpInt_spec (a b : Int) :
    (cmpInt .eq a b = true ↔ a = b) ∧ (cmpInt .ne a b = true ↔ a ≠ b) ∧ (cmpInt .lt a b = true ↔ a < b) ∧
    (cmpInt .le a b = true ↔ a ≤ b) ∧ (cmpInt .gt a b = true ↔ b < a) ∧ (cmpInt .ge a b = true ↔ b ≤ a) := by
  simp [cmpInt]

/-- **The six comparisons, integral reps**: on in-range values they are the mathematical comparisons
of the stored integers (`cmpInt_spec`), type `bool`, never undefined — for every integral rep,
including the narrow ones (promotion preserves the values). -/
theorem C13_cmp_int (F : FOps) (c : CmpOp) (t : IntTy) (ht : t ∈ IntTy.all) (a b : Int)
    (ha : t.inRange a) (hb : t.inRange b) (u : Bool) :
    qOp F (.cmp c) (.int t) (.int t) (.int a) (.int b) u
      = ⟨Verdict.ok, some .bool, .ok (.bool (cmpInt c a b))⟩ := by
  have hp := promote_mem t ht
  simp only [qOp, qCmp, rawCmp, RepTy.uac, uac_self,
    convert_int_inRange F t t.promote hp a (promote_inRange t ht a ha),
    convert_int_inRange F t t.promote hp b (promote_inRange t ht b hb), evBind, cmpIn]

/-- **The six comparisons, floating reps**: exactly one comparison instruction of `F` on the two
stored bit patterns (no conversion, no arithmetic), type `bool`. -/
theorem C13_cmp_flt (F : FOps) (c : CmpOp) (k : FltK) (x y : Nat) (u : Bool) :
    qOp F (.cmp c) (.flt k) (.flt k) (.flt x) (.flt y) u
      = ⟨Verdict.ok, some .bool, .ok (.bool (F.cmp k c x y))⟩ := by
  simp [qOp, qCmp, rawCmp, RepTy.uac, convert, evBind, cmpIn]

example : qOp trivialF (.cmp .lt) (.int u8) (.int u8) (.int 200) (.int 3) false
    = ⟨Verdict.ok, some .bool, .ok (.bool false)⟩ ∧ i8.inRange (-128) ∧
    qOp trivialF (.cmp .le) (.int i8) (.int i8) (.int (-128)) (.int (-128)) false
      = ⟨Verdict.ok, some .bool, .ok (.bool true)⟩ := by decide

/-- **`+=` / `-=`, integral reps, result representable**: the Quantity holds exactly `a ± b`; the
result is the lvalue itself (`ref R`); no undefined behaviour. -/
theorem C13_addsub_assign_exact (F : FOps) (op : ArOp) (t : IntTy) (ht : t ∈ IntTy.all) (a b r : Int)
    (ha : t.inRange a) (hb : t.inRange b)
    (hop : (op = .add ∧ r = a + b) ∨ (op = .sub ∧ r = a - b)) (hr : t.inRange r) (u : Bool) :
    qOp F (.addsubAs op) (.int t) (.int t) (.int a) (.int b) u
      = ⟨Verdict.ok, some (.ref (.int t)), .ok (.int r)⟩ := by
  have hop' : (op = .add ∧ r = a + b) ∨ (op = .sub ∧ r = a - b) ∨ (op = .mul ∧ r = a * b) := by
    rcases hop with h | h
    · exact Or.inl h
    · exact Or.inr (Or.inl h)
  have h := rawArith_int_exact F op t ht a b r ha hb hop' (promote_inRange t ht r hr)
  simp only [qOp, qAddSubAssign, rawAssign, h, evBind, convert_int_inRange F t.promote t ht r hr]

/-- **`+=` / `-=` on the narrow reps never has undefined behaviour**: the sum is formed in `int` and
converted back to `R` (modular), exactly as the built-in compound assignment does. -/
theorem C13_addsub_assign_subint (F : FOps) (t : IntTy) (ht : t ∈ IntTy.all) (h : t.bits < 32)
    (a b : Int) (ha : t.inRange a) (hb : t.inRange b) (u : Bool) :
    qOp F (.addsubAs .add) (.int t) (.int t) (.int a) (.int b) u
      = ⟨Verdict.ok, some (.ref (.int t)), .ok (.int (t.wrap (a + b)))⟩ ∧
    qOp F (.addsubAs .sub) (.int t) (.int t) (.int a) (.int b) u
      = ⟨Verdict.ok, some (.ref (.int t)), .ok (.int (t.wrap (a - b)))⟩ := by
  have hp : t.promote = i32 := by simp [IntTy.promote, h]
  have hr : i32.inRange (a + b) ∧ i32.inRange (a - b) := by
    rcases subInt_cases t ht h with rfl|rfl|rfl|rfl <;>
      (simp only [IntTy.inRange, IntTy.lo, IntTy.hi, i8, u8, i16, u16, i32] at ha hb ⊢
       simp at ha hb ⊢
       omega)
  have hne : (RepTy.int i32 = RepTy.int t) = False := by
    rcases subInt_cases t ht h with rfl|rfl|rfl|rfl <;> simp [i8, u8, i16, u16, i32]
  constructor
  · have h1 := rawArith_int_exact F .add t ht a b (a + b) ha hb (Or.inl ⟨rfl, rfl⟩) (by rw [hp]; exact hr.1)
    rw [hp] at h1
    simp [qOp, qAddSubAssign, rawAssign, h1, evBind, convert, hne]
  · have h1 := rawArith_int_exact F .sub t ht a b (a - b) ha hb (Or.inr (Or.inl ⟨rfl, rfl⟩)) (by rw [hp]; exact hr.2)
    rw [hp] at h1
    simp [qOp, qAddSubAssign, rawAssign, h1, evBind, convert, hne]

example : qOp trivialF (.addsubAs .add) (.int u8) (.int u8) (.int 200) (.int 100) false
    = ⟨Verdict.ok, some (.ref (.int u8)), .ok (.int 44)⟩ := by decide

/-- **`+=` / `-=`, floating reps**: one `F` instruction on the stored bit patterns, stored back
without conversion. -/
theorem C13_addsub_assign_flt (F : FOps) (op : ArOp) (hop : op = .add ∨ op = .sub) (k : FltK) (x y : Nat) (u : Bool) :
    qOp F (.addsubAs op) (.flt k) (.flt k) (.flt x) (.flt y) u
      = ⟨Verdict.ok, some (.ref (.flt k)), .ok (.flt (F.bin k op x y))⟩ := by
  rcases hop with rfl | rfl <;>
    simp [qOp, qAddSubAssign, rawAssign, rawArith, RepTy.uac, convert, evBind, arithIn, Verdict.ok]

/-- **Scalar `*` in both operand orders, `*=`, same integral type, product representable in the
promoted type (resp. in `R`)**: exact product; `q * s` and `s * q` have the promoted rep, `q *= s`
keeps `R`. -/
theorem C13_scalar_mul_exact (F : FOps) (t : IntTy) (ht : t ∈ IntTy.all) (a s : Int)
    (ha : t.inRange a) (hs : t.inRange s) (hr : t.promote.inRange (a * s)) (u : Bool) :
    qOp F (.scalarR .mul) (.int t) (.int t) (.int a) (.int s) u
      = ⟨Verdict.ok, some (.val (.int t.promote)), .ok (.int (a * s))⟩ ∧
    qOp F .mulL (.int t) (.int t) (.int a) (.int s) u
      = ⟨Verdict.ok, some (.val (.int t.promote)), .ok (.int (a * s))⟩ ∧
    (t.inRange (a * s) →
      qOp F (.scaleAs .mul) (.int t) (.int t) (.int a) (.int s) u
        = ⟨Verdict.ok, some (.ref (.int t)), .ok (.int (a * s))⟩) := by
  have h1 := rawArith_int_exact F .mul t ht a s (a * s) ha hs (Or.inr (Or.inr ⟨rfl, rfl⟩)) hr
  have h2 := rawArith_int_exact F .mul t ht s a (s * a) hs ha (Or.inr (Or.inr ⟨rfl, rfl⟩))
    (by rw [Int.mul_comm]; exact hr)
  refine ⟨by simpa [qOp, qScalarRight, viaMake] using h1,
          by rw [Int.mul_comm a s]; simpa [qOp, qScalarLeftMul, viaMake] using h2, ?_⟩
  intro hfit
  simp only [qOp, qScaleAssign, shorthandOk, RepTy.isIntegral, Bool.not_true, Bool.or_true, if_true,
    rawAssign, h1, evBind, convert_int_inRange F t.promote t ht (a * s) hfit]

/-- **`s * q = q * s` for all 8×8 pairs of integral reps** (type and value, including the undefined
cases): the left-hand scalar overload is not a different operation. -/
theorem C13_scalar_mul_comm_int (F : FOps) (tr ts : IntTy) (hr : tr ∈ IntTy.all) (hs : ts ∈ IntTy.all)
    (a s : Int) (u : Bool) :
    qOp F .mulL (.int tr) (.int ts) (.int a) (.int s) u
      = qOp F (.scalarR .mul) (.int tr) (.int ts) (.int a) (.int s) u := by
  have hc := uac_comm ts tr hs hr
  simp only [qOp, qScalarLeftMul, qScalarRight, viaMake, rawArith, RepTy.uac, hc]
  have hmod : ¬ (ArOp.mul = ArOp.mod) := by decide
  simp only [hmod, false_and, if_false]
  have conv : ∀ (t : IntTy) (x : Int), ∃ y, convert F (.int t) (.int (IntTy.uac tr ts)) (.int x) = .ok (.int y) := by
    intro t x
    unfold convert
    split
    · exact ⟨x, rfl⟩
    · exact ⟨_, rfl⟩
  obtain ⟨a', ha'⟩ := conv tr a
  obtain ⟨s', hs'⟩ := conv ts s
  simp only [ha', hs', evBind, arithIn, mulIn, Int.mul_comm s' a']

example : qOp trivialF .mulL (.int i8) (.int u32) (.int (-1)) (.int 2) false
    = ⟨Verdict.ok, some (.val (.int u32)), .ok (.int 4294967294)⟩ := by decide

/-- **Scalar `/` (`q / s`), `/=`, same integral type**: defined exactly when the divisor is non-zero
and the operands are not (lowest value of the promoted type, −1); the result is the truncated
quotient, of the promoted rep for `q / s` and of rep `R` for `q /= s` (when it is representable). -/
theorem C13_scalar_div_int (F : FOps) (t : IntTy) (ht : t ∈ IntTy.all) (a s : Int)
    (ha : t.inRange a) (hs : t.inRange s) (hs0 : s ≠ 0) (h : ¬ (a = t.promote.lo ∧ s = -1)) (u : Bool) :
    qOp F (.scalarR .div) (.int t) (.int t) (.int a) (.int s) u
      = ⟨Verdict.ok, some (.val (.int t.promote)), .ok (.int (Int.tdiv a s))⟩ ∧
    (t.inRange (Int.tdiv a s) →
      qOp F (.scaleAs .div) (.int t) (.int t) (.int a) (.int s) u
        = ⟨Verdict.ok, some (.ref (.int t)), .ok (.int (Int.tdiv a s))⟩) := by
  have h1 := rawArith_int_div F t ht a s ha hs hs0 h
  refine ⟨by simpa [qOp, qScalarRight, viaMake] using h1, ?_⟩
  intro hfit
  simp only [qOp, qScaleAssign, shorthandOk, RepTy.isIntegral, Bool.not_true, Bool.or_true, if_true,
    rawAssign, h1, evBind, convert_int_inRange F t.promote t ht _ hfit]

/-- Division by a zero scalar is undefined behaviour in the Quantity operator exactly as in the
built-in one (it is not turned into anything else). -/
theorem C13_scalar_div_zero (F : FOps) (t : IntTy) (ht : t ∈ IntTy.all) (a : Int) (ha : t.inRange a) (u : Bool) :
    (qOp F (.scalarR .div) (.int t) (.int t) (.int a) (.int 0) u).val = .ub "division by zero" := by
  have hp := promote_mem t ht
  have h0 : t.inRange 0 := ⟨lo_nonpos t ht, hi_nonneg t ht⟩
  simp [qOp, qScalarRight, viaMake, rawArith, RepTy.uac, uac_self,
    convert_int_inRange F t t.promote hp a (promote_inRange t ht a ha),
    convert_int_inRange F t t.promote hp 0 (promote_inRange t ht 0 h0), evBind, arithIn, divIn, stepVal]

example : i8 ∈ IntTy.all ∧ i8.inRange (-128) ∧ i8.inRange (-1) ∧ ¬ ((-128 : Int) = i8.promote.lo ∧ (-1 : Int) = -1) ∧
    qOp trivialF (.scalarR .div) (.int i8) (.int i8) (.int (-128)) (.int (-1)) false
      = ⟨Verdict.ok, some (.val (.int i32)), .ok (.int 128)⟩ ∧
    qOp trivialF (.scaleAs .div) (.int i8) (.int i8) (.int (-128)) (.int (-1)) false
      = ⟨Verdict.ok, some (.ref (.int i8)), .ok (.int (-128))⟩ := by decide

/-- **Scalar `* /` in both operand orders and `*= /=`, floating reps (same type)**: one `F`
instruction on the bit patterns, operands in source order, no conversion. -/
theorem C13_scalar_flt (F : FOps) (op : ArOp) (hop : op = .mul ∨ op = .div) (k : FltK) (x s : Nat) (u : Bool) :
    qOp F (.scalarR op) (.flt k) (.flt k) (.flt x) (.flt s) u
      = ⟨Verdict.ok, some (.val (.flt k)), .ok (.flt (F.bin k op x s))⟩ ∧
    qOp F (.scaleAs op) (.flt k) (.flt k) (.flt x) (.flt s) u
      = ⟨Verdict.ok, some (.ref (.flt k)), .ok (.flt (F.bin k op x s))⟩ ∧
    qOp F .mulL (.flt k) (.flt k) (.flt x) (.flt s) u
      = ⟨Verdict.ok, some (.val (.flt k)), .ok (.flt (F.bin k .mul s x))⟩ ∧
    qOp F .divL (.flt k) (.flt k) (.flt x) (.flt s) u
      = ⟨Verdict.ok, some (.val (.flt k)), .ok (.flt (F.bin k .div s x))⟩ := by
  rcases hop with rfl | rfl <;>
    simp [qOp, qScalarRight, qScaleAssign, qScalarLeftMul, qScalarLeftDiv, shorthandOk, viaMake, rawAssign,
      rawArith, RepTy.uac, RepTy.isIntegral, convert, evBind, arithIn, Verdict.ok]

/-- **Round trip on floating bit patterns, spelled out**: for each of the three floating reps and
every bit pattern — NaN payloads, signalling NaNs, infinities, both zeros, denormals —
`unit(x).in(unit)` is that bit pattern; no instruction of `F` is involved (`qRoundTrip` does not
take `F`). -/
theorem C13_roundtrip_float_bits (k : FltK) (bits : Nat) :
    qRoundTrip (.flt k) (.flt bits) = .flt bits := rfl

example : qRoundTrip (.flt .f32) (.flt 0x7f812345) = .flt 0x7f812345 ∧            -- signalling NaN with payload
    qRoundTrip (.flt .f32) (.flt 0x80000000) = .flt 0x80000000 ∧                   -- -0.0
    qRoundTrip (.flt .f64) (.flt 0xfff0000000000000) = .flt 0xfff0000000000000 ∧   -- -inf
    qRoundTrip (.flt .f80) (.flt 0x7fffc000000000012345) = .flt 0x7fffc000000000012345 := by decide

/-- `QuantityMaker::operator()` deduces the rep from its argument, so it never narrows: the made
quantity has the argument's type and holds the argument. -/
theorem C13_maker_exact (t : RepTy) (x : Val) : (makeQty t x).rep = t ∧ (makeQty t x).value = x ∧
    narrows t t = false := by
  refine ⟨rfl, rfl, ?_⟩
  cases t <;> simp [narrows]

/-- **Same-unit `+` / `-`, every integral rep, result representable in the promoted type**: exact sum
or difference, of the promoted rep (generalises `C13_subint_addsub_exact`, where the premise is
automatic). -/
theorem C13_addsub_exact (F : FOps) (op : ArOp) (t : IntTy) (ht : t ∈ IntTy.all) (a b r : Int)
    (ha : t.inRange a) (hb : t.inRange b)
    (hop : (op = .add ∧ r = a + b) ∨ (op = .sub ∧ r = a - b)) (hr : t.promote.inRange r) (u : Bool) :
    qOp F (.addsub op) (.int t) (.int t) (.int a) (.int b) u
      = ⟨Verdict.ok, some (.val (.int t.promote)), .ok (.int r)⟩ := by
  have hop' : (op = .add ∧ r = a + b) ∨ (op = .sub ∧ r = a - b) ∨ (op = .mul ∧ r = a * b) := by
    rcases hop with h | h
    · exact Or.inl h
    · exact Or.inr (Or.inl h)
  simpa [qOp, qAddSub, viaMake] using rawArith_int_exact F op t ht a b r ha hb hop' hr

example : i32 ∈ IntTy.all ∧ i32.inRange 2147483647 ∧ i32.promote.inRange (2147483647 - 1) ∧
    qOp trivialF (.addsub .sub) (.int i32) (.int i32) (.int 2147483647) (.int 1) false
      = ⟨Verdict.ok, some (.val (.int i32)), .ok (.int 2147483646)⟩ ∧
    -- and outside the premise the model reports the undefined behaviour of the built-in operator
    (qOp trivialF (.addsub .add) (.int i32) (.int i32) (.int 2147483647) (.int 1) false).val
      = .ub "signed overflow in addition" := by decide

/-- **Same-unit `+` / `-`, floating reps**: one `F` instruction on the stored bit patterns. -/
theorem C13_addsub_flt (F : FOps) (op : ArOp) (hop : op = .add ∨ op = .sub) (k : FltK) (x y : Nat) (u : Bool) :
    qOp F (.addsub op) (.flt k) (.flt k) (.flt x) (.flt y) u
      = ⟨Verdict.ok, some (.val (.flt k)), .ok (.flt (F.bin k op x y))⟩ := by
  rcases hop with rfl | rfl <;>
    simp [qOp, qAddSub, viaMake, rawArith, RepTy.uac, convert, evBind, arithIn, Verdict.ok]

/-- **Same-unit `%`, integral reps of at least 32 bits** (outside F4): defined unless the divisor is
zero or the operands are (lowest, −1); the remainder of truncated division, of rep `R`. -/
theorem C13_mod_int (F : FOps) (t : IntTy) (_ht : t ∈ IntTy.all) (h32 : ¬ t.bits < 32) (a b : Int)
    (hb0 : b ≠ 0) (h : ¬ (a = t.lo ∧ b = -1)) (u : Bool) :
    qOp F .mod (.int t) (.int t) (.int a) (.int b) u
      = ⟨Verdict.ok, some (.val (.int t)), .ok (.int (Int.tmod a b))⟩ := by
  have hF4 : inF4 .mod (.int t) = false := by simp [inF4, h32]
  rw [C13_ops_match_raw_partial F .mod (.int t) (.int t) (.int a) (.int b) u rfl hF4]
  simp [rawOp, rawArith, RepTy.isIntegral, RepTy.uac, uac_self_of_ge32 t h32, convert, evBind, arithIn, stepVal,
    modIn_ok' t a b hb0 h, Verdict.ok]

/-- **Unary `+` / `-`, integral reps of at least 32 bits** (outside F4): `+q` holds the same value;
`-q` holds `-a` whenever that is representable (always, modulo 2^N, for unsigned reps). -/
theorem C13_unary_int (F : FOps) (t : IntTy) (ht : t ∈ IntTy.all) (h32 : ¬ t.bits < 32) (a : Int) (b : Val) (u : Bool) :
    qOp F (.un .pos) (.int t) (.int t) (.int a) b u = ⟨Verdict.ok, some (.val (.int t)), .ok (.int a)⟩ ∧
    (t.inRange (-a) →
      qOp F (.un .neg) (.int t) (.int t) (.int a) b u = ⟨Verdict.ok, some (.val (.int t)), .ok (.int (-a))⟩) := by
  have hF4 : ∀ w, inF4 (.un w) (.int t) = false := by intro w; simp [inF4, h32]
  constructor
  · rw [C13_ops_match_raw_partial F (.un .pos) (.int t) (.int t) (.int a) b u rfl (hF4 _)]
    simp [rawOp, rawUnary, RepTy.promote, promote_of_ge32 t h32, convert, evBind, Verdict.ok]
  · intro hr
    rw [C13_ops_match_raw_partial F (.un .neg) (.int t) (.int t) (.int a) b u rfl (hF4 _)]
    simp [rawOp, rawUnary, RepTy.promote, promote_of_ge32 t h32, convert, evBind, stepVal, negIn_ok t ht a hr, Verdict.ok]

/-- **Unary `+` / `-`, floating reps**: `+q` returns the stored bit pattern unchanged (no instruction
at all — NaN payloads and signed zeros survive); `-q` is exactly one negation instruction of `F`. -/
theorem C13_unary_flt (F : FOps) (k : FltK) (x : Nat) (b : Val) (u : Bool) :
    qOp F (.un .pos) (.flt k) (.flt k) (.flt x) b u = ⟨Verdict.ok, some (.val (.flt k)), .ok (.flt x)⟩ ∧
    qOp F (.un .neg) (.flt k) (.flt k) (.flt x) b u = ⟨Verdict.ok, some (.val (.flt k)), .ok (.flt (F.neg k x))⟩ := by
  constructor <;>
    simp [qOp, qUnary, viaListInit, listInitQty, rawUnary, RepTy.promote, narrows, convert, evBind, qtyTy, Verdict.ok]

example : u32 ∈ IntTy.all ∧ ¬ u32.bits < 32 ∧
    qOp trivialF .mod (.int i64) (.int i64) (.int (-7)) (.int 3) false = ⟨Verdict.ok, some (.val (.int i64)), .ok (.int (-1))⟩ ∧
    qOp trivialF (.un .neg) (.int u32) (.int u32) (.int 1) (.int 0) false
      = ⟨Verdict.ok, some (.val (.int u32)), .ok (.int 4294967295)⟩ ∧
    qOp trivialF (.un .pos) (.flt .f32) (.flt .f32) (.flt 0x7f812345) (.flt 0) false
      = ⟨Verdict.ok, some (.val (.flt .f32)), .ok (.flt 0x7f812345)⟩ := by decide

end Au

import AuModel.Products
import AuProofs.C02
set_option linter.unusedSectionVars false
namespace Au
open Pack

/-! # C14 — products, quotients and powers combine values raw-wise and units algebraically -/

/-- A valid pack is empty exactly when every exponent vanishes. -/
theorem pack_nil_iff {β : Type} [DecidableEq β] {lt : β → β → Bool} (h : StrictTotal lt)
    (p : Pack β) (hv : Valid lt p) : p = [] ↔ ∀ x, den p x = 0 := by
  constructor
  · intro hp x; subst hp; rfl
  · intro hz
    exact canonical h p [] hv ⟨List.Pairwise.nil, fun _ hm => by cases hm⟩ (fun x => by rw [hz x]; rfl)

section
variable {lt : U → U → Bool}

/-- **C14 (units combine algebraically; collapse).**  The product of two quantities is a raw number
exactly when the units cancel: every base-dimension exponent *and* every magnitude exponent of the
two units sum to zero (`Hz · s` collapses, `Hz · ms` does not). -/
theorem C14_product_collapse_iff (hlt : StrictTotal lt) (env : Env) (hw : env.WF) {a b : U}
    (ha : HGood lt a) (hb : HGood lt b) :
    productIsRaw env lt a b = true ↔
      ((∀ d, den (a.dimOf env) d + den (b.dimOf env) d = 0) ∧
       (∀ x, den (a.magOf env) x + den (b.magOf env) x = 0)) := by
  have hm := U.mul_dim_mag hlt env hw ha hb
  have hg : HGood lt (U.mul lt a b) := (GoodPack.mul hlt ha.asPack hb.asPack).ofPack
  have hv := hg.dim_mag_valid env hw
  unfold productIsRaw U.isUnitless
  simp only [Bool.and_eq_true, decide_eq_true_eq]
  rw [pack_nil_iff dimLt_strictTotal _ hv.1, pack_nil_iff MagBase.lt_strictTotal _ hv.2]
  constructor
  · intro ⟨h1, h2⟩; exact ⟨fun d => by rw [← hm.1 d]; exact h1 d, fun x => by rw [← hm.2 x]; exact h2 x⟩
  · intro ⟨h1, h2⟩; exact ⟨fun d => by rw [hm.1 d]; exact h1 d, fun x => by rw [hm.2 x]; exact h2 x⟩

/-- Quotients: raw exactly when dimension and magnitude of the two units coincide exponent by exponent. -/
theorem C14_quotient_collapse_iff (hlt : StrictTotal lt) (env : Env) (hw : env.WF) {a b : U}
    (ha : HGood lt a) (hb : HGood lt b) :
    quotientIsRaw env lt a b = true ↔
      ((∀ d, den (a.dimOf env) d = den (b.dimOf env) d) ∧ (∀ x, den (a.magOf env) x = den (b.magOf env) x)) := by
  have hgp : HGood lt (b.pow (-1)) := (hb.asPack.pow (-1)).ofPack
  have hp := U.pow_dim_mag env hw hb (-1)
  have := C14_product_collapse_iff hlt env hw ha hgp
  unfold quotientIsRaw U.div
  unfold productIsRaw at this
  rw [this]
  constructor
  · intro ⟨h1, h2⟩
    exact ⟨fun d => by have := h1 d; rw [hp.1 d] at this; grind, fun x => by have := h2 x; rw [hp.2 x] at this; grind⟩
  · intro ⟨h1, h2⟩
    exact ⟨fun d => by rw [hp.1 d, h1 d]; grind, fun x => by rw [hp.2 x, h2 x]; grind⟩

/-- Integer-division guard: two integral quantities may be divided only if their units are
quantity-equivalent or the divisor is wrapped in `unblock_int_div`; any floating rep lifts the guard. -/
theorem C14_int_div_guard (r1 r2 : Rep) (qequiv unblocked : Bool) (h1 : r1.isInt = true) (h2 : r2.isInt = true) :
    quantityDivAllowed r1 r2 qequiv unblocked = (unblocked || qequiv) := by
  unfold quantityDivAllowed; simp [h1, h2]

theorem C14_float_div_free (r1 r2 : Rep) (qequiv unblocked : Bool) (h : r1.isInt = false ∨ r2.isInt = false) :
    quantityDivAllowed r1 r2 qequiv unblocked = true := by
  unfold quantityDivAllowed; rcases h with h | h <;> simp [h]

/-- `as_raw_number` accepts only dimensionless quantities whose conversion to the unitless unit is
policy-safe (C06's predicate with source rep = target rep). -/
theorem C14_as_raw_number (env : Env) (u : U) (r : Rep) :
    asRawNumberAllowed env u r = true ↔ (u.dimOf env = [] ∧ corePolicy r (u.magOf env) r = true) := by
  unfold asRawNumberAllowed implicitRepPermitted; simp

end
end Au

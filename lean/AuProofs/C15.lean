import AuProofs.Lemmas.MathFn
import Generated.MathConsts
namespace Au
open Au.C15

/-! ## C15 — unit-aware math functions -/

/-! ### Tie of the model's threshold literal to the source (regenerated every run) -/

theorem C15_threshold_tie : Generated.MathConsts.inverseThreshold = inverseThresholdLiteral := by decide

theorem C15_threshold_value : Generated.MathConsts.inverseThreshold = 1000000 := by decide

/-- The rep guard `static_assert(is_floating_point<R> || numeric_limits<R>::max() >= 1'000'000)` uses the same
literal: `thresholdOf` refuses exactly the integral reps that cannot hold it. -/
theorem C15_threshold_guard_tie : Generated.MathConsts.inverseRepGuard = inverseThresholdLiteral := by decide

/-! ### The inverse round trip, for every constant `K` -/

/-- **C15, round trip (arithmetic statement).**  For every conversion constant `K ≥ 10^6` and every
`1 ≤ n ≤ 1000`, `K / (K / n) = n` in truncating integer division. -/
theorem C15_inverse_roundtrip (K n : Nat) (hK : 1000000 ≤ K) (h1 : 1 ≤ n) (h2 : n ≤ 1000) :
    K / (K / n) = n := by
  apply div_div_self K n (by omega)
  calc n * n ≤ 1000 * 1000 := Nat.mul_le_mul h2 h2
    _ ≤ K := by omega

/-- Non-vacuity / instance: kHz ↔ ns, `K = 10^6`, `n = 1000` (the extreme case of the comment). -/
example : 1000000 / (1000000 / 1000) = 1000 := by decide

/-- The threshold is sharp: one below it the promise of the source comment fails. -/
theorem C15_threshold_sharp : ¬ (∀ n : Nat, 1 ≤ n → n ≤ 1000 → 999999 / (999999 / n) = n) := by
  intro h
  have := h 1000 (by decide) (by decide)
  revert this
  decide

/-! ### Value of the explicit-rep inverse -/

/-- **C15, inverse value.**  For every integral rep `T`, every integer constant `K` that fits `T`
and every stored value `x ≠ 0`: `inverse_in<T>(target, q)` (hence `inverse_as<T>`) evaluates
without undefined behaviour and returns `trunc(K / x)`. -/
theorem C15_inverse_value (t : IntTy) (ht : t ∈ IntTy.all) (K : Mag) (hK : K.isInteger = true)
    (hpos : 0 < K.num) (hfit : (K.num : Int) ≤ t.hi) (x : Int) (hx : t.inRange x) (hx0 : x ≠ 0) :
    inverseIn (.int t) (.int t) K (.i x) = .ok (.i (Int.tdiv (K.num : Int) x)) :=
  inverseIn_int t ht K hK hpos hfit x hx hx0

/-- Non-vacuity: `inverse_in<int32_t>(micro(seconds), hertz(-40))`, `K = 10^6`. -/
example : inverseIn (.int .i32) (.int .i32) [(.prime 2, 6), (.prime 5, 6)] (.i (-40)) = .ok (.i (-25000)) := by
  decide

/-! ### The compile-time gate of the implicit-rep inverse -/

/-- A rep holds the threshold literal exactly when `10^6 ≤ max(T)` (the 32- and 64-bit reps). -/
theorem threshold_inRange (t : IntTy) (ht : t ∈ IntTy.all) :
    t.inRange ((inverseThresholdLiteral : Nat) : Int) ↔ (1000000 : Int) ≤ t.hi := by
  have := lo_nonpos t ht
  simp only [IntTy.inRange, inverseThresholdLiteral]
  omega

/-- **C15, gate (full statement, after the fix of finding F16).**  For every integral rep, an
implicit-rep inversion compiles exactly when the constant is an integer that fits the rep and is
at least 10^6.  (`constexpr R threshold{1'000'000};` is a narrowing error for 8- and 16-bit reps,
for which the right-hand side is unsatisfiable as well.) -/
theorem C15_inverse_gate (t : IntTy) (ht : t ∈ IntTy.all) (K : Mag) :
    inverseImplicitCompiles (.int t) K = true ↔
      (K.isInteger = true ∧ (K.num : Int) ≤ t.hi ∧ (1000000 : Int) ≤ (K.num : Int)) := by
  unfold inverseImplicitCompiles thresholdOf
  by_cases hbig : (1000000 : Int) ≤ t.hi
  · have hr : t.inRange ((inverseThresholdLiteral : Nat) : Int) := (threshold_inRange t ht).2 hbig
    simp only [hr, if_true]
    by_cases hK : K.isInteger = true
    · by_cases hfit : (K.num : Int) ≤ t.hi
      · rw [unityIn_int t ht K hK hfit]
        simp only [inverseThresholdLiteral, valGe, ArithTy.isFloat, Bool.or_false, decide_eq_true_eq, ge_iff_le]
        constructor
        · intro h; exact ⟨hK, hfit, by simpa using h⟩
        · intro h; simpa using h.2.2
      · have hg : (getValueI t K).isSome = false := by
          unfold getValueI; rw [if_pos hK, gvInt_of_gt t _ hfit]; rfl
        simp only [unityIn, hg]
        simp [hfit]
    · have hg : (getValueI t K).isSome = false := by
        unfold getValueI; rw [if_neg hK]; rfl
      simp only [unityIn, hg]
      simp [hK]
  · have hr : ¬ t.inRange ((inverseThresholdLiteral : Nat) : Int) := fun h => hbig ((threshold_inRange t ht).1 h)
    simp only [hr, if_false]
    constructor
    · intro h; cases h
    · intro h; omega

example : inverseImplicitCompiles (.int .i32) [(.prime 2, 6), (.prime 5, 6)] = true ∧
    inverseImplicitCompiles (.int .i32) [(.prime 2, 5), (.prime 5, 5)] = false ∧
    inverseImplicitCompiles (.int .i32) [(.prime 2, 10), (.prime 5, 10)] = false ∧
    inverseImplicitCompiles (.int .i64) [(.prime 2, 10), (.prime 5, 10)] = true ∧
    inverseImplicitCompiles (.int .i64) [(.prime 2, -3), (.prime 5, -3)] = false := by decide

/-- Regression guard for finding F16 (formerly pending as F11): with `int8_t` / `int16_t` the
inversions that used to slip through the wrapped threshold (64 / 16960) no longer compile. -/
theorem C15_F16_fixed :
    inverseImplicitCompiles (.int .i8) [(.prime 2, 2), (.prime 5, 2)] = false ∧
    inverseImplicitCompiles (.int .u8) [(.prime 2, 6)] = false ∧
    inverseImplicitCompiles (.int .i16) [(.prime 2, 5), (.prime 5, 4)] = false ∧
    inverseImplicitCompiles (.int .u16) [(.prime 2, 4), (.prime 5, 4)] = false := by decide

/-! ### Round trip on the model -/

/-- **C15, round trip on the model (full statement).**  For every integral rep, every constant for
which the implicit-rep inversion compiles and every `1 ≤ n ≤ 1000`:
`inverse_in(a, inverse_as(b, a(n))) = n`, both steps free of undefined behaviour. -/
theorem C15_inverse_roundtrip_model (t : IntTy) (ht : t ∈ IntTy.all)
    (K : Mag) (hc : inverseImplicitCompiles (.int t) K = true) (n : Nat) (h1 : 1 ≤ n) (h2 : n ≤ 1000) :
    ∃ m : Nat, inverseInImplicit (.int t) K (.i n) = .ok (.i m) ∧
      inverseInImplicit (.int t) K (.i m) = .ok (.i n) := by
  obtain ⟨hK, hfit, hthr⟩ := (C15_inverse_gate t ht K).1 hc
  have hN : 1000000 ≤ K.num := by omega
  have hpos : 0 < K.num := by omega
  refine ⟨K.num / n, ?_, ?_⟩
  · unfold inverseInImplicit
    rw [if_pos hc]
    have hnr : t.inRange (n : Int) := inRange_of_nat t ht n (by omega)
    rw [inverseIn_int t ht K hK hpos hfit n hnr (by omega)]
    rw [← Int.ofNat_tdiv]
  · unfold inverseInImplicit
    rw [if_pos hc]
    have hm1 : n ≤ K.num / n := (Nat.le_div_iff_mul_le (by omega)).2 (by
      calc n * n ≤ 1000 * 1000 := Nat.mul_le_mul h2 h2
        _ ≤ K.num := by omega)
    have hm2 : K.num / n ≤ K.num := Nat.div_le_self _ _
    have hmr : t.inRange ((K.num / n : Nat) : Int) := inRange_of_nat t ht _ (by omega)
    rw [inverseIn_int t ht K hK hpos hfit _ hmr (by omega)]
    rw [← Int.ofNat_tdiv, C15_inverse_roundtrip K.num n hN h1 h2]

/-- Non-vacuity: kHz ↔ ns in `int32_t`, n = 999. -/
example : inverseImplicitCompiles (.int .i32) [(.prime 2, 6), (.prime 5, 6)] = true ∧
    inverseInImplicit (.int .i32) [(.prime 2, 6), (.prime 5, 6)] (.i 999) = .ok (.i 1001) ∧
    inverseInImplicit (.int .i32) [(.prime 2, 6), (.prime 5, 6)] (.i 1001) = .ok (.i 999) := by decide

/-! ### Rounding functions -/

/-- `RoundingRep` is a floating type and applying it twice changes nothing — the two
`static_assert`s of math.hh:108-113. -/
theorem C15_roundingRep_idem (R : ArithTy) : roundingRep (.flt (roundingRep R)) = roundingRep R := by
  cases R <;> rfl

theorem C15_roundingRep_float (f : FltTy) : roundingRep (.flt f) = f := rfl

theorem C15_roundingRep_int (t : IntTy) : roundingRep (.int t) = .f64 := rfl

/-- **C15, floor.** `std::floor` on the float model returns an integer `r` with `r ≤ v < r + 1`,
for every finite value `v`. -/
theorem C15_floor_spec (v : Rat) :
    ∃ r : Int, FVal.floor (.fin v) = .fin (r : Rat) ∧ (r : Rat) ≤ v ∧ v < (r : Rat) + 1 := by
  refine ⟨v.floor, rfl, Rat.floor_le v, ?_⟩
  have := Rat.lt_floor_add_one v
  simpa [Rat.intCast_add] using this

/-- **C15, ceil.** `r − 1 < v ≤ r`. -/
theorem C15_ceil_spec (v : Rat) :
    ∃ r : Int, FVal.ceil (.fin v) = .fin (r : Rat) ∧ (r : Rat) - 1 < v ∧ v ≤ (r : Rat) := by
  refine ⟨-((-v).floor), rfl, ?_, ?_⟩
  · have h := Rat.lt_floor_add_one (-v)
    have h' : -v < ((-v).floor : Rat) + 1 := by simpa [Rat.intCast_add] using h
    have e : ((-(-v).floor : Int) : Rat) = -(((-v).floor : Int) : Rat) := by simp [Rat.intCast_neg]
    rw [e]; grind
  · have h := Rat.floor_le (-v)
    have e : ((-(-v).floor : Int) : Rat) = -(((-v).floor : Int) : Rat) := by simp [Rat.intCast_neg]
    rw [e]; grind

/-- **C15, round.** `|r − v| ≤ 1/2`, halfway cases away from zero. -/
theorem C15_round_spec (v : Rat) :
    ∃ r : Int, FVal.round (.fin v) = .fin (r : Rat) ∧ (r : Rat) - 1 / 2 ≤ v ∧ v ≤ (r : Rat) + 1 / 2 ∧
      (0 ≤ v → v < (r : Rat) + 1 / 2) ∧ (v < 0 → (r : Rat) - 1 / 2 < v) := by
  by_cases hv : v ≥ 0
  · refine ⟨(v + 1 / 2).floor, by simp [FVal.round, hv], ?_, ?_, ?_, ?_⟩
    · have := Rat.floor_le (v + 1 / 2); grind
    · have := Rat.lt_floor_add_one (v + 1 / 2)
      have h' : v + 1 / 2 < ((v + 1 / 2).floor : Rat) + 1 := by simpa [Rat.intCast_add] using this
      grind
    · intro _
      have := Rat.lt_floor_add_one (v + 1 / 2)
      have h' : v + 1 / 2 < ((v + 1 / 2).floor : Rat) + 1 := by simpa [Rat.intCast_add] using this
      grind
    · intro h; grind
  · have e : ((-(-v + 1 / 2).floor : Int) : Rat) = -(((-v + 1 / 2).floor : Int) : Rat) := by
      simp [Rat.intCast_neg]
    refine ⟨-((-v + 1 / 2).floor), by simp [FVal.round, hv], ?_, ?_, ?_, ?_⟩
    · have := Rat.lt_floor_add_one (-v + 1 / 2)
      have h' : -v + 1 / 2 < ((-v + 1 / 2).floor : Rat) + 1 := by simpa [Rat.intCast_add] using this
      rw [e]; grind
    · have := Rat.floor_le (-v + 1 / 2)
      rw [e]; grind
    · intro h; grind
    · intro _
      have := Rat.lt_floor_add_one (-v + 1 / 2)
      have h' : -v + 1 / 2 < ((-v + 1 / 2).floor : Rat) + 1 := by simpa [Rat.intCast_add] using this
      rw [e]; grind

/-- The pipeline of `round_in / floor_in / ceil_in`: whatever is returned is the std function
applied to `q.in<RoundingRep>(rounding_units)`; nothing else happens to the value. -/
theorem C15_round_pipeline (fn : RFn) (R : ArithTy) (m : Mag) (x : Val) (r : FVal)
    (h : roundIn fn R m x = .ok r) : ∃ y, roundArg R m x = .ok y ∧ r = fn.apply y := by
  unfold roundIn at h
  cases hy : roundArg R m x with
  | ok y => rw [hy] at h; simp at h; exact ⟨y, rfl, h.symm⟩
  | ub w => rw [hy] at h; simp at h
  | nocompile w => rw [hy] at h; simp at h

/-- **C15, floor/ceil/round on exact conversions.**  Whenever the conversion to the rounding unit
is exact (the converted float is the true value `e` of the quantity in that unit), the three
functions return integers satisfying the inequalities of the property statement with respect to
the true value. -/
theorem C15_floor_exact (R : ArithTy) (m : Mag) (x : Val) (e : Rat)
    (hconv : roundArg R m x = .ok (.fin e)) :
    ∃ r : Int, roundIn .floor R m x = .ok (.fin (r : Rat)) ∧ (r : Rat) ≤ e ∧ e < (r : Rat) + 1 := by
  obtain ⟨r, h1, h2, h3⟩ := C15_floor_spec e
  exact ⟨r, by simp [roundIn, hconv, RFn.apply, h1], h2, h3⟩

theorem C15_ceil_exact (R : ArithTy) (m : Mag) (x : Val) (e : Rat)
    (hconv : roundArg R m x = .ok (.fin e)) :
    ∃ r : Int, roundIn .ceil R m x = .ok (.fin (r : Rat)) ∧ (r : Rat) - 1 < e ∧ e ≤ (r : Rat) := by
  obtain ⟨r, h1, h2, h3⟩ := C15_ceil_spec e
  exact ⟨r, by simp [roundIn, hconv, RFn.apply, h1], h2, h3⟩

theorem C15_round_exact (R : ArithTy) (m : Mag) (x : Val) (e : Rat)
    (hconv : roundArg R m x = .ok (.fin e)) :
    ∃ r : Int, roundIn .round R m x = .ok (.fin (r : Rat)) ∧ (r : Rat) - 1 / 2 ≤ e ∧ e ≤ (r : Rat) + 1 / 2 := by
  obtain ⟨r, h1, h2, h3, _⟩ := C15_round_spec e
  exact ⟨r, by simp [roundIn, hconv, RFn.apply, h1], h2, h3⟩

/-- Non-vacuity of the `_exact` theorems: a `double` quantity rounded in its own unit
(`round_in(meters, meters(2.5))`): the conversion is the identity, hence exact. -/
example : roundArg (.flt .f64) [] (.f (.fin (5 / 2))) = .ok (.fin (5 / 2)) := by decide +kernel
example : roundIn .round (.flt .f64) [] (.f (.fin (5 / 2))) = .ok (.fin 3) ∧
    roundIn .round (.flt .f64) [] (.f (.fin (-5 / 2))) = .ok (.fin (-3)) ∧
    roundIn .floor (.flt .f64) [] (.f (.fin (-5 / 2))) = .ok (.fin (-3)) ∧
    roundIn .ceil (.flt .f64) [] (.f (.fin (-5 / 2))) = .ok (.fin (-2)) := by decide +kernel

/-- `inf` and `nan` pass through unchanged (no integer is returned for them). -/
theorem C15_round_nonfinite (fn : RFn) : fn.apply .nan = .nan ∧ fn.apply (.inf true) = .inf true ∧
    fn.apply (.inf false) = .inf false := by
  cases fn <;> exact ⟨rfl, rfl, rfl⟩

/-- `detail::in_radians` is the same conversion as the rounding argument: to `R` itself for
floating `R`, to `double` for integral `R`. -/
theorem C15_inRadians_eq (R : ArithTy) (m : Mag) (x : Val) :
    inRadians R m x = convert R (.flt (roundingRep R)) m x := rfl


/-! ### Exact conversions of integral inputs, unconditionally -/

/-- `static_cast<double>(n)` (and `float`, `long double`) is exact for `|n| < 2^p`. -/
theorem C15_int_to_float_exact (f : FltTy) (n : Int) (h : n.natAbs < 2 ^ f.prec) :
    rne f (n : Rat) = .fin (n : Rat) := rne_int_exact f n h

/-- **C15, integral input × integer ratio.**  For every integral rep, every integer ratio `K`
whose compile-time constant `get_value<double>(K)` is the integer `N` (evaluated by the driver for
every explored instance and compared with the real headers), and every stored value with
`|x|, |x·N| < 2^53`: `round_in`, `floor_in` and `ceil_in` all return exactly `x·N` — the true
value, which is its own floor, ceiling and nearest integer. -/
theorem C15_round_int_exact (fn : RFn) (t : IntTy) (K : Mag) (N : Nat) (hK : K.isInteger = true)
    (hgv : getValueF .f64 K = some (.fin (N : Rat))) (x : Int)
    (hx : x.natAbs < 2 ^ 53) (hxn : (x * N).natAbs < 2 ^ 53) :
    roundIn fn (.int t) K (.i x) = .ok (.fin ((x * N : Int) : Rat)) :=
  roundIn_int_mul_exact fn t K N hK hgv x hx hxn

/-- Same unit: `round_in(u, u(n)) = n` for every integral rep and `|n| < 2^53` (no hypothesis on
constants: the empty magnitude evaluates to 1 by definition). -/
theorem C15_round_int_sameunit (fn : RFn) (t : IntTy) (x : Int) (hx : x.natAbs < 2 ^ 53) :
    roundIn fn (.int t) [] (.i x) = .ok (.fin (x : Rat)) := roundIn_int_sameunit fn t x hx

/-- Non-vacuity (instance of the theorem, not an evaluation). -/
example : roundIn .ceil (.int .i16) [] (.i (-7)) = .ok (.fin ((-7 : Int) : Rat)) :=
  C15_round_int_sameunit .ceil .i16 (-7) (by decide)

/-! ### min / max / clamp on identical types (the hidden friends of `Quantity`) -/

theorem C15_max_same (R1 R2 : ArithTy) (m1 m2 : Mag) (a b : Int) :
    maxQ true R1 R2 m1 m2 (.i a) (.i b) = .ok (.i (max a b)) := by
  simp only [maxQ, if_true, valLt]
  by_cases h : b < a
  · simp [h]; omega
  · simp [h]; omega

theorem C15_min_same (R1 R2 : ArithTy) (m1 m2 : Mag) (a b : Int) :
    minQ true R1 R2 m1 m2 (.i a) (.i b) = .ok (.i (min a b)) := by
  simp only [minQ, if_true, valLt]
  by_cases h : b < a
  · simp [h]; omega
  · simp [h]; omega

/-- For finite floating values the hidden friends return the larger / smaller operand too. -/
theorem C15_max_same_float (R1 R2 : ArithTy) (m1 m2 : Mag) (a b : Rat) :
    maxQ true R1 R2 m1 m2 (.f (.fin a)) (.f (.fin b)) = .ok (.f (.fin (if b < a then a else b))) := by
  simp only [maxQ, if_true, valLt, FVal.lt]
  by_cases h : b < a <;> simp [h]

/-- The driver's batch commands run `ConvPlan`s; running a plan is `convert`. -/
theorem C15_plan_sound (R N : ArithTy) (m : Mag) (x : Val) : convert R N m x = (planConvert R N m).run x :=
  convert_eq_plan R N m x

end Au

import AuProofs.Lemmas.MathFn
import Generated.MathConsts
namespace Au
open Au.C15

/-! ## C15 — unit-aware math functions -/

/-! ### Tie of the model's threshold literal to the source (regenerated every run) -/

theorem C15_threshold_tie : Generated.MathConsts.inverseThreshold = inverseThresholdLiteral := by decide

theorem C15_threshold_value : Generated.MathConsts.inverseThreshold = 1000000 := by decide

/-- The rep guard `static_assert(is_floating_point<R> || numeric_limits<R>::max() >= 1'000'000)` uses the same
literal: `thresholdOf` refuses exactly the integral reps that cannot hold it. -/
theorem C15_threshold_guard_tie : Generated.MathConsts.inverseRepGuard = inverseThresholdLiteral := by decide

/-! ### The inverse round trip, for every constant `K` -/

/-- **C15, round trip (arithmetic statement).**  For every conversion constant `K ≥ 10^6` and every
`1 ≤ n ≤ 1000`, `K / (K / n) = n` in truncating integer division. -/
theorem C15_inverse_roundtrip (K n : Nat) (hK : 1000000 ≤ K) (h1 : 1 ≤ n) (h2 : n ≤ 1000) :
    K / (K / n) = n := by
  apply div_div_self K n (by omega)
  calc n * n ≤ 1000 * 1000 := Nat.mul_le_mul h2 h2
    _ ≤ K := by omega

/-- Non-vacuity / instance: kHz ↔ ns, `K = 10^6`, `n = 1000` (the extreme case of the comment). -/
example : 1000000 / (1000000 / 1000) = 1000 := by decide

/-- The threshold is sharp: one below it the promise of the source comment fails. -/
theorem C15_threshold_sharp : ¬ (∀ n : Nat, 1 ≤ n → n ≤ 1000 → 999999 / (999999 / n) = n) := by
  intro h
  have := h 1000 (by decide) (by decide)
  revert this
  decide

/-! ### Value of the explicit-rep inverse -/

/-- **C15, inverse value.**  For every integral rep `T`, every integer constant `K` that fits `T`
and every stored value `x ≠ 0`: `inverse_in<T>(target, q)` (hence `inverse_as<T>`) evaluates
without undefined behaviour and returns `trunc(K / x)`. -/
theorem C15_inverse_value (t : IntTy) (ht : t ∈ IntTy.all) (K : Mag) (hK : K.isInteger = true)
    (hpos : 0 < K.num) (hfit : (K.num : Int) ≤ t.hi) (x : Int) (hx : t.inRange x) (hx0 : x ≠ 0) :
    inverseIn (.int t) (.int t) K (.i x) = .ok (.i (Int.tdiv (K.num : Int) x)) :=
  inverseIn_int t ht K hK hpos hfit x hx hx0

/-- Non-vacuity: `inverse_in<int32_t>(micro(seconds), hertz(-40))`, `K = 10^6`. -/
example : inverseIn (.int .i32) (.int .i32) [(.prime 2, 6), (.prime 5, 6)] (.i (-40)) = .ok (.i (-25000)) := by
  decide

/-! ### The compile-time gate of the implicit-rep inverse -/

/-- A rep holds the threshold literal exactly when `10^6 ≤ max(T)` (the 32- and 64-bit reps). -/
theorem threshold_inRange (t : IntTy) (ht : t ∈ IntTy.all) :
    t.inRange ((inverseThresholdLiteral : Nat) : Int) ↔ (1000000 : Int) ≤ t.hi := by
  have := lo_nonpos t ht
  simp only [IntTy.inRange, inverseThresholdLiteral]
  omega

/-- **C15, gate (full statement, after the fix of finding F16).**  For every integral rep, an
implicit-rep inversion compiles exactly when the constant is an integer that fits the rep and is
at least 10^6.  (`constexpr R threshold{1'000'000};` is a narrowing error for 8- and 16-bit reps,
for which the right-hand side is unsatisfiable as well.) -/
theorem C15_inverse_gate (t : IntTy) (ht : t ∈ IntTy.all) (K : Mag) :
    inverseImplicitCompiles (.int t) K = true ↔
      (K.isInteger = true ∧ (K.num : Int) ≤ t.hi ∧ (1000000 : Int) ≤ (K.num : Int)) := by
  unfold inverseImplicitCompiles thresholdOf
  by_cases hbig : (1000000 : Int) ≤ t.hi
  · have hr : t.inRange ((inverseThresholdLiteral : Nat) : Int) := (threshold_inRange t ht).2 hbig
    simp only [hr, if_true]
    by_cases hK : K.isInteger = true
    · by_cases hfit : (K.num : Int) ≤ t.hi
      · rw [unityIn_int t ht K hK hfit]
        simp only [inverseThresholdLiteral, valGe, ArithTy.isFloat, Bool.or_false, decide_eq_true_eq, ge_iff_le]
        constructor
        · intro h; exact ⟨hK, hfit, by simpa using h⟩
        · intro h; simpa using h.2.2
      · have hg : (getValueI t K).isSome = false := by
          unfold getValueI; rw [if_pos hK, gvInt_of_gt t _ hfit]; rfl
        simp only [unityIn, hg]
        simp [hfit]
    · have hg : (getValueI t K).isSome = false := by
        unfold getValueI; rw [if_neg hK]; rfl
      simp only [unityIn, hg]
      simp [hK]
  · have hr : ¬ t.inRange ((inverseThresholdLiteral : Nat) : Int) := fun h => hbig ((threshold_inRange t ht).1 h)
    simp only [hr, if_false]
    constructor
    · intro h; cases h
    · intro h; omega

example : inverseImplicitCompiles (.int .i32) [(.prime 2, 6), (.prime 5, 6)] = true ∧
    inverseImplicitCompiles (.int .i32) [(.prime 2, 5), (.prime 5, 5)] = false ∧
    inverseImplicitCompiles (.int .i32) [(.prime 2, 10), (.prime 5, 10)] = false ∧
    inverseImplicitCompiles (.int .i64) [(.prime 2, 10), (.prime 5, 10)] = true ∧
    inverseImplicitCompiles (.int .i64) [(.prime 2, -3), (.prime 5, -3)] = false := by decide

/-- Regression guard for finding F16 (formerly pending as F11): with `int8_t` / `int16_t` the
inversions that used to slip through the wrapped threshold (64 / 16960) no longer compile. -/
theorem C15_F16_fixed :
    inverseImplicitCompiles (.int .i8) [(.prime 2, 2), (.prime 5, 2)] = false ∧
    inverseImplicitCompiles (.int .u8) [(.prime 2, 6)] = false ∧
    inverseImplicitCompiles (.int .i16) [(.prime 2, 5), (.prime 5, 4)] = false ∧
    inverseImplicitCompiles (.int .u16) [(.prime 2, 4), (.prime 5, 4)] = false := by decide

/-! ### Round trip on the model -/

/-- **C15, round trip on the model (full statement).**  For every integral rep, every constant for
which the implicit-rep inversion compiles and every `1 ≤ n ≤ 1000`:
`inverse_in(a, inverse_as(b, a(n))) = n`, both steps free of undefined behaviour. -/
theorem C15_inverse_roundtrip_model (t : IntTy) (ht : t ∈ IntTy.all)
    (K : Mag) (hc : inverseImplicitCompiles (.int t) K = true) (n : Nat) (h1 : 1 ≤ n) (h2 : n ≤ 1000) :
    ∃ m : Nat, inverseInImplicit (.int t) K (.i n) = .ok (.i m) ∧
      inverseInImplicit (.int t) K (.i m) = .ok (.i n) := by
  obtain ⟨hK, hfit, hthr⟩ := (C15_inverse_gate t ht K).1 hc
  have hN : 1000000 ≤ K.num := by omega
  have hpos : 0 < K.num := by omega
  refine ⟨K.num / n, ?_, ?_⟩
  · unfold inverseInImplicit
    rw [if_pos hc]
    have hnr : t.inRange (n : Int) := inRange_of_nat t ht n (by omega)
    rw [inverseIn_int t ht K hK hpos hfit n hnr (by omega)]
    rw [← Int.ofNat_tdiv]
  · unfold inverseInImplicit
    rw [if_pos hc]
    have hm1 : n ≤ K.num / n := (Nat.le_div_iff_mul_le (by omega)).2 (by
      calc n * n ≤ 1000 * 1000 := Nat.mul_le_mul h2 h2
        _ ≤ K.num := by omega)
    have hm2 : K.num / n ≤ K.num := Nat.div_le_self _ _
    have hmr : t.inRange ((K.num / n : Nat) : Int) := inRange_of_nat t ht _ (by omega)
    rw [inverseIn_int t ht K hK hpos hfit _ hmr (by omega)]
    rw [← Int.ofNat_tdiv, C15_inverse_roundtrip K.num n hN h1 h2]

/-- Non-vacuity: kHz ↔ ns in `int32_t`, n = 999. -/
example : inverseImplicitCompiles (.int .i32) [(.prime 2, 6), (.prime 5, 6)] = true ∧
    inverseInImplicit (.int .i32) [(.prime 2, 6), (.prime 5, 6)] (.i 999) = .ok (.i 1001) ∧
    inverseInImplicit (.int .i32) [(.prime 2, 6), (.prime 5, 6)] (.i 1001) = .ok (.i 999) := by decide

/-! ### Rounding functions -/

/-- `RoundingRep` is a floating type and applying it twice changes nothing — the two
`static_assert`s of math.hh:108-113. -/
theorem C15_roundingRep_idem (R : ArithTy) : roundingRep (.flt (roundingRep R)) = roundingRep R := by
  cases R <;> rfl

theorem C15_roundingRep_float (f : FltTy) : roundingRep (.flt f) = f := rfl

theorem C15_roundingRep_int (t : IntTy) : roundingRep (.int t) = .f64 := rfl

/-- **C15, floor.** `std::floor` on the float model returns an integer `r` with `r ≤ v < r + 1`,
for every finite value `v`. -/
theorem C15_floor_spec (v : Rat) :
    ∃ r : Int, FVal.floor (.fin v) = .fin (r : Rat) ∧ (r : Rat) ≤ v ∧ v < (r : Rat) + 1 := by
  refine ⟨v.floor, rfl, Rat.floor_le v, ?_⟩
  have := Rat.lt_floor_add_one v
  simpa [Rat.intCast_add] using this

/-- **C15, ceil.** `r − 1 < v ≤ r`. -/
theorem C15_ceil_spec (v : Rat) :
    ∃ r : Int, FVal.ceil (.fin v) = .fin (r : Rat) ∧ (r : Rat) - 1 < v ∧ v ≤ (r : Rat) := by
  refine ⟨-((-v).floor), rfl, ?_, ?_⟩
  · have h := Rat.lt_floor_add_one (-v)
    have h' : -v < ((-v).floor : Rat) + 1 := by simpa [Rat.intCast_add] using h
    have e : ((-(-v).floor : Int) : Rat) = -(((-v).floor : Int) : Rat) := by simp [Rat.intCast_neg]
    rw [e]; grind
  · have h := Rat.floor_le (-v)
    have e : ((-(-v).floor : Int) : Rat) = -(((-v).floor : Int) : Rat) := by simp [Rat.intCast_neg]
    rw [e]; grind

/-- **C15, round.** `|r − v| ≤ 1/2`, halfway cases away from zero. -/
theorem C15_round_spec (v : Rat) :
    ∃ r : Int, FVal.round (.fin v) = .fin (r : Rat) ∧ (r : Rat) - 1 / 2 ≤ v ∧ v ≤ (r : Rat) + 1 / 2 ∧
      (0 ≤ v → v < (r : Rat) + 1 / 2) ∧ (v < 0 → (r : Rat) - 1 / 2 < v) := by
  by_cases hv : v ≥ 0
  · refine ⟨(v + 1 / 2).floor, by simp [FVal.round, hv], ?_, ?_, ?_, ?_⟩
    · have := Rat.floor_le (v + 1 / 2); grind
    · have := Rat.lt_floor_add_one (v + 1 / 2)
      have h' : v + 1 / 2 < ((v + 1 / 2).floor : Rat) + 1 := by simpa [Rat.intCast_add] using this
      grind
    · intro _
      have := Rat.lt_floor_add_one (v + 1 / 2)
      have h' : v + 1 / 2 < ((v + 1 / 2).floor : Rat) + 1 := by simpa [Rat.intCast_add] using this
      grind
    · intro h; grind
  · have e : ((-(-v + 1 / 2).floor : Int) : Rat) = -(((-v + 1 / 2).floor : Int) : Rat) := by
      simp [Rat.intCast_neg]
    refine ⟨-((-v + 1 / 2).floor), by simp [FVal.round, hv], ?_, ?_, ?_, ?_⟩
    · have := Rat.lt_floor_add_one (-v + 1 / 2)
      have h' : -v + 1 / 2 < ((-v + 1 / 2).floor : Rat) + 1 := by simpa [Rat.intCast_add] using this
      rw [e]; grind
    · have := Rat.floor_le (-v + 1 / 2)
      rw [e]; grind
    · intro h; grind
    · intro _
      have := Rat.lt_floor_add_one (-v + 1 / 2)
      have h' : -v + 1 / 2 < ((-v + 1 / 2).floor : Rat) + 1 := by simpa [Rat.intCast_add] using this
      rw [e]; grind

/-- The pipeline of `round_in / floor_in / ceil_in`: whatever is returned is the std function
applied to `q.in<RoundingRep>(rounding_units)`; nothing else happens to the value. -/
theorem C15_round_pipeline (fn : RFn) (R : ArithTy) (m : Mag) (x : Val) (r : FVal)
    (h : roundIn fn R m x = .ok r) : ∃ y, roundArg R m x = .ok y ∧ r = fn.apply y := by
  unfold roundIn at h
  cases hy : roundArg R m x with
  | ok y => rw [hy] at h; simp at h; exact ⟨y, rfl, h.symm⟩
  | ub w => rw [hy] at h; simp at h
  | nocompile w => rw [hy] at h; simp at h

/-- **C15, floor/ceil/round on exact conversions.**  Whenever the conversion to the rounding unit
is exact (the converted float is the true value `e` of the quantity in that unit), the three
functions return integers satisfying the inequalities of the property statement with respect to
the true value. -/
theorem C15_floor_exact (R : ArithTy) (m : Mag) (x : Val) (e : Rat)
    (hconv : roundArg R m x = .ok (.fin e)) :
    ∃ r : Int, roundIn .floor R m x = .ok (.fin (r : Rat)) ∧ (r : Rat) ≤ e ∧ e < (r : Rat) + 1 := by
  obtain ⟨r, h1, h2, h3⟩ := C15_floor_spec e
  exact ⟨r, by simp [roundIn, hconv, RFn.apply, h1], h2, h3⟩

theorem C15_ceil_exact (R : ArithTy) (m : Mag) (x : Val) (e : Rat)
    (hconv : roundArg R m x = .ok (.fin e)) :
    ∃ r : Int, roundIn .ceil R m x = .ok (.fin (r : Rat)) ∧ (r : Rat) - 1 < e ∧ e ≤ (r : Rat) := by
  obtain ⟨r, h1, h2, h3⟩ := C15_ceil_spec e
  exact ⟨r, by simp [roundIn, hconv, RFn.apply, h1], h2, h3⟩

theorem C15_round_exact (R : ArithTy) (m : Mag) (x : Val) (e : Rat)
    (hconv : roundArg R m x = .ok (.fin e)) :
    ∃ r : Int, roundIn .round R m x = .ok (.fin (r : Rat)) ∧ (r : Rat) - 1 / 2 ≤ e ∧ e ≤ (r : Rat) + 1 / 2 := by
  obtain ⟨r, h1, h2, h3, _⟩ := C15_round_spec e
  exact ⟨r, by simp [roundIn, hconv, RFn.apply, h1], h2, h3⟩

/-- Non-vacuity of the `_exact` theorems: a `double` quantity rounded in its own unit
(`round_in(meters, meters(2.5))`): the conversion is the identity, hence exact. -/
example : roundArg (.flt .f64) [] (.f (.fin (5 / 2))) = .ok (.fin (5 / 2)) := by decide +kernel
example : roundIn .round (.flt .f64) [] (.f (.fin (5 / 2))) = .ok (.fin 3) ∧
    roundIn .round (.flt .f64) [] (.f (.fin (-5 / 2))) = .ok (.fin (-3)) ∧
    roundIn .floor (.flt .f64) [] (.f (.fin (-5 / 2))) = .ok (.fin (-3)) ∧
    roundIn .ceil (.flt .f64) [] (.f (.fin (-5 / 2))) = .ok (.fin (-2)) := by decide +kernel

/-- `inf` and `nan` pass through unchanged (no integer is returned for them). -/
theorem C15_round_nonfinite (fn : RFn) : fn.apply .nan = .nan ∧ fn.apply (.inf true) = .inf true ∧
    fn.apply (.inf false) = .inf false := by
  cases fn <;> exact ⟨rfl, rfl, rfl⟩

/-- `detail::in_radians` is the same conversion as the rounding argument: to `R` itself for
floating `R`, to `double` for integral `R`. -/
theorem C15_inRadians_eq (R : ArithTy) (m : Mag) (x : Val) :
    inRadians R m x = convert R (.flt (roundingRep R)) m x := rfl


/-! ### Exact conversions of integral inputs, unconditionally -/

/-- `static_cast<double>(n)` (and `float`, `long double`) is exact for `|n| < 2^p`. -/
theorem C15_int_to_float_exact (f : FltTy) (n : Int) (h : n.natAbs < 2 ^ f.prec) :
    rne f (n : Rat) = .fin (n : Rat) := rne_int_exact f n h

/-- **C15, integral input × integer ratio.**  For every integral rep, every integer ratio `K`
whose compile-time constant `get_value<double>(K)` is the integer `N` (evaluated by the driver for
every explored instance and compared with the real headers), and every stored value with
`|x|, |x·N| < 2^53`: `round_in`, `floor_in` and `ceil_in` all return exactly `x·N` — the true
value, which is its own floor, ceiling and nearest integer. -/
theorem C15_round_int_exact (fn : RFn) (t : IntTy) (K : Mag) (N : Nat) (hK : K.isInteger = true)
    (hgv : getValueF .f64 K = some (.fin (N : Rat))) (x : Int)
    (hx : x.natAbs < 2 ^ 53) (hxn : (x * N).natAbs < 2 ^ 53) :
    roundIn fn (.int t) K (.i x) = .ok (.fin ((x * N : Int) : Rat)) :=
  roundIn_int_mul_exact fn t K N hK hgv x hx hxn

/-- Same unit: `round_in(u, u(n)) = n` for every integral rep and `|n| < 2^53` (no hypothesis on
constants: the empty magnitude evaluates to 1 by definition). -/
theorem C15_round_int_sameunit (fn : RFn) (t : IntTy) (x : Int) (hx : x.natAbs < 2 ^ 53) :
    roundIn fn (.int t) [] (.i x) = .ok (.fin (x : Rat)) := roundIn_int_sameunit fn t x hx

/-- Non-vacuity (instance of the theorem, not an evaluation). -/
example : roundIn .ceil (.int .i16) [] (.i (-7)) = .ok (.fin ((-7 : Int) : Rat)) :=
  C15_round_int_sameunit .ceil .i16 (-7) (by decide)

/-! ### min / max / clamp on identical types (the hidden friends of `Quantity`) -/

theorem C15_max_same (R1 R2 : ArithTy) (m1 m2 : Mag) (a b : Int) :
    maxQ true R1 R2 m1 m2 (.i a) (.i b) = .ok (.i (max a b)) := by
  simp only [maxQ, if_true, valLt]
  by_cases h : b < a
  · simp [h]; omega
  · simp [h]; omega

theorem C15_min_same (R1 R2 : ArithTy) (m1 m2 : Mag) (a b : Int) :
    minQ true R1 R2 m1 m2 (.i a) (.i b) = .ok (.i (min a b)) := by
  simp only [minQ, if_true, valLt]
  by_cases h : b < a
  · simp [h]; omega
  · simp [h]; omega

/-- For finite floating values the hidden friends return the larger / smaller operand too. -/
theorem C15_max_same_float (R1 R2 : ArithTy) (m1 m2 : Mag) (a b : Rat) :
    maxQ true R1 R2 m1 m2 (.f (.fin a)) (.f (.fin b)) = .ok (.f (.fin (if b < a then a else b))) := by
  simp only [maxQ, if_true, valLt, FVal.lt]
  by_cases h : b < a <;> simp [h]

/-- The driver's batch commands run `ConvPlan`s; running a plan is `convert`. -/
theorem C15_plan_sound (R N : ArithTy) (m : Mag) (x : Val) : convert R N m x = (planConvert R N m).run x :=
  convert_eq_plan R N m x

/-! ### min / max / clamp across types -/

/-- **C15, max (mixed types) — structure.**  `max(q1, q2)` for different quantity types is
`std::max(a, b) = (a < b) ? b : a` on the two operands converted to the common unit and common rep,
whatever the reps. -/
theorem C15_max_mixed (R1 R2 : ArithTy) (m1 m2 : Mag) (x1 x2 a b : Val)
    (h1 : toCommon R1 (R1.common R2) m1 x1 = .ok a) (h2 : toCommon R2 (R1.common R2) m2 x2 = .ok b) :
    maxQ false R1 R2 m1 m2 x1 x2 = .ok (if valLt a b then b else a) := by
  simp [maxQ, h1, h2]

/-- `min`: `std::min(a, b) = (b < a) ? b : a`. -/
theorem C15_min_mixed (R1 R2 : ArithTy) (m1 m2 : Mag) (x1 x2 a b : Val)
    (h1 : toCommon R1 (R1.common R2) m1 x1 = .ok a) (h2 : toCommon R2 (R1.common R2) m2 x2 = .ok b) :
    minQ false R1 R2 m1 m2 x1 x2 = .ok (if valLt b a then b else a) := by
  simp [minQ, h1, h2]

/-- **C15, max — integral reps, clean conversions.**  Whenever both operands convert to the common
unit (integer ratios `n1`, `n2`) and common rep without wrap, overflow or narrowing, `max(q1, q2)`
is the maximum of the exact values `x1·n1` and `x2·n2` — and it is one of the two converted
operands. -/
theorem C15_max_spec (t1 t2 : IntTy) (h1 : t1 ∈ IntTy.all) (h2 : t2 ∈ IntTy.all) (m1 m2 : Mag)
    (hm1 : m1.isInteger = true) (hm2 : m2.isInteger = true) (x1 x2 : Int)
    (hf1 : (m1.num : Int) ≤ (IntTy.common t1 t2).hi) (hf2 : (m2.num : Int) ≤ (IntTy.common t1 t2).hi)
    (hx1 : (IntTy.common t1 t2).inRange x1) (hx2 : (IntTy.common t1 t2).inRange x2)
    (hv1 : (IntTy.common t1 t2).inRange (x1 * (m1.num : Int))) (hv2 : (IntTy.common t1 t2).inRange (x2 * (m2.num : Int))) :
    maxQ false (.int t1) (.int t2) m1 m2 (.i x1) (.i x2) = .ok (.i (max (x1 * (m1.num : Int)) (x2 * (m2.num : Int)))) ∧
      (max (x1 * (m1.num : Int)) (x2 * (m2.num : Int)) = x1 * (m1.num : Int) ∨
       max (x1 * (m1.num : Int)) (x2 * (m2.num : Int)) = x2 * (m2.num : Int)) := by
  have hC := common_mem t1 t2 h1 h2
  have c1 : CleanConv t1 (IntTy.common t1 t2) m1 x1 := ⟨hC, common_absorb_left t1 t2 h1 h2, hm1, hf1, hx1, hv1⟩
  have c2 : CleanConv t2 (IntTy.common t1 t2) m2 x2 := ⟨hC, common_absorb_right t1 t2 h1 h2, hm2, hf2, hx2, hv2⟩
  refine ⟨?_, by omega⟩
  rw [C15_max_mixed (.int t1) (.int t2) m1 m2 _ _ _ _ (toCommon_clean _ _ _ _ c1) (toCommon_clean _ _ _ _ c2)]
  simp only [valLt]
  by_cases h : x1 * (m1.num : Int) < x2 * (m2.num : Int)
  · simp [h]; omega
  · simp [h]; omega

theorem C15_min_spec (t1 t2 : IntTy) (h1 : t1 ∈ IntTy.all) (h2 : t2 ∈ IntTy.all) (m1 m2 : Mag)
    (hm1 : m1.isInteger = true) (hm2 : m2.isInteger = true) (x1 x2 : Int)
    (hf1 : (m1.num : Int) ≤ (IntTy.common t1 t2).hi) (hf2 : (m2.num : Int) ≤ (IntTy.common t1 t2).hi)
    (hx1 : (IntTy.common t1 t2).inRange x1) (hx2 : (IntTy.common t1 t2).inRange x2)
    (hv1 : (IntTy.common t1 t2).inRange (x1 * (m1.num : Int))) (hv2 : (IntTy.common t1 t2).inRange (x2 * (m2.num : Int))) :
    minQ false (.int t1) (.int t2) m1 m2 (.i x1) (.i x2) = .ok (.i (min (x1 * (m1.num : Int)) (x2 * (m2.num : Int)))) ∧
      (min (x1 * (m1.num : Int)) (x2 * (m2.num : Int)) = x1 * (m1.num : Int) ∨
       min (x1 * (m1.num : Int)) (x2 * (m2.num : Int)) = x2 * (m2.num : Int)) := by
  have hC := common_mem t1 t2 h1 h2
  have c1 : CleanConv t1 (IntTy.common t1 t2) m1 x1 := ⟨hC, common_absorb_left t1 t2 h1 h2, hm1, hf1, hx1, hv1⟩
  have c2 : CleanConv t2 (IntTy.common t1 t2) m2 x2 := ⟨hC, common_absorb_right t1 t2 h1 h2, hm2, hf2, hx2, hv2⟩
  refine ⟨?_, by omega⟩
  rw [C15_min_mixed (.int t1) (.int t2) m1 m2 _ _ _ _ (toCommon_clean _ _ _ _ c1) (toCommon_clean _ _ _ _ c2)]
  simp only [valLt]
  by_cases h : x2 * (m2.num : Int) < x1 * (m1.num : Int)
  · simp [h]; omega
  · simp [h]; omega

/-- Non-vacuity: `max(feet(int16_t{-7}), inches(int32_t{100}))` in inches/int32: max(−84, 100). -/
example : maxQ false (.int .i16) (.int .i32) [(.prime 2, 2), (.prime 3, 1)] [] (.i (-7)) (.i 100) = .ok (.i 100) ∧
    minQ false (.int .i16) (.int .i32) [(.prime 2, 2), (.prime 3, 1)] [] (.i (-7)) (.i 100) = .ok (.i (-84)) := by decide

/-- **C15, max / min — floating reps.**  On the converted (round-to-nearest) operands `a`, `b` the
result is `(a < b) ? b : a` resp. `(b < a) ? b : a`; in particular a NaN first operand is returned,
and a NaN second operand is ignored — exactly `std::max` / `std::min`. -/
theorem C15_max_float (R1 R2 : ArithTy) (m1 m2 : Mag) (x1 x2 : Val) (a b : FVal)
    (h1 : toCommon R1 (R1.common R2) m1 x1 = .ok (.f a)) (h2 : toCommon R2 (R1.common R2) m2 x2 = .ok (.f b)) :
    maxQ false R1 R2 m1 m2 x1 x2 = .ok (.f (if FVal.lt a b then b else a)) ∧
    minQ false R1 R2 m1 m2 x1 x2 = .ok (.f (if FVal.lt b a then b else a)) := by
  rw [C15_max_mixed R1 R2 m1 m2 x1 x2 _ _ h1 h2, C15_min_mixed R1 R2 m1 m2 x1 x2 _ _ h1 h2]
  simp only [valLt]
  constructor
  · by_cases h : FVal.lt a b = true <;> simp [h]
  · by_cases h : FVal.lt b a = true <;> simp [h]

theorem C15_max_float_nan (R1 R2 : ArithTy) (m1 m2 : Mag) (x1 x2 : Val) (b : FVal)
    (h1 : toCommon R1 (R1.common R2) m1 x1 = .ok (.f .nan)) (h2 : toCommon R2 (R1.common R2) m2 x2 = .ok (.f b)) :
    maxQ false R1 R2 m1 m2 x1 x2 = .ok (.f .nan) ∧ minQ false R1 R2 m1 m2 x1 x2 = .ok (.f .nan) := by
  have := C15_max_float R1 R2 m1 m2 x1 x2 .nan b h1 h2
  cases b <;> simpa [FVal.lt] using this

theorem C15_max_float_nan_second (R1 R2 : ArithTy) (m1 m2 : Mag) (x1 x2 : Val) (a : FVal)
    (h1 : toCommon R1 (R1.common R2) m1 x1 = .ok (.f a)) (h2 : toCommon R2 (R1.common R2) m2 x2 = .ok (.f .nan)) :
    maxQ false R1 R2 m1 m2 x1 x2 = .ok (.f a) ∧ minQ false R1 R2 m1 m2 x1 x2 = .ok (.f a) := by
  have := C15_max_float R1 R2 m1 m2 x1 x2 a .nan h1 h2
  cases a <;> simpa [FVal.lt] using this

/-- The identical-type `Quantity` overloads are the hidden friends: `max(a, b) = b < a ? a : b`,
`min(a, b) = b < a ? b : a` on the stored values. -/
theorem C15_max_same_rule (R1 R2 : ArithTy) (m1 m2 : Mag) (x1 x2 : Val) :
    maxQ true R1 R2 m1 m2 x1 x2 = .ok (if valLt x2 x1 then x1 else x2) ∧
    minQ true R1 R2 m1 m2 x1 x2 = .ok (if valLt x2 x1 then x2 else x1) := by
  simp [maxQ, minQ]

/-- **Finding F27, kernel-checked.**  For identical `Quantity` types `max(meters(NaN), meters(1.0))`
is `1 m` (the hidden friend returns its second argument when the comparison is false), whereas the
mixed-type path — `std::max` — returns its first argument, NaN. -/
theorem C15_max_same_type_nan :
    maxQ true (.flt .f64) (.flt .f64) [] [] (.f .nan) (.f (.fin 1)) = .ok (.f (.fin 1)) ∧
    maxQ false (.flt .f64) (.flt .f64) [] [] (.f .nan) (.f (.fin 1)) = .ok (.f .nan) := by
  decide +kernel

theorem scale_lt (k : Nat) (hk : 0 < k) (x y : Int) (a b : Nat) (p q : Nat) (hp : p = k * a) (hq : q = k * b) :
    (x * (a : Int) < y * (b : Int)) ↔ (x * (p : Int) < y * (q : Int)) := by
  subst hp; subst hq
  have hk' : (0 : Int) < (k : Int) := by omega
  have e1 : x * ((k * a : Nat) : Int) = (k : Int) * (x * (a : Int)) := by
    rw [Int.natCast_mul, Int.mul_left_comm]
  have e2 : y * ((k * b : Nat) : Int) = (k : Int) * (y * (b : Int)) := by
    rw [Int.natCast_mul, Int.mul_left_comm]
  rw [e1, e2]
  exact (Int.mul_lt_mul_left hk').symm

/-- **C15, clamp — integral reps, mixed types, clean conversions.**  `clamp(v, lo, hi)` compares
`v < lo` and `hi < v` in the common unit/rep of each *pair* and converts the selected operand to
the common unit/rep of all three.  When all seven conversions are clean and the three units are
consistent (the result unit divides both pair units: factors `k1`, `k2`), the result is
`min(max(V, L), H)` on the exact values in the result unit (`lo ≤ hi`), and it is one of `V, L, H`. -/
theorem C15_clamp_spec (tv tl th : IntTy) (ms : ClampMags) (v lo hi : Int)
    (c1 : CleanConv tv (IntTy.common tv tl) ms.vToVLo v) (c2 : CleanConv tl (IntTy.common tv tl) ms.loToVLo lo)
    (c3 : CleanConv th (IntTy.common th tv) ms.hiToHiV hi) (c4 : CleanConv tv (IntTy.common th tv) ms.vToHiV v)
    (c5 : CleanConv tv (IntTy.common (IntTy.common tv tl) th) ms.vToRes v)
    (c6 : CleanConv tl (IntTy.common (IntTy.common tv tl) th) ms.loToRes lo)
    (c7 : CleanConv th (IntTy.common (IntTy.common tv tl) th) ms.hiToRes hi)
    (k1 k2 : Nat) (hk1 : 0 < k1) (hk2 : 0 < k2)
    (e1 : ms.vToRes.num = k1 * ms.vToVLo.num) (e2 : ms.loToRes.num = k1 * ms.loToVLo.num)
    (e3 : ms.hiToRes.num = k2 * ms.hiToHiV.num) (e4 : ms.vToRes.num = k2 * ms.vToHiV.num)
    (hle : lo * (ms.loToRes.num : Int) ≤ hi * (ms.hiToRes.num : Int)) :
    clampQ false false (.int tv) (.int tl) (.int th) ms (.i v) (.i lo) (.i hi) =
        .ok (.i (min (max (v * (ms.vToRes.num : Int)) (lo * (ms.loToRes.num : Int))) (hi * (ms.hiToRes.num : Int)))) ∧
      (min (max (v * (ms.vToRes.num : Int)) (lo * (ms.loToRes.num : Int))) (hi * (ms.hiToRes.num : Int)) = v * (ms.vToRes.num : Int) ∨
       min (max (v * (ms.vToRes.num : Int)) (lo * (ms.loToRes.num : Int))) (hi * (ms.hiToRes.num : Int)) = lo * (ms.loToRes.num : Int) ∨
       min (max (v * (ms.vToRes.num : Int)) (lo * (ms.loToRes.num : Int))) (hi * (ms.hiToRes.num : Int)) = hi * (ms.hiToRes.num : Int)) := by
  refine ⟨?_, by omega⟩
  have hlt1 := scale_lt k1 hk1 v lo _ _ _ _ e1 e2
  have hlt2 := scale_lt k2 hk2 hi v _ _ _ _ e3 e4
  unfold clampQ lessQ
  simp only [Bool.false_eq_true, if_false, ArithTy.common, toCommon_clean _ _ _ _ c1, toCommon_clean _ _ _ _ c2,
    toCommon_clean _ _ _ _ c3, toCommon_clean _ _ _ _ c4, Res.bind_ok, valLt]
  by_cases hA : v * (ms.vToVLo.num : Int) < lo * (ms.loToVLo.num : Int)
  · have hA' := hlt1.1 hA
    simp only [hA, decide_true, if_true, construct_clean _ _ _ _ c6]
    congr 2; omega
  · have hA' : ¬ (v * (ms.vToRes.num : Int) < lo * (ms.loToRes.num : Int)) := fun h => hA (hlt1.2 h)
    simp only [hA, decide_false, Bool.false_eq_true, if_false]
    by_cases hB : hi * (ms.hiToHiV.num : Int) < v * (ms.vToHiV.num : Int)
    · have hB' := hlt2.1 hB
      simp only [hB, decide_true, if_true, construct_clean _ _ _ _ c7]
      congr 2; omega
    · have hB' : ¬ (hi * (ms.hiToRes.num : Int) < v * (ms.vToRes.num : Int)) := fun h => hB (hlt2.2 h)
      simp only [hB, decide_false, Bool.false_eq_true, if_false, construct_clean _ _ _ _ c5]
      congr 2; omega

/-- Non-vacuity: `clamp(feet(5), inches(100), yards(2))` with `int32_t`: the common unit is inches,
`V = 60, L = 100, H = 72`… with `lo ≤ hi` violated the code returns `lo`; a proper instance:
`clamp(feet(10), inches(100), yards(3))`: `V = 120, L = 100, H = 108` → `108`. -/
example : clampQ false false (.int .i32) (.int .i32) (.int .i32)
    ⟨[(.prime 2, 2), (.prime 3, 1)], [], [(.prime 3, 1)], [], [(.prime 2, 2), (.prime 3, 1)], [], [(.prime 2, 2), (.prime 3, 2)]⟩
    (.i 10) (.i 100) (.i 3) = .ok (.i 108) := by decide

end Au

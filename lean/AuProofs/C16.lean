import AuModel.Constant
import AuProofs.C11
import AuProofs.C03
namespace Au
open IntTy

/-! # C16 — constants convert exactly or not at all (integral types proved, floating types by
correspondence with the bit-exact float model) -/

/-- **Availability.**  For integral `T`, `can_store_value_in<T>(u)` holds exactly when the exact
ratio `C/u` is an integer that fits `T`. -/
theorem C16_available_iff (t : IntTy) (ht : t ∈ IntTy.all) (ratio : Mag)
    (hpos : ∀ a ∈ ratio, ∀ p, a.1 = .prime p → 1 ≤ p) :
    canStoreInt t ratio = true ↔ (Mag.isIntegerMag ratio = true ∧ Mag.natValue ratio ≤ t.hi) := by
  unfold canStoreInt
  constructor
  · intro h
    cases hg : getValueResultInt t ratio with
    | mk o v =>
      rw [hg] at h
      cases o <;> simp at h
      have := (C11_integral t ht ratio hpos v).1 hg
      exact ⟨this.1, this.2.1⟩
  · intro ⟨h1, h2⟩
    have := (C11_integral t ht ratio hpos (Mag.natValue ratio)).2 ⟨h1, h2, rfl⟩
    rw [this]; rfl

/-- **Exactness.**  Whenever it is available, `C.in<T>(u)` is exactly the ratio: the promoted product
`1 · k` is in range, nothing wraps, nothing is narrowed. -/
theorem C16_value_exact (t : IntTy) (ht : t ∈ IntTy.all) (ratio : Mag)
    (hpos : ∀ a ∈ ratio, ∀ p, a.1 = .prime p → 1 ≤ p) (h : canStoreInt t ratio = true) :
    constantInInt t ratio = some ⟨.ok (Mag.natValue ratio), false, false⟩ := by
  obtain ⟨hi, hle⟩ := (C16_available_iff t ht ratio hpos).1 h
  have hg := (C11_integral t ht ratio hpos (Mag.natValue ratio)).2 ⟨hi, hle, rfl⟩
  have hk1 : 1 ≤ Mag.natValue ratio := by
    unfold Mag.natValue
    apply listProd_ge_one
    intro x hx; rcases List.mem_map.1 hx with ⟨a, ha, rfl⟩
    exact bpExact_ge_one a (intElem_of_isInteger ratio hpos hi a ha)
  unfold constantInInt
  rw [hg]
  simp only []
  have hlo := lo_nonpos t ht
  have hr : t.inRange (Mag.natValue ratio) := ⟨by omega, hle⟩
  have hp : t.promote.inRange (1 * ((Mag.natValue ratio).toNat : Int)) := by
    have h1 := promote_hi t ht; have h2 := promote_lo t ht
    have : ((Mag.natValue ratio).toNat : Int) = Mag.natValue ratio := by omega
    rw [Int.one_mul, this]; exact ⟨by omega, by omega⟩
  have hcat : categorize (Mag.natValue ratio).toNat 1 = .intMul := by unfold categorize; simp
  unfold applyMag
  rw [hcat]
  simp only []
  rw [mulIn_ok _ (promote_mem t ht) _ _ hp]
  have : (1 : Int) * ((Mag.natValue ratio).toNat : Int) = Mag.natValue ratio := by omega
  rw [this]
  exact congrArg some (finish_ok t ht _ false hr)

/-- Non-vacuity / sensitivity: the speed of light in m/s fits `int32_t`, not `int16_t`. -/
example : canStoreInt i32 [(.prime 2, 1), (.prime 7, 1), (.prime 73, 1), (.prime 293339, 1)] = true ∧
    canStoreInt i16 [(.prime 2, 1), (.prime 7, 1), (.prime 73, 1), (.prime 293339, 1)] = false := by
  decide +kernel

end Au

import AuProofs.Lemmas.Chrono
import AuProofs.Lemmas.ChronoOps
import AuProofs.Lemmas.ChronoRne
set_option linter.unusedSimpArgs false
set_option linter.unusedVariables false
namespace Au.Chrono

/-- The six special mappings name units whose magnitude is the generic `Seconds × Period` one. -/
theorem C17_special_units_agree (r : Rep) (p : Period) (n : String) (m : Mag)
    (h : special? r p = some (n, m)) : m = ratioMag p := by
  unfold special? at h
  split at h
  · cases h
  · repeat' split at h
    all_goals cases h
    all_goals subst_vars
    all_goals decide +kernel

/-- Whatever spelling `CorrespondingQuantity` picks, the unit's magnitude is that of
`Seconds × Period`. -/
theorem corrUnit_mag (r : Rep) (p : Period) : (corrUnit r p).2 = ratioMag p := by
  unfold corrUnit
  split
  · rename_i n m h; exact C17_special_units_agree r p n m h
  · rfl

theorem asQuantity_mag (d : Duration) : (asQuantity d).mag = ratioMag d.period := corrUnit_mag _ _

/-- **C17, round trip.**  For every duration `d` (any of the four reps, any positive period whose
reduced terms fit `intmax_t`, any count): `as_quantity(d)` has `d`'s rep and count, its unit is
seconds × Period (numerator and denominator of the unit's magnitude are `Period::num`,
`Period::den`), `as_chrono_duration` of it is well-formed and returns `d`'s rep, the reduced
period and `d`'s count, and the implicit conversion back to `d`'s own type returns `d`. -/
theorem C17_roundtrip (d : Duration) (hp : d.period.Pos)
    (hn : (d.period.norm.num : Int) ≤ i64hi) (hd : (d.period.norm.den : Int) ≤ i64hi) :
    (asQuantity d).rep = d.rep ∧ (asQuantity d).value = d.count ∧
    (Mag.numerator (asQuantity d).mag).natValue = d.period.norm.num ∧
    (Mag.denominator (asQuantity d).mag).natValue = d.period.norm.den ∧
    asChronoDuration (asQuantity d) = .ok (some ⟨d.rep, d.period.norm, d.count⟩) ∧
    toDuration (asQuantity d) d.rep d.period = .ok (some d) := by
  have hmag := asQuantity_mag d
  obtain ⟨hi1, hv1, hi2, hv2⟩ := ratioMag_value hp
  have hok := ok_ratioMag hp
  have htd : ∀ p' : Period, ratioMag p' = ratioMag d.period →
      toDuration (asQuantity d) d.rep p' = .ok (some ⟨d.rep, p', d.count⟩) := by
    intro p' hp'
    unfold toDuration
    have hu : (corrUnit d.rep p').2 = (asQuantity d).mag := by rw [corrUnit_mag, hp', hmag]
    have hsf : Mag.div (asQuantity d).mag (corrUnit d.rep p').2 = [] := by
      rw [hu, hmag]; exact Mag.div_self hok
    have hrep : (asQuantity d).rep = d.rep := rfl
    simp [permitImplicitFrom, hsf, corePolicy, hrep]
    rfl
  refine ⟨rfl, rfl, by rw [hmag]; exact hv1, by rw [hmag]; exact hv2, ?_, ?_⟩
  · unfold asChronoDuration
    rw [Mag.div_nil, hmag]
    have g1 : getValueInt IntTy.i64 (Mag.numerator (ratioMag d.period)) = some (d.period.norm.num : Int) := by
      unfold getValueInt
      rw [hi1, hv1]
      have : ((d.period.norm.num : Int) ≤ IntTy.i64.hi) := hn
      simp [this]
    have g2 : getValueInt IntTy.i64 (Mag.denominator (ratioMag d.period)) = some (d.period.norm.den : Int) := by
      unfold getValueInt
      rw [hi2, hv2]
      have : ((d.period.norm.den : Int) ≤ IntTy.i64.hi) := hd
      simp [this]
    simp only [g1, g2, Int.toNat_natCast]
    exact htd d.period.norm (ratioMag_norm hp)
  · exact htd d.period rfl

/-- Non-vacuity and a concrete instance: `duration<int32_t, ratio<2, 4>>{7}`. -/
example : asChronoDuration (asQuantity ⟨.i32, ⟨2, 4⟩, .i 7⟩) = .ok (some ⟨.i32, ⟨1, 2⟩, .i 7⟩) ∧
    (⟨2, 4⟩ : Period).Pos ∧ (((⟨2, 4⟩ : Period).norm.num : Int) ≤ i64hi) := by
  refine ⟨by decide +kernel, ⟨by decide, by decide⟩, by decide +kernel⟩

/-- **C17, common period.**  For all positive periods, Au's common unit of the two corresponding
units *is* the unit of chrono's common period `gcd(n₁,n₂)/lcm(d₁,d₂)` (the same magnitude pack),
and both libraries scale each operand by the same integer: the unit ratio is an integer magnitude
whose value is the numerator of `std::ratio_divide<Pᵢ, CommonPeriod>`, whose denominator is 1. -/
theorem C17_common_period (p1 p2 : Period) (h1 : p1.Pos) (h2 : p2.Pos) :
    Mag.common (ratioMag p1) (ratioMag p2) = ratioMag (chronoCommonPeriod p1 p2) ∧
    chronoCommonPeriod p1 p2 = ⟨Nat.gcd p1.norm.num p2.norm.num, Nat.lcm p1.norm.den p2.norm.den⟩ ∧
    (Mag.numerator (Mag.common (ratioMag p1) (ratioMag p2))).natValue = Nat.gcd p1.norm.num p2.norm.num ∧
    (Mag.denominator (Mag.common (ratioMag p1) (ratioMag p2))).natValue = Nat.lcm p1.norm.den p2.norm.den ∧
    (Mag.div (ratioMag p1) (Mag.common (ratioMag p1) (ratioMag p2))).isInteger = true ∧
    (Mag.div (ratioMag p1) (Mag.common (ratioMag p1) (ratioMag p2))).natValue = (ratioDivide p1 (chronoCommonPeriod p1 p2)).num ∧
    (ratioDivide p1 (chronoCommonPeriod p1 p2)).den = 1 ∧
    (Mag.div (ratioMag p2) (Mag.common (ratioMag p1) (ratioMag p2))).isInteger = true ∧
    (Mag.div (ratioMag p2) (Mag.common (ratioMag p1) (ratioMag p2))).natValue = (ratioDivide p2 (chronoCommonPeriod p1 p2)).num ∧
    (ratioDivide p2 (chronoCommonPeriod p1 p2)).den = 1 :=
  common_period_all p1 p2 h1 h2

example : Mag.common (ratioMag ⟨1001, 30000⟩) (ratioMag ⟨1, 60⟩) = ratioMag ⟨1, 30000⟩ ∧
    chronoCommonPeriod ⟨1001, 30000⟩ ⟨1, 60⟩ = ⟨1, 30000⟩ := by decide +kernel

/-- A duration is implicitly accepted by a quantity type exactly when its corresponding quantity
is: same compile-time outcome (including ill-formedness), for every target and every duration. -/
theorem C17_accept_iff_corresponding (tgtMag : Mag) (tgtRep : Rep) (d : Duration) :
    durationAccepted tgtMag tgtRep d = quantityConvertible tgtMag tgtRep (asQuantity d) := rfl


/-- **C17, acceptance rule.**  For every target `Quantity<Seconds × tp, tr>` and every duration:
a floating target accepts every duration; an integral target accepts exactly the integral-rep
durations whose period is an integer multiple `k` of the target unit with `2147·k ≤ max(tr)`.
`ratioDivide` is `std::ratio_divide<Period, tp>` in lowest terms: `den = 1` says "integer multiple",
`num` is `k`.  (Before the `fix:` commit for finding F2 the question was ill-formed for `k > max(tr)`;
the model follows the fixed code, where it is simply `false`.) -/
theorem C17_accept_formula (tp : Period) (tr : Rep) (d : Duration) (htp : tp.Pos) (hdp : d.period.Pos) :
    durationAccepted (ratioMag tp) tr d =
      match tr.intTy? with
      | none => true
      | some t =>
        d.rep.isIntegral && decide ((ratioDivide d.period tp).den = 1) &&
          decide (2147 * ((ratioDivide d.period tp).num : Int) ≤ t.hi) := by
  obtain ⟨hiff, hval⟩ := scaleFactor_spec hdp htp
  have hok := Mag.ok_div (ok_ratioMag hdp) (ok_ratioMag htp)
  unfold durationAccepted quantityConvertible
  rw [asQuantity_mag]
  have hrep : (asQuantity d).rep = d.rep := rfl
  rw [hrep]
  generalize hrd : ratioDivide d.period tp = rd at *
  cases htr : tr.intTy? with
  | none =>
    unfold permitImplicitFrom
    have : corePolicy tr (Mag.div (ratioMag d.period) (ratioMag tp)) d.rep = true := by
      unfold corePolicy; rw [htr]; split <;> rfl
    simp [this]
  | some t =>
    cases hsi : d.rep.isIntegral with
    | false =>
      unfold permitImplicitFrom
      have hne : tr ≠ d.rep := by
        intro h; rw [← h] at hsi; simp [Rep.isIntegral, htr] at hsi
      have : corePolicy tr (Mag.div (ratioMag d.period) (ratioMag tp)) d.rep = false := by
        unfold corePolicy; simp [hne, htr, hsi]
      simp [this, carveOut, hsi]
    | true =>
      rw [permit_int_int tr d.rep t htr hsi _ _ hok]
      generalize Mag.div (ratioMag d.period) (ratioMag tp) = sf at *
      cases hi : sf.isInteger with
      | false =>
        have : rd.den ≠ 1 := fun h => by rw [hiff.2 h] at hi; cases hi
        simp [this]
      | true =>
        have hden := hiff.1 hi
        rw [hval hi]
        simp [hden]

/-- The same rule as an equivalence. -/
theorem C17_accept_iff (tp : Period) (tr : Rep) (d : Duration) (htp : tp.Pos) (hdp : d.period.Pos) :
    durationAccepted (ratioMag tp) tr d = true ↔
      tr.isFloat = true ∨
      (∃ t, tr.intTy? = some t ∧ d.rep.isIntegral = true ∧ (ratioDivide d.period tp).den = 1 ∧
        2147 * ((ratioDivide d.period tp).num : Int) ≤ t.hi) := by
  rw [C17_accept_formula tp tr d htp hdp]
  cases tr <;> simp [Rep.intTy?, Rep.isFloat, Rep.fmt?, and_assoc]

/-- Au never accepts a duration that chrono's own converting constructor refuses; for a floating
target both accept everything. -/
theorem C17_accept_implies_chrono (tp : Period) (tr : Rep) (d : Duration) (htp : tp.Pos) (hdp : d.period.Pos)
    (h : durationAccepted (ratioMag tp) tr d = true) :
    chronoConvertible tr tp d.rep d.period = true := by
  rw [C17_accept_formula tp tr d htp hdp] at h
  unfold chronoConvertible
  cases tr <;> simp [Rep.intTy?, Rep.isFloat, Rep.fmt?] at h ⊢
  all_goals
    cases hr : d.rep <;> simp [hr, Rep.isIntegral, Rep.intTy?, Rep.fmt?] at h ⊢
    all_goals exact h.1

/-- Non-vacuity / instances: int32 milliseconds accept int32 seconds (k = 1000) but not int32 hours
(3 600 000·2147 > 2³¹); nanoseconds ← hours has k = 3.6·10¹² > max(int32): refused (this was the
ill-formed region of F2); the threshold sits exactly between k = 1000225 and k = 1000226. -/
example : durationAccepted (ratioMag ⟨1, 1000⟩) .i32 ⟨.i32, ⟨1, 1⟩, .i 0⟩ = true ∧
    durationAccepted (ratioMag ⟨1, 1000⟩) .i32 ⟨.i32, ⟨3600, 1⟩, .i 0⟩ = false ∧
    durationAccepted (ratioMag ⟨1, 1000000000⟩) .i32 ⟨.i32, ⟨3600, 1⟩, .i 0⟩ = false ∧
    durationAccepted (ratioMag ⟨1, 1⟩) .i32 ⟨.i32, ⟨1000225, 1⟩, .i 0⟩ = true ∧
    durationAccepted (ratioMag ⟨1, 1⟩) .i32 ⟨.i32, ⟨1000226, 1⟩, .i 0⟩ = false := by
  decide +kernel

/-! ## Mixed duration / quantity operations -/

/-- **C17, mixed operations.**  For every operation `op ∈ {==, !=, <, <=, >, >=, +, -}`, all four
reps on either side, all positive periods whose chrono conversion factors fit `intmax_t`, and all
counts that are values of their rep: whenever chrono's own computation `d₁ op d₂` is clean (no
undefined behaviour, every intermediate finite, no value-changing narrowing) with result `v`, Au's
mixed operation returns exactly `v` — with the Quantity on the left (any spelling of the unit
seconds × Period₁, in particular `as_quantity(d₁)`) or on the right.  The rounding function `R` is
arbitrary; the two facts `RoundingOK R` are needed only when the common rep is floating. -/
theorem C17_mixed_ops_agree (R : Rounding) (op : Op) (d1 d2 : Duration) (nm : Option String)
    (hR : (Rep.common d1.rep d2.rep).isFloat = true → RoundingOK R)
    (h1 : d1.period.Pos) (h2 : d2.period.Pos)
    (hx1 : d1.count.Holds R d1.rep) (hx2 : d2.count.Holds R d2.rep)
    (hc1 : ((ratioDivide d1.period (chronoCommonPeriod d1.period d2.period)).num : Int) ≤ i64hi)
    (hc2 : ((ratioDivide d2.period (chronoCommonPeriod d1.period d2.period)).num : Int) ≤ i64hi)
    (v : OpVal) (hclean : (chronoOp R op d1 d2).Clean v) :
    mixedOpQD R op ⟨d1.rep, ratioMag d1.period, nm, d1.count⟩ d2 = .ok v ∧
    mixedOpQD R op (asQuantity d1) d2 = .ok v ∧
    mixedOpDQ R op d1 ⟨d2.rep, ratioMag d2.period, nm, d2.count⟩ = .ok v ∧
    mixedOpDQ R op d1 (asQuantity d2) = .ok v := by
  refine ⟨?_, ?_, ?_, ?_⟩
  · exact quantityOp_agree R op _ _ d1 d2 hR rfl rfl rfl (asQuantity_mag d2) rfl rfl h1 h2 hx1 hx2 hc1 hc2 v hclean
  · exact quantityOp_agree R op _ _ d1 d2 hR (asQuantity_mag d1) rfl rfl (asQuantity_mag d2) rfl rfl h1 h2 hx1 hx2 hc1 hc2 v hclean
  · exact quantityOp_agree R op _ _ d1 d2 hR (asQuantity_mag d1) rfl rfl rfl rfl rfl h1 h2 hx1 hx2 hc1 hc2 v hclean
  · exact quantityOp_agree R op _ _ d1 d2 hR (asQuantity_mag d1) rfl rfl (asQuantity_mag d2) rfl rfl h1 h2 hx1 hx2 hc1 hc2 v hclean

/-- **C17, mixed operations, for the driver's rounding function** (IEEE round-to-nearest-even with
gradual underflow, `rne`): no hypothesis about rounding remains — `RoundingOK rne` is proved in
`AuProofs.Lemmas.ChronoRne` (`rne_roundingOK`). -/
theorem C17_mixed_ops_agree_rne (op : Op) (d1 d2 : Duration) (nm : Option String)
    (h1 : d1.period.Pos) (h2 : d2.period.Pos)
    (hx1 : d1.count.Holds rne d1.rep) (hx2 : d2.count.Holds rne d2.rep)
    (hc1 : ((ratioDivide d1.period (chronoCommonPeriod d1.period d2.period)).num : Int) ≤ i64hi)
    (hc2 : ((ratioDivide d2.period (chronoCommonPeriod d1.period d2.period)).num : Int) ≤ i64hi)
    (v : OpVal) (hclean : (chronoOp rne op d1 d2).Clean v) :
    mixedOpQD rne op ⟨d1.rep, ratioMag d1.period, nm, d1.count⟩ d2 = .ok v ∧
    mixedOpQD rne op (asQuantity d1) d2 = .ok v ∧
    mixedOpDQ rne op d1 ⟨d2.rep, ratioMag d2.period, nm, d2.count⟩ = .ok v ∧
    mixedOpDQ rne op d1 (asQuantity d2) = .ok v :=
  C17_mixed_ops_agree rne op d1 d2 nm (fun _ => rne_roundingOK) h1 h2 hx1 hx2 hc1 hc2 v hclean

/-- Non-vacuity with floating reps: `duration<float, ratio<1,60>>{7.5} + Quantity<milli(seconds), int64_t>{3}`:
chrono's computation is clean with result 384 (common rep float, common period 1/3000). -/
example : (chronoOp rne .add ⟨.f32, ⟨1, 60⟩, .f (15 / 2)⟩ ⟨.i64, ⟨1, 1000⟩, .i 3⟩).Clean (.v (.f 384)) ∧
    (Val.f (15 / 2)).Holds rne .f32 ∧
    mixedOpDQ rne .add ⟨.f32, ⟨1, 60⟩, .f (15 / 2)⟩ (asQuantity ⟨.i64, ⟨1, 1000⟩, .i 3⟩) = .ok (.v (.f 384)) := by
  refine ⟨⟨by decide +kernel, by decide +kernel⟩, ⟨Fmt.single, rfl, by decide +kernel⟩, by decide +kernel⟩

/-- Integral reps: no hypothesis about floating point at all. -/
theorem C17_mixed_ops_agree_int (R : Rounding) (op : Op) (d1 d2 : Duration) (nm : Option String)
    (hi1 : d1.rep.isIntegral = true) (hi2 : d2.rep.isIntegral = true)
    (h1 : d1.period.Pos) (h2 : d2.period.Pos)
    (hx1 : d1.count.Holds R d1.rep) (hx2 : d2.count.Holds R d2.rep)
    (hc1 : ((ratioDivide d1.period (chronoCommonPeriod d1.period d2.period)).num : Int) ≤ i64hi)
    (hc2 : ((ratioDivide d2.period (chronoCommonPeriod d1.period d2.period)).num : Int) ≤ i64hi)
    (v : OpVal) (hclean : (chronoOp R op d1 d2).Clean v) :
    mixedOpQD R op (asQuantity d1) d2 = .ok v ∧ mixedOpDQ R op d1 (asQuantity d2) = .ok v := by
  have hR : (Rep.common d1.rep d2.rep).isFloat = true → RoundingOK R := by
    intro h
    cases hr1 : d1.rep <;> cases hr2 : d2.rep <;> simp [hr1, hr2, Rep.isIntegral, Rep.intTy?, Rep.common, Rep.isFloat, Rep.fmt?] at hi1 hi2 h
  have := C17_mixed_ops_agree R op d1 d2 nm hR h1 h2 hx1 hx2 hc1 hc2 v hclean
  exact ⟨this.2.1, this.2.2.2⟩

/-- Non-vacuity: `duration<int32_t, ratio<1,60>>{7} + Quantity<milli(seconds), int32_t>{3}` — chrono's
computation is clean with result 359 (common period 1/3000), all hypotheses hold, and the model's
mixed sum is 359. -/
example : (chronoOp rne .add ⟨.i32, ⟨1, 60⟩, .i 7⟩ ⟨.i32, ⟨1, 1000⟩, .i 3⟩).Clean (.v (.i 359)) ∧
    (Val.i 7).Holds rne .i32 ∧
    ((ratioDivide ⟨1, 60⟩ (chronoCommonPeriod ⟨1, 60⟩ ⟨1, 1000⟩)).num : Int) ≤ i64hi ∧
    mixedOpDQ rne .add ⟨.i32, ⟨1, 60⟩, .i 7⟩ (asQuantity ⟨.i32, ⟨1, 1000⟩, .i 3⟩) = .ok (.v (.i 359)) := by
  refine ⟨⟨by decide +kernel, by decide +kernel⟩, ⟨IntTy.i32, rfl, by decide⟩, by decide +kernel, by decide +kernel⟩

/-- The hypothesis "chrono's computation is clean" cannot be dropped: with int32 reps chrono
multiplies in `intmax_t` and narrows (implementation-defined wrap-around), Au multiplies in
`int32_t` (undefined behaviour).  `duration<int32_t, milli>{2000000000}` vs
`duration<int32_t, micro>{7}`. -/
def C17_mixed_ops_unconditional : Prop :=
  ∀ (op : Op) (d1 d2 : Duration), mixedOpQD rne op (asQuantity d1) d2 = (chronoOp rne op d1 d2).val

theorem C17_mixed_ops_unconditional_counterexample : ¬ C17_mixed_ops_unconditional := by
  intro h
  have := h .add ⟨.i32, ⟨1, 1000⟩, .i 2000000000⟩ ⟨.i32, ⟨1, 1000000⟩, .i 7⟩
  revert this
  decide +kernel

/-! ## Well-formedness of mixed operations -/

/-- A mixed operation is well-formed exactly when the overflow-threshold policy admits both
conversions to the common type: for a floating common rep always; for an integral common rep `t`
iff both scale factors `kᵢ` (integers by `C17_common_period`) satisfy `2147·kᵢ ≤ max(t)`.
(Before the `fix:` commit for finding F2 there was an additional ill-formed region: int32 Quantity
against an int64 duration more than 2³¹ times coarser, e.g. `Quantity<Nano<Seconds>, int32_t>{} <
std::chrono::hours{}`; found by this check, gone with the fix.) -/
theorem C17_mixed_compiles_iff (q : Quantity) (d : Duration) (p1 : Period) (hm : q.mag = ratioMag p1)
    (h1 : p1.Pos) (h2 : d.period.Pos) :
    mixedCompilesQD q d = .ok () ↔
      match (Rep.common q.rep d.rep).intTy? with
      | none => True
      | some t =>
        2147 * ((ratioDivide p1 (chronoCommonPeriod p1 d.period)).num : Int) ≤ t.hi ∧
        2147 * ((ratioDivide d.period (chronoCommonPeriod p1 d.period)).num : Int) ≤ t.hi := by
  obtain ⟨hcm, _, _, _, hk1, hn1, hden1, hk2, hn2, hden2⟩ := common_period_all p1 d.period h1 h2
  have hokc := Mag.ok_common (ok_ratioMag h1) (ok_ratioMag h2)
  have hok1 := Mag.ok_div (ok_ratioMag h1) hokc
  have hok2 := Mag.ok_div (ok_ratioMag h2) hokc
  unfold mixedCompilesQD mixedCompiles commonQuantity
  simp only [hm, asQuantity_mag]
  have hrep : (asQuantity d).rep = d.rep := rfl
  rw [hrep]
  generalize Rep.common q.rep d.rep = cr
  have core : ∀ sf : Mag, Mag.Ok sf → sf.isInteger = true →
      corePolicy cr sf cr = match cr.intTy? with
        | none => true
        | some t => decide (2147 * (sf.natValue : Int) ≤ t.hi) := by
    intro sf hok hi
    cases hcr : cr.intTy? with
    | none => unfold corePolicy; rw [hcr]; split <;> rfl
    | some t =>
      have hint : cr.isIntegral = true := by simp [Rep.isIntegral, hcr]
      have := permit_int_int cr cr t hcr hint [] sf (by rwa [Mag.div_nil])
      rw [Mag.div_nil, hi, Bool.true_and] at this
      unfold permitImplicitFrom at this
      simp only [Mag.div_nil] at this
      by_cases hnil : sf = []
      · subst hnil
        have ht : (2147 : Int) ≤ t.hi := by
          cases cr <;> simp [Rep.intTy?] at hcr <;> subst hcr <;> decide
        simp [corePolicy, Mag.natValue, ht]
      · have hcarve : carveOut cr sf cr = false := by simp [carveOut, hnil]
        rw [hcarve, Bool.or_false] at this
        exact this
  unfold asUnitOnlyOk
  rw [core _ hok1 hk1, core _ hok2 hk2, hn1, hn2]
  cases hcr : cr.intTy? with
  | none => simp
  | some t =>
    simp only []
    by_cases ha : 2147 * ((ratioDivide p1 (chronoCommonPeriod p1 d.period)).num : Int) ≤ t.hi
    · by_cases hb : 2147 * ((ratioDivide d.period (chronoCommonPeriod p1 d.period)).num : Int) ≤ t.hi
      · simp [ha, hb]
      · simp [ha, hb]
    · simp [ha]

example : mixedCompilesQD ⟨.i32, ratioMag ⟨1, 1000000000⟩, none, .i 0⟩ ⟨.i64, ⟨3600, 1⟩, .i 0⟩ = .ok () ∧
    mixedCompilesQD ⟨.i32, ratioMag ⟨1, 1000000000⟩, none, .i 0⟩ ⟨.i32, ⟨3600, 1⟩, .i 0⟩ ≠ .ok () := by
  decide +kernel

end Au.Chrono

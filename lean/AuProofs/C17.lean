import AuModel.Chrono
namespace Au.Chrono

/-- The six special mappings name units whose magnitude is the generic `Seconds × Period` one. -/
theorem C17_special_units_agree (r : Rep) (p : Period) (n : String) (m : Mag)
    (h : special? r p = some (n, m)) : m = ratioMag p := by
  unfold special? at h
  split at h
  · cases h
  · repeat' split at h
    all_goals cases h
    all_goals subst_vars
    all_goals decide +kernel

/-- A duration is implicitly accepted by a quantity type exactly when its corresponding quantity
is: same compile-time outcome (including ill-formedness), for every target and every duration. -/
theorem C17_accept_iff_corresponding (tgtMag : Mag) (tgtRep : Rep) (d : Duration) :
    durationAccepted tgtMag tgtRep d = quantityConvertible tgtMag tgtRep (asQuantity d) := rfl

end Au.Chrono

import AuModel.Label
namespace Au

/-! # C18 — printed labels denote the actual unit -/

theorem digitChar_eq (d : Nat) (h : d < 10) : digitChar d = Nat.digitChar d := by
  have : d = 0 ∨ d = 1 ∨ d = 2 ∨ d = 3 ∨ d = 4 ∨ d = 5 ∨ d = 6 ∨ d = 7 ∨ d = 8 ∨ d = 9 := by omega
  rcases this with rfl|rfl|rfl|rfl|rfl|rfl|rfl|rfl|rfl|rfl <;> decide

theorem uitoaLoop_spec : ∀ (n : Nat) (acc : List Char), uitoaLoop n acc = Nat.toDigits 10 n ++ acc := by
  intro n
  induction n using Nat.strongRecOn with
  | ind n ih =>
    intro acc
    unfold uitoaLoop
    simp only []
    by_cases h : n / 10 > 0
    · simp only [h, if_true]
      rw [ih (n / 10) (by omega)]
      rw [Nat.toDigits_of_base_le (by decide) (by omega : 10 ≤ n)]
      rw [digitChar_eq _ (Nat.mod_lt n (by decide))]
      simp
    · simp only [h, if_false]
      have hlt : n < 10 := by omega
      rw [Nat.toDigits_of_lt_base hlt, Nat.mod_eq_of_lt hlt, digitChar_eq n hlt]
      rfl

/-- **`UIToA<N>` prints exactly the decimal digits of `N`** — for every `N` (no 64-bit bound needed). -/
theorem uitoa_spec (n : Nat) : uitoa n = Nat.toDigits 10 n := by
  unfold uitoa; rw [uitoaLoop_spec]; simp

theorem uitoa_eq_repr (n : Nat) : String.ofList (uitoa n) = toString n := by
  rw [uitoa_spec, Nat.toString_eq_ofList_toDigits]

/-- `IToA<N>`: an optional minus sign followed by the digits of `|N|`. -/
theorem itoa_spec (n : Int) : itoa n = (if n ≥ 0 then [] else ['-']) ++ Nat.toDigits 10 n.natAbs := by
  unfold itoa; rw [uitoa_spec]

theorem stringSizeUnsigned_spec : ∀ n : Nat, stringSizeUnsigned n = (Nat.toDigits 10 n).length := by
  intro n
  induction n using Nat.strongRecOn with
  | ind n ih =>
    unfold stringSizeUnsigned
    by_cases h : n > 9
    · simp only [h, if_true]
      rw [ih (n / 10) (by omega), Nat.toDigits_of_base_le (by decide) (by omega : 10 ≤ n)]
      simp
    · simp only [h, if_false]
      rw [Nat.toDigits_of_lt_base (by omega)]
      rfl

/-- The declared length of `UIToA<N>::value` (`string_size_unsigned(N)`) is its actual length. -/
theorem uitoaSC_consistent (n : Nat) : (uitoaSC n).Consistent := by
  unfold SC.Consistent uitoaSC
  simp [uitoa_spec, stringSizeUnsigned_spec]

theorem itoaSC_consistent (n : Int) : (itoaSC n).Consistent := by
  unfold SC.Consistent itoaSC
  simp only [itoa_spec, List.length_append, stringSizeUnsigned_spec]
  by_cases h : n ≥ 0
  · have : ¬ n < 0 := by omega
    simp [h, this]
  · have : n < 0 := by omega
    simp [h, this]; omega

theorem lit_consistent (s : String) : (SC.lit s).Consistent := by
  unfold SC.Consistent SC.lit; exact String.length_toList

theorem length_intersperse_flatten (sep : List Char) : (ls : List (List Char)) →
    ((ls.intersperse sep).flatten).length =
      (ls.map List.length).sum + sep.length * (if ls.length > 0 then ls.length - 1 else 0)
  | [] => by simp
  | [a] => by simp
  | a :: b :: t => by
    have ih := length_intersperse_flatten sep (b :: t)
    simp only [List.intersperse_cons_cons, List.flatten_cons, List.length_append, List.map_cons, List.sum_cons,
      List.length_cons] at *
    rw [ih]
    simp only [Nat.zero_lt_succ, if_true, Nat.add_sub_cancel]
    rw [Nat.mul_succ]
    omega

/-- **`join` computes its declared length correctly**: if every piece and the separator are
consistent, the joined `StringConstant<N>` has exactly `N` characters (`ExtendedLabel` arithmetic). -/
theorem join_consistent (sep : SC) (items : List SC) (hs : sep.Consistent) (hi : ∀ x ∈ items, x.Consistent) :
    (SC.join sep items).Consistent := by
  unfold SC.Consistent SC.join
  simp only []
  rw [length_intersperse_flatten]
  have h1 : (items.map (·.chars)).map List.length = items.map (·.declared) := by
    rw [List.map_map]
    apply List.map_congr_left
    intro x hx; exact hi x hx
  rw [h1, hs]
  simp

theorem concat_consistent (items : List SC) (hi : ∀ x ∈ items, x.Consistent) : (SC.concat items).Consistent :=
  join_consistent _ _ (lit_consistent "") hi

theorem parensIf_consistent (b : Bool) (s : SC) (h : s.Consistent) : (SC.parensIf b s).Consistent := by
  unfold SC.parensIf
  split <;> apply concat_consistent <;> intro x hx <;> simp at hx <;>
    rcases hx with rfl | rfl | rfl <;> first | exact lit_consistent _ | exact h

/-- Integer scale factors are printed with their exact decimal digits: the label of `U * mag<k>()`
is `"[" ++ digits(k) ++ " " ++ label(U) ++ "]"` whenever `k` fits `uintmax_t`. -/
theorem C18_scaled_integer_digits (lenv : LabelEnv) (fuel : Nat) (u : U) (m : Mag) (k : Int)
    (hint : Mag.isIntegerMag m = true) (hv : getValueResultInt IntTy.u64 m = (.ok, k)) :
    (U.label lenv fuel (.scaled u m)).chars =
      ['['] ++ Nat.toDigits 10 k.toNat ++ [' '] ++ (U.label lenv fuel u).chars ++ [']'] := by
  simp only [U.label, magLabel, hint, Bool.true_or, if_true, hv]
  simp [SC.concat, SC.join, SC.parensIf, SC.lit, uitoaSC, uitoa_spec]

/-- Full-strength "no foreign label" clause (kept visible; FALSE on the code: finding F3). -/
def C18_no_foreign_label_full : Prop :=
  ∀ (env : Env) (lenv : LabelEnv) (fuel : Nat) (u v : U),
    U.label lenv fuel u = U.label lenv fuel v → U.label lenv fuel u ≠ unlabeled →
      (u.dimOf env = v.dimOf env ∧ u.magOf env = v.magOf env)

/-- F3: a struct deriving from a `ScaledUnit` without a `label` of its own (`Rankines`) finds the
unscaled unit's `label` by member lookup and prints "K" although its magnitude is 5/9. -/
theorem C18_no_foreign_label_counterexample : ¬ C18_no_foreign_label_full := by
  intro h
  let env : Env := ⟨fun _ => [(-95, 1)], fun n => if n = 1 then [(.prime 3, -2), (.prime 5, 1)] else []⟩
  let lenv : LabelEnv := ⟨fun n => if n = 0 then .own "K"
    else .inheritedFrom (.scaled (.named 0) [(.prime 3, -2), (.prime 5, 1)])⟩
  have h1 : U.label lenv 3 (.named 1) = SC.lit "K" := by
    simp [U.label, U.inheritedLabel, lenv]
  have h0 : U.label lenv 3 (.named 0) = SC.lit "K" := by
    simp [U.label, lenv]
  have := h env lenv 3 (.named 1) (.named 0) (by rw [h1, h0]) (by rw [h1]; decide)
  have hm := this.2
  simp [U.magOf, env] at hm

/-- A unit that declares its own label prints exactly that label (nothing is inherited). -/
theorem C18_own_label (lenv : LabelEnv) (fuel n : Nat) (s : String) (h : lenv.src n = .own s) :
    U.label lenv fuel (.named n) = SC.lit s := by
  simp [U.label, h]

/-- A named unit with no label anywhere in its inheritance chain prints the generic marker. -/
theorem C18_unlabeled (lenv : LabelEnv) (fuel n : Nat) (h : lenv.src n = .none) :
    U.label lenv fuel (.named n) = unlabeled := by
  simp [U.label, h]

end Au

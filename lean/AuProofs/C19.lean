/-
  Property C19 — ZERO is the exact zero of every unit.

  Every theorem is about the executable model `AuModel.Zero` (the functions the compiled driver
  runs) and quantifies over *every* unit identifier, every rep, every comparison operator and every
  value an object of the rep can hold (all integers of the type's range; all IEEE values of the
  format, including NaN, ±inf, ±0 and subnormals) — no bounds.
-/
import AuProofs.Lemmas.Zero
namespace Au
open Au.Zero

/-! ## Statement-level notions (independent of how the model computes)

`Val.signClass` classifies the *exact* value against the number 0 (NaN is unordered);
`SignClass.cmp0 c op` is "`x op 0`" and `SignClass.cmp0' c op` is "`0 op x`" in exact arithmetic.
For integer reps these are literally the integer comparisons (`C19_compare_int`). -/

/-- Numerical equality as `==` computes it between two values of possibly different integer types
(in their common type, which holds both exactly) or two floats of one format (IEEE `==`). -/
def numEq : Val → Val → Bool
  | .int _ a, .int _ b => decide (a = b)
  | .flt f a, .flt f' b => decide (f = f') && fEq a b
  | _, _ => false

/-- Same value up to the sign of a zero; NaN corresponds to NaN (what "adding the exact number 0"
gives in IEEE arithmetic). -/
def sameNumber : Val → Val → Prop
  | .int _ a, .int _ b => a = b
  | .flt f a, .flt f' b =>
    f = f' ∧ (a = b ∨ (a.signClass = .zero ∧ b.signClass = .zero))
  | _, _ => False

/-! ## Comparisons -/

/-- **C19, comparisons, `q op ZERO`.**  For every unit, rep, stored value (well-formed or not) and
each of the six operators, `q op ZERO` is accepted, resolves through `Quantity(Zero)` and the
same-type friend, and yields the exact comparison of the stored value with the number 0. -/
theorem C19_compare (u : UnitId) (v : Val) (op : CmpOp) :
    binop (.cmp op) (.qty ⟨u, v⟩) .zero = .ok (.bool (v.signClass.cmp0 op)) := by
  cases v with
  | int t x =>
    simp only [binop, convertZero, Val.rep, lit0, qtyFriend, valCmp, if_true]
    rw [intCmp_zero_right]
  | flt f x =>
    simp only [binop, convertZero, Val.rep, lit0, qtyFriend, valCmp, if_true]
    rw [fCmp_zero_right]; rfl

/-- **C19, comparisons, `ZERO op q`.** -/
theorem C19_compare_symm (u : UnitId) (v : Val) (op : CmpOp) :
    binop (.cmp op) .zero (.qty ⟨u, v⟩) = .ok (.bool (v.signClass.cmp0' op)) := by
  cases v with
  | int t x =>
    simp only [binop, convertZero, Val.rep, lit0, qtyFriend, valCmp, if_true]
    rw [intCmp_zero_left]
  | flt f x =>
    simp only [binop, convertZero, Val.rep, lit0, qtyFriend, valCmp, if_true]
    rw [fCmp_zero_left]; rfl

/-- For integer reps the right-hand sides are literally `x op 0` and `0 op x` in ℤ. -/
theorem C19_compare_int (u : UnitId) (t : IntTy) (x : Int) (op : CmpOp) :
    binop (.cmp op) (.qty ⟨u, .int t x⟩) .zero = .ok (.bool (intCmp op x 0)) ∧
    binop (.cmp op) .zero (.qty ⟨u, .int t x⟩) = .ok (.bool (intCmp op 0 x)) := by
  rw [C19_compare, C19_compare_symm, ← intCmp_zero_right, ← intCmp_zero_left]
  exact ⟨rfl, rfl⟩

/-- For floating reps: NaN compares unequal and unordered; every other value compares as its sign. -/
theorem C19_compare_flt (u : UnitId) (f : FltTy) (x : FVal) (op : CmpOp) :
    binop (.cmp op) (.qty ⟨u, .flt f x⟩) .zero = .ok (.bool (x.signClass.cmp0 op)) ∧
    binop (.cmp op) .zero (.qty ⟨u, .flt f x⟩) = .ok (.bool (x.signClass.cmp0' op)) :=
  ⟨C19_compare u _ op, C19_compare_symm u _ op⟩

example : binop (.cmp .lt) (.qty ⟨7, .int .i8 (-128)⟩) .zero = .ok (.bool true) := by decide
example : binop (.cmp .ge) (.qty ⟨7, .flt .f32 (.fin true 0 0)⟩) .zero = .ok (.bool true) := by decide
example : binop (.cmp .ne) (.qty ⟨7, .flt .f80 .nan⟩) .zero = .ok (.bool true) := by decide
example : binop (.cmp .le) .zero (.qty ⟨7, .flt .f32 (.fin false 1 (-149))⟩) = .ok (.bool true) := by decide

/-- The Zero–Zero operators agree with comparing / adding the number 0 with itself. -/
theorem C19_zero_zero (op : CmpOp) :
    binop (.cmp op) .zero .zero = .ok (.bool (intCmp op 0 0)) ∧
    binop (.ar .add) .zero .zero = .ok .zero ∧ binop (.ar .sub) .zero .zero = .ok .zero := by
  cases op <;> exact ⟨rfl, rfl, rfl⟩

/-! ## Addition and subtraction -/

/-- **C19, `q + ZERO`, `q - ZERO`, `ZERO + q` for integer reps.**  Accepted, free of undefined
behaviour and of unsigned wrap-around, the result is a quantity of the same unit whose rep is the
promoted type (`decltype(Rep + Rep)`) and whose value is exactly the stored value. -/
theorem C19_add_sub_int (u : UnitId) (t : IntTy) (ht : t ∈ IntTy.all) (x : Int)
    (hx : t.inRange x) :
    binop (.ar .add) (.qty ⟨u, .int t x⟩) .zero = .ok (.qty ⟨u, .int t.promote x⟩) ∧
    binop (.ar .sub) (.qty ⟨u, .int t x⟩) .zero = .ok (.qty ⟨u, .int t.promote x⟩) ∧
    binop (.ar .add) .zero (.qty ⟨u, .int t x⟩) = .ok (.qty ⟨u, .int t.promote x⟩) := by
  obtain ⟨h1, h2, h3⟩ := addIn_zero t ht x hx
  simp only [binop, convertZero, Val.rep, lit0, qtyFriend, valArith, if_true, h1, h2, h3, and_self]

/-- **C19, `q + ZERO`, `q - ZERO`, `ZERO + q` for floating reps.**  The result has the same unit
and rep; `q - ZERO` is `q` bit for bit; `q + ZERO` and `ZERO + q` are `q` bit for bit except that
`-0.0 + ZERO` is `+0.0` (IEEE), which compares equal to `-0.0`.  NaN stays NaN, ±inf stay ±inf. -/
theorem C19_add_sub_flt (u : UnitId) (f : FltTy) (x : FVal) (hx : x.wf f) :
    binop (.ar .sub) (.qty ⟨u, .flt f x⟩) .zero = .ok (.qty ⟨u, .flt f x⟩) ∧
    binop (.ar .add) (.qty ⟨u, .flt f x⟩) .zero
      = .ok (.qty ⟨u, .flt f (if x = .fin true 0 0 then .fin false 0 0 else x)⟩) ∧
    binop (.ar .add) .zero (.qty ⟨u, .flt f x⟩)
      = .ok (.qty ⟨u, .flt f (if x = .fin true 0 0 then .fin false 0 0 else x)⟩) := by
  simp only [binop, convertZero, Val.rep, lit0, qtyFriend, valArith, if_true,
    fSub_zero_right f x hx, fAdd_zero_right f x hx, fAdd_zero_left f x hx, and_self]

/-- The rep of `q ± ZERO`. -/
def sumRep : Rep → Rep
  | .int t => .int t.promote
  | .flt f => .flt f

/-- **C19, addition (all reps, one statement).**  For every unit and every value an object of the
rep can hold, `q + ZERO`, `q - ZERO` and `ZERO + q` are accepted, are quantities of the same unit,
have rep `decltype(Rep ± Rep)` and hold the same number as `q`. -/
theorem C19_add_sub (u : UnitId) (v : Val) (hv : v.wf) (lhs rhs : Value) (o : ArOp)
    (h : (lhs = .qty ⟨u, v⟩ ∧ rhs = .zero) ∨ (lhs = .zero ∧ rhs = .qty ⟨u, v⟩ ∧ o = .add)) :
    ∃ w : Val, binop (.ar o) lhs rhs = .ok (.qty ⟨u, w⟩) ∧ w.rep = sumRep v.rep ∧
      sameNumber w v := by
  cases v with
  | int t x =>
    obtain ⟨ht, hx⟩ := hv
    obtain ⟨h1, h2, h3⟩ := C19_add_sub_int u t ht x hx
    refine ⟨.int t.promote x, ?_, rfl, rfl⟩
    rcases h with ⟨rfl, rfl⟩ | ⟨rfl, rfl, rfl⟩
    · cases o
      · exact h1
      · exact h2
    · exact h3
  | flt f x =>
    obtain ⟨h1, h2, h3⟩ := C19_add_sub_flt u f x hv
    rcases h with ⟨rfl, rfl⟩ | ⟨rfl, rfl, rfl⟩
    · cases o
      · refine ⟨_, h2, rfl, rfl, ?_⟩
        by_cases hz : x = .fin true 0 0
        · subst hz; right; exact ⟨rfl, rfl⟩
        · left; simp [hz]
      · exact ⟨_, h1, rfl, rfl, Or.inl rfl⟩
    · refine ⟨_, h3, rfl, rfl, ?_⟩
      by_cases hz : x = .fin true 0 0
      · subst hz; right; exact ⟨rfl, rfl⟩
      · left; simp [hz]

example : binop (.ar .add) (.qty ⟨2, .int .u8 255⟩) .zero = .ok (.qty ⟨2, .int .i32 255⟩) := by decide
example : binop (.ar .sub) (.qty ⟨2, .int .i64 (-9223372036854775808)⟩) .zero
    = .ok (.qty ⟨2, .int .i64 (-9223372036854775808)⟩) := by decide
example : binop (.ar .add) (.qty ⟨2, .flt .f32 (.fin true 0 0)⟩) .zero
    = .ok (.qty ⟨2, .flt .f32 (.fin false 0 0)⟩) := by decide
example : (Val.flt .f32 (.fin false 16777215 104)).wf := by decide
example : (Val.flt .f64 (.fin true 1 (-1074))).wf := by decide

/-- The literal reading "`(q + ZERO) == q` is true" of the property's addition clause. -/
def C19_add_eq_full : Prop :=
  ∀ (u : UnitId) (v : Val), v.wf → ∀ w, binop (.ar .add) (.qty ⟨u, v⟩) .zero = .ok (.qty ⟨u, w⟩) →
    numEq w v = true

/-- It is false exactly because IEEE NaN is unequal to itself: no implementation of `+` could
satisfy it. -/
theorem C19_add_eq_counterexample : ¬ C19_add_eq_full := by
  intro h
  have := h 0 (.flt .f64 .nan) (by decide) (.flt .f64 .nan) (by decide)
  exact absurd this (by decide)

/-- … and it holds for every value that is not NaN (integers of every rep; ±inf, ±0, normal and
subnormal floats), for `+` and `-` alike. -/
theorem C19_add_eq_partial (u : UnitId) (v : Val) (hv : v.wf) (hn : v.signClass ≠ .nan)
    (o : ArOp) (w : Val) (h : binop (.ar o) (.qty ⟨u, v⟩) .zero = .ok (.qty ⟨u, w⟩)) :
    numEq w v = true := by
  obtain ⟨w', hw, -, hs⟩ := C19_add_sub u v hv _ _ o (Or.inl ⟨rfl, rfl⟩)
  rw [hw] at h
  have : w' = w := by injection h with h; injection h with h; injection h
  subst this
  cases v with
  | int t x =>
    cases w' with
    | int t' y => simpa [numEq, sameNumber] using hs
    | flt _ _ => exact absurd hs (by simp [sameNumber])
  | flt f x =>
    cases w' with
    | int _ _ => exact absurd hs (by simp [sameNumber])
    | flt f' y =>
      obtain ⟨hf, hxy⟩ := hs
      subst hf
      simp only [numEq, decide_true, Bool.true_and]
      rcases hxy with rfl | ⟨hy, hx⟩
      · have := fCmp_zero_right .eq y
        cases y with
        | nan => exact absurd rfl hn
        | inf s => cases s <;> rfl
        | fin s m e => simp [fEq]
      · cases x with
        | nan => simp [FVal.signClass] at hx
        | inf s => cases s <;> simp [FVal.signClass] at hx
        | fin s m e =>
          cases y with
          | nan => simp [FVal.signClass] at hy
          | inf s' => cases s' <;> simp [FVal.signClass] at hy
          | fin s' m' e' =>
            have hm : m = 0 := by
              by_cases hm : m = 0
              · exact hm
              · cases s <;> simp [FVal.signClass, hm] at hx
            have hm' : m' = 0 := by
              by_cases hm' : m' = 0
              · exact hm'
              · cases s' <;> simp [FVal.signClass, hm'] at hy
            subst hm hm'
            simp [fEq, scaled_zero]

example : numEq (.flt .f32 (.fin false 0 0)) (.flt .f32 (.fin true 0 0)) = true := by decide

/-! ## Initialisation and conversions -/

/-- The number 0 in rep `r`, as a statement-level predicate. -/
def isExactZero (r : Rep) (v : Val) : Prop := v.rep = r ∧ v.signClass = .zero ∧ v.wf

/-- **C19, initialisation.**  At every kind of site that requires a `Quantity<U, R>`, `ZERO` is
accepted and the resulting quantity, read back in its own unit, is the number 0 of the rep
(`+0.0` for floating reps); it compares equal to 0 and to ZERO. -/
theorem C19_init (s : Site) (u : UnitId) (r : Rep) (hr : r ∈ Rep.all) :
    ∃ q : Qty, atSite s (.qty u r) = .ok (.qty q) ∧ q.unit = u ∧ q.inOwnUnit = lit0 r ∧
      isExactZero r q.inOwnUnit ∧
      binop (.cmp .eq) (.qty q) .zero = .ok (.bool true) := by
  refine ⟨⟨u, lit0 r⟩, rfl, rfl, rfl, ?_, ?_⟩
  · cases r with
    | int t =>
      refine ⟨rfl, rfl, ?_, ?_⟩
      · simp only [Rep.all, List.mem_append, List.mem_map] at hr
        rcases hr with ⟨t', ht', h⟩ | ⟨f, _, h⟩
        · injection h with h; subst h; exact ht'
        · cases h
      · simp only [Rep.all, List.mem_append, List.mem_map] at hr
        rcases hr with ⟨t', ht', h⟩ | ⟨f, _, h⟩
        · injection h with h; subst h
          rcases intTy_cases t' ht' with rfl|rfl|rfl|rfl|rfl|rfl|rfl|rfl <;> decide
        · cases h
    | flt f => exact ⟨rfl, rfl, by simp [Val.wf, FVal.wf, Qty.inOwnUnit, lit0]⟩
  · rw [C19_compare]
    cases r <;> rfl

/-- **C19, arithmetic types and chrono durations.**  `ZERO` converts to every arithmetic rep as
the number 0 of that rep, and to `std::chrono::duration<Rep, std::ratio<num, den>>` — for every
rep and every period — as the duration whose count is the number 0 of the rep. -/
theorem C19_arith_and_chrono_zero (r : Rep) (hr : r ∈ Rep.all) (num den : Nat) :
    convertZero (.arith r) = .ok (.arith (lit0 r)) ∧
    convertZero (.duration r num den) = .ok (.duration num den (lit0 r)) ∧
    isExactZero r (lit0 r) := by
  refine ⟨rfl, rfl, ?_⟩
  obtain ⟨q, _, _, h3, h4, _⟩ := C19_init .copyInit 0 r hr
  rw [h3] at h4
  exact h4

example : convertZero (.arith (.int .u64)) = .ok (.arith (.int .u64 0)) := by decide
example : convertZero (.duration (.flt .f32) 1 1000) = .ok (.duration 1 1000 (.flt .f32 (.fin false 0 0))) := by
  decide

/-! ## Quantity points -/

/-- **C19, negative half (gate table).**  Wherever a `QuantityPoint<U, R>` is required — each kind
of initialisation, assignment, argument, return value, cast, either operand of the six same-type
comparisons, the minuend of point − point — supplying `ZERO` selects the deleted constructor
`QuantityPoint(Zero)`: the program is ill-formed, for every unit, rep and value. -/
theorem C19_point_rejected (u : UnitId) (r : Rep) :
    (∀ s : Site, atSite s (.point u r) = .hard .deleted) ∧
    (∀ (op : CmpOp) (v : Val), binop (.cmp op) (.point ⟨u, v⟩) .zero = .hard .deleted ∧
        binop (.cmp op) .zero (.point ⟨u, v⟩) = .hard .deleted) ∧
    (∀ v : Val, binop (.ar .sub) .zero (.point ⟨u, v⟩) = .hard .deleted) :=
  ⟨fun _ => rfl, fun _ _ => ⟨rfl, rfl⟩, fun _ => rfl⟩

/-- Never accepted: no site yields a value. -/
theorem C19_point_never_ok (s : Site) (u : UnitId) (r : Rep) (v : Value) :
    atSite s (.point u r) ≠ .ok v := by
  intro h; cases h

/-- The same sites accept ZERO for a quantity (the rejection is specific to points). -/
example : atSite .argument (.qty 3 (.int .i16)) = .ok (.qty ⟨3, .int .i16 0⟩) := by decide
example : atSite .argument (.point 3 (.int .i16)) = .hard .deleted := by decide

/-! ## Proof-extension round: further entry points -/

/-- **C19, compound assignment.**  `q += ZERO` and `q -= ZERO` are accepted (the operand slot is
a `Quantity`, filled through `Quantity(Zero)`), free of UB and wrap, and leave a quantity of the
same unit *and the same rep* holding the same number: bit-identical for integers and for `-=`;
`+=` turns `-0.0` into `+0.0`. -/
theorem C19_compound (u : UnitId) (v : Val) (hv : v.wf) (o : ArOp) :
    ∃ w : Val, compoundWithZero o ⟨u, v⟩ = .ok (.qty ⟨u, w⟩) ∧ w.rep = v.rep ∧ sameNumber w v ∧
      (w = v ∨ (o = .add ∧ v.signClass = .zero)) := by
  cases v with
  | int t x =>
    obtain ⟨ht, hx⟩ := hv
    obtain ⟨h1, h2, _⟩ := addIn_zero t ht x hx
    refine ⟨.int t x, ?_, rfl, rfl, Or.inl rfl⟩
    cases o <;>
      simp [compoundWithZero, convertZero, Val.rep, lit0, qtyCompound, valArith, h1, h2, castTo,
        wrap_id t ht x hx]
  | flt f x =>
    cases o with
    | add =>
      refine ⟨.flt f (if x = .fin true 0 0 then .fin false 0 0 else x), ?_, rfl, ?_, ?_⟩
      · simp [compoundWithZero, convertZero, Val.rep, lit0, qtyCompound, valArith, castTo,
          fAdd_zero_right f x hv]
      · by_cases hz : x = .fin true 0 0
        · subst hz; exact ⟨rfl, Or.inr ⟨rfl, rfl⟩⟩
        · simp [hz, sameNumber]
      · by_cases hz : x = .fin true 0 0
        · subst hz; exact Or.inr ⟨rfl, rfl⟩
        · simp [hz]
    | sub =>
      refine ⟨.flt f x, ?_, rfl, ⟨rfl, Or.inl rfl⟩, Or.inl rfl⟩
      simp [compoundWithZero, convertZero, Val.rep, lit0, qtyCompound, valArith, castTo,
        fSub_zero_right f x hv]

example : compoundWithZero .add ⟨4, .int .i8 (-128)⟩ = .ok (.qty ⟨4, .int .i8 (-128)⟩) := by decide
example : compoundWithZero .sub ⟨4, .flt .f32 (.fin true 0 0)⟩ = .ok (.qty ⟨4, .flt .f32 (.fin true 0 0)⟩) := by
  decide

/-- **C19, reading the value back.**  All four spellings of "the value in the quantity's own unit"
(`in(u)`, `in(maker)`, `in<Rep>(u)`, `data_in(u)`) return the stored value; for a quantity
initialised from ZERO that is the exact zero of the rep. -/
theorem C19_read_back (u : UnitId) (v : Val) (hv : v.wf) :
    (⟨u, v⟩ : Qty).inOwnUnit = v ∧ (⟨u, v⟩ : Qty).inViaMaker = v ∧ (⟨u, v⟩ : Qty).dataIn = v ∧
    (⟨u, v⟩ : Qty).inRepExplicit = some v := by
  refine ⟨rfl, rfl, rfl, ?_⟩
  cases v with
  | int t x => simp [Qty.inRepExplicit, Val.rep, castTo, wrap_id t hv.1 x hv.2]
  | flt f x => simp [Qty.inRepExplicit, Val.rep, castTo]

theorem C19_init_read_back (s : Site) (u : UnitId) (r : Rep) (hr : r ∈ Rep.all) :
    ∃ q : Qty, atSite s (.qty u r) = .ok (.qty q) ∧ q.inOwnUnit = lit0 r ∧ q.inViaMaker = lit0 r ∧
      q.dataIn = lit0 r ∧ q.inRepExplicit = some (lit0 r) := by
  obtain ⟨q, h1, _, h3, h4, _⟩ := C19_init s u r hr
  have hq : q = ⟨q.unit, q.val⟩ := rfl
  have hv : q.val = lit0 r := h3
  have hw : q.val.wf := h4.2.2
  obtain ⟨a, b, c, d⟩ := C19_read_back q.unit q.val hw
  exact ⟨q, h1, h3, by rw [← hv]; exact b, by rw [← hv]; exact c, by rw [← hv]; exact d⟩

example : (⟨1, .int .u16 65535⟩ : Qty).inRepExplicit = some (.int .u16 65535) := by decide

/-- **C19, the point side beyond rejection.**  `p + ZERO` and `ZERO + p` are accepted — the other
operand of the point's `operator+` is a *quantity* (`Diff`) slot — and give a point of the same
unit and the same rep holding the same number (`-0.0` becomes `+0.0`). -/
theorem C19_point_plus_zero (u : UnitId) (v : Val) (hv : v.wf) (dLeft : Bool) :
    ∃ w : Val, pointPlusZero dLeft ⟨u, v⟩ = .ok (.point ⟨u, w⟩) ∧ w.rep = v.rep ∧ sameNumber w v ∧
      (w = v ∨ v.signClass = .zero) := by
  cases v with
  | int t x =>
    obtain ⟨ht, hx⟩ := hv
    obtain ⟨h1, _, h3⟩ := addIn_zero t ht x hx
    refine ⟨.int t x, ?_, rfl, rfl, Or.inl rfl⟩
    cases dLeft <;>
      simp [pointPlusZero, convertZero, Val.rep, lit0, ptPlusDiff, qtyFriend, valArith, h1, h3, castTo,
        wrap_id t ht x hx]
  | flt f x =>
    refine ⟨.flt f (if x = .fin true 0 0 then .fin false 0 0 else x), ?_, rfl, ?_, ?_⟩
    · cases dLeft <;>
        simp [pointPlusZero, convertZero, Val.rep, lit0, ptPlusDiff, qtyFriend, valArith, castTo,
          fAdd_zero_right f x hv, fAdd_zero_left f x hv]
    · by_cases hz : x = .fin true 0 0
      · subst hz; exact ⟨rfl, Or.inr ⟨rfl, rfl⟩⟩
      · simp [hz, sameNumber]
    · by_cases hz : x = .fin true 0 0
      · subst hz; exact Or.inr rfl
      · simp [hz]

/-- The older `binop` clause for `p + ZERO` yields the same number (it keeps the promoted rep of
the intermediate sum; `pointPlusZero` adds the conversion back to `Rep`). -/
theorem C19_point_plus_zero_binop (u : UnitId) (v : Val) (hv : v.wf) :
    ∃ w : Val, binop (.ar .add) (.point ⟨u, v⟩) .zero = .ok (.point ⟨u, w⟩) ∧ sameNumber w v ∧
    ∃ w' : Val, binop (.ar .add) .zero (.point ⟨u, v⟩) = .ok (.point ⟨u, w'⟩) ∧ sameNumber w' v := by
  obtain ⟨w, h1, _, hs⟩ := C19_add_sub u v hv (.qty ⟨u, v⟩) .zero .add (Or.inl ⟨rfl, rfl⟩)
  obtain ⟨w', h2, _, hs'⟩ := C19_add_sub u v hv .zero (.qty ⟨u, v⟩) .add (Or.inr ⟨rfl, rfl, rfl⟩)
  simp only [binop, convertZero] at h1 h2 ⊢
  refine ⟨w, ?_, hs, w', ?_, hs'⟩
  · rw [h1]
  · rw [h2]

example : pointPlusZero false ⟨9, .int .u8 255⟩ = .ok (.point ⟨9, .int .u8 255⟩) := by decide
example : pointPlusZero true ⟨9, .flt .f64 (.inf true)⟩ = .ok (.point ⟨9, .flt .f64 (.inf true)⟩) := by decide

/-! ## `ZERO - q` -/

/-- "`ZERO - q` is `-q` without undefined behaviour", for every value. -/
def C19_zero_minus_full : Prop :=
  ∀ (u : UnitId) (v : Val), v.wf → ∃ w, binop (.ar .sub) .zero (.qty ⟨u, v⟩) = .ok (.qty ⟨u, w⟩)

/-- False: `ZERO - q` at the minimum of a 32/64-bit signed rep is `0 - INT_MIN` (signed overflow).
Inherent to two's complement negation; the statement of C19 does not name this expression. -/
theorem C19_zero_minus_counterexample : ¬ C19_zero_minus_full := by
  intro h
  obtain ⟨w, hw⟩ := h 0 (.int .i32 (-2147483648)) (by decide)
  have e : binop (.ar .sub) .zero (.qty ⟨0, .int .i32 (-2147483648)⟩)
      = .ub "signed overflow in subtraction" := by decide
  rw [e] at hw
  cases hw

/-- Everywhere else `ZERO - q` is accepted and is exactly `-q` in `decltype(R - R)`: integers whose
promoted type is signed, except that type's minimum; every float (`(+0.0) - (+0.0) = +0.0`). -/
theorem C19_zero_minus_partial (u : UnitId) :
    (∀ (t : IntTy) (x : Int), t ∈ IntTy.all → t.inRange x → t.promote.signed = true → x ≠ t.promote.lo →
      binop (.ar .sub) .zero (.qty ⟨u, .int t x⟩) = .ok (.qty ⟨u, .int t.promote (-x)⟩)) ∧
    (∀ (f : FltTy) (x : FVal), x.wf f →
      binop (.ar .sub) .zero (.qty ⟨u, .flt f x⟩)
        = .ok (.qty ⟨u, .flt f (if x = .fin false 0 0 then .fin false 0 0 else fNeg x)⟩)) := by
  constructor
  · intro t x ht hx hs hm
    simp [binop, convertZero, Val.rep, lit0, qtyFriend, valArith, subIn_zero_left t ht x hx hs hm]
  · intro f x hx
    simp [binop, convertZero, Val.rep, lit0, qtyFriend, valArith, fSub_zero_left f x hx]

example : binop (.ar .sub) .zero (.qty ⟨1, .int .i8 (-128)⟩) = .ok (.qty ⟨1, .int .i32 128⟩) := by decide
example : binop (.ar .sub) .zero (.qty ⟨1, .int .i64 (-9223372036854775808)⟩)
    = .ub "signed overflow in subtraction" := by decide

/-! ## Unit independence

`ZERO` never needs a unit conversion: in the model the unit is an identifier that the anchored code
only carries along.  Formally, every expression mixing `ZERO` with one quantity or point commutes
with an arbitrary relabelling of units — so no property of the unit (its dimension, its magnitude,
rational or irrational, its origin) can influence the result, and in particular no magnitude is
ever applied: nothing can overflow or truncate. -/

def relabelValue (g : UnitId → UnitId) : Value → Value
  | .qty q => .qty ⟨g q.unit, q.val⟩
  | .point p => .point ⟨g p.unit, p.val⟩
  | v => v

def relabelOutcome (g : UnitId → UnitId) : Outcome → Outcome
  | .ok v => .ok (relabelValue g v)
  | o => o

def relabelTy (g : UnitId → UnitId) : Ty → Ty
  | .qty u r => .qty (g u) r
  | .point u r => .point (g u) r
  | t => t

theorem C19_unit_independent_convert (g : UnitId → UnitId) (s : Site) (t : Ty) :
    atSite s (relabelTy g t) = relabelOutcome g (atSite s t) := by
  cases t <;> rfl

theorem qtyFriend_relabel (g : UnitId → UnitId) (op : BinOp) (u : UnitId) (a b : Val) :
    qtyFriend op ⟨g u, a⟩ ⟨g u, b⟩ = relabelOutcome g (qtyFriend op ⟨u, a⟩ ⟨u, b⟩) := by
  unfold qtyFriend
  simp only [if_true]
  cases op with
  | cmp c =>
    dsimp only
    cases h : valCmp c a b <;> rfl
  | ar o =>
    dsimp only
    cases h : valArith o a b with
    | none => rfl
    | some e => cases e <;> rfl

/-- **C19, unit independence.**  For every relabelling `g` of units, every operator and value:
`q op ZERO`, `ZERO op q`, `q ± ZERO`, `ZERO ± q`, the compound assignments, `p + ZERO`, `ZERO + p`
and the (rejected) point comparisons give, for unit `g u`, exactly the outcome for unit `u`
relabelled. -/
theorem C19_unit_independent (g : UnitId → UnitId) (op : BinOp) (u : UnitId) (v : Val) :
    binop op (.qty ⟨g u, v⟩) .zero = relabelOutcome g (binop op (.qty ⟨u, v⟩) .zero) ∧
    binop op .zero (.qty ⟨g u, v⟩) = relabelOutcome g (binop op .zero (.qty ⟨u, v⟩)) ∧
    binop op (.point ⟨g u, v⟩) .zero = relabelOutcome g (binop op (.point ⟨u, v⟩) .zero) ∧
    binop op .zero (.point ⟨g u, v⟩) = relabelOutcome g (binop op .zero (.point ⟨u, v⟩)) := by
  refine ⟨?_, ?_, ?_, ?_⟩
  · simp only [binop, convertZero]; exact qtyFriend_relabel g op u v _
  · simp only [binop, convertZero]; exact qtyFriend_relabel g op u _ v
  · cases op with
    | cmp c => rfl
    | ar o =>
      cases o with
      | sub => rfl
      | add =>
        simp only [binop, convertZero]
        rw [qtyFriend_relabel g (.ar .add) u v _]
        cases h : qtyFriend (.ar .add) ⟨u, v⟩ ⟨u, lit0 v.rep⟩ with
        | ok w => cases w <;> rfl
        | ub _ => rfl
        | hard _ => rfl
  · cases op with
    | cmp c => rfl
    | ar o =>
      cases o with
      | sub => rfl
      | add =>
        simp only [binop, convertZero]
        rw [qtyFriend_relabel g (.ar .add) u _ v]
        cases h : qtyFriend (.ar .add) ⟨u, lit0 v.rep⟩ ⟨u, v⟩ with
        | ok w => cases w <;> rfl
        | ub _ => rfl
        | hard _ => rfl

theorem C19_unit_independent_extra (g : UnitId → UnitId) (o : ArOp) (u : UnitId) (v : Val) (dLeft : Bool) :
    compoundWithZero o ⟨g u, v⟩ = relabelOutcome g (compoundWithZero o ⟨u, v⟩) ∧
    pointPlusZero dLeft ⟨g u, v⟩ = relabelOutcome g (pointPlusZero dLeft ⟨u, v⟩) := by
  constructor
  · simp only [compoundWithZero, convertZero, qtyCompound, if_true]
    cases h : valArith o v (lit0 v.rep) with
    | none => rfl
    | some e =>
      cases e with
      | ub _ => rfl
      | ok w => cases h2 : castTo v.rep w <;> simp [relabelOutcome, relabelValue, h2]
  · simp only [pointPlusZero, convertZero, ptPlusDiff]
    cases dLeft
    · simp only [Bool.false_eq_true, if_false]
      rw [qtyFriend_relabel g (.ar .add) u v _]
      cases h : qtyFriend (.ar .add) ⟨u, v⟩ ⟨u, lit0 v.rep⟩ with
      | ok w =>
        cases w with
        | qty s => cases h2 : castTo v.rep s.val <;> simp [relabelOutcome, relabelValue, h2]
        | _ => rfl
      | ub _ => rfl
      | hard _ => rfl
    · simp only [if_true]
      rw [qtyFriend_relabel g (.ar .add) u _ v]
      cases h : qtyFriend (.ar .add) ⟨u, lit0 v.rep⟩ ⟨u, v⟩ with
      | ok w =>
        cases w with
        | qty s => cases h2 : castTo v.rep s.val <;> simp [relabelOutcome, relabelValue, h2]
        | _ => rfl
      | ub _ => rfl
      | hard _ => rfl

/-- Non-vacuity: a relabelling that is not even injective. -/
example : binop (.cmp .lt) (.qty ⟨(fun _ => 7) 3, .int .i8 (-1)⟩) .zero
    = relabelOutcome (fun _ => 7) (binop (.cmp .lt) (.qty ⟨3, .int .i8 (-1)⟩) .zero) := by decide

end Au

/-
  C20 — behaviour is independent of packaging: the part that is a theorem.

  `tools/bin/make-single-file` (model: AuModel/SingleFile.lean) decides WHICH files end up in the
  single-file header and IN WHICH ORDER.  For every finite include graph that is acyclic, has no
  duplicated include line and no dangling include, and for every selection of existing files:

    * the script terminates (both loops; the stated iteration bounds suffice)     C20_terminates
    * the emitted files are exactly the reflexive-transitive include closure of
      the selection (au.hh, the chosen units and constants, io.hh unless --noio)  C20_closure
    * every file is emitted exactly once                                          C20_once
    * every file is emitted after all the files it includes                       C20_topological

  so the concatenation presents each definition once, after everything it needs — which is what the
  preprocessor produces from the multi-header tree under `#pragma once`.  Without the
  "no duplicated include line" premise the statement is FALSE for the script as written
  (`C20_full_counterexample`: the `while unvisited_deps:` loop never exits).

  That the repository's real include graph satisfies the premises is checked on every run
  (AuProofs/Gen/C20.lean over lean/Generated/IncludeGraph.lean); that the model is the script is
  checked on every run by tools/p_c20.py (real script vs. `audriver` on the real tree and on random
  graphs).  Everything about compilers and language standards is correspondence only.
-/
import AuProofs.Lemmas.SingleFile
namespace Au
open SingleFile Relation

/-- The premises on the include graph. -/
structure C20_WellFormed (g : Graph) : Prop where
  /-- every `#include "au/…"` names an existing file -/
  targets : TargetsExist g
  /-- no file has the same project include twice -/
  nodup : IncNodup g
  /-- no include cycle -/
  acyclic : NoCycle g

/-- The conclusion: `order` is exactly the closure of `names`, once each, includes first. -/
def C20_Spec (g : Graph) (names order : List File) : Prop :=
  order.Nodup ∧ (∀ f, f ∈ order ↔ Reachable g names f) ∧
  (∀ a f b, order = a ++ f :: b → ∀ h, Edge g f h → h ∈ a)

/-- **Main theorem.**  On every well-formed graph and every selection of existing files the model
of the script terminates within its stated bounds and its output satisfies `C20_Spec`. -/
theorem C20_emit_spec (g : Graph) (hg : C20_WellFormed g) (names : List File)
    (hN : ∀ s, s ∈ names → (g.lookup s).isSome = true) :
    ∃ order, emitOrder g names = .done order ∧ C20_Spec g names order := by
  obtain ⟨files, hp⟩ := parse_total hg.targets names hN
  obtain ⟨hnd, hmem⟩ := parse_spec (by unfold parseFiles at hp; exact hp)
  have hclosed : ∀ f, f ∈ files → ∀ h, h ∈ incOf g f → h ∈ files := by
    intro f hf h hh
    obtain ⟨s, hs, hr⟩ := (hmem f).1 hf
    exact (hmem h).2 ⟨s, hs, hr.tail (edge_iff.2 hh)⟩
  obtain ⟨order, ho, hT, hn, hm⟩ := sort_spec hg.nodup (hasSinks_of_noCycle hg.acyclic) hnd hclosed
  refine ⟨order, by simp [emitOrder, hp, ho], hn, fun f => (hm f).trans (hmem f), ?_⟩
  intro a f b e h he
  exact topo_split hT a f b e h (edge_iff.1 he)

/-- Termination: `names.length + edgeCount g` iterations of the work-list loop and `files.length`
rounds of the sorting loop suffice (these are the bounds built into `emitOrder`). -/
theorem C20_terminates (g : Graph) (hg : C20_WellFormed g) (names : List File)
    (hN : ∀ s, s ∈ names → (g.lookup s).isSome = true) :
    ∃ order, emitOrder g names = .done order :=
  let ⟨o, h, _⟩ := C20_emit_spec g hg names hN; ⟨o, h⟩

private theorem spec_of_done {g : Graph} (hg : C20_WellFormed g) {names order : List File}
    (hN : ∀ s, s ∈ names → (g.lookup s).isSome = true) (h : emitOrder g names = .done order) :
    C20_Spec g names order := by
  obtain ⟨o, h', hs⟩ := C20_emit_spec g hg names hN
  rw [h] at h'
  cases h'
  exact hs

/-- The emitted set is the reflexive-transitive include closure of the selection. -/
theorem C20_closure (g : Graph) (hg : C20_WellFormed g) (names order : List File)
    (hN : ∀ s, s ∈ names → (g.lookup s).isSome = true) (h : emitOrder g names = .done order)
    (f : File) : f ∈ order ↔ Reachable g names f :=
  (spec_of_done hg hN h).2.1 f

/-- Every file is emitted exactly once. -/
theorem C20_once (g : Graph) (hg : C20_WellFormed g) (names order : List File)
    (hN : ∀ s, s ∈ names → (g.lookup s).isSome = true) (h : emitOrder g names = .done order) :
    order.Nodup :=
  (spec_of_done hg hN h).1

/-- Every include precedes its includer. -/
theorem C20_topological (g : Graph) (hg : C20_WellFormed g) (names order : List File)
    (hN : ∀ s, s ∈ names → (g.lookup s).isSome = true) (h : emitOrder g names = .done order)
    (a : List File) (f : File) (b : List File) (e : order = a ++ f :: b) (t : File)
    (het : Edge g f t) : t ∈ a :=
  (spec_of_done hg hN h).2.2 a f b e t het

/-- The selection as the command line gives it: `au/au.hh`, every chosen unit and constant, every
extra main file and (unless `--noio`) `au/io.hh` are in the output; with `--noio`, `io.hh` is in
the output only if something selected includes it. -/
theorem C20_selection (g : Graph) (hg : C20_WellFormed g) (au : File) (units constants mains : List File)
    (io : Option File) (order : List File)
    (hN : ∀ s, s ∈ filenames au units constants mains io → (g.lookup s).isSome = true)
    (h : emitOrder g (filenames au units constants mains io) = .done order) :
    au ∈ order ∧ (∀ u, u ∈ units → u ∈ order) ∧ (∀ c, c ∈ constants → c ∈ order) ∧
    (∀ m, m ∈ mains → m ∈ order) ∧ (∀ i, io = some i → i ∈ order) ∧
    (∀ f, f ∈ order → ∃ s, s ∈ filenames au units constants mains io ∧ Reach g s f) := by
  have hc := C20_closure g hg _ order hN h
  have self : ∀ s, s ∈ filenames au units constants mains io → s ∈ order :=
    fun s hs => (hc s).2 ⟨s, hs, .refl s⟩
  refine ⟨self au (by simp [filenames]), fun u hu => self u (by simp [filenames, hu]),
    fun c hc' => self c (by simp [filenames, hc']), fun m hm => self m (by simp [filenames, hm]),
    fun i hi => self i (by subst hi; simp [filenames]), fun f hf => (hc f).1 hf⟩

/-- The set of emitted files does not depend on the order (or multiplicity) in which units and
constants are listed on the command line. -/
theorem C20_selection_order_irrelevant (g : Graph) (hg : C20_WellFormed g) (n1 n2 o1 o2 : List File)
    (hN1 : ∀ s, s ∈ n1 → (g.lookup s).isSome = true) (hsame : ∀ s, s ∈ n1 ↔ s ∈ n2)
    (h1 : emitOrder g n1 = .done o1) (h2 : emitOrder g n2 = .done o2) (f : File) :
    f ∈ o1 ↔ f ∈ o2 := by
  have hN2 : ∀ s, s ∈ n2 → (g.lookup s).isSome = true := fun s hs => hN1 s ((hsame s).2 hs)
  rw [C20_closure g hg n1 o1 hN1 h1, C20_closure g hg n2 o2 hN2 h2]
  constructor
  · rintro ⟨s, hs, hr⟩; exact ⟨s, (hsame s).1 hs, hr⟩
  · rintro ⟨s, hs, hr⟩; exact ⟨s, (hsame s).2 hs, hr⟩

/-- The iteration bounds are a proof device, not behaviour: any run with explicit bounds that
finishes gives the same list as `emitOrder`. -/
theorem C20_fuel_irrelevant (g : Graph) (names : List File) (f1 f2 : Nat) (o o' : List File)
    (h : orderWithFuel g names f1 f2 = .done o) (h' : emitOrder g names = .done o') : o = o' := by
  unfold orderWithFuel at h
  unfold emitOrder parseFiles at h'
  cases hp : parseLoop g f1 names.reverse [] with
  | missing x => rw [hp] at h; simp at h
  | outOfFuel => rw [hp] at h; simp at h
  | done files =>
    rw [hp] at h
    simp only [] at h
    cases hp' : parseLoop g (names.length + edgeCount g) names.reverse [] with
    | missing x => rw [hp'] at h'; simp at h'
    | outOfFuel => rw [hp'] at h'; simp at h'
    | done files' =>
      rw [hp'] at h'
      simp only [sortTopologically] at h'
      have e1 := parseLoop_mono _ _ _ _ hp (max f1 (names.length + edgeCount g)) (Nat.le_max_left _ _)
      have e2 := parseLoop_mono _ _ _ _ hp' (max f1 (names.length + edgeCount g)) (Nat.le_max_right _ _)
      rw [e1] at e2
      cases e2
      have e3 := sortLoop_mono _ _ _ _ h (max f2 files.length) (Nat.le_max_left _ _)
      have e4 := sortLoop_mono _ _ _ _ h' (max f2 files.length) (Nat.le_max_right _ _)
      rw [e3] at e4
      cases e4
      rfl

/-! ### The statement without the "no duplicated include line" premise is false for the script -/

/-- Full-strength statement: acyclic graph, existing targets, nothing else. -/
def C20_full : Prop :=
  ∀ (g : Graph) (names : List File), TargetsExist g → NoCycle g →
    (∀ s, s ∈ names → (g.lookup s).isSome = true) →
    ∃ f1 f2 order, orderWithFuel g names f1 f2 = .done order ∧ C20_Spec g names order

/-- A header that contains `#include "au/x.hh"` twice: `remove` deletes one copy, the other stays in
`unvisited_deps[f]` forever, and no bound on the number of rounds lets the loop finish. -/
theorem C20_full_counterexample : ¬ C20_full := by
  intro h
  have hT : TargetsExist dupGraph := targetsExist_of_check (by decide)
  have hC : NoCycle dupGraph := noCycle_of_rank (rankAcyclic_of_check (by decide))
  obtain ⟨f1, f2, order, ho, _⟩ := h dupGraph [1] hT hC (by decide)
  exact dupGraph_diverges f1 f2 order ho

/-- The strongest true version is `C20_emit_spec` (premise `IncNodup` added); restated in the shape
of `C20_full`. -/
theorem C20_partial : ∀ (g : Graph) (names : List File), TargetsExist g → NoCycle g → IncNodup g →
    (∀ s, s ∈ names → (g.lookup s).isSome = true) →
    ∃ f1 f2 order, orderWithFuel g names f1 f2 = .done order ∧ C20_Spec g names order := by
  intro g names hT hC hN hE
  obtain ⟨order, ho, hs⟩ := C20_emit_spec g ⟨hT, hN, hC⟩ names hE
  refine ⟨names.length + edgeCount g, ?_⟩
  unfold emitOrder parseFiles at ho
  cases hp : parseLoop g (names.length + edgeCount g) names.reverse [] with
  | missing x => rw [hp] at ho; simp at ho
  | outOfFuel => rw [hp] at ho; simp at ho
  | done files =>
    rw [hp] at ho
    exact ⟨files.length, order, by simp [orderWithFuel, hp]; exact ho, hs⟩

/-- An include cycle, or a missing file, also stops the script from producing a header (these are
outside the property's quantifier; recorded so that the driver's answers on malformed graphs are
backed by statements). -/
theorem C20_cycle_diverges : ∀ fuel, sortLoop fuel (initDeps [(0, [1]), (1, [0])] [0, 1]) [] = .outOfFuel := by
  intro fuel
  have h1 : initDeps [(0, [1]), (1, [0])] [0, 1] = [(0, [1]), (1, [0])] := by decide
  rw [h1]
  exact sort_stuck (by simp) (by decide) fuel _

theorem C20_missing_file : emitOrder [(0, [7])] [0] = .missing 7 := by decide

/-! ### Non-vacuity: the premises are satisfiable and the conclusions are about real outputs -/

/-- A small graph shaped like the library: 0 = fwd.hh, 1 = quantity.hh, 2 = units/meters_fwd.hh,
3 = units/meters.hh, 4 = io.hh, 5 = au.hh. -/
def C20_demo : Graph := [(0, []), (1, [0]), (2, []), (3, [2, 1]), (4, [1]), (5, [1])]

theorem C20_demo_wf : C20_WellFormed C20_demo :=
  ⟨targetsExist_of_check (by decide), incNodup_of_check (by decide),
   noCycle_of_rank (rankAcyclic_of_check (by decide))⟩

example : emitOrder C20_demo (filenames 5 [3] [] [] (some 4)) = .done [0, 2, 1, 3, 5, 4] := by decide
example : emitOrder C20_demo (filenames 5 [3] [] [] none) = .done [0, 2, 1, 5, 3] := by decide
example : ∃ order, emitOrder C20_demo [5, 3, 4] = .done order ∧ C20_Spec C20_demo [5, 3, 4] order :=
  C20_emit_spec C20_demo C20_demo_wf [5, 3, 4] (by decide)
example : Reachable C20_demo [5, 3] 0 :=
  ⟨5, by simp, Reach.step (h := 1) ⟨[1], by decide, by simp⟩
    (Reach.step (h := 0) ⟨[0], by decide, by simp⟩ (.refl 0))⟩
example : ¬ IncNodup dupGraph := fun h => by
  have := h 1 [0, 0] (by decide); simp at this

end Au

import Generated.OrderTable
import AuProofs.Lemmas.OrderTable
import AuProofs.Lemmas.Mag

/-! Per-run obligations of C02 over regenerated data: the library's `InOrderFor<UnitProduct,·,·>`,
as extracted from the compiler for this run's unit sample, is induced by an injective rank —
hence a strict total order on the sample (`orderTable_strictTotal`). -/
namespace Au

theorem orderTable_induced : tableInducedBy Generated.orderN Generated.orderRanks Generated.orderRows = true := by
  decide +kernel

theorem orderTable_ranks_distinct : ranksDistinct Generated.orderN Generated.orderRanks = true := by
  decide +kernel

theorem orderTable_strictTotal :
    (∀ i, i < Generated.orderN → tableLt Generated.orderRows i i = false) ∧
    (∀ i j k, i < Generated.orderN → j < Generated.orderN → k < Generated.orderN →
      tableLt Generated.orderRows i j = true → tableLt Generated.orderRows j k = true →
      tableLt Generated.orderRows i k = true) ∧
    (∀ i j, i < Generated.orderN → j < Generated.orderN → tableLt Generated.orderRows i j = false →
      tableLt Generated.orderRows j i = false → i = j) :=
  table_strict_total _ _ _ orderTable_induced orderTable_ranks_distinct

end Au

/-
  Obligations over data regenerated on every run (tools/p_c05.py → Generated/CastConsts.lean): the
  limits `static_cast<F>(std::numeric_limits<Dest>::lowest()/max())` as g++ and clang++ evaluate
  them are the limits the model's float → anything overflow checker compares against
  (`castLimLo` / `castLimHi`, i.e. `Flt.ofInt` / `Flt.cast` = round-to-nearest-even of the model).
-/
import AuModel.StaticCast
import Generated.CastConsts
namespace Au
open IntTy FltTy

def castConstRowOk (r : Nat × Nat × Bool × Nat × Nat × Int × Int) : Bool :=
  let F : FltTy := ⟨r.1, r.2.1⟩
  let d : ArithTy := if r.2.2.1 then .int ⟨r.2.2.2.1, r.2.2.2.2.1 == 1⟩ else .flt ⟨r.2.2.2.1, r.2.2.2.2.1⟩
  decide (castLimLo F d = .fin ((r.2.2.2.2.2.1 : Int) : Rat)) &&
  decide (castLimHi F d = .fin ((r.2.2.2.2.2.2 : Int) : Rat))

/-- Every extracted row agrees with the model. -/
theorem C05_gen_castConsts : Generated.castConsts.all castConstRowOk = true := by
  decide +kernel

/-- The extracted table covers every (floating source, integral destination) pair and the three
narrowing floating pairs — the situations categorised `FLOAT_TO_ANYTHING`. -/
theorem C05_gen_castConsts_complete :
    (∀ F ∈ FltTy.all, ∀ I ∈ IntTy.all,
      Generated.castConsts.any (fun r => r.1 == F.prec && r.2.1 == F.emax && r.2.2.1 &&
        r.2.2.2.1 == I.bits && (r.2.2.2.2.1 == 1) == I.signed) = true) ∧
    (∀ p ∈ [(f64, f32), (f80, f32), (f80, f64)],
      Generated.castConsts.any (fun r => r.1 == p.1.prec && r.2.1 == p.1.emax && !r.2.2.1 &&
        r.2.2.2.1 == p.2.prec && r.2.2.2.2.1 == p.2.emax) = true) := by
  decide +kernel

end Au

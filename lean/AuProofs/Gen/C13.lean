import AuProofs.C13
import Generated.Classes
namespace Au
open Au.C13 Au.Generated.Classes

/-! Data obligations of C13 over the class descriptors regenerated from /repo on every run
(`Generated.Classes`, produced by tools/c13_extract.py from the clang AST).  They stop compiling
when `au::Quantity` / `au::QuantityPoint` gain a data member, a base, a virtual function, a
user-provided copy/move/destructor, or lose the zero-initialisation of their member. -/

/-- `au::Quantity` has the shape required by `C13_layout_quantity`. -/
theorem C13_gen_quantity_shape : isRepWrapper quantity = true := by decide

/-- `au::Quantity(Zero)` stores zero. -/
theorem C13_gen_quantity_zero_ctor : zeroCtorZeroes quantity = true := by decide

/-- `au::QuantityPoint` wraps exactly one `Quantity<Unit, Rep>`, found in the environment. -/
theorem C13_gen_point_shape :
    env.find "Quantity" = some quantity ∧ isWrapperOf quantityPoint "Quantity" = true := by decide

/-- **C13 (layout) for the classes as they are in /repo**: for every one of the 11 arithmetic
reps, both classes have exactly the rep's size and alignment, are trivially copyable, trivially
destructible, standard-layout, and default construction yields `R{}`.  (Instance of the two
general theorems at the regenerated descriptors.) -/
theorem C13_layout (R : RepTy) (hR : R ∈ RepTy.all) :
    classFacts env quantity R = transparentFacts R ∧
    classFacts env quantityPoint R = transparentFacts R :=
  ⟨C13_layout_quantity env quantity C13_gen_quantity_shape R hR,
   C13_layout_point env quantityPoint quantity "Quantity" C13_gen_point_shape.1
     C13_gen_quantity_shape C13_gen_quantity_zero_ctor C13_gen_point_shape.2 R hR⟩

/-- The same facts obtained by plain evaluation of the model on the descriptors (independent of the
general theorems; guards against a premise that is too weak). -/
theorem C13_gen_facts_eval : ∀ R ∈ RepTy.all,
    classFacts env quantity R = transparentFacts R ∧
    classFacts env quantityPoint R = transparentFacts R := by decide

/-- **Default construction yields `R{}`** — the clause on its own, for the classes as they are in
/repo: a default-initialised `Quantity<U, R>` / `QuantityPoint<U, R>` (`T t;`, the weakest form; `T{}`
and `T()` zero-fill first or run the same constructor) holds `R{}` in its only scalar sub-object, for
every one of the 11 reps.  Reading it back through `.in(unit)` returns those bits (`C13_roundtrip`). -/
theorem C13_default_construction (R : RepTy) (hR : R ∈ RepTy.all) :
    (classFacts env quantity R).dflt = Content.zero ∧ (classFacts env quantityPoint R).dflt = Content.zero := by
  have h := C13_layout R hR
  exact ⟨by rw [h.1]; rfl, by rw [h.2]; rfl⟩

/-- Non-vacuity / sensitivity: without the default member initialiser the same evaluation says
`indeterminate` (so `zero` above is a fact about the extracted source, not about the evaluator). -/
example : (classFacts env { quantity with fields := [⟨"value_", .rep, .priv, .absent⟩] } (.flt .f64)).dflt
    = Content.indeterminate := by decide

end Au

/-
  C20 — obligations over the regenerated include graph of the repository
  (lean/Generated/IncludeGraph.lean, rewritten by tools/extract_c20.py on every run).
  If a header gains a dangling, duplicated or cyclic project include these stop compiling.
-/
import Generated.IncludeGraph
import AuProofs.C20
namespace Au
open SingleFile Generated

/-- every `#include "au/…"` in the tree names an existing header -/
theorem Gen_C20_targets : targetsExist includeGraph = true := by decide +kernel

/-- no header has the same project include twice -/
theorem Gen_C20_dupfree : dupFree includeGraph = true := by decide +kernel

/-- the extraction's numbering is topological: the real include graph is acyclic -/
theorem Gen_C20_acyclic : rankedById includeGraph = true := by decide +kernel

theorem Gen_C20_keys : keysDistinct includeGraph = true := by decide +kernel

theorem Gen_C20_wellFormed : C20_WellFormed includeGraph :=
  ⟨targetsExist_of_check Gen_C20_targets, incNodup_of_check Gen_C20_dupfree,
   noCycle_of_rank (rankAcyclic_of_check Gen_C20_acyclic)⟩

/-- **The theorem on the real tree**: for EVERY selection of existing headers (all 2^66 unit/constant
selections × {io, noio} × any extra main files, in any order, with repetitions) the modelled script
terminates and emits exactly the include closure, once each, includes first. -/
theorem Gen_C20_real_tree (names : List File)
    (hN : ∀ s, s ∈ names → (includeGraph.lookup s).isSome = true) :
    ∃ order, emitOrder includeGraph names = .done order ∧ C20_Spec includeGraph names order :=
  C20_emit_spec includeGraph Gen_C20_wellFormed names hN

end Au

import AuModel.ApplyMag
import AuProofs.Lemmas.IntDiv
set_option linter.unusedSimpArgs false
namespace Au
open IntTy

theorem all_cases (t : IntTy) (ht : t ∈ IntTy.all) :
    t = i8 ∨ t = u8 ∨ t = i16 ∨ t = u16 ∨ t = i32 ∨ t = u32 ∨ t = i64 ∨ t = u64 := by
  simpa [IntTy.all] using ht

end Au
namespace Au
open IntTy

def exactFits (t : IntTy) (N D : Nat) (x : Int) : Prop :=
  t.lo * D ≤ x * N ∧ x * N ≤ t.hi * D ∧ t.promote.inRange (x * N)


theorem clamp_le (t : IntTy) (v x : Int) (hx : t.inRange x) (hv : t.lo ≤ v) :
    x ≤ clampTo t v ↔ x ≤ v := by
  unfold clampTo inRange at *
  split
  · omega
  · split <;> omega

theorem clamp_ge (t : IntTy) (v x : Int) (hx : t.inRange x) (hv : v ≤ t.hi) :
    clampTo t v ≤ x ↔ v ≤ x := by
  unfold clampTo inRange at *
  split
  · omega
  · split <;> omega

theorem gvInt_isSome (t : IntTy) (n : Nat) : (gvInt t n).isSome = true ↔ (n : Int) ≤ t.hi := by
  unfold gvInt; split <;> simp [*]

theorem gvInt_of_le (t : IntTy) (n : Nat) (h : (n : Int) ≤ t.hi) : gvInt t n = some (n : Int) := by
  unfold gvInt; simp [h]

theorem gvInt_of_gt (t : IntTy) (n : Nat) (h : ¬ (n : Int) ≤ t.hi) : gvInt t n = none := by
  unfold gvInt; simp [h]

theorem lo_nonpos (t : IntTy) (ht : t ∈ IntTy.all) : t.lo ≤ 0 := by
  rcases all_cases t ht with rfl|rfl|rfl|rfl|rfl|rfl|rfl|rfl <;> decide
theorem hi_nonneg (t : IntTy) (ht : t ∈ IntTy.all) : 0 ≤ t.hi := by
  rcases all_cases t ht with rfl|rfl|rfl|rfl|rfl|rfl|rfl|rfl <;> decide

theorem overflow_intMul (t : IntTy) (ht : t ∈ IntTy.all) (N : Nat) (hN : 0 < N)
    (hc : (N : Int) ≤ t.hi) (x : Int) :
    wouldProductOverflow t x (gvInt t N) = true ↔ ¬ (t.lo ≤ x * N ∧ x * N ≤ t.hi) := by
  rw [gvInt_of_le t N hc]
  simp only [wouldProductOverflow]
  have h1 := thr_pos t.hi N x (by omega) (hi_nonneg t ht)
  have h2 := thr_neg t.lo N x (by omega) (lo_nonpos t ht)
  simp only [Bool.or_eq_true, decide_eq_true_eq]
  omega
end Au
namespace Au
open IntTy
theorem hi_pos (t : IntTy) (ht : t ∈ IntTy.all) : 0 < t.hi := by
  rcases all_cases t ht with rfl|rfl|rfl|rfl|rfl|rfl|rfl|rfl <;> decide
theorem promote_mem (t : IntTy) (ht : t ∈ IntTy.all) : t.promote ∈ IntTy.all := by
  rcases all_cases t ht with rfl|rfl|rfl|rfl|rfl|rfl|rfl|rfl <;> decide
theorem promote_hi (t : IntTy) (ht : t ∈ IntTy.all) : t.hi ≤ t.promote.hi := by
  rcases all_cases t ht with rfl|rfl|rfl|rfl|rfl|rfl|rfl|rfl <;> decide
theorem promote_lo (t : IntTy) (ht : t ∈ IntTy.all) : t.promote.lo ≤ t.lo := by
  rcases all_cases t ht with rfl|rfl|rfl|rfl|rfl|rfl|rfl|rfl <;> decide
theorem unsigned_lo (t : IntTy) (h : t.signed = false) : t.lo = 0 := by
  simp [IntTy.lo, h]
theorem signed_promote (t : IntTy) (ht : t ∈ IntTy.all) (h : t.signed = true) : t.promote.signed = true := by
  rcases all_cases t ht with rfl|rfl|rfl|rfl|rfl|rfl|rfl|rfl <;> first | rfl | (simp [u8,u16,u32,u64] at h)
theorem signed_lo_neg (t : IntTy) (ht : t ∈ IntTy.all) (h : t.signed = true) : t.lo < 0 := by
  rcases all_cases t ht with rfl|rfl|rfl|rfl|rfl|rfl|rfl|rfl <;> first | decide | (simp [u8,u16,u32,u64] at h)

theorem mul_le_of (a b c d : Int) (h1 : a ≤ b) (hc : 0 ≤ c) (h2 : c ≤ d) (hb : 0 ≤ b) : a * c ≤ b * d := by
  calc a * c ≤ b * c := Int.mul_le_mul_of_nonneg_right h1 hc
    _ ≤ b * d := Int.mul_le_mul_of_nonneg_left h2 hb

theorem max_iff (t : IntTy) (ht : t ∈ IntTy.all) (N D : Nat) (hN : 0 < N) (hD : 0 < D)
    (hn : (N : Int) ≤ t.promote.hi) (hd : (D : Int) ≤ t.promote.hi) (x : Int) (hx : t.inRange x) :
    x ≤ maxNonOverflowing t N D ↔ (x * N ≤ t.promote.hi ∧ x * N ≤ t.hi * D) := by
  have hphi := hi_nonneg _ (promote_mem t ht)
  have hthi := hi_pos t ht
  have hlo := lo_nonpos t ht
  unfold maxNonOverflowing
  simp only [gvInt_of_le _ N hn, gvInt_of_le _ D hd]
  split
  · -- less than one
    rename_i hlt
    have hND : (N : Int) ≤ D := by
      unfold lessThanOne at hlt
      split at hlt
      · rename_i d hd'
        unfold gvInt at hd'
        split at hd'
        · simp at hd'; subst hd'; simp at hlt; omega
        · simp at hd'
      · rename_i hd'
        have : ¬ ((D:Int) ≤ u64.hi) := by
          intro h; rw [gvInt_of_le _ _ h] at hd'; simp at hd'
        have : t.promote.hi ≤ u64.hi := by
          rcases all_cases t ht with rfl|rfl|rfl|rfl|rfl|rfl|rfl|rfl <;> decide
        omega
    rw [clamp_le t _ x hx (by have := tdiv_nonneg' t.promote.hi N (by omega) hphi; omega)]
    rw [thr_pos _ _ _ (by omega) hphi]
    constructor
    · intro h
      refine ⟨h, ?_⟩
      by_cases hx0 : 0 ≤ x
      · exact mul_le_of x t.hi N D hx.2 (by omega) hND (by omega)
      · have : x * N ≤ 0 := Int.mul_nonpos_of_nonpos_of_nonneg (by omega) (by omega)
        have : 0 ≤ t.hi * D := Int.mul_nonneg (by omega) (by omega)
        omega
    · intro h; exact h.1
  · -- not less than one
    have key : ((D : Int) > Int.tdiv t.promote.hi t.hi) ↔ ¬ ((D : Int) * t.hi ≤ t.promote.hi) := by
      have := thr_pos t.promote.hi t.hi D hthi hphi
      omega
    have hcomm : (D : Int) * t.hi = t.hi * D := Int.mul_comm _ _
    split
    · rename_i hgt
      have := key.1 hgt
      rw [clamp_le t _ x hx (by have := tdiv_nonneg' t.promote.hi N (by omega) hphi; omega)]
      rw [thr_pos _ _ _ (by omega) hphi]
      omega
    · rename_i hgt
      have h3 : (D : Int) * t.hi ≤ t.promote.hi := by
        by_cases h : (D : Int) * t.hi ≤ t.promote.hi
        · exact h
        · exact absurd (key.2 h) hgt
      have hnn : 0 ≤ t.hi * D := Int.mul_nonneg (by omega) (by omega)
      rw [clamp_le t _ x hx (by have := tdiv_nonneg' (t.hi * D) N (by omega) hnn; omega)]
      rw [thr_pos _ _ _ (by omega) hnn]
      omega
end Au

namespace Au
open IntTy

theorem lessThanOne_le (t : IntTy) (ht : t ∈ IntTy.all) (N D : Nat)
    (hd : (D : Int) ≤ t.promote.hi) (hlt : lessThanOne N D = true) : (N : Int) < D := by
  have h64 : t.promote.hi ≤ u64.hi := by
    rcases all_cases t ht with rfl|rfl|rfl|rfl|rfl|rfl|rfl|rfl <;> decide
  unfold lessThanOne at hlt
  rw [gvInt_of_le u64 D (by omega)] at hlt
  simpa using hlt

theorem min_iff (t : IntTy) (ht : t ∈ IntTy.all) (hs : t.signed = true) (N D : Nat) (hN : 0 < N) (hD : 0 < D)
    (hn : (N : Int) ≤ t.promote.hi) (hd : (D : Int) ≤ t.promote.hi) (x : Int) (hx : t.inRange x) :
    minNonOverflowing t N D ≤ x ↔ (t.promote.lo ≤ x * N ∧ t.lo * D ≤ x * N) := by
  have hplo := lo_nonpos _ (promote_mem t ht)
  have hthi := hi_pos t ht
  have hlo := signed_lo_neg t ht hs
  unfold minNonOverflowing
  simp only [gvInt_of_le _ N hn, gvInt_of_le _ D hd]
  split
  · rename_i hlt
    have hND := lessThanOne_le t ht N D hd hlt
    rw [clamp_ge t _ x hx (by have := tdiv_nonpos' t.promote.lo N (by omega) hplo; omega)]
    rw [thr_neg _ _ _ (by omega) hplo]
    constructor
    · intro h
      refine ⟨h, ?_⟩
      by_cases hx0 : x ≤ 0
      · -- t.lo * D ≤ x * N  ⇐  (-x) * N ≤ (-t.lo) * D
        have := mul_le_of (-x) (-t.lo) N D (by have := hx.1; omega) (by omega) (by omega) (by omega)
        rw [Int.neg_mul, Int.neg_mul] at this
        omega
      · have : 0 ≤ x * N := Int.mul_nonneg (by omega) (by omega)
        have : t.lo * D ≤ 0 := Int.mul_nonpos_of_nonpos_of_nonneg (by omega) (by omega)
        omega
    · intro h; exact h.1
  · have key : ((D : Int) > Int.tdiv t.promote.lo t.lo) ↔ ¬ (t.promote.lo ≤ t.lo * D) := by
      have h1 : Int.tdiv t.promote.lo t.lo = Int.tdiv (-t.promote.lo) (-t.lo) := by
        rw [Int.neg_tdiv, Int.tdiv_neg, Int.neg_neg]
      have := thr_pos (-t.promote.lo) (-t.lo) D (by omega) (by omega)
      rw [Int.mul_neg, Int.mul_comm] at this
      omega
    split
    · rename_i hgt
      have := key.1 hgt
      rw [clamp_ge t _ x hx (by have := tdiv_nonpos' t.promote.lo N (by omega) hplo; omega)]
      rw [thr_neg _ _ _ (by omega) hplo]
      omega
    · rename_i hgt
      have h3 : t.promote.lo ≤ t.lo * D := by
        by_cases h : t.promote.lo ≤ t.lo * D
        · exact h
        · exact absurd (key.2 h) hgt
      have hnn : t.lo * D ≤ 0 := Int.mul_nonpos_of_nonpos_of_nonneg (by omega) (by omega)
      rw [clamp_ge t _ x hx (by have := tdiv_nonpos' (t.lo * D) N (by omega) hnn; omega)]
      rw [thr_neg _ _ _ (by omega) hnn]
      omega
end Au

namespace Au
theorem dvd_mul_coprime (D N : Nat) (x : Int) (hc : Nat.Coprime D N) :
    (D : Int) ∣ x * N ↔ (D : Int) ∣ x := by
  constructor
  · intro h
    rw [Int.ofNat_dvd_left] at h ⊢
    rw [Int.natAbs_mul, Int.natAbs_natCast] at h
    exact hc.dvd_of_dvd_mul_right h
  · intro h; exact Int.dvd_mul_of_dvd_left h

theorem tmod_ne_zero_iff (x d : Int) : Int.tmod x d ≠ 0 ↔ ¬ d ∣ x :=
  ⟨fun h hd => h (Int.tmod_eq_zero_of_dvd hd), fun h hm => h (Int.dvd_of_tmod_eq_zero hm)⟩

theorem small_dvd (x : Int) (D : Nat) (h : x.natAbs < D) : (D : Int) ∣ x ↔ x = 0 := by
  constructor
  · intro hd; exact Int.eq_zero_of_dvd_of_natAbs_lt_natAbs hd (by simpa using h)
  · intro h0; subst h0; exact Int.dvd_zero _
end Au
namespace Au
open IntTy

theorem wrap_of_inRange (t : IntTy) (ht : t ∈ IntTy.all) (v : Int) (h : t.inRange v) : t.wrap v = v := by
  rcases all_cases t ht with rfl|rfl|rfl|rfl|rfl|rfl|rfl|rfl <;>
    (simp only [IntTy.inRange, IntTy.lo, IntTy.hi, i8, u8, i16, u16, i32, u32, i64, u64] at h
     simp only [IntTy.wrap, i8, u8, i16, u16, i32, u32, i64, u64]
     simp at h ⊢
     try split
     all_goals omega)
end Au
namespace Au
open IntTy

theorem cat_intMul {N D : Nat} (h : categorize N D = .intMul) : D = 1 := by
  by_cases h1 : D = 1
  · exact h1
  · unfold categorize at h; rw [if_neg h1] at h; split at h <;> cases h

theorem cat_intDiv {N D : Nat} (h : categorize N D = .intDiv) : N = 1 ∧ D ≠ 1 := by
  by_cases h1 : D = 1
  · unfold categorize at h; rw [if_pos h1] at h; cases h
  · by_cases h2 : N = 1
    · exact ⟨h2, h1⟩
    · unfold categorize at h; rw [if_neg h1, if_neg h2] at h; cases h

theorem cat_rational {N D : Nat} (h : categorize N D = .rational) : N ≠ 1 ∧ D ≠ 1 := by
  by_cases h1 : D = 1
  · unfold categorize at h; rw [if_pos h1] at h; cases h
  · by_cases h2 : N = 1
    · unfold categorize at h; rw [if_neg h1, if_pos h2] at h; cases h
    · exact ⟨h2, h1⟩

/-- Soundness half of the truncation checker (no exclusion needed). -/
theorem truncChecker_sound (t : IntTy) (D : Nat) (x : Int)
    (h : truncationChecker x (gvInt t D) = false) : (D : Int) ∣ x := by
  unfold gvInt at h
  split at h
  · simp only [truncationChecker, decide_eq_false_iff_not, ne_eq, Decidable.not_not] at h
    exact Int.dvd_of_tmod_eq_zero h
  · simp only [truncationChecker, decide_eq_false_iff_not, ne_eq, Decidable.not_not] at h
    subst h; exact Int.dvd_zero _

/-- Completeness half: outside the single point `x = -D` (which can only be `x = min(T)`,
`D = 2^(bits-1)`), a reported truncation is real. -/
theorem truncChecker_complete (t : IntTy) (ht : t ∈ IntTy.all) (D : Nat) (x : Int) (hx : t.inRange x)
    (hex : x ≠ -(D : Int))
    (h : truncationChecker x (gvInt t D) = true) : ¬ (D : Int) ∣ x := by
  unfold gvInt at h
  split at h
  · simp only [truncationChecker, decide_eq_true_eq] at h
    exact (tmod_ne_zero_iff x D).1 h
  · rename_i hgt
    simp only [truncationChecker, decide_eq_true_eq] at h
    intro hd
    have hlohi : t.lo = -(t.hi + 1) ∨ t.lo = 0 := by
      rcases all_cases t ht with rfl|rfl|rfl|rfl|rfl|rfl|rfl|rfl <;> decide
    have := hx.1; have := hx.2
    have : x.natAbs < D := by omega
    exact h ((small_dvd x D this).1 hd)
end Au

namespace Au
open IntTy
theorem le_mul_nat (a : Int) (D : Nat) (ha : 0 ≤ a) (hD : 0 < D) : a ≤ a * D := by
  calc a = a * 1 := (Int.mul_one a).symm
    _ ≤ a * D := Int.mul_le_mul_of_nonneg_left (by omega) ha

theorem compiles_rational (t : IntTy) (N D : Nat) (h : categorize N D = .rational)
    (hc : compiles t N D = true) : (N : Int) ≤ t.promote.hi ∧ (D : Int) ≤ t.promote.hi := by
  unfold compiles at hc
  rw [h] at hc
  simp only [Bool.and_eq_true] at hc
  exact ⟨(gvInt_isSome _ _).1 hc.1, (gvInt_isSome _ _).1 hc.2⟩

end Au

import AuProofs.Lemmas.ApplyMag
import AuModel.QuantityOps
namespace Au
open IntTy Au.C13

/-! Helper lemmas for C13: conversion to a type is idempotent and lands in range; the built-in
`%` and unary operators produce values in range of their result type. -/

theorem wrap_inRange (t : IntTy) (ht : t ∈ IntTy.all) (x : Int) : t.inRange (t.wrap x) := by
  rcases all_cases t ht with rfl|rfl|rfl|rfl|rfl|rfl|rfl|rfl <;>
    (simp only [IntTy.inRange, IntTy.wrap, IntTy.lo, IntTy.hi, i8, u8, i16, u16, i32, u32, i64, u64]
     simp
     try split
     all_goals omega)

theorem wrap_idem (t : IntTy) (ht : t ∈ IntTy.all) (x : Int) : t.wrap (t.wrap x) = t.wrap x :=
  wrap_of_inRange t ht _ (wrap_inRange t ht x)

theorem uac_self (t : IntTy) : IntTy.uac t t = t.promote := by
  simp [IntTy.uac]

theorem convert_int_inRange (F : FOps) (s d : IntTy) (hd : d ∈ IntTy.all) (x : Int) (h : d.inRange x) :
    convert F (.int s) (.int d) (.int x) = .ok (.int x) := by
  unfold convert
  split
  · rfl
  · simp only [wrap_of_inRange d hd x h]

theorem addIn_ok (p : IntTy) (hp : p ∈ IntTy.all) (a b : Int) (h : p.inRange (a + b)) :
    addIn p a b = ⟨.ok (a + b), false⟩ := by
  unfold addIn
  cases hs : p.signed with
  | true => simp [h]
  | false => simp [h, wrap_of_inRange p hp _ h]

theorem subIn_ok (p : IntTy) (hp : p ∈ IntTy.all) (a b : Int) (h : p.inRange (a - b)) :
    subIn p a b = ⟨.ok (a - b), false⟩ := by
  unfold subIn
  cases hs : p.signed with
  | true => simp [h]
  | false => simp [h, wrap_of_inRange p hp _ h]

theorem mulIn_ok' (p : IntTy) (hp : p ∈ IntTy.all) (a b : Int) (h : p.inRange (a * b)) :
    mulIn p a b = ⟨.ok (a * b), false⟩ := by
  unfold mulIn
  cases hs : p.signed with
  | true => simp [h]
  | false => simp [h, wrap_of_inRange p hp _ h]

theorem arithIn_add_ok (F : FOps) (p : IntTy) (hp : p ∈ IntTy.all) (a b : Int) (h : p.inRange (a + b)) :
    arithIn F (.int p) .add (.int a) (.int b) = .ok (.int (a + b)) := by
  simp [arithIn, stepVal, addIn_ok p hp a b h]

theorem arithIn_sub_ok (F : FOps) (p : IntTy) (hp : p ∈ IntTy.all) (a b : Int) (h : p.inRange (a - b)) :
    arithIn F (.int p) .sub (.int a) (.int b) = .ok (.int (a - b)) := by
  simp [arithIn, stepVal, subIn_ok p hp a b h]

theorem arithIn_mul_ok (F : FOps) (p : IntTy) (hp : p ∈ IntTy.all) (a b : Int) (h : p.inRange (a * b)) :
    arithIn F (.int p) .mul (.int a) (.int b) = .ok (.int (a * b)) := by
  simp [arithIn, stepVal, mulIn_ok' p hp a b h]

/-- The built-in binary operator on two in-range values of the same integral type whose exact
result fits the promoted type: no UB, no wrap, exact result, promoted result type. -/
theorem rawArith_int_exact (F : FOps) (op : ArOp) (t : IntTy) (ht : t ∈ IntTy.all) (a b r : Int)
    (ha : t.inRange a) (hb : t.inRange b)
    (hop : (op = .add ∧ r = a + b) ∨ (op = .sub ∧ r = a - b) ∨ (op = .mul ∧ r = a * b))
    (hr : t.promote.inRange r) :
    rawArith F op (.int t) (.int t) (.int a) (.int b)
      = ⟨Verdict.ok, some (.val (.int t.promote)), .ok (.int r)⟩ := by
  have hp := promote_mem t ht
  have hlo := promote_lo t ht
  have hhi := promote_hi t ht
  have hap : t.promote.inRange a := ⟨by have := ha.1; omega, by have := ha.2; omega⟩
  have hbp : t.promote.inRange b := ⟨by have := hb.1; omega, by have := hb.2; omega⟩
  have hmod : ¬ (op = .mod) := by rcases hop with h | h | h <;> simp [h.1]
  simp only [rawArith, hmod, false_and, if_false, RepTy.uac, uac_self,
    convert_int_inRange F t t.promote hp a hap, convert_int_inRange F t t.promote hp b hbp, evBind]
  rcases hop with ⟨h1, h2⟩ | ⟨h1, h2⟩ | ⟨h1, h2⟩ <;> subst h1 h2
  · rw [arithIn_add_ok F _ hp a b hr]
  · rw [arithIn_sub_ok F _ hp a b hr]
  · rw [arithIn_mul_ok F _ hp a b hr]

theorem uac_comm (a b : IntTy) (ha : a ∈ IntTy.all) (hb : b ∈ IntTy.all) : IntTy.uac a b = IntTy.uac b a := by
  rcases all_cases a ha with rfl|rfl|rfl|rfl|rfl|rfl|rfl|rfl <;>
    rcases all_cases b hb with rfl|rfl|rfl|rfl|rfl|rfl|rfl|rfl <;> decide

theorem uac_mem (a b : IntTy) (ha : a ∈ IntTy.all) (hb : b ∈ IntTy.all) : IntTy.uac a b ∈ IntTy.all := by
  rcases all_cases a ha with rfl|rfl|rfl|rfl|rfl|rfl|rfl|rfl <;>
    rcases all_cases b hb with rfl|rfl|rfl|rfl|rfl|rfl|rfl|rfl <;> decide

theorem promote_inRange (t : IntTy) (ht : t ∈ IntTy.all) (x : Int) (h : t.inRange x) : t.promote.inRange x := by
  have hlo := promote_lo t ht
  have hhi := promote_hi t ht
  exact ⟨by have := h.1; omega, by have := h.2; omega⟩

theorem divIn_ok' (p : IntTy) (a b : Int) (hb : b ≠ 0) (h : ¬ (a = p.lo ∧ b = -1)) :
    divIn p a b = ⟨.ok (Int.tdiv a b), false⟩ := by
  unfold divIn
  rw [if_neg hb]
  have : (p.signed && decide (a = p.lo) && decide (b = -1)) = false := by
    cases hs : p.signed <;> simp
    intro h1 h2; exact absurd ⟨h1, h2⟩ h
  simp [this]

/-- The built-in `/` on two in-range values of the same integral type: defined unless the divisor
is zero or the operands are (lowest value of the promoted type, -1); the result is the truncated
quotient, in the promoted type. -/
theorem rawArith_int_div (F : FOps) (t : IntTy) (ht : t ∈ IntTy.all) (a b : Int)
    (ha : t.inRange a) (hb : t.inRange b) (hb0 : b ≠ 0) (h : ¬ (a = t.promote.lo ∧ b = -1)) :
    rawArith F .div (.int t) (.int t) (.int a) (.int b)
      = ⟨Verdict.ok, some (.val (.int t.promote)), .ok (.int (Int.tdiv a b))⟩ := by
  have hp := promote_mem t ht
  have hap := promote_inRange t ht a ha
  have hbp := promote_inRange t ht b hb
  have hmod : ¬ (ArOp.div = ArOp.mod) := by decide
  simp only [rawArith, hmod, false_and, if_false, RepTy.uac, uac_self,
    convert_int_inRange F t t.promote hp a hap, convert_int_inRange F t t.promote hp b hbp, evBind]
  simp [arithIn, stepVal, divIn_ok' t.promote a b hb0 h]

theorem modIn_ok' (p : IntTy) (a b : Int) (hb : b ≠ 0) (h : ¬ (a = p.lo ∧ b = -1)) :
    modIn p a b = ⟨.ok (Int.tmod a b), false⟩ := by
  unfold modIn
  rw [if_neg hb]
  have : (p.signed && decide (a = p.lo) && decide (b = -1)) = false := by
    cases hs : p.signed <;> simp
    intro h1 h2; exact absurd ⟨h1, h2⟩ h
  simp [this]

theorem negIn_ok (p : IntTy) (hp : p ∈ IntTy.all) (a : Int) (h : p.inRange (-a)) :
    negIn p a = ⟨.ok (-a), false⟩ := by
  unfold negIn
  cases hs : p.signed with
  | true => simp [h]
  | false => simp [h, wrap_of_inRange p hp _ h]

end Au

import AuProofs.Lemmas.ApplyMag
import AuModel.QuantityOps
namespace Au
open IntTy Au.C13

/-! Helper lemmas for C13: conversion to a type is idempotent and lands in range; the built-in
`%` and unary operators produce values in range of their result type. -/

theorem wrap_inRange (t : IntTy) (ht : t ∈ IntTy.all) (x : Int) : t.inRange (t.wrap x) := by
  rcases all_cases t ht with rfl|rfl|rfl|rfl|rfl|rfl|rfl|rfl <;>
    (simp only [IntTy.inRange, IntTy.wrap, IntTy.lo, IntTy.hi, i8, u8, i16, u16, i32, u32, i64, u64]
     simp
     try split
     all_goals omega)

theorem wrap_idem (t : IntTy) (ht : t ∈ IntTy.all) (x : Int) : t.wrap (t.wrap x) = t.wrap x :=
  wrap_of_inRange t ht _ (wrap_inRange t ht x)

theorem uac_self (t : IntTy) : IntTy.uac t t = t.promote := by
  simp [IntTy.uac]

theorem convert_int_inRange (F : FOps) (s d : IntTy) (hd : d ∈ IntTy.all) (x : Int) (h : d.inRange x) :
    convert F (.int s) (.int d) (.int x) = .ok (.int x) := by
  unfold convert
  split
  · rfl
  · simp only [wrap_of_inRange d hd x h]

theorem addIn_ok (p : IntTy) (hp : p ∈ IntTy.all) (a b : Int) (h : p.inRange (a + b)) :
    addIn p a b = ⟨.ok (a + b), false⟩ := by
  unfold addIn
  cases hs : p.signed with
  | true => simp [h]
  | false => simp [h, wrap_of_inRange p hp _ h]

theorem subIn_ok (p : IntTy) (hp : p ∈ IntTy.all) (a b : Int) (h : p.inRange (a - b)) :
    subIn p a b = ⟨.ok (a - b), false⟩ := by
  unfold subIn
  cases hs : p.signed with
  | true => simp [h]
  | false => simp [h, wrap_of_inRange p hp _ h]

theorem mulIn_ok' (p : IntTy) (hp : p ∈ IntTy.all) (a b : Int) (h : p.inRange (a * b)) :
    mulIn p a b = ⟨.ok (a * b), false⟩ := by
  unfold mulIn
  cases hs : p.signed with
  | true => simp [h]
  | false => simp [h, wrap_of_inRange p hp _ h]

theorem arithIn_add_ok (F : FOps) (p : IntTy) (hp : p ∈ IntTy.all) (a b : Int) (h : p.inRange (a + b)) :
    arithIn F (.int p) .add (.int a) (.int b) = .ok (.int (a + b)) := by
  simp [arithIn, stepVal, addIn_ok p hp a b h]

theorem arithIn_sub_ok (F : FOps) (p : IntTy) (hp : p ∈ IntTy.all) (a b : Int) (h : p.inRange (a - b)) :
    arithIn F (.int p) .sub (.int a) (.int b) = .ok (.int (a - b)) := by
  simp [arithIn, stepVal, subIn_ok p hp a b h]

theorem arithIn_mul_ok (F : FOps) (p : IntTy) (hp : p ∈ IntTy.all) (a b : Int) (h : p.inRange (a * b)) :
    arithIn F (.int p) .mul (.int a) (.int b) = .ok (.int (a * b)) := by
  simp [arithIn, stepVal, mulIn_ok' p hp a b h]

/-- The built-in binary operator on two in-range values of the same integral type whose exact
result fits the promoted type: no UB, no wrap, exact result, promoted result type. -/
theorem rawArith_int_exact (F : FOps) (op : ArOp) (t : IntTy) (ht : t ∈ IntTy.all) (a b r : Int)
    (ha : t.inRange a) (hb : t.inRange b)
    (hop : (op = .add ∧ r = a + b) ∨ (op = .sub ∧ r = a - b) ∨ (op = .mul ∧ r = a * b))
    (hr : t.promote.inRange r) :
    rawArith F op (.int t) (.int t) (.int a) (.int b)
      = ⟨Verdict.ok, some (.val (.int t.promote)), .ok (.int r)⟩ := by
  have hp := promote_mem t ht
  have hlo := promote_lo t ht
  have hhi := promote_hi t ht
  have hap : t.promote.inRange a := ⟨by have := ha.1; omega, by have := ha.2; omega⟩
  have hbp : t.promote.inRange b := ⟨by have := hb.1; omega, by have := hb.2; omega⟩
  have hmod : ¬ (op = .mod) := by rcases hop with h | h | h <;> simp [h.1]
  simp only [rawArith, hmod, false_and, if_false, RepTy.uac, uac_self,
    convert_int_inRange F t t.promote hp a hap, convert_int_inRange F t t.promote hp b hbp, evBind]
  rcases hop with ⟨h1, h2⟩ | ⟨h1, h2⟩ | ⟨h1, h2⟩ <;> subst h1 h2
  · rw [arithIn_add_ok F _ hp a b hr]
  · rw [arithIn_sub_ok F _ hp a b hr]
  · rw [arithIn_mul_ok F _ hp a b hr]

end Au

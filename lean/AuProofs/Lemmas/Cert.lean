import AuProofs.Lemmas.ApplyMag
namespace Au
open IntTy

/-- The interval certificate describes `wouldOverflow` pointwise on the range of `T`. -/
theorem okInterval_spec (t : IntTy) (N D : Nat) (x : Int) (hx : t.inRange x) :
    wouldOverflow t N D x = !(decide ((okInterval t N D).1 ≤ x) && decide (x ≤ (okInterval t N D).2)) := by
  unfold wouldOverflow okInterval
  cases hcat : categorize N D with
  | intMul =>
    simp only []
    cases hg : gvInt t N with
    | some mv =>
      simp only [wouldProductOverflow]
      by_cases h1 : x > Int.tdiv t.hi mv <;> by_cases h2 : x < Int.tdiv t.lo mv <;>
        simp [h1, h2] <;> omega
    | none =>
      simp only [wouldProductOverflow]
      by_cases h : x = 0 <;> simp [h] <;> omega
  | intDiv =>
    have := hx.1; have := hx.2
    simp [*]
  | rational =>
    simp only []
    cases hs : t.signed with
    | true => simp [Bool.and_comm]
    | false =>
      have := hx.1
      simp [*]

theorem truncKind_spec (t : IntTy) (N D : Nat) (x : Int) :
    wouldTruncate t N D x = (truncKind t N D).eval x := by
  unfold wouldTruncate truncKind
  cases hcat : categorize N D with
  | intMul => rfl
  | intDiv => simp only []; cases hg : gvInt t D <;> simp [truncationChecker, TruncKind.eval]
  | rational => simp only []; cases hg : gvInt t.promote D <;> simp [truncationChecker, TruncKind.eval]

end Au

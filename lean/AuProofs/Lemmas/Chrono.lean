import AuModel.Chrono
import Mathlib.Data.Nat.Factorization.Basic
import Mathlib.Tactic.Ring
import Mathlib.Tactic.Linarith

set_option linter.unusedSimpArgs false
set_option linter.unusedVariables false

namespace Au.Chrono
namespace Mag

/-- The exponent of base `p` in a pack (sum over all entries with that base). -/
def exp : Mag → Nat → Int
  | [], _ => 0
  | (b, e) :: t, p => (if b = p then e else 0) + exp t p

@[simp] theorem exp_nil (p : Nat) : exp [] p = 0 := rfl
@[simp] theorem exp_cons (b : Nat) (e : Int) (t : Mag) (p : Nat) :
    exp ((b, e) :: t) p = (if b = p then e else 0) + exp t p := rfl

/-- `AreBasesInOrder`. -/
def Sorted (m : Mag) : Prop := m.Pairwise (fun a b => a.1 < b.1)
/-- `AreAllPowersNonzero`. -/
def NoZero (m : Mag) : Prop := ∀ a ∈ m, a.2 ≠ 0
def Primes (m : Mag) : Prop := ∀ a ∈ m, Nat.Prime a.1
/-- Every base of `m` is a base of `a` or of `b`. -/
def BasesIn (m a b : Mag) : Prop := ∀ x ∈ m, (∃ y ∈ a, y.1 = x.1) ∨ (∃ y ∈ b, y.1 = x.1)

/-- `IsValidPack<Magnitude, M>` plus primality of the bases. -/
structure Ok (m : Mag) : Prop where
  sorted : Sorted m
  nozero : NoZero m
  primes : Primes m

theorem ok_nil : Ok [] := ⟨List.Pairwise.nil, (fun a h => by cases h), (fun a h => by cases h)⟩

theorem Ok.tail {a : Nat × Int} {t : Mag} (h : Ok (a :: t)) : Ok t :=
  ⟨(List.pairwise_cons.1 h.sorted).2, fun x hx => h.nozero x (List.mem_cons_of_mem _ hx),
   fun x hx => h.primes x (List.mem_cons_of_mem _ hx)⟩

theorem Ok.head_lt {a : Nat × Int} {t : Mag} (h : Ok (a :: t)) : ∀ x ∈ t, a.1 < x.1 :=
  (List.pairwise_cons.1 h.sorted).1

theorem ok_cons {a : Nat × Int} {t : Mag} (hp : Nat.Prime a.1) (hz : a.2 ≠ 0)
    (hlt : ∀ x ∈ t, a.1 < x.1) (ht : Ok t) : Ok (a :: t) :=
  ⟨List.pairwise_cons.2 ⟨hlt, ht.sorted⟩,
   fun x hx => by rcases List.mem_cons.1 hx with rfl | hx; exact hz; exact ht.nozero x hx,
   fun x hx => by rcases List.mem_cons.1 hx with rfl | hx; exact hp; exact ht.primes x hx⟩

theorem exp_eq_zero_of_forall_ne (m : Mag) (p : Nat) (h : ∀ x ∈ m, x.1 ≠ p) : exp m p = 0 := by
  induction m with
  | nil => rfl
  | cons a t ih =>
    obtain ⟨b, e⟩ := a
    have hb : b ≠ p := h (b, e) (List.mem_cons_self ..)
    simp [hb, ih (fun x hx => h x (List.mem_cons_of_mem _ hx))]

theorem exp_eq_zero_of_lt (m : Mag) (p : Nat) (h : ∀ x ∈ m, p < x.1) : exp m p = 0 :=
  exp_eq_zero_of_forall_ne m p (fun x hx => by have := h x hx; omega)

/-- In a sorted pack the exponent at the head base is the head exponent. -/
theorem exp_head {b : Nat} {e : Int} {t : Mag} (h : Sorted ((b, e) :: t)) : exp ((b, e) :: t) b = e := by
  have := exp_eq_zero_of_lt t b (List.pairwise_cons.1 h).1
  simp [this]

/-- Each entry of a sorted pack carries the whole exponent of its base. -/
theorem exp_of_mem {m : Mag} (hs : Sorted m) {x : Nat × Int} (hx : x ∈ m) : exp m x.1 = x.2 := by
  induction m with
  | nil => cases hx
  | cons a t ih =>
    obtain ⟨b, e⟩ := a
    rcases List.mem_cons.1 hx with rfl | hx'
    · exact exp_head hs
    · have hlt : b < x.1 := (List.pairwise_cons.1 hs).1 x hx'
      have hne : b ≠ x.1 := by omega
      simp [hne, ih (List.pairwise_cons.1 hs).2 hx']

/-- A base that does not occur has exponent 0; contrapositive form. -/
theorem mem_of_exp_ne_zero {m : Mag} {p : Nat} (h : exp m p ≠ 0) : ∃ x ∈ m, x.1 = p := by
  by_contra hc
  exact h (exp_eq_zero_of_forall_ne m p (fun x hx hxp => hc ⟨x, hx, hxp⟩))

/-- Canonical form: valid packs with the same exponents are equal. -/
theorem ext_of_exp {a b : Mag} (ha : Sorted a) (hza : NoZero a) (hb : Sorted b) (hzb : NoZero b)
    (h : ∀ p, exp a p = exp b p) : a = b := by
  induction a generalizing b with
  | nil =>
    cases b with
    | nil => rfl
    | cons y t =>
      obtain ⟨c, f⟩ := y
      have := h c
      rw [exp_head hb] at this
      exact absurd this.symm (hzb (c, f) (List.mem_cons_self ..))
  | cons x s ih =>
    obtain ⟨b1, e1⟩ := x
    cases b with
    | nil =>
      have := h b1
      rw [exp_head ha] at this
      exact absurd this (hza (b1, e1) (List.mem_cons_self ..))
    | cons y t =>
      obtain ⟨b2, e2⟩ := y
      have hs1 := List.pairwise_cons.1 ha
      have hs2 := List.pairwise_cons.1 hb
      have hne1 : e1 ≠ 0 := hza (b1, e1) (List.mem_cons_self ..)
      have hne2 : e2 ≠ 0 := hzb (b2, e2) (List.mem_cons_self ..)
      rcases Nat.lt_trichotomy b1 b2 with hlt | heq | hgt
      · have h1 := h b1
        rw [exp_head ha] at h1
        have : exp ((b2, e2) :: t) b1 = 0 := exp_eq_zero_of_lt _ _ (by
          intro z hz; rcases List.mem_cons.1 hz with rfl | hz
          · exact hlt
          · have := hs2.1 z hz; simp at this; omega)
        omega
      · subst heq
        have h1 := h b1
        rw [exp_head ha, exp_head hb] at h1
        subst h1
        congr 1
        apply ih hs1.2 (fun z hz => hza z (List.mem_cons_of_mem _ hz)) hs2.2
          (fun z hz => hzb z (List.mem_cons_of_mem _ hz))
        intro p
        have hp := h p
        simp only [exp_cons] at hp
        omega
      · have h1 := h b2
        rw [exp_head hb] at h1
        have : exp ((b1, e1) :: s) b2 = 0 := exp_eq_zero_of_lt _ _ (by
          intro z hz; rcases List.mem_cons.1 hz with rfl | hz
          · exact hgt
          · have := hs1.1 z hz; simp at this; omega)
        omega


/-! ### `mul` -/

theorem mul_nil_right (a : Mag) : mul a [] = a := by cases a <;> simp [mul]
theorem mul_nil_left (b : Mag) : mul [] b = b := by simp [mul]

/-- Exponents add under `PackProduct` — for arbitrary lists. -/
theorem exp_mul (a b : Mag) (p : Nat) : exp (mul a b) p = exp a p + exp b p := by
  fun_induction mul a b with
  | case1 b => simp
  | case2 a _ => simp
  | case3 b1 e1 t1 b2 e2 t2 h ih => simp only [exp_cons] at ih ⊢; omega
  | case4 b1 e1 t1 b2 e2 t2 h1 h2 ih => simp only [exp_cons] at ih ⊢; omega
  | case5 b1 e1 t1 b2 e2 t2 h1 h2 h3 ih =>
    have : b1 = b2 := by omega
    subst this
    simp only [exp_cons] at ih ⊢
    split <;> omega
  | case6 b1 e1 t1 b2 e2 t2 h1 h2 h3 ih =>
    have : b1 = b2 := by omega
    subst this
    simp only [exp_cons] at ih ⊢
    split <;> omega

theorem basesIn_mul (a b : Mag) : BasesIn (mul a b) a b := by
  fun_induction mul a b with
  | case1 b => intro x hx; exact Or.inr ⟨x, hx, rfl⟩
  | case2 a _ => intro x hx; exact Or.inl ⟨x, hx, rfl⟩
  | case3 b1 e1 t1 b2 e2 t2 h ih =>
    intro x hx
    rcases List.mem_cons.1 hx with rfl | hx
    · exact Or.inl ⟨_, List.mem_cons_self .., rfl⟩
    · rcases ih x hx with ⟨y, hy, e⟩ | ⟨y, hy, e⟩
      · exact Or.inl ⟨y, List.mem_cons_of_mem _ hy, e⟩
      · exact Or.inr ⟨y, hy, e⟩
  | case4 b1 e1 t1 b2 e2 t2 h1 h2 ih =>
    intro x hx
    rcases List.mem_cons.1 hx with rfl | hx
    · exact Or.inr ⟨_, List.mem_cons_self .., rfl⟩
    · rcases ih x hx with ⟨y, hy, e⟩ | ⟨y, hy, e⟩
      · exact Or.inr ⟨y, List.mem_cons_of_mem _ hy, e⟩
      · exact Or.inl ⟨y, hy, e⟩
  | case5 b1 e1 t1 b2 e2 t2 h1 h2 h3 ih =>
    intro x hx
    rcases ih x hx with ⟨y, hy, e⟩ | ⟨y, hy, e⟩
    · exact Or.inl ⟨y, List.mem_cons_of_mem _ hy, e⟩
    · exact Or.inr ⟨y, List.mem_cons_of_mem _ hy, e⟩
  | case6 b1 e1 t1 b2 e2 t2 h1 h2 h3 ih =>
    intro x hx
    rcases List.mem_cons.1 hx with rfl | hx
    · exact Or.inl ⟨_, List.mem_cons_self .., rfl⟩
    · rcases ih x hx with ⟨y, hy, e⟩ | ⟨y, hy, e⟩
      · exact Or.inr ⟨y, List.mem_cons_of_mem _ hy, e⟩
      · exact Or.inl ⟨y, List.mem_cons_of_mem _ hy, e⟩

theorem ok_mul {a b : Mag} (ha : Ok a) (hb : Ok b) : Ok (mul a b) := by
  fun_induction mul a b with
  | case1 b => exact hb
  | case2 a _ => exact ha
  | case3 b1 e1 t1 b2 e2 t2 h ih =>
    refine ok_cons (ha.primes _ (List.mem_cons_self ..)) (ha.nozero _ (List.mem_cons_self ..)) ?_ (ih ha.tail hb)
    intro x hx
    rcases basesIn_mul _ _ x hx with ⟨y, hy, e⟩ | ⟨y, hy, e⟩
    · have := ha.head_lt y hy; simp at this; omega
    · rcases List.mem_cons.1 hy with rfl | hy
      · simp at e ⊢; omega
      · have := hb.head_lt y hy; simp at this ⊢; omega
  | case4 b1 e1 t1 b2 e2 t2 h1 h2 ih =>
    refine ok_cons (hb.primes _ (List.mem_cons_self ..)) (hb.nozero _ (List.mem_cons_self ..)) ?_ (ih hb.tail ha)
    intro x hx
    rcases basesIn_mul _ _ x hx with ⟨y, hy, e⟩ | ⟨y, hy, e⟩
    · have := hb.head_lt y hy; simp at this ⊢; omega
    · rcases List.mem_cons.1 hy with rfl | hy
      · simp at e ⊢; omega
      · have := ha.head_lt y hy; simp at this ⊢; omega
  | case5 b1 e1 t1 b2 e2 t2 h1 h2 h3 ih => exact ih ha.tail hb.tail
  | case6 b1 e1 t1 b2 e2 t2 h1 h2 h3 ih =>
    have hbb : b1 = b2 := by omega
    subst hbb
    refine ok_cons (a := (b1, e1 + e2)) (ha.primes (b1, e1) (List.mem_cons_self ..)) h3 ?_ (ih hb.tail ha.tail)
    intro x hx
    rcases basesIn_mul _ _ x hx with ⟨y, hy, e⟩ | ⟨y, hy, e⟩
    · have := hb.head_lt y hy; simp at this ⊢; omega
    · have := ha.head_lt y hy; simp at this ⊢; omega

/-! ### `pow`, `inv`, `div` -/

theorem exp_map_mul (m : Mag) (n : Int) (p : Nat) :
    exp (m.map (fun a => (a.1, a.2 * n))) p = exp m p * n := by
  induction m with
  | nil => simp
  | cons a t ih =>
    obtain ⟨b, e⟩ := a
    simp only [List.map_cons, exp_cons, ih]
    split <;> ring

theorem exp_pow (m : Mag) (n : Int) (p : Nat) : exp (pow m n) p = exp m p * n := by
  unfold pow
  split
  · subst_vars; simp
  · exact exp_map_mul m n p

theorem exp_inv (m : Mag) (p : Nat) : exp (inv m) p = - exp m p := by
  unfold inv; rw [exp_pow]; ring

theorem ok_pow {m : Mag} (h : Ok m) {n : Int} (hn : n ≠ 0) : Ok (pow m n) := by
  unfold pow
  rw [if_neg hn]
  refine ⟨?_, ?_, ?_⟩
  · unfold Sorted
    rw [List.pairwise_map]
    exact h.sorted
  · intro a ha
    obtain ⟨x, hx, rfl⟩ := List.mem_map.1 ha
    exact Int.mul_ne_zero (h.nozero x hx) hn
  · intro a ha
    obtain ⟨x, hx, rfl⟩ := List.mem_map.1 ha
    exact h.primes x hx

theorem ok_inv {m : Mag} (h : Ok m) : Ok (inv m) := ok_pow h (by decide)

theorem exp_div (a b : Mag) (p : Nat) : exp (div a b) p = exp a p - exp b p := by
  unfold div; rw [exp_mul, exp_inv]; ring

theorem ok_div {a b : Mag} (ha : Ok a) (hb : Ok b) : Ok (div a b) := ok_mul ha (ok_inv hb)

theorem eq_nil_of_exp_zero {m : Mag} (h : Ok m) (hz : ∀ p, exp m p = 0) : m = [] :=
  ext_of_exp h.sorted h.nozero List.Pairwise.nil (fun a h => by cases h) (by simpa using hz)

theorem div_self {m : Mag} (h : Ok m) : div m m = [] :=
  eq_nil_of_exp_zero (ok_div h h) (fun p => by rw [exp_div]; ring)

theorem div_nil (m : Mag) : div m [] = m := by
  unfold div inv pow; simp [mul_nil_right]


/-! ### numerator / denominator parts -/

theorem ok_single {b : Nat} {e : Int} (hp : Nat.Prime b) (he : e ≠ 0) : Ok [(b, e)] :=
  ok_cons hp he (fun x hx => by cases hx) ok_nil

theorem ok_numerator {m : Mag} (h : Ok m) : Ok (numerator m) := by
  induction m with
  | nil => exact ok_nil
  | cons a t ih =>
    obtain ⟨b, e⟩ := a
    unfold numerator
    apply ok_mul _ (ih h.tail)
    split
    · exact ok_single (h.primes _ (List.mem_cons_self ..)) (by omega)
    · exact ok_nil

theorem exp_numerator {m : Mag} (h : Sorted m) (p : Nat) : exp (numerator m) p = max (exp m p) 0 := by
  induction m with
  | nil => simp [numerator]
  | cons a t ih =>
    obtain ⟨b, e⟩ := a
    unfold numerator
    rw [exp_mul, ih (List.pairwise_cons.1 h).2]
    by_cases hbp : b = p
    · subst hbp
      have h0 : exp t b = 0 := exp_eq_zero_of_lt t b (List.pairwise_cons.1 h).1
      split <;> simp [h0] <;> omega
    · split <;> simp [hbp]

theorem ok_numPart {m : Mag} (h : Ok m) : Ok (numPart m) := by
  induction m with
  | nil => exact ok_nil
  | cons a t ih =>
    obtain ⟨b, e⟩ := a
    unfold numPart
    split
    · exact ok_mul (ok_single (h.primes _ (List.mem_cons_self ..)) (by omega)) (ih h.tail)
    · exact ih h.tail

theorem exp_numPart {m : Mag} (h : Sorted m) (p : Nat) : exp (numPart m) p = max (exp m p) 0 := by
  induction m with
  | nil => simp [numPart]
  | cons a t ih =>
    obtain ⟨b, e⟩ := a
    unfold numPart
    have ih' := ih (List.pairwise_cons.1 h).2
    by_cases hbp : b = p
    · subst hbp
      have h0 : exp t b = 0 := exp_eq_zero_of_lt t b (List.pairwise_cons.1 h).1
      split
      · rw [exp_mul, ih']; simp [h0]; omega
      · rw [ih']; simp [h0]; omega
    · split
      · rw [exp_mul, ih']; simp [hbp]
      · rw [ih']; simp [hbp]

theorem ok_denominator {m : Mag} (h : Ok m) : Ok (denominator m) := ok_numerator (ok_inv h)

theorem exp_denominator {m : Mag} (h : Ok m) (p : Nat) : exp (denominator m) p = max (- exp m p) 0 := by
  unfold denominator
  rw [exp_numerator (ok_inv h).sorted, exp_inv]

theorem ok_negPowers {m : Mag} (h : Ok m) : Ok (negPowers m) := ok_inv (ok_numPart (ok_inv h))

theorem exp_negPowers {m : Mag} (h : Ok m) (p : Nat) : exp (negPowers m) p = min (exp m p) 0 := by
  unfold negPowers denPart
  rw [exp_inv, exp_numPart (ok_inv h).sorted, exp_inv]
  omega

/-- Bases of a valid pack with a non-zero exponent function value. -/
theorem mem_base_of_mem {m : Mag} (h : Ok m) {x : Nat × Int} (hx : x ∈ m) : exp m x.1 ≠ 0 := by
  rw [exp_of_mem h.sorted hx]; exact h.nozero x hx

/-- Every base of `r` is a base of `a` or `b`, phrased through exponents. -/
theorem base_of_exp_ne_zero {m : Mag} {p : Nat} (h : exp m p ≠ 0) : ∃ x ∈ m, x.1 = p := mem_of_exp_ne_zero h

/-! ### `common` -/

theorem exp_common {a b : Mag} (ha : Ok a) (hb : Ok b) (p : Nat) :
    exp (common a b) p = min (exp a p) (exp b p) := by
  fun_induction common a b with
  | case1 => simp
  | case2 h t => rw [exp_negPowers hb]; simp; omega
  | case3 h t => rw [exp_negPowers ha]; simp
  | case4 b1 e1 t1 b2 e2 t2 hlt ih =>
    have ih' := ih ha.tail hb
    unfold prependIfNeg
    by_cases hbp : b1 = p
    · subst hbp
      have h0 : exp t1 b1 = 0 := exp_eq_zero_of_lt t1 b1 ha.head_lt
      have h1 : exp ((b2, e2) :: t2) b1 = 0 := exp_eq_zero_of_lt _ _ (by
        intro z hz; rcases List.mem_cons.1 hz with rfl | hz
        · exact hlt
        · have := hb.head_lt z hz; simp at this ⊢; omega)
      rw [h0, h1] at ih'
      simp only [exp_cons, if_true, h0] at h1 ⊢
      split
      · simp only [exp_cons, if_true, ih']; omega
      · rw [ih']; omega
    · simp only [exp_cons, if_neg hbp] at ih' ⊢
      split
      · simp only [exp_cons, if_neg hbp, ih']; omega
      · rw [ih']; omega
  | case5 b1 e1 t1 b2 e2 t2 h1 hlt ih =>
    have ih' := ih hb.tail ha
    unfold prependIfNeg
    by_cases hbp : b2 = p
    · subst hbp
      have h0 : exp t2 b2 = 0 := exp_eq_zero_of_lt t2 b2 hb.head_lt
      have h1 : exp ((b1, e1) :: t1) b2 = 0 := exp_eq_zero_of_lt _ _ (by
        intro z hz; rcases List.mem_cons.1 hz with rfl | hz
        · exact hlt
        · have := ha.head_lt z hz; simp at this ⊢; omega)
      rw [h0, h1] at ih'
      simp only [exp_cons, if_true, h0] at h1 ⊢
      split
      · simp only [exp_cons, if_true, ih']; omega
      · rw [ih']; omega
    · simp only [exp_cons, if_neg hbp] at ih' ⊢
      split
      · simp only [exp_cons, if_neg hbp, ih']; omega
      · rw [ih']; omega
  | case6 b1 e1 t1 b2 e2 t2 h1 h2 h3 ih =>
    have hbb : b1 = b2 := by omega
    subst hbb
    have ih' := ih ha.tail hb.tail
    by_cases hbp : b1 = p
    · subst hbp
      have h0 : exp t1 b1 = 0 := exp_eq_zero_of_lt t1 b1 ha.head_lt
      have h0' : exp t2 b1 = 0 := exp_eq_zero_of_lt t2 b1 hb.head_lt
      simp only [exp_cons, if_true, ih', h0, h0']
      omega
    · simp only [exp_cons, if_neg hbp, ih']
      omega
  | case7 b1 e1 t1 b2 e2 t2 h1 h2 h3 ih =>
    have hbb : b1 = b2 := by omega
    subst hbb
    have ih' := ih ha.tail hb.tail
    by_cases hbp : b1 = p
    · subst hbp
      have h0 : exp t1 b1 = 0 := exp_eq_zero_of_lt t1 b1 ha.head_lt
      have h0' : exp t2 b1 = 0 := exp_eq_zero_of_lt t2 b1 hb.head_lt
      simp only [exp_cons, if_true, ih', h0, h0']
      omega
    · simp only [exp_cons, if_neg hbp, ih']
      omega


/-- A base occurring in `common a b` (for valid `a`, `b` and valid result) occurs in `a` or `b`. -/
theorem base_common_of_ok {a b : Mag} (ha : Ok a) (hb : Ok b) (hc : Ok (common a b))
    {x : Nat × Int} (hx : x ∈ common a b) : (∃ y ∈ a, y.1 = x.1) ∨ (∃ y ∈ b, y.1 = x.1) := by
  have h := mem_base_of_mem hc hx
  rw [exp_common ha hb] at h
  by_cases h1 : exp a x.1 = 0
  · right
    apply mem_of_exp_ne_zero
    intro h2; rw [h1, h2] at h; simp at h
  · left; exact mem_of_exp_ne_zero h1

theorem ok_common {a b : Mag} (ha : Ok a) (hb : Ok b) : Ok (common a b) := by
  fun_induction common a b with
  | case1 => exact ok_nil
  | case2 h t => exact ok_negPowers hb
  | case3 h t => exact ok_negPowers ha
  | case4 b1 e1 t1 b2 e2 t2 hlt ih =>
    have ih' := ih ha.tail hb
    unfold prependIfNeg
    split
    · refine ok_cons (ha.primes _ (List.mem_cons_self ..)) (ha.nozero _ (List.mem_cons_self ..)) ?_ ih'
      intro x hx
      rcases base_common_of_ok ha.tail hb ih' hx with ⟨y, hy, e⟩ | ⟨y, hy, e⟩
      · have := ha.head_lt y hy; simp at this ⊢; omega
      · rcases List.mem_cons.1 hy with rfl | hy
        · simp at e ⊢; omega
        · have := hb.head_lt y hy; simp at this ⊢; omega
    · exact ih'
  | case5 b1 e1 t1 b2 e2 t2 h1 hlt ih =>
    have ih' := ih hb.tail ha
    unfold prependIfNeg
    split
    · refine ok_cons (hb.primes _ (List.mem_cons_self ..)) (hb.nozero _ (List.mem_cons_self ..)) ?_ ih'
      intro x hx
      rcases base_common_of_ok hb.tail ha ih' hx with ⟨y, hy, e⟩ | ⟨y, hy, e⟩
      · have := hb.head_lt y hy; simp at this ⊢; omega
      · rcases List.mem_cons.1 hy with rfl | hy
        · simp at e ⊢; omega
        · have := ha.head_lt y hy; simp at this ⊢; omega
    · exact ih'
  | case6 b1 e1 t1 b2 e2 t2 h1 h2 h3 ih =>
    have hbb : b1 = b2 := by omega
    subst hbb
    have ih' := ih ha.tail hb.tail
    refine ok_cons (ha.primes _ (List.mem_cons_self ..)) (ha.nozero _ (List.mem_cons_self ..)) ?_ ih'
    intro x hx
    rcases base_common_of_ok ha.tail hb.tail ih' hx with ⟨y, hy, e⟩ | ⟨y, hy, e⟩
    · have := ha.head_lt y hy; simp at this ⊢; omega
    · have := hb.head_lt y hy; simp at this ⊢; omega
  | case7 b1 e1 t1 b2 e2 t2 h1 h2 h3 ih =>
    have hbb : b1 = b2 := by omega
    subst hbb
    have ih' := ih ha.tail hb.tail
    refine ok_cons (hb.primes _ (List.mem_cons_self ..)) (hb.nozero _ (List.mem_cons_self ..)) ?_ ih'
    intro x hx
    rcases base_common_of_ok ha.tail hb.tail ih' hx with ⟨y, hy, e⟩ | ⟨y, hy, e⟩
    · have := ha.head_lt y hy; simp at this ⊢; omega
    · have := hb.head_lt y hy; simp at this ⊢; omega

/-! ### `isInteger`, `natValue` -/

theorem isInteger_iff {m : Mag} (h : Ok m) : isInteger m = true ↔ ∀ p, 0 ≤ exp m p := by
  unfold isInteger
  rw [List.all_eq_true]
  constructor
  · intro hall p
    by_cases hz : exp m p = 0
    · omega
    · obtain ⟨x, hx, rfl⟩ := mem_of_exp_ne_zero hz
      rw [exp_of_mem h.sorted hx]
      have := hall x hx
      simp at this
      omega
  · intro hp x hx
    have h1 := hp x.1
    rw [exp_of_mem h.sorted hx] at h1
    have h2 := h.nozero x hx
    simp
    omega

theorem exp_nonneg_of_entries {m : Mag} (h : ∀ x ∈ m, 0 ≤ x.2) (p : Nat) : 0 ≤ exp m p := by
  induction m with
  | nil => simp
  | cons a t ih =>
    obtain ⟨b, e⟩ := a
    have he : 0 ≤ e := h (b, e) (List.mem_cons_self ..)
    have := ih (fun x hx => h x (List.mem_cons_of_mem _ hx))
    simp only [exp_cons]
    split <;> omega

theorem entries_nonneg_of_exp {m : Mag} (hs : Sorted m) (h : ∀ p, 0 ≤ exp m p) : ∀ x ∈ m, 0 ≤ x.2 := by
  intro x hx
  have := h x.1
  rwa [exp_of_mem hs hx] at this

/-- The value of a pack with prime bases and non-negative exponents, through its factorization. -/
theorem natValue_spec {m : Mag} (hp : Primes m) (hn : ∀ x ∈ m, 0 ≤ x.2) :
    natValue m ≠ 0 ∧ ∀ p, (natValue m).factorization p = (exp m p).toNat := by
  induction m with
  | nil => simp [natValue]
  | cons a t ih =>
    obtain ⟨b, e⟩ := a
    have hb : Nat.Prime b := hp (b, e) (List.mem_cons_self ..)
    have he : 0 ≤ e := hn (b, e) (List.mem_cons_self ..)
    obtain ⟨ih0, ih1⟩ := ih (fun x hx => hp x (List.mem_cons_of_mem _ hx)) (fun x hx => hn x (List.mem_cons_of_mem _ hx))
    have hpow : b ^ e.toNat ≠ 0 := pow_ne_zero _ hb.ne_zero
    refine ⟨by unfold natValue; exact Nat.mul_ne_zero hpow ih0, ?_⟩
    intro p
    unfold natValue
    rw [Nat.factorization_mul hpow ih0, Nat.factorization_pow, hb.factorization]
    have ht := exp_nonneg_of_entries (fun x hx => hn x (List.mem_cons_of_mem _ hx)) p
    simp only [Finsupp.coe_add, Finsupp.coe_smul, Pi.add_apply, Pi.smul_apply, Finsupp.single_apply, smul_eq_mul,
      exp_cons, ih1]
    by_cases hbp : b = p
    · simp [hbp]; omega
    · simp [hbp]

end Mag

/-! ### `mag<N>()` -/

theorem spfAux_spec (fuel : Nat) : ∀ (k n : Nat), 2 ≤ k → 2 ≤ n →
    (∀ m, 2 ≤ m → m < k → ¬ m ∣ n) → n + 2 ≤ fuel + k → spfAux fuel k n = n.minFac := by
  induction fuel with
  | zero =>
    intro k n hk hn hinv hf
    exact absurd (dvd_refl n) (hinv n hn (by omega))
  | succ f ih =>
    intro k n hk hn hinv hf
    have hge : k ≤ n.minFac := by
      by_contra hlt
      exact hinv n.minFac (Nat.minFac_prime (by omega)).two_le (by omega) (Nat.minFac_dvd n)
    unfold spfAux
    split
    · rename_i hsq
      have hprime : Nat.Prime n := by
        by_contra hnp
        have := Nat.minFac_sq_le_self (by omega) hnp
        have h2 : k * k ≤ n.minFac ^ 2 := by rw [pow_two]; exact Nat.mul_le_mul hge hge
        omega
      exact hprime.minFac_eq.symm
    · split
      · rename_i hmod
        have hdvd : k ∣ n := Nat.dvd_of_mod_eq_zero hmod
        have := Nat.minFac_le_of_dvd hk hdvd
        omega
      · rename_i hmod
        apply ih (k + 1) n (by omega) hn _ (by omega)
        intro m hm hmk
        by_cases hmk' : m = k
        · subst hmk'; intro hd; exact hmod (Nat.mod_eq_zero_of_dvd hd)
        · exact hinv m hm (by omega)

theorem spf_eq_minFac {n : Nat} (hn : 2 ≤ n) : spf n = n.minFac :=
  spfAux_spec n 2 n (by omega) hn (fun m h1 h2 => by omega) (by omega)

theorem multAux_spec {f : Nat} (hf : Nat.Prime f) (fuel : Nat) :
    ∀ n, 0 < n → n ≤ fuel → multAux fuel f n = n.factorization f := by
  induction fuel with
  | zero => intro n h1 h2; omega
  | succ k ih =>
    intro n hpos hle
    unfold multAux
    split
    · rename_i hmod
      have hdvd : f ∣ n := Nat.dvd_of_mod_eq_zero hmod
      obtain ⟨q, rfl⟩ := hdvd
      have hq : 0 < q := Nat.pos_of_mul_pos_left hpos |> fun h => by
        rcases Nat.eq_zero_or_pos q with h0 | h0
        · subst h0; simp at hpos
        · exact h0
      have hdiv : f * q / f = q := Nat.mul_div_cancel_left q hf.pos
      rw [hdiv, ih q hq (by
        have : q < f * q := by
          have := hf.two_le
          nlinarith
        omega)]
      rw [Nat.factorization_mul hf.ne_zero (by omega), hf.factorization]
      simp
      omega
    · rename_i hmod
      have : ¬ f ∣ n := fun hd => hmod (Nat.mod_eq_zero_of_dvd hd)
      exact (Nat.factorization_eq_zero_of_not_dvd this).symm

theorem multiplicity_eq {f n : Nat} (hf : Nat.Prime f) (hn : 0 < n) : multiplicity f n = n.factorization f :=
  multAux_spec hf n n hn (le_refl n)

theorem factorizeAux_spec (fuel : Nat) : ∀ n, 0 < n → n ≤ fuel →
    Mag.Ok (factorizeAux fuel n) ∧ ∀ p, Mag.exp (factorizeAux fuel n) p = n.factorization p := by
  induction fuel with
  | zero => intro n h1 h2; omega
  | succ k ih =>
    intro n hpos hle
    unfold factorizeAux
    split
    · rename_i h1
      have : n = 1 := by omega
      subst this
      exact ⟨Mag.ok_nil, fun p => by simp⟩
    · rename_i h1
      have hn2 : 2 ≤ n := by omega
      have hb : spf n = n.minFac := spf_eq_minFac hn2
      have hprime : Nat.Prime n.minFac := Nat.minFac_prime (by omega)
      have hmult : multiplicity n.minFac n = n.factorization n.minFac := multiplicity_eq hprime hpos
      simp only [hb, hmult]
      have hfpos : 0 < n.factorization n.minFac :=
        hprime.factorization_pos_of_dvd (by omega) (Nat.minFac_dvd n)
      have hrpos : 0 < n / n.minFac ^ n.factorization n.minFac := Nat.ordCompl_pos _ (by omega)
      have hrlt : n / n.minFac ^ n.factorization n.minFac < n := by
        apply Nat.div_lt_self hpos
        calc 1 < n.minFac := hprime.one_lt
          _ = n.minFac ^ 1 := (pow_one _).symm
          _ ≤ n.minFac ^ n.factorization n.minFac := Nat.pow_le_pow_right hprime.pos hfpos
      obtain ⟨ihok, ihexp⟩ := ih _ hrpos (by omega)
      refine ⟨Mag.ok_mul (Mag.ok_single hprime (by omega)) ihok, ?_⟩
      intro p
      rw [Mag.exp_mul, ihexp, Nat.factorization_ordCompl]
      simp only [Mag.exp_cons, Mag.exp_nil, Finsupp.erase_apply]
      by_cases hp : n.minFac = p
      · subst hp; simp
      · have hp' : p ≠ n.minFac := fun h => hp h.symm
        simp [hp, hp']

theorem ok_magNat {n : Nat} (hn : 0 < n) : Mag.Ok (magNat n) := (factorizeAux_spec n n hn (le_refl n)).1

theorem exp_magNat {n : Nat} (hn : 0 < n) (p : Nat) : Mag.exp (magNat n) p = n.factorization p :=
  (factorizeAux_spec n n hn (le_refl n)).2 p


/-! ## Periods -/

def Period.Pos (p : Period) : Prop := 0 < p.num ∧ 0 < p.den

theorem Period.norm_pos {p : Period} (hp : p.Pos) : p.norm.Pos := by
  have hg : 0 < Nat.gcd p.num p.den := Nat.gcd_pos_of_pos_left _ hp.1
  exact ⟨Nat.div_pos (Nat.gcd_le_left _ hp.1) hg, Nat.div_pos (Nat.gcd_le_right _ hp.2) hg⟩

theorem Period.norm_coprime {p : Period} (hp : p.Pos) : Nat.Coprime p.norm.num p.norm.den :=
  Nat.coprime_div_gcd_div_gcd (Nat.gcd_pos_of_pos_left _ hp.1)

theorem Period.norm_of_coprime {p : Period} (h : Nat.Coprime p.num p.den) : p.norm = p := by
  unfold Period.norm
  have : Nat.gcd p.num p.den = 1 := h
  simp [this]

theorem Period.norm_norm {p : Period} (hp : p.Pos) : p.norm.norm = p.norm :=
  Period.norm_of_coprime (Period.norm_coprime hp)

theorem fac_disjoint {a b : Nat} (h : Nat.Coprime a b) (q : Nat) :
    a.factorization q = 0 ∨ b.factorization q = 0 := by
  by_contra hc
  simp only [not_or] at hc
  have h1 : 0 < a.factorization q := Nat.pos_of_ne_zero hc.1
  have h2 : 0 < b.factorization q := Nat.pos_of_ne_zero hc.2
  have hq : Nat.Prime q := Nat.prime_of_mem_primeFactors (Nat.support_factorization a ▸ Finsupp.mem_support_iff.2 hc.1)
  have hd1 : q ∣ a := Nat.dvd_of_factorization_pos hc.1
  have hd2 : q ∣ b := Nat.dvd_of_factorization_pos hc.2
  have := Nat.dvd_gcd hd1 hd2
  rw [h] at this
  exact hq.one_lt.ne' (Nat.dvd_one.1 this)

theorem ok_ratioMag {p : Period} (hp : p.Pos) : Mag.Ok (ratioMag p) :=
  Mag.ok_div (ok_magNat (Period.norm_pos hp).1) (ok_magNat (Period.norm_pos hp).2)

theorem exp_ratioMag {p : Period} (hp : p.Pos) (q : Nat) :
    Mag.exp (ratioMag p) q = (p.norm.num.factorization q : Int) - (p.norm.den.factorization q : Int) := by
  unfold ratioMag
  rw [Mag.exp_div, exp_magNat (Period.norm_pos hp).1, exp_magNat (Period.norm_pos hp).2]

theorem ratioMag_norm {p : Period} (hp : p.Pos) : ratioMag p.norm = ratioMag p := by
  unfold ratioMag; rw [Period.norm_norm hp]

/-- A valid pack with non-negative exponents whose exponents are the factorization of `n` has
value `n`. -/
theorem natValue_eq {m : Mag} (hm : Mag.Ok m) (hnn : ∀ p, 0 ≤ Mag.exp m p) {n : Nat} (hn : n ≠ 0)
    (h : ∀ p, (Mag.exp m p).toNat = n.factorization p) : m.natValue = n := by
  obtain ⟨h0, h1⟩ := Mag.natValue_spec hm.primes (Mag.entries_nonneg_of_exp hm.sorted hnn)
  exact Nat.eq_of_factorization_eq h0 hn (fun p => by rw [h1, h])

/-- **The unit of `as_quantity(d)` is seconds × Period**: the numerator and denominator of the
corresponding unit's magnitude are integer magnitudes with values `Period::num`, `Period::den`. -/
theorem ratioMag_value {p : Period} (hp : p.Pos) :
    (Mag.numerator (ratioMag p)).isInteger = true ∧ (Mag.numerator (ratioMag p)).natValue = p.norm.num ∧
    (Mag.denominator (ratioMag p)).isInteger = true ∧ (Mag.denominator (ratioMag p)).natValue = p.norm.den := by
  have hok := ok_ratioMag hp
  have hnp := Period.norm_pos hp
  have hdis := fac_disjoint (Period.norm_coprime hp)
  have hnum : ∀ q, Mag.exp (Mag.numerator (ratioMag p)) q = (p.norm.num.factorization q : Int) := by
    intro q
    rw [Mag.exp_numerator hok.sorted, exp_ratioMag hp]
    rcases hdis q with h | h <;> rw [h] <;> simp
  have hden : ∀ q, Mag.exp (Mag.denominator (ratioMag p)) q = (p.norm.den.factorization q : Int) := by
    intro q
    rw [Mag.exp_denominator hok, exp_ratioMag hp]
    rcases hdis q with h | h <;> rw [h] <;> simp
  refine ⟨?_, ?_, ?_, ?_⟩
  · rw [Mag.isInteger_iff (Mag.ok_numerator hok)]; intro q; rw [hnum]; omega
  · exact natValue_eq (Mag.ok_numerator hok) (fun q => by rw [hnum]; omega) (by have := hnp.1; omega)
      (fun q => by rw [hnum]; simp)
  · rw [Mag.isInteger_iff (Mag.ok_denominator hok)]; intro q; rw [hden]; omega
  · exact natValue_eq (Mag.ok_denominator hok) (fun q => by rw [hden]; omega) (by have := hnp.2; omega)
      (fun q => by rw [hden]; simp)


/-! ## Au's common unit is chrono's common period -/

theorem chronoCommonPeriod_eq {p1 p2 : Period} (h1 : p1.Pos) (h2 : p2.Pos) :
    chronoCommonPeriod p1 p2 = ⟨Nat.gcd p1.norm.num p2.norm.num, Nat.lcm p1.norm.den p2.norm.den⟩ := by
  have hn1 := Period.norm_pos h1
  have hn2 := Period.norm_pos h2
  have hc1 := Period.norm_coprime h1
  have hc2 := Period.norm_coprime h2
  unfold chronoCommonPeriod
  have hl : p1.norm.den / Nat.gcd p1.norm.den p2.norm.den * p2.norm.den = Nat.lcm p1.norm.den p2.norm.den := by
    rw [Nat.lcm]; exact Nat.div_mul_right_comm (Nat.gcd_dvd_left _ _) _
  simp only [hl]
  apply Period.norm_of_coprime
  show Nat.Coprime (Nat.gcd p1.norm.num p2.norm.num) (Nat.lcm p1.norm.den p2.norm.den)
  have ha : Nat.Coprime (Nat.gcd p1.norm.num p2.norm.num) p1.norm.den :=
    Nat.Coprime.coprime_dvd_left (Nat.gcd_dvd_left _ _) hc1
  have hb : Nat.Coprime (Nat.gcd p1.norm.num p2.norm.num) p2.norm.den :=
    Nat.Coprime.coprime_dvd_left (Nat.gcd_dvd_right _ _) hc2
  exact Nat.Coprime.coprime_dvd_right (Nat.lcm_dvd_mul _ _) (Nat.Coprime.mul_right ha hb)

theorem chronoCommonPeriod_pos {p1 p2 : Period} (h1 : p1.Pos) (h2 : p2.Pos) : (chronoCommonPeriod p1 p2).Pos := by
  rw [chronoCommonPeriod_eq h1 h2]
  exact ⟨Nat.gcd_pos_of_pos_left _ (Period.norm_pos h1).1, Nat.lcm_pos (Period.norm_pos h1).2 (Period.norm_pos h2).2⟩

theorem chronoCommonPeriod_norm {p1 p2 : Period} (h1 : p1.Pos) (h2 : p2.Pos) :
    (chronoCommonPeriod p1 p2).norm = chronoCommonPeriod p1 p2 := by
  unfold chronoCommonPeriod
  exact Period.norm_norm ⟨Nat.gcd_pos_of_pos_left _ (Period.norm_pos h1).1,
    Nat.mul_pos (Nat.div_pos (Nat.gcd_le_left _ (Period.norm_pos h1).2) (Nat.gcd_pos_of_pos_left _ (Period.norm_pos h1).2))
      (Period.norm_pos h2).2⟩

/-- **C17_common_period (pack form).**  `CommonMagnitude` of the two corresponding units is the
magnitude of chrono's common period: the very same pack. -/
theorem common_eq_ratioMag {p1 p2 : Period} (h1 : p1.Pos) (h2 : p2.Pos) :
    Mag.common (ratioMag p1) (ratioMag p2) = ratioMag (chronoCommonPeriod p1 p2) := by
  have hn1 := Period.norm_pos h1
  have hn2 := Period.norm_pos h2
  have hcp := chronoCommonPeriod_pos h1 h2
  have hok := Mag.ok_common (ok_ratioMag h1) (ok_ratioMag h2)
  have hok' := ok_ratioMag hcp
  apply Mag.ext_of_exp hok.sorted hok.nozero hok'.sorted hok'.nozero
  intro q
  rw [Mag.exp_common (ok_ratioMag h1) (ok_ratioMag h2), exp_ratioMag h1, exp_ratioMag h2, exp_ratioMag hcp,
    chronoCommonPeriod_norm h1 h2, chronoCommonPeriod_eq h1 h2]
  simp only []
  rw [Nat.factorization_gcd (by have := hn1.1; omega) (by have := hn2.1; omega),
    Nat.factorization_lcm (by have := hn1.2; omega) (by have := hn2.2; omega)]
  simp only [Finsupp.inf_apply, Finsupp.sup_apply]
  rcases fac_disjoint (Period.norm_coprime h1) q with ha | ha <;>
    rcases fac_disjoint (Period.norm_coprime h2) q with hb | hb <;> rw [ha, hb] <;> simp

/-! ## Scale factors -/

/-- The magnitude quotient of two period units is an integer exactly when `std::ratio_divide` of
the periods has denominator 1, and then its value is that ratio's numerator. -/
theorem scaleFactor_spec {p c : Period} (hp : p.Pos) (hc : c.Pos) :
    ((Mag.div (ratioMag p) (ratioMag c)).isInteger = true ↔ (ratioDivide p c).den = 1) ∧
    ((Mag.div (ratioMag p) (ratioMag c)).isInteger = true →
      (Mag.div (ratioMag p) (ratioMag c)).natValue = (ratioDivide p c).num) := by
  have hnp := Period.norm_pos hp
  have hnc := Period.norm_pos hc
  have hok := Mag.ok_div (ok_ratioMag hp) (ok_ratioMag hc)
  set X := p.norm.num * c.norm.den with hX
  set Y := p.norm.den * c.norm.num with hY
  have hXpos : 0 < X := Nat.mul_pos hnp.1 hnc.2
  have hYpos : 0 < Y := Nat.mul_pos hnp.2 hnc.1
  have hexp : ∀ q, Mag.exp (Mag.div (ratioMag p) (ratioMag c)) q = (X.factorization q : Int) - (Y.factorization q : Int) := by
    intro q
    rw [Mag.exp_div, exp_ratioMag hp, exp_ratioMag hc, hX, hY,
      Nat.factorization_mul (by have := hnp.1; omega) (by have := hnc.2; omega),
      Nat.factorization_mul (by have := hnp.2; omega) (by have := hnc.1; omega)]
    simp only [Finsupp.coe_add, Pi.add_apply]
    push_cast
    ring
  have hint : (Mag.div (ratioMag p) (ratioMag c)).isInteger = true ↔ Y ∣ X := by
    rw [Mag.isInteger_iff hok, ← Nat.factorization_le_iff_dvd (by omega) (by omega)]
    constructor
    · intro h q; have := h q; rw [hexp] at this; omega
    · intro h q; have := h q; rw [hexp]; omega
  have hrd : ratioDivide p c = (Period.mk X Y).norm := rfl
  have hden : (ratioDivide p c).den = 1 ↔ Y ∣ X := by
    rw [hrd]
    show Y / Nat.gcd X Y = 1 ↔ Y ∣ X
    have hg : 0 < Nat.gcd X Y := Nat.gcd_pos_of_pos_left _ hXpos
    constructor
    · intro h
      have hgd : Nat.gcd X Y ∣ Y := Nat.gcd_dvd_right _ _
      have : Y = Nat.gcd X Y := by
        have h3 := Nat.div_mul_cancel hgd
        rw [h, Nat.one_mul] at h3
        exact h3.symm
      rw [this]; exact Nat.gcd_dvd_left _ _
    · intro h
      rw [Nat.gcd_eq_right_iff_dvd.2 h]
      exact Nat.div_self hYpos
  refine ⟨hint.trans hden.symm, ?_⟩
  intro hi
  have hdvd : Y ∣ X := hint.1 hi
  have hnum : (ratioDivide p c).num = X / Y := by
    rw [hrd]
    show X / Nat.gcd X Y = X / Y
    rw [Nat.gcd_eq_right_iff_dvd.2 hdvd]
  rw [hnum]
  apply natValue_eq hok ((Mag.isInteger_iff hok).1 hi)
    (Nat.ne_of_gt (Nat.div_pos (Nat.le_of_dvd hXpos hdvd) hYpos))
  intro q
  rw [hexp, Nat.factorization_div hdvd]
  have hle := (Nat.factorization_le_iff_dvd (by omega) (by omega)).2 hdvd q
  simp only [Finsupp.coe_tsub, Pi.sub_apply]
  omega

/-- Both operands are integer multiples of the common unit. -/
theorem common_scale_integer {p1 p2 : Period} (h1 : p1.Pos) (h2 : p2.Pos) :
    (Mag.div (ratioMag p1) (Mag.common (ratioMag p1) (ratioMag p2))).isInteger = true ∧
    (Mag.div (ratioMag p2) (Mag.common (ratioMag p1) (ratioMag p2))).isInteger = true := by
  have hc := Mag.ok_common (ok_ratioMag h1) (ok_ratioMag h2)
  constructor
  · rw [Mag.isInteger_iff (Mag.ok_div (ok_ratioMag h1) hc)]
    intro q; rw [Mag.exp_div, Mag.exp_common (ok_ratioMag h1) (ok_ratioMag h2)]; omega
  · rw [Mag.isInteger_iff (Mag.ok_div (ok_ratioMag h2) hc)]
    intro q; rw [Mag.exp_div, Mag.exp_common (ok_ratioMag h1) (ok_ratioMag h2)]; omega

/-! ## The implicit-conversion policy in closed form -/

/-- An integer magnitude of value 1 is `Magnitude<>`. -/
theorem eq_nil_of_natValue_one {m : Mag} (hm : Mag.Ok m) (hi : m.isInteger = true) (h1 : m.natValue ≤ 1) : m = [] := by
  have hnn := (Mag.isInteger_iff hm).1 hi
  obtain ⟨h0, hf⟩ := Mag.natValue_spec hm.primes (Mag.entries_nonneg_of_exp hm.sorted hnn)
  have hone : m.natValue = 1 := by omega
  apply Mag.eq_nil_of_exp_zero hm
  intro p
  have := hf p
  rw [hone] at this
  simp at this
  have := hnn p
  omega

theorem natValue_pos {m : Mag} (hm : Mag.Ok m) (hi : m.isInteger = true) : 0 < m.natValue := by
  have := (Mag.natValue_spec hm.primes (Mag.entries_nonneg_of_exp hm.sorted ((Mag.isInteger_iff hm).1 hi))).1
  omega

theorem tdiv_ge_iff (h k : Int) (hh : 0 ≤ h) (hk : 0 < k) : (Int.tdiv h k ≥ 2147 ↔ 2147 * k ≤ h) := by
  rw [Int.tdiv_eq_ediv_of_nonneg hh, ge_iff_le, Int.le_ediv_iff_mul_le hk]

/-- `CanScaleThresholdWithoutOverflow` in closed form, for int32/int64 and an integer factor. -/
theorem canScale_spec (t : IntTy) (ht : t = IntTy.i32 ∨ t = IntTy.i64) {sf : Mag} (hok : Mag.Ok sf)
    (hi : sf.isInteger = true) :
    canScaleThreshold t sf = decide (2147 * (sf.natValue : Int) ≤ t.hi) := by
  have hpos := natValue_pos hok hi
  have hthr : (2147 : Int) ≤ t.hi := by rcases ht with rfl | rfl <;> decide
  have hhi : (0 : Int) ≤ t.hi := by omega
  unfold canScaleThreshold
  simp only [overflowThreshold, hthr, decide_true, Bool.true_and]
  by_cases hone : sf.natValue ≤ 1
  · have h1 : sf.natValue = 1 := by omega
    rw [if_pos hone, h1]
    simp [hthr]
  · rw [if_neg hone]
    unfold getValueInt
    rw [hi]
    by_cases hfit : (sf.natValue : Int) ≤ t.hi
    · simp only [Bool.true_and, decide_eq_true_eq, hfit, if_true]
      have := tdiv_ge_iff t.hi (sf.natValue : Int) hhi (by omega)
      by_cases h2 : 2147 * (sf.natValue : Int) ≤ t.hi
      · simp [h2, this.2 h2]
      · have h3 : ¬ (Int.tdiv t.hi (sf.natValue : Int) ≥ 2147) := fun h => h2 (this.1 h)
        simp [h2, h3]
    · have h2 : ¬ (2147 * (sf.natValue : Int) ≤ t.hi) := by omega
      simp [hfit, h2]

/-- `PermitImplicitFrom` between two integral reps, in closed form. -/
theorem permit_int_int (tr sr : Rep) (t : IntTy) (htr : tr.intTy? = some t) (hsr : sr.isIntegral = true)
    (tgt src : Mag) (hok : Mag.Ok (Mag.div src tgt)) :
    permitImplicitFrom tgt tr src sr =
      ((Mag.div src tgt).isInteger && decide (2147 * ((Mag.div src tgt).natValue : Int) ≤ t.hi)) := by
  unfold permitImplicitFrom
  simp only []
  generalize Mag.div src tgt = sf at *
  have ht : t = IntTy.i32 ∨ t = IntTy.i64 := by
    cases tr <;> simp [Rep.intTy?] at htr <;> subst htr <;> simp
  have hthr : (2147 : Int) ≤ t.hi := by rcases ht with rfl | rfl <;> decide
  by_cases hnil : sf = []
  · subst hnil
    have hcore : corePolicy tr [] sr = true := by
      unfold corePolicy
      by_cases hrs : tr = sr
      · simp [hrs]
      · simp [hrs, htr, hsr, Mag.isInteger, canScaleThreshold, Mag.natValue, overflowThreshold, hthr]
    rw [hcore]
    simp [Mag.isInteger, Mag.natValue, hthr]
  · have hcarve : carveOut tr sf sr = false := by simp [carveOut, hnil]
    rw [hcarve, Bool.or_false]
    unfold corePolicy
    have h0 : ¬ (sf = [] ∧ tr = sr) := fun h => hnil h.1
    rw [if_neg h0, htr]
    simp only [hsr, Bool.true_and]
    cases hi : sf.isInteger with
    | false => simp
    | true => rw [canScale_spec t ht hok hi]

/-- All facts relating `CommonMagnitude` of two period units to chrono's common period. -/
theorem common_period_all (p1 p2 : Period) (h1 : p1.Pos) (h2 : p2.Pos) :
    Mag.common (ratioMag p1) (ratioMag p2) = ratioMag (chronoCommonPeriod p1 p2) ∧
    chronoCommonPeriod p1 p2 = ⟨Nat.gcd p1.norm.num p2.norm.num, Nat.lcm p1.norm.den p2.norm.den⟩ ∧
    (Mag.numerator (Mag.common (ratioMag p1) (ratioMag p2))).natValue = Nat.gcd p1.norm.num p2.norm.num ∧
    (Mag.denominator (Mag.common (ratioMag p1) (ratioMag p2))).natValue = Nat.lcm p1.norm.den p2.norm.den ∧
    (Mag.div (ratioMag p1) (Mag.common (ratioMag p1) (ratioMag p2))).isInteger = true ∧
    (Mag.div (ratioMag p1) (Mag.common (ratioMag p1) (ratioMag p2))).natValue = (ratioDivide p1 (chronoCommonPeriod p1 p2)).num ∧
    (ratioDivide p1 (chronoCommonPeriod p1 p2)).den = 1 ∧
    (Mag.div (ratioMag p2) (Mag.common (ratioMag p1) (ratioMag p2))).isInteger = true ∧
    (Mag.div (ratioMag p2) (Mag.common (ratioMag p1) (ratioMag p2))).natValue = (ratioDivide p2 (chronoCommonPeriod p1 p2)).num ∧
    (ratioDivide p2 (chronoCommonPeriod p1 p2)).den = 1 := by
  have hcp := chronoCommonPeriod_pos h1 h2
  have heq := common_eq_ratioMag h1 h2
  have hcpe := chronoCommonPeriod_eq h1 h2
  obtain ⟨_, hv1, _, hv2⟩ := ratioMag_value hcp
  obtain ⟨hk1, hk2⟩ := common_scale_integer h1 h2
  have s1 := scaleFactor_spec h1 hcp
  have s2 := scaleFactor_spec h2 hcp
  rw [chronoCommonPeriod_norm h1 h2] at hv1 hv2
  rw [← heq] at s1 s2 hv1 hv2
  refine ⟨heq, hcpe, ?_, ?_, hk1, s1.2 hk1, s1.1.1 hk1, hk2, s2.2 hk2, s2.1.1 hk2⟩
  · rw [hv1, hcpe]
  · rw [hv2, hcpe]


end Au.Chrono

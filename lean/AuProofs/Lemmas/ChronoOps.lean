import AuProofs.Lemmas.Chrono
set_option linter.unusedSimpArgs false
set_option linter.unusedVariables false
namespace Au.Chrono

theorem wrap_i32 (v : Int) (h : IntTy.i32.inRange v) : IntTy.i32.wrap v = v := by
  unfold IntTy.inRange IntTy.lo IntTy.hi IntTy.i32 at h
  unfold IntTy.wrap IntTy.i32
  simp at h ⊢
  omega

theorem wrap_i64 (v : Int) (h : IntTy.i64.inRange v) : IntTy.i64.wrap v = v := by
  unfold IntTy.inRange IntTy.lo IntTy.hi IntTy.i64 at h
  unfold IntTy.wrap IntTy.i64
  simp at h ⊢
  omega

theorem wrap_i32_inRange (v : Int) : IntTy.i32.inRange (IntTy.i32.wrap v) := by
  unfold IntTy.inRange IntTy.lo IntTy.hi IntTy.wrap IntTy.i32
  simp
  constructor <;> split <;> omega

theorem i32_sub_i64 (v : Int) (h : IntTy.i32.inRange v) : IntTy.i64.inRange v := by
  unfold IntTy.inRange IntTy.lo IntTy.hi IntTy.i32 IntTy.i64 at *
  simp at h ⊢
  omega

theorem i64hi_val : i64hi = 9223372036854775807 := by decide

@[simp] theorem castTo_i32 (R : Rounding) (r : Rep) (v : Int) :
    castTo R r Rep.i32 (.i v) = (.ok (.i (IntTy.i32.wrap v)), decide (IntTy.i32.wrap v ≠ v)) := rfl
@[simp] theorem castTo_i64 (R : Rounding) (r : Rep) (v : Int) :
    castTo R r Rep.i64 (.i v) = (.ok (.i (IntTy.i64.wrap v)), decide (IntTy.i64.wrap v ≠ v)) := rfl

theorem mulRep_i32 (R : Rounding) (a b : Int) :
    mulRep R Rep.i32 (.i a) (.i b) =
      if IntTy.i32.inRange (a * b) then .ok (.i (a * b)) else .ub "signed overflow in multiplication" := by
  unfold mulRep mulIn
  by_cases h : IntTy.i32.inRange (a * b)
  · have hs : IntTy.i32.signed = true := rfl
    have hs' : IntTy.i64.signed = true := rfl
    simp [Rep.intTy?, h, hs, hs']
  · have hs : IntTy.i32.signed = true := rfl
    have hs' : IntTy.i64.signed = true := rfl
    simp [Rep.intTy?, h, hs, hs']

theorem mulRep_i64 (R : Rounding) (a b : Int) :
    mulRep R Rep.i64 (.i a) (.i b) =
      if IntTy.i64.inRange (a * b) then .ok (.i (a * b)) else .ub "signed overflow in multiplication" := by
  unfold mulRep mulIn
  by_cases h : IntTy.i64.inRange (a * b)
  · have hs : IntTy.i32.signed = true := rfl
    have hs' : IntTy.i64.signed = true := rfl
    simp [Rep.intTy?, h, hs, hs']
  · have hs : IntTy.i32.signed = true := rfl
    have hs' : IntTy.i64.signed = true := rfl
    simp [Rep.intTy?, h, hs, hs']

@[simp] theorem getValueRep_i32 (R : Rounding) (m : Mag) : getValueRep R Rep.i32 m = .ok (.i (m.natValue : Int)) := rfl
@[simp] theorem getValueRep_i64 (R : Rounding) (m : Mag) : getValueRep R Rep.i64 m = .ok (.i (m.natValue : Int)) := rfl

/-- Au's pipeline on an integral common rep, in closed form. -/
theorem scale_i32 (R : Rounding) (sf : Mag) (r : Rep) (v : Int) (hv : IntTy.i32.inRange v) :
    scaleToCommon R Rep.i32 sf r (.i v) =
      if IntTy.i32.inRange (v * (sf.natValue : Int)) then .ok (.i (v * (sf.natValue : Int)))
      else .ub "signed overflow in multiplication" := by
  unfold scaleToCommon
  simp only [castTo_i32, wrap_i32 v hv, Res.bind, getValueRep_i32, Mag.natValue, mulRep_i32]
  simp [hv]
  by_cases h : IntTy.i32.inRange (v * (sf.natValue : Int)) <;> simp [h, mulRep_i32]

theorem scale_i64 (R : Rounding) (sf : Mag) (r : Rep) (v : Int) (hv : IntTy.i64.inRange v) :
    scaleToCommon R Rep.i64 sf r (.i v) =
      if IntTy.i64.inRange (v * (sf.natValue : Int)) then .ok (.i (v * (sf.natValue : Int)))
      else .ub "signed overflow in multiplication" := by
  unfold scaleToCommon
  simp only [castTo_i64, wrap_i64 v hv, Res.bind, getValueRep_i64, Mag.natValue, mulRep_i64]
  simp [hv]
  by_cases h : IntTy.i64.inRange (v * (sf.natValue : Int)) <;> simp [h, mulRep_i64]

/-- chrono's `duration_cast` to an integral common rep, in closed form (the factor fits
`intmax_t`, the count is an `int64_t` value). -/
theorem dcast_int (R : Rounding) (cr r : Rep) (hcr : cr = Rep.i32 ∨ cr = Rep.i64) (hr : r = Rep.i32 ∨ r = Rep.i64)
    (tc : IntTy) (htc : cr.intTy? = some tc)
    (v : Int) (hv : IntTy.i64.inRange v) (cf : Period) (hden : cf.den = 1) (h64 : (cf.num : Int) ≤ i64hi) :
    durationCastCF R cr cf r (.i v) =
      if cf.num = 1 then (.ok (.i (tc.wrap v)), decide (tc.wrap v ≠ v))
      else if IntTy.i64.inRange (v * (cf.num : Int)) then
        (.ok (.i (tc.wrap (v * (cf.num : Int)))), decide (tc.wrap (v * (cf.num : Int)) ≠ v * (cf.num : Int)))
      else (.ub "signed overflow in multiplication", false) := by
  have hcw : IntTy.i64.wrap (cf.num : Int) = (cf.num : Int) := wrap_i64 _ (by
    rw [i64hi_val] at h64
    unfold IntTy.inRange IntTy.lo IntTy.hi IntTy.i64; simp; omega)
  have hc3 : Rep.common (Rep.common cr r) Rep.i64 = Rep.i64 := by
    rcases hcr with rfl | rfl <;> rcases hr with rfl | rfl <;> rfl
  unfold durationCastCF
  simp only [hden, ne_eq, not_true_eq_false, if_false, hc3]
  by_cases h1 : cf.num = 1
  · simp only [h1, if_true]
    rcases hcr with rfl | rfl <;> simp [Rep.intTy?] at htc <;> subst htc <;> simp
  · simp only [h1, if_false, castTo_i64, wrap_i64 v hv, hcw, Res.bind, mulRep_i64]
    by_cases hin : IntTy.i64.inRange (v * (cf.num : Int))
    · simp only [hin, if_true]
      rcases hcr with rfl | rfl <;> simp [Rep.intTy?] at htc <;> subst htc <;> simp
    · simp only [hin, if_false]

/-- Integral common rep: whenever chrono's `duration_cast` to the common type is clean, Au's
`cast_to_common_type` returns the same count. -/
theorem operand_int (R : Rounding) (cr r : Rep)
    (hc : (cr, r) = (Rep.i32, Rep.i32) ∨ (cr, r) = (Rep.i64, Rep.i32) ∨ (cr, r) = (Rep.i64, Rep.i64))
    (x : Val) (hx : x.Holds R r) (cf : Period) (hden : cf.den = 1) (h64 : (cf.num : Int) ≤ i64hi)
    (sf : Mag) (hsf : sf.natValue = cf.num) (out : Val)
    (h : durationCastCF R cr cf r x = (.ok out, false)) : scaleToCommon R cr sf r x = .ok out := by
  cases x with
  | f q =>
    rcases hc with hc | hc | hc <;> (cases hc; obtain ⟨t, ht, _⟩ := hx; simp [Rep.fmt?] at ht)
  | i v =>
    obtain ⟨t, ht, hv⟩ := hx
    rcases hc with hc | hc | hc <;> cases hc <;> simp only [Rep.intTy?, Option.some.injEq] at ht <;> subst ht
    · have hv64 := i32_sub_i64 v hv
      rw [dcast_int R _ _ (Or.inl rfl) (Or.inl rfl) IntTy.i32 rfl v hv64 cf hden h64] at h
      rw [scale_i32 R sf _ v hv, hsf]
      by_cases h1 : cf.num = 1
      · simp [h1, wrap_i32 v hv] at h ⊢; simp [hv, h]
      · simp only [h1, if_false] at h
        by_cases hin : IntTy.i64.inRange (v * (cf.num : Int))
        · simp only [hin, if_true, Prod.mk.injEq, Res.ok.injEq, decide_eq_false_iff_not, ne_eq, not_not] at h
          have hin32 : IntTy.i32.inRange (v * (cf.num : Int)) := by rw [← h.2]; exact wrap_i32_inRange _
          simp [hin32, ← h.1, h.2]
        · simp [hin] at h
    · have hv64 := i32_sub_i64 v hv
      rw [dcast_int R _ _ (Or.inr rfl) (Or.inl rfl) IntTy.i64 rfl v hv64 cf hden h64] at h
      rw [scale_i64 R sf _ v hv64, hsf]
      by_cases h1 : cf.num = 1
      · simp [h1, wrap_i64 v hv64] at h ⊢; simp [hv64, h]
      · simp only [h1, if_false] at h
        by_cases hin : IntTy.i64.inRange (v * (cf.num : Int))
        · simp only [hin, if_true, Prod.mk.injEq, Res.ok.injEq, decide_eq_false_iff_not, ne_eq, not_not] at h
          simp [hin, ← h.1, h.2]
        · simp [hin] at h
    · rw [dcast_int R _ _ (Or.inr rfl) (Or.inr rfl) IntTy.i64 rfl v hv cf hden h64] at h
      rw [scale_i64 R sf _ v hv, hsf]
      by_cases h1 : cf.num = 1
      · simp [h1, wrap_i64 v hv] at h ⊢; simp [hv, h]
      · simp only [h1, if_false] at h
        by_cases hin : IntTy.i64.inRange (v * (cf.num : Int))
        · simp only [hin, if_true, Prod.mk.injEq, Res.ok.injEq, decide_eq_false_iff_not, ne_eq, not_not] at h
          simp [hin, ← h.1, h.2]
        · simp [hin] at h

theorem castTo_flt_form (R : Rounding) (hR : RoundingOK R) (cr r : Rep) (F : Fmt) (hF : cr.fmt? = some F)
    (hc : Rep.common cr r = cr) (x : Val) (hx : x.Holds R r) :
    castTo R r cr x = (.nonfinite, false) ∨ ∃ q0, castTo R r cr x = (.ok (.f q0), false) ∧ R F q0 = some q0 := by
  cases x with
  | i v =>
    obtain ⟨t, ht, _⟩ := hx
    have hcast : castTo R r cr (.i v) = (match R F (v : Rat) with | some q => Res.ok (.f q) | none => .nonfinite, false) := by
      cases cr <;> simp [Rep.fmt?] at hF <;> subst hF <;> rfl
    rw [hcast]
    cases hq : R F (v : Rat) with
    | none => left; rfl
    | some q =>
      have hprec : 1 ≤ F.prec := by cases cr <;> simp [Rep.fmt?] at hF <;> subst hF <;> decide
      right; exact ⟨q, rfl, hR.idem F _ q hprec hq⟩
  | f q =>
    obtain ⟨Fr, hFr, hq⟩ := hx
    right
    refine ⟨q, ?_, ?_⟩
    · cases cr <;> simp [Rep.fmt?] at hF <;> cases r <;> simp [Rep.fmt?] at hFr <;> simp [Rep.common] at hc <;>
        simp [castTo, Rep.intTy?, Rep.fmt?]
    · cases cr <;> simp [Rep.fmt?] at hF <;> cases r <;> simp [Rep.fmt?] at hFr <;> simp [Rep.common] at hc <;>
        subst hF <;> subst hFr
      · exact hq
      · exact hR.widen q hq
      · exact hq

theorem castTo_self_flt (R : Rounding) (cr : Rep) (F : Fmt) (hF : cr.fmt? = some F) (w : Rat) :
    castTo R cr cr (.f w) = (.ok (.f w), false) := by
  cases cr <;> simp [Rep.fmt?] at hF <;> simp [castTo, Rep.intTy?, Rep.fmt?]

theorem castTo_int_flt (R : Rounding) (r cr : Rep) (F : Fmt) (hF : cr.fmt? = some F) (v : Int) :
    castTo R r cr (.i v) = (match R F (v : Rat) with | some q => Res.ok (.f q) | none => .nonfinite, false) := by
  cases cr <;> simp [Rep.fmt?] at hF <;> subst hF <;> rfl

theorem mulRep_flt (R : Rounding) (cr : Rep) (F : Fmt) (hF : cr.fmt? = some F) (a b : Rat) :
    mulRep R cr (.f a) (.f b) = (match R F (a * b) with | some q => Res.ok (.f q) | none => .nonfinite) := by
  cases cr <;> simp [Rep.fmt?] at hF <;> subst hF <;> rfl

theorem getValueRep_flt (R : Rounding) (cr : Rep) (F : Fmt) (hF : cr.fmt? = some F) (m : Mag) :
    getValueRep R cr m = if m = [] then .ok (.f 1)
      else (match R F (m.natValue : Rat) with | some q => Res.ok (.f q) | none => .nonfinite) := by
  cases cr <;> simp [Rep.fmt?] at hF <;> subst hF <;> rfl

theorem common3_flt (cr r : Rep) (F : Fmt) (hF : cr.fmt? = some F) (hc : Rep.common cr r = cr) :
    Rep.common (Rep.common cr r) Rep.i64 = cr := by
  rw [hc]; cases cr <;> simp [Rep.fmt?] at hF <;> rfl

/-- Floating common rep: whenever chrono's `duration_cast` to the common type is clean, Au's
`cast_to_common_type` returns the same count. -/
theorem operand_flt (R : Rounding) (hR : RoundingOK R) (cr r : Rep) (F : Fmt) (hF : cr.fmt? = some F)
    (hc : Rep.common cr r = cr) (x : Val) (hx : x.Holds R r) (cf : Period) (hden : cf.den = 1)
    (sf : Mag) (hok : Mag.Ok sf) (hi : sf.isInteger = true) (hsf : sf.natValue = cf.num) (out : Val)
    (h : durationCastCF R cr cf r x = (.ok out, false)) : scaleToCommon R cr sf r x = .ok out := by
  unfold durationCastCF at h
  unfold scaleToCommon
  simp only [hden, ne_eq, not_true_eq_false, if_false, common3_flt cr r F hF hc] at h
  rcases castTo_flt_form R hR cr r F hF hc x hx with hnf | ⟨q0, hq0, hrep⟩
  · -- the conversion of the count overflows: chrono's result is not clean
    rw [hnf] at h
    by_cases h1 : cf.num = 1
    · simp [h1] at h
    · simp [h1, Res.bind] at h
  · rw [hq0] at h ⊢
    have hone : mulRep R cr (.f q0) (.f 1) = .ok (.f q0) := by
      rw [mulRep_flt R cr F hF, mul_one, hrep]
    by_cases h1 : cf.num = 1
    · have hnil : sf = [] := eq_nil_of_natValue_one hok hi (by omega)
      simp only [h1, if_true, Prod.mk.injEq, Res.ok.injEq, and_true] at h
      subst h
      simp only [Res.bind, getValueRep_flt R cr F hF, if_true, hone, hnil]
    · have hne : sf ≠ [] := by intro hn; rw [hn] at hsf; simp [Mag.natValue] at hsf; omega
      simp only [h1, if_false, castTo_int_flt R Rep.i64 cr F hF, Res.bind] at h
      simp only [Res.bind, getValueRep_flt R cr F hF, if_true, hone, if_neg hne, hsf]
      have hcast : (((cf.num : Nat) : Int) : Rat) = ((cf.num : Nat) : Rat) := Int.cast_natCast _
      rw [hcast] at h
      cases hk : R F ((cf.num : Nat) : Rat) with
      | none => simp [hk] at h
      | some kq =>
        simp only [hk, mulRep_flt R cr F hF] at h ⊢
        cases hp : R F (q0 * kq) with
        | none => simp [hp] at h
        | some w =>
          simp only [hp, castTo_self_flt R cr F hF, Prod.mk.injEq, Res.ok.injEq, and_true] at h
          subst h; rfl


theorem common_absorb_left (a b : Rep) : Rep.common (Rep.common a b) a = Rep.common a b := by
  cases a <;> cases b <;> rfl
theorem common_absorb_right (a b : Rep) : Rep.common (Rep.common a b) b = Rep.common a b := by
  cases a <;> cases b <;> rfl

/-- Whenever chrono's `duration_cast` of an operand to the common type is clean (no undefined
behaviour, finite, no value-changing narrowing), Au's `cast_to_common_type` of the corresponding
quantity returns the same count — for all four reps. -/
theorem operand_agree (R : Rounding) (cr r : Rep) (hR : cr.isFloat = true → RoundingOK R) (hc : Rep.common cr r = cr)
    (x : Val) (hx : x.Holds R r) (cf : Period) (hden : cf.den = 1) (h64 : (cf.num : Int) ≤ i64hi)
    (sf : Mag) (hok : Mag.Ok sf) (hi : sf.isInteger = true) (hsf : sf.natValue = cf.num) (out : Val)
    (h : durationCastCF R cr cf r x = (.ok out, false)) : scaleToCommon R cr sf r x = .ok out := by
  cases cr with
  | i32 =>
    have : r = Rep.i32 := by cases r <;> simp [Rep.common] at hc; rfl
    subst this
    exact operand_int R _ _ (Or.inl rfl) x hx cf hden h64 sf hsf out h
  | i64 =>
    have : r = Rep.i32 ∨ r = Rep.i64 := by cases r <;> simp [Rep.common] at hc <;> simp
    rcases this with rfl | rfl
    · exact operand_int R _ _ (Or.inr (Or.inl rfl)) x hx cf hden h64 sf hsf out h
    · exact operand_int R _ _ (Or.inr (Or.inr rfl)) x hx cf hden h64 sf hsf out h
  | f32 => exact operand_flt R (hR rfl) _ r Fmt.single rfl hc x hx cf hden sf hok hi hsf out h
  | f64 => exact operand_flt R (hR rfl) _ r Fmt.double rfl hc x hx cf hden sf hok hi hsf out h

theorem Res.bind_eq_ok {α β : Type} {r : Res α} {f : α → Res β} {b : β} (h : r.bind f = .ok b) :
    ∃ a, r = .ok a ∧ f a = .ok b := by
  cases r <;> simp [Res.bind] at h
  exact ⟨_, rfl, h⟩

/-- Core of `C17_mixed_ops_agree`: two quantities whose units are seconds × p₁, seconds × p₂. -/
theorem quantityOp_agree (R : Rounding) (op : Op) (q1 q2 : Quantity) (d1 d2 : Duration)
    (hR : (Rep.common d1.rep d2.rep).isFloat = true → RoundingOK R)
    (hm1 : q1.mag = ratioMag d1.period) (hr1 : q1.rep = d1.rep) (hv1 : q1.value = d1.count)
    (hm2 : q2.mag = ratioMag d2.period) (hr2 : q2.rep = d2.rep) (hv2 : q2.value = d2.count)
    (h1 : d1.period.Pos) (h2 : d2.period.Pos)
    (hx1 : d1.count.Holds R d1.rep) (hx2 : d2.count.Holds R d2.rep)
    (hc1 : ((ratioDivide d1.period (chronoCommonPeriod d1.period d2.period)).num : Int) ≤ i64hi)
    (hc2 : ((ratioDivide d2.period (chronoCommonPeriod d1.period d2.period)).num : Int) ≤ i64hi)
    (v : OpVal) (hclean : (chronoOp R op d1 d2).Clean v) :
    quantityOp R op q1 q2 = .ok v := by
  obtain ⟨hcm, _, _, _, hk1, hn1, hden1, hk2, hn2, hden2⟩ := common_period_all d1.period d2.period h1 h2
  have hokc := Mag.ok_common (ok_ratioMag h1) (ok_ratioMag h2)
  have hok1 := Mag.ok_div (ok_ratioMag h1) hokc
  have hok2 := Mag.ok_div (ok_ratioMag h2) hokc
  obtain ⟨hval, hnar⟩ := hclean
  unfold chronoOp at hval hnar
  unfold durationCast at hval hnar
  simp only [] at hval hnar
  generalize hA : durationCastCF R (Rep.common d1.rep d2.rep) (ratioDivide d1.period (chronoCommonPeriod d1.period d2.period)) d1.rep d1.count = A at hval hnar
  generalize hB : durationCastCF R (Rep.common d1.rep d2.rep) (ratioDivide d2.period (chronoCommonPeriod d1.period d2.period)) d2.rep d2.count = B at hval hnar
  obtain ⟨a, n1⟩ := A
  obtain ⟨b, n2⟩ := B
  dsimp only at hval hnar
  simp only [Bool.or_eq_false_iff] at hnar
  obtain ⟨rfl, rfl⟩ := hnar
  obtain ⟨x', rfl, hval⟩ := Res.bind_eq_ok hval
  obtain ⟨y', rfl, hval⟩ := Res.bind_eq_ok (r := b) hval
  have e1 := operand_agree R _ _ hR (common_absorb_left d1.rep d2.rep) d1.count hx1 _ hden1 hc1 _ hok1 hk1 hn1 x' hA
  have e2 := operand_agree R _ _ hR (common_absorb_right d1.rep d2.rep) d2.count hx2 _ hden2 hc2 _ hok2 hk2 hn2 y' hB
  unfold quantityOp commonQuantity castToCommon
  simp only [hm1, hm2, hr1, hr2, hv1, hv2, e1, e2, Res.bind]
  exact hval

end Au.Chrono

/-
  The driver's rounding function `rne` (AuModel.Chrono) satisfies `RoundingOK`: every finite result of
  `rne` is representable in the format, every representable value is a fixed point of `rne`, and
  binary32 values are binary64 values.
-/
import AuModel.Chrono
import Mathlib.Algebra.Order.Field.Rat
import Mathlib.Data.Rat.Floor
import Mathlib.Tactic.Linarith
import Mathlib.Tactic.Ring
import Mathlib.Tactic.Positivity
import Mathlib.Tactic.FieldSimp

set_option linter.unusedSimpArgs false
set_option linter.unusedVariables false

namespace Au.Chrono

theorem pow2_eq (k : Int) : pow2 k = (2 : ℚ) ^ k := by
  unfold pow2
  split
  · rename_i h
    obtain ⟨t, rfl⟩ := Int.eq_ofNat_of_zero_le h
    simp
  · rename_i h
    have hk : k = -((-k).toNat : Int) := by omega
    generalize (-k).toNat = t at hk
    subst hk
    simp [zpow_neg]

theorem two_zpow_pos (k : Int) : (0 : ℚ) < (2 : ℚ) ^ k := zpow_pos (by norm_num) k

theorem zpow_lt_of_lt {a b : Int} (h : a < b) : (2 : ℚ) ^ a < (2 : ℚ) ^ b :=
  zpow_lt_zpow_right₀ (by norm_num) h

theorem zpow_le_of_le {a b : Int} (h : a ≤ b) : (2 : ℚ) ^ a ≤ (2 : ℚ) ^ b :=
  zpow_le_zpow_right₀ (by norm_num) h

theorem lt_of_zpow_lt {a b : Int} (h : (2 : ℚ) ^ a < (2 : ℚ) ^ b) : a < b :=
  (zpow_lt_zpow_iff_right₀ (by norm_num : (1 : ℚ) < 2)).1 h

/-- `ilog2 n d = ⌊log₂ (n/d)⌋`. -/
theorem ilog2_spec (n d : Nat) (hn : 0 < n) (hd : 0 < d) :
    (2 : ℚ) ^ (ilog2 n d) ≤ (n : ℚ) / d ∧ (n : ℚ) / d < (2 : ℚ) ^ (ilog2 n d + 1) := by
  have hn0 : n ≠ 0 := by omega
  have hd0 : d ≠ 0 := by omega
  have hdq : (0 : ℚ) < d := by exact_mod_cast hd
  have hnq : (0 : ℚ) < n := by exact_mod_cast hn
  have h1 : ((2 : ℚ) ^ (n.log2 : Int)) ≤ n := by
    rw [zpow_natCast]; exact_mod_cast Nat.log2_self_le hn0
  have h2 : (n : ℚ) < (2 : ℚ) ^ ((n.log2 : Int) + 1) := by
    have : n < 2 ^ (n.log2 + 1) := Nat.lt_log2_self
    have h : ((n.log2 : Int) + 1) = ((n.log2 + 1 : Nat) : Int) := by push_cast; ring
    rw [h, zpow_natCast]; exact_mod_cast this
  have h3 : ((2 : ℚ) ^ (d.log2 : Int)) ≤ d := by
    rw [zpow_natCast]; exact_mod_cast Nat.log2_self_le hd0
  have h4 : (d : ℚ) < (2 : ℚ) ^ ((d.log2 : Int) + 1) := by
    have : d < 2 ^ (d.log2 + 1) := Nat.lt_log2_self
    have h : ((d.log2 : Int) + 1) = ((d.log2 + 1 : Nat) : Int) := by push_cast; ring
    rw [h, zpow_natCast]; exact_mod_cast this
  set e0 : Int := (n.log2 : Int) - (d.log2 : Int) with he0
  -- the two outer bounds
  have hup : (n : ℚ) / d < (2 : ℚ) ^ (e0 + 1) := by
    rw [div_lt_iff₀ hdq]
    calc (n : ℚ) < (2 : ℚ) ^ ((n.log2 : Int) + 1) := h2
      _ = (2 : ℚ) ^ (e0 + 1) * (2 : ℚ) ^ (d.log2 : Int) := by rw [← zpow_add₀ (by norm_num)]; congr 1; omega
      _ ≤ (2 : ℚ) ^ (e0 + 1) * d := by apply mul_le_mul_of_nonneg_left h3 (le_of_lt (two_zpow_pos _))
  have hlo : (2 : ℚ) ^ (e0 - 1) < (n : ℚ) / d := by
    rw [lt_div_iff₀ hdq]
    calc (2 : ℚ) ^ (e0 - 1) * d < (2 : ℚ) ^ (e0 - 1) * (2 : ℚ) ^ ((d.log2 : Int) + 1) :=
          mul_lt_mul_of_pos_left h4 (two_zpow_pos _)
      _ = (2 : ℚ) ^ (n.log2 : Int) := by rw [← zpow_add₀ (by norm_num)]; congr 1; omega
      _ ≤ n := h1
  -- the test performed by the code decides `2^e0 ≤ n/d`
  have htest : ilog2 n d = if (2 : ℚ) ^ e0 ≤ (n : ℚ) / d then e0 else e0 - 1 := by
    unfold ilog2
    simp only [← he0]
    by_cases hs : 0 ≤ e0
    · rw [if_pos hs]
      obtain ⟨t, ht⟩ := Int.eq_ofNat_of_zero_le hs
      have hiff : (2 ^ e0.toNat * d ≤ n) ↔ (2 : ℚ) ^ e0 ≤ (n : ℚ) / d := by
        rw [le_div_iff₀ hdq, ht, zpow_natCast, Int.toNat_natCast]
        constructor
        · intro h; exact_mod_cast h
        · intro h; exact_mod_cast h
      by_cases hc : 2 ^ e0.toNat * d ≤ n
      · rw [if_pos hc, if_pos (hiff.1 hc)]
      · rw [if_neg hc, if_neg (fun h => hc (hiff.2 h))]
    · rw [if_neg hs]
      have hneg : e0 = -((-e0).toNat : Int) := by omega
      have hiff : (d ≤ n * 2 ^ (-e0).toNat) ↔ (2 : ℚ) ^ e0 ≤ (n : ℚ) / d := by
        generalize (-e0).toNat = t at hneg
        rw [hneg, zpow_neg, zpow_natCast, le_div_iff₀ hdq, inv_mul_le_iff₀ (by positivity)]
        constructor
        · intro h
          have : (d : ℚ) ≤ (n : ℚ) * 2 ^ t := by exact_mod_cast h
          linarith [mul_comm (n : ℚ) (2 ^ t)]
        · intro h
          have : (d : ℚ) ≤ (n : ℚ) * 2 ^ t := by linarith [mul_comm (n : ℚ) (2 ^ t)]
          exact_mod_cast this
      by_cases hc : d ≤ n * 2 ^ (-e0).toNat
      · rw [if_pos hc, if_pos (hiff.1 hc)]
      · rw [if_neg hc, if_neg (fun h => hc (hiff.2 h))]
  rw [htest]
  by_cases hc : (2 : ℚ) ^ e0 ≤ (n : ℚ) / d
  · rw [if_pos hc]; exact ⟨hc, hup⟩
  · rw [if_neg hc]
    refine ⟨le_of_lt hlo, ?_⟩
    have : e0 - 1 + 1 = e0 := by ring
    rw [this]; exact lt_of_not_ge hc


/-! ### `roundEven` -/

theorem floor_le' (m : ℚ) : ((m.floor : Int) : ℚ) ≤ m := Rat.le_floor_iff.1 (le_refl _)

theorem lt_floor_add_one' (m : ℚ) : m < ((m.floor : Int) : ℚ) + 1 := by
  by_contra h
  have h1 : ((m.floor + 1 : Int) : ℚ) ≤ m := by push_cast; linarith
  have h2 : m.floor + 1 ≤ m.floor := Rat.le_floor_iff.2 h1
  omega

theorem roundEven_int (z : Int) : roundEven (z : ℚ) = z := by
  unfold roundEven
  have hf : (z : ℚ).floor = z := Rat.floor_intCast z
  simp only [hf, sub_self]
  norm_num

theorem roundEven_bounds (m : ℚ) (hm : 0 ≤ m) (B : Int) (hB : m < (B : ℚ)) :
    0 ≤ roundEven m ∧ roundEven m ≤ B := by
  have hfl0 : 0 ≤ m.floor := Rat.le_floor_iff.2 (by simpa using hm)
  have hflB : m.floor < B := by
    have h1 := floor_le' m
    have : ((m.floor : Int) : ℚ) < (B : ℚ) := lt_of_le_of_lt h1 hB
    exact_mod_cast this
  unfold roundEven
  simp only []
  split
  · exact ⟨hfl0, by omega⟩
  · split
    · exact ⟨by omega, by omega⟩
    · split
      · exact ⟨hfl0, by omega⟩
      · exact ⟨by omega, by omega⟩

/-! ### `rne` on a positive magnitude -/

def emin (F : Fmt) : Int := 1 - (F.emax : Int)

/-- The exponent of the quantum used for a positive `a`. -/
def qexp (F : Fmt) (a : ℚ) : Int :=
  let e := ilog2 a.num.toNat a.den
  (if e < emin F then emin F else e) - ((F.prec : Int) - 1)

/-- The rounded magnitude of a positive `a`. -/
def rMag (F : Fmt) (a : ℚ) : ℚ := (roundEven (a / (2 : ℚ) ^ qexp F a) : ℚ) * (2 : ℚ) ^ qexp F a

theorem rne_pos (F : Fmt) (a : ℚ) (ha : 0 < a) :
    rne F a = if rMag F a ≥ (2 : ℚ) ^ ((F.emax : Int) + 1) then none else some (rMag F a) := by
  have h0 : a ≠ 0 := ne_of_gt ha
  have hn : ¬ a < 0 := not_lt.2 (le_of_lt ha)
  unfold rne rMag qexp emin
  simp only [h0, hn, if_false, pow2_eq]

theorem rne_neg (F : Fmt) (a : ℚ) (ha : 0 < a) :
    rne F (-a) = if rMag F a ≥ (2 : ℚ) ^ ((F.emax : Int) + 1) then none else some (-(rMag F a)) := by
  have h0 : -a ≠ 0 := by intro hh; linarith
  have hn : -a < 0 := by linarith
  unfold rne rMag qexp emin
  simp only [h0, hn, if_false, if_true, pow2_eq, neg_neg]

theorem pos_as_ratio (a : ℚ) (ha : 0 < a) : 0 < a.num.toNat ∧ (a.num.toNat : ℚ) / a.den = a := by
  have hnum : 0 < a.num := Rat.num_pos.2 ha
  refine ⟨by omega, ?_⟩
  have : ((a.num.toNat : Nat) : ℚ) = (a.num : ℚ) := by
    have : ((a.num.toNat : Nat) : Int) = a.num := Int.toNat_of_nonneg (le_of_lt hnum)
    exact_mod_cast this
  rw [this]; exact Rat.num_div_den a

/-- The binade of a positive `a`. -/
theorem ilog2_of_pos (a : ℚ) (ha : 0 < a) :
    (2 : ℚ) ^ (ilog2 a.num.toNat a.den) ≤ a ∧ a < (2 : ℚ) ^ (ilog2 a.num.toNat a.den + 1) := by
  obtain ⟨h1, h2⟩ := pos_as_ratio a ha
  have := ilog2_spec a.num.toNat a.den h1 a.den_pos
  rwa [h2] at this


theorem qexp_ge (F : Fmt) (a : ℚ) : emin F - ((F.prec : Int) - 1) ≤ qexp F a := by
  unfold qexp; simp only []; split <;> omega

theorem qexp_ge_ilog (F : Fmt) (a : ℚ) : ilog2 a.num.toNat a.den - ((F.prec : Int) - 1) ≤ qexp F a := by
  unfold qexp; simp only []; split <;> omega

theorem div_zpow_int (N : Nat) (k q0 : Int) (h : q0 ≤ k) :
    ((N : ℚ) * (2 : ℚ) ^ k) / (2 : ℚ) ^ q0 = (((N * 2 ^ (k - q0).toNat : Nat) : Int) : ℚ) := by
  obtain ⟨t, ht⟩ := Int.eq_ofNat_of_zero_le (by omega : 0 ≤ k - q0)
  have hk : k = q0 + (t : Int) := by omega
  subst hk
  have h2 : (2 : ℚ) ^ q0 ≠ 0 := ne_of_gt (two_zpow_pos _)
  have ht' : (q0 + (t : Int) - q0).toNat = t := by omega
  rw [ht', zpow_add₀ (by norm_num), zpow_natCast]
  push_cast
  field_simp

/-- A positive value `N·2^k` with `N < 2^prec` on or above the subnormal grid is a fixed point of
the rounding of magnitudes. -/
theorem rMag_of_rep (F : Fmt) (N : Nat) (k : Int) (hN1 : 1 ≤ N) (hN : N < 2 ^ F.prec)
    (hk : emin F - ((F.prec : Int) - 1) ≤ k) : rMag F ((N : ℚ) * (2 : ℚ) ^ k) = (N : ℚ) * (2 : ℚ) ^ k := by
  have hNq : (0 : ℚ) < N := by exact_mod_cast hN1
  have hapos : 0 < (N : ℚ) * (2 : ℚ) ^ k := mul_pos hNq (two_zpow_pos k)
  obtain ⟨hlo, hhi⟩ := ilog2_of_pos _ hapos
  have hlt : (N : ℚ) * (2 : ℚ) ^ k < (2 : ℚ) ^ ((F.prec : Int) + k) := by
    rw [zpow_add₀ (by norm_num), zpow_natCast]
    apply mul_lt_mul_of_pos_right _ (two_zpow_pos k)
    exact_mod_cast hN
  have he := lt_of_zpow_lt (lt_of_le_of_lt hlo hlt)
  have hq : qexp F ((N : ℚ) * (2 : ℚ) ^ k) ≤ k := by
    unfold qexp; simp only []; split <;> omega
  unfold rMag
  generalize qexp F ((N : ℚ) * (2 : ℚ) ^ k) = q0 at hq
  rw [div_zpow_int N k q0 hq, roundEven_int, ← div_zpow_int N k q0 hq]
  have h2 : (2 : ℚ) ^ q0 ≠ 0 := ne_of_gt (two_zpow_pos _)
  field_simp

/-- The rounded magnitude of any positive `a` lies on the grid of the format. -/
theorem rMag_rep (F : Fmt) (hp : 1 ≤ F.prec) (a : ℚ) (ha : 0 < a) :
    ∃ (N : Nat) (k : Int), rMag F a = (N : ℚ) * (2 : ℚ) ^ k ∧ N < 2 ^ F.prec ∧ emin F - ((F.prec : Int) - 1) ≤ k := by
  obtain ⟨hlo, hhi⟩ := ilog2_of_pos a ha
  have hq1 := qexp_ge F a
  have hq2 := qexp_ge_ilog F a
  have hm0 : 0 ≤ a / (2 : ℚ) ^ qexp F a := le_of_lt (div_pos ha (two_zpow_pos _))
  have hmB : a / (2 : ℚ) ^ qexp F a < (((2 ^ F.prec : Nat) : Int) : ℚ) := by
    rw [div_lt_iff₀ (two_zpow_pos _)]
    have h1 : a < (2 : ℚ) ^ ((F.prec : Int) + qexp F a) :=
      lt_of_lt_of_le hhi (zpow_le_of_le (by omega))
    rw [zpow_add₀ (by norm_num), zpow_natCast] at h1
    push_cast
    exact h1
  obtain ⟨hr0, hrB⟩ := roundEven_bounds _ hm0 _ hmB
  unfold rMag
  generalize roundEven (a / (2 : ℚ) ^ qexp F a) = r at hr0 hrB
  obtain ⟨n, rfl⟩ := Int.eq_ofNat_of_zero_le hr0
  have hn : n ≤ 2 ^ F.prec := by exact_mod_cast hrB
  by_cases hlt : n < 2 ^ F.prec
  · exact ⟨n, qexp F a, by push_cast; ring, hlt, hq1⟩
  · have hn2 : n = 2 ^ F.prec := by omega
    refine ⟨2 ^ (F.prec - 1), qexp F a + 1, ?_, Nat.pow_lt_pow_right (by norm_num) (by omega), by omega⟩
    subst hn2
    rw [zpow_add₀ (by norm_num)]
    have : (2 : ℕ) ^ F.prec = 2 ^ (F.prec - 1) * 2 := by
      rw [← pow_succ]; congr 1; omega
    rw [this]
    push_cast
    ring


/-- `v` is a finite value of format `F`: `±N·2^k` with `N < 2^prec`, on or above the subnormal
grid, below `2^(emax+1)`. -/
def Representable (F : Fmt) (v : ℚ) : Prop :=
  ∃ (N : Nat) (k : Int), |v| = (N : ℚ) * (2 : ℚ) ^ k ∧ N < 2 ^ F.prec ∧
    emin F - ((F.prec : Int) - 1) ≤ k ∧ |v| < (2 : ℚ) ^ ((F.emax : Int) + 1)

theorem rne_zero (F : Fmt) : rne F 0 = some 0 := by unfold rne; simp

/-- Every representable value is a fixed point of `rne`. -/
theorem rne_of_representable (F : Fmt) (v : ℚ) (h : Representable F v) : rne F v = some v := by
  obtain ⟨N, k, hv, hN, hk, hlt⟩ := h
  by_cases hN0 : N = 0
  · subst hN0
    have : v = 0 := by simpa using hv
    subst this; exact rne_zero F
  · have hN1 : 1 ≤ N := by omega
    have hfix := rMag_of_rep F N k hN1 hN hk
    have hpos : 0 < (N : ℚ) * (2 : ℚ) ^ k := mul_pos (by exact_mod_cast hN1) (two_zpow_pos k)
    rcases lt_trichotomy v 0 with hneg | hz | hp
    · have hv' : v = -((N : ℚ) * (2 : ℚ) ^ k) := by rw [abs_of_neg hneg] at hv; linarith
      rw [abs_of_neg hneg] at hlt
      rw [hv', rne_neg F _ hpos, hfix]
      have : ¬ ((N : ℚ) * (2 : ℚ) ^ k ≥ (2 : ℚ) ^ ((F.emax : Int) + 1)) := by rw [hv'] at hlt; simp at hlt; linarith
      rw [if_neg this]
    · subst hz
      rw [abs_zero] at hv
      linarith
    · have hv' : v = (N : ℚ) * (2 : ℚ) ^ k := by rw [abs_of_pos hp] at hv; exact hv
      rw [abs_of_pos hp] at hlt
      rw [hv', rne_pos F _ hpos, hfix]
      have : ¬ ((N : ℚ) * (2 : ℚ) ^ k ≥ (2 : ℚ) ^ ((F.emax : Int) + 1)) := by rw [hv'] at hlt; linarith
      rw [if_neg this]

/-- Every finite result of `rne` is representable. -/
theorem rne_representable (F : Fmt) (hp : 1 ≤ F.prec) (q v : ℚ) (h : rne F q = some v) : Representable F v := by
  rcases lt_trichotomy q 0 with hneg | hz | hpos
  · have hq : q = -(-q) := by ring
    have ha : 0 < -q := by linarith
    rw [hq, rne_neg F _ ha] at h
    split at h
    · cases h
    · rename_i hno
      obtain ⟨N, k, hr, hN, hk⟩ := rMag_rep F hp _ ha
      have hv : v = -(rMag F (-q)) := by cases h; rfl
      have hnn : 0 ≤ rMag F (-q) := by rw [hr]; exact mul_nonneg (by positivity) (le_of_lt (two_zpow_pos k))
      refine ⟨N, k, ?_, hN, hk, ?_⟩
      · rw [hv, abs_neg, abs_of_nonneg hnn, hr]
      · rw [hv, abs_neg, abs_of_nonneg hnn]; exact lt_of_not_ge hno
  · subst hz
    rw [rne_zero] at h
    cases h
    exact ⟨0, emin F - ((F.prec : Int) - 1), by simp, by positivity, le_refl _, by simpa using two_zpow_pos _⟩
  · rw [rne_pos F _ hpos] at h
    split at h
    · cases h
    · rename_i hno
      obtain ⟨N, k, hr, hN, hk⟩ := rMag_rep F hp _ hpos
      have hv : v = rMag F q := by cases h; rfl
      have hnn : 0 ≤ rMag F q := by rw [hr]; exact mul_nonneg (by positivity) (le_of_lt (two_zpow_pos k))
      refine ⟨N, k, ?_, hN, hk, ?_⟩
      · rw [hv, abs_of_nonneg hnn, hr]
      · rw [hv, abs_of_nonneg hnn]; exact lt_of_not_ge hno

theorem rne_idem (F : Fmt) (hp : 1 ≤ F.prec) (q v : ℚ) (h : rne F q = some v) : rne F v = some v :=
  rne_of_representable F v (rne_representable F hp q v h)

theorem representable_widen (v : ℚ) (h : Representable Fmt.single v) : Representable Fmt.double v := by
  obtain ⟨N, k, hv, hN, hk, hlt⟩ := h
  refine ⟨N, k, hv, ?_, ?_, ?_⟩
  · have : (2 : Nat) ^ Fmt.single.prec ≤ 2 ^ Fmt.double.prec := Nat.pow_le_pow_right (by norm_num) (by decide)
    omega
  · simp only [emin, Fmt.single, Fmt.double] at hk ⊢; omega
  · exact lt_of_lt_of_le hlt (zpow_le_of_le (by simp only [Fmt.single, Fmt.double]; omega))

theorem rne_widen (v : ℚ) (h : rne Fmt.single v = some v) : rne Fmt.double v = some v :=
  rne_of_representable _ v (representable_widen v (rne_representable _ (by decide) v v h))


/-- **The driver's rounding satisfies both facts the floating clauses of C17 rest on.** -/
theorem rne_roundingOK : RoundingOK rne :=
  ⟨fun F q v hp h => rne_idem F hp q v h, rne_widen⟩

/-- Why `idem` is stated for formats with at least one significand bit: with `prec = 0` the grid
collapses and a rounded result need not be a fixed point. -/
example : rne ⟨0, 3⟩ (3 / 2) = some 2 ∧ rne ⟨0, 3⟩ 2 = some 0 := by decide +kernel

end Au.Chrono

/-
  AuProofs.Lemmas.CommonRat — the rational-gcd common unit (`AuModel.CommonRat`): both scales are
  positive-integer multiples of the common scale, the multipliers are coprime (so the common unit is the
  greatest such unit), and the construction is symmetric.  Core Lean only (`Rat` is in core).
-/
import AuModel.CommonRat
namespace Au
namespace URat

/-- Scale of a unit as a rational. -/
def scale (u : URat) : Rat := (u.num : Rat) / (u.den : Rat)

theorem crossGcd_pos (u1 u2 : URat) (h1 : u1.Pos) (h2 : u2.Pos) : 0 < crossGcd u1 u2 := by
  unfold crossGcd
  exact Nat.gcd_pos_of_pos_left _ (Nat.mul_pos h1.1 h2.2)

theorem ratioL_mul (u1 u2 : URat) : ratioL u1 u2 * crossGcd u1 u2 = u1.num * u2.den := by
  unfold ratioL crossGcd
  exact Nat.div_mul_cancel (Nat.gcd_dvd_left _ _)

theorem ratioR_mul (u1 u2 : URat) : ratioR u1 u2 * crossGcd u1 u2 = u2.num * u1.den := by
  unfold ratioR crossGcd
  exact Nat.div_mul_cancel (Nat.gcd_dvd_right _ _)

theorem ratioL_pos (u1 u2 : URat) (h1 : u1.Pos) (h2 : u2.Pos) : 0 < ratioL u1 u2 := by
  have h := ratioL_mul u1 u2
  have hp : 0 < u1.num * u2.den := Nat.mul_pos h1.1 h2.2
  rcases Nat.eq_zero_or_pos (ratioL u1 u2) with h0 | h0
  · rw [h0] at h; simp at h; omega
  · exact h0

theorem ratioR_pos (u1 u2 : URat) (h1 : u1.Pos) (h2 : u2.Pos) : 0 < ratioR u1 u2 := by
  have h := ratioR_mul u1 u2
  have hp : 0 < u2.num * u1.den := Nat.mul_pos h2.1 h1.2
  rcases Nat.eq_zero_or_pos (ratioR u1 u2) with h0 | h0
  · rw [h0] at h; simp at h; omega
  · exact h0

/-- The two multipliers are coprime: no larger unit divides both (the common unit is the *greatest*
common divisor). -/
theorem ratio_coprime (u1 u2 : URat) (h1 : u1.Pos) (h2 : u2.Pos) :
    Nat.gcd (ratioL u1 u2) (ratioR u1 u2) = 1 := by
  unfold ratioL ratioR crossGcd
  exact Nat.coprime_div_gcd_div_gcd (Nat.gcd_pos_of_pos_left _ (Nat.mul_pos h1.1 h2.2))

/-- Symmetry of the construction. -/
theorem ratio_symm (u1 u2 : URat) : ratioL u1 u2 = ratioR u2 u1 ∧ ratioR u1 u2 = ratioL u2 u1 := by
  unfold ratioL ratioR crossGcd
  rw [Nat.gcd_comm]
  exact ⟨rfl, rfl⟩

theorem common_scale_pos (u1 u2 : URat) (h1 : u1.Pos) (h2 : u2.Pos) : 0 < (common u1 u2).scale := by
  unfold scale common
  simp only []
  have hg : (0 : Rat) < (crossGcd u1 u2 : Nat) := Rat.natCast_pos.mpr (crossGcd_pos u1 u2 h1 h2)
  have hd : (0 : Rat) < ((u1.den * u2.den : Nat) : Rat) := Rat.natCast_pos.mpr (Nat.mul_pos h1.2 h2.2)
  rw [Rat.div_def]
  exact Rat.mul_pos hg (Rat.inv_pos.mpr hd)

/-- `U1 = k1 · CommonUnit`. -/
theorem scale_eq_ratioL (u1 u2 : URat) (h1 : u1.Pos) (h2 : u2.Pos) :
    u1.scale = (ratioL u1 u2 : Rat) * (common u1 u2).scale := by
  have h := congrArg (fun n : Nat => (n : Rat)) (ratioL_mul u1 u2)
  simp only [Rat.natCast_mul] at h
  have hd1 : (u1.den : Rat) ≠ 0 := by
    have : (0 : Rat) < (u1.den : Rat) := Rat.natCast_pos.mpr h1.2
    intro h0; rw [h0] at this; exact Rat.lt_irrefl this
  have hd2 : (u2.den : Rat) ≠ 0 := by
    have : (0 : Rat) < (u2.den : Rat) := Rat.natCast_pos.mpr h2.2
    intro h0; rw [h0] at this; exact Rat.lt_irrefl this
  unfold scale common
  simp only [Rat.natCast_mul]
  grind

/-- `U2 = k2 · CommonUnit`. -/
theorem scale_eq_ratioR (u1 u2 : URat) (h1 : u1.Pos) (h2 : u2.Pos) :
    u2.scale = (ratioR u1 u2 : Rat) * (common u1 u2).scale := by
  have h := congrArg (fun n : Nat => (n : Rat)) (ratioR_mul u1 u2)
  simp only [Rat.natCast_mul] at h
  have hd1 : (u1.den : Rat) ≠ 0 := by
    have : (0 : Rat) < (u1.den : Rat) := Rat.natCast_pos.mpr h1.2
    intro h0; rw [h0] at this; exact Rat.lt_irrefl this
  have hd2 : (u2.den : Rat) ≠ 0 := by
    have : (0 : Rat) < (u2.den : Rat) := Rat.natCast_pos.mpr h2.2
    intro h0; rw [h0] at this; exact Rat.lt_irrefl this
  unfold scale common
  simp only [Rat.natCast_mul]
  grind

end URat
end Au

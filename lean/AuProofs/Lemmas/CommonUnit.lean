import AuModel.CommonUnit
import AuProofs.C07
import AuProofs.C02
set_option linter.unusedSectionVars false
namespace Au
open Pack

def MagLe (m k : Mag) : Prop := ∀ x, den m x ≤ den k x

theorem MagLe.refl (m : Mag) : MagLe m m := fun _ => Rat.le_refl
theorem MagLe.trans {a b c : Mag} (h1 : MagLe a b) (h2 : MagLe b c) : MagLe a c :=
  fun x => Rat.le_trans (h1 x) (h2 x)

theorem den_nonneg_of_all_nonneg (m : Mag) (h : ∀ a ∈ m, 0 ≤ a.2) (x : MagBase) : 0 ≤ den m x := by
  induction m with
  | nil => exact Rat.le_refl
  | cons a t ih =>
    obtain ⟨b, e⟩ := a
    rw [den_cons]
    split
    · exact h (b, e) (List.mem_cons_self ..)
    · exact ih (fun y hy => h y (List.mem_cons_of_mem _ hy))

theorem isInteger_nonneg (m : Mag) (h : Mag.isInteger m = true) : ∀ a ∈ m, 0 ≤ a.2 := by
  intro a ha
  unfold Mag.isInteger at h
  rw [List.all_eq_true] at h
  have := h a ha
  cases hb : a.1 with
  | prime p =>
    rw [hb] at this
    simp only [Bool.and_eq_true, decide_eq_true_eq] at this
    have := this.2; grind
  | pi => rw [hb] at this; cases this

theorem div_den (a b : Mag) (ha : Valid MagBase.lt a) (hb : Valid MagBase.lt b) (x : MagBase) :
    den (Mag.div a b) x = den a x - den b x := by
  unfold Mag.div Pack.div Pack.inv
  rw [mul_den MagBase.lt_strictTotal a _ ha.1 (pow_valid b (-1) hb).1, pow_den]
  grind

/-- A redundant unit is an integer multiple of the unit that makes it redundant. -/
theorem redundant_le (env : Env) (lt : U → U → Bool) (u v : U)
    (hu : Valid MagBase.lt (u.magOf env)) (hv : Valid MagBase.lt (v.magOf env))
    (h : isFirstRedundant env lt u v = true) : MagLe (v.magOf env) (u.magOf env) := by
  unfold isFirstRedundant at h
  split at h
  · rename_i huv; subst huv; exact MagLe.refl _
  · split at h
    · rename_i _ hq
      unfold U.qEquiv at hq
      simp only [Bool.and_eq_true, decide_eq_true_eq] at hq
      rw [hq.2]; exact MagLe.refl _
    · intro x
      have := den_nonneg_of_all_nonneg _ (isInteger_nonneg _ h) x
      rw [div_den _ _ hu hv] at this
      grind

/-- `EliminateRedundantUnits` keeps a sub-list that has the same lower envelope: every removed unit
is an integer multiple of a unit that stays. -/
theorem eliminateRedundant_spec (env : Env) (lt : U → U → Bool) (l : List U)
    (hv : ∀ u ∈ l, Valid MagBase.lt (u.magOf env)) :
    (∀ u ∈ eliminateRedundant env lt l, u ∈ l) ∧
    (∀ u ∈ l, ∃ v ∈ eliminateRedundant env lt l, MagLe (v.magOf env) (u.magOf env)) := by
  fun_induction eliminateRedundant env lt l with
  | case1 => exact ⟨fun _ h => h, fun _ h => by cases h⟩
  | case2 h ts hred ih =>
    have hvt : ∀ u ∈ ts, Valid MagBase.lt (u.magOf env) := fun u hu => hv u (List.mem_cons_of_mem _ hu)
    obtain ⟨i1, i2⟩ := ih hvt
    refine ⟨fun u hu => List.mem_cons_of_mem _ (i1 u hu), ?_⟩
    intro u hu
    rcases List.mem_cons.1 hu with rfl | hu
    · rw [List.any_eq_true] at hred
      obtain ⟨t, ht, hr⟩ := hred
      obtain ⟨v, hvm, hle⟩ := i2 t ht
      exact ⟨v, hvm, MagLe.trans hle (redundant_le env lt _ t (hv _ (List.mem_cons_self ..)) (hvt t ht) hr)⟩
    · exact i2 u hu
  | case3 h ts hred rest _ ih =>
    have hvr : ∀ u ∈ rest, Valid MagBase.lt (u.magOf env) := fun u hu =>
      hv u (List.mem_cons_of_mem _ (List.mem_filter.1 hu).1)
    obtain ⟨i1, i2⟩ := ih hvr
    refine ⟨?_, ?_⟩
    · intro u hu
      rcases List.mem_cons.1 hu with rfl | hu
      · exact List.mem_cons_self ..
      · exact List.mem_cons_of_mem _ (List.mem_filter.1 (i1 u hu)).1
    · intro u hu
      rcases List.mem_cons.1 hu with rfl | hu
      · exact ⟨_, List.mem_cons_self .., MagLe.refl _⟩
      · by_cases hr : isFirstRedundant env lt u h = true
        · exact ⟨h, List.mem_cons_self .., redundant_le env lt u h (hv u (List.mem_cons_of_mem _ hu)) (hv h (List.mem_cons_self ..)) hr⟩
        · have : u ∈ rest := List.mem_filter.2 ⟨hu, by simpa using hr⟩
          obtain ⟨v, hvm, hle⟩ := i2 u this
          exact ⟨v, List.mem_cons_of_mem _ hvm, hle⟩
/-- The common magnitude of a list depends only on the *lower envelope* of its members: if every
member of `bs` dominates some member of `as` and vice versa, the two common magnitudes coincide. -/
theorem commonAll_envelope (as bs : List Mag) (ha : ∀ m ∈ as, Valid MagBase.lt m) (hb : ∀ m ∈ bs, Valid MagBase.lt m)
    (hne : as ≠ []) (hne' : bs ≠ [])
    (h1 : ∀ b ∈ bs, ∃ a ∈ as, MagLe a b) (h2 : ∀ a ∈ as, ∃ b ∈ bs, MagLe b a) :
    Mag.commonAll as = Mag.commonAll bs := by
  apply canonical MagBase.lt_strictTotal _ _ (Mag.commonAll_valid as ha) (Mag.commonAll_valid bs hb)
  intro x
  obtain ⟨a, haM, hae⟩ := commonAll_attained as ha hne x
  obtain ⟨b, hbM, hbe⟩ := commonAll_attained bs hb hne' x
  obtain ⟨b', hb', hle1⟩ := h2 a haM
  obtain ⟨a', ha', hle2⟩ := h1 b hbM
  have l1 := commonAll_le bs hb x b' hb'
  have l2 := commonAll_le as ha x a' ha'
  have := hle1 x; have := hle2 x
  grind

end Au

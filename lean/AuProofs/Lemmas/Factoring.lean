/-
  Lemmas about AuModel.Factoring: whatever `find_prime_factor` returns divides its argument.
-/
import AuModel.Factoring
import AuProofs.Lemmas.Primes
import Mathlib.Data.Nat.Prime.Basic
namespace Au
namespace U64

theorem bind_val' {α β : Type} (x : W α) (f : α → W β) : (x >>= f).val = (f x.val).val := by
  cases x; rfl

theorem gcd_val (a b : Nat) : (gcd a b).val = Nat.gcd a b := by rw [gcd_spec']

theorem ite_val {α : Type} (c : Prop) [Decidable c] (x y : W α) : (if c then x else y).val = if c then x.val else y.val := by
  split <;> rfl

theorem rhoInner_dvd (n t : Nat) (fuel : Nat) : ∀ tort hare mcl cl factor : Nat, factor ∣ n →
    (rhoInner n t fuel tort hare mcl cl factor).val ∣ n := by
  induction fuel with
  | zero =>
    intro tort hare mcl cl factor h
    unfold rhoInner
    split
    · exact h
    · exact h
  | succ f ih =>
    intro tort hare mcl cl factor h
    unfold rhoInner
    split
    · simp only []
      split <;> (simp only [bind_val']; apply ih; rw [gcd_val]; exact Nat.gcd_dvd_left _ _)
    · exact h

theorem rhoOuter_dvd (fu : Fuel) (n : Nat) (fuel : Nat) : ∀ t : Nat, (rhoOuter fu n fuel t).val ∣ n := by
  induction fuel with
  | zero =>
    intro t
    unfold rhoOuter
    split <;> exact Nat.dvd_refl n
  | succ f ih =>
    intro t
    unfold rhoOuter
    split
    · simp only [bind_val']
      split
      · apply rhoInner_dvd
        rw [gcd_val]; exact Nat.gcd_dvd_left _ _
      · apply ih
    · exact Nat.dvd_refl n

theorem findPollardRhoFactor_dvd (fu : Fuel) (n : Nat) : (findPollardRhoFactor fu n).val ∣ n :=
  rhoOuter_dvd fu n _ _

theorem refineFactor_dvd (fu : Fuel) (n : Nat) (fuel : Nat) : ∀ factor : Nat, factor ∣ n →
    (refineFactor fu fuel factor).val ∣ n := by
  induction fuel with
  | zero =>
    intro factor h
    unfold refineFactor
    simp only [bind_val']
    split <;> exact h
  | succ f ih =>
    intro factor h
    unfold refineFactor
    simp only [bind_val']
    split
    · exact h
    · apply ih
      exact Nat.dvd_trans (findPollardRhoFactor_dvd fu factor) h

theorem trialDivision_dvd (n : Nat) (table : List Nat) : ∀ r, (trialDivision n table).val = some r → r ∣ n := by
  induction table with
  | nil => intro r h; simp [trialDivision, pure_eq_ok] at h
  | cons p ps ih =>
    intro r h
    unfold trialDivision at h
    simp only [bind_val'] at h
    split at h
    · rename_i h0
      simp [pure_eq_ok] at h
      subst h
      exact Nat.dvd_of_mod_eq_zero h0
    · split at h
      · simp [pure_eq_ok] at h
        subst h
        exact Nat.dvd_refl _
      · exact ih r h

theorem findPrimeFactor_dvd (fu : Fuel) (table : List Nat) (n : Nat) : (findPrimeFactor fu table n).val ∣ n := by
  unfold findPrimeFactor
  simp only [bind_val']
  split
  · rename_i r h
    exact trialDivision_dvd n table r h
  · simp only [bind_val']
    split
    · exact Nat.dvd_refl n
    · simp only [bind_val']
      apply refineFactor_dvd
      exact findPollardRhoFactor_dvd fu n

/-- Primality by exhaustive trial division — executable, used only to state (and `decide`) facts
about the regenerated `FirstPrimes` table. -/
def isPrimeNaive (n : Nat) : Bool := decide (2 ≤ n) && (List.range n).all (fun d => decide (d < 2) || n % d != 0)

theorem isPrimeNaive_iff (n : Nat) : isPrimeNaive n = true ↔ Nat.Prime n := by
  unfold isPrimeNaive
  rw [Nat.prime_def_lt]
  simp only [Bool.and_eq_true, decide_eq_true_eq, List.all_eq_true, List.mem_range, Bool.or_eq_true, bne_iff_ne, ne_eq]
  constructor
  · rintro ⟨h2, h⟩
    refine ⟨h2, fun m hm hd => ?_⟩
    rcases h m hm with h' | h'
    · have : m ≠ 0 := by
        rintro rfl
        have := Nat.eq_zero_of_zero_dvd hd
        omega
      omega
    · exact absurd (Nat.mod_eq_zero_of_dvd hd) h'
  · rintro ⟨h2, h⟩
    refine ⟨h2, fun d hd => ?_⟩
    by_cases h' : d < 2
    · exact Or.inl h'
    · right
      intro h0
      have := h d hd (Nat.dvd_of_mod_eq_zero h0)
      omega

/-- `ps` lists, in increasing order and without gaps, the primes that are `≥ lo` (up to its last
element). -/
def nextPrimesB : Nat → List Nat → Bool
  | _, [] => true
  | lo, p :: ps => isPrimeNaive p && decide (lo ≤ p) &&
      (List.range p).all (fun q => decide (q < lo) || !isPrimeNaive q) && nextPrimesB (p + 1) ps

theorem trialDivision_prime (n : Nat) (hn : 1 < n) : ∀ (ps : List Nat) (lo : Nat), nextPrimesB lo ps = true →
    (∀ q, Nat.Prime q → q ∣ n → lo ≤ q) → ∀ r, (trialDivision n ps).val = some r → Nat.Prime r := by
  intro ps
  induction ps with
  | nil => intro lo _ _ r h; simp [trialDivision, pure_eq_ok] at h
  | cons p ps ih =>
    intro lo hB hlo r h
    unfold nextPrimesB at hB
    simp only [Bool.and_eq_true, decide_eq_true_eq, List.all_eq_true, List.mem_range, Bool.or_eq_true,
      Bool.not_eq_true'] at hB
    obtain ⟨⟨⟨hp, hlop⟩, hgap⟩, hrest⟩ := hB
    have hpp : Nat.Prime p := (isPrimeNaive_iff p).1 hp
    -- every prime divisor of n is ≥ p
    have hge : ∀ q, Nat.Prime q → q ∣ n → p ≤ q := by
      intro q hq hd
      by_contra hlt
      have hqp : q < p := by omega
      rcases hgap q hqp with h' | h'
      · have := hlo q hq hd; omega
      · have := (isPrimeNaive_iff q).2 hq
        rw [this] at h'
        exact Bool.noConfusion h'
    unfold trialDivision at h
    simp only [bind_val'] at h
    split at h
    · simp [pure_eq_ok] at h
      subst h
      exact hpp
    · rename_i hnd
      split at h
      · rename_i hsq
        simp [pure_eq_ok] at h
        subst h
        by_contra hnp
        have h1 := Nat.minFac_sq_le_self (by omega : 0 < n) hnp
        have h2 := hge _ (Nat.minFac_prime (by omega)) (Nat.minFac_dvd n)
        have h3 : p * p ≤ n.minFac * n.minFac := Nat.mul_le_mul h2 h2
        have h4 : n.minFac ^ 2 = n.minFac * n.minFac := by ring
        have hsq' : p * p > n := hsq
        omega
      · apply ih (p + 1) hrest _ r h
        intro q hq hd
        have h1 := hge q hq hd
        have : q ≠ p := by
          rintro rfl
          exact hnd (by simpa [mod] using Nat.mod_eq_zero_of_dvd hd)
        omega

theorem isPrime_val_ge2 (fu : Fuel) (r : Nat) (h : (isPrime fu r).val = true) : 2 ≤ r := by
  by_contra hlt
  unfold isPrime bailliePSW at h
  rw [if_pos (by omega)] at h
  simp [pure_eq_ok] at h

theorem bind_stuck' {α β : Type} (x : W α) (f : α → W β) : (x >>= f).stuck = (x.stuck || (f x.val).stuck) := by
  cases x; rfl

theorem refineFactor_prime (fu : Fuel) (fuel : Nat) : ∀ factor : Nat, (refineFactor fu fuel factor).stuck = false →
    (isPrime fu (refineFactor fu fuel factor).val).val = true := by
  induction fuel with
  | zero =>
    intro factor hs
    unfold refineFactor at hs ⊢
    simp only [bind_stuck', bind_val', Bool.or_eq_false_iff] at hs ⊢
    split
    · rename_i hp; exact hp
    · rename_i hp
      rw [if_neg hp] at hs
      simp [W.outOfFuel] at hs
  | succ f ih =>
    intro factor hs
    unfold refineFactor at hs ⊢
    simp only [bind_stuck', bind_val', Bool.or_eq_false_iff] at hs ⊢
    split
    · rename_i hp; exact hp
    · rename_i hp
      rw [if_neg hp] at hs
      simp only [bind_stuck', Bool.or_eq_false_iff] at hs
      exact ih _ hs.2.2

theorem findPrimeFactor_spec' (fu : Fuel) (table : List Nat) (n : Nat) (hn : 1 < n)
    (htab : nextPrimesB 0 table = true) (hs : (findPrimeFactor fu table n).stuck = false) :
    (findPrimeFactor fu table n).val ∣ n ∧ 1 < (findPrimeFactor fu table n).val ∧
      (Nat.Prime (findPrimeFactor fu table n).val ∨ (isPrime fu (findPrimeFactor fu table n).val).val = true) := by
  refine ⟨findPrimeFactor_dvd fu table n, ?_⟩
  have key : Nat.Prime (findPrimeFactor fu table n).val ∨ (isPrime fu (findPrimeFactor fu table n).val).val = true := by
    unfold findPrimeFactor at hs ⊢
    simp only [bind_stuck', bind_val', Bool.or_eq_false_iff] at hs ⊢
    split
    · rename_i r h
      left
      exact trialDivision_prime n hn table 0 htab (fun _ _ _ => Nat.zero_le _) r h
    · rename_i h
      rw [h] at hs
      simp only [bind_stuck', bind_val', Bool.or_eq_false_iff] at hs ⊢
      split
      · rename_i hp
        right
        exact hp
      · rename_i hp
        rw [if_neg hp] at hs
        simp only [bind_stuck', bind_val', Bool.or_eq_false_iff] at hs ⊢
        right
        exact refineFactor_prime fu _ _ hs.2.2.2
  refine ⟨?_, key⟩
  rcases key with h | h
  · exact h.one_lt
  · exact isPrime_val_ge2 fu _ h

end U64
end Au

import AuModel.CommonUnit
import AuProofs.Lemmas.Pack
set_option linter.unusedSectionVars false
namespace Au
section
variable {α : Type} [DecidableEq α] {lt : α → α → Bool}

def SSorted (lt : α → α → Bool) (l : List α) : Prop := l.Pairwise (fun a b => lt a b = true)

theorem mem_insertDedup (x : α) (l : List α) (y : α) :
    y ∈ insertDedup lt x l ↔ y = x ∨ y ∈ l := by
  induction l with
  | nil => simp [insertDedup]
  | cons h t ih =>
    unfold insertDedup
    split
    · rename_i hx; subst hx; simp
    · split
      · simp
      · simp only [List.mem_cons, ih]
        constructor
        · rintro (h1 | h1 | h1) <;> simp [h1]
        · rintro (h1 | h1 | h1) <;> simp [h1]

theorem insertDedup_sorted (h : StrictTotal lt) (x : α) (l : List α) (hs : SSorted lt l) :
    SSorted lt (insertDedup lt x l) := by
  induction l with
  | nil => simp [insertDedup, SSorted]
  | cons hd t ih =>
    unfold insertDedup
    split
    · exact hs
    · rename_i hne
      split
      · rename_i hlt
        refine List.pairwise_cons.2 ⟨?_, hs⟩
        intro y hy
        rcases List.mem_cons.1 hy with rfl | hy
        · exact hlt
        · exact h.trans _ _ _ hlt ((List.pairwise_cons.1 hs).1 y hy)
      · rename_i hnlt
        have hgt : lt hd x = true := by
          cases hh : lt hd x with
          | true => rfl
          | false => exact absurd (h.total x hd (by simpa using hnlt) hh) hne
        refine List.pairwise_cons.2 ⟨?_, ih (List.pairwise_cons.1 hs).2⟩
        intro y hy
        rcases (mem_insertDedup x t y).1 hy with rfl | hy
        · exact hgt
        · exact (List.pairwise_cons.1 hs).1 y hy

/-- A strictly sorted list is determined by its set of members. -/
theorem ssorted_ext (h : StrictTotal lt) : (a b : List α) → SSorted lt a → SSorted lt b →
    (∀ y, y ∈ a ↔ y ∈ b) → a = b
  | [], [], _, _, _ => rfl
  | [], y :: _, _, _, hm => absurd ((hm y).2 (List.mem_cons_self ..)) (List.not_mem_nil)
  | x :: _, [], _, _, hm => absurd ((hm x).1 (List.mem_cons_self ..)) (List.not_mem_nil)
  | x :: s, y :: t, ha, hb, hm => by
    have hax := List.pairwise_cons.1 ha
    have hby := List.pairwise_cons.1 hb
    have hxy : x = y := by
      apply h.total
      · -- not lt x y: otherwise x is below every member of (y :: t) yet a member
        cases hl : lt x y with
        | false => rfl
        | true =>
          have hx := (hm x).1 (List.mem_cons_self ..)
          rcases List.mem_cons.1 hx with e | hx
          · subst e; rw [h.irrefl] at hl; cases hl
          · have := h.trans _ _ _ hl (hby.1 x hx); rw [h.irrefl] at this; cases this
      · cases hl : lt y x with
        | false => rfl
        | true =>
          have hy := (hm y).2 (List.mem_cons_self ..)
          rcases List.mem_cons.1 hy with e | hy
          · subst e; rw [h.irrefl] at hl; cases hl
          · have := h.trans _ _ _ hl (hax.1 y hy); rw [h.irrefl] at this; cases this
    subst hxy
    have : s = t := by
      apply ssorted_ext h s t hax.2 hby.2
      intro z
      constructor
      · intro hz
        rcases List.mem_cons.1 ((hm z).1 (List.mem_cons_of_mem _ hz)) with e | hz'
        · subst e; have := hax.1 z hz; rw [h.irrefl] at this; cases this
        · exact hz'
      · intro hz
        rcases List.mem_cons.1 ((hm z).2 (List.mem_cons_of_mem _ hz)) with e | hz'
        · subst e; have := hby.1 z hz; rw [h.irrefl] at this; cases this
        · exact hz'
    rw [this]

theorem foldl_insert (h : StrictTotal lt) (b a : List α) (ha : SSorted lt a) :
    SSorted lt (b.foldl (fun acc x => insertDedup lt x acc) a) ∧
    ∀ y, y ∈ b.foldl (fun acc x => insertDedup lt x acc) a ↔ y ∈ a ∨ y ∈ b := by
  induction b generalizing a with
  | nil => simp [ha]
  | cons x t ih =>
    simp only [List.foldl_cons]
    have := ih (insertDedup lt x a) (insertDedup_sorted h x a ha)
    refine ⟨this.1, fun y => ?_⟩
    rw [this.2 y, mem_insertDedup]
    simp only [List.mem_cons]
    constructor
    · rintro ((h1 | h1) | h1) <;> simp [h1]
    · rintro (h1 | h1 | h1) <;> simp [h1]

theorem mergeDedup_spec (h : StrictTotal lt) (a b : List α) (ha : SSorted lt a) (hb : SSorted lt b) :
    SSorted lt (mergeDedup lt a b) ∧ ∀ y, y ∈ mergeDedup lt a b ↔ y ∈ a ∨ y ∈ b := by
  unfold mergeDedup
  split
  · rename_i t
    refine ⟨insertDedup_sorted h t b hb, fun y => ?_⟩
    rw [mem_insertDedup]; simp
  · exact foldl_insert h b a ha

theorem foldl_merge_spec (h : StrictTotal lt) (rest : List (List α)) (l : List α) (hl : SSorted lt l)
    (hr : ∀ r ∈ rest, SSorted lt r) :
    SSorted lt (rest.foldl (mergeDedup lt) l) ∧
    ∀ y, y ∈ rest.foldl (mergeDedup lt) l ↔ y ∈ l ∨ ∃ r ∈ rest, y ∈ r := by
  induction rest generalizing l with
  | nil => simp [hl]
  | cons r t ih =>
    simp only [List.foldl_cons]
    have hm := mergeDedup_spec h l r hl (hr r (List.mem_cons_self ..))
    have := ih (mergeDedup lt l r) hm.1 (fun r' hr' => hr r' (List.mem_cons_of_mem _ hr'))
    refine ⟨this.1, fun y => ?_⟩
    rw [this.2 y, hm.2 y]
    simp only [List.mem_cons, exists_eq_or_imp]
    constructor
    · rintro ((h1 | h1) | h1) <;> simp [h1]
    · rintro (h1 | h1 | h1) <;> simp [h1]

/-- `FlatDedupedTypeList` yields the strictly sorted list of the union of its (sorted) inputs. -/
theorem flatDedup_spec (h : StrictTotal lt) (ls : List (List α)) (hs : ∀ l ∈ ls, SSorted lt l) :
    SSorted lt (flatDedup lt ls) ∧ ∀ y, y ∈ flatDedup lt ls ↔ ∃ l ∈ ls, y ∈ l := by
  cases ls with
  | nil => simp [flatDedup, SSorted]
  | cons l rest =>
    have := foldl_merge_spec h rest l (hs l (List.mem_cons_self ..))
      (fun r hr => hs r (List.mem_cons_of_mem _ hr))
    refine ⟨this.1, fun y => ?_⟩
    show y ∈ rest.foldl (mergeDedup lt) l ↔ _
    rw [this.2 y]; simp

/-- **Order- and repetition-independence of `FlatDedupedTypeList`**: two input lists with the same
set of (sorted) member lists give the identical result. -/
theorem flatDedup_congr (h : StrictTotal lt) (ls ls' : List (List α))
    (hs : ∀ l ∈ ls, SSorted lt l) (hs' : ∀ l ∈ ls', SSorted lt l)
    (hm : ∀ l, l ∈ ls ↔ l ∈ ls') : flatDedup lt ls = flatDedup lt ls' := by
  have a := flatDedup_spec h ls hs
  have b := flatDedup_spec h ls' hs'
  apply ssorted_ext h _ _ a.1 b.1
  intro y
  rw [a.2 y, b.2 y]
  constructor
  · rintro ⟨l, hl, hy⟩; exact ⟨l, (hm l).1 hl, hy⟩
  · rintro ⟨l, hl, hy⟩; exact ⟨l, (hm l).2 hl, hy⟩
end
end Au

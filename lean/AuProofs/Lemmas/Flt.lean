/-
  Lemmas about the float model `AuModel.Flt`: integers of magnitude at most 2^digits are fixed points of
  round-to-nearest-even (so `static_cast<F>(n)` is exact for them).  Core Lean only.
-/
import AuModel.Flt
namespace Au
open FltTy

theorem ilog2_nat (a : Nat) (ha : a ≠ 0) : ilog2 a 1 = (a.log2 : Int) := by
  unfold ilog2
  have h1 : Nat.log2 1 = 0 := by decide
  have h2 := Nat.log2_self_le ha
  simp [h1, h2]

theorem roundEvenDiv_one (a : Nat) : roundEvenDiv a 1 = a := by
  unfold roundEvenDiv
  simp [Nat.mod_one]

theorem roundEvenDiv_mul (q d : Nat) (hd : 0 < d) : roundEvenDiv (q * d) d = q := by
  unfold roundEvenDiv
  have h1 : q * d / d = q := Nat.mul_div_cancel q hd
  have h2 : q * d % d = 0 := Nat.mul_mod_left q d
  simp [h1, h2, hd]

theorem natCast_mul_mkRat (a c : Nat) (hc : c ≠ 0) : ((a * c : Nat) : Rat) * mkRat 1 c = (a : Rat) := by
  have hc' : (c : Rat) ≠ 0 := by simpa using hc
  rw [Rat.mkRat_eq_div, Rat.natCast_mul, Rat.div_def]
  have h1 : ((1 : Int) : Rat) = 1 := by simp
  rw [h1, Rat.one_mul, Rat.mul_assoc, Rat.mul_inv_cancel _ hc', Rat.mul_one]

theorem pow2_nonneg (k : Nat) : pow2 (k : Int) = ((2 ^ k : Nat) : Rat) := by
  unfold pow2; simp

theorem pow2_neg (k : Nat) (hk : 0 < k) : pow2 (-(k : Int)) = mkRat 1 (2 ^ k) := by
  unfold pow2
  have : ¬ (0 : Int) ≤ -(k : Int) := by omega
  rw [if_neg this]
  simp

/-- Integers of magnitude at most `2^prec` are exactly representable: `rne` returns them unchanged
(provided `2^prec` does not exceed the largest finite value, as in every real format). -/
theorem rne_natCast (F : FltTy) (hp : 1 ≤ F.prec) (hemin : F.emin ≤ 0)
    (a : Nat) (ha : a ≠ 0) (hle : a ≤ 2 ^ F.prec) :
    rneAbs F a 1 = ((rneAbs F a 1).1, (rneAbs F a 1).2) ∧
    (((rneAbs F a 1).1 : Nat) : Rat) * pow2 (rneAbs F a 1).2 = (a : Rat) := by
  refine ⟨rfl, ?_⟩
  have hlog := Nat.log2_self_le ha
  have hlogp : a.log2 ≤ F.prec := by
    by_cases h : a.log2 ≤ F.prec
    · exact h
    · exfalso
      have : 2 ^ (F.prec + 1) ≤ 2 ^ a.log2 := Nat.pow_le_pow_right (by decide) (by omega)
      have : 2 ^ F.prec < 2 ^ (F.prec + 1) := Nat.pow_lt_pow_right (by decide) (by omega)
      omega
  unfold rneAbs
  simp only [ilog2_nat a ha]
  have hnot : ¬ ((a.log2 : Int) < F.emin) := by omega
  simp only [hnot, if_false]
  by_cases hk : (0 : Int) ≤ (a.log2 : Int) - ((F.prec : Int) - 1)
  · simp only [hk, if_true]
    -- k ∈ {0, 1}
    by_cases h0 : a.log2 = F.prec - 1
    · have e : (a.log2 : Int) - ((F.prec : Int) - 1) = ((0 : Nat) : Int) := by omega
      rw [e, pow2_nonneg]
      simp [roundEvenDiv_one]
    · have h1 : a.log2 = F.prec := by omega
      have e : (a.log2 : Int) - ((F.prec : Int) - 1) = ((1 : Nat) : Int) := by omega
      rw [e]
      have ha2 : a = 2 ^ F.prec := by
        have : 2 ^ F.prec ≤ a := by rw [← h1]; exact hlog
        omega
      have hpp : 2 ^ F.prec = 2 ^ (F.prec - 1) * 2 := by
        rw [← Nat.pow_succ]; congr 1; omega
      simp only [Int.toNat_natCast, Nat.pow_one, Nat.one_mul, pow2_nonneg]
      rw [ha2, hpp, roundEvenDiv_mul _ 2 (by decide)]
      simp
  · simp only [hk, if_false]
    have hj : 0 < F.prec - 1 - a.log2 := by omega
    have e : (a.log2 : Int) - ((F.prec : Int) - 1) = -((F.prec - 1 - a.log2 : Nat) : Int) := by omega
    rw [e]
    simp only [Int.neg_neg, Int.toNat_natCast, roundEvenDiv_one]
    rw [pow2_neg _ hj]
    exact natCast_mul_mkRat a _ (by have := Nat.pow_pos (n := F.prec - 1 - a.log2) (by decide : 0 < 2); omega)

/-- `static_cast<F>(n)` is exact for every integer with `|n| ≤ 2^digits`. -/
theorem ofInt_exact (F : FltTy) (hp : 1 ≤ F.prec) (hmax : 2 ^ F.prec ≤ F.maxNat) (hemin : F.emin ≤ 0)
    (n : Int) (h : n.natAbs ≤ 2 ^ F.prec) : Flt.ofInt F n = .fin (n : Rat) := by
  unfold Flt.ofInt rne
  by_cases hn : n = 0
  · subst hn; simp
  · have hq : (n : Rat) ≠ 0 := by simpa using hn
    rw [if_neg hq]
    have ha : n.natAbs ≠ 0 := by omega
    have hv := (rne_natCast F hp hemin n.natAbs ha h).2
    simp only [Rat.num_intCast, Rat.den_intCast, hv]
    have hnot : ¬ F.maxFinite < (n.natAbs : Rat) := by
      unfold maxFinite
      rw [Rat.not_lt, Rat.natCast_le_natCast]
      omega
    rw [if_neg hnot]
    congr 1
    have hcast : ((n.natAbs : Nat) : Rat) = ((n.natAbs : Int) : Rat) := (Rat.intCast_natCast _).symm
    by_cases hneg : n < 0
    · have h0 : (n : Rat) < 0 := by
        have := (Rat.intCast_lt_intCast (a := n) (b := 0)).2 hneg
        simpa using this
      rw [if_pos h0, hcast]
      have : (n.natAbs : Int) = -n := by omega
      rw [this, Rat.intCast_neg, Rat.neg_neg]
    · have h0 : ¬ (n : Rat) < 0 := by
        intro hc
        have : ((n : Rat) < ((0 : Int) : Rat)) := by simpa using hc
        exact hneg ((Rat.intCast_lt_intCast).1 this)
      rw [if_neg h0, hcast]
      have : (n.natAbs : Int) = n := by omega
      rw [this]

theorem fmt_facts : ∀ F ∈ FltTy.all, 1 ≤ F.prec ∧ 2 ^ F.prec ≤ F.maxNat ∧ F.emin ≤ 0 := by
  decide +kernel

end Au

/-
  Lemmas about the float model `AuModel.Flt`: integers of magnitude at most 2^digits are fixed points of
  round-to-nearest-even (so `static_cast<F>(n)` is exact for them), and a rational of magnitude at most max(F) never
  rounds to infinity.  Core Lean only.
-/
import AuModel.Flt
namespace Au
open FltTy

theorem ilog2_nat (a : Nat) (ha : a ≠ 0) : ilog2 a 1 = (a.log2 : Int) := by
  unfold ilog2
  have h1 : Nat.log2 1 = 0 := by decide
  have h2 := Nat.log2_self_le ha
  simp [h1, h2]

theorem roundEvenDiv_one (a : Nat) : roundEvenDiv a 1 = a := by
  unfold roundEvenDiv
  simp [Nat.mod_one]

theorem roundEvenDiv_mul (q d : Nat) (hd : 0 < d) : roundEvenDiv (q * d) d = q := by
  unfold roundEvenDiv
  have h1 : q * d / d = q := Nat.mul_div_cancel q hd
  have h2 : q * d % d = 0 := Nat.mul_mod_left q d
  simp [h1, h2, hd]

theorem natCast_mul_mkRat (a c : Nat) (hc : c ≠ 0) : ((a * c : Nat) : Rat) * mkRat 1 c = (a : Rat) := by
  have hc' : (c : Rat) ≠ 0 := by simpa using hc
  rw [Rat.mkRat_eq_div, Rat.natCast_mul, Rat.div_def]
  have h1 : ((1 : Int) : Rat) = 1 := by simp
  rw [h1, Rat.one_mul, Rat.mul_assoc, Rat.mul_inv_cancel _ hc', Rat.mul_one]

theorem pow2_nonneg (k : Nat) : pow2 (k : Int) = ((2 ^ k : Nat) : Rat) := by
  unfold pow2; simp

theorem pow2_neg (k : Nat) (hk : 0 < k) : pow2 (-(k : Int)) = mkRat 1 (2 ^ k) := by
  unfold pow2
  have : ¬ (0 : Int) ≤ -(k : Int) := by omega
  rw [if_neg this]
  simp

/-- Integers of magnitude at most `2^prec` are exactly representable: `rne` returns them unchanged
(provided `2^prec` does not exceed the largest finite value, as in every real format). -/
theorem rne_natCast (F : FltTy) (hp : 1 ≤ F.prec) (hemin : F.emin ≤ 0)
    (a : Nat) (ha : a ≠ 0) (hle : a ≤ 2 ^ F.prec) :
    rneAbs F a 1 = ((rneAbs F a 1).1, (rneAbs F a 1).2) ∧
    (((rneAbs F a 1).1 : Nat) : Rat) * pow2 (rneAbs F a 1).2 = (a : Rat) := by
  refine ⟨rfl, ?_⟩
  have hlog := Nat.log2_self_le ha
  have hlogp : a.log2 ≤ F.prec := by
    by_cases h : a.log2 ≤ F.prec
    · exact h
    · exfalso
      have : 2 ^ (F.prec + 1) ≤ 2 ^ a.log2 := Nat.pow_le_pow_right (by decide) (by omega)
      have : 2 ^ F.prec < 2 ^ (F.prec + 1) := Nat.pow_lt_pow_right (by decide) (by omega)
      omega
  unfold rneAbs
  simp only [ilog2_nat a ha]
  have hnot : ¬ ((a.log2 : Int) < F.emin) := by omega
  simp only [hnot, if_false]
  by_cases hk : (0 : Int) ≤ (a.log2 : Int) - ((F.prec : Int) - 1)
  · simp only [hk, if_true]
    -- k ∈ {0, 1}
    by_cases h0 : a.log2 = F.prec - 1
    · have e : (a.log2 : Int) - ((F.prec : Int) - 1) = ((0 : Nat) : Int) := by omega
      rw [e, pow2_nonneg]
      simp [roundEvenDiv_one]
    · have h1 : a.log2 = F.prec := by omega
      have e : (a.log2 : Int) - ((F.prec : Int) - 1) = ((1 : Nat) : Int) := by omega
      rw [e]
      have ha2 : a = 2 ^ F.prec := by
        have : 2 ^ F.prec ≤ a := by rw [← h1]; exact hlog
        omega
      have hpp : 2 ^ F.prec = 2 ^ (F.prec - 1) * 2 := by
        rw [← Nat.pow_succ]; congr 1; omega
      simp only [Int.toNat_natCast, Nat.pow_one, Nat.one_mul, pow2_nonneg]
      rw [ha2, hpp, roundEvenDiv_mul _ 2 (by decide)]
      simp
  · simp only [hk, if_false]
    have hj : 0 < F.prec - 1 - a.log2 := by omega
    have e : (a.log2 : Int) - ((F.prec : Int) - 1) = -((F.prec - 1 - a.log2 : Nat) : Int) := by omega
    rw [e]
    simp only [Int.neg_neg, Int.toNat_natCast, roundEvenDiv_one]
    rw [pow2_neg _ hj]
    exact natCast_mul_mkRat a _ (by have := Nat.pow_pos (n := F.prec - 1 - a.log2) (by decide : 0 < 2); omega)

/-- `static_cast<F>(n)` is exact for every integer with `|n| ≤ 2^digits`. -/
theorem ofInt_exact (F : FltTy) (hp : 1 ≤ F.prec) (hmax : 2 ^ F.prec ≤ F.maxNat) (hemin : F.emin ≤ 0)
    (n : Int) (h : n.natAbs ≤ 2 ^ F.prec) : Flt.ofInt F n = .fin (n : Rat) := by
  unfold Flt.ofInt rne
  by_cases hn : n = 0
  · subst hn; simp
  · have hq : (n : Rat) ≠ 0 := by simpa using hn
    rw [if_neg hq]
    have ha : n.natAbs ≠ 0 := by omega
    have hv := (rne_natCast F hp hemin n.natAbs ha h).2
    simp only [Rat.num_intCast, Rat.den_intCast, hv]
    have hnot : ¬ F.maxFinite < (n.natAbs : Rat) := by
      unfold maxFinite
      rw [Rat.not_lt, Rat.natCast_le_natCast]
      omega
    rw [if_neg hnot]
    congr 1
    have hcast : ((n.natAbs : Nat) : Rat) = ((n.natAbs : Int) : Rat) := (Rat.intCast_natCast _).symm
    by_cases hneg : n < 0
    · have h0 : (n : Rat) < 0 := by
        have := (Rat.intCast_lt_intCast (a := n) (b := 0)).2 hneg
        simpa using this
      rw [if_pos h0, hcast]
      have : (n.natAbs : Int) = -n := by omega
      rw [this, Rat.intCast_neg, Rat.neg_neg]
    · have h0 : ¬ (n : Rat) < 0 := by
        intro hc
        have : ((n : Rat) < ((0 : Int) : Rat)) := by simpa using hc
        exact hneg ((Rat.intCast_lt_intCast).1 this)
      rw [if_neg h0, hcast]
      have : (n.natAbs : Int) = n := by omega
      rw [this]

theorem fmt_facts : ∀ F ∈ FltTy.all, 1 ≤ F.prec ∧ 2 ^ F.prec ≤ F.maxNat ∧ F.emin ≤ 0 := by
  decide +kernel


/-! ### Rounding does not overflow within the finite range -/

theorem roundEvenDiv_le (n d L : Nat) (hd : 0 < d) (h : n ≤ L * d) : roundEvenDiv n d ≤ L := by
  unfold roundEvenDiv
  have hq : n / d ≤ L := by
    have := Nat.div_le_div_right (c := d) h
    rwa [Nat.mul_div_cancel _ hd] at this
  by_cases hlt : n / d < L
  · simp only []
    split
    · omega
    · split
      · omega
      · split <;> omega
  · have heq : n / d = L := by omega
    have hmod : n % d = 0 := by
      have h1 := Nat.div_add_mod n d
      rw [heq] at h1
      have : d * L = L * d := Nat.mul_comm _ _
      omega
    simp [hmod, hd, heq]

/-- Upper bound on the binade found by `ilog2`: if `n/d < 2^E` then `ilog2 n d < E`. -/
theorem ilog2_lt (n d E : Nat) (hn : n ≠ 0) (h : n < 2 ^ E * d) : ilog2 n d < (E : Int) := by
  have hln := Nat.log2_self_le hn
  have hld : d < 2 ^ (d.log2 + 1) := Nat.lt_log2_self
  unfold ilog2
  simp only []
  by_cases h0 : (0 : Int) ≤ (n.log2 : Int) - (d.log2 : Int)
  · rw [if_pos h0]
    have e0 : ((n.log2 : Int) - (d.log2 : Int)).toNat = n.log2 - d.log2 := by omega
    rw [e0]
    by_cases hc : 2 ^ (n.log2 - d.log2) * d ≤ n
    · rw [if_pos hc]
      by_cases hE : n.log2 - d.log2 < E
      · omega
      · exfalso
        have : 2 ^ E ≤ 2 ^ (n.log2 - d.log2) := Nat.pow_le_pow_right (by decide) (by omega)
        have : 2 ^ E * d ≤ 2 ^ (n.log2 - d.log2) * d := Nat.mul_le_mul_right d this
        omega
    · rw [if_neg hc]
      by_cases hE : (n.log2 : Int) - (d.log2 : Int) - 1 < (E : Int)
      · exact hE
      · exfalso
        have h1 : d.log2 + 1 + E ≤ n.log2 := by omega
        have h2 : 2 ^ (d.log2 + 1 + E) ≤ 2 ^ n.log2 := Nat.pow_le_pow_right (by decide) h1
        rw [Nat.pow_add] at h2
        have h3 : d * 2 ^ E < 2 ^ (d.log2 + 1) * 2 ^ E :=
          Nat.mul_lt_mul_of_pos_right hld (Nat.pow_pos (by decide))
        have : 2 ^ E * d = d * 2 ^ E := Nat.mul_comm _ _
        omega
  · rw [if_neg h0]
    split <;> omega

theorem pow2_nonneg' (k : Int) : 0 ≤ pow2 k := by
  unfold pow2
  split
  · exact Rat.natCast_nonneg
  · rw [← Rat.divInt_ofNat]
    exact Rat.divInt_nonneg (by decide) (Int.natCast_nonneg _)

theorem maxNat_lt (F : FltTy) (_hp : 1 ≤ F.prec) (hK : F.prec ≤ F.emax + 1) : F.maxNat < 2 ^ (F.emax + 1) := by
  unfold maxNat
  have h1 : 2 ^ (F.emax + 1) = 2 ^ F.prec * 2 ^ (F.emax + 1 - F.prec) := by
    rw [← Nat.pow_add]; congr 1; omega
  rw [h1]
  have hpos : 0 < 2 ^ (F.emax + 1 - F.prec) := Nat.pow_pos (by decide)
  have h2 : 2 ^ F.prec - 1 < 2 ^ F.prec := by
    have : 0 < 2 ^ F.prec := Nat.pow_pos (by decide)
    omega
  exact Nat.mul_lt_mul_of_pos_right h2 hpos

/-- A rational of magnitude at most `max(F)` does not round to infinity. -/
theorem rneAbs_le_max (F : FltTy) (hp : 1 ≤ F.prec) (hK : F.prec ≤ F.emax + 1) (he : 1 ≤ F.emax)
    (n d : Nat) (hn : n ≠ 0) (hd : 0 < d) (hle : n ≤ F.maxNat * d) :
    ¬ (F.maxFinite < ((rneAbs F n d).1 : Rat) * pow2 (rneAbs F n d).2) := by
  have hlt : n < 2 ^ (F.emax + 1) * d := by
    have := Nat.mul_lt_mul_of_pos_right (maxNat_lt F hp hK) hd
    omega
  have hE := ilog2_lt n d (F.emax + 1) hn hlt
  rw [Rat.not_lt]
  unfold rneAbs maxFinite
  simp only []
  -- name the exponent of the spacing
  generalize hk : (if ilog2 n d < F.emin then F.emin else ilog2 n d) - ((F.prec : Int) - 1) = k
  have hkK : k ≤ ((F.emax + 1 - F.prec : Nat) : Int) := by
    have : F.emin = 1 - (F.emax : Int) := rfl
    split at hk <;> omega
  by_cases hk0 : 0 ≤ k
  · rw [if_pos hk0]
    obtain ⟨kn, rfl⟩ := Int.eq_ofNat_of_zero_le hk0
    simp only [Int.toNat_natCast, pow2_nonneg]
    -- L = (2^p - 1) * 2^(K - kn)
    have hK2 : 2 ^ (F.emax + 1 - F.prec) = 2 ^ (F.emax + 1 - F.prec - kn) * 2 ^ kn := by
      rw [← Nat.pow_add]; congr 1; omega
    have hm : roundEvenDiv n (d * 2 ^ kn) ≤ (2 ^ F.prec - 1) * 2 ^ (F.emax + 1 - F.prec - kn) := by
      apply roundEvenDiv_le _ _ _ (Nat.mul_pos hd (Nat.pow_pos (by decide)))
      have : (2 ^ F.prec - 1) * 2 ^ (F.emax + 1 - F.prec - kn) * (d * 2 ^ kn) = F.maxNat * d := by
        unfold maxNat
        rw [hK2]
        simp only [Nat.mul_assoc, Nat.mul_comm]
      omega
    rw [← Rat.natCast_mul, Rat.natCast_le_natCast]
    have := Nat.mul_le_mul_right (2 ^ kn) hm
    have e : (2 ^ F.prec - 1) * 2 ^ (F.emax + 1 - F.prec - kn) * 2 ^ kn = F.maxNat := by
      unfold maxNat
      rw [hK2, Nat.mul_assoc]
    omega
  · rw [if_neg hk0]
    have hkneg : k = -(((-k).toNat : Nat) : Int) := by omega
    have hj : 0 < (-k).toNat := by omega
    generalize hjn : (-k).toNat = j at hkneg hj
    have hm : roundEvenDiv (n * 2 ^ j) d ≤ F.maxNat * 2 ^ j := by
      apply roundEvenDiv_le _ _ _ hd
      have := Nat.mul_le_mul_right (2 ^ j) hle
      have e : F.maxNat * 2 ^ j * d = F.maxNat * d * 2 ^ j := by
        simp only [Nat.mul_comm, Nat.mul_left_comm]
      omega
    rw [hkneg, pow2_neg j hj]
    have h2 : (0 : Rat) ≤ mkRat 1 (2 ^ j) := by
      rw [← Rat.divInt_ofNat]
      exact Rat.divInt_nonneg (by decide) (Int.natCast_nonneg _)
    have h3 := Rat.mul_le_mul_of_nonneg_right (Rat.natCast_le_natCast.2 hm) h2
    rw [natCast_mul_mkRat _ _ (Nat.ne_of_gt (Nat.pow_pos (by decide)))] at h3
    exact h3

/-- Rounding a rational of magnitude at most `max(F)` gives a finite value (no overflow to ±inf). -/
theorem rne_finite (F : FltTy) (hp : 1 ≤ F.prec) (hK : F.prec ≤ F.emax + 1) (he : 1 ≤ F.emax)
    (q : Rat) (hlo : -F.maxFinite ≤ q) (hhi : q ≤ F.maxFinite) : ∃ r : Rat, rne F q = .fin r := by
  unfold rne
  by_cases hq : q = 0
  · exact ⟨0, by simp [hq]⟩
  · rw [if_neg hq]
    have hn : q.num.natAbs ≠ 0 := by
      intro h
      apply hq
      have : q.num = 0 := by omega
      exact Rat.num_eq_zero.1 this
    have hle : q.num.natAbs ≤ F.maxNat * q.den := by
      unfold maxFinite at hlo hhi
      rw [Rat.le_iff] at hlo hhi
      simp only [Rat.neg_num, Rat.neg_den, Rat.num_natCast, Rat.den_natCast, Int.neg_mul] at hlo hhi
      have h1 : ((F.maxNat * q.den : Nat) : Int) = (F.maxNat : Int) * (q.den : Int) := by simp
      omega
    have := rneAbs_le_max F hp hK he q.num.natAbs q.den hn q.den_pos hle
    simp only [this, if_false]
    exact ⟨_, rfl⟩

theorem fmt_facts2 : ∀ F ∈ FltTy.all, 1 ≤ F.prec ∧ F.prec ≤ F.emax + 1 ∧ 1 ≤ F.emax := by
  decide

end Au

import AuProofs.Lemmas.Flt
import Mathlib.Tactic.Linarith
import Mathlib.Tactic.Ring
import Mathlib.Tactic.Positivity
import Mathlib.Algebra.Order.Field.Rat
import Mathlib.Data.Rat.Cast.Order

/-! Lower bounds for `rne`: rounding never takes a value below a power of two that it started above. -/
namespace Au

/-- For `n ≥ d > 0` the binade found by `ilog2` is non-negative and brackets `n/d` from below. -/
theorem ilog2_lower (n d : Nat) (hd : 0 < d) (hnd : d ≤ n) :
    0 ≤ ilog2 n d ∧ 2 ^ (ilog2 n d).toNat * d ≤ n := by
  have hn : n ≠ 0 := by omega
  have hd0 : d ≠ 0 := by omega
  have hln := Nat.log2_self_le hn
  have hld := Nat.log2_self_le hd0
  have hln' : n < 2 ^ (n.log2 + 1) := Nat.lt_log2_self
  have hld' : d < 2 ^ (d.log2 + 1) := Nat.lt_log2_self
  have hlog : d.log2 ≤ n.log2 := by
    by_contra h
    have h1 : n.log2 + 1 ≤ d.log2 := by omega
    have : 2 ^ (n.log2 + 1) ≤ 2 ^ d.log2 := Nat.pow_le_pow_right (by decide) h1
    omega
  unfold ilog2
  simp only []
  have h0 : (0 : Int) ≤ (n.log2 : Int) - (d.log2 : Int) := by omega
  rw [if_pos h0]
  have e0 : ((n.log2 : Int) - (d.log2 : Int)).toNat = n.log2 - d.log2 := by omega
  rw [e0]
  by_cases hc : 2 ^ (n.log2 - d.log2) * d ≤ n
  · rw [if_pos hc]
    refine ⟨h0, ?_⟩
    rw [e0]; exact hc
  · rw [if_neg hc]
    have hpos : 1 ≤ n.log2 - d.log2 := by
      by_contra h
      have : n.log2 - d.log2 = 0 := by omega
      rw [this] at hc; simp at hc; omega
    refine ⟨by omega, ?_⟩
    have e1 : ((n.log2 : Int) - (d.log2 : Int) - 1).toNat = n.log2 - d.log2 - 1 := by omega
    rw [e1]
    -- 2^(e0-1) * d < 2^(e0-1) * 2^(log2 d + 1) = 2^(log2 n) ≤ n
    have h2 : 2 ^ (n.log2 - d.log2 - 1) * d ≤ 2 ^ (n.log2 - d.log2 - 1) * 2 ^ (d.log2 + 1) :=
      Nat.mul_le_mul_left _ (by omega)
    have h3 : 2 ^ (n.log2 - d.log2 - 1) * 2 ^ (d.log2 + 1) = 2 ^ n.log2 := by
      rw [← Nat.pow_add]; congr 1; omega
    omega

theorem roundEvenDiv_ge (n d L : Nat) (hd : 0 < d) (h : L * d ≤ n) : L ≤ roundEvenDiv n d := by
  unfold roundEvenDiv
  have hq : L ≤ n / d := (Nat.le_div_iff_mul_le hd).2 h
  simp only []
  split
  · exact hq
  · split
    · omega
    · split <;> omega
end Au
namespace Au
theorem ilog2_upper (n d : Nat) (hd : 0 < d) (hnd : d ≤ n) :
    n < 2 ^ ((ilog2 n d).toNat + 1) * d := by
  have hn : n ≠ 0 := by omega
  have hd0 : d ≠ 0 := by omega
  have hld := Nat.log2_self_le hd0
  have hln' : n < 2 ^ (n.log2 + 1) := Nat.lt_log2_self
  have hln := Nat.log2_self_le hn
  have hld' : d < 2 ^ (d.log2 + 1) := Nat.lt_log2_self
  have hlog : d.log2 ≤ n.log2 := by
    by_contra h
    have h1 : n.log2 + 1 ≤ d.log2 := by omega
    have : 2 ^ (n.log2 + 1) ≤ 2 ^ d.log2 := Nat.pow_le_pow_right (by decide) h1
    omega
  unfold ilog2
  simp only []
  have h0 : (0 : Int) ≤ (n.log2 : Int) - (d.log2 : Int) := by omega
  rw [if_pos h0]
  have e0 : ((n.log2 : Int) - (d.log2 : Int)).toNat = n.log2 - d.log2 := by omega
  rw [e0]
  by_cases hc : 2 ^ (n.log2 - d.log2) * d ≤ n
  · rw [if_pos hc, e0]
    have h2 : 2 ^ (n.log2 - d.log2 + 1) * 2 ^ d.log2 ≤ 2 ^ (n.log2 - d.log2 + 1) * d := Nat.mul_le_mul_left _ hld
    have h3 : 2 ^ (n.log2 - d.log2 + 1) * 2 ^ d.log2 = 2 ^ (n.log2 + 1) := by
      rw [← Nat.pow_add]; congr 1; omega
    omega
  · rw [if_neg hc]
    have hpos : 1 ≤ n.log2 - d.log2 := by
      by_contra h
      have : n.log2 - d.log2 = 0 := by omega
      rw [this] at hc; simp at hc; omega
    have e1 : ((n.log2 : Int) - (d.log2 : Int) - 1).toNat = n.log2 - d.log2 - 1 := by omega
    rw [e1]
    have : n.log2 - d.log2 - 1 + 1 = n.log2 - d.log2 := by omega
    rw [this]; omega

theorem ilog2_ge (n d j : Nat) (hd : 0 < d) (h : 2 ^ j * d ≤ n) : (j : Int) ≤ ilog2 n d := by
  have hnd : d ≤ n := by
    have : 1 * d ≤ 2 ^ j * d := Nat.mul_le_mul_right d (Nat.one_le_two_pow)
    omega
  obtain ⟨h0, _⟩ := ilog2_lower n d hd hnd
  have hu := ilog2_upper n d hd hnd
  by_contra hlt
  have hj : (ilog2 n d).toNat + 1 ≤ j := by omega
  have : 2 ^ ((ilog2 n d).toNat + 1) ≤ 2 ^ j := Nat.pow_le_pow_right (by decide) hj
  have : 2 ^ ((ilog2 n d).toNat + 1) * d ≤ 2 ^ j * d := Nat.mul_le_mul_right d this
  omega
end Au

namespace Au
/-- The rounded magnitude `m·2^k` of a positive rational `n/d ≥ 2^j` is itself `≥ 2^j`. -/
theorem rneAbs_ge_pow2 (F : FltTy) (hp : 1 ≤ F.prec) (hemin : F.emin ≤ 0) (n d j : Nat) (hd : 0 < d)
    (h : 2 ^ j * d ≤ n) :
    ((2 ^ j : Nat) : Rat) ≤ ((rneAbs F n d).1 : Rat) * pow2 (rneAbs F n d).2 := by
  have hnd : d ≤ n := by
    have : 1 * d ≤ 2 ^ j * d := Nat.mul_le_mul_right d (Nat.one_le_two_pow)
    omega
  obtain ⟨h0, hlo⟩ := ilog2_lower n d hd hnd
  have hj := ilog2_ge n d j hd h
  unfold rneAbs
  simp only []
  have he : ¬ (ilog2 n d < F.emin) := by omega
  simp only [he, if_false]
  -- E = ilog2 ≥ j
  obtain ⟨E, hE⟩ : ∃ E : Nat, ilog2 n d = (E : Int) := ⟨(ilog2 n d).toNat, by omega⟩
  rw [hE] at hlo hj ⊢
  simp only [Int.toNat_natCast] at hlo
  have hjE : j ≤ E := by omega
  have h2jE : (2 ^ j : Nat) ≤ 2 ^ E := Nat.pow_le_pow_right (by decide) hjE
  by_cases hk : (0 : Int) ≤ (E : Int) - ((F.prec : Int) - 1)
  · simp only [hk, if_true]
    obtain ⟨K, hK⟩ : ∃ K : Nat, (E : Int) - ((F.prec : Int) - 1) = (K : Int) := ⟨((E : Int) - ((F.prec : Int) - 1)).toNat, by omega⟩
    rw [hK, Int.toNat_natCast, pow2_nonneg]
    have hEK : E = (F.prec - 1) + K := by omega
    have hm : 2 ^ (F.prec - 1) ≤ roundEvenDiv n (d * 2 ^ K) := by
      apply roundEvenDiv_ge _ _ _ (Nat.mul_pos hd (Nat.pow_pos (by decide)))
      calc 2 ^ (F.prec - 1) * (d * 2 ^ K) = 2 ^ E * d := by rw [hEK, Nat.pow_add]; ring
        _ ≤ n := hlo
    have : (2 ^ j : Nat) ≤ roundEvenDiv n (d * 2 ^ K) * 2 ^ K := by
      calc (2 ^ j : Nat) ≤ 2 ^ E := h2jE
        _ = 2 ^ (F.prec - 1) * 2 ^ K := by rw [hEK, Nat.pow_add]
        _ ≤ roundEvenDiv n (d * 2 ^ K) * 2 ^ K := Nat.mul_le_mul_right _ hm
    exact_mod_cast this
  · simp only [hk, if_false]
    obtain ⟨K, hK, hKpos⟩ : ∃ K : Nat, (E : Int) - ((F.prec : Int) - 1) = -(K : Int) ∧ 0 < K :=
      ⟨(-((E : Int) - ((F.prec : Int) - 1))).toNat, by omega, by omega⟩
    rw [hK, Int.neg_neg, Int.toNat_natCast, pow2_neg K hKpos]
    have hEK : F.prec - 1 = E + K := by omega
    have hm : 2 ^ (F.prec - 1) ≤ roundEvenDiv (n * 2 ^ K) d := by
      apply roundEvenDiv_ge _ _ _ hd
      calc 2 ^ (F.prec - 1) * d = 2 ^ E * d * 2 ^ K := by rw [hEK, Nat.pow_add]; ring
        _ ≤ n * 2 ^ K := Nat.mul_le_mul_right _ hlo
    have hnat : (2 ^ j : Nat) * 2 ^ K ≤ roundEvenDiv (n * 2 ^ K) d := by
      calc (2 ^ j : Nat) * 2 ^ K ≤ 2 ^ E * 2 ^ K := Nat.mul_le_mul_right _ h2jE
        _ = 2 ^ (F.prec - 1) := by rw [hEK, Nat.pow_add]
        _ ≤ _ := hm
    rw [Rat.mkRat_eq_div]
    have hpos : (0 : Rat) < ((2 ^ K : Nat) : Rat) := by positivity
    rw [show ((roundEvenDiv (n * 2 ^ K) d : Nat) : Rat) * (((1 : Int) : Rat) / ((2 ^ K : Nat) : Rat)) =
      ((roundEvenDiv (n * 2 ^ K) d : Nat) : Rat) / ((2 ^ K : Nat) : Rat) by push_cast; ring]
    rw [le_div_iff₀ hpos]
    exact_mod_cast hnat

end Au

namespace Au
/-- "At least `c`" for a float value: `+inf`, or finite and `≥ c`. -/
def Flt.AtLeast (c : Rat) : Flt → Prop
  | .inf false => True
  | .fin v => c ≤ v
  | _ => False

/-- Rounding to nearest never drops below a power of two the exact value is above. -/
theorem rne_atLeast_pow2 (F : FltTy) (hp : 1 ≤ F.prec) (hemin : F.emin ≤ 0) (q : Rat) (j : Nat)
    (h : ((2 ^ j : Nat) : Rat) ≤ q) : Flt.AtLeast ((2 ^ j : Nat) : Rat) (rne F q) := by
  have hqpos : (0 : Rat) < q := lt_of_lt_of_le (by positivity) h
  have hq0 : q ≠ 0 := ne_of_gt hqpos
  have hnum : 0 < q.num := Rat.num_pos.2 hqpos
  have hden : 0 < q.den := q.den_pos
  have hnat : 2 ^ j * q.den ≤ q.num.natAbs := by
    have h1 : ((2 ^ j : Nat) : Rat) * (q.den : Rat) ≤ (q.num : Rat) := by
      have hd : (0 : Rat) < (q.den : Rat) := by exact_mod_cast hden
      calc ((2 ^ j : Nat) : Rat) * (q.den : Rat) ≤ q * (q.den : Rat) := by nlinarith
        _ = (q.num : Rat) := Rat.mul_den_eq_num q
    have h2 : ((2 ^ j * q.den : Nat) : Int) ≤ q.num := by exact_mod_cast h1
    omega
  have hb := rneAbs_ge_pow2 F hp hemin q.num.natAbs q.den j hden hnat
  unfold rne
  simp only [hq0, if_false]
  have hnn : ¬ q < 0 := not_lt.2 (le_of_lt hqpos)
  split
  · simp [hnn, Flt.AtLeast]
  · simp only [hnn, if_false, Flt.AtLeast]
    exact hb

end Au

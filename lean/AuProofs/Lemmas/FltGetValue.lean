/-
  Accuracy of `get_value<long double>` on integer magnitudes, end to end through the model the driver runs
  (`getValueResultFlt`): base conversion (exact for primes below 2^64), `checked_int_pow` per base (`cipLoopF_ApproxF`),
  the running product (`mul_ApproxF`), and the final cast — every step adds its roundings, so for N = Π pᵢ^eᵢ

      |get_value<long double>(N) − N| ≤ N · ((1 + 2^-64)^(Σ(eᵢ+1) + 1) − 1).
-/
import AuProofs.Lemmas.FltRelErr
import AuProofs.Lemmas.FltPipeline

set_option linter.unusedSimpArgs false
set_option linter.unusedVariables false

namespace Au

/-- The exact value of an integer magnitude (prime bases, positive integer exponents). -/
def intMagValue : Mag → ℚ
  | [] => 1
  | a :: r => (match a.1 with | .prime p => (p : ℚ) ^ a.2.num.natAbs | .pi => 1) * intMagValue r

/-- The number of roundings the pipeline spends on it: `eᵢ` in each power loop and one per multiplication. -/
def intMagRoundings : Mag → Nat
  | [] => 0
  | a :: r => (a.2.num.natAbs + 1) + intMagRoundings r

/-- One base power of an integer magnitude. -/
theorem elemPower_ApproxF (a : MagBase × Rat) (p : Nat) (hp : 2 ≤ p ∧ p < 2 ^ 64) (hden : a.2.den = 1) (h1 : 1 ≤ a.2) (v : Flt)
    (hv : basePowerValueF (Flt.ofInt ld (IntTy.u64.wrap p)) a.2.num a.2.den = some v) :
    ApproxF a.2.num.natAbs ((p : ℚ) ^ a.2.num.natAbs) v := by
  rw [u64_wrap_id p hp.2] at hv
  have hn := num_ge_one_of a.2 hden h1
  have hnum : ¬ a.2.num < 0 := by omega
  have hbase : Flt.ofInt ld (p : Int) = Flt.fin (p : ℚ) := by
    have hf := fmt_facts ld (by simp [ld, FltTy.all])
    have := ofInt_exact ld hf.1 hf.2.1 hf.2.2 (p : Int) (by
      have : ((p : Int)).natAbs = p := Int.natAbs_natCast p
      rw [this]; exact le_of_lt (by simpa [ld, FltTy.f80] using hp.2))
    simpa using this
  rw [hbase] at hv
  unfold basePowerValueF checkedIntPowF at hv
  simp only [hden, Nat.lt_irrefl, if_false, hnum] at hv
  split at hv
  · cases hv
  · rename_i pw hpw
    simp at hv; subst hv
    have hp1 : (1 : ℚ) ≤ (p : ℚ) := by exact_mod_cast (by omega : 1 ≤ p)
    have h0 : ApproxF 0 ((p : ℚ) ^ 0) (Flt.fin 1) := ⟨by simpa using RelN.refl ld 1, le_refl _⟩
    have h1' : ApproxF 0 ((p : ℚ) ^ 1) (Flt.fin (p : ℚ)) := ⟨by simpa using RelN.refl ld (p : ℚ), hp1⟩
    have := cipLoopF_ApproxF (p : ℚ) a.2.num.natAbs (Flt.fin 1) (Flt.fin (p : ℚ)) 0 1 0 0 h0 h1' pw hpw
    simpa using this

/-- The running product over the base powers of an integer magnitude. -/
theorem powersProduct_ApproxF : ∀ (sf : Mag), Mag.isIntegerMag sf = true → Mag.PrimesOK sf →
    ∀ (acc : Flt) (X : ℚ) (N : Nat), ApproxF N X acc →
    ((sf.map fun a => basePowerValueF (match a.1 with | .prime p => Flt.ofInt ld (IntTy.u64.wrap p) | .pi => piLD) a.2.num a.2.den).any (·.isNone)) = false →
    ∀ w, productF ((sf.map fun a => basePowerValueF (match a.1 with | .prime p => Flt.ofInt ld (IntTy.u64.wrap p) | .pi => piLD) a.2.num a.2.den).filterMap id) acc = some w →
    ApproxF (N + intMagRoundings sf) (X * intMagValue sf) w
  | [], _, _, acc, X, N, hacc, _, w, hw => by
    simp only [List.map_nil, List.filterMap_nil, productF, Option.some.injEq] at hw
    subst hw
    simpa [intMagRoundings, intMagValue] using hacc
  | a :: r, hint, hok, acc, X, N, hacc, hany, w, hw => by
    have hint' := hint
    unfold Mag.isIntegerMag at hint'
    rw [List.all_cons, Bool.and_eq_true] at hint'
    have hr : Mag.isIntegerMag r = true := by unfold Mag.isIntegerMag; exact hint'.2
    have hokr : Mag.PrimesOK r := fun x hx => hok x (List.mem_cons_of_mem _ hx)
    simp only [List.map_cons, List.any_cons, Bool.or_eq_false_iff] at hany
    cases hb : a.1 with
    | pi => rw [hb] at hint'; simp at hint'
    | prime p =>
      have hia := hint'.1
      rw [hb] at hia
      simp only [Bool.and_eq_true, beq_iff_eq, decide_eq_true_eq] at hia
      have hpp := hok a (List.mem_cons_self ..) p hb
      simp only [List.map_cons, hb] at hw hany
      cases hpow : basePowerValueF (Flt.ofInt ld (IntTy.u64.wrap p)) a.2.num a.2.den with
      | none => rw [hpow] at hany; simp at hany
      | some v =>
        rw [hpow] at hw
        simp only [List.filterMap_cons, id] at hw
        have hv := elemPower_ApproxF a p hpp hia.1 hia.2 v hpow
        unfold productF at hw
        split at hw
        · cases hw
        · have hstep := mul_ApproxF hacc hv
          have := powersProduct_ApproxF r hr hokr (Flt.mul ld acc v) (X * (p : ℚ) ^ a.2.num.natAbs) (N + a.2.num.natAbs + 1)
            hstep hany.2 w hw
          have e1 : N + a.2.num.natAbs + 1 + intMagRoundings r = N + intMagRoundings (a :: r) := by
            simp [intMagRoundings]; omega
          have e2 : X * (p : ℚ) ^ a.2.num.natAbs * intMagValue r = X * intMagValue (a :: r) := by
            simp [intMagValue, hb]; ring
          rwa [e1, e2] at this

/-- **`get_value<long double>` of an integer magnitude is accurate to the accumulated roundoff.**  For every magnitude with
prime bases `2 ≤ p < 2^64` and positive integer exponents, whenever the model's `get_value_result<long double>` is OK with a
finite value `v`, that value is the exact integer `N = Π pᵢ^eᵢ` after at most `Σ(eᵢ+1) + 1` roundings:
`|v − N| ≤ N·((1+2^-64)^(Σ(eᵢ+1)+1) − 1)`. -/
theorem getValueLD_integer_accuracy (sf : Mag) (hne : sf ≠ []) (hint : Mag.isIntegerMag sf = true) (hok : Mag.PrimesOK sf)
    (v : ℚ) (h : getValueResultFlt ld sf = (.ok, Flt.fin v)) :
    RelN ld (intMagRoundings sf + 1) (intMagValue sf) v ∧
      |v - intMagValue sf| ≤ intMagValue sf * ((1 + uro ld) ^ (intMagRoundings sf + 1) - 1) := by
  have hval0 : ∀ m : Mag, 0 ≤ intMagValue m := by
    intro m
    induction m with
    | nil => simp [intMagValue]
    | cons a r ih =>
      simp only [intMagValue]
      apply mul_nonneg _ ih
      cases a.1 with
      | prime p => positivity
      | pi => norm_num
  unfold getValueResultFlt at h
  simp only [hne, if_false] at h
  split at h
  · cases h
  · rename_i hany
    split at h
    · cases h
    · rename_i w hw
      have hany' : ((sf.map fun a => basePowerValueF (match a.1 with | .prime p => Flt.ofInt ld (IntTy.u64.wrap p) | .pi => piLD) a.2.num a.2.den).any (·.isNone)) = false := by
        exact (Bool.not_eq_true _).mp hany
      have h1 : ApproxF 0 1 (Flt.fin 1) := ⟨RelN.refl ld 1, le_refl _⟩
      have hprod := powersProduct_ApproxF sf hint hok (Flt.fin 1) 1 0 h1 hany' w hw
      simp only [Nat.zero_add, one_mul] at hprod
      split at h
      · split at h
        · cases h
        · simp only [Prod.mk.injEq, true_and] at h
          -- the final cast
          cases w with
          | nan => exact hprod.elim
          | inf s => simp [Flt.cast] at h
          | fin x =>
            have hx : RelN ld (intMagRoundings sf) (intMagValue sf) x ∧ 1 ≤ x := hprod
            have hcast : rne ld x = Flt.fin v := by simpa [Flt.cast] using h
            have hxne : x ≠ 0 := by intro h0; rw [h0] at hx; norm_num at hx
            have hstep := rne_RelN ld x hxne (ld_normal_of_ge_one x hx.2) v hcast
            have hrel := RelN.trans ld hx.1 hstep
            exact ⟨hrel, RelN.abs_err ld (hval0 sf) hrel⟩
      · cases h

theorem normal_of_ge_one (F : FltTy) (hemin : F.emin ≤ 0) (q : ℚ) (h : 1 ≤ q) : (2 : ℚ) ^ F.emin ≤ |q| := by
  have h1 : (2 : ℚ) ^ F.emin ≤ (2 : ℚ) ^ (0 : Int) := Chrono.zpow_le_of_le hemin
  have h2 : (2 : ℚ) ^ (0 : Int) = 1 := by simp
  rw [abs_of_pos (by linarith)]
  linarith

/-- **The same for `float` and `double` targets** (and any format with `emin ≤ 0`): the long-double pipeline value `x` carries
at most `Σ(eᵢ+1)` long-double roundings of `N`, and the returned value is `x` rounded ONCE more, in the target format:
`v = N·ρ·(1+δ)` with `(1−2^-64)^k ≤ ρ ≤ (1+2^-64)^k` and `|δ| ≤ 2^-prec(T)`. -/
theorem getValue_integer_accuracy (f : FltTy) (hemin : f.emin ≤ 0) (sf : Mag) (hne : sf ≠ [])
    (hint : Mag.isIntegerMag sf = true) (hok : Mag.PrimesOK sf) (v : ℚ) (h : getValueResultFlt f sf = (.ok, Flt.fin v)) :
    ∃ x : ℚ, RelN ld (intMagRoundings sf) (intMagValue sf) x ∧ 1 ≤ x ∧ RelN f 1 x v := by
  unfold getValueResultFlt at h
  simp only [hne, if_false] at h
  split at h
  · cases h
  · rename_i hany
    split at h
    · cases h
    · rename_i w hw
      have hany' : ((sf.map fun a => basePowerValueF (match a.1 with | .prime p => Flt.ofInt ld (IntTy.u64.wrap p) | .pi => piLD) a.2.num a.2.den).any (·.isNone)) = false := by
        exact (Bool.not_eq_true _).mp hany
      have h1 : ApproxF 0 1 (Flt.fin 1) := ⟨RelN.refl ld 1, le_refl _⟩
      have hprod := powersProduct_ApproxF sf hint hok (Flt.fin 1) 1 0 h1 hany' w hw
      simp only [Nat.zero_add, one_mul] at hprod
      split at h
      · split at h
        · cases h
        · simp only [Prod.mk.injEq, true_and] at h
          cases w with
          | nan => exact hprod.elim
          | inf s => simp [Flt.cast] at h
          | fin x =>
            have hx : RelN ld (intMagRoundings sf) (intMagValue sf) x ∧ 1 ≤ x := hprod
            have hcast : rne f x = Flt.fin v := by simpa [Flt.cast] using h
            have hxne : x ≠ 0 := by intro h0; rw [h0] at hx; norm_num at hx
            exact ⟨x, hx.1, hx.2, rne_RelN f x hxne (normal_of_ge_one f hemin x hx.2) v hcast⟩
      · cases h

end Au

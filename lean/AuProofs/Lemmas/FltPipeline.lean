import AuProofs.Lemmas.FltBounds
import AuProofs.Lemmas.GetValue
import AuModel.Policy

/-! # Lower bounds through the long-double `get_value_result` pipeline

Every rounding step (`static_cast<long double>(p)`, `checked_int_pow`, `product`, the final cast to
the target floating type) keeps a value that is exactly at least 2 at least 2.  Consequence: an integer
magnitude other than ONE never evaluates to a `double` ≤ 1.0 (`magAsDoubleLeOne_false`), which
discharges the float-pipeline hypothesis the C06 formula theorem used to carry. -/
namespace Au

theorem ld_facts : 1 ≤ ld.prec ∧ ld.emin ≤ 0 := by decide
theorem f64_facts : 1 ≤ FltTy.f64.prec ∧ FltTy.f64.emin ≤ 0 := by decide

theorem AtLeast.mono {a b : Rat} (hab : a ≤ b) : ∀ {x : Flt}, Flt.AtLeast b x → Flt.AtLeast a x
  | .inf false, _ => trivial
  | .fin _, h => le_trans hab h
  | .inf true, h => h.elim
  | .nan, h => h.elim

/-- Products of values at least `2^i` and `2^j` are at least `2^(i+j)` after rounding. -/
theorem mul_atLeast (i j : Nat) (x y : Flt) (hx : Flt.AtLeast ((2 ^ i : Nat) : Rat) x)
    (hy : Flt.AtLeast ((2 ^ j : Nat) : Rat) y) :
    Flt.AtLeast ((2 ^ (i + j) : Nat) : Rat) (Flt.mul ld x y) := by
  have pi : (0 : Rat) < ((2 ^ i : Nat) : Rat) := by positivity
  have pj : (0 : Rat) < ((2 ^ j : Nat) : Rat) := by positivity
  match x, y, hx, hy with
  | .inf false, .inf false, _, _ => simp [Flt.mul, Flt.AtLeast]
  | .inf false, .fin q, _, hq =>
    have hq0 : (0 : Rat) < q := lt_of_lt_of_le pj hq
    have : ¬ q < 0 := not_lt.2 (le_of_lt hq0)
    simp [Flt.mul, Flt.AtLeast, ne_of_gt hq0, this]
  | .fin q, .inf false, hq, _ =>
    have hq0 : (0 : Rat) < q := lt_of_lt_of_le pi hq
    have : ¬ q < 0 := not_lt.2 (le_of_lt hq0)
    simp [Flt.mul, Flt.AtLeast, ne_of_gt hq0, this]
  | .fin a, .fin b, ha, hb =>
    simp only [Flt.mul]
    apply rne_atLeast_pow2 ld ld_facts.1 ld_facts.2
    have : ((2 ^ (i + j) : Nat) : Rat) = ((2 ^ i : Nat) : Rat) * ((2 ^ j : Nat) : Rat) := by
      push_cast; ring
    rw [this]
    simp only [Flt.AtLeast] at ha hb
    nlinarith

/-- `checked_int_pow` in long double never returns less than it started with; with a base ≥ 2 and a
positive exponent it returns at least 2. -/
theorem cipLoopF_atLeast : ∀ (e : Nat) (r b : Flt), Flt.AtLeast 1 r → Flt.AtLeast 2 b → ∀ v, cipLoopF r b e = some v →
    Flt.AtLeast 1 v ∧ (1 ≤ e → Flt.AtLeast 2 v) := by
  intro e
  induction e using Nat.strongRecOn with
  | ind e ih =>
    intro r b hr hb v hv
    have h1 : Flt.AtLeast ((2 ^ 0 : Nat) : Rat) r := by simpa using hr
    have h2 : Flt.AtLeast ((2 ^ 1 : Nat) : Rat) b := by simpa using hb
    unfold cipLoopF at hv
    by_cases he : e = 0
    · subst he
      simp at hv; subst hv
      exact ⟨hr, fun h => by omega⟩
    · simp only [he, dif_neg, not_false_eq_true] at hv
      have he2 : e / 2 < e := by omega
      have hbb : Flt.AtLeast 2 (Flt.mul ld b b) := by
        have := mul_atLeast 1 1 b b h2 h2
        exact AtLeast.mono (by norm_num) this
      by_cases hodd : e % 2 = 1
      · simp only [hodd, if_true] at hv
        by_cases hg : Flt.gt b (Flt.div ld ldMax r) = true
        · simp only [hg, if_true] at hv; cases hv
        · simp only [hg, Bool.false_eq_true, if_false] at hv
          have hrb : Flt.AtLeast 2 (Flt.mul ld r b) := by
            have := mul_atLeast 0 1 r b h1 h2
            simpa using this
          have hrb1 : Flt.AtLeast 1 (Flt.mul ld r b) := AtLeast.mono (by norm_num) hrb
          by_cases hg2 : Flt.gt b (Flt.div ld ldMax b) = true
          · simp only [hg2, if_true] at hv
            split at hv
            · simp at hv; subst hv; exact ⟨hrb1, fun _ => hrb⟩
            · cases hv
          · simp only [hg2, Bool.false_eq_true, if_false] at hv
            have := ih (e / 2) he2 (Flt.mul ld r b) (Flt.mul ld b b) hrb1 hbb v hv
            refine ⟨this.1, fun _ => ?_⟩
            by_cases h0 : e / 2 = 0
            · rw [h0] at hv; unfold cipLoopF at hv; simp at hv; subst hv; exact hrb
            · exact this.2 (by omega)
      · simp only [hodd, if_false] at hv
        by_cases hg2 : Flt.gt b (Flt.div ld ldMax b) = true
        · simp only [hg2, if_true] at hv
          split at hv
          · rename_i h0; omega
          · cases hv
        · simp only [hg2, Bool.false_eq_true, if_false] at hv
          have := ih (e / 2) he2 r (Flt.mul ld b b) hr hbb v hv
          exact ⟨this.1, fun _ => this.2 (by omega)⟩

/-- `product(...)`: a running product that starts at least 1 and multiplies values at least 2. -/
theorem productF_atLeast : ∀ (l : List Flt) (acc : Flt), Flt.AtLeast 1 acc → (∀ x ∈ l, Flt.AtLeast 2 x) →
    ∀ v, productF l acc = some v → Flt.AtLeast 1 v ∧ (l ≠ [] → Flt.AtLeast 2 v)
  | [], acc, ha, _, v, hv => by
    simp [productF] at hv; subst hv; exact ⟨ha, fun h => (h rfl).elim⟩
  | x :: rest, acc, ha, hl, v, hv => by
    unfold productF at hv
    split at hv
    · cases hv
    · have hx : Flt.AtLeast 2 x := hl x (by simp)
      have h1 : Flt.AtLeast ((2 ^ 0 : Nat) : Rat) acc := by simpa using ha
      have h2 : Flt.AtLeast ((2 ^ 1 : Nat) : Rat) x := by simpa using hx
      have hm : Flt.AtLeast 2 (Flt.mul ld acc x) := by
        have := mul_atLeast 0 1 acc x h1 h2
        simpa using this
      have hm1 : Flt.AtLeast 1 (Flt.mul ld acc x) := AtLeast.mono (by norm_num) hm
      have ih := productF_atLeast rest (Flt.mul ld acc x) hm1 (fun y hy => hl y (by simp [hy])) v hv
      refine ⟨ih.1, fun _ => ?_⟩
      by_cases hr : rest = []
      · subst hr; simp [productF] at hv; subst hv; exact hm
      · exact ih.2 hr

/-- A value at least 2 is not `≤ 1.0`. -/
theorem not_le_one_of_atLeast2 : ∀ v : Flt, Flt.AtLeast 2 v → Flt.le v (Flt.fin 1) = false
  | .inf false, _ => by simp [Flt.le, Flt.lt]
  | .fin q, h => by
    simp only [Flt.AtLeast] at h
    have : (1 : Rat) < q := by linarith
    simp [Flt.le, Flt.lt, this]
  | .inf true, h => h.elim
  | .nan, h => h.elim

theorem cast_atLeast2 (F : FltTy) (hF : 1 ≤ F.prec ∧ F.emin ≤ 0) : ∀ v : Flt, Flt.AtLeast 2 v → Flt.AtLeast 2 (Flt.cast F v)
  | .inf false, _ => by simp [Flt.cast, Flt.AtLeast]
  | .fin q, h => by
    simp only [Flt.cast]
    have := rne_atLeast_pow2 F hF.1 hF.2 q 1 (by simpa [Flt.AtLeast] using h)
    simpa using this
  | .inf true, h => h.elim
  | .nan, h => h.elim


/-- Well-formed prime bases: `2 ≤ p < 2^64` (what `Prime<N>`'s `static_assert(is_prime(N))` and
`std::uintmax_t` guarantee for every magnitude the library can form). -/
def Mag.PrimesOK (m : Mag) : Prop := ∀ a ∈ m, ∀ p, a.1 = .prime p → 2 ≤ p ∧ p < 2 ^ 64

theorem u64_wrap_id (p : Nat) (h : p < 2 ^ 64) : IntTy.u64.wrap (p : Int) = (p : Int) := by
  unfold IntTy.wrap IntTy.u64
  simp only [Bool.false_and, Bool.false_eq_true, if_false]
  apply Int.emod_eq_of_lt (by omega)
  have : ((2 : Int) ^ 64) = ((2 ^ 64 : Nat) : Int) := by norm_num
  rw [this]; exact_mod_cast h

theorem ofInt_atLeast2 (p : Nat) (h : 2 ≤ p) : Flt.AtLeast 2 (Flt.ofInt ld (p : Int)) := by
  unfold Flt.ofInt
  have := rne_atLeast_pow2 ld ld_facts.1 ld_facts.2 ((p : Int) : Rat) 1 (by push_cast; exact_mod_cast h)
  simpa using this

theorem elemPower_atLeast2 (a : MagBase × Rat) (p : Nat) (hp : 2 ≤ p ∧ p < 2 ^ 64)
    (hden : a.2.den = 1) (h1 : 1 ≤ a.2) (v : Flt)
    (hv : basePowerValueF (Flt.ofInt ld (IntTy.u64.wrap p)) a.2.num a.2.den = some v) : Flt.AtLeast 2 v := by
  rw [u64_wrap_id p hp.2] at hv
  have hn := num_ge_one_of a.2 hden h1
  have hnum : ¬ a.2.num < 0 := by omega
  have habs : 1 ≤ a.2.num.natAbs := by omega
  unfold basePowerValueF checkedIntPowF at hv
  simp only [hden, Nat.lt_irrefl, if_false, hnum] at hv
  split at hv
  · cases hv
  · rename_i pw hpw
    simp at hv; subst hv
    exact (cipLoopF_atLeast _ _ _ (by simp [Flt.AtLeast]) (ofInt_atLeast2 p hp.1) _ hpw).2 habs

/-- **Discharge of `DoubleLeOneOnlyForOne`**: for an integer magnitude with well-formed prime bases
that is not ONE, `get_value_result<double>` is never OK with a value ≤ 1.0 — every rounding step of
the long-double pipeline (base conversion, checked_int_pow, product, final cast to double) keeps the
value at least 2. -/
theorem magAsDoubleLeOne_false (sf : Mag) (hne : sf ≠ []) (hint : Mag.isIntegerMag sf = true)
    (hok : Mag.PrimesOK sf) : magAsDoubleLeOne sf = false := by
  unfold magAsDoubleLeOne getValueResultFlt
  simp only [hne, if_false]
  split
  · rename_i v heq
    split at heq
    · cases heq
    · rename_i hany
      split at heq
      · cases heq
      · rename_i w hw
        -- every power is `some` of a value at least 2
        have hall : ∀ x ∈ (sf.map fun a =>
            basePowerValueF (match a.1 with | .prime p => Flt.ofInt ld (IntTy.u64.wrap p) | .pi => piLD) a.2.num a.2.den).filterMap id,
            Flt.AtLeast 2 x := by
          intro x hx
          rw [List.mem_filterMap] at hx
          obtain ⟨o, ho, hox⟩ := hx
          rw [List.mem_map] at ho
          obtain ⟨a, ha, rfl⟩ := ho
          simp only [id] at hox
          unfold Mag.isIntegerMag at hint
          rw [List.all_eq_true] at hint
          have hia := hint a ha
          cases hb : a.1 with
          | prime p =>
            rw [hb] at hia hox
            simp only [Bool.and_eq_true, beq_iff_eq, decide_eq_true_eq] at hia
            exact elemPower_atLeast2 a p (hok a ha p hb) hia.1 hia.2 x hox
          | pi => rw [hb] at hia; cases hia
        have hnonempty : (sf.map fun a =>
            basePowerValueF (match a.1 with | .prime p => Flt.ofInt ld (IntTy.u64.wrap p) | .pi => piLD) a.2.num a.2.den).filterMap id ≠ [] := by
          obtain ⟨a, rest, rfl⟩ := List.exists_cons_of_ne_nil hne
          simp only [List.map_cons, List.any_cons, Bool.or_eq_true, not_or] at hany
          intro hnil
          rw [List.map_cons, List.filterMap_cons] at hnil
          split at hnil
          · rename_i hnone
            simp only [id] at hnone
            exact hany.1 (Option.isNone_iff_eq_none.2 hnone)
          · cases hnil
        have hw2 := (productF_atLeast _ _ (by simp [Flt.AtLeast]) hall w hw).2 hnonempty
        split at heq
        · split at heq
          · cases heq
          · cases heq
            exact not_le_one_of_atLeast2 _ (cast_atLeast2 _ f64_facts _ hw2)
        · cases heq
  · rfl
end Au

/-
  The error of one rounding step of the shared float model (`AuModel.Flt.rne`):

  * `roundEvenDiv_err`  — `roundEvenDiv n d` is within 1/2 of `n/d`;
  * `rneAbs_err`        — the rounded magnitude `m·2^k` is within half a quantum `2^k/2` of `n/d`;
  * `rne_abs_err`       — for every non-zero rational `q` whose rounding is finite, `|rne q − q| ≤ 2^k/2`
                          with `k` the quantum exponent the model used;
  * `rne_rel_err`       — in the normal range (`2^emin ≤ |q|`) that is a RELATIVE error of at most `2^-prec`:
                          `|rne q − q| ≤ |q|·2^-prec` (the textbook unit roundoff), for every format.

  This is the bound that DESIGN A2 lists as "not proved" for the float clauses; it is proved here for one
  rounding step (every IEEE operation of the model is "exact result, then `rne`").
-/
import AuModel.Flt
import AuProofs.Lemmas.ChronoRne
import AuProofs.Lemmas.FltBounds
import AuModel.GetValue

set_option linter.unusedSimpArgs false
set_option linter.unusedVariables false

namespace Au
open Chrono (two_zpow_pos pow2_eq)

/-- The two transcriptions of `⌊log₂(n/d)⌋` (AuModel.Flt and AuModel.Chrono) are the same function. -/
theorem ilog2_eq_chrono (n d : Nat) : ilog2 n d = Chrono.ilog2 n d := rfl

theorem ilog2_spec' (n d : Nat) (hn : 0 < n) (hd : 0 < d) :
    (2 : ℚ) ^ (ilog2 n d) ≤ (n : ℚ) / d ∧ (n : ℚ) / d < (2 : ℚ) ^ (ilog2 n d + 1) := by
  rw [ilog2_eq_chrono]; exact Chrono.ilog2_spec n d hn hd

/-- `roundEvenDiv n d` is within one half of `n/d`. -/
theorem roundEvenDiv_err (n d : Nat) (hd : 0 < d) :
    |((roundEvenDiv n d : Nat) : ℚ) - (n : ℚ) / d| ≤ 1 / 2 := by
  have hdq : (0 : ℚ) < d := by exact_mod_cast hd
  have hdiv : (n : ℚ) / d = ((n / d : Nat) : ℚ) + ((n % d : Nat) : ℚ) / d := by
    have h := Nat.div_add_mod n d
    have hq : (n : ℚ) = (d : ℚ) * ((n / d : Nat) : ℚ) + ((n % d : Nat) : ℚ) := by exact_mod_cast h.symm
    rw [hq]; field_simp
  have hr : ((n % d : Nat) : ℚ) < d := by exact_mod_cast Nat.mod_lt n hd
  have hr0 : (0 : ℚ) ≤ ((n % d : Nat) : ℚ) := by positivity
  unfold roundEvenDiv
  simp only []
  split
  · -- 2r < d: q
    rename_i h
    have h' : (2 : ℚ) * ((n % d : Nat) : ℚ) < d := by exact_mod_cast h
    rw [hdiv, abs_le]
    constructor
    · have : ((n % d : Nat) : ℚ) / d ≤ 1 / 2 := by rw [div_le_div_iff₀ hdq (by norm_num)]; linarith
      linarith
    · have : 0 ≤ ((n % d : Nat) : ℚ) / d := div_nonneg hr0 (le_of_lt hdq)
      linarith
  · split
    · -- d < 2r: q + 1
      rename_i _ h
      have h' : (d : ℚ) < 2 * ((n % d : Nat) : ℚ) := by exact_mod_cast h
      rw [hdiv, abs_le]
      push_cast
      constructor
      · have : ((n % d : Nat) : ℚ) / d ≤ 1 := by rw [div_le_one hdq]; exact le_of_lt hr
        linarith
      · have : 1 / 2 ≤ ((n % d : Nat) : ℚ) / d := by rw [div_le_div_iff₀ (by norm_num) hdq]; linarith
        linarith
    · -- tie: 2r = d
      rename_i h1 h2
      have heq : (2 : ℚ) * ((n % d : Nat) : ℚ) = d := by
        have : 2 * (n % d) = d := by omega
        exact_mod_cast this
      have hhalf : ((n % d : Nat) : ℚ) / d = 1 / 2 := by rw [div_eq_iff (ne_of_gt hdq)]; linarith
      split
      · rw [hdiv, hhalf, abs_le]; constructor <;> linarith
      · rw [hdiv, hhalf, abs_le]; push_cast; constructor <;> linarith

/-- The rounded magnitude is within half a quantum of `n/d`. -/
theorem rneAbs_err (F : FltTy) (n d : Nat) (hd : 0 < d) :
    |((rneAbs F n d).1 : ℚ) * (2 : ℚ) ^ (rneAbs F n d).2 - (n : ℚ) / d| ≤ (2 : ℚ) ^ (rneAbs F n d).2 / 2 := by
  unfold rneAbs
  simp only []
  generalize hk : ((if ilog2 n d < F.emin then F.emin else ilog2 n d) - ((F.prec : Int) - 1)) = k
  have hkpos := two_zpow_pos k
  by_cases hs : 0 ≤ k
  · rw [if_pos hs]
    obtain ⟨t, ht⟩ := Int.eq_ofNat_of_zero_le hs
    subst ht
    simp only [Int.toNat_natCast, zpow_natCast]
    have hdt : 0 < d * 2 ^ t := Nat.mul_pos hd (Nat.pow_pos (by norm_num))
    have h := roundEvenDiv_err n (d * 2 ^ t) hdt
    have hpt : (0 : ℚ) < (2 : ℚ) ^ t := by positivity
    have hdq : (0 : ℚ) < d := by exact_mod_cast hd
    have e : (n : ℚ) / ((d * 2 ^ t : Nat) : ℚ) = (n : ℚ) / d / (2 : ℚ) ^ t := by push_cast; field_simp
    rw [e] at h
    have : |((roundEvenDiv n (d * 2 ^ t) : Nat) : ℚ) * (2 : ℚ) ^ t - (n : ℚ) / d|
        = |((roundEvenDiv n (d * 2 ^ t) : Nat) : ℚ) - (n : ℚ) / d / (2 : ℚ) ^ t| * (2 : ℚ) ^ t := by
      rw [← abs_of_pos hpt, ← abs_mul, abs_of_pos hpt]; congr 1; field_simp
    rw [this]
    calc _ ≤ (1 / 2) * (2 : ℚ) ^ t := mul_le_mul_of_nonneg_right h (le_of_lt hpt)
      _ = (2 : ℚ) ^ t / 2 := by ring
  · rw [if_neg hs]
    have hneg : k = -((-k).toNat : Int) := by omega
    generalize hT : (-k).toNat = t at hneg
    subst hneg
    have h := roundEvenDiv_err (n * 2 ^ t) d hd
    have hpt : (0 : ℚ) < (2 : ℚ) ^ t := by positivity
    have hdq : (0 : ℚ) < d := by exact_mod_cast hd
    rw [zpow_neg, zpow_natCast]
    have e : ((n * 2 ^ t : Nat) : ℚ) / d = (n : ℚ) / d * (2 : ℚ) ^ t := by push_cast; field_simp
    rw [e] at h
    have hinv : (0 : ℚ) < ((2 : ℚ) ^ t)⁻¹ := inv_pos.2 hpt
    have : |((roundEvenDiv (n * 2 ^ t) d : Nat) : ℚ) * ((2 : ℚ) ^ t)⁻¹ - (n : ℚ) / d|
        = |((roundEvenDiv (n * 2 ^ t) d : Nat) : ℚ) - (n : ℚ) / d * (2 : ℚ) ^ t| * ((2 : ℚ) ^ t)⁻¹ := by
      rw [← abs_of_pos hinv, ← abs_mul, abs_of_pos hinv]; congr 1; field_simp
    rw [this]
    calc _ ≤ (1 / 2) * ((2 : ℚ) ^ t)⁻¹ := mul_le_mul_of_nonneg_right h (le_of_lt hinv)
      _ = ((2 : ℚ) ^ t)⁻¹ / 2 := by ring

theorem pow2_zpow (k : Int) : pow2 k = (2 : ℚ) ^ k := by
  unfold pow2
  by_cases hs : 0 ≤ k
  · rw [if_pos hs]
    obtain ⟨t, ht⟩ := Int.eq_ofNat_of_zero_le hs
    subst ht
    simp only [Int.toNat_natCast, zpow_natCast]
    push_cast; rfl
  · rw [if_neg hs]
    have hneg : k = -((-k).toNat : Int) := by omega
    generalize (-k).toNat = t at hneg
    subst hneg
    rw [zpow_neg, zpow_natCast, Rat.mkRat_eq_div]
    push_cast
    simp

theorem abs_as_ratio (q : ℚ) : ((q.num.natAbs : Nat) : ℚ) / (q.den : ℚ) = |q| := by
  have hd : (0 : ℚ) < (q.den : ℚ) := by exact_mod_cast q.den_pos
  have h1 : ((q.num.natAbs : Nat) : ℚ) = |(q.num : ℚ)| := by
    rw [Nat.cast_natAbs, Int.cast_abs]
  conv_rhs => rw [← Rat.num_div_den q]
  rw [abs_div, abs_of_pos hd, h1]

/-- **Absolute error of one rounding step**: whenever the rounding of a non-zero `q` is finite, it is within half
a quantum of `q` (the quantum `2^k` being the one the model used for `q`). -/
theorem rne_abs_err (F : FltTy) (q : ℚ) (hq : q ≠ 0) (w : ℚ) (h : rne F q = .fin w) :
    |w - q| ≤ (2 : ℚ) ^ (rneAbs F q.num.natAbs q.den).2 / 2 := by
  unfold rne at h
  rw [if_neg hq] at h
  simp only [] at h
  split at h
  · cases h
  · have hw := Flt.fin.inj h
    have herr := rneAbs_err F q.num.natAbs q.den q.den_pos
    rw [abs_as_ratio] at herr
    rw [pow2_zpow] at hw
    by_cases hneg : q < 0
    · rw [if_pos hneg] at hw
      rw [← hw, abs_of_neg hneg] at *
      have : |(-(((rneAbs F q.num.natAbs q.den).1 : ℚ) * (2 : ℚ) ^ (rneAbs F q.num.natAbs q.den).2)) - q|
          = |((rneAbs F q.num.natAbs q.den).1 : ℚ) * (2 : ℚ) ^ (rneAbs F q.num.natAbs q.den).2 - -q| := by
        rw [← abs_neg]; congr 1; ring
      rw [this]; exact herr
    · rw [if_neg hneg] at hw
      have hpos : 0 ≤ q := not_lt.1 hneg
      rw [← hw, abs_of_nonneg hpos] at *
      exact herr

/-- **Relative error of one rounding step (unit roundoff)**: in the normal range of the format, a finite rounding of
`q` differs from `q` by at most `|q|·2^-prec`. -/
theorem rne_rel_err (F : FltTy) (q : ℚ) (hq : q ≠ 0) (hnormal : (2 : ℚ) ^ F.emin ≤ |q|) (w : ℚ) (h : rne F q = .fin w) :
    |w - q| ≤ |q| * (2 : ℚ) ^ (-(F.prec : Int)) := by
  have habs := rne_abs_err F q hq w h
  have hn : 0 < q.num.natAbs := Int.natAbs_pos.2 (Rat.num_ne_zero.2 hq)
  obtain ⟨hlo, hhi⟩ := ilog2_spec' q.num.natAbs q.den hn q.den_pos
  rw [abs_as_ratio] at hlo hhi
  -- the exponent is not clamped
  have he : F.emin ≤ ilog2 q.num.natAbs q.den := by
    have : (2 : ℚ) ^ F.emin < (2 : ℚ) ^ (ilog2 q.num.natAbs q.den + 1) := lt_of_le_of_lt hnormal hhi
    have := Chrono.lt_of_zpow_lt this
    omega
  have hk : (rneAbs F q.num.natAbs q.den).2 = ilog2 q.num.natAbs q.den - ((F.prec : Int) - 1) := by
    unfold rneAbs
    simp only []
    rw [if_neg (by omega)]
  rw [hk] at habs
  have hsplit : (2 : ℚ) ^ (ilog2 q.num.natAbs q.den - ((F.prec : Int) - 1)) / 2
      = (2 : ℚ) ^ (ilog2 q.num.natAbs q.den) * (2 : ℚ) ^ (-(F.prec : Int)) := by
    have : ilog2 q.num.natAbs q.den - ((F.prec : Int) - 1) = ilog2 q.num.natAbs q.den + (-(F.prec : Int)) + 1 := by ring
    rw [this, zpow_add₀ (by norm_num), zpow_add₀ (by norm_num)]
    simp
  rw [hsplit] at habs
  exact le_trans habs (mul_le_mul_of_nonneg_right hlo (le_of_lt (two_zpow_pos _)))

/-- Non-vacuity: 1/3 rounded to binary32 is 11184811·2^-25, within 2^-24 of 1/3 relatively. -/
example : rne FltTy.f32 (1 / 3) = .fin (11184811 / 33554432) := by decide +kernel

/-! ### Accumulated roundoff: `w = x·ρ` with `(1−u)^n ≤ ρ ≤ (1+u)^n`, `u = 2^-prec` -/

/-- The unit roundoff of a format. -/
def uro (F : FltTy) : ℚ := (2 : ℚ) ^ (-(F.prec : Int))

theorem uro_pos (F : FltTy) : 0 < uro F := two_zpow_pos _

theorem uro_le_one (F : FltTy) : uro F ≤ 1 := by
  unfold uro
  have : (2 : ℚ) ^ (-(F.prec : Int)) ≤ (2 : ℚ) ^ (0 : Int) := Chrono.zpow_le_of_le (by omega)
  simpa using this

/-- `w` is `x` after at most `n` roundings: `w = x·ρ` with `(1−u)^n ≤ ρ ≤ (1+u)^n`. -/
def RelN (F : FltTy) (n : Nat) (x w : ℚ) : Prop :=
  ∃ ρ : ℚ, w = x * ρ ∧ (1 - uro F) ^ n ≤ ρ ∧ ρ ≤ (1 + uro F) ^ n

theorem RelN.refl (F : FltTy) (x : ℚ) : RelN F 0 x x := ⟨1, by ring, by simp, by simp⟩

theorem RelN.mono (F : FltTy) {n m : Nat} (h : n ≤ m) {x w : ℚ} (hr : RelN F n x w) : RelN F m x w := by
  obtain ⟨ρ, hw, hlo, hhi⟩ := hr
  have hu := uro_pos F
  have hu1 := uro_le_one F
  refine ⟨ρ, hw, le_trans ?_ hlo, le_trans hhi ?_⟩
  · exact pow_le_pow_of_le_one (by linarith) (by linarith) h
  · exact pow_le_pow_right₀ (by linarith) h

/-- Roundings compose: products of approximations, and approximations of approximations. -/
theorem RelN.mul (F : FltTy) {n m : Nat} {x y a b : ℚ} (h1 : RelN F n x a) (h2 : RelN F m y b) :
    RelN F (n + m) (x * y) (a * b) := by
  obtain ⟨ρ1, ha, l1, u1⟩ := h1
  obtain ⟨ρ2, hb, l2, u2⟩ := h2
  have hu := uro_pos F
  have hu1 := uro_le_one F
  have p1 : 0 ≤ (1 - uro F) ^ n := pow_nonneg (by linarith) n
  have p2 : 0 ≤ (1 - uro F) ^ m := pow_nonneg (by linarith) m
  refine ⟨ρ1 * ρ2, by rw [ha, hb]; ring, ?_, ?_⟩
  · rw [pow_add]; exact mul_le_mul l1 l2 p2 (le_trans p1 l1)
  · rw [pow_add]; exact mul_le_mul u1 u2 (le_trans p2 l2) (pow_nonneg (by linarith) n)

theorem RelN.trans (F : FltTy) {n m : Nat} {x a w : ℚ} (h1 : RelN F n x a) (h2 : RelN F m a w) : RelN F (n + m) x w := by
  obtain ⟨ρ1, ha, l1, u1⟩ := h1
  obtain ⟨ρ2, hw, l2, u2⟩ := h2
  have hu := uro_pos F
  have hu1 := uro_le_one F
  have p1 : 0 ≤ (1 - uro F) ^ n := pow_nonneg (by linarith) n
  have p2 : 0 ≤ (1 - uro F) ^ m := pow_nonneg (by linarith) m
  refine ⟨ρ1 * ρ2, by rw [hw, ha]; ring, ?_, ?_⟩
  · rw [pow_add]; exact mul_le_mul l1 l2 p2 (le_trans p1 l1)
  · rw [pow_add]; exact mul_le_mul u1 u2 (le_trans p2 l2) (pow_nonneg (by linarith) n)

/-- One rounding in the normal range is one step. -/
theorem rne_RelN (F : FltTy) (q : ℚ) (hq : q ≠ 0) (hnormal : (2 : ℚ) ^ F.emin ≤ |q|) (w : ℚ) (h : rne F q = .fin w) :
    RelN F 1 q w := by
  have herr := rne_rel_err F q hq hnormal w h
  have habs : 0 < |q| := abs_pos.2 hq
  refine ⟨w / q, by field_simp, ?_, ?_⟩
  · -- 1 - u ≤ w/q
    have h1 : |w / q - 1| ≤ uro F := by
      have : w / q - 1 = (w - q) / q := by field_simp
      rw [this, abs_div, div_le_iff₀ habs]
      unfold uro; linarith [herr]
    have := (abs_le.1 h1).1
    simp only [pow_one]; linarith
  · have h1 : |w / q - 1| ≤ uro F := by
      have : w / q - 1 = (w - q) / q := by field_simp
      rw [this, abs_div, div_le_iff₀ habs]
      unfold uro; linarith [herr]
    have := (abs_le.1 h1).2
    simp only [pow_one]; linarith

/-- **One floating multiplication**: if `a`, `b` carry `n`, `m` roundings of `x`, `y` and the product is in the normal
range and finite, the result carries `n + m + 1` roundings of `x·y`. -/
theorem mul_RelN (F : FltTy) {n m : Nat} {x y a b : ℚ} (h1 : RelN F n x a) (h2 : RelN F m y b)
    (hab : a * b ≠ 0) (hnormal : (2 : ℚ) ^ F.emin ≤ |a * b|) (w : ℚ) (h : Flt.mul F (.fin a) (.fin b) = .fin w) :
    RelN F (n + m + 1) (x * y) w := by
  have hstep : RelN F 1 (a * b) w := rne_RelN F (a * b) hab hnormal w (by simpa [Flt.mul] using h)
  exact RelN.trans F (RelN.mul F h1 h2) hstep

/-! ### The final product of `get_value<floating>` (`detail::product`, modelled by `productF` in long double)

Every factor handed to the product is at least 1 (a positive power of a base ≥ 2 — `elemPower_atLeast2` in
`Lemmas/FltPipeline.lean`), so every partial product is in the normal range and each multiplication adds exactly one
rounding: if the factors carry `nᵢ` roundings of exact values `xᵢ`, a finite result carries `Σ(nᵢ+1)` roundings of `Πxᵢ`. -/

/-- (exact value, computed value, number of roundings so far) -/
abbrev Approx := ℚ × ℚ × Nat

def xprod : List Approx → ℚ
  | [] => 1
  | t :: r => t.1 * xprod r

def nsum : List Approx → Nat
  | [] => 0
  | t :: r => (t.2.2 + 1) + nsum r

theorem ld_normal_of_ge_one (q : ℚ) (h : 1 ≤ q) : (2 : ℚ) ^ ld.emin ≤ |q| := by
  have h1 : (2 : ℚ) ^ ld.emin ≤ (2 : ℚ) ^ (0 : Int) := Chrono.zpow_le_of_le (by decide)
  have h2 : (2 : ℚ) ^ (0 : Int) = 1 := by simp
  rw [abs_of_pos (by linarith)]
  linarith

theorem productF_inf_not_fin : ∀ (l : List Approx) (s : Bool) (w : ℚ), (∀ t ∈ l, 1 ≤ t.2.1) →
    productF (l.map (fun t => Flt.fin t.2.1)) (Flt.inf s) ≠ some (Flt.fin w)
  | [], s, w, _ => by simp [productF]
  | t :: r, s, w, h => by
    have ht : 1 ≤ t.2.1 := h t (List.mem_cons_self ..)
    have hne : t.2.1 ≠ 0 := by intro h0; rw [h0] at ht; norm_num at ht
    simp only [List.map_cons, productF]
    split
    · simp
    · have : Flt.mul ld (Flt.inf s) (Flt.fin t.2.1) = Flt.inf (s != decide (t.2.1 < 0)) := by
        simp [Flt.mul, hne]
      rw [this]
      exact productF_inf_not_fin r _ w (fun x hx => h x (List.mem_cons_of_mem _ hx))

theorem productF_RelN : ∀ (l : List Approx) (X A : ℚ) (N : Nat), RelN ld N X A → 1 ≤ A →
    (∀ t ∈ l, RelN ld t.2.2 t.1 t.2.1 ∧ 1 ≤ t.2.1) →
    ∀ w, productF (l.map (fun t => Flt.fin t.2.1)) (Flt.fin A) = some (Flt.fin w) →
      RelN ld (N + nsum l) (X * xprod l) w ∧ 1 ≤ w
  | [], X, A, N, hA, h1, _, w, h => by
    simp only [List.map_nil, productF, Option.some.injEq, Flt.fin.injEq] at h
    subst h
    simpa [nsum, xprod] using And.intro hA h1
  | t :: r, X, A, N, hA, h1, hl, w, h => by
    obtain ⟨ht, ht1⟩ := hl t (List.mem_cons_self ..)
    have hr : ∀ x ∈ r, RelN ld x.2.2 x.1 x.2.1 ∧ 1 ≤ x.2.1 := fun x hx => hl x (List.mem_cons_of_mem _ hx)
    simp only [List.map_cons, productF] at h
    split at h
    · cases h
    · have hprod : 1 ≤ A * t.2.1 := by nlinarith
      have hne : A * t.2.1 ≠ 0 := by intro h0; rw [h0] at hprod; norm_num at hprod
      have hmul : Flt.mul ld (Flt.fin A) (Flt.fin t.2.1) = rne ld (A * t.2.1) := rfl
      have hge := rne_atLeast_pow2 ld (by decide) (by decide) (A * t.2.1) 0 (by simpa using hprod)
      cases hv : rne ld (A * t.2.1) with
      | nan => rw [hv] at hge; simp [Flt.AtLeast] at hge
      | inf s =>
        rw [hmul, hv] at h
        exact absurd h (productF_inf_not_fin r s w (fun x hx => (hr x hx).2))
      | fin v =>
        rw [hv] at hge
        have hv1 : 1 ≤ v := by simpa [Flt.AtLeast] using hge
        have hstep : RelN ld (N + t.2.2 + 1) (X * t.1) v :=
          mul_RelN ld hA ht hne (ld_normal_of_ge_one _ hprod) v (by rw [hmul, hv])
        rw [hmul, hv] at h
        obtain ⟨hrel, hw1⟩ := productF_RelN r (X * t.1) v (N + t.2.2 + 1) hstep hv1 hr w h
        refine ⟨?_, hw1⟩
        have e1 : N + t.2.2 + 1 + nsum r = N + nsum (t :: r) := by simp [nsum]; omega
        have e2 : X * t.1 * xprod r = X * xprod (t :: r) := by simp [xprod]; ring
        rw [e1, e2] at hrel
        exact hrel

theorem pow_sum_ge_two (u : ℚ) (h0 : 0 ≤ u) (h1 : u ≤ 1) : ∀ n : Nat, 2 ≤ (1 - u) ^ n + (1 + u) ^ n
  | 0 => by norm_num
  | k + 1 => by
    have ih := pow_sum_ge_two u h0 h1 k
    have a0 : 0 ≤ (1 - u) ^ k := pow_nonneg (by linarith) k
    have b0 : (1 - u) ^ k ≤ (1 + u) ^ k := pow_le_pow_left₀ (by linarith) (by linarith) k
    rw [pow_succ, pow_succ]
    nlinarith

/-- In particular the relative error of a finite result is at most `(1+u)^k − 1` with `k` the total number of roundings
(`u = 2^-64` for long double): `|w − x| ≤ x · ((1+u)^k − 1)` for a non-negative exact value. -/
theorem RelN.abs_err (F : FltTy) {n : Nat} {x w : ℚ} (hx : 0 ≤ x) (h : RelN F n x w) :
    |w - x| ≤ x * ((1 + uro F) ^ n - 1) := by
  obtain ⟨ρ, hw, hlo, hhi⟩ := h
  have hu := uro_pos F
  have hu1 := uro_le_one F
  have key := pow_sum_ge_two (uro F) (le_of_lt hu) hu1 n
  have hup : w - x ≤ x * ((1 + uro F) ^ n - 1) := by rw [hw]; nlinarith
  have hlow : -(x * ((1 + uro F) ^ n - 1)) ≤ w - x := by rw [hw]; nlinarith
  exact abs_le.2 ⟨hlow, hup⟩

/-- Non-vacuity of the product theorem: 3 · 5 · 7 in long double from exact factors is exactly 105 (no rounding needed),
and the theorem's bound `(1+2^-64)^3 − 1` of course holds. -/
example : productF [Flt.fin 3, Flt.fin 5, Flt.fin 7] (Flt.fin 1) = some (Flt.fin 105) := by decide +kernel

/-! ### The power loop `checked_int_pow` in long double (`cipLoopF`): at most `e` roundings for exponent `e`

`ApproxF n x v`: the float `v` is `+inf` (the loop overflowed; it then never returns a finite value that matters) or a
finite value `≥ 1` carrying at most `n` roundings of the exact `x`. -/

def ApproxF (n : Nat) (x : ℚ) : Flt → Prop
  | .inf false => True
  | .fin w => RelN ld n x w ∧ 1 ≤ w
  | _ => False

theorem ApproxF.mono {n m : Nat} (h : n ≤ m) {x : ℚ} : ∀ {v : Flt}, ApproxF n x v → ApproxF m x v
  | .inf false, _ => trivial
  | .inf true, hv => hv.elim
  | .nan, hv => hv.elim
  | .fin w, hv => ⟨RelN.mono ld h hv.1, hv.2⟩

/-- One multiplication of the loop. -/
theorem mul_ApproxF {n m : Nat} {x y : ℚ} : ∀ {a b : Flt}, ApproxF n x a → ApproxF m y b →
    ApproxF (n + m + 1) (x * y) (Flt.mul ld a b)
  | .nan, _, ha, _ => ha.elim
  | .inf true, _, ha, _ => ha.elim
  | _, .nan, _, hb => by cases ‹Flt› <;> exact hb.elim
  | _, .inf true, _, hb => by cases ‹Flt› <;> exact hb.elim
  | .inf false, .inf false, _, _ => by simp [Flt.mul, ApproxF]
  | .inf false, .fin b, _, hb => by
    have hb1 : 1 ≤ b := hb.2
    have hne : b ≠ 0 := by intro h0; rw [h0] at hb1; norm_num at hb1
    have hpos : ¬ b < 0 := by linarith
    simp [Flt.mul, ApproxF, hne, hpos]
  | .fin a, .inf false, ha, _ => by
    have ha1 : 1 ≤ a := ha.2
    have hne : a ≠ 0 := by intro h0; rw [h0] at ha1; norm_num at ha1
    have hpos : ¬ a < 0 := by linarith
    simp [Flt.mul, ApproxF, hne, hpos]
  | .fin a, .fin b, ha, hb => by
    have hprod : 1 ≤ a * b := by nlinarith [ha.2, hb.2]
    have hne : a * b ≠ 0 := by intro h0; rw [h0] at hprod; norm_num at hprod
    have hmul : Flt.mul ld (Flt.fin a) (Flt.fin b) = rne ld (a * b) := rfl
    have hge := rne_atLeast_pow2 ld (by decide) (by decide) (a * b) 0 (by simpa using hprod)
    rw [hmul]
    cases hv : rne ld (a * b) with
    | nan => rw [hv] at hge; simp [Flt.AtLeast] at hge
    | inf s =>
      rw [hv] at hge
      cases s with
      | false => trivial
      | true => simp [Flt.AtLeast] at hge
    | fin v =>
      rw [hv] at hge
      have hv1 : 1 ≤ v := by simpa [Flt.AtLeast] using hge
      exact ⟨mul_RelN ld ha.1 hb.1 hne (ld_normal_of_ge_one _ hprod) v (by rw [hmul, hv]), hv1⟩

/-- **`checked_int_pow` in long double.**  If the running result carries `nr` roundings of `X^r` and the running base `nb`
roundings of `X^p`, then whatever the loop returns for the remaining exponent `e` carries at most `nr + e·(nb+1)` roundings of
`X^(r + p·e)` (or is `+inf`). -/
theorem cipLoopF_ApproxF (X : ℚ) : ∀ (e : Nat) (R B : Flt) (r p nr nb : Nat), ApproxF nr (X ^ r) R → ApproxF nb (X ^ p) B →
    ∀ v, cipLoopF R B e = some v → ApproxF (nr + e * (nb + 1)) (X ^ (r + p * e)) v := by
  intro e
  induction e using Nat.strongRecOn with
  | ind e ih =>
    intro R B r p nr nb hR hB v hv
    unfold cipLoopF at hv
    by_cases he : e = 0
    · subst he
      simp at hv; subst hv
      simpa using hR
    · simp only [he, dif_neg, not_false_eq_true] at hv
      have he2 : e / 2 < e := by omega
      have hBB : ApproxF (nb + nb + 1) (X ^ (p + p)) (Flt.mul ld B B) := by
        have := mul_ApproxF hB hB
        rwa [← pow_add] at this
      by_cases hodd : e % 2 = 1
      · simp only [hodd, if_true] at hv
        obtain ⟨q, hq⟩ : ∃ q, e = 2 * q + 1 := ⟨e / 2, by omega⟩
        have hq2 : e / 2 = q := by omega
        by_cases hg : Flt.gt B (Flt.div ld ldMax R) = true
        · simp only [hg, if_true] at hv; cases hv
        · simp only [hg, Bool.false_eq_true, if_false] at hv
          have hRB : ApproxF (nr + nb + 1) (X ^ (r + p)) (Flt.mul ld R B) := by
            have := mul_ApproxF hR hB
            rwa [← pow_add] at this
          by_cases hg2 : Flt.gt B (Flt.div ld ldMax B) = true
          · simp only [hg2, if_true] at hv
            split at hv
            · rename_i h0
              simp at hv; subst hv
              have hq0 : q = 0 := by omega
              subst hq0
              have e1 : e = 1 := by omega
              subst e1
              have : nr + 1 * (nb + 1) = nr + nb + 1 := by ring
              rw [this]
              simpa using hRB
            · cases hv
          · simp only [hg2, Bool.false_eq_true, if_false] at hv
            have := ih (e / 2) he2 (Flt.mul ld R B) (Flt.mul ld B B) (r + p) (p + p) (nr + nb + 1) (nb + nb + 1) hRB hBB v hv
            rw [hq2] at this
            have e1 : nr + nb + 1 + q * (nb + nb + 1 + 1) = nr + e * (nb + 1) := by rw [hq]; ring
            have e2 : r + p + (p + p) * q = r + p * e := by rw [hq]; ring
            rwa [e1, e2] at this
      · simp only [hodd, if_false] at hv
        obtain ⟨q, hq⟩ : ∃ q, e = 2 * q := ⟨e / 2, by omega⟩
        have hq2 : e / 2 = q := by omega
        by_cases hg2 : Flt.gt B (Flt.div ld ldMax B) = true
        · simp only [hg2, if_true] at hv
          split at hv
          · rename_i h0; omega
          · cases hv
        · simp only [hg2, Bool.false_eq_true, if_false] at hv
          have := ih (e / 2) he2 R (Flt.mul ld B B) r (p + p) nr (nb + nb + 1) hR hBB v hv
          rw [hq2] at this
          have e1 : nr + q * (nb + nb + 1 + 1) = nr + e * (nb + 1) := by rw [hq]; ring
          have e2 : r + (p + p) * q = r + p * e := by rw [hq]; ring
          rwa [e1, e2] at this

/-- **Corollary**: `checked_int_pow(b, e)` for an exactly represented base `b ≥ 1` returns, when finite, `b^e` with at most
`e` roundings: `|w − b^e| ≤ b^e·((1+2^-64)^e − 1)`. -/
theorem checkedIntPowF_RelN (b : ℚ) (hb : 1 ≤ b) (e : Nat) (w : ℚ) (h : checkedIntPowF (Flt.fin b) e = some (Flt.fin w)) :
    RelN ld e (b ^ e) w ∧ |w - b ^ e| ≤ b ^ e * ((1 + uro ld) ^ e - 1) := by
  have h0 : ApproxF 0 (b ^ 0) (Flt.fin 1) := ⟨by simpa using RelN.refl ld 1, le_refl _⟩
  have h1 : ApproxF 0 (b ^ 1) (Flt.fin b) := ⟨by simpa using RelN.refl ld b, hb⟩
  have := cipLoopF_ApproxF b e (Flt.fin 1) (Flt.fin b) 0 1 0 0 h0 h1 (Flt.fin w) h
  simp only [Nat.zero_add, Nat.add_zero, Nat.mul_one, Nat.one_mul] at this
  have hrel : RelN ld e (b ^ e) w := this.1
  exact ⟨hrel, RelN.abs_err ld (pow_nonneg (by linarith) e) hrel⟩

/-- Non-vacuity of the hypothesis (the loop does return finite values; it is the function the driver runs and C11 compares
bit for bit with the compilers on ~280 magnitudes per run). -/
example : checkedIntPowF (Flt.fin 3) 0 = some (Flt.fin 1) := by unfold checkedIntPowF cipLoopF; simp

/-! ### The floating scaling step of a unit conversion (C05): `x * mag` or `x / mag` in the operation's format -/

/-- Multiplying a finite value by a finite factor in format `F`: a finite result in the normal range is within the unit
roundoff of the exact product. -/
theorem C05_float_scale_mul_err (F : FltTy) (x g w : ℚ) (hne : x * g ≠ 0) (hnormal : (2 : ℚ) ^ F.emin ≤ |x * g|)
    (h : Flt.mul F (.fin x) (.fin g) = .fin w) : |w - x * g| ≤ |x * g| * (2 : ℚ) ^ (-(F.prec : Int)) :=
  rne_rel_err F (x * g) hne hnormal w (by simpa [Flt.mul] using h)

/-- Dividing by a finite non-zero factor, likewise. -/
theorem C05_float_scale_div_err (F : FltTy) (x g w : ℚ) (hg : g ≠ 0) (hne : x / g ≠ 0) (hnormal : (2 : ℚ) ^ F.emin ≤ |x / g|)
    (h : Flt.div F (.fin x) (.fin g) = .fin w) : |w - x / g| ≤ |x / g| * (2 : ℚ) ^ (-(F.prec : Int)) :=
  rne_rel_err F (x / g) hne hnormal w (by simpa [Flt.div, hg] using h)

end Au

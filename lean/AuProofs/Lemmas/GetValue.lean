import AuModel.GetValue
import AuProofs.Lemmas.IntDiv
import AuProofs.Lemmas.ApplyMag
import Mathlib.Tactic.Ring
import Mathlib.Tactic.Linarith
import Mathlib.Data.Rat.Defs
namespace Au

theorem gt_tdiv_iff (M r b : Int) (hM : 0 ≤ M) (hr : 0 < r) : b > Int.tdiv M r ↔ r * b > M := by
  have := thr_pos M r b hr hM
  constructor
  · intro h; have : ¬ (b * r ≤ M) := fun h' => by have := this.2 h'; omega
    rw [Int.mul_comm] at this; omega
  · intro h; have : ¬ (b ≤ Int.tdiv M r) := fun h' => by have := this.1 h'; rw [Int.mul_comm] at this; omega
    omega

/-- `checked_int_pow` computes `result · base^exp` exactly, and fails exactly when that exceeds the
maximum of the type. -/
theorem cipLoop_spec (M : Int) (hM : 0 ≤ M) : ∀ (e : Nat) (r b : Int), 1 ≤ r → 1 ≤ b → r ≤ M →
    ∀ v, cipLoop M r b e = some v ↔ (r * b ^ e ≤ M ∧ v = r * b ^ e) := by
  intro e
  induction e using Nat.strong_induction_on with
  | _ e ih =>
    intro r b hr hb hrM v
    unfold cipLoop
    by_cases he : e = 0
    · subst he; simp; constructor
      · intro h; subst h; exact ⟨hrM, rfl⟩
      · intro h; exact h.2.symm
    · simp only [he, dif_neg, not_false_eq_true]
      have he2 : e / 2 < e := by omega
      -- decompose e = 2 * (e/2) + e % 2
      have hdecomp : b ^ e = (b * b) ^ (e / 2) * b ^ (e % 2) := by
        rw [← pow_two, ← pow_mul, ← pow_add]; congr 1; omega
      have hpos : ∀ k, 1 ≤ (b * b) ^ k := fun k => one_le_pow₀ (by nlinarith)
      by_cases hodd : e % 2 = 1
      · simp only [hodd, if_true]
        by_cases hg : b > Int.tdiv M r
        · -- r*b > M: fails, and r*b^e ≥ r*b > M
          simp only [hg, if_true]
          have h1 := (gt_tdiv_iff M r b hM (by omega)).1 hg
          constructor
          · intro h; cases h
          · intro ⟨h, _⟩
            rw [hdecomp, hodd, pow_one] at h
            have := hpos (e / 2)
            nlinarith
        · simp only [hg, if_false]
          have h1 : r * b ≤ M := by
            by_contra hc; exact hg ((gt_tdiv_iff M r b hM (by omega)).2 (by omega))
          have hrb : 1 ≤ r * b := by nlinarith
          by_cases hg2 : b > Int.tdiv M b
          · have h2 := (gt_tdiv_iff M b b hM (by omega)).1 hg2
            simp only [hg2, if_true]
            by_cases he0 : e / 2 = 0
            · simp only [he0, if_true]
              have : e = 1 := by omega
              subst this
              simp
              constructor
              · intro h; subst h; exact ⟨h1, rfl⟩
              · intro h; exact h.2.symm
            · simp only [he0, if_false]
              constructor
              · intro h; cases h
              · intro ⟨h, _⟩
                rw [hdecomp, hodd, pow_one] at h
                have : (b * b) ^ (e / 2) ≥ b * b := by
                  calc (b * b) ^ (e / 2) ≥ (b * b) ^ 1 := pow_le_pow_right₀ (by nlinarith) (by omega)
                    _ = b * b := pow_one _
                nlinarith
          · simp only [hg2, if_false]
            have h2 : b * b ≤ M := by
              by_contra hc; exact hg2 ((gt_tdiv_iff M b b hM (by omega)).2 (by omega))
            rw [ih (e / 2) he2 (r * b) (b * b) hrb (by nlinarith) h1 v]
            rw [hdecomp, hodd, pow_one]
            have : r * b * (b * b) ^ (e / 2) = r * ((b * b) ^ (e / 2) * b) := by ring
            rw [this]
      · have heven : e % 2 = 0 := by omega
        simp only [hodd, if_false]
        by_cases hg2 : b > Int.tdiv M b
        · have h2 := (gt_tdiv_iff M b b hM (by omega)).1 hg2
          simp only [hg2, if_true]
          have he0 : ¬ (e / 2 = 0) := by omega
          simp only [he0, if_false]
          constructor
          · intro h; cases h
          · intro ⟨h, _⟩
            rw [hdecomp, heven, pow_zero, mul_one] at h
            have : (b * b) ^ (e / 2) ≥ b * b := by
              calc (b * b) ^ (e / 2) ≥ (b * b) ^ 1 := pow_le_pow_right₀ (by nlinarith) (by omega)
                _ = b * b := pow_one _
            nlinarith
        · simp only [hg2, if_false]
          have h2 : b * b ≤ M := by
            by_contra hc; exact hg2 ((gt_tdiv_iff M b b hM (by omega)).2 (by omega))
          rw [ih (e / 2) he2 r (b * b) hr (by nlinarith) hrM v]
          rw [hdecomp, heven, pow_zero, mul_one]

theorem checkedIntPow_spec (M : Int) (hM : 1 ≤ M) (b : Int) (hb : 1 ≤ b) (e : Nat) (v : Int) :
    checkedIntPow M b e = some v ↔ (b ^ e ≤ M ∧ v = b ^ e) := by
  unfold checkedIntPow
  rw [cipLoop_spec M (by omega) e 1 b (by omega) hb hM v]
  simp
def listProd : List Int → Int
  | [] => 1
  | x :: t => x * listProd t

theorem listProd_ge_one (xs : List Int) (h : ∀ x ∈ xs, 1 ≤ x) : 1 ≤ listProd xs := by
  induction xs with
  | nil => simp [listProd]
  | cons x t ih =>
    have hx := h x (List.mem_cons_self ..)
    have ht := ih (fun y hy => h y (List.mem_cons_of_mem _ hy))
    simp only [listProd]; nlinarith

theorem productInt_spec (M : Int) (hM : 0 ≤ M) : ∀ (xs : List Int) (acc : Int), (∀ x ∈ xs, 1 ≤ x) → 1 ≤ acc →
    acc ≤ M → ∀ v, productInt M xs acc = some v ↔ (acc * listProd xs ≤ M ∧ v = acc * listProd xs) := by
  intro xs
  induction xs with
  | nil =>
    intro acc _ _ haM v
    simp [productInt, listProd]
    constructor
    · intro h; subst h; exact ⟨haM, rfl⟩
    · intro h; exact h.2.symm
  | cons x t ih =>
    intro acc hx hacc haM v
    have hx1 := hx x (List.mem_cons_self ..)
    have ht : ∀ y ∈ t, 1 ≤ y := fun y hy => hx y (List.mem_cons_of_mem _ hy)
    have hp := listProd_ge_one t ht
    unfold productInt
    simp only [listProd]
    by_cases hg : (decide (x > 1) && decide (acc > Int.tdiv M x)) = true
    · simp only [hg, if_true]
      simp only [Bool.and_eq_true, decide_eq_true_eq] at hg
      have := (gt_tdiv_iff M x acc hM (by omega)).1 hg.2
      constructor
      · intro h; cases h
      · intro ⟨h, _⟩; nlinarith
    · simp only [hg, Bool.false_eq_true, if_false]
      have hle : acc * x ≤ M := by
        by_cases hx2 : x > 1
        · have : ¬ acc > Int.tdiv M x := by
            intro h; apply hg; simp [hx2, h]
          by_contra hc
          exact this ((gt_tdiv_iff M x acc hM (by omega)).2 (by rw [Int.mul_comm]; omega))
        · have : x = 1 := by omega
          subst this; simpa using haM
      rw [ih (acc * x) ht (by nlinarith) hle v]
      have : acc * x * listProd t = acc * (x * listProd t) := by ring
      rw [this]

/-- Exact power of one element of an integer magnitude. -/
def bpExact (a : MagBase × Rat) : Int :=
  match a.1 with
  | .prime p => (p : Int) ^ a.2.num.toNat
  | .pi => 1

/-- Exact value of an integer magnitude. -/
def Mag.natValue (m : Mag) : Int := listProd (m.map bpExact)

/-- What `get_value_result<T>` computes for one base power (integral `T`). -/
def bpModel (t : IntTy) (a : MagBase × Rat) : Option Int :=
  match a.1 with
  | .prime p =>
    match widenBase t p with
    | some b => checkedIntPow (widenTy t).hi b a.2.num.toNat
    | none => none
  | .pi => none

theorem listProd_ge_mem (xs : List Int) (h : ∀ x ∈ xs, 1 ≤ x) (y : Int) (hy : y ∈ xs) : y ≤ listProd xs := by
  induction xs with
  | nil => cases hy
  | cons x t ih =>
    have hx := h x (List.mem_cons_self ..)
    have ht : ∀ z ∈ t, 1 ≤ z := fun z hz => h z (List.mem_cons_of_mem _ hz)
    have hp := listProd_ge_one t ht
    simp only [listProd]
    rcases List.mem_cons.1 hy with rfl | hy
    · nlinarith
    · have := ih ht hy; nlinarith

theorem widen_hi (t : IntTy) (ht : t ∈ IntTy.all) : 1 ≤ (widenTy t).hi ∧ t.hi ≤ (widenTy t).hi := by
  rcases all_cases t ht with rfl|rfl|rfl|rfl|rfl|rfl|rfl|rfl <;> decide

/-- An element of an integer magnitude: prime base, exponent a positive integer. -/
def IntElem (a : MagBase × Rat) : Prop := ∃ p : Nat, a.1 = .prime p ∧ 1 ≤ p ∧ 1 ≤ a.2.num.toNat

theorem bpExact_ge_one (a : MagBase × Rat) (h : IntElem a) : 1 ≤ bpExact a := by
  obtain ⟨p, hp, hp1, _⟩ := h
  unfold bpExact; rw [hp]
  exact one_le_pow₀ (by exact_mod_cast hp1)

theorem bpModel_spec (t : IntTy) (ht : t ∈ IntTy.all) (a : MagBase × Rat) (h : IntElem a) (v : Int) :
    bpModel t a = some v ↔ (bpExact a ≤ (widenTy t).hi ∧ v = bpExact a) := by
  obtain ⟨p, hp, hp1, hk⟩ := h
  have hW := widen_hi t ht
  unfold bpModel bpExact; rw [hp]
  simp only []
  unfold widenBase
  have hWty : (if t.signed = true then IntTy.i64 else IntTy.u64) = widenTy t := rfl
  simp only [hWty]
  by_cases hfit : (p : Int) ≤ (widenTy t).hi
  · simp only [hfit, if_true]
    exact checkedIntPow_spec _ hW.1 p (by exact_mod_cast hp1) _ v
  · simp only [hfit, if_false]
    constructor
    · intro h; cases h
    · intro ⟨h, _⟩
      have : (p : Int) ≤ (p : Int) ^ a.2.num.toNat := by
        calc (p : Int) = (p : Int) ^ 1 := (pow_one _).symm
          _ ≤ (p : Int) ^ a.2.num.toNat := pow_le_pow_right₀ (by exact_mod_cast hp1) hk
      omega

theorem num_ge_one_of (e : Rat) (hd : e.den = 1) (h1 : 1 ≤ e) : 1 ≤ e.num.toNat := by
  have : e = (e.num : Rat) := by
    have := Rat.num_div_den e
    rw [hd] at this; simpa using this.symm
  have h2 : (1 : Rat) ≤ (e.num : Rat) := by rw [← this]; exact h1
  have : (1 : Int) ≤ e.num := by exact_mod_cast h2
  omega

theorem intElem_of_isInteger (m : Mag) (hpos : ∀ a ∈ m, ∀ p, a.1 = .prime p → 1 ≤ p)
    (hi : Mag.isIntegerMag m = true) : ∀ a ∈ m, IntElem a := by
  intro a ha
  unfold Mag.isIntegerMag at hi
  rw [List.all_eq_true] at hi
  have := hi a ha
  cases hb : a.1 with
  | prime p =>
    rw [hb] at this
    simp only [Bool.and_eq_true, beq_iff_eq, decide_eq_true_eq] at this
    exact ⟨p, hb, hpos a ha p hb, num_ge_one_of a.2 this.1 this.2⟩
  | pi => rw [hb] at this; cases this

end Au

/-
  Threshold lemmas for C++ truncating division: comparing against `L / N` is the same as
  comparing the product against `L`.
-/
namespace Au

theorem thr_pos (L N x : Int) (hN : 0 < N) (hL : 0 ≤ L) : x ≤ Int.tdiv L N ↔ x * N ≤ L := by
  rw [Int.tdiv_eq_ediv_of_nonneg hL]
  exact Int.le_ediv_iff_mul_le hN

theorem thr_neg (L N x : Int) (hN : 0 < N) (hL : L ≤ 0) : Int.tdiv L N ≤ x ↔ L ≤ x * N := by
  have h : Int.tdiv L N = -(Int.tdiv (-L) N) := by
    rw [Int.neg_tdiv, Int.neg_neg]
  rw [h, Int.tdiv_eq_ediv_of_nonneg (by omega)]
  constructor
  · intro h1
    have : -x ≤ (-L) / N := by omega
    have := (Int.le_ediv_iff_mul_le hN).1 this
    have h2 : -x * N = -(x * N) := Int.neg_mul x N
    omega
  · intro h1
    have : -x * N ≤ -L := by
      have h2 : -x * N = -(x * N) := Int.neg_mul x N
      omega
    have := (Int.le_ediv_iff_mul_le hN).2 this
    omega

theorem tdiv_nonneg' (L N : Int) (hN : 0 < N) (hL : 0 ≤ L) : 0 ≤ Int.tdiv L N := by
  rw [Int.tdiv_eq_ediv_of_nonneg hL]; exact Int.ediv_nonneg hL (by omega)

theorem tdiv_nonpos' (L N : Int) (hN : 0 < N) (hL : L ≤ 0) : Int.tdiv L N ≤ 0 := by
  have := (thr_neg L N 0 hN hL).2 (by omega)
  exact this

end Au

import AuModel.Pack

/-! # `LexicographicTotalOrdering` (packs.hh:280-320), abstractly

The library orders units (and magnitude / dimension bases) by trying a list of keys in turn and taking the
first one that distinguishes the two operands; if none does, distinct operands trip the
"Broken strict total ordering" `static_assert`.  This file proves that this construction yields a strict
total order exactly under the two conditions the library relies on: every key is a strict weak order
(its "tie" relation is transitive), and no two distinct operands tie on every key. -/
namespace Au

variable {α : Type}

/-- The first key that distinguishes `a` and `b` decides; no key ⇒ not in order. -/
def lexLt : List (α → α → Bool) → α → α → Bool
  | [], _, _ => false
  | k :: ks, a, b => if k a b then true else if k b a then false else lexLt ks a b

/-- A strict weak order: irreflexive, transitive, and "neither before the other" is transitive. -/
structure StrictWeak (k : α → α → Bool) : Prop where
  irrefl : ∀ a, k a a = false
  trans : ∀ a b c, k a b = true → k b c = true → k a c = true
  tieTrans : ∀ a b c, k a b = false → k b a = false → k b c = false → k c b = false → k a c = false ∧ k c a = false

theorem StrictWeak.lt_tie {k : α → α → Bool} (h : StrictWeak k) {a b c : α}
    (hab : k a b = true) (h1 : k b c = false) (h2 : k c b = false) : k a c = true := by
  cases hac : k a c with
  | true => rfl
  | false =>
    cases hca : k c a with
    | true => have := h.trans c a b hca hab; rw [h2] at this; cases this
    | false =>
      have := (h.tieTrans a c b hac hca h2 h1).1
      rw [hab] at this; cases this

theorem StrictWeak.tie_lt {k : α → α → Bool} (h : StrictWeak k) {a b c : α}
    (h1 : k a b = false) (h2 : k b a = false) (hbc : k b c = true) : k a c = true := by
  cases hac : k a c with
  | true => rfl
  | false =>
    cases hca : k c a with
    | true => have := h.trans b c a hbc hca; rw [h2] at this; cases this
    | false =>
      have := (h.tieTrans b a c h2 h1 hac hca).1
      rw [hbc] at this; cases this

theorem lexLt_irrefl : ∀ (keys : List (α → α → Bool)), (∀ k ∈ keys, StrictWeak k) → ∀ a, lexLt keys a a = false
  | [], _, _ => rfl
  | k :: ks, h, a => by
    have hk := (h k (List.mem_cons_self ..)).irrefl a
    simp only [lexLt, hk, Bool.false_eq_true, if_false]
    exact lexLt_irrefl ks (fun x hx => h x (List.mem_cons_of_mem _ hx)) a

theorem lexLt_trans : ∀ (keys : List (α → α → Bool)), (∀ k ∈ keys, StrictWeak k) →
    ∀ a b c, lexLt keys a b = true → lexLt keys b c = true → lexLt keys a c = true
  | [], _, _, _, _, h1, _ => by simp [lexLt] at h1
  | k :: ks, h, a, b, c, h1, h2 => by
    have hk := h k (List.mem_cons_self ..)
    have hks : ∀ x ∈ ks, StrictWeak x := fun x hx => h x (List.mem_cons_of_mem _ hx)
    simp only [lexLt] at h1 h2 ⊢
    cases kab : k a b with
    | true =>
      cases kbc : k b c with
      | true => simp [hk.trans a b c kab kbc]
      | false =>
        cases kcb : k c b with
        | true => simp [kbc, kcb] at h2
        | false => simp [hk.lt_tie kab kbc kcb]
    | false =>
      cases kba : k b a with
      | true => simp [kab, kba] at h1
      | false =>
        simp only [kab, kba, Bool.false_eq_true, if_false] at h1
        cases kbc : k b c with
        | true => simp [hk.tie_lt kab kba kbc]
        | false =>
          cases kcb : k c b with
          | true => simp [kbc, kcb] at h2
          | false =>
            simp only [kbc, kcb, Bool.false_eq_true, if_false] at h2
            obtain ⟨t1, t2⟩ := hk.tieTrans a b c kab kba kbc kcb
            simp only [t1, t2, Bool.false_eq_true, if_false]
            exact lexLt_trans ks hks a b c h1 h2

theorem lexLt_tie : ∀ (keys : List (α → α → Bool)) (a b : α), lexLt keys a b = false → lexLt keys b a = false →
    ∀ k ∈ keys, k a b = false ∧ k b a = false
  | [], _, _, _, _, k, hk => by cases hk
  | k0 :: ks, a, b, h1, h2, k, hk => by
    simp only [lexLt] at h1 h2
    cases kab : k0 a b with
    | true => simp [kab] at h1
    | false =>
      cases kba : k0 b a with
      | true => simp [kba] at h2
      | false =>
        simp only [kab, kba, Bool.false_eq_true, if_false] at h1 h2
        rcases List.mem_cons.1 hk with rfl | hk
        · exact ⟨kab, kba⟩
        · exact lexLt_tie ks a b h1 h2 k hk

/-- **`LexicographicTotalOrdering` is a strict total order** when every key is a strict weak order and no
two distinct operands tie on every key (the condition whose violation is the library's
"Broken strict total ordering" `static_assert`, and finding F10). -/
theorem lexLt_strictTotal (keys : List (α → α → Bool)) (hk : ∀ k ∈ keys, StrictWeak k)
    (tieFree : ∀ a b, (∀ k ∈ keys, k a b = false ∧ k b a = false) → a = b) : StrictTotal (lexLt keys) :=
  ⟨lexLt_irrefl keys hk, lexLt_trans keys hk, fun a b h1 h2 => tieFree a b (lexLt_tie keys a b h1 h2)⟩

/-- A strict total order is in particular a strict weak order (its ties are equalities). -/
theorem StrictTotal.strictWeak {k : α → α → Bool} (h : StrictTotal k) : StrictWeak k :=
  ⟨h.irrefl, h.trans, fun a b c h1 h2 h3 h4 => by
    have e1 := h.total a b h1 h2
    have e2 := h.total b c h3 h4
    subst e1; subst e2; exact ⟨h.irrefl a, h.irrefl a⟩⟩

/-- Pulling a strict weak order back along any function (a key computed from the operand, such as
`DimT`, `MagT`, the avoidance class or the origin) gives a strict weak order. -/
theorem StrictWeak.comap {β : Type} {k : β → β → Bool} (h : StrictWeak k) (f : α → β) :
    StrictWeak (fun a b => k (f a) (f b)) :=
  ⟨fun a => h.irrefl (f a), fun a b c => h.trans (f a) (f b) (f c), fun a b c => h.tieTrans (f a) (f b) (f c)⟩

end Au

import AuProofs.Lemmas.LexOrder

/-! # `LexicographicTotalOrdering` with keys that are strict weak orders on a subset

The recursive key of the unit ordering (`OrderAsUnitProduct`) is only known to be well behaved on smaller units,
so the induction over unit size needs the lexicographic lemmas relative to a predicate `S`. -/
namespace Au

variable {α : Type}

/-- `lexLt` is `false` when every key is. -/
theorem lexLt_false_of_all : ∀ (keys : List (α → α → Bool)) (a b : α), (∀ k ∈ keys, k a b = false) → lexLt keys a b = false
  | [], _, _, _ => rfl
  | k :: ks, a, b, h => by
    have hk := h k (List.mem_cons_self ..)
    have ih := lexLt_false_of_all ks a b (fun x hx => h x (List.mem_cons_of_mem _ hx))
    simp only [lexLt, hk, Bool.false_eq_true, if_false]
    split
    · rfl
    · exact ih

/-- The lexicographic combination of strict weak orders is a strict weak order (no tie-freeness needed). -/
theorem lexLt_strictWeak (keys : List (α → α → Bool)) (hk : ∀ k ∈ keys, StrictWeak k) : StrictWeak (lexLt keys) :=
  ⟨lexLt_irrefl keys hk, lexLt_trans keys hk, fun a b c h1 h2 h3 h4 => by
    have t1 := lexLt_tie keys a b h1 h2
    have t2 := lexLt_tie keys b c h3 h4
    have t3 : ∀ k ∈ keys, k a c = false ∧ k c a = false := fun k hkm =>
      (hk k hkm).tieTrans a b c (t1 k hkm).1 (t1 k hkm).2 (t2 k hkm).1 (t2 k hkm).2
    exact ⟨lexLt_false_of_all keys a c (fun k hkm => (t3 k hkm).1), lexLt_false_of_all keys c a (fun k hkm => (t3 k hkm).2)⟩⟩

/-- Keys computed from an image: `lexLt` commutes with pulling back along a function. -/
theorem lexLt_comap {β : Type} (f : β → α) : ∀ (keys : List (α → α → Bool)) (x y : β),
    lexLt (keys.map (fun k => fun a b => k (f a) (f b))) x y = lexLt keys (f x) (f y)
  | [], _, _ => rfl
  | k :: ks, x, y => by
    simp only [List.map_cons, lexLt]
    rw [lexLt_comap f ks x y]

/-- Replacing one key by another that agrees with it on `a`, `b` whenever all earlier keys tie on `a`, `b` does not
change the verdict on `a`, `b` (a tiebreaker is only consulted after the keys before it have tied). -/
theorem lexLt_congr_after : ∀ (pre : List (α → α → Bool)) (k k' : α → α → Bool) (post : List (α → α → Bool)) (a b : α),
    ((∀ p ∈ pre, p a b = false ∧ p b a = false) → k a b = k' a b ∧ k b a = k' b a) →
    lexLt (pre ++ k :: post) a b = lexLt (pre ++ k' :: post) a b
  | [], k, k', post, a, b, h => by
    obtain ⟨h1, h2⟩ := h (fun p hp => by cases hp)
    simp only [List.nil_append, lexLt, h1, h2]
  | p :: ps, k, k', post, a, b, h => by
    simp only [List.cons_append, lexLt]
    cases pab : p a b with
    | true => simp
    | false =>
      cases pba : p b a with
      | true => simp
      | false =>
        simp only [Bool.false_eq_true, if_false]
        apply lexLt_congr_after ps k k' post a b
        intro hps
        apply h
        intro q hq
        rcases List.mem_cons.1 hq with rfl | hq
        · exact ⟨pab, pba⟩
        · exact hps q hq

/-- A strict weak order on the elements satisfying `S`. -/
structure SWOn (S : α → Prop) (k : α → α → Bool) : Prop where
  irrefl : ∀ a, S a → k a a = false
  trans : ∀ a b c, S a → S b → S c → k a b = true → k b c = true → k a c = true
  tieTrans : ∀ a b c, S a → S b → S c → k a b = false → k b a = false → k b c = false → k c b = false →
    k a c = false ∧ k c a = false

theorem StrictWeak.on {k : α → α → Bool} (h : StrictWeak k) (S : α → Prop) : SWOn S k :=
  ⟨fun a _ => h.irrefl a, fun a b c _ _ _ => h.trans a b c, fun a b c _ _ _ => h.tieTrans a b c⟩

theorem SWOn.strictWeak {k : α → α → Bool} (h : SWOn (fun _ => True) k) : StrictWeak k :=
  ⟨fun a => h.irrefl a trivial, fun a b c => h.trans a b c trivial trivial trivial,
   fun a b c => h.tieTrans a b c trivial trivial trivial⟩

theorem SWOn.mono {S T : α → Prop} {k : α → α → Bool} (h : SWOn S k) (hTS : ∀ a, T a → S a) : SWOn T k :=
  ⟨fun a ha => h.irrefl a (hTS a ha), fun a b c ha hb hc => h.trans a b c (hTS a ha) (hTS b hb) (hTS c hc),
   fun a b c ha hb hc => h.tieTrans a b c (hTS a ha) (hTS b hb) (hTS c hc)⟩

theorem SWOn.comap {β : Type} {S : α → Prop} {T : β → Prop} {k : α → α → Bool} (h : SWOn S k) (f : β → α)
    (hf : ∀ b, T b → S (f b)) : SWOn T (fun a b => k (f a) (f b)) :=
  ⟨fun a ha => h.irrefl (f a) (hf a ha), fun a b c ha hb hc => h.trans (f a) (f b) (f c) (hf a ha) (hf b hb) (hf c hc),
   fun a b c ha hb hc => h.tieTrans (f a) (f b) (f c) (hf a ha) (hf b hb) (hf c hc)⟩

/-- `SWOn S k` is `StrictWeak` of the restriction of `k` to the subtype of `S`. -/
theorem SWOn.iff_subtype (S : α → Prop) (k : α → α → Bool) :
    SWOn S k ↔ StrictWeak (fun (x y : {a // S a}) => k x.1 y.1) :=
  ⟨fun h => ⟨fun a => h.irrefl a.1 a.2, fun a b c => h.trans a.1 b.1 c.1 a.2 b.2 c.2,
             fun a b c => h.tieTrans a.1 b.1 c.1 a.2 b.2 c.2⟩,
   fun h => ⟨fun a ha => h.irrefl ⟨a, ha⟩, fun a b c ha hb hc => h.trans ⟨a, ha⟩ ⟨b, hb⟩ ⟨c, hc⟩,
             fun a b c ha hb hc => h.tieTrans ⟨a, ha⟩ ⟨b, hb⟩ ⟨c, hc⟩⟩⟩

/-- The lexicographic combination of keys that are strict weak orders on `S` is a strict weak order on `S`. -/
theorem lexLt_SWOn (S : α → Prop) (keys : List (α → α → Bool)) (hk : ∀ k ∈ keys, SWOn S k) : SWOn S (lexLt keys) := by
  rw [SWOn.iff_subtype]
  have h := lexLt_strictWeak (keys.map (fun k => fun (x y : {a // S a}) => k x.1 y.1)) (by
    intro k' hk'
    obtain ⟨k, hkm, rfl⟩ := List.mem_map.1 hk'
    exact (SWOn.iff_subtype S k).1 (hk k hkm))
  have e : (lexLt (keys.map (fun k => fun (x y : {a // S a}) => k x.1 y.1))) = (fun (x y : {a // S a}) => lexLt keys x.1 y.1) := by
    funext x y
    exact lexLt_comap (fun (x : {a // S a}) => x.1) keys x y
  rw [e] at h
  exact h

end Au

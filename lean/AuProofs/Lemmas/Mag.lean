import AuModel.Mag
import AuProofs.Lemmas.Pack
set_option linter.unusedSectionVars false
namespace Au

theorem MagBase.lt_strictTotal : StrictTotal MagBase.lt where
  irrefl a := by cases a <;> simp [MagBase.lt]
  trans a b c h1 h2 := by
    cases a <;> cases b <;> cases c <;> simp [MagBase.lt] at * <;> omega
  total a b h1 h2 := by
    cases a <;> cases b <;> simp [MagBase.lt] at * <;> omega

theorem dimLt_strictTotal : StrictTotal dimLt where
  irrefl a := by simp [dimLt]
  trans a b c h1 h2 := by simp [dimLt] at *; omega
  total a b h1 h2 := by simp [dimLt] at *; omega

namespace Mag
open Pack

theorem negPowers_eq (m : Mag) : negPowers m = m.filter (fun a => decide (a.2 < 0)) := by
  unfold negPowers denPart Pack.inv Pack.pow
  have h1 : ¬ ((-1 : Rat) = 0) := by decide
  simp only [if_neg h1]
  induction m with
  | nil => rfl
  | cons a t ih =>
    obtain ⟨b, e⟩ := a
    simp only [List.map_cons, List.filter_cons]
    by_cases he : e < 0
    · have h2 : (0 : Rat) < e * -1 := by grind
      simp only [h2, he, decide_true, if_true, List.map_cons, ih]
      congr 1
      have : e * -1 * -1 = e := by grind
      rw [this]
    · have h2 : ¬ (0 : Rat) < e * -1 := by grind
      simp only [h2, he, decide_false]
      exact ih

theorem filter_neg_den (m : Mag) (hs : Sorted MagBase.lt m) (x : MagBase) :
    den (m.filter (fun a => decide (a.2 < 0))) x = min (den m x) 0 := by
  induction m with
  | nil => simp [den_nil]; grind
  | cons a t ih =>
    obtain ⟨b, e⟩ := a
    have iht := ih (sorted_tail hs)
    rw [List.filter_cons]
    by_cases hx : b = x
    · subst hx
      have h0 : den t b = 0 := den_eq_zero_of_lt_all MagBase.lt_strictTotal t b (sorted_head hs)
      rw [den_head]
      by_cases he : e < 0
      · simp only [he, decide_true, if_true, den_head]; grind
      · simp only [he, decide_false, Bool.false_eq_true, if_false]
        rw [iht, h0]; grind
    · by_cases he : e < 0
      · simp only [he, decide_true, if_true, den_cons, if_neg hx]; exact iht
      · simp only [he, decide_false, Bool.false_eq_true, if_false, den_cons, if_neg hx]; exact iht

theorem negPowers_den (m : Mag) (hs : Sorted MagBase.lt m) (x : MagBase) :
    den (negPowers m) x = min (den m x) 0 := by
  rw [negPowers_eq]; exact filter_neg_den m hs x

theorem negPowers_sub (m : Mag) : ∀ y ∈ negPowers m, y ∈ m := by
  rw [negPowers_eq]; intro y hy; exact (List.mem_filter.1 hy).1
theorem prependIfNeg_den (b : MagBase) (e : Rat) (m : Mag) (x : MagBase) :
    den (prependIfNeg (b, e) m) x = if b = x ∧ e < 0 then e else den m x := by
  unfold prependIfNeg
  by_cases he : e < 0
  · simp only [he, if_true, den_cons, and_true]
  · simp only [he, if_false, and_false]

/-- **`CommonMagnitude` takes the base-wise minimum exponent (a missing base counts as 0).** -/
theorem common2_den (a b : Mag) (ha : Sorted MagBase.lt a) (hb : Sorted MagBase.lt b) (x : MagBase) :
    den (common2 a b) x = min (den a x) (den b x) := by
  have h := MagBase.lt_strictTotal
  fun_induction common2 a b with
  | case1 => simp [den_nil]; grind
  | case2 hd t => rw [negPowers_den _ hb, den_nil]; grind
  | case3 hd t => rw [negPowers_den _ ha, den_nil]
  | case4 b1 e1 t1 b2 e2 t2 h1 ih =>
    rw [prependIfNeg_den, ih (sorted_tail ha) hb]
    by_cases hx : b1 = x
    · subst hx
      rw [den_head, den_eq_zero_of_lt_all h t1 b1 (sorted_head ha),
        den_eq_zero_of_lt_head h b2 e2 t2 b1 hb h1]
      grind
    · rw [den_cons b1 e1 t1, if_neg hx]; simp [hx]
  | case5 b1 e1 t1 b2 e2 t2 h1 h2 ih =>
    rw [prependIfNeg_den, ih (sorted_tail hb) ha]
    by_cases hx : b2 = x
    · subst hx
      rw [den_head, den_eq_zero_of_lt_all h t2 b2 (sorted_head hb),
        den_eq_zero_of_lt_head h b1 e1 t1 b2 ha h2]
      grind
    · rw [den_cons b2 e2 t2, if_neg hx]; simp [hx]; grind
  | case6 b1 e1 t1 b2 e2 t2 h1 h2 h3 ih =>
    have hb12 : b1 = b2 := h.total _ _ (by simpa using h1) (by simpa using h2)
    subst hb12
    rw [den_cons, den_cons b1 e1, den_cons b1 e2, ih (sorted_tail ha) (sorted_tail hb)]
    by_cases hx : b1 = x
    · simp only [hx, if_true]; grind
    · simp only [hx, if_false]
  | case7 b1 e1 t1 b2 e2 t2 h1 h2 h3 ih =>
    have hb12 : b1 = b2 := h.total _ _ (by simpa using h1) (by simpa using h2)
    subst hb12
    rw [den_cons, den_cons b1 e1, den_cons b1 e2, ih (sorted_tail ha) (sorted_tail hb)]
    by_cases hx : b1 = x
    · simp only [hx, if_true]; grind
    · simp only [hx, if_false]
theorem mem_prependIfNeg (bp : MagBase × Rat) (m : Mag) : ∀ y ∈ prependIfNeg bp m, y = bp ∨ y ∈ m := by
  unfold prependIfNeg; intro y hy
  split at hy
  · exact List.mem_cons.1 hy
  · exact Or.inr hy

/-- Every element of a common magnitude is an element of one of the inputs. -/
theorem mem_common2 (a b : Mag) : ∀ y ∈ common2 a b, y ∈ a ∨ y ∈ b := by
  fun_induction common2 a b with
  | case1 => intro y hy; cases hy
  | case2 hd t => intro y hy; exact Or.inr (negPowers_sub _ y hy)
  | case3 hd t => intro y hy; exact Or.inl (negPowers_sub _ y hy)
  | case4 b1 e1 t1 b2 e2 t2 h1 ih =>
    intro y hy
    rcases mem_prependIfNeg _ _ y hy with rfl | hy
    · exact Or.inl (List.mem_cons_self ..)
    · rcases ih y hy with h | h
      · exact Or.inl (List.mem_cons_of_mem _ h)
      · exact Or.inr h
  | case5 b1 e1 t1 b2 e2 t2 h1 h2 ih =>
    intro y hy
    rcases mem_prependIfNeg _ _ y hy with rfl | hy
    · exact Or.inr (List.mem_cons_self ..)
    · rcases ih y hy with h | h
      · exact Or.inr (List.mem_cons_of_mem _ h)
      · exact Or.inl h
  | case6 b1 e1 t1 b2 e2 t2 h1 h2 h3 ih =>
    intro y hy
    rcases List.mem_cons.1 hy with rfl | hy
    · exact Or.inl (List.mem_cons_self ..)
    · rcases ih y hy with h | h
      · exact Or.inl (List.mem_cons_of_mem _ h)
      · exact Or.inr (List.mem_cons_of_mem _ h)
  | case7 b1 e1 t1 b2 e2 t2 h1 h2 h3 ih =>
    intro y hy
    rcases List.mem_cons.1 hy with rfl | hy
    · exact Or.inr (List.mem_cons_self ..)
    · rcases ih y hy with h | h
      · exact Or.inl (List.mem_cons_of_mem _ h)
      · exact Or.inr (List.mem_cons_of_mem _ h)

theorem sorted_filter (m : Mag) (p : MagBase × Rat → Bool) (hs : Sorted MagBase.lt m) :
    Sorted MagBase.lt (m.filter p) := List.Pairwise.filter _ hs

theorem negPowers_valid (m : Mag) (hv : Valid MagBase.lt m) : Valid MagBase.lt (negPowers m) := by
  rw [negPowers_eq]
  exact ⟨sorted_filter m _ hv.1, fun y hy => hv.2 y (List.mem_filter.1 hy).1⟩

theorem prepend_sorted (bp : MagBase × Rat) (m : Mag) (hs : Sorted MagBase.lt m)
    (hlt : ∀ y ∈ m, MagBase.lt bp.1 y.1 = true) : Sorted MagBase.lt (prependIfNeg bp m) := by
  unfold prependIfNeg; split
  · exact List.pairwise_cons.2 ⟨hlt, hs⟩
  · exact hs

theorem common2_valid (a b : Mag) (ha : Valid MagBase.lt a) (hb : Valid MagBase.lt b) :
    Valid MagBase.lt (common2 a b) := by
  have h := MagBase.lt_strictTotal
  fun_induction common2 a b with
  | case1 => exact ⟨List.Pairwise.nil, fun _ hy => by cases hy⟩
  | case2 hd t => exact negPowers_valid _ hb
  | case3 hd t => exact negPowers_valid _ ha
  | case4 b1 e1 t1 b2 e2 t2 h1 ih =>
    have ih' := ih (valid_tail ha) hb
    refine ⟨prepend_sorted _ _ ih'.1 ?_, ?_⟩
    · intro y hy
      rcases mem_common2 _ _ y hy with hz | hz
      · exact sorted_head ha.1 y hz
      · rcases List.mem_cons.1 hz with rfl | hz
        · exact h1
        · exact h.trans _ _ _ h1 (sorted_head hb.1 y hz)
    · intro y hy
      rcases mem_prependIfNeg _ _ y hy with rfl | hy
      · exact ha.2 _ (List.mem_cons_self ..)
      · exact ih'.2 y hy
  | case5 b1 e1 t1 b2 e2 t2 h1 h2 ih =>
    have ih' := ih (valid_tail hb) ha
    refine ⟨prepend_sorted _ _ ih'.1 ?_, ?_⟩
    · intro y hy
      rcases mem_common2 _ _ y hy with hz | hz
      · exact sorted_head hb.1 y hz
      · rcases List.mem_cons.1 hz with rfl | hz
        · exact h2
        · exact h.trans _ _ _ h2 (sorted_head ha.1 y hz)
    · intro y hy
      rcases mem_prependIfNeg _ _ y hy with rfl | hy
      · exact hb.2 _ (List.mem_cons_self ..)
      · exact ih'.2 y hy
  | case6 b1 e1 t1 b2 e2 t2 h1 h2 h3 ih =>
    have hb12 : b1 = b2 := h.total _ _ (by simpa using h1) (by simpa using h2)
    subst hb12
    have ih' := ih (valid_tail ha) (valid_tail hb)
    refine ⟨List.pairwise_cons.2 ⟨?_, ih'.1⟩, ?_⟩
    · intro y hy
      rcases mem_common2 _ _ y hy with hz | hz
      · exact sorted_head ha.1 y hz
      · exact sorted_head hb.1 y hz
    · intro y hy
      rcases List.mem_cons.1 hy with rfl | hy
      · exact ha.2 _ (List.mem_cons_self ..)
      · exact ih'.2 y hy
  | case7 b1 e1 t1 b2 e2 t2 h1 h2 h3 ih =>
    have hb12 : b1 = b2 := h.total _ _ (by simpa using h1) (by simpa using h2)
    subst hb12
    have ih' := ih (valid_tail ha) (valid_tail hb)
    refine ⟨List.pairwise_cons.2 ⟨?_, ih'.1⟩, ?_⟩
    · intro y hy
      rcases mem_common2 _ _ y hy with hz | hz
      · exact sorted_head ha.1 y hz
      · exact sorted_head hb.1 y hz
    · intro y hy
      rcases List.mem_cons.1 hy with rfl | hy
      · exact hb.2 _ (List.mem_cons_self ..)
      · exact ih'.2 y hy

theorem common2_comm (a b : Mag) (ha : Valid MagBase.lt a) (hb : Valid MagBase.lt b) :
    common2 a b = common2 b a := by
  apply canonical MagBase.lt_strictTotal _ _ (common2_valid a b ha hb) (common2_valid b a hb ha)
  intro x
  rw [common2_den a b ha.1 hb.1, common2_den b a hb.1 ha.1]; grind

theorem common2_assoc (a b c : Mag) (ha : Valid MagBase.lt a) (hb : Valid MagBase.lt b)
    (hc : Valid MagBase.lt c) : common2 (common2 a b) c = common2 a (common2 b c) := by
  have hab := common2_valid a b ha hb
  have hbc := common2_valid b c hb hc
  apply canonical MagBase.lt_strictTotal _ _ (common2_valid _ c hab hc) (common2_valid a _ ha hbc)
  intro x
  rw [common2_den _ c hab.1 hc.1, common2_den a b ha.1 hb.1, common2_den a _ ha.1 hbc.1,
    common2_den b c hb.1 hc.1]; grind

theorem common2_idem (a : Mag) (ha : Valid MagBase.lt a) : common2 a a = a := by
  apply canonical MagBase.lt_strictTotal _ _ (common2_valid a a ha ha) ha
  intro x; rw [common2_den a a ha.1 ha.1]; grind
end Mag
end Au

import AuModel.Mag
import AuProofs.Lemmas.Pack
import AuProofs.Lemmas.Mag
import AuProofs.Lemmas.Unit
import Mathlib.Tactic.Ring
import Mathlib.Tactic.Linarith
import Mathlib.Algebra.Order.Field.Basic
import Mathlib.Data.Rat.Defs

/-! # Exact values of rational magnitudes

`Mag.qval` interprets a magnitude with integer exponents as a rational number (π is a positive
parameter).  `PackProduct` multiplies values, `PackInverse` inverts them, and exponent-wise
divisibility (`den m x ≥ den c x` at every base — what the C07 / C10 theorems prove about
`CommonMagnitude`) is divisibility of values: `value m = k · value c` for a positive integer `k`. -/
namespace Au
open Pack

/-- Value of a base: primes are themselves, π is an arbitrary positive parameter. -/
def MagBase.qv (piv : Rat) : MagBase → Rat
  | .prime p => (p : Rat)
  | .pi => piv

/-- Value of one base power with an integer exponent. -/
def bval (piv : Rat) (a : MagBase × Rat) : Rat := (MagBase.qv piv a.1) ^ a.2.num

/-- Exact value of a magnitude all of whose exponents are integers. -/
def Mag.qval (piv : Rat) (m : Mag) : Rat := (m.map (bval piv)).prod

def Mag.IntExp (m : Mag) : Prop := ∀ a ∈ m, a.2.den = 1
def Mag.PosBases (m : Mag) : Prop := ∀ a ∈ m, ∀ p, a.1 = .prime p → 0 < p

theorem qv_pos (piv : Rat) (hpi : 0 < piv) (b : MagBase) (hb : ∀ p, b = .prime p → 0 < p) : 0 < MagBase.qv piv b := by
  cases b with
  | prime p => simp only [MagBase.qv]; exact_mod_cast hb p rfl
  | pi => exact hpi

theorem Mag.qval_nil (piv : Rat) : Mag.qval piv [] = 1 := rfl
theorem Mag.qval_cons (piv : Rat) (a : MagBase × Rat) (t : Mag) : Mag.qval piv (a :: t) = bval piv a * Mag.qval piv t := by
  simp [Mag.qval]

theorem num_add_of_den_one (e1 e2 : Rat) (h1 : e1.den = 1) (h2 : e2.den = 1) :
    (e1 + e2).den = 1 ∧ (e1 + e2).num = e1.num + e2.num := by
  have a1 : e1 = (e1.num : Rat) := by
    have := Rat.num_div_den e1; rw [h1] at this; simpa using this.symm
  have a2 : e2 = (e2.num : Rat) := by
    have := Rat.num_div_den e2; rw [h2] at this; simpa using this.symm
  have : e1 + e2 = ((e1.num + e2.num : Int) : Rat) := by rw [a1, a2]; push_cast; simp
  rw [this]
  exact ⟨Rat.den_intCast _, Rat.num_intCast _⟩

theorem intExp_tail {a : MagBase × Rat} {t : Mag} (h : Mag.IntExp (a :: t)) : Mag.IntExp t :=
  fun x hx => h x (List.mem_cons_of_mem _ hx)
theorem posBases_tail {a : MagBase × Rat} {t : Mag} (h : Mag.PosBases (a :: t)) : Mag.PosBases t :=
  fun x hx => h x (List.mem_cons_of_mem _ hx)

/-- `PackProduct` multiplies values (integer exponents, positive bases). -/
theorem qval_mul (piv : Rat) (hpi : 0 < piv) (a b : Mag) (ha : Mag.IntExp a) (hb : Mag.IntExp b)
    (pa : Mag.PosBases a) (pb : Mag.PosBases b) :
    Mag.qval piv (mul MagBase.lt a b) = Mag.qval piv a * Mag.qval piv b ∧ Mag.IntExp (mul MagBase.lt a b)
      ∧ Mag.PosBases (mul MagBase.lt a b) := by
  fun_induction mul MagBase.lt a b with
  | case1 b => simp [Mag.qval_nil]; exact ⟨hb, pb⟩
  | case2 a _ => simp [Mag.qval_nil]; exact ⟨ha, pa⟩
  | case3 b1 e1 t1 b2 e2 t2 hlt ih =>
    obtain ⟨i1, i2, i3⟩ := ih (intExp_tail ha) hb (posBases_tail pa) pb
    refine ⟨?_, ?_, ?_⟩
    · simp only [Mag.qval_cons] at i1 ⊢; rw [i1]; ring
    · intro x hx; rcases List.mem_cons.1 hx with rfl | hx
      · exact ha _ (List.mem_cons_self ..)
      · exact i2 x hx
    · intro x hx; rcases List.mem_cons.1 hx with rfl | hx
      · exact pa _ (List.mem_cons_self ..)
      · exact i3 x hx
  | case4 b1 e1 t1 b2 e2 t2 hlt hgt ih =>
    obtain ⟨i1, i2, i3⟩ := ih (intExp_tail hb) ha (posBases_tail pb) pa
    refine ⟨?_, ?_, ?_⟩
    · simp only [Mag.qval_cons] at i1 ⊢; rw [i1]; ring
    · intro x hx; rcases List.mem_cons.1 hx with rfl | hx
      · exact hb _ (List.mem_cons_self ..)
      · exact i2 x hx
    · intro x hx; rcases List.mem_cons.1 hx with rfl | hx
      · exact pb _ (List.mem_cons_self ..)
      · exact i3 x hx
  | case5 b1 e1 t1 b2 e2 t2 hlt hgt hz ih =>
    obtain ⟨i1, i2, i3⟩ := ih (intExp_tail ha) (intExp_tail hb) (posBases_tail pa) (posBases_tail pb)
    have hbb : b1 = b2 := MagBase.lt_strictTotal.total b1 b2 (by simpa using hlt) (by simpa using hgt)
    subst hbb
    have d1 := ha (b1, e1) (List.mem_cons_self ..)
    have d2 := hb (b1, e2) (List.mem_cons_self ..)
    have hn := (num_add_of_den_one e1 e2 d1 d2).2
    have hq : 0 < MagBase.qv piv b1 := qv_pos piv hpi b1 (fun p hp => pa (b1, e1) (List.mem_cons_self ..) p hp)
    refine ⟨?_, i2, i3⟩
    simp only [Mag.qval_cons] at i1 ⊢; rw [i1]
    have : bval piv (b1, e1) * bval piv (b1, e2) = 1 := by
      simp only [bval]
      rw [← zpow_add₀ (ne_of_gt hq), ← hn, hz]; simp
    calc Mag.qval piv t1 * Mag.qval piv t2 = (bval piv (b1, e1) * bval piv (b1, e2)) * (Mag.qval piv t1 * Mag.qval piv t2) := by rw [this]; ring
      _ = _ := by ring
  | case6 b1 e1 t1 b2 e2 t2 hlt hgt hz ih =>
    obtain ⟨i1, i2, i3⟩ := ih (intExp_tail hb) (intExp_tail ha) (posBases_tail pb) (posBases_tail pa)
    have hbb : b1 = b2 := MagBase.lt_strictTotal.total b1 b2 (by simpa using hlt) (by simpa using hgt)
    subst hbb
    have d1 := ha (b1, e1) (List.mem_cons_self ..)
    have d2 := hb (b1, e2) (List.mem_cons_self ..)
    have hn := num_add_of_den_one e1 e2 d1 d2
    have hq : 0 < MagBase.qv piv b1 := qv_pos piv hpi b1 (fun p hp => pa (b1, e1) (List.mem_cons_self ..) p hp)
    refine ⟨?_, ?_, ?_⟩
    · simp only [Mag.qval_cons] at i1 ⊢; rw [i1]
      have : bval piv (b1, e1 + e2) = bval piv (b1, e1) * bval piv (b1, e2) := by
        simp only [bval]
        rw [hn.2, zpow_add₀ (ne_of_gt hq)]
      rw [this]; ring
    · intro x hx; rcases List.mem_cons.1 hx with rfl | hx
      · exact hn.1
      · exact i2 x hx
    · intro x hx; rcases List.mem_cons.1 hx with rfl | hx
      · exact fun p hp => pa (b1, e1) (List.mem_cons_self ..) p hp
      · exact i3 x hx


def Mag.PiFree (m : Mag) : Prop := ∀ a ∈ m, a.1 ≠ .pi

theorem inv_eq_map (m : Mag) : Pack.inv m = m.map (fun a => (a.1, a.2 * (-1))) := by
  unfold Pack.inv Pack.pow
  simp

theorem qval_pos (piv : Rat) (hpi : 0 < piv) : ∀ (m : Mag), Mag.PosBases m → 0 < Mag.qval piv m
  | [], _ => by simp [Mag.qval_nil]
  | a :: t, h => by
    rw [Mag.qval_cons]
    have hq : 0 < MagBase.qv piv a.1 := qv_pos piv hpi a.1 (fun p hp => h a (List.mem_cons_self ..) p hp)
    exact mul_pos (zpow_pos hq _) (qval_pos piv hpi t (posBases_tail h))

/-- `PackInverse` inverts the value. -/
theorem qval_inv (piv : Rat) : ∀ (m : Mag), Mag.IntExp m → Mag.PosBases m →
    Mag.qval piv (Pack.inv m) = (Mag.qval piv m)⁻¹ ∧ Mag.IntExp (Pack.inv m) ∧ Mag.PosBases (Pack.inv m) := by
  intro m hi hp
  rw [inv_eq_map]
  induction m with
  | nil => simp [Mag.qval_nil]; exact ⟨fun _ h => absurd h List.not_mem_nil, fun _ h => absurd h List.not_mem_nil⟩
  | cons a t ih =>
    obtain ⟨i1, i2, i3⟩ := ih (intExp_tail hi) (posBases_tail hp)
    have hd := hi a (List.mem_cons_self ..)
    have hneg : (a.2 * (-1)).den = 1 ∧ (a.2 * (-1)).num = -a.2.num := by
      have : a.2 * (-1) = -a.2 := by ring
      rw [this]; exact ⟨by rw [Rat.neg_den]; exact hd, Rat.neg_num _⟩
    refine ⟨?_, ?_, ?_⟩
    · simp only [List.map_cons, Mag.qval_cons] at i1 ⊢
      rw [i1]
      simp only [bval, hneg.2, zpow_neg]
      rw [mul_inv]
    · intro x hx; rcases List.mem_cons.1 hx with rfl | hx
      · exact hneg.1
      · exact i2 x hx
    · intro x hx; rcases List.mem_cons.1 hx with rfl | hx
      · exact fun p hp' => hp a (List.mem_cons_self ..) p hp'
      · exact i3 x hx

/-- In a sorted pack the exponent function returns each member's own exponent. -/
theorem den_of_mem {β : Type} [DecidableEq β] {lt : β → β → Bool} (h : StrictTotal lt) :
    ∀ (p : Pack β), Sorted lt p → ∀ a ∈ p, den p a.1 = a.2
  | [], _, a, ha => absurd ha List.not_mem_nil
  | (c, e) :: t, hs, a, ha => by
    rcases List.mem_cons.1 ha with rfl | hat
    · exact den_head ..
    · have hlt : lt c a.1 = true := (List.pairwise_cons.1 hs).1 a hat
      rw [den_cons, if_neg (lt_ne h hlt)]
      exact den_of_mem h t (sorted_tail hs) a hat

/-- A π-free magnitude whose exponents are all positive integers is a positive natural number. -/
theorem qval_posInt (piv : Rat) : ∀ (q : Mag), Mag.IntExp q → Mag.PosBases q → Mag.PiFree q → (∀ a ∈ q, 0 < a.2) →
    ∃ k : Nat, 0 < k ∧ Mag.qval piv q = (k : Rat)
  | [], _, _, _, _ => ⟨1, by decide, by simp [Mag.qval_nil]⟩
  | a :: t, hi, hp, hf, hpos => by
    obtain ⟨k, hk, hkq⟩ := qval_posInt piv t (intExp_tail hi) (posBases_tail hp)
      (fun x hx => hf x (List.mem_cons_of_mem _ hx)) (fun x hx => hpos x (List.mem_cons_of_mem _ hx))
    have hd := hi a (List.mem_cons_self ..)
    have ha0 : 0 < a.2 := hpos a (List.mem_cons_self ..)
    have hn : 0 < a.2.num := Rat.num_pos.2 ha0
    cases hb : a.1 with
    | pi => exact absurd hb (hf a (List.mem_cons_self ..))
    | prime p =>
      have hp0 : 0 < p := hp a (List.mem_cons_self ..) p hb
      refine ⟨p ^ a.2.num.toNat * k, Nat.mul_pos (Nat.pow_pos hp0) hk, ?_⟩
      rw [Mag.qval_cons, hkq]
      simp only [bval, hb, MagBase.qv]
      have : a.2.num = (a.2.num.toNat : Int) := by omega
      rw [this, zpow_natCast, ← this]
      push_cast
      ring

/-- **Exponent-wise divisibility is divisibility of values**: if every base has at least the
exponent in `m` that it has in `c` (both valid, integer exponents, π-free, positive bases), then the
value of `m` is a positive-integer multiple of the value of `c`. -/
theorem qval_ratio_posInt (piv : Rat) (hpi : 0 < piv) (m c : Mag)
    (vm : Valid MagBase.lt m) (vc : Valid MagBase.lt c)
    (im : Mag.IntExp m) (ic : Mag.IntExp c) (pm : Mag.PosBases m) (pc : Mag.PosBases c)
    (fm : Mag.PiFree m) (fc : Mag.PiFree c)
    (hdiv : ∀ x, 0 ≤ den m x - den c x) :
    ∃ k : Nat, 0 < k ∧ Mag.qval piv m = (k : Rat) * Mag.qval piv c := by
  have hst := MagBase.lt_strictTotal
  obtain ⟨j1, j2, j3⟩ := qval_inv piv c ic pc
  obtain ⟨q1, q2, q3⟩ := qval_mul piv hpi m (Pack.inv c) im j2 pm j3
  have vinv : Valid MagBase.lt (Pack.inv c) := pow_valid c (-1) vc
  have vq : Valid MagBase.lt (mul MagBase.lt m (Pack.inv c)) := mul_valid hst m _ vm vinv
  have hden : ∀ x, den (mul MagBase.lt m (Pack.inv c)) x = den m x - den c x := by
    intro x
    rw [mul_den hst m _ vm.1 vinv.1]
    show den m x + den (Pack.pow c (-1)) x = _
    rw [pow_den]; ring
  have hposq : ∀ a ∈ mul MagBase.lt m (Pack.inv c), 0 < a.2 := by
    intro a ha
    have h1 := den_of_mem hst _ vq.1 a ha
    have h2 := hdiv a.1
    rw [← hden, h1] at h2
    exact lt_of_le_of_ne h2 (Ne.symm (vq.2 a ha))
  have hfree : Mag.PiFree (mul MagBase.lt m (Pack.inv c)) := by
    intro a ha
    rcases mem_mul_base m (Pack.inv c) a ha with ⟨z, hz, hz1⟩ | ⟨z, hz, hz1⟩
    · rw [← hz1]; exact fm z hz
    · rw [inv_eq_map] at hz
      obtain ⟨w, hw, rfl⟩ := List.mem_map.1 hz
      rw [← hz1]; exact fc w hw
  obtain ⟨k, hk, hkq⟩ := qval_posInt piv _ q2 q3 hfree hposq
  refine ⟨k, hk, ?_⟩
  have hcpos := qval_pos piv hpi c pc
  rw [q1, j1] at hkq
  have hne : Mag.qval piv c ≠ 0 := ne_of_gt hcpos
  calc Mag.qval piv m = Mag.qval piv m * (Mag.qval piv c)⁻¹ * Mag.qval piv c := by
        rw [_root_.mul_assoc, inv_mul_cancel₀ hne, mul_one]
    _ = (k : Rat) * Mag.qval piv c := by rw [hkq]


/-- A rational magnitude in canonical form: valid pack, integer exponents, positive prime bases, no π. -/
structure Mag.Rational (m : Mag) : Prop where
  valid : Valid MagBase.lt m
  int : Mag.IntExp m
  pos : Mag.PosBases m
  free : Mag.PiFree m

theorem mem_commonAll : ∀ (ms : List Mag), ∀ y ∈ Mag.commonAll ms, ∃ m ∈ ms, y ∈ m
  | [], y, hy => by simp [Mag.commonAll] at hy
  | [a], y, hy => ⟨a, List.mem_cons_self .., by simpa [Mag.commonAll] using hy⟩
  | a :: b :: rest, y, hy => by
    have hy' : y ∈ Mag.common2 a (Mag.commonAll (b :: rest)) := hy
    rcases Mag.mem_common2 a _ y hy' with h | h
    · exact ⟨a, List.mem_cons_self .., h⟩
    · obtain ⟨m, hm, hym⟩ := mem_commonAll (b :: rest) y h
      exact ⟨m, List.mem_cons_of_mem _ hm, hym⟩

theorem commonAll_rational (ms : List Mag) (h : ∀ m ∈ ms, Mag.Rational m) : Mag.Rational (Mag.commonAll ms) where
  valid := Mag.commonAll_valid ms (fun m hm => (h m hm).valid)
  int := fun y hy => by obtain ⟨m, hm, hym⟩ := mem_commonAll ms y hy; exact (h m hm).int y hym
  pos := fun y hy => by obtain ⟨m, hm, hym⟩ := mem_commonAll ms y hy; exact (h m hm).pos y hym
  free := fun y hy => by obtain ⟨m, hm, hym⟩ := mem_commonAll ms y hy; exact (h m hm).free y hym

/-- Value form of `qval_ratio_posInt` for rational magnitudes. -/
theorem rational_ratio_posInt (piv : Rat) (hpi : 0 < piv) (m c : Mag) (hm : Mag.Rational m) (hc : Mag.Rational c)
    (hdiv : ∀ x, 0 ≤ den m x - den c x) :
    ∃ k : Nat, 0 < k ∧ Mag.qval piv m = (k : Rat) * Mag.qval piv c :=
  qval_ratio_posInt piv hpi m c hm.valid hc.valid hm.int hc.int hm.pos hc.pos hm.free hc.free hdiv

end Au

import AuModel.MathFn
import AuProofs.C03
namespace Au.C15
open Au

@[simp] theorem Res.bind_ok {α β : Type} (a : α) (g : α → Res β) : (Res.ok a).bind g = g a := rfl
@[simp] theorem Res.bind_ub {α β : Type} (w : String) (g : α → Res β) : (Res.ub w : Res α).bind g = .ub w := rfl
@[simp] theorem Res.bind_nocompile {α β : Type} (w : String) (g : α → Res β) :
    (Res.nocompile w : Res α).bind g = .nocompile w := rfl

theorem common_self (t : IntTy) : IntTy.common t t = t := by simp [IntTy.common]
theorem uac_self (t : IntTy) : IntTy.uac t t = t.promote := by simp [IntTy.uac]

/-- An integer magnitude has denominator 1. -/
theorem den_of_isInteger (K : Mag) (h : K.isInteger = true) : K.den = 1 := by
  unfold Mag.den
  induction K with
  | nil => rfl
  | cons be t ih =>
    obtain ⟨b, e⟩ := be
    simp only [Mag.isInteger, List.all_cons, Bool.and_eq_true, decide_eq_true_eq] at h
    have ht : Mag.isInteger t = true := by simpa [Mag.isInteger] using h.2
    cases b with
    | pi => simp at h
    | prime p =>
      simp only [Mag.inv, List.map_cons, Mag.num]
      have : ¬ (-e > 0) := by omega
      rw [if_neg this, Nat.one_mul]
      exact ih ht

theorem categorize_one (N : Nat) : categorize N 1 = .intMul := by simp [categorize]

theorem inRange_of_nat (t : IntTy) (ht : t ∈ IntTy.all) (N : Nat) (h : (N : Int) ≤ t.hi) : t.inRange N := by
  have := lo_nonpos t ht
  exact ⟨by omega, h⟩

/-- `apply_magnitude(1, K)` in an integral type, for an integer `K` that fits. -/
theorem applyMagI_one (t : IntTy) (ht : t ∈ IntTy.all) (K : Mag) (hK : K.isInteger = true)
    (hfit : (K.num : Int) ≤ t.hi) : applyMagI t K 1 = .ok (K.num : Int) := by
  unfold applyMagI
  have hcat : categorizeMag K = .intMul := by simp [categorizeMag, hK]
  rw [hcat]
  simp only []
  have hden := den_of_isInteger K hK
  rw [hden]
  have hc : compiles t K.num 1 = true := by
    unfold compiles; rw [categorize_one]; simp only []; exact (gvInt_isSome _ _).2 hfit
  rw [if_pos hc]
  have hp := promote_mem t ht
  have hr : t.inRange (K.num : Int) := inRange_of_nat t ht _ hfit
  have hrp : t.promote.inRange ((1 : Int) * (K.num : Int)) := by
    rw [Int.one_mul]
    have h1 := promote_hi t ht
    have h2 := lo_nonpos _ hp
    exact ⟨by omega, by omega⟩
  have : applyMag t K.num 1 1 = ⟨.ok (K.num : Int), false, false⟩ := by
    unfold applyMag
    rw [categorize_one]
    simp only []
    rw [mulIn_ok _ hp _ _ hrp, Int.one_mul]
    exact finish_ok t ht _ false hr
  rw [this]


theorem wrap_one (t : IntTy) (ht : t ∈ IntTy.all) : t.wrap 1 = 1 := by
  apply wrap_of_inRange t ht
  have := hi_pos t ht; have := lo_nonpos t ht
  exact ⟨by omega, by omega⟩

/-- `UNITY.in<T>(…)` for integral `T` and an integer constant that fits: the constant itself. -/
theorem unityIn_int (t : IntTy) (ht : t ∈ IntTy.all) (K : Mag) (hK : K.isInteger = true)
    (hfit : (K.num : Int) ≤ t.hi) : unityIn (.int t) K = .ok (.i (K.num : Int)) := by
  unfold unityIn
  have hg : (getValueI t K).isSome = true := by
    unfold getValueI; rw [if_pos hK]; exact (gvInt_isSome _ _).2 hfit
  simp only [hg, Bool.not_true, Bool.false_eq_true, if_false]
  unfold convert
  by_cases hE : K.isEmpty = true
  · have : K = [] := List.isEmpty_iff.1 hE
    subst this
    simp [Mag.num]
  · have hE2 : List.isEmpty K = false := by simpa using hE
    simp only [hE2, Bool.false_and, Bool.false_eq_true, if_false]
    simp only [ArithTy.common, common_self, staticCast, Res.bind_ok, wrap_one t ht, applyMagnitude,
      applyMagI_one t ht K hK hfit]
    rw [wrap_of_inRange t ht _ (inRange_of_nat t ht _ hfit)]

theorem lo_eq (t : IntTy) (ht : t ∈ IntTy.all) : t.lo = 0 ∨ t.lo = -t.hi - 1 := by
  rcases all_cases t ht with h | h | h | h | h | h | h | h <;> subst h <;> decide

theorem tdiv_bounds (N x : Int) (hN : 0 ≤ N) : -N ≤ Int.tdiv N x ∧ Int.tdiv N x ≤ N := by
  have h := Int.natAbs_tdiv_le_natAbs N x
  omega

/-- **Explicit-rep inverse, same integral rep.** `inverse_in<T>(target, q)` returns `trunc(K / x)`
with no undefined behaviour whenever the stored value is non-zero. -/
theorem inverseIn_int (t : IntTy) (ht : t ∈ IntTy.all) (K : Mag) (hK : K.isInteger = true)
    (hpos : 0 < K.num) (hfit : (K.num : Int) ≤ t.hi) (x : Int) (hx : t.inRange x) (hx0 : x ≠ 0) :
    inverseIn (.int t) (.int t) K (.i x) = .ok (.i (Int.tdiv (K.num : Int) x)) := by
  unfold inverseIn
  simp only [ArithTy.common, common_self, unityIn_int t ht K hK hfit, Res.bind_ok, divide, uac_self]
  have hp := promote_mem t ht
  have hNr : t.promote.inRange (K.num : Int) := by
    have h1 := promote_hi t ht
    have h2 := lo_nonpos _ hp
    exact ⟨by omega, by omega⟩
  have hxr : t.promote.inRange x := by
    have h1 := promote_hi t ht
    have h2 := promote_lo t ht
    exact ⟨by have := hx.1; omega, by have := hx.2; omega⟩
  rw [wrap_of_inRange _ hp _ hNr, wrap_of_inRange _ hp _ hxr]
  have hlo := lo_nonpos _ hp
  have hne : ¬ ((K.num : Int) = t.promote.lo) := by omega
  have hd : divIn t.promote (K.num : Int) x = ⟨.ok (Int.tdiv (K.num : Int) x), false⟩ := by
    unfold divIn
    simp [hx0, hne]
  rw [hd]
  simp only [Res.bind_ok, staticCast]
  have hb := tdiv_bounds (K.num : Int) x (by omega)
  have hr : t.inRange (Int.tdiv (K.num : Int) x) := by
    rcases lo_eq t ht with h0 | h1
    · -- unsigned: x > 0, quotient non-negative
      have hxpos : 0 < x := by have := hx.1; omega
      have := tdiv_nonneg' (K.num : Int) x hxpos (by omega)
      exact ⟨by omega, by omega⟩
    · exact ⟨by omega, by omega⟩
  rw [wrap_of_inRange t ht _ hr]
/-- The arithmetic heart of the inverse round trip: if `n² ≤ K` then dividing `K` by `⌊K/n⌋` gives
back `n`. -/
theorem div_div_self (K n : Nat) (hn : 0 < n) (h : n * n ≤ K) : K / (K / n) = n := by
  have hq : n ≤ K / n := (Nat.le_div_iff_mul_le hn).2 h
  have hq0 : 0 < K / n := Nat.lt_of_lt_of_le hn hq
  have h1 : n * (K / n) ≤ K := Nat.mul_div_le K n
  have h2 : K < n * (K / n) + n := by
    have := Nat.lt_mul_div_succ K hn
    rw [Nat.mul_succ] at this
    exact this
  apply Nat.div_eq_of_lt_le
  · rw [Nat.mul_comm] at h1; rw [Nat.mul_comm]; exact h1
  · calc K < n * (K / n) + n := h2
      _ ≤ n * (K / n) + K / n := Nat.add_le_add_left hq _
      _ = (n + 1) * (K / n) := by rw [Nat.succ_mul]

end Au.C15

import AuModel.MathFn
import AuProofs.C03
namespace Au.C15
open Au

@[simp] theorem Res.bind_ok {α β : Type} (a : α) (g : α → Res β) : (Res.ok a).bind g = g a := rfl
@[simp] theorem Res.bind_ub {α β : Type} (w : String) (g : α → Res β) : (Res.ub w : Res α).bind g = .ub w := rfl
@[simp] theorem Res.bind_nocompile {α β : Type} (w : String) (g : α → Res β) :
    (Res.nocompile w : Res α).bind g = .nocompile w := rfl

theorem common_self (t : IntTy) : IntTy.common t t = t := by simp [IntTy.common]
theorem uac_self (t : IntTy) : IntTy.uac t t = t.promote := by simp [IntTy.uac]

/-- An integer magnitude has denominator 1. -/
theorem den_of_isInteger (K : Mag) (h : K.isInteger = true) : K.den = 1 := by
  unfold Mag.den
  induction K with
  | nil => rfl
  | cons be t ih =>
    obtain ⟨b, e⟩ := be
    simp only [Mag.isInteger, List.all_cons, Bool.and_eq_true, decide_eq_true_eq] at h
    have ht : Mag.isInteger t = true := by simpa [Mag.isInteger] using h.2
    cases b with
    | pi => simp at h
    | prime p =>
      simp only [Mag.inv, List.map_cons, Mag.num]
      have : ¬ (-e > 0) := by omega
      rw [if_neg this, Nat.one_mul]
      exact ih ht

theorem categorize_one (N : Nat) : categorize N 1 = .intMul := by simp [categorize]

theorem inRange_of_nat (t : IntTy) (ht : t ∈ IntTy.all) (N : Nat) (h : (N : Int) ≤ t.hi) : t.inRange N := by
  have := lo_nonpos t ht
  exact ⟨by omega, h⟩

/-- `apply_magnitude(1, K)` in an integral type, for an integer `K` that fits. -/
theorem applyMagI_one (t : IntTy) (ht : t ∈ IntTy.all) (K : Mag) (hK : K.isInteger = true)
    (hfit : (K.num : Int) ≤ t.hi) : applyMagI t K 1 = .ok (K.num : Int) := by
  unfold applyMagI
  have hcat : categorizeMag K = .intMul := by simp [categorizeMag, hK]
  rw [hcat]
  simp only []
  have hden := den_of_isInteger K hK
  rw [hden]
  have hc : compiles t K.num 1 = true := by
    unfold compiles; rw [categorize_one]; simp only []; exact (gvInt_isSome _ _).2 hfit
  rw [if_pos hc]
  have hp := promote_mem t ht
  have hr : t.inRange (K.num : Int) := inRange_of_nat t ht _ hfit
  have hrp : t.promote.inRange ((1 : Int) * (K.num : Int)) := by
    rw [Int.one_mul]
    have h1 := promote_hi t ht
    have h2 := lo_nonpos _ hp
    exact ⟨by omega, by omega⟩
  have : applyMag t K.num 1 1 = ⟨.ok (K.num : Int), false, false⟩ := by
    unfold applyMag
    rw [categorize_one]
    simp only []
    rw [mulIn_ok _ hp _ _ hrp, Int.one_mul]
    exact finish_ok t ht _ false hr
  rw [this]


theorem wrap_one (t : IntTy) (ht : t ∈ IntTy.all) : t.wrap 1 = 1 := by
  apply wrap_of_inRange t ht
  have := hi_pos t ht; have := lo_nonpos t ht
  exact ⟨by omega, by omega⟩

/-- `UNITY.in<T>(…)` for integral `T` and an integer constant that fits: the constant itself. -/
theorem unityIn_int (t : IntTy) (ht : t ∈ IntTy.all) (K : Mag) (hK : K.isInteger = true)
    (hfit : (K.num : Int) ≤ t.hi) : unityIn (.int t) K = .ok (.i (K.num : Int)) := by
  unfold unityIn
  have hg : (getValueI t K).isSome = true := by
    unfold getValueI; rw [if_pos hK]; exact (gvInt_isSome _ _).2 hfit
  simp only [hg, Bool.not_true, Bool.false_eq_true, if_false]
  unfold convert
  by_cases hE : K.isEmpty = true
  · have : K = [] := List.isEmpty_iff.1 hE
    subst this
    simp [Mag.num]
  · have hE2 : List.isEmpty K = false := by simpa using hE
    simp only [hE2, Bool.false_and, Bool.false_eq_true, if_false]
    simp only [ArithTy.common, common_self, staticCast, Res.bind_ok, wrap_one t ht, applyMagnitude,
      applyMagI_one t ht K hK hfit]
    rw [wrap_of_inRange t ht _ (inRange_of_nat t ht _ hfit)]

theorem lo_eq (t : IntTy) (ht : t ∈ IntTy.all) : t.lo = 0 ∨ t.lo = -t.hi - 1 := by
  rcases all_cases t ht with h | h | h | h | h | h | h | h <;> subst h <;> decide

theorem tdiv_bounds (N x : Int) (hN : 0 ≤ N) : -N ≤ Int.tdiv N x ∧ Int.tdiv N x ≤ N := by
  have h := Int.natAbs_tdiv_le_natAbs N x
  omega

/-- **Explicit-rep inverse, same integral rep.** `inverse_in<T>(target, q)` returns `trunc(K / x)`
with no undefined behaviour whenever the stored value is non-zero. -/
theorem inverseIn_int (t : IntTy) (ht : t ∈ IntTy.all) (K : Mag) (hK : K.isInteger = true)
    (hpos : 0 < K.num) (hfit : (K.num : Int) ≤ t.hi) (x : Int) (hx : t.inRange x) (hx0 : x ≠ 0) :
    inverseIn (.int t) (.int t) K (.i x) = .ok (.i (Int.tdiv (K.num : Int) x)) := by
  unfold inverseIn
  simp only [ArithTy.common, common_self, unityIn_int t ht K hK hfit, Res.bind_ok, divide, uac_self]
  have hp := promote_mem t ht
  have hNr : t.promote.inRange (K.num : Int) := by
    have h1 := promote_hi t ht
    have h2 := lo_nonpos _ hp
    exact ⟨by omega, by omega⟩
  have hxr : t.promote.inRange x := by
    have h1 := promote_hi t ht
    have h2 := promote_lo t ht
    exact ⟨by have := hx.1; omega, by have := hx.2; omega⟩
  rw [wrap_of_inRange _ hp _ hNr, wrap_of_inRange _ hp _ hxr]
  have hlo := lo_nonpos _ hp
  have hne : ¬ ((K.num : Int) = t.promote.lo) := by omega
  have hd : divIn t.promote (K.num : Int) x = ⟨.ok (Int.tdiv (K.num : Int) x), false⟩ := by
    unfold divIn
    simp [hx0, hne]
  rw [hd]
  simp only [Res.bind_ok, staticCast]
  have hb := tdiv_bounds (K.num : Int) x (by omega)
  have hr : t.inRange (Int.tdiv (K.num : Int) x) := by
    rcases lo_eq t ht with h0 | h1
    · -- unsigned: x > 0, quotient non-negative
      have hxpos : 0 < x := by have := hx.1; omega
      have := tdiv_nonneg' (K.num : Int) x hxpos (by omega)
      exact ⟨by omega, by omega⟩
    · exact ⟨by omega, by omega⟩
  rw [wrap_of_inRange t ht _ hr]
/-- The arithmetic heart of the inverse round trip: if `n² ≤ K` then dividing `K` by `⌊K/n⌋` gives
back `n`. -/
theorem div_div_self (K n : Nat) (hn : 0 < n) (h : n * n ≤ K) : K / (K / n) = n := by
  have hq : n ≤ K / n := (Nat.le_div_iff_mul_le hn).2 h
  have hq0 : 0 < K / n := Nat.lt_of_lt_of_le hn hq
  have h1 : n * (K / n) ≤ K := Nat.mul_div_le K n
  have h2 : K < n * (K / n) + n := by
    have := Nat.lt_mul_div_succ K hn
    rw [Nat.mul_succ] at this
    exact this
  apply Nat.div_eq_of_lt_le
  · rw [Nat.mul_comm] at h1; rw [Nat.mul_comm]; exact h1
  · calc K < n * (K / n) + n := h2
      _ ≤ n * (K / n) + K / n := Nat.add_le_add_left hq _
      _ = (n + 1) * (K / n) := by rw [Nat.succ_mul]

/-- Running a conversion plan is `convert` (the driver's batch commands evaluate plans). -/
theorem convert_eq_plan (R N : ArithTy) (m : Mag) (x : Val) :
    convert R N m x = (planConvert R N m).run x := by
  unfold convert ConvPlan.run planConvert
  simp only []
  split
  · rfl
  · cases hsc : staticCast x (R.common N) with
    | ub w => rfl
    | nocompile w => rfl
    | ok v =>
      simp only [Res.bind]
      cases hC : R.common N with
      | int t => rfl
      | flt f =>
        cases v with
        | i n => rfl
        | f y =>
          simp only [applyMagnitude, applyMagF]
          cases magOp f m <;> rfl

theorem prec_pos (f : FltTy) : 0 < f.prec := by cases f <;> decide
theorem prec_le_emax (f : FltTy) : (f.prec : Int) ≤ f.emax + 1 := by cases f <;> decide

theorem ilog2_nat (a : Nat) (ha : a ≠ 0) : ilog2 a 1 = (Nat.log2 a : Int) := by
  unfold ilog2
  have h1 : Nat.log2 1 = 0 := by decide
  simp only [h1]
  have hk : ((Nat.log2 a : Int) - ((0 : Nat) : Int)) = (Nat.log2 a : Int) := by simp
  rw [hk]
  have : pow2Le (Nat.log2 a : Int) a 1 = true := by
    unfold pow2Le
    have h0 : (Nat.log2 a : Int) ≥ 0 := by omega
    simp only [h0, if_true, Int.toNat_natCast, Nat.mul_one, decide_eq_true_eq]
    exact Nat.log2_self_le ha
  rw [this]; rfl

/-- Dividing `a` by `2^ex` with `ex ≤ 0` and a unit denominator is exact. -/
theorem roundHalfEven_nonpos (a : Nat) (j : Nat) : roundHalfEven a 1 (-(j : Int)) = a * 2 ^ j := by
  unfold roundHalfEven
  by_cases hj : j = 0
  · subst hj; simp [Nat.mod_one]
  · have h1 : ¬ (-(j : Int) ≥ 0) := by omega
    simp only [h1, if_false, Int.neg_neg, Int.toNat_natCast, Nat.div_one, Nat.mod_one]
    simp

theorem pow2_neg_nat (j : Nat) : pow2 (-(j : Int)) = 1 / ((2 ^ j : Nat) : Rat) := by
  unfold pow2
  by_cases hj : j = 0
  · subst hj; decide +kernel
  · have h1 : ¬ (-(j : Int) ≥ 0) := by omega
    rw [if_neg h1]; simp

theorem pow2_nat (j : Nat) : pow2 (j : Int) = ((2 ^ j : Nat) : Rat) := by
  unfold pow2
  have h1 : (j : Int) ≥ 0 := by omega
  simp [h1]

theorem scale_back (a j : Nat) : ((a * 2 ^ j : Nat) : Rat) * (1 / ((2 ^ j : Nat) : Rat)) = (a : Rat) := by
  have hne : ((2 ^ j : Nat) : Rat) ≠ 0 := by
    intro h
    have : (2 ^ j : Nat) = 0 := by exact_mod_cast h
    have := Nat.two_pow_pos j
    omega
  rw [Rat.natCast_mul, Rat.div_def, Rat.one_mul, Rat.mul_assoc, Rat.mul_inv_cancel _ hne, Rat.mul_one]

/-- A positive integer below `2^p` is represented exactly. -/
theorem rnePos_nat (f : FltTy) (a : Nat) (ha : a ≠ 0) (hlt : a < 2 ^ f.prec) :
    rnePos f a 1 = some (a : Rat) := by
  unfold rnePos
  rw [ilog2_nat a ha]
  have hl : Nat.log2 a < f.prec := (Nat.log2_lt ha).2 hlt
  have hp := prec_le_emax f
  have hp0 := prec_pos f
  have he1 : 1 ≤ f.emax := by cases f <;> decide
  -- the quantum exponent is non-positive
  obtain ⟨j, hj⟩ : ∃ j : Nat, max ((Nat.log2 a : Int) - (f.prec : Int) + 1) (1 - f.emax - (f.prec : Int) + 1) = -(j : Int) := by
    refine ⟨(-(max ((Nat.log2 a : Int) - (f.prec : Int) + 1) (1 - f.emax - (f.prec : Int) + 1))).toNat, ?_⟩
    have : max ((Nat.log2 a : Int) - (f.prec : Int) + 1) (1 - f.emax - (f.prec : Int) + 1) ≤ 0 := by
      apply Int.max_le.2; constructor <;> omega
    omega
  simp only [hj, roundHalfEven_nonpos, pow2_neg_nat, scale_back]
  have hnot : ¬ ((a : Rat) ≥ pow2 (f.emax + 1)) := by
    have he : f.emax + 1 = ((f.emax + 1).toNat : Int) := by
      have : 0 ≤ f.emax + 1 := by cases f <;> decide
      omega
    rw [he, pow2_nat]
    intro h
    have h' : 2 ^ (f.emax + 1).toNat ≤ a := Rat.natCast_le_natCast.1 h
    have hpe : f.prec ≤ (f.emax + 1).toNat := by omega
    have : 2 ^ f.prec ≤ 2 ^ (f.emax + 1).toNat := Nat.pow_le_pow_right (by decide) hpe
    omega
  simp [hnot]

/-- **Integers below `2^p` in absolute value convert exactly** (`static_cast<double>(int)` etc.). -/
theorem rne_int_exact (f : FltTy) (n : Int) (h : n.natAbs < 2 ^ f.prec) : rne f (n : Rat) = .fin (n : Rat) := by
  unfold rne
  by_cases h0 : n = 0
  · subst h0; simp
  · have hq0 : ¬ ((n : Rat) = 0) := by
      intro h'; apply h0; exact_mod_cast h'
    simp only [hq0, if_false, Rat.num_intCast, Rat.den_intCast]
    by_cases hpos : (n : Rat) > 0
    · have hn : 0 < n := by exact_mod_cast hpos
      simp only [hpos, if_true]
      have hto : n.toNat = n.natAbs := by omega
      rw [hto, rnePos_nat f n.natAbs (by omega) h]
      have : ((n.natAbs : Nat) : Rat) = (n : Rat) := by
        have : ((n.natAbs : Nat) : Int) = n := by omega
        rw [← Rat.intCast_natCast, this]
      simp [this]
    · have hn : n < 0 := by
        have : ¬ (0 < n) := by intro h'; apply hpos; exact_mod_cast h'
        omega
      simp only [hpos, if_false]
      have hto : (-n).toNat = n.natAbs := by omega
      rw [hto, rnePos_nat f n.natAbs (by omega) h]
      have : -((n.natAbs : Nat) : Rat) = (n : Rat) := by
        have : ((n.natAbs : Nat) : Int) = -n := by omega
        rw [← Rat.intCast_natCast, this, Rat.intCast_neg, Rat.neg_neg]
      simp [this]


theorem fnApply_int (fn : RFn) (z : Int) : fn.apply (.fin (z : Rat)) = .fin (z : Rat) := by
  cases fn with
  | floor => simp [RFn.apply, FVal.floor, Rat.floor_intCast]
  | ceil =>
    simp only [RFn.apply, FVal.ceil]
    have : -(z : Rat) = ((-z : Int) : Rat) := by simp [Rat.intCast_neg]
    rw [this, Rat.floor_intCast]; simp
  | round =>
    simp only [RFn.apply, FVal.round]
    have hhalf : ((1 : Rat) / 2).floor = 0 := by decide +kernel
    by_cases hz : (z : Rat) ≥ 0
    · simp only [hz, if_true]
      have : ((z : Rat) + 1 / 2) = (1 / 2 : Rat) + (z : Rat) := Rat.add_comm _ _
      rw [this, Rat.floor_add_intCast, hhalf]; simp
    · simp only [hz, if_false]
      have e : -(z : Rat) + 1 / 2 = (1 / 2 : Rat) + ((-z : Int) : Rat) := by
        rw [Rat.intCast_neg, Rat.add_comm]
      rw [e, Rat.floor_add_intCast, hhalf]; simp

/-- **Integral input, integer ratio, exact conversion.**  If the compile-time constant
`get_value<double>(K)` is the integer `N` and both `x` and `x·N` are below `2^53` in absolute
value, then `round_in / floor_in / ceil_in` return exactly `x·N` (every step of the pipeline is
exact). -/
theorem roundIn_int_mul_exact (fn : RFn) (t : IntTy) (K : Mag) (N : Nat) (hK : K.isInteger = true)
    (hgv : getValueF .f64 K = some (.fin (N : Rat))) (x : Int)
    (hx : x.natAbs < 2 ^ 53) (hxn : (x * N).natAbs < 2 ^ 53) :
    roundIn fn (.int t) K (.i x) = .ok (.fin ((x * N : Int) : Rat)) := by
  have hp : FltTy.f64.prec = 53 := rfl
  have e1 : rne .f64 (x : Rat) = .fin (x : Rat) := rne_int_exact .f64 x (by rw [hp]; exact hx)
  have e2 : rne .f64 (((x * N : Int)) : Rat) = .fin ((x * N : Int) : Rat) := rne_int_exact .f64 _ (by rw [hp]; exact hxn)
  have hmul : (x : Rat) * (N : Rat) = ((x * N : Int) : Rat) := by
    rw [Rat.intCast_mul, Rat.intCast_natCast]
  have hcat : categorizeMag K = .intMul := by simp [categorizeMag, hK]
  have hconv : convert (.int t) (.flt .f64) K (.i x) = .ok (.f (.fin ((x * N : Int) : Rat))) := by
    unfold convert
    have hdec : (K.isEmpty && decide (ArithTy.int t = ArithTy.flt FltTy.f64)) = false := by simp
    simp only [hdec, Bool.false_eq_true, if_false, ArithTy.common, staticCast, Res.bind_ok, e1, applyMagnitude, applyMagF,
      magOp, hcat, hgv, FOp.apply, FVal.mul, hmul, e2, FVal.toFlt]
  unfold roundIn roundArg
  simp only [roundingRep, hconv, Res.bind_ok, fnApply_int]

/-- Same unit (`round_in(meters, meters(n))`): the result is `n` itself. -/
theorem roundIn_int_sameunit (fn : RFn) (t : IntTy) (x : Int) (hx : x.natAbs < 2 ^ 53) :
    roundIn fn (.int t) [] (.i x) = .ok (.fin (x : Rat)) := by
  have := roundIn_int_mul_exact fn t [] 1 rfl rfl x hx (by simpa using hx)
  simpa using this
/-- "The conversion of `x : t` to the rep `C` and the unit with integer ratio `m` is clean": the
common type of `t` and `C` is `C`, the ratio is an integer that fits `C`, the stored value keeps its
value in `C` (no wrap on the rep cast) and the scaled value is in range of `C` (no overflow, no
narrowing). -/
def CleanConv (t C : IntTy) (m : Mag) (x : Int) : Prop :=
  C ∈ IntTy.all ∧ IntTy.common t C = C ∧ m.isInteger = true ∧ (m.num : Int) ≤ C.hi ∧ C.inRange x ∧
    C.inRange (x * (m.num : Int))

/-- `apply_magnitude(x, K)` in an integral type, for an integer `K` that fits and a product in range. -/
theorem applyMagI_int (t : IntTy) (ht : t ∈ IntTy.all) (K : Mag) (hK : K.isInteger = true)
    (hfit : (K.num : Int) ≤ t.hi) (x : Int) (hxn : t.inRange (x * (K.num : Int))) :
    applyMagI t K x = .ok (x * (K.num : Int)) := by
  unfold applyMagI
  have hcat : categorizeMag K = .intMul := by simp [categorizeMag, hK]
  rw [hcat]
  simp only []
  rw [den_of_isInteger K hK]
  have hc : compiles t K.num 1 = true := by
    unfold compiles; rw [categorize_one]; simp only []; exact (gvInt_isSome _ _).2 hfit
  rw [if_pos hc]
  have hp := promote_mem t ht
  have hrp : t.promote.inRange (x * (K.num : Int)) := by
    have h1 := promote_hi t ht
    have h2 := promote_lo t ht
    exact ⟨by have := hxn.1; omega, by have := hxn.2; omega⟩
  have : applyMag t K.num 1 x = ⟨.ok (x * (K.num : Int)), false, false⟩ := by
    unfold applyMag
    rw [categorize_one]
    simp only []
    rw [mulIn_ok _ hp _ _ hrp]
    exact finish_ok t ht _ false hxn
  rw [this]

/-- `q.as<C>(unit)` / `ResultT{q}` on a clean integral conversion returns the exact scaled value. -/
theorem construct_clean (t C : IntTy) (m : Mag) (x : Int) (h : CleanConv t C m x) :
    construct (.int t) (.int C) m (.i x) = .ok (.i (x * (m.num : Int))) := by
  obtain ⟨hC, hcm, hm, hfit, hx, hxn⟩ := h
  unfold construct
  simp only [ArithTy.common, hcm, staticCast, Res.bind_ok, wrap_of_inRange C hC x hx, applyMagnitude,
    applyMagI_int C hC m hm hfit x hxn, wrap_of_inRange C hC _ hxn]

theorem hi_ge_one (t : IntTy) (ht : t ∈ IntTy.all) : (1 : Int) ≤ t.hi := by
  have := hi_pos t ht; omega

/-- `detail::cast_to_common_type<C>(q)` on a clean integral conversion. -/
theorem toCommon_clean (t C : IntTy) (m : Mag) (x : Int) (h : CleanConv t C m x) :
    toCommon (.int t) (.int C) m (.i x) = .ok (.i (x * (m.num : Int))) := by
  obtain ⟨hC, hcm, hm, hfit, hx, hxn⟩ := h
  unfold toCommon
  have h1 : CleanConv t C [] x :=
    ⟨hC, hcm, rfl, by simpa [Mag.num] using hi_ge_one C hC, hx, by simpa [Mag.num] using hx⟩
  rw [construct_clean t C [] x h1]
  simp only [Res.bind_ok, Mag.num, Int.natCast_one, Int.mul_one]
  exact construct_clean C C m x ⟨hC, common_self C, hm, hfit, hx, hxn⟩

/-- `std::common_type` absorbs: the common type of an operand's rep with the common rep is the common rep. -/
theorem common_absorb_left (t1 t2 : IntTy) (h1 : t1 ∈ IntTy.all) (h2 : t2 ∈ IntTy.all) :
    IntTy.common t1 (IntTy.common t1 t2) = IntTy.common t1 t2 := by
  rcases all_cases t1 h1 with h | h | h | h | h | h | h | h <;> subst h <;>
    rcases all_cases t2 h2 with h | h | h | h | h | h | h | h <;> subst h <;> decide

theorem common_absorb_right (t1 t2 : IntTy) (h1 : t1 ∈ IntTy.all) (h2 : t2 ∈ IntTy.all) :
    IntTy.common t2 (IntTy.common t1 t2) = IntTy.common t1 t2 := by
  rcases all_cases t1 h1 with h | h | h | h | h | h | h | h <;> subst h <;>
    rcases all_cases t2 h2 with h | h | h | h | h | h | h | h <;> subst h <;> decide

theorem common_mem (t1 t2 : IntTy) (h1 : t1 ∈ IntTy.all) (h2 : t2 ∈ IntTy.all) :
    IntTy.common t1 t2 ∈ IntTy.all := by
  rcases all_cases t1 h1 with h | h | h | h | h | h | h | h <;> subst h <;>
    rcases all_cases t2 h2 with h | h | h | h | h | h | h | h <;> subst h <;> decide

end Au.C15

/-
  AuProofs.Lemmas.Mixed — evaluation lemmas for `AuModel.Mixed` (core Lean only).
-/
import AuModel.Mixed
import AuProofs.C03
namespace Au
open IntTy Mixed

theorem common_facts : ∀ r1 ∈ IntTy.all, ∀ r2 ∈ IntTy.all, r1.signed = r2.signed →
    (IntTy.common r1 r2 ∈ IntTy.all ∧ (IntTy.common r1 r2).lo ≤ r1.lo ∧ r1.hi ≤ (IntTy.common r1 r2).hi ∧
     (IntTy.common r1 r2).lo ≤ r2.lo ∧ r2.hi ≤ (IntTy.common r1 r2).hi ∧
     IntTy.common r1 (IntTy.common r1 r2) = IntTy.common r1 r2 ∧
     IntTy.common r2 (IntTy.common r1 r2) = IntTy.common r1 r2 ∧
     IntTy.common (IntTy.common r1 r2) (IntTy.common r1 r2) = IntTy.common r1 r2 ∧
     IntTy.common r2 r1 = IntTy.common r1 r2) := by
  decide

theorem uac_facts : ∀ r1 ∈ IntTy.all, ∀ r2 ∈ IntTy.all, r1.signed = r2.signed →
    (IntTy.uac r1 r2 ∈ IntTy.all ∧ (IntTy.uac r1 r2).lo ≤ r1.lo ∧ r1.hi ≤ (IntTy.uac r1 r2).hi ∧
     (IntTy.uac r1 r2).lo ≤ r2.lo ∧ r2.hi ≤ (IntTy.uac r1 r2).hi ∧ IntTy.common r1 r1 = r1 ∧ IntTy.common r2 r2 = r2) := by
  decide

theorem inRange_mono {a b : IntTy} {v : Int} (hlo : b.lo ≤ a.lo) (hhi : a.hi ≤ b.hi) (h : a.inRange v) :
    b.inRange v := by
  unfold IntTy.inRange at *; omega

namespace Mixed

theorem staticCast_ok (t : IntTy) (ht : t ∈ IntTy.all) (v : Int) (h : t.inRange v) :
    staticCast t v = ⟨.ok v, false, false⟩ := by
  unfold staticCast
  simp [wrap_of_inRange t ht v h]

theorem andThen_ok (v : Int) (f : Int → ApplyResult) :
    andThen ⟨.ok v, false, false⟩ f = f v := by
  unfold andThen; simp

/-- `apply_magnitude(v, k)` for an integer factor: exact whenever the product fits `t`. -/
theorem applyMag_int_ok (t : IntTy) (ht : t ∈ IntTy.all) (k : Nat) (v : Int)
    (h : t.inRange (v * k)) : applyMag t k 1 v = ⟨.ok (v * k), false, false⟩ := by
  have hp := promote_mem t ht
  have hpr : t.promote.inRange (v * k) := inRange_mono (promote_lo t ht) (promote_hi t ht) h
  unfold applyMag
  have hc : categorize k 1 = .intMul := by unfold categorize; simp
  rw [hc]
  simp only []
  rw [mulIn_ok _ hp _ _ hpr]
  exact finish_ok t ht _ false h

/-- `q.as<n>(unit)` with integer ratio `k`, when every intermediate is representable. -/
theorem asRep_ok (r n : IntTy) (hc : IntTy.common r n ∈ IntTy.all) (hn : n ∈ IntTy.all) (k : Nat) (v : Int)
    (h1 : (IntTy.common r n).inRange v) (h2 : (IntTy.common r n).inRange (v * k)) (h3 : n.inRange (v * k)) :
    asRep r n k v = ⟨.ok (v * k), false, false⟩ := by
  unfold asRep
  simp only []
  rw [staticCast_ok _ hc v h1, andThen_ok, applyMag_int_ok _ hc k v h2, andThen_ok, staticCast_ok _ hn _ h3]

/-- `cast_to_common_type`: exact whenever the scaled value fits the common rep. -/
theorem castToCommon_ok (r1 r2 : IntTy) (h1 : r1 ∈ IntTy.all) (h2 : r2 ∈ IntTy.all) (hs : r1.signed = r2.signed)
    (k : Nat) (v : Int) (hv : r1.inRange v) (hf : (IntTy.common r1 r2).inRange (v * k)) :
    castToCommon r1 (IntTy.common r1 r2) k v = ⟨.ok (v * k), false, false⟩ := by
  obtain ⟨hc, hlo, hhi, _, _, hcc, _, hccc, _⟩ := common_facts r1 h1 r2 h2 hs
  have hvc : (IntTy.common r1 r2).inRange v := inRange_mono hlo hhi hv
  unfold castToCommon repCast
  have e1 : asRep r1 (IntTy.common r1 r2) 1 v = ⟨.ok v, false, false⟩ := by
    have := asRep_ok r1 (IntTy.common r1 r2) (by rw [hcc]; exact hc) hc 1 v (by rw [hcc]; exact hvc)
      (by rw [hcc]; simpa using hvc) (by simpa using hvc)
    simpa using this
  rw [e1, andThen_ok]
  exact asRep_ok _ _ (by rw [hccc]; exact hc) hc k v (by rw [hccc]; exact hvc) (by rw [hccc]; exact hf) hf

theorem castToCommon_ok' (r1 r2 : IntTy) (h1 : r1 ∈ IntTy.all) (h2 : r2 ∈ IntTy.all) (hs : r1.signed = r2.signed)
    (k : Nat) (v : Int) (hv : r2.inRange v) (hf : (IntTy.common r1 r2).inRange (v * k)) :
    castToCommon r2 (IntTy.common r1 r2) k v = ⟨.ok (v * k), false, false⟩ := by
  obtain ⟨_, _, _, _, _, _, _, _, hsym⟩ := common_facts r1 h1 r2 h2 hs
  have := castToCommon_ok r2 r1 h2 h1 hs.symm k v hv (by rw [hsym]; exact hf)
  rw [hsym] at this
  exact this

/-- `using_common_type`: inside the scope both operands arrive as the exact scaled integers. -/
theorem usingCommon_ok {α : Type} (r1 r2 : IntTy) (h1 : r1 ∈ IntTy.all) (h2 : r2 ∈ IntTy.all)
    (hs : r1.signed = r2.signed) (k1 k2 : Nat) (v1 v2 : Int) (hv1 : r1.inRange v1) (hv2 : r2.inRange v2)
    (hf : FitsCommon r1 r2 k1 k2 v1 v2) (f : IntTy → Int → Int → Res α) :
    usingCommon r1 r2 k1 k2 v1 v2 f =
      ⟨(f (IntTy.common r1 r2) (v1 * k1) (v2 * k2)).val, (f (IntTy.common r1 r2) (v1 * k1) (v2 * k2)).wrapped,
       (f (IntTy.common r1 r2) (v1 * k1) (v2 * k2)).narrowed⟩ := by
  unfold usingCommon
  simp only []
  rw [castToCommon_ok r1 r2 h1 h2 hs k1 v1 hv1 hf.1, castToCommon_ok' r1 r2 h1 h2 hs k2 v2 hv2 hf.2]
  simp

/-- `q.in(unit)` in the own rep. -/
theorem inUnit_ok (r : IntTy) (hr : r ∈ IntTy.all) (k : Nat) (v : Int) (hv : r.inRange v)
    (hf : r.inRange (v * k)) : inUnit r k v = ⟨.ok (v * k), false, false⟩ := by
  unfold inUnit
  by_cases hk : k = 1
  · subst hk; simp
  · rw [if_neg hk]
    have hrr : IntTy.common r r = r := by unfold IntTy.common; simp
    exact asRep_ok r r (by rw [hrr]; exact hr) hr k v (by rw [hrr]; exact hv) (by rw [hrr]; exact hf) hf

/-- `rep_cast<C>(q)` into the common rep of two reps of equal signedness is exact. -/
theorem repCast_to_common_ok (r1 r2 : IntTy) (h1 : r1 ∈ IntTy.all) (h2 : r2 ∈ IntTy.all) (hs : r1.signed = r2.signed)
    (v : Int) (hv : r1.inRange v) : repCast r1 (IntTy.common r1 r2) v = ⟨.ok v, false, false⟩ := by
  obtain ⟨hc, hlo, hhi, _, _, hcc, _, _, _⟩ := common_facts r1 h1 r2 h2 hs
  have hvc : (IntTy.common r1 r2).inRange v := inRange_mono hlo hhi hv
  unfold repCast
  have := asRep_ok r1 (IntTy.common r1 r2) (by rw [hcc]; exact hc) hc 1 v (by rw [hcc]; exact hvc)
    (by rw [hcc]; simpa using hvc) (by simpa using hvc)
  simpa using this

theorem repCast_to_common_ok' (r1 r2 : IntTy) (h1 : r1 ∈ IntTy.all) (h2 : r2 ∈ IntTy.all) (hs : r1.signed = r2.signed)
    (v : Int) (hv : r2.inRange v) : repCast r2 (IntTy.common r1 r2) v = ⟨.ok v, false, false⟩ := by
  obtain ⟨_, _, _, _, _, _, _, _, hsym⟩ := common_facts r1 h1 r2 h2 hs
  have := repCast_to_common_ok r2 r1 h2 h1 hs.symm v hv
  rw [hsym] at this
  exact this

/-- `%` / `<=>`: inside the scope both operands of the built-in operator are the exact scaled integers. -/
theorem usingRepCast_ok {α : Type} (r1 r2 : IntTy) (h1 : r1 ∈ IntTy.all) (h2 : r2 ∈ IntTy.all)
    (hs : r1.signed = r2.signed) (k1 k2 : Nat) (v1 v2 : Int) (hv1 : r1.inRange v1) (hv2 : r2.inRange v2)
    (hf : FitsCommon r1 r2 k1 k2 v1 v2) (f : IntTy → Int → Int → Res α) :
    usingRepCast r1 r2 k1 k2 v1 v2 f =
      ⟨(f (modRep r1 r2) (v1 * k1) (v2 * k2)).val, (f (modRep r1 r2) (v1 * k1) (v2 * k2)).wrapped,
       (f (modRep r1 r2) (v1 * k1) (v2 * k2)).narrowed⟩ := by
  obtain ⟨hc, hlo1, hhi1, hlo2, hhi2, _⟩ := common_facts r1 h1 r2 h2 hs
  obtain ⟨hp, hplo, hphi, _, _, _, _⟩ := uac_facts _ hc _ hc rfl
  unfold usingRepCast modRep
  simp only []
  rw [repCast_to_common_ok r1 r2 h1 h2 hs v1 hv1, repCast_to_common_ok' r1 r2 h1 h2 hs v2 hv2, andThen_ok, andThen_ok,
    inUnit_ok _ hc k1 v1 (inRange_mono hlo1 hhi1 hv1) hf.1, inUnit_ok _ hc k2 v2 (inRange_mono hlo2 hhi2 hv2) hf.2]
  have w1 := wrap_of_inRange _ hp _ (inRange_mono hplo hphi hf.1)
  have w2 := wrap_of_inRange _ hp _ (inRange_mono hplo hphi hf.2)
  simp [w1, w2]

/-- Own-rep scope implies common-rep scope (equal signedness). -/
theorem fitsCommon_of_fitsOwn (r1 r2 : IntTy) (h1 : r1 ∈ IntTy.all) (h2 : r2 ∈ IntTy.all)
    (hs : r1.signed = r2.signed) (k1 k2 : Nat) (v1 v2 : Int) (hf : FitsOwn r1 r2 k1 k2 v1 v2) :
    FitsCommon r1 r2 k1 k2 v1 v2 := by
  obtain ⟨_, hlo1, hhi1, hlo2, hhi2, _⟩ := common_facts r1 h1 r2 h2 hs
  exact ⟨inRange_mono hlo1 hhi1 hf.1, inRange_mono hlo2 hhi2 hf.2⟩

/-! ### The operations are functions of the operand pair (used by the driver's window digests) -/

theorem cmp_val (op : CmpOp) (r1 r2 : IntTy) (k1 k2 : Nat) (v1 v2 : Int) :
    (cmp op r1 r2 k1 k2 v1 v2).val =
      match (commonPair r1 r2 k1 k2 v1 v2).val with
      | .ok (x, y) => .ok (op.eval x y)
      | .ub w => .ub w := by
  unfold cmp commonPair usingCommon
  simp only []
  split <;> simp_all

theorem add_val (r1 r2 : IntTy) (k1 k2 : Nat) (v1 v2 : Int) :
    (add r1 r2 k1 k2 v1 v2).val =
      match (commonPair r1 r2 k1 k2 v1 v2).val with
      | .ok (x, y) => (addIn (IntTy.common r1 r2).promote x y).val
      | .ub w => .ub w := by
  unfold add commonPair usingCommon
  simp only []
  split <;> simp_all

theorem sub_val (r1 r2 : IntTy) (k1 k2 : Nat) (v1 v2 : Int) :
    (sub r1 r2 k1 k2 v1 v2).val =
      match (commonPair r1 r2 k1 k2 v1 v2).val with
      | .ok (x, y) => (subIn (IntTy.common r1 r2).promote x y).val
      | .ub w => .ub w := by
  unfold sub commonPair usingCommon
  simp only []
  split <;> simp_all

theorem mod_val (r1 r2 : IntTy) (k1 k2 : Nat) (v1 v2 : Int) :
    (mod r1 r2 k1 k2 v1 v2).val =
      match (repCastPair r1 r2 k1 k2 v1 v2).val with
      | .ok (x, y) => (modIn (modRep r1 r2) x y).val
      | .ub w => .ub w := by
  unfold mod repCastPair usingRepCast modRep
  simp only []
  split <;> simp_all

theorem spaceship_val (r1 r2 : IntTy) (k1 k2 : Nat) (v1 v2 : Int) :
    (spaceship r1 r2 k1 k2 v1 v2).val =
      match (repCastPair r1 r2 k1 k2 v1 v2).val with
      | .ok (x, y) => .ok (compare x y)
      | .ub w => .ub w := by
  unfold spaceship repCastPair usingRepCast
  simp only []
  split <;> simp_all

end Mixed
end Au

/-
  Lemmas about AuModel.Mod: the wrapping operations are exact below 2^64, `bind` of a clean value.
-/
import AuModel.Mod
import Mathlib.Tactic.Ring
import Mathlib.Tactic.Linarith
import Mathlib.Data.Nat.ModEq
namespace Au
namespace U64

theorem M_eq : M = 2 ^ 64 := by decide
theorem maxU_eq : maxU = M - 1 := by decide

@[simp] theorem ok_bind {α β : Type} (a : α) (f : α → W β) : (W.ok a >>= f) = f a := by
  show (⟨(f a).val, false || (f a).wrapped, false || (f a).divz, false || (f a).stuck⟩ : W β) = f a
  simp

@[simp] theorem pure_bind' {α β : Type} (a : α) (f : α → W β) : ((pure a : W α) >>= f) = f a := ok_bind a f

theorem pure_eq_ok {α : Type} (a : α) : (pure a : W α) = W.ok a := rfl

theorem add_ok {a b : Nat} (h : a + b < M) : add a b = W.ok (a + b) := by
  unfold add
  rw [Nat.mod_eq_of_lt h]
  simp [Nat.not_le.2 h]

theorem sub_ok {a b : Nat} (hb : b ≤ a) (ha : a < M) : sub a b = W.ok (a - b) := by
  unfold sub
  have h1 : a + M - b = (a - b) + M := by omega
  rw [h1, Nat.add_mod_right, Nat.mod_eq_of_lt (by omega)]
  simp [Nat.not_lt.2 hb]

theorem mul_ok {a b : Nat} (h : a * b < M) : mul a b = W.ok (a * b) := by
  unfold mul
  rw [Nat.mod_eq_of_lt h]
  simp [Nat.not_le.2 h]

theorem div_ok {a b : Nat} (h : 0 < b) : div a b = W.ok (a / b) := by
  unfold div
  simp [Nat.pos_iff_ne_zero.1 h]

theorem mod_ok {a b : Nat} (h : 0 < b) : mod a b = W.ok (a % b) := by
  unfold mod
  simp [Nat.pos_iff_ne_zero.1 h]

/-- `add_mod` under a slightly weaker precondition than documented (`a ≤ n`): `mul_mod` calls it
with `chunk_result = n - 0 = n`. -/
theorem addMod_spec' {a b n : Nat} (ha : a ≤ n) (hb : b < n) (hn : n < M) :
    addMod a b n = W.ok ((a + b) % n) := by
  unfold addMod
  rw [sub_ok (Nat.le_of_lt hb) hn, ok_bind]
  by_cases h : a ≥ n - b
  · rw [if_pos h, sub_ok h (by omega)]
    have h2 : a + b = (a - (n - b)) + n := by omega
    rw [h2, Nat.add_mod_right, Nat.mod_eq_of_lt (by omega)]
  · rw [if_neg h, add_ok (by omega), Nat.mod_eq_of_lt (by omega)]

theorem subMod_spec' {a b n : Nat} (ha : a < n) (hb : b < n) (hn : n < M) :
    subMod a b n = W.ok ((a + (n - b)) % n) := by
  unfold subMod
  by_cases h : a ≥ b
  · simp only [if_pos h]
    rw [sub_ok h (by omega)]
    have h2 : a + (n - b) = (a - b) + n := by omega
    rw [h2, Nat.add_mod_right, Nat.mod_eq_of_lt (by omega)]
  · simp only [if_neg h]
    rw [sub_ok (by omega) (by omega), ok_bind, sub_ok (by omega) hn]
    have h2 : a + (n - b) = n - (b - a) := by omega
    rw [h2, Nat.mod_eq_of_lt (by omega)]

theorem M_pos : 0 < M := by decide

theorem fast_no_wrap {a b : Nat} (h : b = 0 ∨ a < maxU / b) : a * b < M := by
  rcases h with h | h
  · subst h; simp [M_pos]
  · have h1 : maxU / b * b ≤ maxU := Nat.div_mul_le_self maxU b
    have h2 : (a + 1) * b ≤ maxU / b * b := Nat.mul_le_mul_right b h
    have h3 : maxU < M := by decide
    have h4 : (a + 1) * b = a * b + b := by ring
    omega

theorem chunk_arith (a b n q c l r : Nat) (hq : a * q ≤ n) (hb : b = c * q + l)
    (hr : r = (n - a * q) * c % n) (hrn : r ≤ n) :
    (n - r + a * l % n) % n = a * b % n := by
  have h1 : a * b + (n - a * q) * c = c * n + a * l := by
    subst hb
    have : (n - a * q) * c = n * c - a * q * c := Nat.sub_mul n (a * q) c
    have h5 : a * q * c ≤ n * c := Nat.mul_le_mul_right c hq
    rw [this]
    have : a * (c * q + l) = a * q * c + a * l := by ring
    rw [this]
    have : c * n = n * c := Nat.mul_comm c n
    omega
  have h2 : (n - r + a * l % n) + (n - a * q) * c ≡ a * b + (n - a * q) * c [MOD n] := by
    rw [h1]
    have e1 : (n - r + a * l % n) + (n - a * q) * c ≡ (n - r + a * l) + r [MOD n] := by
      apply Nat.ModEq.add
      · exact Nat.ModEq.add_left _ (Nat.mod_modEq _ _)
      · rw [hr]; exact (Nat.mod_modEq _ _).symm
    have e2 : (n - r + a * l) + r = n + a * l := by omega
    rw [e2] at e1
    refine e1.trans ?_
    show (n + a * l) % n = (c * n + a * l) % n
    rw [Nat.add_mod_left, Nat.add_comm (c * n), Nat.add_mul_mod_self_right]
  exact Nat.ModEq.add_right_cancel' _ h2

theorem mulModF_spec (fuel : Nat) : ∀ (a b n : Nat), a ≤ fuel → a < n → b < n → n < M →
    mulModF fuel a b n = W.ok (a * b % n) := by
  induction fuel with
  | zero =>
    intro a b n ha han hbn hn
    have ha0 : a = 0 := by omega
    subst ha0
    unfold mulModF
    have hc : b = 0 ∨ 0 < maxU / b := by
      by_cases hb : b = 0
      · left; exact hb
      · right
        apply Nat.div_pos
        · have : M = maxU + 1 := by decide
          omega
        · omega
    rw [if_pos hc, mul_ok (by simp [M_pos]), ok_bind, mod_ok (by omega)]
  | succ f ih =>
    intro a b n ha han hbn hn
    unfold mulModF
    by_cases hc : b = 0 ∨ a < maxU / b
    · rw [if_pos hc, mul_ok (fast_no_wrap hc), ok_bind, mod_ok (by omega)]
    · rw [if_neg hc]
      simp only []
      have hb0 : b ≠ 0 := fun h => hc (Or.inl h)
      have hab : maxU / b ≤ a := Nat.le_of_not_lt (fun h => hc (Or.inr h))
      have hbM : b ≤ maxU := by
        have : M = maxU + 1 := by decide
        omega
      have ha1 : 0 < a := Nat.lt_of_lt_of_le (Nat.div_pos hbM (by omega)) hab
      have hq1 : 0 < n / a := Nat.div_pos (Nat.le_of_lt han) ha1
      have hq : a * (n / a) ≤ n := Nat.mul_div_le n a
      have hneg : n - a * (n / a) = n % a := by
        have := Nat.div_add_mod n a
        omega
      have hnegf : n - a * (n / a) ≤ f := by
        rw [hneg]
        have := Nat.mod_lt n ha1
        omega
      have hnegn : n - a * (n / a) < n := by
        have : a * 1 ≤ a * (n / a) := Nat.mul_le_mul_left a hq1
        omega
      have hc_le : b / (n / a) ≤ b := Nat.div_le_self _ _
      have hcq : b / (n / a) * (n / a) ≤ b := Nat.div_mul_le_self _ _
      have hl : b - b / (n / a) * (n / a) = b % (n / a) := by
        have := Nat.div_add_mod b (n / a)
        have : n / a * (b / (n / a)) = b / (n / a) * (n / a) := Nat.mul_comm _ _
        omega
      have hllt : b % (n / a) < n / a := Nat.mod_lt _ hq1
      have hal : a * (b % (n / a)) < n := by
        have : a * (b % (n / a) + 1) ≤ a * (n / a) := Nat.mul_le_mul_left a hllt
        have : a * (b % (n / a) + 1) = a * (b % (n / a)) + a := by ring
        omega
      rw [div_ok ha1, ok_bind, div_ok hq1, ok_bind, mul_ok (by omega), ok_bind, sub_ok hq hn, ok_bind,
        ih _ _ _ hnegf hnegn (by omega) hn, ok_bind]
      have hr : (n - a * (n / a)) * (b / (n / a)) % n < n := Nat.mod_lt _ (by omega)
      rw [sub_ok (Nat.le_of_lt hr) hn, ok_bind, mul_ok (by omega), ok_bind, sub_ok hcq (by omega), ok_bind, hl,
        mul_ok (by omega), ok_bind, mod_ok (by omega), ok_bind,
        addMod_spec' (Nat.sub_le _ _) (Nat.mod_lt _ (by omega)) hn]
      congr 1
      apply chunk_arith a b n (n / a) (b / (n / a)) (b % (n / a)) _ hq _ rfl (Nat.le_of_lt hr)
      have := Nat.div_add_mod b (n / a)
      have : n / a * (b / (n / a)) = b / (n / a) * (n / a) := Nat.mul_comm _ _
      omega

theorem mulMod_spec' {a b n : Nat} (ha : a < n) (hb : b < n) (hn : n < M) :
    mulMod a b n = W.ok (a * b % n) := mulModF_spec a a b n (Nat.le_refl a) ha hb hn

theorem halfModOdd_spec' {a n : Nat} (ha : a < n) (hodd : n % 2 = 1) (hn : n < M) :
    halfModOdd a n = W.ok (if a % 2 = 0 then a / 2 else a / 2 + (n / 2 + 1)) := by
  unfold halfModOdd
  rw [div_ok (by decide), ok_bind, mod_ok (by decide), ok_bind]
  by_cases h : a % 2 = 0
  · rw [if_pos h, if_pos h, add_ok (by omega), Nat.add_zero]
  · rw [if_neg h, if_neg h, div_ok (by decide), ok_bind, add_ok (by omega), ok_bind, add_ok (by omega)]

/-- The value `half_mod_odd` returns is the unique residue `r < n` with `2 r ≡ a (mod n)`. -/
theorem half_value {a n : Nat} (ha : a < n) (hodd : n % 2 = 1) :
    let r := if a % 2 = 0 then a / 2 else a / 2 + (n / 2 + 1)
    r < n ∧ 2 * r % n = a := by
  intro r
  by_cases h : a % 2 = 0
  · have hr : r = a / 2 := if_pos h
    rw [hr]
    refine ⟨by omega, ?_⟩
    have : 2 * (a / 2) = a := by omega
    rw [this, Nat.mod_eq_of_lt ha]
  · have hr : r = a / 2 + (n / 2 + 1) := if_neg h
    rw [hr]
    refine ⟨by omega, ?_⟩
    have : 2 * (a / 2 + (n / 2 + 1)) = a + n := by omega
    rw [this, Nat.add_mod_right, Nat.mod_eq_of_lt ha]

theorem pow_step (result base exp n : Nat) :
    (if exp % 2 = 1 then result * base % n else result) * (base * base % n) ^ (exp / 2) % n
      = result * base ^ exp % n := by
  have hsq : (base * base % n) ^ (exp / 2) % n = base ^ (2 * (exp / 2)) % n := by
    rw [Nat.pow_mod, Nat.mod_mod, ← Nat.pow_mod, ← Nat.pow_two, ← Nat.pow_mul]
  by_cases h : exp % 2 = 1
  · rw [if_pos h]
    have he : exp = 2 * (exp / 2) + 1 := by omega
    conv_rhs => rw [he, Nat.pow_succ]
    rw [Nat.mul_mod, Nat.mod_mod, hsq, ← Nat.mul_mod]
    congr 1
    ring
  · rw [if_neg h]
    have he : exp = 2 * (exp / 2) := by omega
    conv_rhs => rw [he]
    rw [Nat.mul_mod, hsq, ← Nat.mul_mod]

theorem powModLoop_spec (n : Nat) (hn1 : 1 < n) (hn : n < M) (fuel : Nat) :
    ∀ (result base exp : Nat), exp ≤ fuel → result < n → base < n →
      powModLoop fuel result base exp n = W.ok (result * base ^ exp % n) := by
  induction fuel with
  | zero =>
    intro result base exp he hr hb
    have : exp = 0 := by omega
    subst this
    unfold powModLoop
    simp [Nat.mod_eq_of_lt hr, pure_eq_ok]
  | succ f ih =>
    intro result base exp he hr hb
    unfold powModLoop
    by_cases h0 : exp > 0
    · rw [if_pos h0]
      simp only []
      rw [mod_ok (by decide), ok_bind]
      by_cases h1 : exp % 2 = 1
      · rw [if_pos h1, mulMod_spec' hr hb hn, ok_bind, div_ok (by decide), ok_bind, mulMod_spec' hb hb hn, ok_bind,
          ih _ _ _ (by omega) (Nat.mod_lt _ (by omega)) (Nat.mod_lt _ (by omega))]
        have := pow_step result base exp n
        rw [if_pos h1] at this
        rw [this]
      · rw [if_neg h1, pure_bind', div_ok (by decide), ok_bind, mulMod_spec' hb hb hn, ok_bind,
          ih _ _ _ (by omega) hr (Nat.mod_lt _ (by omega))]
        have := pow_step result base exp n
        rw [if_neg h1] at this
        rw [this]
    · rw [if_neg h0]
      have : exp = 0 := by omega
      subst this
      simp [Nat.mod_eq_of_lt hr, pure_eq_ok]

theorem powMod_spec' {base exp n : Nat} (hn1 : 1 < n) (hn : n < M) :
    powMod base exp n = W.ok (base ^ exp % n) := by
  unfold powMod
  rw [mod_ok (by omega), ok_bind, powModLoop_spec n hn1 hn exp 1 (base % n) exp (Nat.le_refl _) hn1
    (Nat.mod_lt _ (by omega)), Nat.one_mul, ← Nat.pow_mod]

end U64
end Au

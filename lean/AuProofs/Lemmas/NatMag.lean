import AuProofs.Lemmas.Factoring
namespace Au
namespace U64

/-- The number a `NatMag` denotes. -/
def NatMag.value (m : NatMag) : Nat := (m.map fun be => be.1 ^ be.2).prod

theorem magInsert_value (b p : Nat) (m : NatMag) : NatMag.value (magInsert b p m) = b ^ p * NatMag.value m := by
  induction m with
  | nil => simp [magInsert, NatMag.value]
  | cons h t ih =>
    obtain ⟨b', e'⟩ := h
    unfold magInsert
    split
    · simp [NatMag.value]
    · split
      · have : NatMag.value ((b', e') :: magInsert b p t) = b' ^ e' * NatMag.value (magInsert b p t) := by
          simp [NatMag.value]
        rw [this, ih]
        simp [NatMag.value]
        ring
      · rename_i h1 h2
        have hb : b = b' := by omega
        subst hb
        simp [NatMag.value, Nat.pow_add]
        ring

theorem magMul_value (a b : NatMag) : NatMag.value (magMul a b) = NatMag.value a * NatMag.value b := by
  unfold magMul
  induction a generalizing b with
  | nil => simp [NatMag.value]
  | cons h t ih =>
    rw [List.foldl_cons, ih, magInsert_value]
    simp [NatMag.value]
    ring

end U64
end Au

/- The pack produced by PrimeFactorization<N> is strictly sorted by base (the canonical order). -/
import AuProofs.Lemmas.Rho
namespace Au
namespace U64

def NatMag.Sorted (m : NatMag) : Prop := List.Pairwise (fun a b : Nat × Nat => a.1 < b.1) m

theorem magInsert_sorted (b p : Nat) (m : NatMag) (h : NatMag.Sorted m) : NatMag.Sorted (magInsert b p m) := by
  induction m with
  | nil => simp [magInsert, NatMag.Sorted]
  | cons hd t ih =>
    obtain ⟨b', e'⟩ := hd
    unfold NatMag.Sorted at h ⊢
    rw [List.pairwise_cons] at h
    obtain ⟨hhead, htail⟩ := h
    unfold magInsert
    split
    · rename_i hlt
      rw [List.pairwise_cons]
      refine ⟨?_, List.pairwise_cons.2 ⟨hhead, htail⟩⟩
      intro x hx
      rcases List.mem_cons.1 hx with rfl | hx'
      · exact hlt
      · exact Nat.lt_trans hlt (hhead x hx')
    · split
      · rename_i hlt
        rw [List.pairwise_cons]
        refine ⟨?_, ih htail⟩
        exact magInsert_bases b p t (fun x => b' < x) hlt hhead
      · rw [List.pairwise_cons]
        exact ⟨hhead, htail⟩

theorem primeFactorization_sorted (fu : Fuel) (table : List Nat) (fuel : Nat) : ∀ (N : Nat) (m : NatMag),
    (primeFactorization fu table fuel N).val = .mag m → NatMag.Sorted m := by
  induction fuel with
  | zero =>
    intro N m h
    unfold primeFactorization at h
    split at h
    · simp [pure_eq_ok] at h
      subst h
      simp [NatMag.Sorted]
    · split at h
      · simp [pure_eq_ok] at h
      · simp [W.outOfFuel] at h
  | succ k ih =>
    intro N m h
    unfold primeFactorization at h
    split at h
    · simp [pure_eq_ok] at h
      subst h
      simp [NatMag.Sorted]
    · split at h
      · simp [pure_eq_ok] at h
      · simp only [bind_val'] at h
        split at h
        · simp [pure_eq_ok] at h
        · simp only [bind_val'] at h
          split at h
          · rename_i m' hm'
            simp [pure_eq_ok] at h
            subst h
            exact magInsert_sorted _ _ _ (ih _ m' hm')
          · simp [pure_eq_ok] at h

end U64
end Au

/-
  A relation given as a table of bitmask rows that is *induced by an injective rank* is a strict
  total order on the indices.  Used on the regenerated `InOrderFor<UnitProduct,·,·>` table.
-/
namespace Au

/-- `tableLt rows i j` = bit `j` of row `i`. -/
def tableLt (rows : List Nat) (i j : Nat) : Bool := (rows.getD i 0).testBit j

/-- Every entry of the table equals the comparison of the ranks. -/
def tableInducedBy (n : Nat) (ranks rows : List Nat) : Bool :=
  (List.range n).all fun i => (List.range n).all fun j =>
    tableLt rows i j == decide (ranks.getD i 0 < ranks.getD j 0)

/-- Ranks are pairwise distinct on the first `n` indices. -/
def ranksDistinct (n : Nat) (ranks : List Nat) : Bool :=
  (List.range n).all fun i => (List.range n).all fun j =>
    i == j || ranks.getD i 0 != ranks.getD j 0

theorem table_strict_total (n : Nat) (ranks rows : List Nat)
    (h1 : tableInducedBy n ranks rows = true) (h2 : ranksDistinct n ranks = true) :
    (∀ i, i < n → tableLt rows i i = false) ∧
    (∀ i j k, i < n → j < n → k < n → tableLt rows i j = true → tableLt rows j k = true → tableLt rows i k = true) ∧
    (∀ i j, i < n → j < n → tableLt rows i j = false → tableLt rows j i = false → i = j) := by
  have key : ∀ i j, i < n → j < n → tableLt rows i j = decide (ranks.getD i 0 < ranks.getD j 0) := by
    intro i j hi hj
    unfold tableInducedBy at h1
    rw [List.all_eq_true] at h1
    have := h1 i (List.mem_range.2 hi)
    rw [List.all_eq_true] at this
    simpa using this j (List.mem_range.2 hj)
  have dist : ∀ i j, i < n → j < n → i ≠ j → ranks.getD i 0 ≠ ranks.getD j 0 := by
    intro i j hi hj hne
    unfold ranksDistinct at h2
    rw [List.all_eq_true] at h2
    have := h2 i (List.mem_range.2 hi)
    rw [List.all_eq_true] at this
    have := this j (List.mem_range.2 hj)
    simp [hne] at this
    exact this
  refine ⟨?_, ?_, ?_⟩
  · intro i hi; rw [key i i hi hi]; simp only [Nat.lt_irrefl, decide_false]
  · intro i j k hi hj hk hij hjk
    rw [key i j hi hj] at hij; rw [key j k hj hk] at hjk; rw [key i k hi hk]
    simp only [decide_eq_true_eq] at *; omega
  · intro i j hi hj hij hji
    rw [key i j hi hj] at hij; rw [key j i hj hi] at hji
    simp only [decide_eq_false_iff_not] at hij hji
    by_cases hne : i = j
    · exact hne
    · exact absurd (by omega) (dist i j hi hj hne)

end Au

import AuModel.Pack
set_option linter.unusedSectionVars false
namespace Au
namespace Pack
variable {β : Type} [DecidableEq β] {lt : β → β → Bool}

theorem den_nil (x : β) : den ([] : Pack β) x = 0 := rfl

theorem den_cons (c : β) (e : Rat) (t : Pack β) (x : β) :
    den ((c, e) :: t) x = if c = x then e else den t x := rfl

theorem lt_ne (h : StrictTotal lt) {a b : β} (hab : lt a b = true) : a ≠ b := by
  intro e; subst e; rw [h.irrefl] at hab; cases hab

/-- A base smaller than every base of `p` does not occur in `p`. -/
theorem den_eq_zero_of_lt_all (h : StrictTotal lt) (p : Pack β) (x : β)
    (hall : ∀ y ∈ p, lt x y.1 = true) : den p x = 0 := by
  induction p with
  | nil => rfl
  | cons a t ih =>
    obtain ⟨c, e⟩ := a
    rw [den_cons]
    have hc : lt x c = true := hall (c, e) (List.mem_cons_self ..)
    rw [if_neg (fun hcx => lt_ne h hc hcx.symm)]
    exact ih (fun y hy => hall y (List.mem_cons_of_mem _ hy))

theorem sorted_tail {a : β × Rat} {t : Pack β} (hs : Sorted lt (a :: t)) : Sorted lt t :=
  (List.pairwise_cons.1 hs).2

theorem sorted_head {a : β × Rat} {t : Pack β} (hs : Sorted lt (a :: t)) :
    ∀ y ∈ t, lt a.1 y.1 = true := (List.pairwise_cons.1 hs).1

theorem valid_tail {a : β × Rat} {t : Pack β} (hv : Valid lt (a :: t)) : Valid lt t :=
  ⟨sorted_tail hv.1, fun y hy => hv.2 y (List.mem_cons_of_mem _ hy)⟩

/-- All bases of a sorted pack `(c,e)::t` are ≥ c, so a base below `c` is absent. -/
theorem den_eq_zero_of_lt_head (h : StrictTotal lt) (c : β) (e : Rat) (t : Pack β) (x : β)
    (hs : Sorted lt ((c, e) :: t)) (hx : lt x c = true) : den ((c, e) :: t) x = 0 := by
  apply den_eq_zero_of_lt_all h
  intro y hy
  rcases List.mem_cons.1 hy with rfl | hy
  · exact hx
  · exact h.trans _ _ _ hx (sorted_head hs y hy)

theorem mul_nil_right (a : Pack β) : mul lt a [] = a := by
  cases a <;> simp [mul]

theorem mul_nil_left (b : Pack β) : mul lt [] b = b := by
  simp [mul]

/-- Every base of a product comes from one of the factors. -/
theorem mem_mul_base (a b : Pack β) :
    ∀ y ∈ mul lt a b, (∃ z ∈ a, z.1 = y.1) ∨ (∃ z ∈ b, z.1 = y.1) := by
  fun_induction mul lt a b with
  | case1 b => intro y hy; exact Or.inr ⟨y, hy, rfl⟩
  | case2 a _ => intro y hy; exact Or.inl ⟨y, hy, rfl⟩
  | case3 b1 e1 t1 b2 e2 t2 h1 ih =>
    intro y hy
    rcases List.mem_cons.1 hy with rfl | hy
    · exact Or.inl ⟨(b1, e1), List.mem_cons_self .., rfl⟩
    · rcases ih y hy with ⟨z, hz, e⟩ | ⟨z, hz, e⟩
      · exact Or.inl ⟨z, List.mem_cons_of_mem _ hz, e⟩
      · exact Or.inr ⟨z, hz, e⟩
  | case4 b1 e1 t1 b2 e2 t2 h1 h2 ih =>
    intro y hy
    rcases List.mem_cons.1 hy with rfl | hy
    · exact Or.inr ⟨(b2, e2), List.mem_cons_self .., rfl⟩
    · rcases ih y hy with ⟨z, hz, e⟩ | ⟨z, hz, e⟩
      · exact Or.inr ⟨z, List.mem_cons_of_mem _ hz, e⟩
      · exact Or.inl ⟨z, hz, e⟩
  | case5 b1 e1 t1 b2 e2 t2 h1 h2 h3 ih =>
    intro y hy
    rcases ih y hy with ⟨z, hz, e⟩ | ⟨z, hz, e⟩
    · exact Or.inl ⟨z, List.mem_cons_of_mem _ hz, e⟩
    · exact Or.inr ⟨z, List.mem_cons_of_mem _ hz, e⟩
  | case6 b1 e1 t1 b2 e2 t2 h1 h2 h3 ih =>
    intro y hy
    rcases List.mem_cons.1 hy with rfl | hy
    · exact Or.inl ⟨(b1, e1), List.mem_cons_self .., rfl⟩
    · rcases ih y hy with ⟨z, hz, e⟩ | ⟨z, hz, e⟩
      · exact Or.inr ⟨z, List.mem_cons_of_mem _ hz, e⟩
      · exact Or.inl ⟨z, List.mem_cons_of_mem _ hz, e⟩
/-- Exponents add under `PackProduct`. -/
theorem mul_den (h : StrictTotal lt) (a b : Pack β) (ha : Sorted lt a) (hb : Sorted lt b) (x : β) :
    den (mul lt a b) x = den a x + den b x := by
  fun_induction mul lt a b with
  | case1 b => simp [den_nil, Rat.zero_add]
  | case2 a _ => simp [den_nil, Rat.add_zero]
  | case3 b1 e1 t1 b2 e2 t2 h1 ih =>
    rw [den_cons]
    by_cases hx : b1 = x
    · subst hx
      rw [if_pos rfl, den_cons b1 e1 t1, if_pos rfl]
      rw [den_eq_zero_of_lt_head h b2 e2 t2 b1 hb h1]
      simp [Rat.add_zero]
    · rw [if_neg hx, den_cons b1 e1 t1, if_neg hx, ih (sorted_tail ha) hb]
  | case4 b1 e1 t1 b2 e2 t2 h1 h2 ih =>
    rw [den_cons]
    by_cases hx : b2 = x
    · subst hx
      rw [if_pos rfl, den_cons b2 e2 t2, if_pos rfl]
      rw [den_eq_zero_of_lt_head h b1 e1 t1 b2 ha h2]
      simp [Rat.zero_add]
    · rw [if_neg hx, den_cons b2 e2 t2, if_neg hx, ih (sorted_tail hb) ha, Rat.add_comm]
  | case5 b1 e1 t1 b2 e2 t2 h1 h2 h3 ih =>
    have hb12 : b1 = b2 := h.total _ _ (by simpa using h1) (by simpa using h2)
    subst hb12
    rw [ih (sorted_tail ha) (sorted_tail hb), den_cons, den_cons]
    by_cases hx : b1 = x
    · subst hx
      rw [if_pos rfl, if_pos rfl, h3]
      rw [den_eq_zero_of_lt_all h t1 b1 (sorted_head ha), den_eq_zero_of_lt_all h t2 b1 (sorted_head hb)]
      simp [Rat.add_zero]
    · rw [if_neg hx, if_neg hx]
  | case6 b1 e1 t1 b2 e2 t2 h1 h2 h3 ih =>
    have hb12 : b1 = b2 := h.total _ _ (by simpa using h1) (by simpa using h2)
    subst hb12
    rw [den_cons, ih (sorted_tail hb) (sorted_tail ha), den_cons, den_cons]
    by_cases hx : b1 = x
    · subst hx; rw [if_pos rfl, if_pos rfl, if_pos rfl]
    · rw [if_neg hx, if_neg hx, if_neg hx, Rat.add_comm]

theorem mul_valid (h : StrictTotal lt) (a b : Pack β) (ha : Valid lt a) (hb : Valid lt b) :
    Valid lt (mul lt a b) := by
  fun_induction mul lt a b with
  | case1 b => exact hb
  | case2 a _ => exact ha
  | case3 b1 e1 t1 b2 e2 t2 h1 ih =>
    have ih' := ih (valid_tail ha) hb
    refine ⟨List.pairwise_cons.2 ⟨?_, ih'.1⟩, ?_⟩
    · intro y hy
      rcases mem_mul_base _ _ y hy with ⟨z, hz, e⟩ | ⟨z, hz, e⟩
      · rw [← e]; exact sorted_head ha.1 z hz
      · rw [← e]
        rcases List.mem_cons.1 hz with rfl | hz
        · exact h1
        · exact h.trans _ _ _ h1 (sorted_head hb.1 z hz)
    · intro y hy
      rcases List.mem_cons.1 hy with rfl | hy
      · exact ha.2 _ (List.mem_cons_self ..)
      · exact ih'.2 y hy
  | case4 b1 e1 t1 b2 e2 t2 h1 h2 ih =>
    have ih' := ih (valid_tail hb) ha
    refine ⟨List.pairwise_cons.2 ⟨?_, ih'.1⟩, ?_⟩
    · intro y hy
      rcases mem_mul_base _ _ y hy with ⟨z, hz, e⟩ | ⟨z, hz, e⟩
      · rw [← e]; exact sorted_head hb.1 z hz
      · rw [← e]
        rcases List.mem_cons.1 hz with rfl | hz
        · exact h2
        · exact h.trans _ _ _ h2 (sorted_head ha.1 z hz)
    · intro y hy
      rcases List.mem_cons.1 hy with rfl | hy
      · exact hb.2 _ (List.mem_cons_self ..)
      · exact ih'.2 y hy
  | case5 b1 e1 t1 b2 e2 t2 h1 h2 h3 ih => exact ih (valid_tail ha) (valid_tail hb)
  | case6 b1 e1 t1 b2 e2 t2 h1 h2 h3 ih =>
    have hb12 : b1 = b2 := h.total _ _ (by simpa using h1) (by simpa using h2)
    subst hb12
    have ih' := ih (valid_tail hb) (valid_tail ha)
    refine ⟨List.pairwise_cons.2 ⟨?_, ih'.1⟩, ?_⟩
    · intro y hy
      rcases mem_mul_base _ _ y hy with ⟨z, hz, e⟩ | ⟨z, hz, e⟩
      · rw [← e]; exact sorted_head hb.1 z hz
      · rw [← e]; exact sorted_head ha.1 z hz
    · intro y hy
      rcases List.mem_cons.1 hy with rfl | hy
      · exact h3
      · exact ih'.2 y hy
theorem den_head (c : β) (e : Rat) (t : Pack β) : den ((c, e) :: t) c = e := by
  rw [den_cons, if_pos rfl]

/-- A valid pack is determined by its exponent function: equal exponents ⇒ identical type. -/
theorem canonical (h : StrictTotal lt) (a b : Pack β) (ha : Valid lt a) (hb : Valid lt b)
    (hd : ∀ x, den a x = den b x) : a = b := by
  induction a generalizing b with
  | nil =>
    cases b with
    | nil => rfl
    | cons y t =>
      obtain ⟨c, e⟩ := y
      have := hd c
      rw [den_nil, den_head] at this
      exact absurd this.symm (hb.2 _ (List.mem_cons_self ..))
  | cons y t ih =>
    obtain ⟨c, e⟩ := y
    cases b with
    | nil =>
      have := hd c
      rw [den_nil, den_head] at this
      exact absurd this (ha.2 _ (List.mem_cons_self ..))
    | cons y' t' =>
      obtain ⟨c', e'⟩ := y'
      have hne : e ≠ 0 := ha.2 _ (List.mem_cons_self ..)
      have hne' : e' ≠ 0 := hb.2 _ (List.mem_cons_self ..)
      have hcc : c = c' := by
        apply h.total
        · cases hl : lt c c' with
          | false => rfl
          | true =>
            have := hd c
            rw [den_head, den_eq_zero_of_lt_head h c' e' t' c hb.1 hl] at this
            exact absurd this hne
        · cases hl : lt c' c with
          | false => rfl
          | true =>
            have := hd c'
            rw [den_head, den_eq_zero_of_lt_head h c e t c' ha.1 hl] at this
            exact absurd this.symm hne'
      subst hcc
      have hee : e = e' := by have := hd c; rwa [den_head, den_head] at this
      subst hee
      have : t = t' := by
        apply ih t' (valid_tail ha) (valid_tail hb)
        intro x
        by_cases hx : c = x
        · subst hx
          rw [den_eq_zero_of_lt_all h t c (sorted_head ha.1), den_eq_zero_of_lt_all h t' c (sorted_head hb.1)]
        · have := hd x
          rwa [den_cons, den_cons, if_neg hx, if_neg hx] at this
      rw [this]

theorem mul_comm (h : StrictTotal lt) (a b : Pack β) (ha : Valid lt a) (hb : Valid lt b) :
    mul lt a b = mul lt b a := by
  apply canonical h _ _ (mul_valid h a b ha hb) (mul_valid h b a hb ha)
  intro x
  rw [mul_den h a b ha.1 hb.1, mul_den h b a hb.1 ha.1, Rat.add_comm]

theorem mul_assoc (h : StrictTotal lt) (a b c : Pack β) (ha : Valid lt a) (hb : Valid lt b)
    (hc : Valid lt c) : mul lt (mul lt a b) c = mul lt a (mul lt b c) := by
  have hab := mul_valid h a b ha hb
  have hbc := mul_valid h b c hb hc
  apply canonical h _ _ (mul_valid h _ c hab hc) (mul_valid h a _ ha hbc)
  intro x
  rw [mul_den h _ c hab.1 hc.1, mul_den h a b ha.1 hb.1, mul_den h a _ ha.1 hbc.1,
    mul_den h b c hb.1 hc.1, Rat.add_assoc]

theorem pow_den (p : Pack β) (q : Rat) (x : β) : den (pow p q) x = den p x * q := by
  unfold pow
  split
  · rename_i hq; subst hq; simp [den_nil, Rat.mul_zero]
  · induction p with
    | nil => simp [den_nil, Rat.zero_mul]
    | cons a t ih =>
      obtain ⟨c, e⟩ := a
      simp only [List.map_cons, den_cons]
      split
      · rfl
      · exact ih

theorem pow_valid (p : Pack β) (q : Rat) (hp : Valid lt p) : Valid lt (pow p q) := by
  unfold pow
  split
  · exact ⟨List.Pairwise.nil, fun _ h => absurd h (List.not_mem_nil)⟩
  · rename_i hq
    refine ⟨?_, ?_⟩
    · unfold Sorted
      rw [List.pairwise_map]
      exact hp.1
    · intro a ha
      rcases List.mem_map.1 ha with ⟨y, hy, rfl⟩
      have := hp.2 y hy
      simp only
      intro h0
      rcases Rat.mul_eq_zero.1 h0 with h1 | h1
      · exact this h1
      · exact hq h1

section Interp
variable {γ : Type} [DecidableEq γ] {ltg : γ → γ → Bool}

theorem interp_valid (hg : StrictTotal ltg) (f : β → Pack γ) (p : Pack β)
    (hf : ∀ y ∈ p, Valid ltg (f y.1)) : Valid ltg (interp ltg f p) := by
  induction p with
  | nil => exact ⟨List.Pairwise.nil, fun _ h => by cases h⟩
  | cons a t ih =>
    obtain ⟨b, q⟩ := a
    exact mul_valid hg _ _ (pow_valid _ q (hf (b, q) (List.mem_cons_self ..)))
      (ih (fun y hy => hf y (List.mem_cons_of_mem _ hy)))

theorem interp_cons_den (hg : StrictTotal ltg) (f : β → Pack γ) (b : β) (q : Rat) (t : Pack β)
    (hf : ∀ y ∈ ((b, q) :: t), Valid ltg (f y.1)) (x : γ) :
    den (interp ltg f ((b, q) :: t)) x = den (f b) x * q + den (interp ltg f t) x := by
  show den (mul ltg ((f b).pow q) (interp ltg f t)) x = _
  rw [mul_den hg _ _ (pow_valid _ q (hf (b, q) (List.mem_cons_self ..))).1
    (interp_valid hg f t (fun y hy => hf y (List.mem_cons_of_mem _ hy))).1, pow_den]

/-- Exponents of the interpretation add under `PackProduct`. -/
theorem interp_mul_den (h : StrictTotal lt) (hg : StrictTotal ltg) (f : β → Pack γ)
    (a b : Pack β) (hfa : ∀ y ∈ a, Valid ltg (f y.1)) (hfb : ∀ y ∈ b, Valid ltg (f y.1)) (x : γ) :
    den (interp ltg f (mul lt a b)) x = den (interp ltg f a) x + den (interp ltg f b) x := by
  have hfm : ∀ a b : Pack β, (∀ y ∈ a, Valid ltg (f y.1)) → (∀ y ∈ b, Valid ltg (f y.1)) →
      ∀ y ∈ mul lt a b, Valid ltg (f y.1) := by
    intro a b ha hb y hy
    rcases mem_mul_base a b y hy with ⟨z, hz, e⟩ | ⟨z, hz, e⟩
    · rw [← e]; exact ha z hz
    · rw [← e]; exact hb z hz
  fun_induction mul lt a b with
  | case1 b => simp [interp, den_nil]; grind
  | case2 a _ => simp [interp, den_nil]; grind
  | case3 b1 e1 t1 b2 e2 t2 h1 ih =>
    have hft1 : ∀ y ∈ t1, Valid ltg (f y.1) := fun y hy => hfa y (List.mem_cons_of_mem _ hy)
    rw [interp_cons_den hg f b1 e1 _ (by
      intro y hy; rcases List.mem_cons.1 hy with rfl | hy
      · exact hfa _ (List.mem_cons_self ..)
      · exact hfm _ _ hft1 hfb y hy)]
    rw [ih hft1 hfb, interp_cons_den hg f b1 e1 t1 hfa]; grind
  | case4 b1 e1 t1 b2 e2 t2 h1 h2 ih =>
    have hft2 : ∀ y ∈ t2, Valid ltg (f y.1) := fun y hy => hfb y (List.mem_cons_of_mem _ hy)
    rw [interp_cons_den hg f b2 e2 _ (by
      intro y hy; rcases List.mem_cons.1 hy with rfl | hy
      · exact hfb _ (List.mem_cons_self ..)
      · exact hfm _ _ hft2 hfa y hy)]
    rw [ih hft2 hfa, interp_cons_den hg f b2 e2 t2 hfb]; grind
  | case5 b1 e1 t1 b2 e2 t2 h1 h2 h3 ih =>
    have hb12 : b1 = b2 := h.total _ _ (by simpa using h1) (by simpa using h2)
    subst hb12
    have hft1 : ∀ y ∈ t1, Valid ltg (f y.1) := fun y hy => hfa y (List.mem_cons_of_mem _ hy)
    have hft2 : ∀ y ∈ t2, Valid ltg (f y.1) := fun y hy => hfb y (List.mem_cons_of_mem _ hy)
    rw [ih hft1 hft2, interp_cons_den hg f b1 e1 t1 hfa, interp_cons_den hg f b1 e2 t2 hfb]
    have : den (f b1) x * e1 + den (f b1) x * e2 = den (f b1) x * (e1 + e2) := by grind
    rw [h3] at this; grind
  | case6 b1 e1 t1 b2 e2 t2 h1 h2 h3 ih =>
    have hb12 : b1 = b2 := h.total _ _ (by simpa using h1) (by simpa using h2)
    subst hb12
    have hft1 : ∀ y ∈ t1, Valid ltg (f y.1) := fun y hy => hfa y (List.mem_cons_of_mem _ hy)
    have hft2 : ∀ y ∈ t2, Valid ltg (f y.1) := fun y hy => hfb y (List.mem_cons_of_mem _ hy)
    rw [interp_cons_den hg f b1 (e1 + e2) _ (by
      intro y hy; rcases List.mem_cons.1 hy with rfl | hy
      · exact hfa (b1, e1) (List.mem_cons_self ..)
      · exact hfm _ _ hft2 hft1 y hy)]
    rw [ih hft2 hft1, interp_cons_den hg f b1 e1 t1 hfa, interp_cons_den hg f b1 e2 t2 hfb]; grind

/-- Exponents of the interpretation scale under `PackPower`. -/
theorem interp_pow_den (hg : StrictTotal ltg) (f : β → Pack γ) (p : Pack β) (q : Rat)
    (hf : ∀ y ∈ p, Valid ltg (f y.1)) (x : γ) :
    den (interp ltg f (p.pow q)) x = den (interp ltg f p) x * q := by
  unfold pow
  split
  · rename_i hq; subst hq; simp [interp, den_nil]
  · induction p with
    | nil => simp [interp, den_nil]
    | cons a t ih =>
      obtain ⟨b, e⟩ := a
      have hft : ∀ y ∈ t, Valid ltg (f y.1) := fun y hy => hf y (List.mem_cons_of_mem _ hy)
      simp only [List.map_cons]
      rw [interp_cons_den hg f b (e * q) _ (by
        intro y hy; rcases List.mem_cons.1 hy with rfl | hy
        · exact hf (b, e) (List.mem_cons_self ..)
        · rcases List.mem_map.1 hy with ⟨z, hz, rfl⟩; exact hft z hz)]
      rw [ih hft, interp_cons_den hg f b e t hf]; grind
end Interp
end Pack
end Au

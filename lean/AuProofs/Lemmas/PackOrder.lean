import AuModel.Pack
import AuProofs.Lemmas.Pack
import AuProofs.Lemmas.Mag

/-! # `InStandardPackOrder` is a strict total order (keys `OrderByDim`, `OrderByMag` of the unit ordering) -/
namespace Au
namespace Pack
variable {β : Type}

theorem packLt_irrefl {lt : β → β → Bool} (h : StrictTotal lt) : ∀ a : Pack β, packLt lt a a = false
  | [] => rfl
  | (b, e) :: t => by
    simp only [packLt, h.irrefl b, Bool.false_eq_true, if_false]
    have : ¬ (e - e < 0) := by grind
    simp only [this, if_false]
    exact packLt_irrefl h t

theorem packLt_total {lt : β → β → Bool} (h : StrictTotal lt) :
    ∀ a b : Pack β, packLt lt a b = false → packLt lt b a = false → a = b
  | [], [], _, _ => rfl
  | [], _ :: _, h1, _ => by simp [packLt] at h1
  | _ :: _, [], _, h2 => by simp [packLt] at h2
  | (b1, e1) :: t1, (b2, e2) :: t2, h1, h2 => by
    simp only [packLt] at h1 h2
    by_cases l12 : lt b1 b2 = true
    · simp [l12] at h1
    · by_cases l21 : lt b2 b1 = true
      · simp [l21] at h2
      · have hb : b1 = b2 := h.total b1 b2 (by simpa using l12) (by simpa using l21)
        subst hb
        simp only [l12, Bool.false_eq_true, if_false] at h1 h2
        by_cases x : e1 - e2 < 0
        · simp [x] at h1
        · by_cases y : e2 - e1 < 0
          · simp [y] at h2
          · have he : e1 = e2 := by grind
            subst he
            simp only [x, if_false] at h1 h2
            rw [packLt_total h t1 t2 h1 h2]

theorem packLt_trans {lt : β → β → Bool} (h : StrictTotal lt) :
    ∀ a b c : Pack β, packLt lt a b = true → packLt lt b c = true → packLt lt a c = true
  | [], [], _, h1, _ => by simp [packLt] at h1
  | [], _ :: _, [], _, h2 => by simp [packLt] at h2
  | [], _ :: _, _ :: _, _, _ => by simp [packLt]
  | _ :: _, [], _, h1, _ => by simp [packLt] at h1
  | _ :: _, _ :: _, [], _, h2 => by simp [packLt] at h2
  | (b1, e1) :: t1, (b2, e2) :: t2, (b3, e3) :: t3, h1, h2 => by
    simp only [packLt] at h1 h2 ⊢
    by_cases l12 : lt b1 b2 = true
    · by_cases l23 : lt b2 b3 = true
      · simp [h.trans b1 b2 b3 l12 l23]
      · by_cases l32 : lt b3 b2 = true
        · simp [l23, l32] at h2
        · have hb : b2 = b3 := h.total b2 b3 (by simpa using l23) (by simpa using l32)
          subst hb; simp [l12]
    · by_cases l21 : lt b2 b1 = true
      · simp [l12, l21] at h1
      · have hb : b1 = b2 := h.total b1 b2 (by simpa using l12) (by simpa using l21)
        subst hb
        simp only [l12, Bool.false_eq_true, if_false] at h1
        by_cases l13 : lt b1 b3 = true
        · simp [l13]
        · by_cases l31 : lt b3 b1 = true
          · simp [l13, l31] at h2
          · simp only [l13, l31, Bool.false_eq_true, if_false] at h2 ⊢
            by_cases x : e1 - e2 < 0
            · by_cases y : e2 - e3 < 0
              · have : e1 - e3 < 0 := by grind
                simp [this]
              · by_cases y' : e3 - e2 < 0
                · simp [y, y'] at h2
                · have he : e2 = e3 := by grind
                  subst he; simp [x]
            · by_cases x' : e2 - e1 < 0
              · simp [x, x'] at h1
              · have he : e1 = e2 := by grind
                subst he
                simp only [x, if_false] at h1
                by_cases y : e1 - e3 < 0
                · simp [y]
                · by_cases y' : e3 - e1 < 0
                  · simp [y, y'] at h2
                  · simp only [y, y', if_false] at h2 ⊢
                    exact packLt_trans h t1 t2 t3 h1 h2

/-- **`InStandardPackOrder` is a strict total order on packs whenever the base order is one** — in
particular `OrderByDim` and `OrderByMag`, the second and third keys of the unit ordering, are strict
total orders on dimensions and magnitudes. -/
theorem packLt_strictTotal {lt : β → β → Bool} (h : StrictTotal lt) : StrictTotal (packLt lt) :=
  ⟨packLt_irrefl h, packLt_trans h, packLt_total h⟩

end Pack

theorem orderByDim_strictTotal : StrictTotal (Pack.packLt dimLt) := Pack.packLt_strictTotal dimLt_strictTotal
theorem orderByMag_strictTotal : StrictTotal (Pack.packLt MagBase.lt) := Pack.packLt_strictTotal MagBase.lt_strictTotal

end Au

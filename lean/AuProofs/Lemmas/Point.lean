/-
  AuProofs.Lemmas.Point — evaluation lemmas for `AuModel.Point` (core Lean only).
-/
import AuModel.Point
import AuProofs.Lemmas.Mixed
import AuProofs.Lemmas.CommonRat
namespace Au
open IntTy Mixed

namespace Mixed

/-- k-level form of the exactness of mixed-unit subtraction. -/
theorem sub_ok (r1 r2 : IntTy) (h1 : r1 ∈ IntTy.all) (h2 : r2 ∈ IntTy.all) (hs : r1.signed = r2.signed)
    (k1 k2 : Nat) (v1 v2 : Int) (hv1 : r1.inRange v1) (hv2 : r2.inRange v2)
    (hf : FitsCommon r1 r2 k1 k2 v1 v2) (hd : DiffFits r1 r2 k1 k2 v1 v2) :
    sub r1 r2 k1 k2 v1 v2 = ⟨.ok (v1 * k1 - v2 * k2), false, false⟩ := by
  obtain ⟨hc, _⟩ := common_facts r1 h1 r2 h2 hs
  have hp := promote_mem _ hc
  unfold sub
  rw [usingCommon_ok r1 r2 h1 h2 hs _ _ v1 v2 hv1 hv2 hf]
  unfold DiffFits sumRep at hd
  unfold subIn
  cases hsg : (IntTy.common r1 r2).promote.signed with
  | true => simp [hd]
  | false => simp [hd, wrap_of_inRange _ hp _ hd]

theorem add_ok (r1 r2 : IntTy) (h1 : r1 ∈ IntTy.all) (h2 : r2 ∈ IntTy.all) (hs : r1.signed = r2.signed)
    (k1 k2 : Nat) (v1 v2 : Int) (hv1 : r1.inRange v1) (hv2 : r2.inRange v2)
    (hf : FitsCommon r1 r2 k1 k2 v1 v2) (hd : SumFits r1 r2 k1 k2 v1 v2) :
    add r1 r2 k1 k2 v1 v2 = ⟨.ok (v1 * k1 + v2 * k2), false, false⟩ := by
  obtain ⟨hc, _⟩ := common_facts r1 h1 r2 h2 hs
  have hp := promote_mem _ hc
  unfold add
  rw [usingCommon_ok r1 r2 h1 h2 hs _ _ v1 v2 hv1 hv2 hf]
  unfold SumFits sumRep at hd
  unfold addIn
  cases hsg : (IntTy.common r1 r2).promote.signed with
  | true => simp [hd]
  | false => simp [hd, wrap_of_inRange _ hp _ hd]

theorem cmp_ok (op : CmpOp) (r1 r2 : IntTy) (h1 : r1 ∈ IntTy.all) (h2 : r2 ∈ IntTy.all) (hs : r1.signed = r2.signed)
    (k1 k2 : Nat) (v1 v2 : Int) (hv1 : r1.inRange v1) (hv2 : r2.inRange v2)
    (hf : FitsCommon r1 r2 k1 k2 v1 v2) :
    cmp op r1 r2 k1 k2 v1 v2 = ⟨.ok (op.eval (v1 * k1) (v2 * k2)), false, false⟩ := by
  unfold cmp
  rw [usingCommon_ok r1 r2 h1 h2 hs _ _ v1 v2 hv1 hv2 hf]

end Mixed

namespace Point

theorem all_closed : ∀ r ∈ IntTy.all, ∀ n ∈ IntTy.all,
    (IntTy.common r n ∈ IntTy.all ∧ intermediateRep r n ∈ IntTy.all ∧ (intermediateRep r n).promote ∈ IntTy.all ∧
     IntTy.common r (intermediateRep r n) ∈ IntTy.all ∧ IntTy.common originRep (intermediateRep r n) ∈ IntTy.all ∧
     IntTy.common (intermediateRep r n).promote n ∈ IntTy.all ∧
     IntTy.common (intermediateRep r n) (intermediateRep r n) = intermediateRep r n) := by
  decide

theorem andThen_ok' (v : Int) (f : Int → ApplyResult) : andThen ⟨.ok v, false, false⟩ f = f v :=
  Mixed.andThen_ok v f

/-- `rep_cast<n>(q)` of a `Quantity` whose value fits both the common type and the target. -/
theorem repCast_ok (r n : IntTy) (hc : IntTy.common r n ∈ IntTy.all) (hn : n ∈ IntTy.all) (v : Int)
    (h1 : (IntTy.common r n).inRange v) (h2 : n.inRange v) : repCast r n v = ⟨.ok v, false, false⟩ := by
  unfold repCast
  have := asRep_ok r n hc hn 1 v h1 (by simpa using h1) (by simpa using h2)
  simpa using this

/-- `apply_magnitude(y, N/D)` in `t` (all three categories): truncating division of the exact product,
whenever the product fits the promoted type and the quotient fits `t`. -/
theorem applyMag_trunc_ok (t : IntTy) (ht : t ∈ IntTy.all) (N D : Nat) (hN : 0 < N) (hD : 0 < D) (y : Int)
    (hp : t.promote.inRange (y * N)) (hq : t.inRange (Int.tdiv (y * N) D)) :
    applyMag t N D y = ⟨.ok (Int.tdiv (y * N) D), false, false⟩ := by
  have hpm := promote_mem t ht
  unfold applyMag
  cases hcat : categorize N D with
  | intMul =>
    have hD1 := cat_intMul hcat
    subst hD1
    simp only []
    rw [mulIn_ok _ hpm _ _ hp]
    have e : Int.tdiv (y * N) ((1 : Nat) : Int) = y * N := by simp
    rw [e] at hq ⊢
    exact finish_ok t ht _ false hq
  | intDiv =>
    have hN1 := (cat_intDiv hcat).1
    subst hN1
    simp only []
    rw [divIn_ok _ _ _ (by omega : (0 : Int) < D)]
    have e : y * ((1 : Nat) : Int) = y := by simp
    rw [e] at hq ⊢
    exact finish_ok t ht _ false hq
  | rational =>
    simp only []
    rw [mulIn_ok _ hpm _ _ hp]
    simp only []
    rw [divIn_ok _ _ _ (by omega : (0 : Int) < D)]
    exact finish_ok t ht _ _ hq

/-- `Quantity<_, p>::in<n>(unit)` with ratio `N/D`. -/
theorem asRepFrac_ok (p n : IntTy) (hc : IntTy.common p n ∈ IntTy.all) (hn : n ∈ IntTy.all) (N D : Nat)
    (hN : 0 < N) (hD : 0 < D) (y : Int) (h1 : (IntTy.common p n).inRange y)
    (h2 : (IntTy.common p n).promote.inRange (y * N)) (h3 : (IntTy.common p n).inRange (Int.tdiv (y * N) D))
    (h4 : n.inRange (Int.tdiv (y * N) D)) :
    asRepFrac p n N D y = ⟨.ok (Int.tdiv (y * N) D), false, false⟩ := by
  unfold asRepFrac
  simp only []
  rw [staticCast_ok _ hc y h1, Mixed.andThen_ok, applyMag_trunc_ok _ hc N D hN hD y h2 h3, Mixed.andThen_ok,
    staticCast_ok _ hn _ h4]

end Point
end Au

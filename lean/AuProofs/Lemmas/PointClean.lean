/-
  AuProofs.Lemmas.PointClean — "clean evaluation ⇒ exact value" inversion lemmas for `AuModel.Mixed` /
  `AuModel.Point`: if a step returns a value with neither the `wrapped` nor the `narrowed` flag, the value is
  the exact mathematical one.  Core Lean only.
-/
import AuProofs.Lemmas.Point
set_option linter.unusedSimpArgs false
namespace Au
open IntTy Mixed Point

namespace Mixed

theorem ar_eta (a : ApplyResult) (v : Int) (h1 : a.val = .ok v) (h2 : a.wrapped = false) (h3 : a.narrowed = false) :
    a = ⟨.ok v, false, false⟩ := by
  cases a; simp_all

theorem andThen_inv (a : ApplyResult) (f : Int → ApplyResult) (z : Int)
    (h : andThen a f = ⟨.ok z, false, false⟩) :
    ∃ v, a = ⟨.ok v, false, false⟩ ∧ f v = ⟨.ok z, false, false⟩ := by
  obtain ⟨av, aw, an⟩ := a
  unfold andThen at h
  cases av with
  | ub w => simp at h
  | ok v =>
    simp only [] at h
    injection h with h1 h2 h3
    rw [Bool.or_eq_false_iff] at h2 h3
    refine ⟨v, ?_, ?_⟩
    · rw [h2.1, h3.1]
    · exact ar_eta _ _ h1 h2.2 h3.2

theorem staticCast_inv (t : IntTy) (v z : Int) (h : staticCast t v = ⟨.ok z, false, false⟩) : z = v := by
  unfold staticCast at h
  injection h with h1 _ h3
  injection h1 with h1
  have : t.wrap v = v := by simpa using h3
  rw [← h1, this]

theorem applyMag_int_inv (t : IntTy) (ht : t ∈ IntTy.all) (k : Nat) (v z : Int)
    (h : applyMag t k 1 v = ⟨.ok z, false, false⟩) : z = v * k := by
  have hpm := promote_mem t ht
  unfold applyMag at h
  have hc : categorize k 1 = .intMul := by unfold categorize; simp
  rw [hc] at h
  simp only [] at h
  unfold mulIn at h
  cases hs : t.promote.signed with
  | true =>
    rw [hs] at h
    simp only [if_true] at h
    by_cases hr : t.promote.inRange (v * k)
    · rw [if_pos hr] at h
      unfold Au.finish at h
      simp only [] at h
      injection h with h1 _ h3
      injection h1 with h1
      have : t.wrap (v * k) = v * k := by simpa using h3
      rw [← h1, this]
    · rw [if_neg hr] at h
      unfold Au.finish at h
      simp at h
  | false =>
    rw [hs] at h
    simp only [Bool.false_eq_true, if_false] at h
    unfold Au.finish at h
    simp only [] at h
    injection h with h1 h2 h3
    injection h1 with h1
    have hr : t.promote.inRange (v * k) := by simpa using h2
    rw [wrap_of_inRange _ hpm _ hr] at h1 h3
    have : t.wrap (v * k) = v * k := by simpa using h3
    rw [← h1, this]

theorem asRep_inv (r n : IntTy) (hc : IntTy.common r n ∈ IntTy.all) (k : Nat) (v z : Int)
    (h : asRep r n k v = ⟨.ok z, false, false⟩) : z = v * k := by
  unfold asRep at h
  simp only [] at h
  obtain ⟨x, h1, h⟩ := andThen_inv _ _ _ h
  obtain ⟨y, h2, h3⟩ := andThen_inv _ _ _ h
  have e1 := staticCast_inv _ _ _ h1
  have e2 := applyMag_int_inv _ hc k x y h2
  have e3 := staticCast_inv _ _ _ h3
  rw [e3, e2, e1]

theorem repCast_inv (r n : IntTy) (hc : IntTy.common r n ∈ IntTy.all) (v z : Int)
    (h : repCast r n v = ⟨.ok z, false, false⟩) : z = v := by
  have := asRep_inv r n hc 1 v z h
  simpa using this

theorem inUnit_inv (r : IntTy) (hr : r ∈ IntTy.all) (k : Nat) (v z : Int)
    (h : inUnit r k v = ⟨.ok z, false, false⟩) : z = v * k := by
  unfold inUnit at h
  by_cases hk : k = 1
  · subst hk
    simp only [if_true] at h
    injection h with h1
    injection h1 with h1
    rw [← h1]; simp
  · rw [if_neg hk] at h
    have hrr : IntTy.common r r = r := by unfold IntTy.common; simp
    exact asRep_inv r r (by rw [hrr]; exact hr) k v z h

theorem castToCommon_inv (r c : IntTy) (h1 : IntTy.common r c ∈ IntTy.all) (h2 : c ∈ IntTy.all)
    (k : Nat) (v z : Int) (h : castToCommon r c k v = ⟨.ok z, false, false⟩) : z = v * k := by
  unfold castToCommon at h
  obtain ⟨x, ha, hb⟩ := andThen_inv _ _ _ h
  have e1 := repCast_inv r c h1 v x ha
  have hcc : IntTy.common c c = c := by unfold IntTy.common; simp
  have e2 := asRep_inv c c (by rw [hcc]; exact h2) k x z hb
  rw [e2, e1]

/-- A clean mixed-unit addition of two operands of the same rep is the exact sum of the scaled operands. -/
theorem add_same_inv (c : IntTy) (hc : c ∈ IntTy.all) (k1 k2 : Nat) (v1 v2 s : Int)
    (h : Mixed.add c c k1 k2 v1 v2 = ⟨.ok s, false, false⟩) : s = v1 * k1 + v2 * k2 := by
  have hcc : IntTy.common c c = c := by unfold IntTy.common; simp
  have hpm := promote_mem c hc
  unfold Mixed.add usingCommon at h
  simp only [hcc] at h
  cases ha : (castToCommon c c k1 v1).val with
  | ub w => rw [ha] at h; simp at h
  | ok x =>
    cases hb : (castToCommon c c k2 v2).val with
    | ub w => rw [ha, hb] at h; simp at h
    | ok y =>
      rw [ha, hb] at h
      simp only [] at h
      injection h with hv hw hn
      simp only [Bool.or_eq_false_iff, Bool.or_false] at hw hn
      have ea : castToCommon c c k1 v1 = ⟨.ok x, false, false⟩ := ar_eta _ _ ha hw.1.1 hn.1
      have eb : castToCommon c c k2 v2 = ⟨.ok y, false, false⟩ := ar_eta _ _ hb hw.1.2 hn.2
      have ex := castToCommon_inv c c (by rw [hcc]; exact hc) hc k1 v1 x ea
      have ey := castToCommon_inv c c (by rw [hcc]; exact hc) hc k2 v2 y eb
      have hsw := hw.2
      unfold addIn at hv hsw
      cases hs : c.promote.signed with
      | true =>
        rw [hs] at hv hsw
        simp only [if_true] at hv hsw
        by_cases hr : c.promote.inRange (x + y)
        · rw [if_pos hr] at hv
          injection hv with hv
          rw [← hv, ex, ey]
        · rw [if_neg hr] at hv; simp at hv
      | false =>
        rw [hs] at hv hsw
        simp only [Bool.false_eq_true, if_false] at hv hsw
        have hr : c.promote.inRange (x + y) := by simpa using hsw
        rw [wrap_of_inRange _ hpm _ hr] at hv
        injection hv with hv
        rw [← hv, ex, ey]

/-- A clean mixed-unit subtraction of two operands of the same rep is the exact difference of the scaled operands. -/
theorem sub_same_inv (c : IntTy) (hc : c ∈ IntTy.all) (k1 k2 : Nat) (v1 v2 s : Int)
    (h : Mixed.sub c c k1 k2 v1 v2 = ⟨.ok s, false, false⟩) : s = v1 * k1 - v2 * k2 := by
  have hcc : IntTy.common c c = c := by unfold IntTy.common; simp
  have hpm := promote_mem c hc
  unfold Mixed.sub usingCommon at h
  simp only [hcc] at h
  cases ha : (castToCommon c c k1 v1).val with
  | ub w => rw [ha] at h; simp at h
  | ok x =>
    cases hb : (castToCommon c c k2 v2).val with
    | ub w => rw [ha, hb] at h; simp at h
    | ok y =>
      rw [ha, hb] at h
      simp only [] at h
      injection h with hv hw hn
      simp only [Bool.or_eq_false_iff, Bool.or_false] at hw hn
      have ea : castToCommon c c k1 v1 = ⟨.ok x, false, false⟩ := ar_eta _ _ ha hw.1.1 hn.1
      have eb : castToCommon c c k2 v2 = ⟨.ok y, false, false⟩ := ar_eta _ _ hb hw.1.2 hn.2
      have ex := castToCommon_inv c c (by rw [hcc]; exact hc) hc k1 v1 x ea
      have ey := castToCommon_inv c c (by rw [hcc]; exact hc) hc k2 v2 y eb
      have hsw := hw.2
      unfold subIn at hv hsw
      cases hs : c.promote.signed with
      | true =>
        rw [hs] at hv hsw
        simp only [if_true] at hv hsw
        by_cases hr : c.promote.inRange (x - y)
        · rw [if_pos hr] at hv
          injection hv with hv
          rw [← hv, ex, ey]
        · rw [if_neg hr] at hv; simp at hv
      | false =>
        rw [hs] at hv hsw
        simp only [Bool.false_eq_true, if_false] at hv hsw
        have hr : c.promote.inRange (x - y) := by simpa using hsw
        rw [wrap_of_inRange _ hpm _ hr] at hv
        injection hv with hv
        rw [← hv, ex, ey]

end Mixed
end Au

namespace Au
open IntTy Mixed Point
namespace Mixed

/-- In `int` nothing can wrap or narrow silently: a value is returned only when the exact product fits. -/
theorem castToCommon_i32_val (k : Nat) (v z : Int) (hv : i32.inRange v)
    (h : (castToCommon i32 i32 k v).val = .ok z) : z = v * k := by
  have hcc : IntTy.common i32 i32 = i32 := by decide
  by_cases hr : i32.inRange (v * k)
  · have := castToCommon_ok i32 i32 (by decide) (by decide) rfl k v hv (by rw [hcc]; exact hr)
    rw [hcc] at this
    rw [this] at h
    injection h with h
    exact h.symm
  · exfalso
    have e1 : repCast i32 i32 v = ⟨.ok v, false, false⟩ :=
      Point.repCast_ok i32 i32 (by decide) (by decide) v (by rw [hcc]; exact hv) hv
    have hp : i32.promote = i32 := by decide
    have e2 : (asRep i32 i32 k v).val = .ub "signed overflow in multiplication" := by
      unfold asRep
      simp only [hcc]
      rw [staticCast_ok i32 (by decide) v hv, andThen_ok]
      unfold applyMag
      have hc : categorize k 1 = .intMul := by unfold categorize; simp
      rw [hc]
      simp only [hp]
      unfold mulIn
      have hsg : i32.signed = true := rfl
      simp only [hsg, if_true, if_neg hr]
      unfold Au.finish andThen
      simp
    unfold castToCommon at h
    rw [e1, andThen_ok, e2] at h
    cases h

theorem commonPair_i32_val (k1 k2 : Nat) (a b x y : Int) (ha : i32.inRange a) (hb : i32.inRange b)
    (h : (commonPair i32 i32 k1 k2 a b).val = .ok (x, y)) : x = a * k1 ∧ y = b * k2 := by
  have hcc : IntTy.common i32 i32 = i32 := by decide
  unfold commonPair usingCommon at h
  simp only [hcc] at h
  cases h1 : (castToCommon i32 i32 k1 a).val with
  | ub w => rw [h1] at h; simp at h
  | ok x' =>
    cases h2 : (castToCommon i32 i32 k2 b).val with
    | ub w => rw [h1, h2] at h; simp at h
    | ok y' =>
      rw [h1, h2] at h
      simp only [] at h
      injection h with h
      injection h with hx hy
      rw [← hx, ← hy]
      exact ⟨castToCommon_i32_val k1 a x' ha h1, castToCommon_i32_val k2 b y' hb h2⟩

/-- Comparison of two `int` quantities (the compile-time comparison of two origins): whenever it has a value,
that value is the comparison of the exact scaled counts. -/
theorem cmp_i32_val (op : CmpOp) (k1 k2 : Nat) (a b : Int) (bb : Bool) (ha : i32.inRange a) (hb : i32.inRange b)
    (h : (cmp op i32 i32 k1 k2 a b).val = .ok bb) : bb = op.eval (a * k1) (b * k2) := by
  rw [cmp_val] at h
  cases hp : (commonPair i32 i32 k1 k2 a b).val with
  | ub w => rw [hp] at h; cases h
  | ok p =>
    obtain ⟨x, y⟩ := p
    rw [hp] at h
    simp only [] at h
    injection h with h
    obtain ⟨ex, ey⟩ := commonPair_i32_val k1 k2 a b x y ha hb hp
    rw [← h, ex, ey]

/-- Difference of two `int` quantities (`OriginDisplacement`): whenever it has a value, it is exact. -/
theorem sub_i32_val (k1 k2 : Nat) (a b d : Int) (ha : i32.inRange a) (hb : i32.inRange b)
    (h : (sub i32 i32 k1 k2 a b).val = .ok d) : d = a * k1 - b * k2 := by
  rw [sub_val] at h
  cases hp : (commonPair i32 i32 k1 k2 a b).val with
  | ub w => rw [hp] at h; cases h
  | ok p =>
    obtain ⟨x, y⟩ := p
    rw [hp] at h
    simp only [] at h
    obtain ⟨ex, ey⟩ := commonPair_i32_val k1 k2 a b x y ha hb hp
    have hcp : (IntTy.common i32 i32).promote = i32 := by decide
    rw [hcp] at h
    unfold subIn at h
    have hsg : i32.signed = true := rfl
    simp only [hsg, if_true] at h
    by_cases hr : i32.inRange (x - y)
    · rw [if_pos hr] at h
      injection h with h
      rw [← h, ex, ey]
    · rw [if_neg hr] at h; cases h

end Mixed
end Au

namespace Au
open IntTy Mixed Point
namespace URat

/-- `a` divides `b`: `b / a` is a (positive) integer. -/
def Divides (a b : URat) : Prop := b.den * a.num ∣ b.num * a.den

theorem Divides.trans {a b c : URat} (hb : b.Pos) (h1 : Divides a b) (h2 : Divides b c) : Divides a c := by
  unfold Divides at *
  have hpos : 0 < b.num * b.den := Nat.mul_pos hb.1 hb.2
  have h := Nat.mul_dvd_mul h2 h1
  -- (c.den*b.num)*(b.den*a.num) ∣ (c.num*b.den)*(b.num*a.den)
  have e1 : c.den * b.num * (b.den * a.num) = (c.den * a.num) * (b.num * b.den) := by
    simp only [Nat.mul_comm, Nat.mul_left_comm, Nat.mul_assoc]
  have e2 : c.num * b.den * (b.num * a.den) = (c.num * a.den) * (b.num * b.den) := by
    simp only [Nat.mul_comm, Nat.mul_left_comm, Nat.mul_assoc]
  rw [e1, e2] at h
  exact Nat.dvd_of_mul_dvd_mul_right hpos h

theorem dvd_common_left (a b : URat) : Divides (common a b) a := by
  unfold Divides common crossGcd
  simp only []
  have : Nat.gcd (a.num * b.den) (b.num * a.den) ∣ a.num * b.den := Nat.gcd_dvd_left _ _
  have h := Nat.mul_dvd_mul_left a.den this
  have e : a.num * (a.den * b.den) = a.den * (a.num * b.den) := by
    simp only [Nat.mul_comm, Nat.mul_left_comm]
  rw [e]; exact h

theorem dvd_common_right (a b : URat) : Divides (common a b) b := by
  unfold Divides common crossGcd
  simp only []
  have : Nat.gcd (a.num * b.den) (b.num * a.den) ∣ b.num * a.den := Nat.gcd_dvd_right _ _
  have h := Nat.mul_dvd_mul_left b.den this
  have e : b.num * (a.den * b.den) = b.den * (b.num * a.den) := by
    simp only [Nat.mul_comm, Nat.mul_left_comm]
  rw [e]; exact h

/-- The common unit is the *greatest* common divisor. -/
theorem dvd_common (x a b : URat) (h1 : Divides x a) (h2 : Divides x b) : Divides x (common a b) := by
  unfold Divides at *
  unfold common crossGcd
  simp only []
  rw [← Nat.gcd_mul_right]
  apply Nat.dvd_gcd
  · have h := Nat.mul_dvd_mul_left b.den h1
    have e1 : a.den * b.den * x.num = b.den * (a.den * x.num) := by simp only [Nat.mul_comm, Nat.mul_left_comm]
    have e2 : a.num * b.den * x.den = b.den * (a.num * x.den) := by simp only [Nat.mul_comm, Nat.mul_left_comm]
    rw [e1, e2]; exact h
  · have h := Nat.mul_dvd_mul_left a.den h2
    have e1 : a.den * b.den * x.num = a.den * (b.den * x.num) := by simp only [Nat.mul_comm, Nat.mul_left_comm]
    have e2 : b.num * a.den * x.den = a.den * (b.num * x.den) := by simp only [Nat.mul_comm, Nat.mul_left_comm]
    rw [e1, e2]; exact h

theorem dvd_refl (a : URat) : Divides a a := by
  unfold Divides; rw [Nat.mul_comm]; exact Nat.dvd_refl _

theorem reduced_cross (u : URat) : u.den * (reduced u).num = u.num * (reduced u).den := by
  unfold reduced
  simp only []
  rw [← Nat.mul_div_assoc _ (Nat.gcd_dvd_left _ _), ← Nat.mul_div_assoc _ (Nat.gcd_dvd_right _ _), Nat.mul_comm]

theorem reduced_dvd (u : URat) : Divides (reduced u) u := by
  unfold Divides; rw [reduced_cross]; exact Nat.dvd_refl _

theorem dvd_reduced (u : URat) : Divides u (reduced u) := by
  unfold Divides
  have := reduced_cross u
  rw [Nat.mul_comm (reduced u).den, Nat.mul_comm (reduced u).num, ← this]
  exact Nat.dvd_refl _

theorem reduced_pos (u : URat) (h : u.Pos) : (reduced u).Pos := by
  unfold reduced Pos
  simp only []
  have hg : 0 < Nat.gcd u.num u.den := Nat.gcd_pos_of_pos_left _ h.1
  exact ⟨Nat.div_pos (Nat.le_of_dvd h.1 (Nat.gcd_dvd_left _ _)) hg, Nat.div_pos (Nat.le_of_dvd h.2 (Nat.gcd_dvd_right _ _)) hg⟩

theorem common_pos' (a b : URat) (ha : a.Pos) (hb : b.Pos) : (common a b).Pos := by
  unfold common Pos
  exact ⟨crossGcd_pos a b ha hb, Nat.mul_pos ha.2 hb.2⟩

end URat

namespace Point
open URat

theorem gcdScale_pos (a b : URat) (ha : a.Pos) (hb : b.Pos) : (gcdScale a b).Pos :=
  reduced_pos _ (common_pos' a b ha hb)

theorem gcdScale_dvd_left (a b : URat) (ha : a.Pos) (hb : b.Pos) : Divides (gcdScale a b) a :=
  Divides.trans (common_pos' a b ha hb) (reduced_dvd _) (dvd_common_left a b)

theorem gcdScale_dvd_right (a b : URat) (ha : a.Pos) (hb : b.Pos) : Divides (gcdScale a b) b :=
  Divides.trans (common_pos' a b ha hb) (reduced_dvd _) (dvd_common_right a b)

/-- If `x` divides `y`, the ratio `y / x` in lowest terms has denominator 1. -/
theorem ratio_of_dvd (x y : URat) (hx : x.Pos) (hy : y.Pos) (h : Divides x y) : (ratio y x).2 = 1 := by
  unfold ratio
  simp only []
  unfold Divides at h
  have hd : 0 < y.den * x.num := Nat.mul_pos hy.2 hx.1
  have hg : Nat.gcd (y.num * x.den) (y.den * x.num) = y.den * x.num := Nat.gcd_eq_right h
  rw [hg]
  exact Nat.div_self hd

theorem ratio_self (a : URat) (ha : a.Pos) : ratio a a = (1, 1) := by
  unfold ratio
  simp only []
  have hn : 0 < a.num * a.den := Nat.mul_pos ha.1 ha.2
  rw [Nat.mul_comm a.den a.num, Nat.gcd_self, Nat.div_self hn]

theorem ratioL_self (a : URat) (ha : a.Pos) : URat.ratioL a a = 1 ∧ URat.ratioR a a = 1 := by
  unfold URat.ratioL URat.ratioR URat.crossGcd
  have hn : 0 < a.num * a.den := Nat.mul_pos ha.1 ha.2
  rw [Nat.gcd_self, Nat.div_self hn]
  exact ⟨rfl, rfl⟩

end Point
end Au

/-
  Primality certificates (Lucas / Pratt) evaluated with the *verified* `powMod` model: used to prove,
  inside Lean, that a concrete 64-bit number on which the library's `is_prime` answers "composite"
  is in fact prime.
-/
import AuProofs.Lemmas.Mod
import Mathlib.NumberTheory.LucasPrimality
import Mathlib.Tactic.NormNum.Prime
namespace Au
namespace U64

theorem powMod_val {a e p : Nat} (hp : 1 < p) (hp64 : p < M) : (powMod a e p).val = a ^ e % p := by
  rw [powMod_spec' hp hp64]

theorem zmod_pow_eq_one_iff (p a e : Nat) (hp : 1 < p) : ((a : ZMod p) ^ e = 1) ↔ a ^ e % p = 1 := by
  have h : ((a : ZMod p) ^ e = 1) ↔ (((a ^ e : ℕ) : ZMod p) = ((1 : ℕ) : ZMod p)) := by
    push_cast
    exact Iff.rfl
  rw [h, ZMod.natCast_eq_natCast_iff', Nat.mod_eq_of_lt hp]

/-- Lucas primality test with the modular powers computed by the verified model of `pow_mod`. -/
theorem prime_of_lucas_cert (p a : Nat) (hp : 1 < p) (hp64 : p < M)
    (h1 : (powMod a (p - 1) p).val = 1)
    (hq : ∀ q : Nat, q.Prime → q ∣ p - 1 → (powMod a ((p - 1) / q) p).val ≠ 1) : p.Prime := by
  apply lucas_primality p (a : ZMod p)
  · rw [zmod_pow_eq_one_iff p a _ hp, ← powMod_val hp hp64]
    exact h1
  · intro q hqp hqd
    rw [Ne, zmod_pow_eq_one_iff p a _ hp, ← powMod_val hp hp64]
    exact hq q hqp hqd

theorem prime_dvd_two_pow {q k : Nat} (hq : q.Prime) (h : q ∣ 2 ^ k) : q = 2 :=
  (Nat.prime_dvd_prime_iff_eq hq Nat.prime_two).1 (hq.dvd_of_dvd_pow h)

theorem prime_550379 : Nat.Prime 550379 := by norm_num
theorem prime_4219 : Nat.Prime 4219 := by norm_num
theorem prime_743 : Nat.Prime 743 := by norm_num
theorem prime_37 : Nat.Prime 37 := by norm_num

theorem prime_363250141 : Nat.Prime 363250141 := by
  apply prime_of_lucas_cert 363250141 2 (by decide) (by decide) (by decide +kernel)
  intro q hq hd
  have hfac : (363250141 - 1 : Nat) = 2 ^ 2 * 3 * 5 * 11 * 550379 := by norm_num
  rw [hfac] at hd
  rcases (Nat.Prime.dvd_mul hq).1 hd with h | h
  · rcases (Nat.Prime.dvd_mul hq).1 h with h | h
    · rcases (Nat.Prime.dvd_mul hq).1 h with h | h
      · rcases (Nat.Prime.dvd_mul hq).1 h with h | h
        · have := prime_dvd_two_pow hq h; subst this; decide +kernel
        · have := (Nat.prime_dvd_prime_iff_eq hq Nat.prime_three).1 h; subst this; decide +kernel
      · have := (Nat.prime_dvd_prime_iff_eq hq Nat.prime_five).1 h; subst this; decide +kernel
    · have := (Nat.prime_dvd_prime_iff_eq hq (by norm_num : Nat.Prime 11)).1 h; subst this; decide +kernel
  · have := (Nat.prime_dvd_prime_iff_eq hq prime_550379).1 h; subst this; decide +kernel

theorem prime_79888877009849 : Nat.Prime 79888877009849 := by
  apply prime_of_lucas_cert 79888877009849 3 (by decide) (by decide) (by decide +kernel)
  intro q hq hd
  have hfac : (79888877009849 - 1 : Nat) = 2 ^ 3 * 37 * 743 * 363250141 := by norm_num
  rw [hfac] at hd
  rcases (Nat.Prime.dvd_mul hq).1 hd with h | h
  · rcases (Nat.Prime.dvd_mul hq).1 h with h | h
    · rcases (Nat.Prime.dvd_mul hq).1 h with h | h
      · have := prime_dvd_two_pow hq h; subst this; decide +kernel
      · have := (Nat.prime_dvd_prime_iff_eq hq prime_37).1 h; subst this; decide +kernel
    · have := (Nat.prime_dvd_prime_iff_eq hq prime_743).1 h; subst this; decide +kernel
  · have := (Nat.prime_dvd_prime_iff_eq hq prime_363250141).1 h; subst this; decide +kernel

/-- The 64-bit prime on which `is_perfect_square` (hence `strong_lucas`, `baillie_psw`, `is_prime`)
answers wrongly. -/
theorem prime_10785637507345693793 : Nat.Prime 10785637507345693793 := by
  apply prime_of_lucas_cert 10785637507345693793 3 (by decide) (by decide) (by decide +kernel)
  intro q hq hd
  have hfac : (10785637507345693793 - 1 : Nat) = 2 ^ 5 * 4219 * 79888877009849 := by norm_num
  rw [hfac] at hd
  rcases (Nat.Prime.dvd_mul hq).1 hd with h | h
  · rcases (Nat.Prime.dvd_mul hq).1 h with h | h
    · have := prime_dvd_two_pow hq h; subst this; decide +kernel
    · have := (Nat.prime_dvd_prime_iff_eq hq prime_4219).1 h; subst this; decide +kernel
  · have := (Nat.prime_dvd_prime_iff_eq hq prime_79888877009849).1 h; subst this; decide +kernel

end U64
end Au

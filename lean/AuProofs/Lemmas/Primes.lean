/-
  Lemmas about AuModel.Primes: gcd, decompose, the Miller-Rabin loop.
-/
import AuModel.Primes
import AuProofs.Lemmas.Mod
import Mathlib.Data.Nat.Sqrt
import Mathlib.Tactic.Zify
import Mathlib.Tactic.Linarith
namespace Au
namespace U64

theorem bind_val {α β : Type} (x : W α) (f : α → W β) : (x >>= f).val = (f x.val).val := rfl
theorem bind_stuck {α β : Type} (x : W α) (f : α → W β) : (x >>= f).stuck = (x.stuck || (f x.val).stuck) := rfl

theorem gcdLoop_spec (fuel : Nat) : ∀ a b : Nat, b ≤ fuel → gcdLoop fuel a b = W.ok (Nat.gcd a b) := by
  induction fuel with
  | zero =>
    intro a b hb
    have : b = 0 := by omega
    subst this
    unfold gcdLoop
    simp [pure_eq_ok]
  | succ f ih =>
    intro a b hb
    unfold gcdLoop
    by_cases h : b ≠ 0
    · rw [if_pos h]
      simp only []
      have hb0 : 0 < b := Nat.pos_of_ne_zero h
      rw [mod_ok hb0, ok_bind, ih _ _ (by have := Nat.mod_lt a hb0; omega)]
      congr 1
      rw [Nat.gcd_comm a b, Nat.gcd_rec b a, Nat.gcd_comm]
    · rw [if_neg h]
      have : b = 0 := by omega
      subst this
      simp [pure_eq_ok]

theorem gcd_spec' (a b : Nat) : gcd a b = W.ok (Nat.gcd a b) := gcdLoop_spec b a b (Nat.le_refl b)

theorem decomposeLoop_spec (fuel : Nat) : ∀ s d : Nat, 0 < d → d < 2 ^ fuel → s + fuel ≤ 64 →
    ∃ s' d', decomposeLoop fuel s d = W.ok ⟨s', d'⟩ ∧ 2 ^ s * d = 2 ^ s' * d' ∧ d' % 2 = 1 ∧ s' ≤ s + fuel := by
  induction fuel with
  | zero => intro s d h0 h1 _; simp at h1; omega
  | succ f ih =>
    intro s d h0 h1 hs
    unfold decomposeLoop
    by_cases h : d % 2 = 0
    · rw [if_pos h]
      simp only []
      have hM : s + 1 < M := by
        have : (64 : Nat) < M := by decide
        omega
      rw [div_ok (by decide), ok_bind, add_ok hM, ok_bind]
      have hd2 : d / 2 < 2 ^ f := by
        rw [Nat.pow_succ] at h1
        omega
      obtain ⟨s', d', h3, h4, h5, h6⟩ := ih (s + 1) (d / 2) (by omega) hd2 (by omega)
      refine ⟨s', d', h3, ?_, h5, by omega⟩
      rw [← h4, Nat.pow_succ]
      have : d = 2 * (d / 2) := by omega
      conv_lhs => rw [this]
      ring
    · rw [if_neg h]
      exact ⟨s, d, rfl, rfl, by omega, by omega⟩

theorem decompose_spec' {n : Nat} (h0 : 0 < n) (hn : n < M) :
    ∃ s d, decompose n = W.ok ⟨s, d⟩ ∧ n = 2 ^ s * d ∧ d % 2 = 1 ∧ s ≤ 64 := by
  obtain ⟨s, d, h1, h2, h3, h4⟩ := decomposeLoop_spec 64 0 n h0 (by rw [← M_eq]; exact hn) (by omega)
  exact ⟨s, d, h1, by simpa using h2, h3, by omega⟩

/-- The squaring loop of Miller-Rabin: starting from `x < n` it answers PROBABLY_PRIME exactly when
one of `x, x^2, x^4, …, x^(2^(k-1))` is `n - 1` modulo `n`. -/
theorem mrLoop_spec (n : Nat) (hn1 : 1 < n) (hn : n < M) (k : Nat) : ∀ x : Nat, x < n →
    mrLoop k x n = W.ok (if ∃ r, r < k ∧ x ^ (2 ^ r) % n = n - 1 then .probablyPrime else .composite) := by
  induction k with
  | zero => intro x _; unfold mrLoop; simp [pure_eq_ok]
  | succ k ih =>
    intro x hx
    unfold mrLoop
    by_cases h : x = n - 1
    · rw [if_pos h]
      have : ∃ r, r < k + 1 ∧ x ^ (2 ^ r) % n = n - 1 := ⟨0, by omega, by simp [h]⟩
      rw [if_pos this]
      rfl
    · rw [if_neg h, mulMod_spec' hx hx hn, ok_bind, ih _ (Nat.mod_lt _ (by omega))]
      congr 1
      have key : ∀ r, (x * x % n) ^ (2 ^ r) % n = x ^ (2 ^ (r + 1)) % n := by
        intro r
        rw [Nat.pow_mod, Nat.mod_mod, ← Nat.pow_mod, ← Nat.pow_two, ← Nat.pow_mul, Nat.pow_succ, Nat.mul_comm]
      by_cases hex : ∃ r, r < k ∧ (x * x % n) ^ (2 ^ r) % n = n - 1
      · rw [if_pos hex]
        obtain ⟨r, hr, he⟩ := hex
        rw [if_pos ⟨r + 1, by omega, by rw [← key]; exact he⟩]
      · rw [if_neg hex]
        have : ¬ ∃ r, r < k + 1 ∧ x ^ (2 ^ r) % n = n - 1 := by
          rintro ⟨r, hr, he⟩
          cases r with
          | zero => simp [Nat.mod_eq_of_lt hx] at he; exact h he
          | succ r => exact hex ⟨r, by omega, by rw [key]; exact he⟩
        rw [if_neg this]

/-- `n` is a strong probable prime to base `a` (with `n - 1 = 2^s d`, `d` odd). -/
def StrongProbablePrime (a n : Nat) : Prop :=
  ∃ s d, n - 1 = 2 ^ s * d ∧ d % 2 = 1 ∧ (a ^ d % n = 1 ∨ ∃ r, r < s ∧ a ^ (2 ^ r * d) % n = n - 1)

theorem two_pow_odd_unique {s d s' d' : Nat} (h : 2 ^ s * d = 2 ^ s' * d') (hd : d % 2 = 1) (hd' : d' % 2 = 1) :
    s = s' ∧ d = d' := by
  induction s generalizing s' with
  | zero =>
    cases s' with
    | zero => simp at h; exact ⟨rfl, h⟩
    | succ s' =>
      exfalso
      have h' : d = 2 * (2 ^ s' * d') := by
        calc d = 2 ^ 0 * d := by simp
          _ = 2 ^ (s' + 1) * d' := h
          _ = 2 * (2 ^ s' * d') := by rw [Nat.pow_succ]; ring
      omega
  | succ s ih =>
    cases s' with
    | zero =>
      exfalso
      have h' : d' = 2 * (2 ^ s * d) := by
        calc d' = 2 ^ 0 * d' := by simp
          _ = 2 ^ (s + 1) * d := h.symm
          _ = 2 * (2 ^ s * d) := by rw [Nat.pow_succ]; ring
      omega
    | succ s' =>
      rw [Nat.pow_succ, Nat.pow_succ] at h
      have : 2 ^ s * d = 2 ^ s' * d' := by
        have h' : 2 * (2 ^ s * d) = 2 * (2 ^ s' * d') := by
          calc 2 * (2 ^ s * d) = 2 ^ s * 2 * d := by ring
            _ = 2 ^ s' * 2 * d' := h
            _ = 2 * (2 ^ s' * d') := by ring
        omega
      obtain ⟨h1, h2⟩ := ih this
      exact ⟨by omega, h2⟩

theorem millerRabin_spec' {a n : Nat} (ha : 2 ≤ a) (han : a + 2 ≤ n) (hodd : n % 2 = 1) (hn : n < M) [Decidable (StrongProbablePrime a n)] :
    millerRabin a n = W.ok (if StrongProbablePrime a n then .probablyPrime else .composite) := by
  unfold millerRabin
  rw [if_neg (by omega), add_ok (by omega), ok_bind, if_neg (by omega), if_neg (by omega), sub_ok (by omega) hn, ok_bind]
  obtain ⟨s, d, h1, h2, h3, _⟩ := decompose_spec' (n := n - 1) (by omega) (by omega)
  rw [h1, ok_bind, powMod_spec' (by omega) hn, ok_bind]
  simp only []
  by_cases hx : a ^ d % n = 1
  · rw [if_pos hx, if_pos ⟨s, d, h2, h3, Or.inl hx⟩]
    rfl
  · rw [if_neg hx, mrLoop_spec n (by omega) hn s _ (Nat.mod_lt _ (by omega))]
    congr 1
    have key : ∀ r, (a ^ d % n) ^ (2 ^ r) % n = a ^ (2 ^ r * d) % n := by
      intro r
      rw [← Nat.pow_mod, ← Nat.pow_mul, Nat.mul_comm]
    by_cases hex : ∃ r, r < s ∧ (a ^ d % n) ^ (2 ^ r) % n = n - 1
    · rw [if_pos hex]
      obtain ⟨r, hr, he⟩ := hex
      rw [if_pos ⟨s, d, h2, h3, Or.inr ⟨r, hr, by rw [← key]; exact he⟩⟩]
    · rw [if_neg hex]
      have : ¬ StrongProbablePrime a n := by
        rintro ⟨s', d', e1, e2, e3⟩
        obtain ⟨es, ed⟩ := two_pow_odd_unique (h2.symm.trans e1) h3 e2
        subst es; subst ed
        rcases e3 with e3 | ⟨r, hr, he⟩
        · exact hx e3
        · exact hex ⟨r, hr, by rw [key]; exact he⟩
      rw [if_neg this]

theorem squareTest_spec {n c : Nat} (hc : 0 < c) : squareTest n c = W.ok (decide (c * c = n)) := by
  unfold squareTest
  rw [div_ok hc, ok_bind]
  have hdm := Nat.div_add_mod n c
  by_cases h : n / c = c
  · rw [if_pos h, mod_ok hc, ok_bind]
    show W.ok (decide (n % c = 0)) = W.ok (decide (c * c = n))
    congr 1
    rw [h] at hdm
    by_cases h0 : n % c = 0
    · have : c * c = n := by omega
      simp [h0, this]
    · have : c * c ≠ n := by omega
      simp [h0, this]
  · rw [if_neg h]
    show W.ok false = W.ok (decide (c * c = n))
    congr 1
    have : c * c ≠ n := by
      intro he
      apply h
      rw [← he]
      exact Nat.mul_div_cancel c hc
    simp [this]

/-- Integer AM–GM: a Newton step from any `x ≥ 1` lands at or above `⌊√n⌋`. -/
theorem newton_ge_sqrt (n x : Nat) (hx : 0 < x) : Nat.sqrt n ≤ (x + n / x) / 2 := by
  have hs : Nat.sqrt n * Nat.sqrt n ≤ n := Nat.sqrt_le n
  have h2 : 2 * Nat.sqrt n - x ≤ n / x := by
    rw [Nat.le_div_iff_mul_le hx]
    by_cases hle : x ≤ 2 * Nat.sqrt n
    · have : (2 * Nat.sqrt n - x) * x ≤ Nat.sqrt n * Nat.sqrt n := by
        zify [hle]
        nlinarith [sq_nonneg ((Nat.sqrt n : ℤ) - (x : ℤ))]
      omega
    · have : 2 * Nat.sqrt n - x = 0 := by omega
      rw [this]; simp
  omega

/-- A Newton step from strictly above `⌊√n⌋` strictly decreases. -/
theorem newton_lt (n x : Nat) (hx : Nat.sqrt n < x) : (x + n / x) / 2 < x := by
  have h1 : n < x * x := Nat.sqrt_lt.1 hx
  have h2 : n / x < x := by
    rw [Nat.div_lt_iff_lt_mul (by omega)]
    exact h1
  omega

theorem perfectSquareLoop_spec (n : Nat) (hn2 : 2 ≤ n) (hn : n < M) (fuel : Nat) : ∀ prev : Nat,
    prev + 1 ≤ fuel → 1 ≤ prev → Nat.sqrt n ≤ prev → prev ≤ n / 2 →
    perfectSquareLoop fuel prev n = W.ok (decide (Nat.sqrt n * Nat.sqrt n = n)) := by
  have hs1 : 1 ≤ Nat.sqrt n := by
    rw [Nat.le_sqrt]; omega
  induction fuel with
  | zero => intro prev h; omega
  | succ f ih =>
    intro prev hf h1 hsp hhalf
    unfold perfectSquareLoop
    simp only []
    have hsum : prev + n / prev < M := by
      by_cases hp : prev = 1
      · subst hp
        have : Nat.sqrt n = 1 := by omega
        have : n < 4 := by
          have := Nat.sqrt_lt.1 (show Nat.sqrt n < 2 by omega)
          omega
        have hM : 8 < M := by decide
        simp; omega
      · have : n / prev ≤ n / 2 := Nat.div_le_div_left (by omega) (by decide)
        omega
    have hcs := newton_ge_sqrt n prev (by omega)
    have hc0 : 0 < (prev + n / prev) / 2 := by omega
    rw [div_ok (by omega), ok_bind, add_ok hsum, ok_bind, div_ok (by decide), ok_bind, squareTest_spec hc0, ok_bind]
    by_cases hsq : (prev + n / prev) / 2 * ((prev + n / prev) / 2) = n
    · have hdec : decide ((prev + n / prev) / 2 * ((prev + n / prev) / 2) = n) = true := by simp [hsq]
      rw [hdec, if_pos rfl]
      have : Nat.sqrt n = (prev + n / prev) / 2 := by
        have h' := Nat.sqrt_eq ((prev + n / prev) / 2)
        rw [hsq] at h'
        exact h'
      rw [this]
      simp [hsq, pure_eq_ok]
    · have hdec : decide ((prev + n / prev) / 2 * ((prev + n / prev) / 2) = n) = false := by simp [hsq]
      rw [hdec, if_neg (by simp)]
      by_cases hge : (prev + n / prev) / 2 ≥ prev
      · rw [if_pos hge]
        have hps : prev = Nat.sqrt n := by
          by_contra hne
          have := newton_lt n prev (by omega)
          omega
        have hnot : ¬ (Nat.sqrt n * Nat.sqrt n = n) := by
          intro he
          apply hsq
          have hdiv : n / prev = prev := by
            rw [hps]
            have h' := Nat.mul_div_cancel (Nat.sqrt n) (show 0 < Nat.sqrt n by omega)
            rw [he] at h'
            exact h'
          rw [hdiv]
          have : (prev + prev) / 2 = prev := by omega
          rw [this, hps]; exact he
        simp [hnot, pure_eq_ok]
      · rw [if_neg hge]
        exact ih _ (by omega) (by omega) hcs (by omega)

theorem isPerfectSquare_spec' (n : Nat) (hn : n < M) :
    isPerfectSquare n = W.ok (decide (Nat.sqrt n * Nat.sqrt n = n)) := by
  unfold isPerfectSquare
  by_cases h : n < 2
  · rw [if_pos h]
    have : n = 0 ∨ n = 1 := by omega
    rcases this with h | h <;> subst h <;> simp [pure_eq_ok]
  · rw [if_neg h, div_ok (by decide), ok_bind]
    apply perfectSquareLoop_spec n (by omega) hn _ _ (Nat.le_refl _) (by omega) _ (Nat.le_refl _)
    have hs : Nat.sqrt n * Nat.sqrt n ≤ n := Nat.sqrt_le n
    by_cases h1 : Nat.sqrt n ≤ 1
    · omega
    · have : 2 * Nat.sqrt n ≤ Nat.sqrt n * Nat.sqrt n := Nat.mul_le_mul_right _ (by omega)
      omega

end U64
end Au

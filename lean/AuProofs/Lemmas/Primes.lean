/-
  Lemmas about AuModel.Primes: gcd, decompose, the Miller-Rabin loop.
-/
import AuModel.Primes
import AuProofs.Lemmas.Mod
namespace Au
namespace U64

theorem bind_val {α β : Type} (x : W α) (f : α → W β) : (x >>= f).val = (f x.val).val := rfl
theorem bind_stuck {α β : Type} (x : W α) (f : α → W β) : (x >>= f).stuck = (x.stuck || (f x.val).stuck) := rfl

theorem gcdLoop_spec (fuel : Nat) : ∀ a b : Nat, b ≤ fuel → gcdLoop fuel a b = W.ok (Nat.gcd a b) := by
  induction fuel with
  | zero =>
    intro a b hb
    have : b = 0 := by omega
    subst this
    unfold gcdLoop
    simp [pure_eq_ok]
  | succ f ih =>
    intro a b hb
    unfold gcdLoop
    by_cases h : b ≠ 0
    · rw [if_pos h]
      simp only []
      have hb0 : 0 < b := Nat.pos_of_ne_zero h
      rw [mod_ok hb0, ok_bind, ih _ _ (by have := Nat.mod_lt a hb0; omega)]
      congr 1
      rw [Nat.gcd_comm a b, Nat.gcd_rec b a, Nat.gcd_comm]
    · rw [if_neg h]
      have : b = 0 := by omega
      subst this
      simp [pure_eq_ok]

theorem gcd_spec' (a b : Nat) : gcd a b = W.ok (Nat.gcd a b) := gcdLoop_spec b a b (Nat.le_refl b)

theorem decomposeLoop_spec (fuel : Nat) : ∀ s d : Nat, 0 < d → d < 2 ^ fuel → s + fuel ≤ 64 →
    ∃ s' d', decomposeLoop fuel s d = W.ok ⟨s', d'⟩ ∧ 2 ^ s * d = 2 ^ s' * d' ∧ d' % 2 = 1 ∧ s' ≤ s + fuel := by
  induction fuel with
  | zero => intro s d h0 h1 _; simp at h1; omega
  | succ f ih =>
    intro s d h0 h1 hs
    unfold decomposeLoop
    by_cases h : d % 2 = 0
    · rw [if_pos h]
      simp only []
      have hM : s + 1 < M := by
        have : (64 : Nat) < M := by decide
        omega
      rw [div_ok (by decide), ok_bind, add_ok hM, ok_bind]
      have hd2 : d / 2 < 2 ^ f := by
        rw [Nat.pow_succ] at h1
        omega
      obtain ⟨s', d', h3, h4, h5, h6⟩ := ih (s + 1) (d / 2) (by omega) hd2 (by omega)
      refine ⟨s', d', h3, ?_, h5, by omega⟩
      rw [← h4, Nat.pow_succ]
      have : d = 2 * (d / 2) := by omega
      conv_lhs => rw [this]
      ring
    · rw [if_neg h]
      exact ⟨s, d, rfl, rfl, by omega, by omega⟩

theorem decompose_spec' {n : Nat} (h0 : 0 < n) (hn : n < M) :
    ∃ s d, decompose n = W.ok ⟨s, d⟩ ∧ n = 2 ^ s * d ∧ d % 2 = 1 ∧ s ≤ 64 := by
  obtain ⟨s, d, h1, h2, h3, h4⟩ := decomposeLoop_spec 64 0 n h0 (by rw [← M_eq]; exact hn) (by omega)
  exact ⟨s, d, h1, by simpa using h2, h3, by omega⟩

/-- The squaring loop of Miller-Rabin: starting from `x < n` it answers PROBABLY_PRIME exactly when
one of `x, x^2, x^4, …, x^(2^(k-1))` is `n - 1` modulo `n`. -/
theorem mrLoop_spec (n : Nat) (hn1 : 1 < n) (hn : n < M) (k : Nat) : ∀ x : Nat, x < n →
    mrLoop k x n = W.ok (if ∃ r, r < k ∧ x ^ (2 ^ r) % n = n - 1 then .probablyPrime else .composite) := by
  induction k with
  | zero => intro x _; unfold mrLoop; simp [pure_eq_ok]
  | succ k ih =>
    intro x hx
    unfold mrLoop
    by_cases h : x = n - 1
    · rw [if_pos h]
      have : ∃ r, r < k + 1 ∧ x ^ (2 ^ r) % n = n - 1 := ⟨0, by omega, by simp [h]⟩
      rw [if_pos this]
      rfl
    · rw [if_neg h, mulMod_spec' hx hx hn, ok_bind, ih _ (Nat.mod_lt _ (by omega))]
      congr 1
      have key : ∀ r, (x * x % n) ^ (2 ^ r) % n = x ^ (2 ^ (r + 1)) % n := by
        intro r
        rw [Nat.pow_mod, Nat.mod_mod, ← Nat.pow_mod, ← Nat.pow_two, ← Nat.pow_mul, Nat.pow_succ, Nat.mul_comm]
      by_cases hex : ∃ r, r < k ∧ (x * x % n) ^ (2 ^ r) % n = n - 1
      · rw [if_pos hex]
        obtain ⟨r, hr, he⟩ := hex
        rw [if_pos ⟨r + 1, by omega, by rw [← key]; exact he⟩]
      · rw [if_neg hex]
        have : ¬ ∃ r, r < k + 1 ∧ x ^ (2 ^ r) % n = n - 1 := by
          rintro ⟨r, hr, he⟩
          cases r with
          | zero => simp [Nat.mod_eq_of_lt hx] at he; exact h he
          | succ r => exact hex ⟨r, by omega, by rw [key]; exact he⟩
        rw [if_neg this]

/-- `n` is a strong probable prime to base `a` (with `n - 1 = 2^s d`, `d` odd). -/
def StrongProbablePrime (a n : Nat) : Prop :=
  ∃ s d, n - 1 = 2 ^ s * d ∧ d % 2 = 1 ∧ (a ^ d % n = 1 ∨ ∃ r, r < s ∧ a ^ (2 ^ r * d) % n = n - 1)

theorem two_pow_odd_unique {s d s' d' : Nat} (h : 2 ^ s * d = 2 ^ s' * d') (hd : d % 2 = 1) (hd' : d' % 2 = 1) :
    s = s' ∧ d = d' := by
  induction s generalizing s' with
  | zero =>
    cases s' with
    | zero => simp at h; exact ⟨rfl, h⟩
    | succ s' =>
      exfalso
      have h' : d = 2 * (2 ^ s' * d') := by
        calc d = 2 ^ 0 * d := by simp
          _ = 2 ^ (s' + 1) * d' := h
          _ = 2 * (2 ^ s' * d') := by rw [Nat.pow_succ]; ring
      omega
  | succ s ih =>
    cases s' with
    | zero =>
      exfalso
      have h' : d' = 2 * (2 ^ s * d) := by
        calc d' = 2 ^ 0 * d' := by simp
          _ = 2 ^ (s + 1) * d := h.symm
          _ = 2 * (2 ^ s * d) := by rw [Nat.pow_succ]; ring
      omega
    | succ s' =>
      rw [Nat.pow_succ, Nat.pow_succ] at h
      have : 2 ^ s * d = 2 ^ s' * d' := by
        have h' : 2 * (2 ^ s * d) = 2 * (2 ^ s' * d') := by
          calc 2 * (2 ^ s * d) = 2 ^ s * 2 * d := by ring
            _ = 2 ^ s' * 2 * d' := h
            _ = 2 * (2 ^ s' * d') := by ring
        omega
      obtain ⟨h1, h2⟩ := ih this
      exact ⟨by omega, h2⟩

theorem millerRabin_spec' {a n : Nat} (ha : 2 ≤ a) (han : a + 2 ≤ n) (hodd : n % 2 = 1) (hn : n < M) [Decidable (StrongProbablePrime a n)] :
    millerRabin a n = W.ok (if StrongProbablePrime a n then .probablyPrime else .composite) := by
  unfold millerRabin
  rw [if_neg (by omega), add_ok (by omega), ok_bind, if_neg (by omega), if_neg (by omega), sub_ok (by omega) hn, ok_bind]
  obtain ⟨s, d, h1, h2, h3, _⟩ := decompose_spec' (n := n - 1) (by omega) (by omega)
  rw [h1, ok_bind, powMod_spec' (by omega) hn, ok_bind]
  simp only []
  by_cases hx : a ^ d % n = 1
  · rw [if_pos hx, if_pos ⟨s, d, h2, h3, Or.inl hx⟩]
    rfl
  · rw [if_neg hx, mrLoop_spec n (by omega) hn s _ (Nat.mod_lt _ (by omega))]
    congr 1
    have key : ∀ r, (a ^ d % n) ^ (2 ^ r) % n = a ^ (2 ^ r * d) % n := by
      intro r
      rw [← Nat.pow_mod, ← Nat.pow_mul, Nat.mul_comm]
    by_cases hex : ∃ r, r < s ∧ (a ^ d % n) ^ (2 ^ r) % n = n - 1
    · rw [if_pos hex]
      obtain ⟨r, hr, he⟩ := hex
      rw [if_pos ⟨s, d, h2, h3, Or.inr ⟨r, hr, by rw [← key]; exact he⟩⟩]
    · rw [if_neg hex]
      have : ¬ StrongProbablePrime a n := by
        rintro ⟨s', d', e1, e2, e3⟩
        obtain ⟨es, ed⟩ := two_pow_odd_unique (h2.symm.trans e1) h3 e2
        subst es; subst ed
        rcases e3 with e3 | ⟨r, hr, he⟩
        · exact hx e3
        · exact hex ⟨r, hr, by rw [key]; exact he⟩
      rw [if_neg this]

theorem bind_wrapped' {α β : Type} (x : W α) (f : α → W β) : (x >>= f).wrapped = (x.wrapped || (f x.val).wrapped) := by
  cases x; rfl
theorem bind_val'' {α β : Type} (x : W α) (f : α → W β) : (x >>= f).val = (f x.val).val := by
  cases x; rfl

/-- Soundness of `is_perfect_square` on the executions in which `curr * curr` never wraps: -/
theorem perfectSquareLoop_sound (n : Nat) (fuel : Nat) : ∀ prev : Nat,
    (perfectSquareLoop fuel prev n).val = true → (perfectSquareLoop fuel prev n).wrapped = false → ∃ r, r * r = n := by
  induction fuel with
  | zero =>
    intro prev hv _
    unfold perfectSquareLoop at hv
    simp [W.outOfFuel] at hv
  | succ f ih =>
    intro prev hv hw
    unfold perfectSquareLoop at hv hw
    simp only [bind_val'', bind_wrapped', Bool.or_eq_false_iff] at hv hw
    obtain ⟨_, _, _, hmul, hrest⟩ := hw
    have hlt : ¬ (M ≤ (div (add prev (div n prev).val).val 2).val * (div (add prev (div n prev).val).val 2).val) := by
      simpa [mul] using hmul
    have hsq : (mul (div (add prev (div n prev).val).val 2).val (div (add prev (div n prev).val).val 2).val).val
        = (div (add prev (div n prev).val).val 2).val * (div (add prev (div n prev).val).val 2).val := by
      simp only [mul]
      exact Nat.mod_eq_of_lt (by omega)
    split at hv
    · rename_i heq
      exact ⟨_, by rw [← hsq]; exact heq⟩
    · rename_i hne
      rw [if_neg hne] at hrest
      split at hv
      · simp [pure_eq_ok] at hv
      · rename_i hge
        rw [if_neg hge] at hrest
        exact ih _ hv hrest

theorem isPerfectSquare_sound (n : Nat) (hv : (isPerfectSquare n).val = true)
    (hw : (isPerfectSquare n).wrapped = false) : ∃ r, r * r = n := by
  unfold isPerfectSquare at hv hw
  split at hv
  · rename_i h
    have : n = 0 ∨ n = 1 := by omega
    rcases this with h | h
    · exact ⟨0, by omega⟩
    · exact ⟨1, by omega⟩
  · rename_i h
    rw [if_neg h] at hw
    simp only [bind_val'', bind_wrapped', Bool.or_eq_false_iff] at hv hw
    exact perfectSquareLoop_sound n _ _ hv hw.2

end U64
end Au
